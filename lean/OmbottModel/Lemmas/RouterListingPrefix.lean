import OmbottModel.Lemmas.RouterListingKeys
import OmbottModel.Lemmas.RouterEditRem
/-!
C11 (listing), helper lemmas (5): `_routes_iter(startswith=…)` lists exactly the entries of the
full enumeration whose pattern starts with `startswith` (as `RadiDict._match` without filters
reads patterns: up to filters), in the same order.
-/
namespace Ombott.Router
open Py

/-- the pattern of the entry starts with `sw`, filters aside -/
def prefB (sw : List Sym) (l : Listed) : Bool := (shape sw).isPrefixOf (shape l.pat)

theorem prefB_iff (sw : List Sym) (l : Listed) : prefB sw l = true ↔ shape sw <+: shape l.pat := by
  unfold prefB; exact List.isPrefixOf_iff_prefix

theorem prefB_nil (l : Listed) : prefB [] l = true := by simp [prefB]

theorem prefB_of_nil {s : Sym} {r : List Sym} {l : Listed} (h : l.pat = []) : prefB (s :: r) l = false := by
  simp [prefB, h]

theorem prefB_head_ne {s s' : Sym} {r q : List Sym} {l : Listed} (hq : l.pat = s' :: q)
    (h : shapeSym s ≠ shapeSym s') : prefB (s :: r) l = false := by
  rw [Bool.eq_false_iff, ne_eq, prefB_iff, hq]
  simp only [shape_cons, List.cons_prefix_cons, not_and]
  intro e; exact absurd e h

theorem Listed.map_under_nil (l : List Listed) : l.map (Listed.under []) = l := by
  induction l with
  | nil => rfl
  | cons x xs ih => rw [List.map_cons, ih]; cases x; rfl

theorem filter_eq_nil_of {α} {p : α → Bool} {l : List α} (h : ∀ x ∈ l, p x = false) : l.filter p = [] := by
  rw [List.filter_eq_nil_iff]; intro x hx; simp [h x hx]

theorem filter_eq_self_of {α} {p : α → Bool} {l : List α} (h : ∀ x ∈ l, p x = true) : l.filter p = l := by
  rw [List.filter_eq_self]; exact h

/-- the node the enumeration starts at after `_match` walked `walked` below `n` -/
def lastNode (n : Node) (walked : List PathEl) : Node := (walked.getLast?.map (·.2)).getD n

theorem lastNode_cons (n : Node) (b : Bool) (k : Node) (w : List PathEl) :
    lastNode n ((b, k) :: w) = lastNode k w := by
  cases w with
  | nil => rfl
  | cons x xs =>
    have h1 : ((b, k) :: x :: xs).getLast? = (x :: xs).getLast? := List.getLast?_cons_cons
    have h2 : (x :: xs).getLast? = some ((x :: xs).getLast (by simp)) := List.getLast?_eq_some_getLast (by simp)
    simp only [lastNode, h1, h2, Option.map_some, Option.getD_some]

mutual
theorem listPostN_head (yh : Bool) (n : Node) (h : WFN n) (l : Listed) (hl : l ∈ listPostN yh n) :
    l.pat = [] ∨ (∃ c q, l.pat = .lit c :: q) ∨ (∃ g q, l.pat = .tok g :: q) := by
  match n with
  | .mk k d pk f hk lits tok =>
    unfold WFN at h
    simp only [listPostN, List.mem_append] at hl
    rcases hl with (hl | hl) | hl
    · obtain ⟨_, _, c, q, _, hq⟩ := listPostL_head yh lits h.1 l hl
      exact Or.inr (Or.inl ⟨c, q, hq⟩)
    · obtain ⟨g, q, hq⟩ := listPostT_head yh tok l hl
      exact Or.inr (Or.inr ⟨g, q, hq⟩)
    · simp only [ownListed] at hl
      split at hl
      · simp only [List.mem_singleton] at hl; subst hl; exact Or.inl rfl
      · cases hl
theorem listPostT_head (yh : Bool) (t : Option Node) (l : Listed) (hl : l ∈ listPostT yh t) :
    ∃ g q, l.pat = .tok g :: q := by
  match t with
  | none => cases hl
  | some t0 =>
    simp only [listPostT, List.mem_map] at hl
    obtain ⟨x, _, rfl⟩ := hl
    exact ⟨t0.filter, x.pat, rfl⟩
theorem listPostL_head (yh : Bool) (ks : List Node) (h : WFL ks) (l : Listed) (hl : l ∈ listPostL yh ks) :
    ∃ k, k ∈ ks ∧ ∃ c q, k.key.head? = some c ∧ l.pat = .lit c :: q := by
  match ks with
  | [] => cases hl
  | k :: ks =>
    unfold WFL at h
    obtain ⟨hne, _, hks, _⟩ := h
    simp only [listPostL, List.mem_append, List.mem_map] at hl
    rcases hl with ⟨x, _, rfl⟩ | hl
    · cases hkk : k.key with
      | nil => exact absurd hkk hne
      | cons c cs =>
        exact ⟨k, by simp, c, cs.map Sym.lit ++ x.pat, by simp [hkk], by simp [Listed.under, litSyms]⟩
    · obtain ⟨k', hk', c, q, hc, hq⟩ := listPostL_head yh ks hks l hl
      exact ⟨k', by simp [hk'], c, q, hc, hq⟩
end

theorem prefB_under_lits (key : Str) (rest : List Sym) (x : Listed) :
    prefB (litSyms key ++ rest) (x.under (litSyms key)) = prefB rest x := by
  rw [Bool.eq_iff_iff, prefB_iff, prefB_iff]
  simp only [Listed.under, shape_append, shape_litSyms]
  exact List.prefix_append_right_inj _

theorem prefB_under_tok (g f : Option Fid) (rest : List Sym) (x : Listed) :
    prefB (.tok g :: rest) (x.under [.tok f]) = prefB rest x := by
  rw [Bool.eq_iff_iff, prefB_iff, prefB_iff]
  simp only [Listed.under, List.singleton_append, shape_cons, shapeSym, List.cons_prefix_cons, true_and]

theorem noTok_of_patStr_prefix {sw : List Sym} {key : Str} (hsw : NoLitTok sw) (hkey : Gen.paramToken ∉ key)
    (hp : patStr sw <+: key) : sw = litSyms (patStr sw) := by
  induction sw generalizing key with
  | nil => rfl
  | cons s r ih =>
    cases key with
    | nil => simp [patStr] at hp
    | cons c cs =>
      simp only [patStr_cons, List.cons_prefix_cons] at hp
      cases s with
      | tok g =>
        simp only [symChar] at hp
        exact absurd (by simp [hp.1]) hkey
      | lit d =>
        simp only [patStr_cons, symChar, litSyms, List.map_cons, List.cons.injEq, true_and]
        exact ih hsw.cons_tail (fun hm => hkey (by simp [hm])) hp.2

theorem litSyms_prefix {a b : Str} (h : a <+: b) : litSyms a <+: litSyms b := by
  obtain ⟨t, rfl⟩ := h
  exact ⟨litSyms t, by simp [litSyms]⟩

theorem key_noTok_of_entry {key : Str} {p : List Sym} (h : NoLitTok (litSyms key ++ p)) :
    Gen.paramToken ∉ key := by
  intro hm
  exact h Gen.paramToken (by simp only [List.mem_append, litSyms, List.mem_map]; exact Or.inl ⟨_, hm, rfl⟩) rfl

/-- what `seek*` finds is where the entries with the prefix live -/
def SeekOK (yh : Bool) (n : Node) (entries : List Listed) (sw : List Sym) (res : Option (List PathEl)) : Prop :=
  match res with
  | none => entries.filter (prefB sw) = []
  | some walked => entries.filter (prefB sw) = (listPostN yh (lastNode n walked)).map (Listed.under (pathSyms walked))

mutual
theorem seekN_ok (yh : Bool) (n : Node) (h : WFN n) (sw : List Sym) (hsw : NoLitTok sw)
    (hk : ∀ l ∈ listPostN yh n, NoLitTok l.pat) : SeekOK yh n (listPostN yh n) sw (seekN n sw) := by
  match n, sw with
  | .mk k d pk f hh lits tok, [] =>
    simp only [seekN, SeekOK, lastNode, List.getLast?_nil, Option.map_none, Option.getD_none, pathSyms]
    rw [filter_eq_self_of (fun x _ => prefB_nil x), Listed.map_under_nil]
  | .mk k d pk f hh lits tok, .lit c :: r =>
    have h' := h
    unfold WFN at h'
    have hown : (ownListed yh d pk hh).filter (prefB (.lit c :: r)) = [] := by
      apply filter_eq_nil_of
      intro x hx
      simp only [ownListed] at hx
      split at hx
      · simp only [List.mem_singleton] at hx; subst hx; exact prefB_of_nil rfl
      · cases hx
    have htok : (listPostT yh tok).filter (prefB (.lit c :: r)) = [] := by
      apply filter_eq_nil_of
      intro x hx
      obtain ⟨g, q, hq⟩ := listPostT_head yh tok x hx
      exact prefB_head_ne hq (by simp [shapeSym])
    have hL := seekL_ok yh lits h'.1 c r hsw (.mk k d pk f hh lits tok)
      (fun l hl => hk l (by simp [listPostN, hl]))
    simp only [seekN]
    unfold SeekOK at hL ⊢
    simp only [listPostN, List.filter_append, hown, htok, List.append_nil]
    exact hL
  | .mk k d pk f hh lits tok, .tok g :: r =>
    have h' := h
    unfold WFN at h'
    have hown : (ownListed yh d pk hh).filter (prefB (.tok g :: r)) = [] := by
      apply filter_eq_nil_of
      intro x hx
      simp only [ownListed] at hx
      split at hx
      · simp only [List.mem_singleton] at hx; subst hx; exact prefB_of_nil rfl
      · cases hx
    have hlit : (listPostL yh lits).filter (prefB (.tok g :: r)) = [] := by
      apply filter_eq_nil_of
      intro x hx
      obtain ⟨_, _, c, q, _, hq⟩ := listPostL_head yh lits h'.1 x hx
      exact prefB_head_ne hq (by simp [shapeSym])
    have hT := seekT_ok yh tok h'.2 g r hsw (.mk k d pk f hh lits tok)
      (fun l hl => hk l (by simp [listPostN, hl]))
    simp only [seekN]
    unfold SeekOK at hT ⊢
    simp only [listPostN, List.filter_append, hown, hlit, List.append_nil, List.nil_append]
    exact hT
theorem seekT_ok (yh : Bool) (t : Option Node) (h : WFT t) (g : Option Fid) (r : List Sym)
    (hsw : NoLitTok (.tok g :: r)) (n : Node) (hk : ∀ l ∈ listPostT yh t, NoLitTok l.pat) :
    SeekOK yh n (listPostT yh t) (.tok g :: r) (seekT t r) := by
  match t with
  | none => simp [seekT, SeekOK, listPostT]
  | some t0 =>
    unfold WFT at h
    have hsub : ∀ l ∈ listPostN yh t0, NoLitTok l.pat := by
      intro l hl
      have := hk (l.under [.tok t0.filter]) (by simp only [listPostT, List.mem_map]; exact ⟨l, hl, rfl⟩)
      exact NoLitTok.of_append_right (a := [.tok t0.filter]) this
    have ih := seekN_ok yh t0 h r hsw.cons_tail hsub
    have hf : (listPostT yh (some t0)).filter (prefB (.tok g :: r)) =
        ((listPostN yh t0).filter (prefB r)).map (Listed.under [.tok t0.filter]) := by
      simp only [listPostT, List.filter_map]
      congr 1
    simp only [seekT]
    cases hs : seekN t0 r with
    | none =>
      rw [hs] at ih
      simp only [SeekOK] at ih ⊢
      simp only [Option.map_none]
      rw [hf, ih, List.map_nil]
    | some w =>
      rw [hs] at ih
      simp only [SeekOK] at ih ⊢
      simp only [Option.map_some]
      rw [hf, ih, Listed.map_under_under, lastNode_cons]
      simp [pathSyms]
theorem seekL_ok (yh : Bool) (ks : List Node) (h : WFL ks) (c : Char) (r : List Sym)
    (hsw : NoLitTok (.lit c :: r)) (n : Node) (hk : ∀ l ∈ listPostL yh ks, NoLitTok l.pat) :
    SeekOK yh n (listPostL yh ks) (.lit c :: r) (seekL ks c r) := by
  match ks with
  | [] => simp [seekL, SeekOK, listPostL]
  | k :: ks =>
    have h' := h
    unfold WFL at h'
    obtain ⟨hne, hkwf, hks, hdist⟩ := h'
    have hsubk : ∀ l ∈ listPostN yh k, NoLitTok (litSyms k.key ++ l.pat) := by
      intro l hl
      exact hk (l.under (litSyms k.key)) (by simp only [listPostL, List.mem_append, List.mem_map]; exact Or.inl ⟨l, hl, rfl⟩)
    have hsubks : ∀ l ∈ listPostL yh ks, NoLitTok l.pat := fun l hl => hk l (by simp [listPostL, hl])
    simp only [seekL]
    by_cases hhead : (k.key.head? == some c) = true
    · simp only [hhead, if_true]
      -- the other literal children start with another character
      have hothers : (listPostL yh ks).filter (prefB (.lit c :: r)) = [] := by
        apply filter_eq_nil_of
        intro x hx
        obtain ⟨k', hk', c', q, hc', hq⟩ := listPostL_head yh ks hks x hx
        have hkc : k.key.head? = some c := eq_of_beq hhead
        have hne' : c ≠ c' := by
          intro e; subst e
          exact hdist k' hk' (hc'.trans hkc.symm)
        exact prefB_head_ne hq (by simp [shapeSym, hne'])
      cases hs : stripKey k.key (.lit c :: r) with
      | some rest =>
        simp only
        have hsplit := stripKey_some hs
        have hrest : NoLitTok rest := NoLitTok.of_append_right (a := litSyms k.key) (hsplit ▸ hsw)
        have ih := seekN_ok yh k hkwf rest hrest
          (fun l hl => NoLitTok.of_append_right (a := litSyms k.key) (hsubk l hl))
        have hf : ((listPostN yh k).map (Listed.under (litSyms k.key))).filter (prefB (.lit c :: r)) =
            ((listPostN yh k).filter (prefB rest)).map (Listed.under (litSyms k.key)) := by
          simp only [List.filter_map]
          congr 1
          apply List.filter_congr
          intro x _
          rw [hsplit]
          exact prefB_under_lits k.key rest x
        cases hsk : seekN k rest with
        | none =>
          rw [hsk] at ih
          simp only [SeekOK] at ih ⊢
          simp only [Option.map_none, listPostL, List.filter_append, hothers, List.append_nil]
          rw [hf, ih, List.map_nil]
        | some w =>
          rw [hsk] at ih
          simp only [SeekOK] at ih ⊢
          simp only [Option.map_some, listPostL, List.filter_append, hothers, List.append_nil]
          rw [hf, ih, Listed.map_under_under, lastNode_cons]
          simp [pathSyms]
      | none =>
        simp only
        by_cases hks' : keyStartsWith k.key (.lit c :: r) = true
        · simp only [hks', if_true, SeekOK, listPostL, List.filter_append, hothers, List.append_nil]
          have hp : patStr (.lit c :: r) <+: k.key := List.isPrefixOf_iff_prefix.mp hks'
          rw [lastNode_cons]
          simp only [lastNode, List.getLast?_nil, Option.map_none, Option.getD_none, pathSyms, List.append_nil]
          apply filter_eq_self_of
          intro x hx
          simp only [List.mem_map] at hx
          obtain ⟨y, hy, rfl⟩ := hx
          have hkey := key_noTok_of_entry (hsubk y hy)
          have hsw' := noTok_of_patStr_prefix hsw hkey hp
          rw [prefB_iff, hsw']
          simp only [Listed.under, shape_append, shape_litSyms]
          exact (litSyms_prefix hp).trans (List.prefix_append _ _)
        · simp only [hks', Bool.false_eq_true, if_false, SeekOK, listPostL, List.filter_append, hothers,
            List.append_nil]
          apply filter_eq_nil_of
          intro x hx
          simp only [List.mem_map] at hx
          obtain ⟨y, _, rfl⟩ := hx
          have hnp : ¬ patStr (.lit c :: r) <+: k.key := fun hp => hks' (List.isPrefixOf_iff_prefix.mpr hp)
          have := stripKey_none_not_prefix hs hnp (shape y.pat)
          rw [Bool.eq_false_iff]
          intro hpb
          rw [prefB_iff] at hpb
          simp only [Listed.under, shape_append, shape_litSyms] at hpb
          exact this hpb
    · have hhead' : (k.key.head? == some c) = false := by simpa using hhead
      simp only [hhead', Bool.false_eq_true, if_false]
      have hkno : ((listPostN yh k).map (Listed.under (litSyms k.key))).filter (prefB (.lit c :: r)) = [] := by
        apply filter_eq_nil_of
        intro x hx
        simp only [List.mem_map] at hx
        obtain ⟨y, _, rfl⟩ := hx
        cases hkk : k.key with
        | nil => exact absurd hkk hne
        | cons c0 cs =>
          have hne' : c ≠ c0 := by
            intro e; subst e; rw [hkk] at hhead'; simp at hhead'
          exact prefB_head_ne (s' := .lit c0) (q := cs.map Sym.lit ++ y.pat)
            (by simp [Listed.under, litSyms]) (by simp [shapeSym, hne'])
      have ih := seekL_ok yh ks hks c r hsw n hsubks
      unfold SeekOK at ih ⊢
      simp only [listPostL, List.filter_append, hkno, List.nil_append]
      exact ih
end

/-- **`_routes_iter(startswith=sw)`** lists the entries of the full enumeration whose pattern
starts with `sw` (filters aside), in the same order -/
theorem routesIter_startswith (yh : Bool) (t : Node) (h : WFN t) (sw : List Sym) (hsw : NoLitTok sw)
    (hk : ∀ l ∈ listPostN yh t, NoLitTok l.pat) :
    (routesIter t sw yh).map listedOf = (listPostN yh t).filter (prefB sw) := by
  cases sw with
  | nil => rw [routesIter_listed, filter_eq_self_of (fun x _ => prefB_nil x)]
  | cons s r =>
    have hok := seekN_ok yh t h (s :: r) hsw hk
    simp only [routesIter]
    cases hs : seekN t (s :: r) with
    | none =>
      rw [hs] at hok
      simp only [SeekOK] at hok
      rw [hok]; rfl
    | some walked =>
      rw [hs] at hok
      simp only [SeekOK] at hok
      rw [hok]
      cases hl : walked.getLast? with
      | none =>
        have hw : walked = [] := List.getLast?_eq_none_iff.mp hl
        subst hw
        simp only [List.getLast?_nil, iterFrom_eq_walk]
        rw [walkN_listed]
        simp [lastNode, pathSyms]
      | some last =>
        obtain ⟨lb, ln⟩ := last
        simp only [hl, iterFrom_eq_walk]
        rw [walkN_listed]
        have hne : walked ≠ [] := by intro e; rw [e] at hl; cases hl
        have hw : walked.dropLast ++ [(lb, ln)] = walked := by
          have h1 := List.dropLast_concat_getLast hne
          have h2 : walked.getLast? = some (walked.getLast hne) := List.getLast?_eq_some_getLast hne
          rw [hl] at h2
          rw [← Option.some.inj h2] at h1
          exact h1
        have hn : lastNode t walked = ln := by simp [lastNode, hl]
        rw [hn]
        simp only [List.cons_append, List.tail_cons]
        rw [hw]

/-- `NoLitTok` as a test -/
def noLitTokB (p : List Sym) : Bool := p.all fun | .lit c => c != Gen.paramToken | .tok _ => true

theorem noLitTok_of_test {p : List Sym} (h : noLitTokB p = true) : NoLitTok p := by
  intro c hc
  have := List.all_eq_true.mp h _ hc
  simpa using this

/-- among marker-free patterns "starts with, filters aside" is "the pattern string starts with" -/
theorem prefB_iff_patStr {sw : List Sym} {l : Listed} (hsw : NoLitTok sw) (hl : NoLitTok l.pat) :
    prefB sw l = true ↔ patStr sw <+: patStr l.pat := by
  rw [prefB_iff]
  exact ⟨patStr_prefix_of_shape, shape_prefix_of_patStr hsw hl⟩

/-- the routes a tree enumerates are marker-free when the rules it holds are -/
theorem listPost_noLitTok {t : Node} (hn : ∀ e ∈ denote t, NoLitTok e.pat) :
    ∀ l ∈ listPostN false t, NoLitTok l.pat := by
  intro l hl
  have hd := listPostN_data t l hl
  obtain ⟨p, d, k, hk⟩ := l
  cases d with
  | none => simp at hd
  | some v =>
    have hm : (⟨p, v, k⟩ : Rule) ∈ (listPostN false t).filterMap Listed.rule? :=
      List.mem_filterMap.mpr ⟨_, hl, rfl⟩
    rw [listPostN_rules] at hm
    exact hn _ ((denPostN_perm t).mem_iff.mp hm)

/-- `_routes_iter(startswith=s)` in a router state with the edit invariant: the routes of the full
enumeration whose pattern string starts with `s`, in the same order -/
theorem startswith_of_einv {R : Router} {T : Str → Prop} (h : EInv R T) (s : Str) :
    (routesIter R.tree (symsOfStr s)).map listedOf =
      ((routesIter R.tree).map listedOf).filter (fun l => s.isPrefixOf (patStr l.pat)) := by
  have hk := listPost_noLitTok h.inv.notok
  rw [routesIter_startswith false R.tree h.inv.wf _ (noLitTok_symsOfStr s) hk, routesIter_listed]
  apply List.filter_congr
  intro l hl
  rw [Bool.eq_iff_iff, prefB_iff_patStr (noLitTok_symsOfStr s) (hk l hl), patStr_symsOfStr]
  exact List.isPrefixOf_iff_prefix.symm

end Ombott.Router
