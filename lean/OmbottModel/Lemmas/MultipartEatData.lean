import OmbottModel.Lemmas.MultipartScan
/-!
`_eat_data` (block loop + tail handling + `MatchTail.match_tail`) computes `scan`.
-/
namespace Ombott.Multipart
open Py Spec

/-! ### list facts -/

theorem slice_length {s : Bytes} {a b : Nat} (hb : b ≤ s.length) : (slice s a b).length = b - a := by
  unfold slice; simp [List.length_drop, List.length_take]; omega

theorem slice_drop (s : Bytes) (a b d : Nat) : slice s (a + d) b = (slice s a b).drop d := by
  unfold slice; rw [List.drop_drop]

theorem slice_eq_take_drop (s : Bytes) (a n : Nat) : slice s a (a + n) = (s.drop a).take n := by
  unfold slice; rw [List.take_drop]

/-- a pattern occurrence ending inside a short new segment started in the history -/
theorem suffix_split {tok h x : Bytes} (hs : tok <:+ h ++ x) (hx : x.length ≤ tok.length) :
    tok.take (tok.length - x.length) <:+ h ∧ x = tok.drop (tok.length - x.length) := by
  obtain ⟨pre, hpre⟩ := hs
  have hsplit : (pre ++ tok.take (tok.length - x.length)) ++ tok.drop (tok.length - x.length) = h ++ x := by
    rw [List.append_assoc, List.take_append_drop]; exact hpre
  have hl : (tok.drop (tok.length - x.length)).length = x.length := by
    simp [List.length_drop]; omega
  obtain ⟨h1, h2⟩ := List.append_inj' hsplit hl
  exact ⟨⟨pre, h1⟩, h2.symm⟩

/-- partial matches not longer than the new segment only depend on the segment -/
theorem pm_seg {tok h s : Bytes} {k : Nat} (hk : k ≤ s.length) : Pm tok k (h ++ s) ↔ Pm tok k s := by
  unfold Pm
  constructor
  · intro p
    exact List.suffix_of_suffix_length_le p (List.suffix_append h s)
      (by simp [List.length_take]; omega)
  · intro p
    exact p.trans (List.suffix_append h s)

theorem pm_full_iff {tok h : Bytes} : Pm tok tok.length h ↔ tok <:+ h := by
  unfold Pm; simp

/-! ### `MatchTail.match_tail` -/

theorem pm_last {tok B : Bytes} {a : Nat} (ha : 1 ≤ a) (hal : a ≤ tok.length) (p : Pm tok a B) :
    tok[a - 1]? = B[B.length - 1]? := by
  obtain ⟨pre, hpre⟩ := p
  have hl : (tok.take a).length = a := take_length_of_le hal
  have : B.length = pre.length + a := by rw [← hpre]; simp [hl]
  rw [← hpre, List.getElem?_append_right (by simp [hl]; omega)]
  simp only [List.length_append, hl]
  rw [List.getElem?_take]
  rw [if_pos (by omega)]
  congr 1; omega

theorem matchTailGo_cons (tok s : Bytes) (start end_ : Nat) (last : UInt8) (i : Nat) (is : List Nat) :
    matchTailGo tok s start end_ last (i :: is) =
      if tok[i - 1]? ≠ some last then matchTailGo tok s start end_ last is
      else if end_ - start < i then none
      else if slice s (start + (end_ - start - i)) end_ == tok.take i then some i
      else matchTailGo tok s start end_ last is := rfl

/-- what the candidate loop answers, as a predicate on its result -/
def MtOk (tok B : Bytes) (lo hi : Nat) : Option Nat → Prop
  | some i => lo ≤ i ∧ i < hi ∧ i ≤ B.length ∧ Pm tok i B
  | none => ∀ i, lo ≤ i → i < hi → i ≤ B.length → ¬ Pm tok i B

theorem MtOk.widen {tok B : Bytes} {lo hi : Nat} {r : Option Nat} (h : MtOk tok B (lo + 1) hi r)
    (hnot : ¬ Pm tok lo B) : MtOk tok B lo hi r := by
  cases r with
  | some i => exact ⟨by have := h.1; omega, h.2.1, h.2.2.1, h.2.2.2⟩
  | none =>
    intro i h1 h2 h3
    by_cases hia : i = lo
    · subst hia; exact hnot
    · exact h i (by omega) h2 h3

theorem matchTailGo_spec (tok s : Bytes) (start end_ : Nat) (last : UInt8)
    (hse : start < end_) (hend : end_ ≤ s.length) (hlast : s[end_ - 1]? = some last) :
    ∀ n a, 1 ≤ a → a + n ≤ tok.length + 1 →
    MtOk tok (slice s start end_) a (a + n) (matchTailGo tok s start end_ last (List.range' a n)) := by
  have hBl : (slice s start end_).length = end_ - start := slice_length hend
  have hBlast : (slice s start end_)[(slice s start end_).length - 1]? = some last := by
    rw [hBl]; unfold slice
    rw [List.getElem?_drop, List.getElem?_take, if_pos (by omega), ← hlast]
    congr 1; omega
  intro n
  induction n with
  | zero => intro a _ _; simp only [List.range'_zero, matchTailGo]; intro i h1 h2; omega
  | succ n ih =>
    intro a ha hn
    rw [List.range'_succ, matchTailGo_cons]
    have ih' := ih (a + 1) (by omega) (by omega)
    rw [show a + 1 + n = a + (n + 1) by omega] at ih'
    by_cases hne : tok[a - 1]? ≠ some last
    · rw [if_pos hne]
      apply ih'.widen
      intro p
      have := pm_last ha (by omega) p
      rw [hBlast] at this
      exact hne this
    · rw [if_neg hne]
      by_cases hlt : end_ - start < a
      · rw [if_pos hlt]
        intro i h1 h2 h3; omega
      · rw [if_neg hlt]
        have hsl : slice s (start + (end_ - start - a)) end_ = (slice s start end_).drop (end_ - start - a) :=
          slice_drop s start end_ _
        by_cases heq : (slice s (start + (end_ - start - a)) end_ == tok.take a) = true
        · rw [if_pos heq]
          have heq' : (slice s start end_).drop (end_ - start - a) = tok.take a := by
            rw [← hsl]; exact eq_of_beq heq
          refine ⟨Nat.le_refl _, by omega, by omega, ?_⟩
          unfold Pm
          rw [← heq']
          exact List.drop_suffix _ _
        · rw [if_neg heq]
          apply ih'.widen
          intro p
          apply heq
          rw [hsl]
          have := List.suffix_iff_eq_drop.mp p
          rw [hBl, take_length_of_le (by omega)] at this
          rw [← this]; exact beq_self_eq_true _

/-- `match_tail` on a non-empty window not longer than the token: the (smallest) `i ≥ 1` such
that the first `i` token bytes end the window, or `None` -/
theorem matchTail_spec (tok s : Bytes) (start end_ : Nat)
    (hse : start < end_) (hend : end_ ≤ s.length) (hlen : end_ - start ≤ tok.length) :
    ∃ r, matchTail tok s start end_ = .ok r ∧ MtOk tok (slice s start end_) 1 (tok.length + 1) r := by
  unfold matchTail
  rw [if_neg (by omega)]
  have hlt : end_ - 1 < s.length := by omega
  rw [List.getElem?_eq_getElem hlt]
  simp only
  rw [if_neg (by omega)]
  refine ⟨_, rfl, ?_⟩
  have := matchTailGo_spec tok s start end_ s[end_ - 1] hse hend (List.getElem?_eq_getElem hlt)
    tok.length 1 (Nat.le_refl _) (by omega)
  rw [show 1 + tok.length = tok.length + 1 by omega] at this
  exact this

/-! ### a fresh look at a window: what `scan` gives when the pending remainder did not arrive -/

/-- Let the pending match (if any) fail inside the window `w` (`|w| ≤ tlen`), i.e. `w` does
not start with the pending remainder and is not a proper prefix of it.  Then `scan` over `w`
completes only if `w` is the token, and otherwise ends with the partial match at the end of `w`
(which `match_tail` computes). -/
theorem scan_fresh {tok : Bytes} (hnb : NB tok) (w : Bytes) (m : Nat) (hm : m < tok.length)
    (hw : w.length ≤ tok.length)
    (hfail : m = 0 ∨ (¬ tok.drop m <+: w ∧ ¬ w <+: tok.drop m)) (r : Option Nat)
    (hr : MtOk tok w 1 (tok.length + 1) r) :
    scan tok m w = match r with
      | some i => if i = tok.length then .found tok.length else .more i
      | none => .more 0 := by
  have hl := nb_length_pos hnb
  have pm := pmMax_take hnb m (by omega)
  -- no completion strictly inside the window
  have hno : ∀ i, i ≤ w.length → i < tok.length → ¬ tok <:+ tok.take m ++ w.take i := by
    intro i hi hit hs
    have hxl : (w.take i).length = i := by simp [List.length_take]; omega
    obtain ⟨h1, h2⟩ := suffix_split hs (by omega)
    rw [hxl] at h1 h2
    have hk := pm.2 (tok.length - i) (by omega) (by omega) h1
    rcases hfail with h0 | ⟨hf, _⟩
    · omega
    · apply hf
      have : tok.length - i = m := hk
      rw [this] at h2
      rw [← h2]; exact List.take_prefix _ _
  -- partial matches at the end are inside the window
  have hin : ∀ k, 1 ≤ k → k ≤ tok.length → Pm tok k (tok.take m ++ w) → k ≤ w.length := by
    intro k hk1 hk2 p
    apply Classical.byContradiction
    intro hgt
    -- k > |w|: the match started in the pending prefix
    have hs : tok.take k <:+ tok.take m ++ w := p
    have hkl : (tok.take k).length = k := take_length_of_le hk2
    obtain ⟨pre, hpre⟩ := hs
    have hsplit : (pre ++ (tok.take k).take (k - w.length)) ++ (tok.take k).drop (k - w.length) = tok.take m ++ w := by
      rw [List.append_assoc, List.take_append_drop]; exact hpre
    have hl2 : ((tok.take k).drop (k - w.length)).length = w.length := by
      simp [List.length_drop, hkl]; omega
    obtain ⟨h1, h2⟩ := List.append_inj' hsplit hl2
    have h1' : Pm tok (k - w.length) (tok.take m) := by
      unfold Pm
      refine ⟨pre, ?_⟩
      rw [← h1, List.take_take]
      congr 2; omega
    have hkm := pm.2 (k - w.length) (by omega) (by omega) h1'
    rcases hfail with h0 | ⟨_, hf⟩
    · omega
    · apply hf
      rw [← h2, ← hkm]
      rw [List.drop_take]
      have : k - (k - w.length) = w.length := by omega
      rw [this]
      exact List.take_prefix _ _
  cases r with
  | none =>
    replace hr : ∀ i, 1 ≤ i → i ≤ w.length → ¬ Pm tok i w := fun i h1 h2 => hr i h1 (by omega) h2
    simp only
    apply scan_eq_more hnb w (tok.take m) m 0 hm pm
    · intro i hi hs
      by_cases hit : i < tok.length
      · exact hno i hi hit hs
      · have hiw : i = w.length := by omega
        have hwl : w.length = tok.length := by omega
        rw [hiw, List.take_length] at hs
        have : Pm tok tok.length (tok.take m ++ w) := pm_full_iff.mpr hs
        exact hr tok.length hl (by omega) ((pm_seg (by omega)).mp this)
    · right
      refine ⟨rfl, fun k hk1 hk2 p => ?_⟩
      have hkw := hin k hk1 hk2 p
      exact hr k hk1 hkw ((pm_seg hkw).mp p)
  | some i =>
    obtain ⟨hi1, _, hi2, hp⟩ := hr
    simp only
    by_cases hit : i = tok.length
    · rw [if_pos hit]
      subst hit
      have hwl : w.length = tok.length := by omega
      apply scan_eq_found hnb w (tok.take m) m tok.length hm pm (by omega)
      · rw [← hwl, List.take_length]
        exact (pm_full_iff.mp hp).trans (List.suffix_append _ _)
      · intro j hj
        exact hno j (by omega) hj
    · rw [if_neg hit]
      apply scan_eq_more hnb w (tok.take m) m i hm pm
      · intro j hj hs
        by_cases hjt : j < tok.length
        · exact hno j hj hjt hs
        · have hjw : j = w.length := by omega
          have hwl : w.length = tok.length := by omega
          rw [hjw, List.take_length] at hs
          have hfull : Pm tok tok.length w := (pm_seg (by omega)).mp (pm_full_iff.mpr hs)
          exact absurd (pm_unique hnb w i tok.length hi1 (by omega) (Nat.le_refl _) hp hfull) id
      · left
        exact ⟨hi1, by omega, (pm_seg hi2).mpr hp⟩

/-! ### `_eat_data` -/

theorem renderScan_shift (tok : Bytes) (start n : Nat) (r : ScanRes) :
    renderScan tok start (r.shift n) = renderScan tok (start + n) r := by
  cases r with
  | found j => simp only [ScanRes.shift, renderScan]; rw [Nat.add_assoc]
  | more m => rfl

theorem trestOf_pos (tok : Bytes) {m : Nat} (h : 0 < m) : trestOf tok m = some (tok.drop m) := by
  unfold trestOf; rw [if_neg (by omega)]

theorem startsWith_iff (s p : Bytes) : startsWith s p = true ↔ p <+: s := by
  unfold startsWith; exact List.isPrefixOf_iff_prefix

/-- what the fresh look (`match_tail` on a window) leaves as `trest` -/
def freshOut (tok : Bytes) : Option Nat → EatOut
  | some i => ⟨none, some (tok.drop i)⟩
  | none => ⟨none, none⟩

theorem fresh_render {tok : Bytes} (hnb : NB tok) (w : Bytes) (m start : Nat) (hm : m < tok.length)
    (hw : w.length < tok.length)
    (hfail : m = 0 ∨ (¬ tok.drop m <+: w ∧ ¬ w <+: tok.drop m)) (r : Option Nat)
    (hr : MtOk tok w 1 (tok.length + 1) r) :
    freshOut tok r = renderScan tok start (scan tok m w) := by
  rw [scan_fresh hnb w m hm (by omega) hfail r hr]
  cases r with
  | none => rfl
  | some i =>
    have hi : 1 ≤ i ∧ i ≤ w.length := ⟨hr.1, hr.2.2.1⟩
    simp only [freshOut]
    rw [if_neg (by omega)]
    simp only [renderScan]
    rw [trestOf_pos tok (by omega)]

theorem eatTail_refines {tok : Bytes} (hnb : NB tok) (chunk : Bytes) (start m : Nat) (hm : m < tok.length)
    (hshort : (chunk.drop start).length < tok.length) :
    eatTail tok chunk start (trestOf tok m) =
      .ok (renderScan tok start (scan tok m (chunk.drop start))) := by
  unfold eatTail
  generalize hpart : chunk.drop start = part at hshort ⊢
  simp only
  by_cases hemp : part.isEmpty = true
  · rw [if_pos hemp]
    have : part = [] := List.isEmpty_iff.mp hemp
    subst this
    simp [scan, renderScan]
  · rw [if_neg hemp]
    have hne : part ≠ [] := fun h => hemp (by simp [h])
    have hpl : 0 < part.length := List.length_pos_iff.mpr hne
    obtain ⟨r, hmt, hr⟩ := matchTail_spec tok part 0 part.length hpl (Nat.le_refl _) (by omega)
    have hsl : slice part 0 part.length = part := by simp [slice]
    rw [hsl] at hr
    rw [hmt]
    have hfresh : ∀ (hfail : m = 0 ∨ (¬ tok.drop m <+: part ∧ ¬ part <+: tok.drop m)),
        (match (Except.ok r : Except Err (Option Nat)) with
          | .error e => (.error e : Except Err EatOut)
          | .ok (some m) => .ok ⟨none, some (tok.drop m)⟩
          | .ok none => .ok ⟨none, none⟩) = .ok (renderScan tok start (scan tok m part)) := by
      intro hfail
      rw [← fresh_render hnb part m start hm hshort hfail r hr]
      cases r <;> rfl
    by_cases hm0 : m = 0
    · subst hm0
      simp only [trestOf, if_true]
      exact hfresh (Or.inl rfl)
    · rw [trestOf_pos tok (by omega)]
      simp only
      have htl : (tok.drop m).length = tok.length - m := by simp
      rw [htl]
      by_cases hlt : part.length < tok.length - m
      · rw [if_pos hlt]
        by_cases hsw : startsWith (tok.drop m) part = true
        · rw [if_pos hsw]
          have hpre := (startsWith_iff _ _).mp hsw
          rw [scan_prefix tok part m (by omega) hpre]
          simp only [renderScan]
          rw [trestOf_pos tok (by omega), List.drop_drop]
        · rw [if_neg hsw]
          apply hfresh
          right
          refine ⟨fun hp => ?_, fun hp => hsw ((startsWith_iff _ _).mpr hp)⟩
          have := hp.length_le
          rw [htl] at this; omega
      · rw [if_neg hlt]
        by_cases hsw : startsWith part (tok.drop m) = true
        · rw [if_pos hsw]
          obtain ⟨t, ht⟩ := (startsWith_iff _ _).mp hsw
          rw [← ht, scan_match tok (tok.length - m) m t (by omega) (by omega)]
          simp only [renderScan]
        · rw [if_neg hsw]
          apply hfresh
          right
          refine ⟨fun hp => hsw ((startsWith_iff _ _).mpr hp), fun hp => ?_⟩
          apply hsw
          apply (startsWith_iff _ _).mpr
          have := hp.eq_of_length_le (by rw [htl]; omega)
          rw [this]; exact List.prefix_refl _

theorem eatBlocks_refines {tok : Bytes} (hnb : NB tok) (chunk : Bytes) :
    ∀ (fuel start m : Nat), m < tok.length → chunk.length - start < fuel →
    eatBlocks tok chunk fuel start (trestOf tok m) =
      .ok (renderScan tok start (scan tok m (chunk.drop start))) := by
  have hl := nb_length_pos hnb
  intro fuel
  induction fuel with
  | zero => intro start m _ h; omega
  | succ fuel ih =>
    intro start m hm hfuel
    unfold eatBlocks
    simp only
    by_cases hend : start + tok.length > chunk.length
    · rw [if_pos hend]
      exact eatTail_refines hnb chunk start m hm (by simp [List.length_drop]; omega)
    · rw [if_neg hend]
      have hend' : start + tok.length ≤ chunk.length := by omega
      -- the block and the rest
      have hsplit : chunk.drop start = (chunk.drop start).take tok.length ++ chunk.drop (start + tok.length) := by
        rw [← List.drop_drop, List.take_append_drop]
      generalize hB : (chunk.drop start).take tok.length = B at hsplit
      have hBl : B.length = tok.length := by
        rw [← hB]; simp [List.length_take, List.length_drop]; omega
      obtain ⟨r, hmt, hr⟩ := matchTail_spec tok chunk start (start + tok.length) (by omega) hend' (by omega)
      rw [slice_eq_take_drop, hB] at hr
      rw [hmt]
      have hfu : chunk.length - (start + tok.length) < fuel := by omega
      -- the fresh look at this block
      have hgo : ∀ (hfail : m = 0 ∨ (¬ tok.drop m <+: B ∧ ¬ B <+: tok.drop m)),
          (match (Except.ok r : Except Err (Option Nat)) with
            | .error e => (.error e : Except Err EatOut)
            | .ok (some m') => if m' = tok.length then .ok ⟨some (start : Int), none⟩
                         else eatBlocks tok chunk fuel (start + tok.length) (some (tok.drop m'))
            | .ok none => eatBlocks tok chunk fuel (start + tok.length) none) =
          .ok (renderScan tok start (scan tok m (chunk.drop start))) := by
        intro hfail
        rw [hsplit, scan_append, scan_fresh hnb B m hm (by omega) hfail r hr]
        cases r with
        | none =>
          simp only
          have := ih (start + tok.length) 0 hl hfu
          simp only [trestOf, if_true] at this
          rw [this, renderScan_shift, hBl]
        | some i =>
          have hi : 1 ≤ i := hr.1
          simp only
          by_cases hit : i = tok.length
          · rw [if_pos hit, if_pos hit]
            simp only [renderScan]
            congr 2
            simp
          · rw [if_neg hit, if_neg hit]
            have hilt : i < tok.length := by have := hr.2.1; omega
            have := ih (start + tok.length) i hilt hfu
            rw [trestOf_pos tok (by omega)] at this
            simp only
            rw [this, renderScan_shift, hBl]
      by_cases hm0 : m = 0
      · subst hm0
        simp only [trestOf, if_true]
        exact hgo (Or.inl rfl)
      · rw [trestOf_pos tok (by omega)]
        simp only
        have htl : (tok.drop m).length = tok.length - m := by simp
        rw [htl]
        by_cases heq : (slice chunk start (start + (tok.length - m)) == tok.drop m) = true
        · rw [if_pos heq]
          have heq' := eq_of_beq heq
          rw [slice_eq_take_drop] at heq'
          have : chunk.drop start = tok.drop m ++ (chunk.drop start).drop (tok.length - m) := by
            rw [← heq', List.take_append_drop]
          rw [this, scan_match tok (tok.length - m) m _ (by omega) (by omega)]
          simp only [renderScan]
        · rw [if_neg heq]
          apply hgo
          right
          refine ⟨fun hp => ?_, fun hp => ?_⟩
          · apply heq
            rw [slice_eq_take_drop]
            have h1 := List.prefix_iff_eq_take.mp hp
            rw [htl, ← hB, List.take_take, Nat.min_eq_left (by omega)] at h1
            rw [← h1]; exact beq_self_eq_true _
          · have := hp.length_le
            rw [htl, hBl] at this; omega

/-- `_eat_data` is the byte-at-a-time scanner, for arbitrary data, base and pending state -/
theorem eatData_refines {tok : Bytes} (hnb : NB tok) (chunk : Bytes) (base m : Nat) (hm : m < tok.length) :
    eatData tok chunk base (trestOf tok m) =
      .ok (renderScan tok base (scan tok m (chunk.drop base))) :=
  eatBlocks_refines hnb chunk (chunk.length + 1) base m hm (by omega)

end Ombott.Multipart
