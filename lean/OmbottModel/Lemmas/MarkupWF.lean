import OmbottModel.Model.Multipart
/-!
Well-formedness of the markup list that `MultipartMarkup.parse` builds, for **arbitrary** input
(any boundary, any bytes, any chunking): used by C12 (no `AssertionError`/`OSError` can come out of
`FieldStorage.iter_items`) and by C07.

* `emit` / `iterLoop_step`: one round of the `while True` loop of `iter_markup`, as an equation.
* `Alt`: section names alternate `data, headers, data, …`.
* `feed_alt`, `feed_start_nonneg`.
-/
namespace Ombott.Multipart
open Py

/-- what one successful round of the loop of `iter_markup` yields: the section, the next method,
the next section start, the next scan position; `none` = the `assert` of the first section fails -/
def emit (mk' : Markuper) (cur : CurMeth) (ass : Int) (endSec : Int) :
    Option (Markup × CurMeth × Int × Nat) :=
  let tlen : Int := mk'.token.length
  match cur with
  | .headers => some (⟨.headers, ass, mk'.abspos + endSec⟩, .data, mk'.abspos + (endSec + 4), (endSec + 4).toNat)
  | .data => some (⟨.data, ass, mk'.abspos + endSec⟩, .headers, mk'.abspos + (endSec + tlen) + 2, (endSec + tlen).toNat)
  | .startBoundary =>
    if mk'.abspos + endSec < 0 ∧ mk'.abspos + endSec ≠ -2 then none
    else
      let endSec' : Int := if mk'.abspos + endSec < 0 then -mk'.abspos else endSec
      some (⟨.data, ass, mk'.abspos + endSec'⟩, .headers, mk'.abspos + (endSec + tlen) + 2, (endSec + tlen).toNat)

theorem iterLoop_zero (chunk : Bytes) (mk cur ass sns acc) :
    iterLoop chunk 0 mk cur ass sns acc = ⟨mk, acc, some .runtimeError⟩ := by
  simp [iterLoop]

theorem iterLoop_step (chunk : Bytes) (fuel : Nat) (mk : Markuper) (cur : CurMeth) (ass : Int) (sns : Nat)
    (acc : List Markup) :
    iterLoop chunk (fuel + 1) mk cur ass sns acc =
      match mk.call cur chunk sns with
      | .error .stopMarkup => ⟨{ mk with stopped := true }, acc, none⟩
      | .error e => ⟨mk, acc, some e⟩
      | .ok (mk', none) =>
        ⟨{ mk' with abspos := mk'.abspos + chunk.length, curMeth := cur, absStartSection := ass }, acc, none⟩
      | .ok (mk', some endSec) =>
        match emit mk' cur ass endSec with
        | none => ⟨mk', acc, some .assertionError⟩
        | some (m, cur', ass', sns') => iterLoop chunk fuel mk' cur' ass' sns' (acc ++ [m]) := by
  rw [iterLoop]
  generalize mk.call cur chunk sns = r
  match r with
  | .error e => cases e <;> rfl
  | .ok (mk', none) => rfl
  | .ok (mk', some endSec) =>
    cases cur
    · simp only [emit]; split <;> rfl
    · rfl
    · rfl

/-- loop-invariant principle for the `while True` loop of `iter_markup` -/
theorem iterLoop_inv (chunk : Bytes)
    (Inv : Markuper → CurMeth → Int → Nat → List Markup → Prop) (Post : IterOut → Prop)
    (hstop : ∀ mk cur ass sns acc, Inv mk cur ass sns acc → mk.call cur chunk sns = .error .stopMarkup →
      Post ⟨{ mk with stopped := true }, acc, none⟩)
    (herr : ∀ mk cur ass sns acc e, Inv mk cur ass sns acc → mk.call cur chunk sns = .error e →
      Post ⟨mk, acc, some e⟩)
    (hnone : ∀ mk cur ass sns acc mk', Inv mk cur ass sns acc → mk.call cur chunk sns = .ok (mk', none) →
      Post ⟨{ mk' with abspos := mk'.abspos + chunk.length, curMeth := cur, absStartSection := ass }, acc, none⟩)
    (hassert : ∀ mk cur ass sns acc mk' e, Inv mk cur ass sns acc → mk.call cur chunk sns = .ok (mk', some e) →
      emit mk' cur ass e = none → Post ⟨mk', acc, some .assertionError⟩)
    (hstep : ∀ mk cur ass sns acc mk' e m cur' ass' sns', Inv mk cur ass sns acc →
      mk.call cur chunk sns = .ok (mk', some e) → emit mk' cur ass e = some (m, cur', ass', sns') →
      Inv mk' cur' ass' sns' (acc ++ [m]))
    (hfuel : ∀ mk cur ass sns acc, Inv mk cur ass sns acc → Post ⟨mk, acc, some .runtimeError⟩) :
    ∀ fuel mk cur ass sns acc, Inv mk cur ass sns acc → Post (iterLoop chunk fuel mk cur ass sns acc) := by
  intro fuel
  induction fuel with
  | zero => intro mk cur ass sns acc h; rw [iterLoop_zero]; exact hfuel _ _ _ _ _ h
  | succ fuel ih =>
    intro mk cur ass sns acc h
    rw [iterLoop_step]
    split
    · rename_i hc; exact hstop _ _ _ _ _ h hc
    · rename_i e _ hc; exact herr _ _ _ _ _ e h hc
    · rename_i mk' hc; exact hnone _ _ _ _ _ mk' h hc
    · rename_i mk' e hc
      split
      · rename_i he; exact hassert _ _ _ _ _ mk' e h hc he
      · rename_i m cur' ass' sns' he
        exact ih _ _ _ _ _ (hstep _ _ _ _ _ mk' e m cur' ass' sns' h hc he)

/-! ### section names alternate -/

/-- names alternate, starting with `data` when the flag is `true` -/
def Alt : Bool → List Markup → Prop
  | _, [] => True
  | true, m :: ms => m.name = .data ∧ Alt false ms
  | false, m :: ms => m.name = .headers ∧ Alt true ms

/-- the name at index `n` of a list alternating from `d` -/
def nameAt (d : Bool) (n : Nat) : SecName := if (n % 2 == 0) == d then .data else .headers

theorem alt_snoc (d : Bool) (ms : List Markup) (m : Markup) (h : Alt d ms) (hm : m.name = nameAt d ms.length) :
    Alt d (ms ++ [m]) := by
  induction ms generalizing d with
  | nil => cases d <;> simp_all [Alt, nameAt]
  | cons x xs ih =>
    cases d
    · simp only [Alt, List.cons_append] at h ⊢
      refine ⟨h.1, ih true h.2 ?_⟩
      rw [hm]; simp only [nameAt, List.length_cons]
      have : (xs.length + 1) % 2 = 0 ↔ ¬ xs.length % 2 = 0 := by omega
      by_cases hx : xs.length % 2 = 0 <;> simp_all
    · simp only [Alt, List.cons_append] at h ⊢
      refine ⟨h.1, ih false h.2 ?_⟩
      rw [hm]; simp only [nameAt, List.length_cons]
      have : (xs.length + 1) % 2 = 0 ↔ ¬ xs.length % 2 = 0 := by omega
      by_cases hx : xs.length % 2 = 0 <;> simp_all

/-- the method the loop is in matches the parity of the sections emitted so far -/
def Couple (cur : CurMeth) (n : Nat) : Prop :=
  (cur = .headers ∧ n % 2 = 1) ∨ (cur ≠ .headers ∧ n % 2 = 0)

theorem emit_name (mk' : Markuper) (cur : CurMeth) (ass e : Int) (m : Markup) (cur' : CurMeth) (ass' : Int) (sns' : Nat)
    (h : emit mk' cur ass e = some (m, cur', ass', sns')) :
    (cur = .headers → m.name = .headers ∧ cur' = .data) ∧ (cur ≠ .headers → m.name = .data ∧ cur' = .headers) ∧
    m.start = ass := by
  cases cur <;> simp only [emit] at h
  · split at h
    · cases h
    · simp only [Option.some.injEq, Prod.mk.injEq] at h
      obtain ⟨rfl, rfl, _, _⟩ := h; simp
  · simp only [Option.some.injEq, Prod.mk.injEq] at h
    obtain ⟨rfl, rfl, _, _⟩ := h; simp
  · simp only [Option.some.injEq, Prod.mk.injEq] at h
    obtain ⟨rfl, rfl, _, _⟩ := h; simp

theorem iterLoop_alt (chunk : Bytes) (pre : List Markup) (fuel : Nat) (mk : Markuper) (cur : CurMeth) (ass : Int)
    (sns : Nat) (acc : List Markup) (ha : Alt true (pre ++ acc)) (hc : Couple cur (pre ++ acc).length) :
    let r := iterLoop chunk fuel mk cur ass sns acc
    Alt true (pre ++ r.out) ∧ (r.exc = none → r.mkr.stopped = false → Couple r.mkr.curMeth (pre ++ r.out).length) := by
  refine iterLoop_inv chunk
    (fun mk cur _ _ acc => Alt true (pre ++ acc) ∧ Couple cur (pre ++ acc).length ∧ True)
    (fun r => Alt true (pre ++ r.out) ∧ (r.exc = none → r.mkr.stopped = false → Couple r.mkr.curMeth (pre ++ r.out).length))
    ?_ ?_ ?_ ?_ ?_ ?_ fuel mk cur ass sns acc ⟨ha, hc, trivial⟩
  · intro mk cur ass sns acc h _; exact ⟨h.1, fun _ h2 => by simp at h2⟩
  · intro mk cur ass sns acc e h _; exact ⟨h.1, fun h1 => by simp at h1⟩
  · intro mk cur ass sns acc mk' h _; exact ⟨h.1, fun _ _ => h.2.1⟩
  · intro mk cur ass sns acc mk' e h _ _; exact ⟨h.1, fun h1 => by simp at h1⟩
  · intro mk cur ass sns acc mk' e m cur' ass' sns' h _ he
    have hn := emit_name _ _ _ _ _ _ _ _ he
    obtain ⟨ha, hc, _⟩ := h
    have hlen : (pre ++ (acc ++ [m])).length = (pre ++ acc).length + 1 := by
      simp only [List.length_append, List.length_cons, List.length_nil]; omega
    refine ⟨?_, ?_, trivial⟩
    · rw [← List.append_assoc]
      refine alt_snoc _ _ _ ha ?_
      rcases hc with ⟨hcur, hpar⟩ | ⟨hcur, hpar⟩
      · rw [(hn.1 hcur).1]; simp only [nameAt, hpar]; rfl
      · rw [(hn.2.1 hcur).1]; simp only [nameAt, hpar]; rfl
    · rw [hlen]
      rcases hc with ⟨hcur, hpar⟩ | ⟨hcur, hpar⟩
      · right; exact ⟨by rw [(hn.1 hcur).2]; simp, by omega⟩
      · left; exact ⟨(hn.2.1 hcur).2, by omega⟩
  · intro mk cur ass sns acc h; exact ⟨h.1, fun h1 => by simp at h1⟩

/-- the invariant of a `MultipartMarkup` object -/
def AltInv (s : St) : Prop :=
  Alt true s.markups ∧ (s.error = none → s.markuper.stopped = false → Couple s.markuper.curMeth s.markups.length)

theorem parse_alt (s : St) (chunk : Bytes) (h : AltInv s) : AltInv (parse s chunk) := by
  unfold parse
  split
  · exact h
  · rename_i hcond
    simp only [Bool.or_eq_true, Option.isSome_iff_ne_none, ne_eq, not_or, Decidable.not_not,
      Bool.not_eq_true] at hcond
    obtain ⟨herr, hst⟩ := hcond
    unfold Markuper.iterMarkup
    simp only [hst, Bool.false_eq_true, ↓reduceIte]
    have := iterLoop_alt chunk s.markups (chunk.length + 2) s.markuper s.markuper.curMeth
      s.markuper.absStartSection 0 [] (by simpa using h.1) (by simpa using h.2 herr hst)
    simp only at this
    refine ⟨this.1, ?_⟩
    intro he hs
    simp only at he hs
    split at he
    · cases he
    · rename_i hexc; exact this.2 hexc hs

theorem feed_alt (s : St) (chunks : List Bytes) (h : AltInv s) : AltInv (feed s chunks) := by
  unfold feed
  induction chunks generalizing s with
  | nil => exact h
  | cons c cs ih => exact ih _ (parse_alt s c h)

theorem init_alt (b : Bytes) (s : St) (h : St.init b = .ok s) : AltInv s := by
  unfold St.init Markuper.init at h
  split at h
  · cases h
  · rename_i m hm
    split at hm
    · cases hm
    · cases hm; cases h
      exact ⟨trivial, fun _ _ => Or.inr ⟨by simp, rfl⟩⟩

/-! ### what a call of the current method leaves unchanged, and where a section can end -/

theorem eatDataM_frame (mk mk' : Markuper) (chunk : Bytes) (base : Nat) (r : Option Int)
    (h : mk.eatDataM chunk base = .ok (mk', r)) :
    mk' = { mk with trest := mk'.trest } := by
  unfold Markuper.eatDataM at h
  split at h
  · cases h
  · cases h; rfl

theorem call_frame (mk mk' : Markuper) (cur : CurMeth) (chunk : Bytes) (base : Nat) (r : Option Int)
    (h : mk.call cur chunk base = .ok (mk', r)) :
    mk'.token = mk.token ∧ mk'.boundary = mk.boundary ∧ mk'.abspos = mk.abspos ∧
    mk'.absStartSection = mk.absStartSection ∧ mk'.stopped = mk.stopped ∧ mk'.curMeth = mk.curMeth := by
  unfold Markuper.call at h
  cases cur <;> simp only at h
  · unfold Markuper.eatStartBoundary at h
    split at h
    · rw [eatDataM_frame _ _ _ _ _ h]; simp
    · split at h
      · cases h; simp
      · split at h
        · rw [eatDataM_frame _ _ _ _ _ h]; simp
        · split at h
          · cases h; simp
          · split at h
            · cases h
            · rw [eatDataM_frame _ _ _ _ _ h]; simp
  · rw [eatDataM_frame _ _ _ _ _ h]; simp
  · split at h
    · cases h
    · cases h; simp

theorem eatTail_res_ge (tok chunk : Bytes) (start : Nat) (trest : Option Bytes) (o : EatOut) (r : Int)
    (h : eatTail tok chunk start trest = .ok o) (hr : o.res = some r) : 0 ≤ r + tok.length := by
  unfold eatTail at h
  simp only at h
  split at h
  · cases h; cases hr
  · have fresh : ∀ o : EatOut,
        (match matchTail tok (chunk.drop start) 0 (chunk.drop start).length with
          | .error e => (.error e : Except Err EatOut)
          | .ok (some m) => .ok ⟨none, some (tok.drop m)⟩
          | .ok none => .ok ⟨none, none⟩) = .ok o → o.res = none := by
      intro o ho
      split at ho
      · cases ho
      · cases ho; rfl
      · cases ho; rfl
    split at h
    · split at h
      · split at h
        · cases h; cases hr
        · rw [fresh o h] at hr; cases hr
      · split at h
        · cases h; simp only [Option.some.injEq] at hr; subst hr; omega
        · rw [fresh o h] at hr; cases hr
    · rw [fresh o h] at hr; cases hr

theorem eatBlocks_res_ge (tok chunk : Bytes) (fuel start : Nat) (trest : Option Bytes) (o : EatOut) (r : Int)
    (h : eatBlocks tok chunk fuel start trest = .ok o) (hr : o.res = some r) : 0 ≤ r + tok.length := by
  induction fuel generalizing start trest o with
  | zero => simp [eatBlocks] at h
  | succ fuel ih =>
    rw [eatBlocks] at h
    simp only at h
    split at h
    · exact eatTail_res_ge _ _ _ _ _ _ h hr
    · have go : ∀ o : EatOut,
          (match matchTail tok chunk start (start + tok.length) with
            | .error e => (.error e : Except Err EatOut)
            | .ok (some m) =>
              if m = tok.length then .ok ⟨some (start : Int), none⟩
              else eatBlocks tok chunk fuel (start + tok.length) (some (tok.drop m))
            | .ok none => eatBlocks tok chunk fuel (start + tok.length) none) = .ok o →
          o.res = some r → 0 ≤ r + tok.length := by
        intro o ho hr
        split at ho
        · cases ho
        · split at ho
          · cases ho; simp only [Option.some.injEq] at hr; subst hr; omega
          · exact ih _ _ _ ho hr
        · exact ih _ _ _ ho hr
      split at h
      · split at h
        · cases h; simp only [Option.some.injEq] at hr; subst hr; omega
        · exact go o h hr
      · exact go o h hr

theorem eatDataM_res_ge (mk mk' : Markuper) (chunk : Bytes) (base : Nat) (r : Int)
    (h : mk.eatDataM chunk base = .ok (mk', some r)) : 0 ≤ r + mk.token.length := by
  unfold Markuper.eatDataM eatData at h
  split at h
  · cases h
  · rename_i o ho
    simp only [Except.ok.injEq, Prod.mk.injEq] at h
    exact eatBlocks_res_ge _ _ _ _ _ _ _ ho h.2

theorem eatHeaders_res_ge (e e' : Eater) (chunk : Bytes) (base : Nat) (p : Int)
    (h : eatHeaders e chunk base = .ok (e', some p)) : 0 ≤ p + 4 := by
  unfold eatHeaders at h
  simp only at h
  have search : ∀ e0 : Eater,
      (match endHeadersSearch chunk base with
        | .none => (.ok (e0, none) : Except Err (Eater × Option Int))
        | .found q => .ok (e0, some (q : Int))
        | .tail n => .ok ({ e0 with headersEndExpected := some (CRLFx2.drop n) }, none)) = .ok (e', some p) →
      0 ≤ p + 4 := by
    intro e0 hs
    split at hs
    · cases hs
    · simp only [Except.ok.injEq, Prod.mk.injEq, Option.some.injEq] at hs; omega
    · cases hs
  split at h
  · exact search _ h
  · split at h
    · simp only [Except.ok.injEq, Prod.mk.injEq, Option.some.injEq] at h; omega
    · split at h
      · cases h
      · split at h
        · cases h
        · split at h
          · cases h
          · split at h
            · cases h
            · exact search _ h

theorem eat_res_ge (e e' : Eater) (chunk : Bytes) (base : Nat) (p : Int)
    (h : eat e chunk base = .ok (e', some p)) : 0 ≤ p + 4 := by
  unfold eat at h
  simp only at h
  have finish : ∀ (x : Except Err (Eater × Option Int)),
      (∀ e1 q, x = .ok (e1, some q) → 0 ≤ q + 4) →
      (match x with
        | .error y => (.error y : Except Err (Eater × Option Int))
        | .ok (e1, none) => .ok (e1, none)
        | .ok (e1, some pos) => .ok ({ e1 with eatMeth := .firstCrlfOrLastHyphens }, some pos)) = .ok (e', some p) →
      0 ≤ p + 4 := by
    intro x hx hm
    split at hm
    · cases hm
    · cases hm
    · rename_i e1 pos
      simp only [Except.ok.injEq, Prod.mk.injEq, Option.some.injEq] at hm
      rw [← hm.2]; exact hx e1 pos rfl
  have pre : ∀ (x : Except Err (Eater × Option Int)),
      (match x with
        | .error y => (.error y : Except Err (Eater × Option Int))
        | .ok (e1, none) => .ok (e1, none)
        | .ok (e1, some pos) =>
          if e1.stopped then .error .stopMarkup
          else
            (match eatHeaders { e1 with eatMeth := .headers } chunk pos.toNat with
              | .error y => (.error y : Except Err (Eater × Option Int))
              | .ok (e2, none) => .ok (e2, none)
              | .ok (e2, some pos2) => .ok ({ e2 with eatMeth := .firstCrlfOrLastHyphens }, some pos2))) = .ok (e', some p) →
      0 ≤ p + 4 := by
    intro x hm
    split at hm
    · cases hm
    · cases hm
    · split at hm
      · cases hm
      · exact finish _ (fun e1 q hq => eatHeaders_res_ge _ _ _ _ _ hq) hm
  split at h
  · exact finish _ (fun e1 q hq => eatHeaders_res_ge _ _ _ _ _ hq) h
  · exact pre _ h
  · exact pre _ h
  · exact pre _ h
  · cases h

/-- a section found by the current method ends at most one delimiter (resp. one `CRLFCRLF`) before
the start of the chunk -/
theorem call_res_ge (mk mk' : Markuper) (cur : CurMeth) (chunk : Bytes) (base : Nat) (r : Int)
    (h : mk.call cur chunk base = .ok (mk', some r)) (ht : 2 ≤ mk.token.length) :
    (cur = .headers → 0 ≤ r + 4) ∧ (cur ≠ .headers → 0 ≤ r + mk.token.length) := by
  unfold Markuper.call at h
  cases cur <;> simp only at h
  · refine ⟨by simp, fun _ => ?_⟩
    unfold Markuper.eatStartBoundary at h
    split at h
    · exact eatDataM_res_ge _ _ _ _ _ h
    · split at h
      · cases h
      · split at h
        · exact eatDataM_res_ge _ _ _ _ _ h
        · split at h
          · simp only [Except.ok.injEq, Prod.mk.injEq, Option.some.injEq] at h; omega
          · split at h
            · cases h
            · exact eatDataM_res_ge { mk with trest := some mk.boundary } _ _ _ _ h
  · exact ⟨by simp, fun _ => eatDataM_res_ge _ _ _ _ _ h⟩
  · refine ⟨fun _ => ?_, by simp⟩
    split at h
    · cases h
    · rename_i e' r' he
      simp only [Except.ok.injEq, Prod.mk.injEq] at h
      rw [h.2] at he
      exact eat_res_ge _ _ _ _ _ he

/-! ### section starts are never negative -/

theorem emit_ass (mk' : Markuper) (cur : CurMeth) (ass e : Int) (m : Markup) (cur' : CurMeth) (ass' : Int) (sns' : Nat)
    (h : emit mk' cur ass e = some (m, cur', ass', sns')) :
    (cur = .headers → ass' = mk'.abspos + (e + 4) ∧ sns' = (e + 4).toNat ∧ m.stop = mk'.abspos + e) ∧
    (cur ≠ .headers → ass' = mk'.abspos + (e + mk'.token.length) + 2 ∧ sns' = (e + mk'.token.length).toNat) ∧
    (cur = .data → m.stop = mk'.abspos + e) := by
  cases cur <;> simp only [emit] at h
  · split at h
    · cases h
    · simp only [Option.some.injEq, Prod.mk.injEq] at h
      obtain ⟨rfl, rfl, rfl, rfl⟩ := h; simp
  · simp only [Option.some.injEq, Prod.mk.injEq] at h
    obtain ⟨rfl, rfl, rfl, rfl⟩ := h; simp
  · simp only [Option.some.injEq, Prod.mk.injEq] at h
    obtain ⟨rfl, rfl, rfl, rfl⟩ := h; simp

def PosInv (s : St) : Prop :=
  0 ≤ s.markuper.abspos ∧ 2 ≤ s.markuper.token.length ∧ 0 ≤ s.markuper.absStartSection ∧
  ∀ m ∈ s.markups, 0 ≤ m.start

theorem iterLoop_pos (chunk : Bytes) (fuel : Nat) (mk : Markuper) (cur : CurMeth) (ass : Int) (sns : Nat)
    (acc : List Markup) (h0 : 0 ≤ mk.abspos) (h1 : 2 ≤ mk.token.length) (h2 : 0 ≤ mk.absStartSection)
    (h3 : 0 ≤ ass) (h4 : ∀ m ∈ acc, 0 ≤ m.start) :
    let r := iterLoop chunk fuel mk cur ass sns acc
    0 ≤ r.mkr.abspos ∧ 2 ≤ r.mkr.token.length ∧ 0 ≤ r.mkr.absStartSection ∧ ∀ m ∈ r.out, 0 ≤ m.start := by
  refine iterLoop_inv chunk
    (fun mk _ ass _ acc => 0 ≤ mk.abspos ∧ 2 ≤ mk.token.length ∧ 0 ≤ mk.absStartSection ∧ 0 ≤ ass ∧
      ∀ m ∈ acc, 0 ≤ m.start)
    (fun r => 0 ≤ r.mkr.abspos ∧ 2 ≤ r.mkr.token.length ∧ 0 ≤ r.mkr.absStartSection ∧ ∀ m ∈ r.out, 0 ≤ m.start)
    ?_ ?_ ?_ ?_ ?_ ?_ fuel mk cur ass sns acc ⟨h0, h1, h2, h3, h4⟩
  · intro mk cur ass sns acc h _; exact ⟨h.1, h.2.1, h.2.2.1, h.2.2.2.2⟩
  · intro mk cur ass sns acc e h _; exact ⟨h.1, h.2.1, h.2.2.1, h.2.2.2.2⟩
  · intro mk cur ass sns acc mk' h hc
    have hf := call_frame _ _ _ _ _ _ hc
    refine ⟨?_, by simpa [hf.1] using h.2.1, h.2.2.2.1, h.2.2.2.2⟩
    simp only; rw [hf.2.2.1]; omega
  · intro mk cur ass sns acc mk' e h hc _
    have hf := call_frame _ _ _ _ _ _ hc
    exact ⟨by rw [hf.2.2.1]; exact h.1, by rw [hf.1]; exact h.2.1, by rw [hf.2.2.2.1]; exact h.2.2.1, h.2.2.2.2⟩
  · intro mk cur ass sns acc mk' e m cur' ass' sns' h hc he
    have hf := call_frame _ _ _ _ _ _ hc
    have hr := call_res_ge _ _ _ _ _ _ hc h.2.1
    have ha := emit_ass _ _ _ _ _ _ _ _ he
    have hn := emit_name _ _ _ _ _ _ _ _ he
    refine ⟨by rw [hf.2.2.1]; exact h.1, by rw [hf.1]; exact h.2.1, by rw [hf.2.2.2.1]; exact h.2.2.1, ?_, ?_⟩
    · by_cases hcur : cur = .headers
      · rw [(ha.1 hcur).1, hf.2.2.1]; have := hr.1 hcur; omega
      · rw [(ha.2.1 hcur).1, hf.2.2.1, hf.1]; have := hr.2 hcur; omega
    · intro x hx
      rcases List.mem_append.mp hx with hx | hx
      · exact h.2.2.2.2 x hx
      · simp only [List.mem_singleton] at hx; subst hx; rw [hn.2.2]; exact h.2.2.2.1
  · intro mk cur ass sns acc h; exact ⟨h.1, h.2.1, h.2.2.1, h.2.2.2.2⟩

theorem parse_pos (s : St) (chunk : Bytes) (h : PosInv s) : PosInv (parse s chunk) := by
  unfold parse
  split
  · exact h
  · unfold Markuper.iterMarkup
    split
    · exact ⟨h.1, h.2.1, h.2.2.1, by simpa using h.2.2.2⟩
    · have := iterLoop_pos chunk (chunk.length + 2) s.markuper s.markuper.curMeth
        s.markuper.absStartSection 0 [] h.1 h.2.1 h.2.2.1 h.2.2.1 (by simp)
      simp only at this
      refine ⟨this.1, this.2.1, this.2.2.1, ?_⟩
      intro m hm
      rcases List.mem_append.mp hm with hm | hm
      · exact h.2.2.2 m hm
      · exact this.2.2.2 m hm

theorem feed_pos (s : St) (chunks : List Bytes) (h : PosInv s) : PosInv (feed s chunks) := by
  unfold feed
  induction chunks generalizing s with
  | nil => exact h
  | cons c cs ih => exact ih _ (parse_pos s c h)

theorem init_pos (b : Bytes) (s : St) (h : St.init b = .ok s) : PosInv s := by
  unfold St.init Markuper.init at h
  split at h
  · cases h
  · rename_i m hm
    split at hm
    · cases hm
    · cases hm; cases h
      refine ⟨by simp, ?_, by simp, by simp⟩
      simp [CRLF]

end Ombott.Multipart
