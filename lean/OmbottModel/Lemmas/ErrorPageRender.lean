import OmbottModel.Model.ErrorPageSpec
/-! The template as a list of segments; `render` = fixed text around the `url` field (C20). -/
namespace Ombott.ErrorPage
open Py

/-- a piece of the page template: a literal character or a replacement field -/
inductive Seg
  | lit (c : Char)
  | field (name : Str)
  deriving DecidableEq, Repr

/-- the segments of one formatted line: `fmt` without the evaluation -/
def segs : FState → Str → Except FErr (List Seg)
  | .lit, [] => .ok []
  | .lit, '{' :: '{' :: r => (segs .lit r).map (.lit '{' :: ·)
  | .lit, ['{'] => .error (.py .valueError)
  | .lit, '{' :: r => segs (.field []) r
  | .lit, '}' :: '}' :: r => (segs .lit r).map (.lit '}' :: ·)
  | .lit, '}' :: _ => .error (.py .valueError)
  | .lit, c :: r => (segs .lit r).map (.lit c :: ·)
  | .field _, [] => .error (.py .valueError)
  | .field acc, c :: r =>
    if c == '}' then (segs .lit r).map (.field acc.reverse :: ·)
    else if c == '{' then .error (.py .valueError)
    else if c == ':' || c == '!' || c == '[' then .error .unsupported
    else segs (.field (c :: acc)) r

def evalSegs (ctx : Ctx) : List Seg → Except FErr Str
  | [] => .ok []
  | .lit c :: r => (evalSegs ctx r).map (c :: ·)
  | .field n :: r =>
    match evalField ctx n with
    | .ok v => (evalSegs ctx r).map (v ++ ·)
    | .error e => .error e

theorem map_ok {α β ε} (f : α → β) (x : Except ε α) (a : α) (h : x = .ok a) : x.map f = .ok (f a) := by
  subst h; rfl

theorem map_eq_ok {α β ε} {f : α → β} {x : Except ε α} {b : β} (h : x.map f = .ok b) :
    ∃ a, x = .ok a ∧ b = f a := by
  cases x with
  | error e => cases h
  | ok a => exact ⟨a, rfl, by cases h; rfl⟩

theorem fmt_eq_evalSegs (ctx : Ctx) (st : FState) (s : Str) (l : List Seg) (h : segs st s = .ok l) :
    fmt ctx st s = evalSegs ctx l := by
  fun_induction segs st s generalizing l with
  | case1 => cases h; rfl
  | case2 r ih =>
    obtain ⟨a, ha, rfl⟩ := map_eq_ok h
    simp only [fmt, evalSegs, ih a ha]
  | case3 => cases h
  | case4 r _ _ ih =>
    rw [fmt]
    · exact ih l h
    all_goals assumption
  | case5 r ih =>
    obtain ⟨a, ha, rfl⟩ := map_eq_ok h
    simp only [fmt, evalSegs, ih a ha]
  | case6 => cases h
  | case7 c r _ _ _ _ _ ih =>
    obtain ⟨a, ha, rfl⟩ := map_eq_ok h
    rw [fmt]
    · simp only [evalSegs, ih a ha]
    all_goals assumption
  | case8 => cases h
  | case9 acc c r hc ih =>
    obtain ⟨a, ha, rfl⟩ := map_eq_ok h
    simp only [fmt, hc, if_true, evalSegs, ih a ha]
    cases evalField ctx acc.reverse <;> rfl
  | case10 => cases h
  | case11 => cases h
  | case12 acc c r h1 h2 h3 ih =>
    simp only [fmt, h1, h2, h3, if_false, Bool.false_eq_true]
    exact ih l h

end Ombott.ErrorPage

namespace Ombott.ErrorPage
open Py

/-- segments of the whole template, following the `<style>` skipping of `renderLoop` -/
def templateSegs : Bool → List Str → Except FErr (List Seg)
  | _, [] => .ok []
  | true, ln :: rest =>
    (templateSegs (!("</style".toList.isPrefixOf ln)) rest).map (ln.map .lit ++ ·)
  | false, ln :: rest =>
    if "<style".toList.isPrefixOf ln then (templateSegs true rest).map (ln.map .lit ++ ·)
    else match segs .lit ln with
      | .ok l => (templateSegs false rest).map (l ++ ·)
      | .error e => .error e

theorem evalSegs_lits (ctx : Ctx) (ln : Str) (r : List Seg) :
    evalSegs ctx (ln.map .lit ++ r) = (evalSegs ctx r).map (ln ++ ·) := by
  induction ln with
  | nil => simp only [List.map_nil, List.nil_append]; cases evalSegs ctx r <;> rfl
  | cons c cs ih =>
    simp only [List.map_cons, List.cons_append, evalSegs, ih]
    cases evalSegs ctx r <;> rfl

theorem evalSegs_append (ctx : Ctx) (a b : List Seg) :
    evalSegs ctx (a ++ b) =
      match evalSegs ctx a with
      | .ok x => (evalSegs ctx b).map (x ++ ·)
      | .error e => .error e := by
  induction a with
  | nil => simp only [List.nil_append, evalSegs]; cases evalSegs ctx b <;> rfl
  | cons s r ih =>
    cases s with
    | lit c =>
      simp only [List.cons_append, evalSegs, ih]
      cases evalSegs ctx r with
      | error e => rfl
      | ok x => cases evalSegs ctx b <;> rfl
    | field n =>
      simp only [List.cons_append, evalSegs]
      cases evalField ctx n with
      | error e => rfl
      | ok v =>
        simp only [ih]
        cases evalSegs ctx r with
        | error e => rfl
        | ok x => cases evalSegs ctx b <;> simp [Except.map]

theorem renderLoop_eq_evalSegs (ctx : Ctx) (sk : Bool) (lines : List Str) (l : List Seg)
    (h : templateSegs sk lines = .ok l) : renderLoop ctx sk lines = evalSegs ctx l := by
  induction lines generalizing sk l with
  | nil => cases sk <;> (simp only [templateSegs] at h; cases h; rfl)
  | cons ln rest ih =>
    cases sk with
    | true =>
      simp only [templateSegs] at h
      obtain ⟨a, ha, rfl⟩ := map_eq_ok h
      simp only [renderLoop, ih _ a ha, evalSegs_lits]
    | false =>
      simp only [templateSegs] at h
      simp only [renderLoop]
      split at h
      · rename_i hs
        obtain ⟨a, ha, rfl⟩ := map_eq_ok h
        simp only [hs, if_true, ih _ a ha, evalSegs_lits]
      · rename_i hs
        simp only [hs, if_false, Bool.false_eq_true]
        split at h
        · rename_i l' hl'
          obtain ⟨a, ha, rfl⟩ := map_eq_ok h
          rw [fmt_eq_evalSegs ctx .lit ln l' hl', evalSegs_append, ih _ a ha]
          cases evalSegs ctx l' <;> rfl
        · cases h

/-! ### the `url` hole -/

def urlField : Seg := .field ['u', 'r', 'l']

/-- the other fields `render` fills; none of them is derived from the request -/
def fixedFields : List Str :=
  [['e', '.', 's', 't', 'a', 't', 'u', 's'], ['e', '.', 'b', 'o', 'd', 'y'],
   ['e', 'x', 'c', 'e', 'p', 't', 'i', 'o', 'n'], ['t', 'r', 'a', 'c', 'e', 'b', 'a', 'c', 'k']]

/-- only literals and the four request-independent fields -/
def fixedOnly (l : List Seg) : Bool :=
  l.all fun s => match s with
    | .lit _ => true
    | .field n => fixedFields.contains n

/-- text of segments without a `url` field: a function of status, body, exception, traceback -/
def fillFixed (st bd ex tb : Str) : List Seg → Str
  | [] => []
  | .lit c :: r => c :: fillFixed st bd ex tb r
  | .field n :: r =>
    (if n == ['e', '.', 's', 't', 'a', 't', 'u', 's'] then st
     else if n == ['e', '.', 'b', 'o', 'd', 'y'] then bd
     else if n == ['e', 'x', 'c', 'e', 'p', 't', 'i', 'o', 'n'] then ex
     else tb) ++ fillFixed st bd ex tb r

theorem evalField_fixed (ctx : Ctx) (n : Str) (h : fixedFields.contains n = true) :
    evalField ctx n = .ok
      (if n == ['e', '.', 's', 't', 'a', 't', 'u', 's'] then ctx.status
       else if n == ['e', '.', 'b', 'o', 'd', 'y'] then ctx.body
       else if n == ['e', 'x', 'c', 'e', 'p', 't', 'i', 'o', 'n'] then ctx.exception
       else ctx.traceback) := by
  simp only [fixedFields, List.contains_cons, List.contains_nil, Bool.or_false, Bool.or_eq_true,
    beq_iff_eq] at h
  rcases h with rfl | rfl | rfl | rfl <;> rfl

theorem evalSegs_fixed (ctx : Ctx) (l : List Seg) (h : fixedOnly l = true) :
    evalSegs ctx l = .ok (fillFixed ctx.status ctx.body ctx.exception ctx.traceback l) := by
  induction l with
  | nil => rfl
  | cons s r ih =>
    simp only [fixedOnly, List.all_cons, Bool.and_eq_true] at h
    have ih' := ih (by simpa [fixedOnly] using h.2)
    cases s with
    | lit c => simp only [evalSegs, ih', fillFixed]; rfl
    | field n =>
      simp only [evalSegs, evalField_fixed ctx n h.1, ih', fillFixed]
      rfl

theorem evalField_url (ctx : Ctx) : evalField ctx ['u', 'r', 'l'] = .ok ctx.url := rfl

/-- split at the first `url` field -/
def splitUrl : List Seg → Option (List Seg × List Seg)
  | [] => none
  | s :: r => if s = urlField then some ([], r) else (splitUrl r).map fun (a, b) => (s :: a, b)

theorem splitUrl_spec {l a b : List Seg} (h : splitUrl l = some (a, b)) : l = a ++ urlField :: b := by
  induction l generalizing a b with
  | nil => cases h
  | cons s r ih =>
    simp only [splitUrl] at h
    split at h
    · rename_i hs
      cases h
      simp [hs]
    · cases hr : splitUrl r with
      | none => simp [hr] at h
      | some p =>
        obtain ⟨a', b'⟩ := p
        simp only [hr, Option.map_some, Option.some.injEq, Prod.mk.injEq] at h
        obtain ⟨rfl, rfl⟩ := h
        simp [ih hr]

/-- what the inertness theorem needs from the template: it formats without an unsupported
construct, its fields are the four fixed ones plus exactly one `{url}` -/
def templateOK (lines : List Str) : Bool :=
  match templateSegs false lines with
  | .ok l =>
    match splitUrl l with
    | some (a, b) => fixedOnly a && fixedOnly b
    | none => false
  | .error _ => false

/-- the two fixed parts of the page around the URL cell -/
def templateParts (lines : List Str) : List Seg × List Seg :=
  match templateSegs false lines with
  | .ok l => (splitUrl l).getD ([], [])
  | .error _ => ([], [])

theorem renderLoop_parts (lines : List Str) (h : templateOK lines = true) (ctx : Ctx) :
    renderLoop ctx false lines = .ok
      (fillFixed ctx.status ctx.body ctx.exception ctx.traceback (templateParts lines).1 ++ ctx.url ++
       fillFixed ctx.status ctx.body ctx.exception ctx.traceback (templateParts lines).2) := by
  unfold templateOK at h
  unfold templateParts
  cases hl : templateSegs false lines with
  | error e => simp [hl] at h
  | ok l =>
    simp only [hl] at h ⊢
    cases hs : splitUrl l with
    | none => simp [hs] at h
    | some p =>
      obtain ⟨a, b⟩ := p
      simp only [hs, Bool.and_eq_true, Option.getD_some] at h ⊢
      rw [renderLoop_eq_evalSegs ctx false lines l hl, splitUrl_spec hs, evalSegs_append,
        evalSegs_fixed ctx a h.1]
      simp only [urlField, evalSegs, evalField_url, evalSegs_fixed ctx b h.2]
      simp [Except.map]

end Ombott.ErrorPage

namespace Ombott.ErrorPage

/-- names of the replacement fields, in order -/
def fieldNames (l : List Seg) : List Py.Str :=
  l.filterMap fun s => match s with
    | .field n => some n
    | .lit _ => none

/-- the fields the model's `str.format` reader finds in the formatted lines of a template -/
def templateFieldNames (lines : List Py.Str) : Option (List Py.Str) :=
  match templateSegs false lines with
  | .ok l => some (fieldNames l)
  | .error _ => none

end Ombott.ErrorPage
