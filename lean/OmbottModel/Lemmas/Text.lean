import OmbottModel.Py.Text
/-! UTF-8 / Latin-1 facts used by C14 and C15: bytes of a multi-byte UTF-8 sequence are all
≥ 0x80, so an ASCII character occurs in the transcoded text exactly where it occurs in the
original; `latin1 ∘ utf8` is undone by `utf8⁻¹ ∘ latin1⁻¹`. -/
namespace Py

theorem Char.toNat_ofNat_lt256 (n : Nat) (h : n < 256) : (Char.ofNat n).toNat = n := by
  unfold Char.ofNat
  have hv : n.isValidChar := by unfold Nat.isValidChar; omega
  simp [hv, Char.toNat, Char.ofNatAux]

/-- every byte of the UTF-8 encoding of `x` is `x` itself (ASCII) or ≥ 0x80 (`utf8_ascii_iff`
of DESIGN.md) -/
theorem utf8EncodeChar_bytes (x : Char) (b : UInt8) (hb : b ∈ String.utf8EncodeChar x) :
    (x.toNat ≤ 127 ∧ b.toNat = x.toNat) ∨ (127 < x.toNat ∧ 128 ≤ b.toNat) := by
  unfold String.utf8EncodeChar at hb
  simp only [Char.toNat] at *
  split at hb
  · left
    simp only [List.mem_singleton] at hb
    subst hb
    rename_i h
    refine ⟨h, ?_⟩
    simp only [UInt8.toNat_ofNat']
    omega
  · right
    rename_i h
    refine ⟨by omega, ?_⟩
    split at hb
    · simp only [List.mem_cons, List.not_mem_nil, or_false] at hb
      rcases hb with rfl | rfl <;> simp only [UInt8.toNat_ofNat'] <;> omega
    · split at hb
      · simp only [List.mem_cons, List.not_mem_nil, or_false] at hb
        rcases hb with rfl | rfl | rfl <;> simp only [UInt8.toNat_ofNat'] <;> omega
      · simp only [List.mem_cons, List.not_mem_nil, or_false] at hb
        rcases hb with rfl | rfl | rfl | rfl <;> simp only [UInt8.toNat_ofNat'] <;> omega

/-- an ASCII character is encoded as itself -/
theorem utf8EncodeChar_ascii (x : Char) (h : x.toNat ≤ 127) :
    String.utf8EncodeChar x = [UInt8.ofNat x.toNat] := by
  unfold String.utf8EncodeChar
  simp only [Char.toNat] at *
  rw [if_pos h]

theorem transcode_cons (x : Char) (s : Str) :
    transcode (x :: s) = latin1Dec (String.utf8EncodeChar x) ++ transcode s := by
  simp [transcode, utf8Enc, latin1Dec]

theorem transcode_nil : transcode [] = [] := rfl

theorem transcode_append (s t : Str) : transcode (s ++ t) = transcode s ++ transcode t := by
  simp [transcode, utf8Enc, latin1Dec]

/-- an ASCII character occurs in the transcoded text iff it occurs in the original -/
theorem mem_transcode_ascii (c : Char) (hc : c.toNat ≤ 127) (s : Str) :
    c ∈ transcode s ↔ c ∈ s := by
  induction s with
  | nil => simp [transcode_nil]
  | cons x xs ih =>
    rw [transcode_cons, List.mem_append, ih, List.mem_cons]
    constructor
    · rintro (h | h)
      · left
        simp only [latin1Dec, List.mem_map] at h
        obtain ⟨b, hb, rfl⟩ := h
        have hb256 : b.toNat < 256 := b.toNat_lt
        rw [Char.toNat_ofNat_lt256 _ hb256] at hc
        rcases utf8EncodeChar_bytes x b hb with ⟨_, h2⟩ | ⟨_, h2⟩
        · rw [h2]; exact Char.ofNat_toNat x
        · omega
      · exact Or.inr h
    · rintro (rfl | h)
      · left
        rw [utf8EncodeChar_ascii c hc]
        have : c.toNat < 256 := by omega
        simp [latin1Dec, UInt8.toNat_ofNat', Nat.mod_eq_of_lt this]
      · exact Or.inr h

/-- ASCII text is transcoded to itself -/
theorem transcode_ascii (s : Str) (h : ∀ c ∈ s, c.toNat ≤ 127) : transcode s = s := by
  induction s with
  | nil => rfl
  | cons x xs ih =>
    have hx : x.toNat ≤ 127 := h x (by simp)
    have : x.toNat < 256 := by omega
    rw [transcode_cons, utf8EncodeChar_ascii x hx, ih (fun c hc => h c (by simp [hc]))]
    simp [latin1Dec, UInt8.toNat_ofNat', Nat.mod_eq_of_lt this]

theorem latin1Dec_lt256 (b : Bytes) : ∀ c ∈ latin1Dec b, c.toNat < 256 := by
  intro c hc
  simp only [latin1Dec, List.mem_map] at hc
  obtain ⟨x, _, rfl⟩ := hc
  rw [Char.toNat_ofNat_lt256 _ x.toNat_lt]
  exact x.toNat_lt

theorem latin1Enc_latin1Dec (b : Bytes) : latin1Enc (latin1Dec b) = some b := by
  induction b with
  | nil => rfl
  | cons x xs ih =>
    have hx : x.toNat < 256 := x.toNat_lt
    simp only [latin1Dec, List.map_cons] at *
    simp only [latin1Enc, Char.toNat_ofNat_lt256 _ hx, hx, if_true, ih, Option.map_some]
    simp

theorem utf8Enc_toByteArray (s : Str) : (utf8Enc s).toByteArray = s.utf8Encode := rfl

/-- the model's `decode('utf8')` inverts its `encode('utf8')` (core's round-trip lemma) -/
theorem utf8Dec_utf8Enc (s : Str) : utf8Dec (utf8Enc s) = some s := by
  unfold utf8Dec
  have h : ByteArray.mk (utf8Enc s).toArray = s.utf8Encode := by
    rw [← utf8Enc_toByteArray]
    apply ByteArray.ext
    simp [List.data_toByteArray]
  rw [h]
  have : String.fromUTF8? s.utf8Encode = some (String.ofList s) := by
    unfold String.fromUTF8?
    rw [dif_pos ByteArray.isValidUTF8_utf8Encode]
    congr 1
  simp [this]

end Py
