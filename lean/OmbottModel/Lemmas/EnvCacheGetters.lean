import OmbottModel.Lemmas.EnvCacheRead
/-!
Every getter of `Model/EnvCache.lean` simulates its description: `sim_read`.
-/
namespace Ombott.EnvCache
open Py Ombott.Body Ombott.Forms Ombott.BodyAccess

variable (cfg : Cfg) (L : Lib)

/-- a property that is `cache_in` around a function of the WSGI strings -/
theorem sim_leaf (p : Prop') (r : List Key) (f : Env → Except Exc Val) (hd : desc cfg L p = .pure r f)
    (s : RS) (hI : Inv cfg L s.env) :
    Sim cfg L (cacheIn p.key fun s => (f s.env, s)) (specRead cfg L p) s := by
  have hs : desc cfg L p ≠ .special := by rw [hd]; simp
  have hp : p ≠ .post := by intro h; subst h; simp [desc] at hd
  apply cacheIn_sim cfg L p hs hp _ s hI
  intro _
  have hsp : specRead cfg L p = fun s => (f s.env, s) := by unfold specRead; rw [hd]
  rw [hsp]
  have ok := desc_ok cfg L p
  rw [hd] at ok
  exact Sim.reads ok.1 (fun k hk => (ok.2 k hk).1) s hI

theorem sim_cookies (s : RS) (hI : Inv cfg L s.env) : Sim cfg L (rdCookies L) (specRead cfg L .cookies) s :=
  sim_leaf cfg L .cookies _ _ rfl s hI

theorem sim_scriptName (s : RS) (hI : Inv cfg L s.env) : Sim cfg L (rdScriptName cfg) (specRead cfg L .scriptName) s :=
  sim_leaf cfg L .scriptName _ _ rfl s hI

theorem sim_isJson (s : RS) (hI : Inv cfg L s.env) : Sim cfg L rdIsJson (specRead cfg L .isJsonRequested) s :=
  sim_leaf cfg L .isJsonRequested _ _ rfl s hI

theorem sim_remoteRoute (s : RS) (hI : Inv cfg L s.env) : Sim cfg L rdRemoteRoute (specRead cfg L .remoteRoute) s :=
  sim_leaf cfg L .remoteRoute _ _ rfl s hI

theorem sim_contentLength (s : RS) (hI : Inv cfg L s.env) : Sim cfg L rdContentLength (specRead cfg L .contentLength) s :=
  sim_leaf cfg L .contentLength _ _ rfl s hI

theorem sim_contentType (s : RS) (hI : Inv cfg L s.env) : Sim cfg L rdContentType (specRead cfg L .contentType) s :=
  sim_leaf cfg L .contentType _ _ rfl s hI

theorem kGet_facts : isCacheKey kGet = true ∧ kGet ≠ kPost ∧ ∀ q : Prop', q.key ≠ kGet := by
  refine ⟨by decide, by decide, ?_⟩
  intro q; cases q <;> decide

theorem sim_query (s : RS) (hI : Inv cfg L s.env) : Sim cfg L rdQuery (specRead cfg L .query) s := by
  apply cacheIn_sim cfg L .query (by simp [desc]) (by simp) _ s hI
  intro _
  have hsp : specRead cfg L .query = fun s => (queryOf s.env, s) := rfl
  rw [hsp]
  have hq : queryOf (erase s.env) = queryOf s.env := ro_queryOf.erase (fun k hk => by simp at hk; subst hk; decide) s.env
  obtain ⟨g1, g2, g3⟩ := kGet_facts
  unfold Sim
  simp only [A_env, hq]
  cases queryOf s.env with
  | error x => exact ⟨rfl, rfl, hI⟩
  | ok v =>
    refine ⟨rfl, ?_, hI.store_other kGet v g1 (fun q _ => g3 q) g2⟩
    simp [A, erase_set_cache _ _ _ g1]

/-- rewriting the reference of a `Sim` -/
theorem Sim.congr {α} {m S S' : M α} {s : RS} (h : Sim cfg L m S s) (he : S = S') : Sim cfg L m S' s := he ▸ h

theorem sim_ctype (s : RS) (hI : Inv cfg L s.env) : Sim cfg L rdCtype (specRead cfg L .ctype) s := by
  apply cacheIn_sim cfg L .ctype (by simp [desc]) (by simp) _ s hI
  intro _
  have h := Sim.bind (sim_contentType cfg L s hI) (f := fun ct => liftE (ctypeFrom ct)) (T := fun ct => liftE (ctypeFrom ct))
    (fun a s1 hm => Sim.liftE _ s1 (by have := (sim_contentType cfg L s hI).inv; rw [hm] at this; exact this))
  exact h.congr cfg L rfl

theorem sim_fullpath (s : RS) (hI : Inv cfg L s.env) : Sim cfg L (rdFullpath cfg L) (specRead cfg L .fullpath) s := by
  apply cacheIn_sim cfg L .fullpath (by simp [desc]) (by simp) _ s hI
  intro _
  have hro : ∀ sn, ReadsOnly pathKeys fun e => fullpathFrom cfg L e sn := by
    intro sn e e' h
    have h2 := ro_pathOf.mono (ks' := pathKeys) (by simp [pathKeys]) e e' h
    have h3 : e.str? [] = e'.str? [] := h _ (by simp [pathKeys])
    simp only [fullpathFrom, h2, h3]
  have hpk : ∀ k ∈ pathKeys, isCacheKey k = false := by decide
  have h := Sim.bind (sim_scriptName cfg L s hI)
    (f := fun sn => M.bind (liftE (asStr sn)) fun sn => fun s => (.ok (fullpathFrom cfg L s.env sn), s))
    (T := fun sn => M.bind (liftE (asStr sn)) fun sn => fun s => (.ok (fullpathFrom cfg L s.env sn), s))
    (fun a s1 hm => by
      have hI1 : Inv cfg L s1.env := by have := (sim_scriptName cfg L s hI).inv; rw [hm] at this; exact this
      exact Sim.bind (Sim.liftE _ s1 hI1) fun sn s2 h2 => by
        have : s2 = s1 := by simp [liftE] at h2; exact h2.2.symm
        subst this
        exact Sim.reads (f := fun e => .ok (fullpathFrom cfg L e sn)) (ks := pathKeys)
          (fun e e' h => by simp only [hro sn e e' h]) hpk s2 hI1)
  refine h.congr cfg L ?_
  funext t
  simp only [specRead, desc, M.bind, fullpathOf, liftE]
  cases asStr (scriptNameOf cfg t.env) <;> rfl

theorem Sim.inv_of {α} {m S : M α} {s s1 : RS} {a : Except Exc α} (h : Sim cfg L m S s) (hm : m s = (a, s1)) :
    Inv cfg L s1.env := by have := h.inv; rw [hm] at this; exact this

theorem liftE_state {α} {r : Except Exc α} {s s2 : RS} {a : α} (h : liftE r s = (.ok a, s2)) : s2 = s ∧ r = .ok a := by
  simp only [liftE, Prod.mk.injEq] at h; exact ⟨h.2.symm, h.1⟩

theorem sim_urlparts (s : RS) (hI : Inv cfg L s.env) : Sim cfg L (rdUrlparts cfg L) (specRead cfg L .urlparts) s := by
  apply cacheIn_sim cfg L .urlparts (by simp [desc]) (by simp) _ s hI
  intro _
  have hro : ∀ fp, ReadsOnly (pathKeys ++ urlKeys) fun e => urlpartsFrom L e fp := by
    intro fp e e' h
    have h2 := ro_schemeOf.mono (ks' := pathKeys ++ urlKeys) (fun k hk => by simp [hk]) e e' h
    have h3 := ro_hostOf.mono (ks' := pathKeys ++ urlKeys) (fun k hk => by simp [hk]) e e' h
    have h4 : e.str? cs!"QUERY_STRING" = e'.str? cs!"QUERY_STRING" := h kQS (by simp [urlKeys])
    simp only [urlpartsFrom, h2, h3, h4]
  have hpk : ∀ k ∈ pathKeys ++ urlKeys, isCacheKey k = false := by decide
  have h := Sim.bind (sim_fullpath cfg L s hI)
    (f := fun fp => M.bind (liftE (asStr fp)) fun fp => fun s => (.ok (urlpartsFrom L s.env fp), s))
    (T := fun fp => M.bind (liftE (asStr fp)) fun fp => fun s => (.ok (urlpartsFrom L s.env fp), s))
    (fun a s1 hm => by
      have hI1 := (sim_fullpath cfg L s hI).inv_of cfg L hm
      exact Sim.bind (Sim.liftE _ s1 hI1) fun fp s2 h2 => by
        obtain ⟨rfl, -⟩ := liftE_state h2
        exact Sim.reads (f := fun e => .ok (urlpartsFrom L e fp)) (ks := pathKeys ++ urlKeys)
          (fun e e' h => by simp only [hro fp e e' h]) hpk _ hI1)
  refine h.congr cfg L ?_
  funext t
  simp only [specRead, desc, M.bind, urlpartsOf, liftE]
  cases hfp : fullpathOf cfg L t.env with
  | error x => rfl
  | ok v => simp only [Except.bind]; cases asStr v <;> rfl

theorem sim_url (s : RS) (hI : Inv cfg L s.env) : Sim cfg L (rdUrl cfg L) (specRead cfg L .url) s := by
  apply cacheIn_sim cfg L .url (by simp [desc]) (by simp) _ s hI
  intro _
  have h := Sim.bind (sim_urlparts cfg L s hI) (f := fun p => liftE (urlFrom L p)) (T := fun p => liftE (urlFrom L p))
    (fun a s1 hm => Sim.liftE _ s1 ((sim_urlparts cfg L s hI).inv_of cfg L hm))
  refine h.congr cfg L ?_
  funext t
  simp only [specRead, desc, M.bind, urlOf, liftE]
  cases urlpartsOf cfg L t.env <;> rfl

end Ombott.EnvCache
