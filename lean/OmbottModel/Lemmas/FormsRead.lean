import OmbottModel.Model.Forms
import OmbottModel.Lemmas.FormsParse
/-!
`FieldStorage.read` on one part written by the encoder, and `iter_items` over the sections of an
encoded body (C07).
-/
namespace Ombott.Forms
open Py Ombott.Multipart

/-! ### UTF-8 -/

theorem utf8Encode_append (a b : Str) : utf8Encode (a ++ b) = utf8Encode a ++ utf8Encode b := by
  simp [utf8Encode]

theorem utf8Decode_encode (s : Str) : utf8Decode (utf8Encode s) = some s := by
  unfold utf8Decode utf8Encode
  have : (s.flatMap String.utf8EncodeChar).toByteArray = s.utf8Encode := rfl
  rw [this, List.utf8Decode?_utf8Encode]
  simp

theorem utf8Encode_crlf : utf8Encode ['\r', '\n'] = CRLF := by decide

theorem uint8_ofNat_toNat (n : Nat) (b : UInt8) (h : UInt8.ofNat n = b) : n % 256 = b.toNat := by
  have := congrArg UInt8.toNat h
  simpa using this

/-- an ASCII byte occurs in a UTF-8 encoding only as the character with that code -/
theorem mem_utf8EncodeChar_ascii (c : Char) (b : UInt8) (hb : b.toNat < 128)
    (h : b ∈ String.utf8EncodeChar c) : c.val.toNat = b.toNat := by
  unfold String.utf8EncodeChar at h
  simp only at h
  split at h
  · rename_i hv
    simp only [List.mem_singleton] at h
    have := uint8_ofNat_toNat _ _ h.symm
    omega
  · split at h
    · simp only [List.mem_cons, List.not_mem_nil, or_false] at h
      rcases h with h | h <;> have := uint8_ofNat_toNat _ _ h.symm <;> omega
    · split at h
      · simp only [List.mem_cons, List.not_mem_nil, or_false] at h
        rcases h with h | h | h <;> have := uint8_ofNat_toNat _ _ h.symm <;> omega
      · simp only [List.mem_cons, List.not_mem_nil, or_false] at h
        rcases h with h | h | h | h <;> have := uint8_ofNat_toNat _ _ h.symm <;> omega

theorem mem_utf8Encode_ascii (s : Str) (b : UInt8) (hb : b.toNat < 128) (h : b ∈ utf8Encode s) :
    ∃ c ∈ s, c.val.toNat = b.toNat := by
  unfold utf8Encode at h
  obtain ⟨c, hc, hbc⟩ := List.mem_flatMap.mp h
  exact ⟨c, hc, mem_utf8EncodeChar_ascii c b hb hbc⟩

theorem cr_not_mem_utf8Encode (s : Str) (h : '\r' ∉ s) : CR ∉ utf8Encode s := by
  intro hm
  obtain ⟨c, hc, hv⟩ := mem_utf8Encode_ascii s CR (by decide) hm
  have : c = '\r' := by
    apply Char.ext
    apply UInt32.toNat_inj.mp
    rw [hv]; rfl
  exact h (this ▸ hc)

theorem lf_not_mem_utf8Encode (s : Str) (h : '\n' ∉ s) : LF ∉ utf8Encode s := by
  intro hm
  obtain ⟨c, hc, hv⟩ := mem_utf8Encode_ascii s LF (by decide) hm
  have : c = '\n' := by
    apply Char.ext
    apply UInt32.toNat_inj.mp
    rw [hv]; rfl
  exact h (this ▸ hc)

/-! ### the domain -/

/-- a field of the C07 domain -/
def FieldOK : Field → Prop
  | .text n _ => NameOK n
  | .file n fn ct _ => NameOK n ∧ NameOK fn ∧ fn ≠ [] ∧ ∀ c, ct = some c → CtOK c

/-- what `FieldStorage.read` counts against `max_memfile_size` for a field: its header block, plus
the data of a text field -/
def dataCost : Field → Nat
  | .text _ v => (utf8Encode v).length
  | .file _ _ _ _ => 0

def fieldCost (f : Field) : Nat := (utf8Encode (joinCRLF f.headerLines)).length + dataCost f

def textBudget (fs : List Field) : Nat := (fs.map fieldCost).sum

theorem headerBlock_join (lines : List Str) (h : lines ≠ []) :
    Spec.headerBlock (lines.map utf8Encode) = utf8Encode (joinCRLF lines) ++ CRLF := by
  unfold Spec.headerBlock
  induction lines with
  | nil => exact absurd rfl h
  | cons l ls ih =>
    cases ls with
    | nil => simp [joinCRLF]
    | cons l' ls' =>
      have := ih (by simp)
      simp only [List.map_cons, List.flatten_cons] at this ⊢
      rw [this, joinCRLF]
      have e : l ++ '\r' :: '\n' :: joinCRLF (l' :: ls') = l ++ (['\r', '\n'] ++ joinCRLF (l' :: ls')) := by simp
      rw [e, utf8Encode_append, utf8Encode_append, utf8Encode_crlf]
      simp only [List.append_assoc]

theorem quoted_noBreak (n : Str) (hn : NameOK n) : NoBreak (quoted n) := by
  intro c hc
  unfold quoted at hc
  rcases List.mem_cons.mp hc with rfl | hc
  · decide
  · rcases List.mem_append.mp hc with hc | hc
    · exact (hn c hc).2
    · rcases List.mem_singleton.mp hc with rfl
      decide

theorem dispLine_noBreak (n : Str) (fn : Option Str) (hn : NameOK n) (hfn : ∀ f, fn = some f → NameOK f) :
    dispLine n fn ≠ [] ∧ NoBreak (dispLine n fn) := by
  refine ⟨by simp [dispLine], ?_⟩
  intro c hc
  unfold dispLine at hc
  have h1 : ∀ c ∈ cs!"Content-Disposition: form-data; name=", isLineBreak c = false := by decide
  have h2 : ∀ c ∈ cs!"; filename=", isLineBreak c = false := by decide
  rcases List.mem_append.mp hc with hc | hc
  · rcases List.mem_append.mp hc with hc | hc
    · exact h1 c hc
    · exact quoted_noBreak n hn c hc
  · cases fn with
    | none => cases hc
    | some f =>
      rcases List.mem_append.mp hc with hc | hc
      · exact h2 c hc
      · exact quoted_noBreak f (hfn f rfl) c hc

theorem headerLines_ok (f : Field) (hf : FieldOK f) :
    f.headerLines ≠ [] ∧ ∀ l ∈ f.headerLines, l ≠ [] ∧ NoBreak l := by
  cases f with
  | text n v =>
    refine ⟨by simp [Field.headerLines], ?_⟩
    intro l hl
    simp only [Field.headerLines, List.mem_singleton] at hl
    subst hl
    exact dispLine_noBreak n none hf (fun f h => by cases h)
  | file n fn ct c =>
    obtain ⟨h1, h2, h3, h4⟩ := hf
    refine ⟨by simp [Field.headerLines], ?_⟩
    intro l hl
    simp only [Field.headerLines, List.mem_cons] at hl
    rcases hl with rfl | hl
    · exact dispLine_noBreak n (some fn) h1 (fun f h => by cases h; exact h2)
    · cases ct with
      | none => simp at hl
      | some ctv =>
        simp only [List.mem_singleton] at hl
        subst hl
        obtain ⟨_, hc, _⟩ := h4 ctv rfl
        refine ⟨by simp, ?_⟩
        intro c hx
        have h0 : ∀ c ∈ cs!"Content-Type: ", isLineBreak c = false := by decide
        rcases List.mem_append.mp hx with hx | hx
        · exact h0 c hx
        · exact (hc c hx).2.2

/-! ### the header lines of one field -/

def ctypeHeader (ct : Str) : Header := ⟨cs!"Content-Type", ct, []⟩

/-- `field.headers` after `read` -/
def fieldHeaders : Field → List (Str × Header)
  | .text n _ => [(cs!"Content-Disposition", dispHeader n none)]
  | .file n fn ct _ =>
    (cs!"Content-Disposition", dispHeader n (some fn)) ::
      (match ct with | some c => [(cs!"Content-Type", ctypeHeader c)] | none => [])

def fieldFilename : Field → Option Str
  | .text _ _ => none
  | .file _ fn _ _ => some fn

def fieldCtype : Field → Option Str
  | .text _ _ => none
  | .file _ _ ct _ => ct

theorem dictGet_disp_name (n : Str) (fn : Option Str) :
    dictGet (dispHeader n fn).options cs!"name" = some (some n) := by
  simp [dispHeader, dictGet]

theorem dictGet_disp_filename (n : Str) (fn : Option Str) :
    (dictGet (dispHeader n fn).options cs!"filename").join = fn := by
  have hne : (cs!"name" == cs!"filename") = false := by decide
  cases fn with
  | none => simp [dispHeader, dictGet, List.find?, hne]
  | some f => simp [dispHeader, dictGet, List.find?, hne]

theorem readLine_disp (st : RdSt) (n : Str) (fn : Option Str) (hn : NameOK n) (hfn : ∀ f, fn = some f → NameOK f) :
    readLine st (dispLine n fn) =
      .ok { st with headers := dictSet st.headers cs!"Content-Disposition" (dispHeader n fn),
                    name := some n, filename := fn } := by
  unfold readLine
  rw [parseHeader_disp n fn hn hfn]
  simp only
  have hname : (dispHeader n fn).name = cs!"Content-Disposition" := rfl
  rw [if_pos hname, dictGet_disp_name, dictGet_disp_filename, hname]

theorem readLine_ctype (st : RdSt) (ct : Str) (h : CtOK ct) :
    readLine st (cs!"Content-Type: " ++ ct) =
      .ok { st with headers := dictSet st.headers cs!"Content-Type" (ctypeHeader ct), ctype := some ct } := by
  unfold readLine
  rw [parseHeader_ctype ct h]
  simp only
  have h1 : ¬ (cs!"Content-Type" = cs!"Content-Disposition") := by decide
  rw [if_neg h1]
  simp only [↓reduceIte]
  rfl

theorem readLines_field (f : Field) (hf : FieldOK f) :
    readLines {} f.headerLines = .ok ⟨some f.name, fieldFilename f, fieldCtype f, fieldHeaders f⟩ := by
  have hd : (cs!"Content-Disposition" == cs!"Content-Type") = false := by decide
  cases f with
  | text n v =>
    simp only [Field.headerLines, readLines]
    rw [readLine_disp _ n none hf (fun f h => by cases h)]
    simp [dictSet, fieldHeaders, fieldFilename, fieldCtype, Field.name]
  | file n fn ct c =>
    obtain ⟨h1, h2, h3, h4⟩ := hf
    cases ct with
    | none =>
      simp only [Field.headerLines, readLines]
      rw [readLine_disp _ n (some fn) h1 (fun f h => by cases h; exact h2)]
      simp [dictSet, fieldHeaders, fieldFilename, fieldCtype, Field.name]
    | some ctv =>
      simp only [Field.headerLines, readLines]
      rw [readLine_disp _ n (some fn) h1 (fun f h => by cases h; exact h2)]
      simp only
      rw [readLine_ctype _ ctv (h4 ctv rfl)]
      simp [dictSet, fieldHeaders, fieldFilename, fieldCtype, Field.name, hd]

/-! ### `FieldStorage.read` on one encoded part -/

theorem utf8Encode_eq_nil (v : Str) (h : utf8Encode v = []) : v = [] := by
  cases v with
  | nil => rfl
  | cons c cs =>
    unfold utf8Encode at h
    simp only [List.flatMap_cons, List.append_eq_nil_iff] at h
    exact absurd h.1 String.utf8EncodeChar_ne_nil

/-- the `FieldStorage` that `read` builds for a field whose data section is `(ds, de)` -/
def fieldS (f : Field) (ds de : Int) : FieldS :=
  match f with
  | .text n v => ⟨n, some v, none, none, none, fieldHeaders f⟩
  | .file n fn ct _ => ⟨n, none, some fn, some (ds, de), ct, fieldHeaders f⟩

theorem readField_part (X : Bytes) (sp : Bool) (f : Field) (hf : FieldOK f) (hs ds : Nat) (mr : Int)
    (hh : (X.drop hs).take (utf8Encode (joinCRLF f.headerLines)).length = utf8Encode (joinCRLF f.headerLines))
    (hd : (X.drop ds).take f.data.length = f.data)
    (hm : (fieldCost f : Int) ≤ mr) :
    readField X sp (hs : Int) ((hs + (utf8Encode (joinCRLF f.headerLines)).length : Nat) : Int)
      (ds : Int) ((ds + f.data.length : Nat) : Int) mr =
      .ok (fieldS f ds ((ds + f.data.length : Nat) : Int), (fieldCost f : Int)) := by
  have hlines := headerLines_ok f hf
  have hrl := readLines_field f hf
  have hsl := splitlines_joinCRLF _ hlines.2
  have hcost : fieldCost f = (utf8Encode (joinCRLF f.headerLines)).length + dataCost f := rfl
  generalize (utf8Encode (joinCRLF f.headerLines)).length = L at hh hcost ⊢
  generalize fieldCost f = C at hcost hm ⊢
  unfold readField
  have e1 : ((hs + L : Nat) : Int) - (hs : Int) = (L : Int) := by omega
  simp only [e1]
  rw [if_neg (by omega)]
  unfold srcRead
  rw [if_neg (by omega)]
  simp only
  rw [if_neg (by omega)]
  simp only [Int.toNat_natCast]
  rw [hh, utf8Decode_encode]
  simp only
  rw [hsl, hrl]
  simp only
  cases f with
  | text n v =>
    simp only [fieldFilename, Field.name, Field.data, dataCost] at hd hcost ⊢
    have e2 : ((ds + (utf8Encode v).length : Nat) : Int) - (ds : Int) = ((utf8Encode v).length : Int) := by omega
    simp only [e2]
    split
    · rename_i hz
      have : utf8Encode v = [] := List.eq_nil_of_length_eq_zero (by omega)
      have hv := utf8Encode_eq_nil v this
      subst hv
      have hc0 : C = L := by rw [hcost]; simp [utf8Encode]
      simp [fieldS, fieldCtype, hc0]
    · rw [if_neg (by omega), if_neg (by omega)]
      simp only [Int.toNat_natCast]
      rw [if_neg (by omega), hd, utf8Decode_encode]
      simp only [fieldS, fieldCtype, Except.ok.injEq, Prod.mk.injEq, true_and]
      omega
  | file n fn ct c =>
    simp only [fieldFilename, Field.name, fieldS, fieldCtype, Except.ok.injEq, Prod.mk.injEq, true_and]
    simp only [dataCost] at hcost
    omega

end Ombott.Forms
