import OmbottModel.Model.Forms
/-!
Parsing what the encoder writes (C07): the boundary parameter of `contentTypeFor`, and
`parse_header` on the `Content-Disposition` / `Content-Type` lines of `Field.headerLines`.
-/
namespace Ombott.Forms
open Py

/-! ### the boundary parameter -/

/-- a boundary that survives the Content-Type header: non-empty, no `;`, `"`, LF (CR is refused by
`BodyMarkuper`); this contains the RFC 2046 boundaries -/
def LegalBoundary (b : Str) : Prop := b ≠ [] ∧ ∀ c ∈ b, c ≠ ';' ∧ c ≠ '"' ∧ c ≠ '\n' ∧ c ≠ '\r'

instance (b : Str) : Decidable (LegalBoundary b) := by unfold LegalBoundary; infer_instance

theorem scanBoundary_clean (s : Str) (h : ∀ c ∈ s, c ≠ ';' ∧ c ≠ '\n') : scanBoundary s = some s := by
  induction s with
  | nil => rfl
  | cons c cs ih =>
    have hc := h c (by simp)
    rw [scanBoundary, if_neg hc.1, if_neg hc.2, ih (fun x hx => h x (by simp [hx]))]
    rfl

theorem boundaryParam_unquoted (b : Str) (hb : b ≠ []) (h : ∀ c ∈ b, c ≠ ';' ∧ c ≠ '\n') :
    boundaryParam (cs!"multipart/form-data; boundary=" ++ b) = some b := by
  cases b with
  | nil => exact absurd rfl hb
  | cons c cs =>
    have hc := h c (by simp)
    have hcs := scanBoundary_clean cs (fun x hx => h x (by simp [hx]))
    simp [boundaryParam, startsWithS, afterBoundaryKey, hc.2, hcs]

theorem boundaryOf_contentTypeFor (b : Str) (q : Bool) (hb : LegalBoundary b) :
    boundaryOf (contentTypeFor b q) = some b := by
  obtain ⟨hne, hc⟩ := hb
  unfold boundaryOf contentTypeFor
  cases q
  · simp only [Bool.false_eq_true, ↓reduceIte]
    rw [boundaryParam_unquoted b hne (fun c hx => ⟨(hc c hx).1, (hc c hx).2.2.1⟩)]
    simp only [Option.map_some, Option.some.injEq]
    rw [if_neg]
    intro ⟨_, hh, _⟩
    cases b with
    | nil => exact hne rfl
    | cons c cs =>
      simp only [List.head?_cons, Option.some.injEq] at hh
      exact (hc c (by simp)).2.1 hh
  · simp only [↓reduceIte]
    have : boundaryParam (cs!"multipart/form-data; boundary=" ++ quoted b) = some (quoted b) := by
      apply boundaryParam_unquoted
      · simp [quoted]
      · intro c hx
        simp only [quoted, List.mem_cons, List.mem_append, List.not_mem_nil, or_false] at hx
        rcases hx with rfl | hx | rfl
        · exact ⟨by decide, by decide⟩
        · exact ⟨(hc c hx).1, (hc c hx).2.2.1⟩
        · exact ⟨by decide, by decide⟩
    rw [this]
    simp only [Option.map_some, Option.some.injEq]
    rw [if_pos]
    · simp [quoted]
    · refine ⟨by simp [quoted], by simp [quoted], ?_⟩
      have e : quoted b = ('"' :: b) ++ ['"'] := rfl
      rw [e, List.getLast?_append]
      simp

/-! ### the option scanner on what the encoder writes -/

theorem scanG1_stop_semi (k rest : Str) (hk : ∀ c ∈ k, c ≠ ';' ∧ c ≠ '=') :
    scanG1 (k ++ ';' :: rest) = (k, ';' :: rest) := by
  induction k with
  | nil => simp [scanG1]
  | cons c cs ih =>
    have hc := hk c (by simp)
    have := ih (fun x hx => hk x (by simp [hx]))
    simp [scanG1, hc.1, hc.2, this]

theorem scanG1_stop_eq (k rest : Str) (hk : ∀ c ∈ k, c ≠ ';' ∧ c ≠ '=') (hr : rest ≠ []) :
    scanG1 (k ++ '=' :: rest) = (k, '=' :: rest) := by
  induction k with
  | nil => simp [scanG1, hr]
  | cons c cs ih =>
    have hc := hk c (by simp)
    have := ih (fun x hx => hk x (by simp [hx]))
    simp [scanG1, hc.1, hc.2, this]

theorem scanG1_end (k : Str) (hk : ∀ c ∈ k, c ≠ ';' ∧ c ≠ '=') : scanG1 k = (k, []) := by
  induction k with
  | nil => simp [scanG1]
  | cons c cs ih =>
    have hc := hk c (by simp)
    have := ih (fun x hx => hk x (by simp [hx]))
    simp [scanG1, hc.1, hc.2, this]

theorem scanQuoted_clean (v tail : Str) (hv : ∀ c ∈ v, c ≠ '"') (ht : tail = [] ∨ tail.head? = some ';') :
    scanQuoted (v ++ '"' :: tail) = some (v, tail) := by
  induction v with
  | nil => simp [scanQuoted, ht]
  | cons c cs ih =>
    have hc := hv c (by simp)
    have := ih (fun x hx => hv x (by simp [hx]))
    simp [scanQuoted, hc, this]

theorem pattGo_skip (a rest : Str) : pattGo a.length (a ++ rest) = pattGo 0 rest := by
  induction a with
  | nil => rfl
  | cons c cs ih => simp only [List.length_cons, List.cons_append, pattGo]; exact ih

/-- a match that ends at a `;`: `c0 k ; rest` -/
theorem matchAt_plain (c0 : Char) (k rest : Str) (hk : ∀ c ∈ k, c ≠ ';' ∧ c ≠ '=') :
    matchAt c0 (k ++ ';' :: rest) = ⟨c0 :: k, none, (c0 :: k).length + 1⟩ := by
  simp [matchAt, scanG1_stop_semi k rest hk]

/-- a match that ends at the end: `c0 k` -/
theorem matchAt_last (c0 : Char) (k : Str) (hk : ∀ c ∈ k, c ≠ ';' ∧ c ≠ '=') :
    matchAt c0 k = ⟨c0 :: k, none, (c0 :: k).length⟩ := by
  simp [matchAt, scanG1_end k hk]

/-- a match with a quoted value: `c0 k = " v " tail` -/
theorem matchAt_quoted (c0 : Char) (k v tail : Str) (hk : ∀ c ∈ k, c ≠ ';' ∧ c ≠ '=') (hv : ∀ c ∈ v, c ≠ '"')
    (ht : tail = [] ∨ tail.head? = some ';') :
    matchAt c0 (k ++ '=' :: '"' :: (v ++ '"' :: tail)) =
      ⟨c0 :: k, some (quoted v), (c0 :: k).length + 1 + (v.length + 2) + (if tail.isEmpty then 0 else 1)⟩ := by
  simp [matchAt, scanG1_stop_eq k ('"' :: (v ++ '"' :: tail)) hk (by simp), scanQuoted_clean v tail hv ht, quoted]

theorem stripQuotes_quoted (v : Str) (hv : ∀ c ∈ v, c ≠ '"') : stripQuotes (quoted v) = v := by
  unfold stripQuotes stripBy quoted
  cases v with
  | nil => simp [List.dropWhile]
  | cons c cs =>
    have hc := hv c (by simp)
    have h1 : ('"' :: (c :: cs ++ ['"'])).dropWhile (· == '"') = c :: cs ++ ['"'] := by
      simp [List.dropWhile, hc]
    rw [h1]
    have h2 : (c :: cs ++ ['"']).reverse = '"' :: (c :: cs).reverse := by simp
    rw [h2]
    have h3 : ('"' :: (c :: cs).reverse).dropWhile (· == '"') = (c :: cs).reverse := by
      have hr : ∀ x ∈ (c :: cs).reverse, x ≠ '"' := fun x hx => hv x (List.mem_reverse.mp hx)
      rw [List.dropWhile_cons_of_pos (by simp)]
      cases hrev : (c :: cs).reverse with
      | nil => rfl
      | cons y ys =>
        have := hr y (by rw [hrev]; simp)
        rw [List.dropWhile_cons_of_neg (by simpa using this)]
    rw [h3, List.reverse_reverse]

theorem pattGo_plain_opt (c0 : Char) (k rest : Str) (hk : ∀ c ∈ k, c ≠ ';' ∧ c ≠ '=') :
    pattGo 0 (c0 :: (k ++ ';' :: rest)) = (c0 :: k, none) :: pattGo 0 rest := by
  rw [pattGo, matchAt_plain c0 k rest hk]
  simp only [List.length_cons, Nat.add_sub_cancel]
  have : k ++ ';' :: rest = (k ++ [';']) ++ rest := by simp
  rw [this]
  have hl : k.length + 1 = (k ++ [';']).length := by simp
  rw [hl, pattGo_skip]

theorem pattGo_last_opt (c0 : Char) (k : Str) (hk : ∀ c ∈ k, c ≠ ';' ∧ c ≠ '=') :
    pattGo 0 (c0 :: k) = [(c0 :: k, none)] := by
  rw [pattGo, matchAt_last c0 k hk]
  simp only [List.length_cons, Nat.add_sub_cancel]
  have := pattGo_skip k []
  simp only [List.append_nil] at this
  rw [this]; rfl

theorem pattGo_quoted_opt (c0 : Char) (k v tail : Str) (hk : ∀ c ∈ k, c ≠ ';' ∧ c ≠ '=') (hv : ∀ c ∈ v, c ≠ '"')
    (ht : tail = [] ∨ tail.head? = some ';') :
    pattGo 0 (c0 :: (k ++ '=' :: '"' :: (v ++ '"' :: tail))) = (c0 :: k, some (quoted v)) :: pattGo 0 (tail.drop 1) := by
  rw [pattGo, matchAt_quoted c0 k v tail hk hv ht]
  simp only [List.length_cons]
  congr 1
  cases tail with
  | nil =>
    simp only [List.isEmpty_nil, ↓reduceIte, Nat.add_zero, List.drop_nil]
    have e := pattGo_skip (k ++ '=' :: '"' :: (v ++ ['"'])) []
    simp only [List.append_nil] at e
    have hl : k.length + 1 + 1 + (v.length + 2) - 1 = (k ++ '=' :: '"' :: (v ++ ['"'])).length := by
      simp only [List.length_append, List.length_cons, List.length_nil]; omega
    rw [hl, e]
  | cons t ts =>
    have htc : t = ';' := by
      rcases ht with h | h
      · cases h
      · simpa using h
    subst htc
    simp only [List.isEmpty_cons, Bool.false_eq_true, ↓reduceIte, List.drop_succ_cons, List.drop_zero]
    have e : k ++ '=' :: '"' :: (v ++ '"' :: ';' :: ts) = (k ++ '=' :: '"' :: (v ++ ['"', ';'])) ++ ts := by simp
    have hl : k.length + 1 + 1 + (v.length + 2) + 1 - 1 = (k ++ '=' :: '"' :: (v ++ ['"', ';'])).length := by
      simp only [List.length_append, List.length_cons, List.length_nil]; omega
    rw [hl, e]; exact pattGo_skip _ _

/-! ### `parse_header` on the encoder's lines -/

/-- a field name / file name of the C07 domain: no double quote, none of the characters
`str.splitlines` breaks at -/
def NameOK (s : Str) : Prop := ∀ c ∈ s, c ≠ '"' ∧ isLineBreak c = false

instance (s : Str) : Decidable (NameOK s) := by unfold NameOK; infer_instance

theorem splitFirst_prefix (a rest : Str) (ha : ∀ c ∈ a, c ≠ ':') :
    splitFirst ':' (a ++ ':' :: rest) = some (a, rest) := by
  induction a with
  | nil => simp [splitFirst]
  | cons c cs ih =>
    have hc := ha c (by simp)
    have := ih (fun x hx => ha x (by simp [hx]))
    simp [splitFirst, hc, this]

def dispHeader (n : Str) (fn : Option Str) : Header :=
  ⟨cs!"Content-Disposition", cs!"form-data",
   (cs!"name", some n) :: (match fn with | some f => [(cs!"filename", some f)] | none => [])⟩

theorem parseHeader_disp (n : Str) (fn : Option Str) (hn : NameOK n) (hfn : ∀ f, fn = some f → NameOK f) :
    parseHeader (dispLine n fn) = .ok (dispHeader n fn) := by
  have hnq : ∀ c ∈ n, c ≠ '"' := fun c hc => (hn c hc).1
  unfold parseHeader dispLine
  have e1 : cs!"Content-Disposition: form-data; name=" =
      cs!"Content-Disposition" ++ ':' :: (' ' :: (cs!"form-data" ++ ';' :: ' ' :: cs!"name=")) := by decide
  cases fn with
  | none =>
    have e2 : cs!"Content-Disposition: form-data; name=" ++ quoted n ++ [] =
        cs!"Content-Disposition" ++ ':' :: (' ' :: (cs!"form-data" ++ ';' ::
          (' ' :: (cs!"name" ++ '=' :: '"' :: (n ++ '"' :: []))))) := by
      rw [e1]; simp [quoted]
    simp only [e2]
    rw [splitFirst_prefix _ _ (by decide)]
    simp only [pattIter]
    rw [pattGo_plain_opt _ _ _ (by decide), pattGo_quoted_opt _ _ _ _ (by decide) hnq (Or.inl rfl)]
    simp only [List.drop_nil, pattGo, List.foldl_cons, List.foldl_nil, Option.map_some]
    rw [stripQuotes_quoted n hnq]
    rfl
  | some f =>
    have hfq : ∀ c ∈ f, c ≠ '"' := fun c hc => (hfn f rfl c hc).1
    have e2 : cs!"Content-Disposition: form-data; name=" ++ quoted n ++ (cs!"; filename=" ++ quoted f) =
        cs!"Content-Disposition" ++ ':' :: (' ' :: (cs!"form-data" ++ ';' ::
          (' ' :: (cs!"name" ++ '=' :: '"' :: (n ++ '"' :: (';' ::
            (' ' :: (cs!"filename" ++ '=' :: '"' :: (f ++ '"' :: []))))))))) := by
      rw [e1]
      have e3 : cs!"; filename=" = ';' :: ' ' :: cs!"filename=" := by decide
      rw [e3]; simp [quoted]
    simp only [e2]
    rw [splitFirst_prefix _ _ (by decide)]
    simp only [pattIter]
    rw [pattGo_plain_opt _ _ _ (by decide), pattGo_quoted_opt _ _ _ _ (by decide) hnq (Or.inr rfl)]
    simp only [List.drop_succ_cons, List.drop_zero]
    rw [pattGo_quoted_opt _ _ _ _ (by decide) hfq (Or.inl rfl)]
    simp only [List.drop_nil, pattGo, List.foldl_cons, List.foldl_nil, Option.map_some]
    rw [stripQuotes_quoted n hnq, stripQuotes_quoted f hfq]
    rfl

/-- a media type of the C07 domain: non-empty, no parameters (`;`, `=`), no line break, no white
space at its ends -/
def CtOK (ct : Str) : Prop := ct ≠ [] ∧ (∀ c ∈ ct, c ≠ ';' ∧ c ≠ '=' ∧ isLineBreak c = false) ∧ strip ct = ct

instance (s : Str) : Decidable (CtOK s) := by unfold CtOK; infer_instance

theorem parseHeader_ctype (ct : Str) (h : CtOK ct) :
    parseHeader (cs!"Content-Type: " ++ ct) = .ok ⟨cs!"Content-Type", ct, []⟩ := by
  obtain ⟨_, hc, hs⟩ := h
  unfold parseHeader
  have e : cs!"Content-Type: " ++ ct = cs!"Content-Type" ++ ':' :: (' ' :: ct) := by
    have : cs!"Content-Type: " = cs!"Content-Type" ++ [':', ' '] := by decide
    rw [this]; simp
  rw [e, splitFirst_prefix _ _ (by decide)]
  simp only [pattIter]
  rw [pattGo_last_opt _ _ (fun c hx => ⟨(hc c hx).1, (hc c hx).2.1⟩)]
  simp only [List.foldl_nil]
  have : strip (' ' :: ct) = strip ct := by
    unfold strip stripBy
    rw [List.dropWhile_cons_of_pos (by decide)]
  rw [this, hs]

/-! ### `str.splitlines` on the encoder's header block -/

/-- lines joined by CRLF -/
def joinCRLF : List Str → Str
  | [] => []
  | [l] => l
  | l :: l' :: ls => l ++ '\r' :: '\n' :: joinCRLF (l' :: ls)

def NoBreak (l : Str) : Prop := ∀ c ∈ l, isLineBreak c = false

theorem splitlinesGo_single (l : Str) (hne : l ≠ []) (hl : NoBreak l) : splitlinesGo false l = [l] := by
  induction l with
  | nil => exact absurd rfl hne
  | cons c cs ih =>
    have hc := hl c (by simp)
    rw [splitlinesGo]
    simp only [Bool.false_eq_true, false_and, ↓reduceIte, hc]
    cases cs with
    | nil => simp [splitlinesGo]
    | cons d ds => rw [ih (by simp) (fun x hx => hl x (by simp [hx]))]

theorem splitlinesGo_line (l rest : Str) (hl : NoBreak l) :
    splitlinesGo false (l ++ '\r' :: '\n' :: rest) = l :: splitlinesGo false rest := by
  induction l with
  | nil =>
    simp only [List.nil_append]
    rw [splitlinesGo]
    simp only [Bool.false_eq_true, false_and, ↓reduceIte]
    rw [if_pos (by decide)]
    rw [splitlinesGo]
    simp
  | cons c cs ih =>
    have hc := hl c (by simp)
    simp only [List.cons_append]
    rw [splitlinesGo]
    simp only [Bool.false_eq_true, false_and, ↓reduceIte, hc]
    rw [ih (fun x hx => hl x (by simp [hx]))]

theorem splitlines_joinCRLF (lines : List Str) (h : ∀ l ∈ lines, l ≠ [] ∧ NoBreak l) :
    splitlines (joinCRLF lines) = lines := by
  unfold splitlines
  induction lines with
  | nil => rfl
  | cons l ls ih =>
    cases ls with
    | nil => exact splitlinesGo_single l (h l (by simp)).1 (h l (by simp)).2
    | cons l' ls' =>
      rw [joinCRLF, splitlinesGo_line _ _ (h l (by simp)).2, ih (fun x hx => h x (by simp [hx]))]

end Ombott.Forms
