import OmbottModel.Lemmas.MultipartLoop
/-!
The reference machine on well-formed bodies: it is defined on the whole body (hence on every
prefix) and its sections are the encoder's.
-/
namespace Ombott.Multipart
open Py Spec

/-! ### findSub -/

theorem findSub_none_not_infix (pat : Bytes) : ∀ (s : Bytes), findSub pat s = none → ¬ pat <:+: s := by
  intro s
  induction s with
  | nil =>
    intro h hin
    have : pat = [] := List.eq_nil_of_infix_nil hin
    subst this
    simp [findSub] at h
  | cons c cs ih =>
    intro h hin
    unfold findSub at h
    split at h
    · cases h
    · next hnp =>
      rcases List.infix_cons_iff.mp hin with hp | hi
      · exact hnp (List.isPrefixOf_iff_prefix.mpr hp)
      · cases hf : findSub pat cs with
        | none => exact ih hf hi
        | some i => rw [hf] at h; cases h

/-! ### data section followed by the delimiter -/

theorem pmMax_nil {tok : Bytes} (hnb : NB tok) : PmMax tok [] 0 := by
  refine ⟨by unfold Pm; simp, fun k hk hkl p => ?_⟩
  have := p.length_le
  rw [take_length_of_le hkl] at this
  simp at this; omega

/-- data that does not contain the delimiter, followed by the delimiter: the scanner completes
exactly at the end of that delimiter -/
theorem scan_data_delim {tok : Bytes} (hnb : NB tok) (data rest : Bytes) (hno : findSub tok data = none) :
    scan tok 0 (data ++ (tok ++ rest)) = .found (data.length + tok.length) := by
  have hl := nb_length_pos hnb
  apply scan_eq_found hnb _ [] 0 _ hl (pmMax_nil hnb) (by simp)
  · rw [List.nil_append, ← List.append_assoc, List.take_append_of_le_length (by simp),
      List.take_of_length_le (by simp)]
    exact List.suffix_append _ _
  · intro i hi hs
    rw [List.nil_append] at hs
    by_cases hid : i ≤ data.length
    · rw [List.take_append_of_le_length hid] at hs
      exact findSub_none_not_infix tok data hno (hs.isInfix.trans (List.take_prefix _ _).isInfix)
    · -- the occurrence would overlap the delimiter: a border
      have hk : i - data.length < tok.length := by omega
      have htake : (data ++ (tok ++ rest)).take i = data ++ tok.take (i - data.length) := by
        rw [List.take_append, List.take_of_length_le (by omega), List.take_append_of_le_length (by omega)]
      rw [htake] at hs
      obtain ⟨h1, h2⟩ := suffix_split hs (by simp [List.length_take]; omega)
      have hxl : (tok.take (i - data.length)).length = i - data.length := take_length_of_le (by omega)
      rw [hxl] at h2
      have hp : Pm tok (i - data.length) tok := by
        unfold Pm; rw [h2]; exact List.drop_suffix _ _
      exact pm_unique hnb tok (i - data.length) tok.length (by omega) hk (Nat.le_refl _) hp
        (by unfold Pm; simp)

/-! ### header blocks -/

def KRes.bumpN (n : Nat) : KRes → KRes
  | .done j => .done (j + n)
  | r => r

theorem KRes.bump_eq (r : KRes) : r.bump = r.bumpN 1 := by cases r <;> rfl
theorem KRes.bumpN_bumpN (r : KRes) (a b : Nat) : (r.bumpN a).bumpN b = r.bumpN (a + b) := by
  cases r <;> simp [KRes.bumpN] <;> omega
theorem KRes.bumpN_zero (r : KRes) : r.bumpN 0 = r := by cases r <;> simp [KRes.bumpN]

/-- inside a line (no CR): the counter stays at 0, then CRLF brings it to 2 -/
theorem runK0_line : ∀ (l y : Bytes), (13 : UInt8) ∉ l →
    runK 0 (l ++ 13 :: 10 :: y) = (runK 2 y).bumpN (l.length + 2) := by
  intro l
  induction l with
  | nil =>
    intro y _
    rw [List.nil_append, runK0_cr, runK1_lf, KRes.bump_eq, KRes.bump_eq, KRes.bumpN_bumpN]
    simp
  | cons c l ih =>
    intro y hc
    simp only [List.mem_cons, not_or] at hc
    rw [List.cons_append, runK0_ne (fun h => hc.1 h.symm), ih y hc.2, KRes.bump_eq, KRes.bumpN_bumpN]
    simp only [List.length_cons]

theorem runK_line (k : Nat) (hk : k = 0 ∨ k = 2) (l y : Bytes) (hl : WFLine l) :
    runK k (l ++ 13 :: 10 :: y) = (runK 2 y).bumpN (l.length + 2) := by
  obtain ⟨hne, hcr, hlf⟩ := hl
  rcases hk with rfl | rfl
  · exact runK0_line l y hcr
  · match l, hne with
    | c :: l', _ =>
      simp only [List.mem_cons, not_or] at hcr hlf
      rw [List.cons_append, runK2_ne (fun h => hlf.1 h.symm) (fun h => hcr.1 h.symm),
        runK0_line l' y hcr.2, KRes.bump_eq, KRes.bumpN_bumpN]
      simp only [List.length_cons]

theorem runK_block (lines : List Bytes) : ∀ (k : Nat), (k = 0 ∨ k = 2) → lines ≠ [] → (∀ l ∈ lines, WFLine l) →
    ∀ y, runK k (headerBlock lines ++ y) = (runK 2 y).bumpN (headerBlock lines).length := by
  induction lines with
  | nil => intro k _ h; exact absurd rfl h
  | cons l ls ih =>
    intro k hk _ hwf y
    have hl := hwf l (List.mem_cons_self)
    have hb : headerBlock (l :: ls) = l ++ 13 :: 10 :: headerBlock ls := by
      simp [headerBlock, CRLF]
    rw [hb, List.append_assoc, List.cons_append, List.cons_append, runK_line k hk l _ hl]
    by_cases hls : ls = []
    · subst hls
      simp [headerBlock]
    · rw [ih 2 (Or.inr rfl) hls (fun l' h' => hwf l' (List.mem_cons_of_mem _ h')) y, KRes.bumpN_bumpN]
      congr 1
      simp only [List.length_append, List.length_cons]
      omega

/-- `CRLF header-block CRLF` after a delimiter: the header block ends with the last byte -/
theorem runH_part_headers (lines : List Bytes) (hne : lines ≠ []) (hwf : ∀ l ∈ lines, WFLine l) (y : Bytes) :
    runH .afterDelim (CRLF ++ (headerBlock lines ++ (CRLF ++ y))) =
      .done (2 + (headerBlock lines).length + 2) := by
  have h1 : runK 0 (headerBlock lines ++ (CRLF ++ y)) = .done ((headerBlock lines).length + 2) := by
    rw [runK_block lines 0 (Or.inl rfl) hne hwf]
    show (runK 2 (13 :: 10 :: y)).bumpN _ = _
    rw [runK2_cr, runK3_lf]
    simp [KRes.bump, KRes.bumpN]; omega
  show runH .afterDelim (13 :: 10 :: (headerBlock lines ++ (CRLF ++ y))) = _
  simp only [runH, hstep, CR, LF, if_true]
  rw [runH_headers, h1]
  simp [KRes.toH, HRes.bump]; omega

theorem headerBlock_length_ge (lines : List Bytes) (hne : lines ≠ []) (hwf : ∀ l ∈ lines, WFLine l) :
    3 ≤ (headerBlock lines).length := by
  match lines, hne with
  | l :: ls, _ =>
    have := (hwf l List.mem_cons_self).1
    have hl : 0 < l.length := List.length_pos_iff.mpr this
    simp [headerBlock, CRLF]; omega

/-! ### the whole body -/

theorem runFrom_start_match (tok : Bytes) : ∀ (n m pos : Nat) (ss : Int) (mks : List Markup) (rest : Bytes),
    m + n = tok.length → 0 < n → 0 < pos →
    runFrom tok ⟨.start m, pos, ss, mks⟩ (tok.drop m ++ rest) =
      runFrom tok ⟨.afterDelim, pos + n, ((pos + n : Nat) : Int) + 2,
        mks ++ [⟨.data, ss, max 0 (((pos + n : Nat) : Int) - tok.length)⟩]⟩ rest := by
  intro n
  induction n with
  | zero => intro m pos ss mks rest _ h; omega
  | succ n ih =>
    intro m pos ss mks rest hmn _ hp
    have hlt : m < tok.length := by omega
    have hd : tok.drop m = tok[m] :: tok.drop (m + 1) := List.drop_eq_getElem_cons hlt
    rw [hd, List.cons_append, runFrom_cons]
    have hs : stepM tok m tok[m] = m + 1 := stepM_match (List.getElem?_eq_getElem hlt)
    have hp0 : ¬ pos = 0 := by omega
    by_cases hn : n = 0
    · subst hn
      have hs' : stepM tok m tok[m] = tok.length := by rw [hs]; omega
      simp only [step, hp0, hs', if_true, if_false, Option.bind_some]
      rw [List.drop_of_length_le (by omega), List.nil_append]
      congr 2 <;> (first | omega | (congr 3; omega) | (congr 4; omega))
    · have h1 : ¬ m + 1 = tok.length := by omega
      simp only [step, hp0, hs, h1, if_false, Option.bind_some, Nat.add_one_ne_zero]
      rw [ih (m + 1) (pos + 1) ss mks rest (by omega) (by omega) (by omega)]
      congr 2 <;> (first | omega | (congr 3; omega) | (congr 4; omega))

/-- the parts and the closing delimiter, from the state after a delimiter at offset `P` -/
theorem runFrom_parts {boundary : Bytes} (hb : CR ∉ boundary) (epi : Bytes) :
    ∀ (parts : List Part) (P : Nat) (mks : List Markup), (∀ p ∈ parts, WFPart boundary p) →
    ∃ pos' ss', runFrom (delim boundary) ⟨.afterDelim, P, (P : Int) + 2, mks⟩
        (encodeParts boundary parts ++ (HYPHENx2 ++ epi)) =
      some ⟨.stopped, pos', ss', mks ++ partMarkups (delim boundary).length P parts⟩ := by
  have htk := tokOk_delim boundary hb
  have hnb := htk.1
  intro parts
  induction parts with
  | nil =>
    intro P mks _
    have hph : HdrPhase .afterDelim := trivial
    rw [runFrom_hdr _ _ .afterDelim _ _ _ hph]
    have : runH .afterDelim (encodeParts boundary [] ++ (HYPHENx2 ++ epi)) = .stop := by
      simp [encodeParts, HYPHENx2, runH, hstep, CR, HYPHEN, HRes.bump]
    rw [this]
    simp only [partMarkups, List.append_nil]
    exact ⟨_, _, rfl⟩
  | cons p ps ih =>
    intro P mks hwf
    obtain ⟨hne, hlines, hdata⟩ := hwf p List.mem_cons_self
    have hbl := headerBlock_length_ge p.lines hne hlines
    have henc : encodeParts boundary (p :: ps) ++ (HYPHENx2 ++ epi) =
        CRLF ++ (headerBlock p.lines ++ (CRLF ++ (p.data ++ (delim boundary ++
          (encodeParts boundary ps ++ (HYPHENx2 ++ epi)))))) := by
      simp [encodeParts, encodePart, List.append_assoc]
    have hph : HdrPhase .afterDelim := trivial
    rw [henc, runFrom_hdr _ _ .afterDelim _ _ _ hph, runH_part_headers p.lines hne hlines]
    simp only
    have hdrop : (CRLF ++ (headerBlock p.lines ++ (CRLF ++ (p.data ++ (delim boundary ++
          (encodeParts boundary ps ++ (HYPHENx2 ++ epi))))))).drop (2 + (headerBlock p.lines).length + 2) =
        p.data ++ (delim boundary ++ (encodeParts boundary ps ++ (HYPHENx2 ++ epi))) := by
      rw [show CRLF ++ (headerBlock p.lines ++ (CRLF ++ (p.data ++ (delim boundary ++
          (encodeParts boundary ps ++ (HYPHENx2 ++ epi)))))) =
          (CRLF ++ headerBlock p.lines ++ CRLF) ++ (p.data ++ (delim boundary ++
          (encodeParts boundary ps ++ (HYPHENx2 ++ epi)))) by simp [List.append_assoc]]
      rw [List.drop_append_of_le_length (by simp [CRLF]; omega)]
      rw [List.drop_of_length_le (by simp [CRLF]; omega), List.nil_append]
    rw [hdrop, runFrom_data, scan_data_delim hnb _ _ hdata]
    simp only
    rw [← List.append_assoc, List.drop_append_of_le_length (by simp),
      List.drop_of_length_le (by simp), List.nil_append]
    obtain ⟨pos', ss', hrun⟩ := ih (P + (2 + (headerBlock p.lines).length + 2) + (p.data.length + (delim boundary).length))
      (mks ++ [⟨.headers, (P : Int) + 2, ((P + (2 + (headerBlock p.lines).length + 2) : Nat) : Int) - 4⟩] ++
        [⟨.data, ((P + (2 + (headerBlock p.lines).length + 2) : Nat) : Int),
          ((P + (2 + (headerBlock p.lines).length + 2) + (p.data.length + (delim boundary).length) : Nat) : Int) -
            (delim boundary).length⟩])
      (fun q hq => hwf q (List.mem_cons_of_mem _ hq))
    refine ⟨pos', ss', ?_⟩
    rw [hrun]
    congr 2
    simp only [partMarkups, List.append_assoc, List.cons_append, List.nil_append]
    congr 2
    · congr 1 <;> omega
    · congr 1
      · congr 1 <;> omega
      · congr 1; omega

/-- the reference machine on a complete well-formed body: stopped, no error, the encoder's
sections -/
theorem run_encodeBody (boundary : Bytes) (parts : List Part) (epi : Bytes) (hwf : WFBody boundary parts) :
    run boundary (encodeBody boundary parts epi) = some ⟨expectedMarkups boundary parts, none, true⟩ := by
  obtain ⟨hb, hparts⟩ := hwf
  have htk := tokOk_delim boundary hb
  unfold run
  rw [if_neg hb]
  -- the first boundary
  have henc : encodeBody boundary parts epi =
      HYPHEN :: ((delim boundary).drop 3 ++ (encodeParts boundary parts ++ (HYPHENx2 ++ epi))) := by
    simp [encodeBody, delim, CRLF, HYPHENx2, HYPHEN]
  rw [henc, runFrom_cons]
  have hstep0 : step (delim boundary) RSt.init HYPHEN = some ⟨.start 3, 1, 0, []⟩ := by
    simp [step, RSt.init, HYPHEN, CR]
  rw [hstep0]
  simp only [Option.bind_some]
  have hlen : (delim boundary).length = 4 + boundary.length := by simp [delim, CRLF, HYPHENx2]; omega
  rw [runFrom_start_match (delim boundary) ((delim boundary).length - 3) 3 1 0 [] _ (by omega) (by omega) (by omega)]
  have hP : 1 + ((delim boundary).length - 3) = 2 + boundary.length := by omega
  obtain ⟨pos', ss', hrun⟩ := runFrom_parts hb epi parts (2 + boundary.length)
    [⟨.data, 0, 0⟩] hparts
  rw [hP]
  have hmax : max (0 : Int) (((2 + boundary.length : Nat) : Int) - (delim boundary).length) = 0 := by
    rw [hlen]; omega
  rw [hmax]
  simp only [List.nil_append]
  rw [hrun]
  simp [RSt.obs, expectedMarkups]

theorem run_prefix (boundary p q : Bytes) (o : Obs) (h : run boundary (p ++ q) = some o) :
    ∃ o', run boundary p = some o' := by
  unfold run at *
  split at h
  · cases h
  · next hb =>
    rw [if_neg hb]
    rw [runFrom_append] at h
    cases hr : runFrom (delim boundary) RSt.init p with
    | none => rw [hr] at h; cases h
    | some r => exact ⟨r.obs, rfl⟩

/-! ### what the expected sections contain -/

theorem slice_mid (a b c : Bytes) : slice (a ++ (b ++ c)) a.length (a.length + b.length) = b := by
  unfold slice
  rw [← List.append_assoc, List.take_append_of_le_length (by simp), List.take_of_length_le (by simp)]
  simp

theorem sectionBytes_mid (a b c : Bytes) (name : SecName) (x y : Nat) (hx : x = a.length)
    (hy : y = a.length + b.length) : sectionBytes (a ++ (b ++ c)) ⟨name, (x : Int), (y : Int)⟩ = b := by
  subst hx; subst hy
  simp only [sectionBytes, Int.toNat_natCast]
  exact slice_mid a b c

theorem partMarkups_contents (boundary : Bytes) : ∀ (parts : List Part) (pre suf : Bytes),
    (∀ p ∈ parts, 2 ≤ (headerBlock p.lines).length) →
    (partMarkups (delim boundary).length pre.length parts).map
        (sectionBytes (pre ++ (encodeParts boundary parts ++ suf))) =
      parts.flatMap fun p => [(headerBlock p.lines).take ((headerBlock p.lines).length - 2), p.data] := by
  intro parts
  induction parts with
  | nil => intro pre suf _; rfl
  | cons p ps ih =>
    intro pre suf hlen
    have h2 := hlen p List.mem_cons_self
    generalize hhb : headerBlock p.lines = hb at h2
    have hsplit : hb = hb.take (hb.length - 2) ++ hb.drop (hb.length - 2) := (List.take_append_drop _ _).symm
    have hdl : (hb.drop (hb.length - 2)).length = 2 := by simp; omega
    have htl : (hb.take (hb.length - 2)).length = hb.length - 2 := by simp
    have hbody : pre ++ (encodeParts boundary (p :: ps) ++ suf) =
        (pre ++ CRLF) ++ (hb.take (hb.length - 2) ++
          ((hb.drop (hb.length - 2) ++ CRLF) ++ (p.data ++ (delim boundary ++ (encodeParts boundary ps ++ suf))))) := by
      simp only [encodeParts, List.map_cons, List.flatten_cons, encodePart, hhb, List.append_assoc]
      rw [← List.append_assoc (hb.take _) (hb.drop _), ← hsplit]
    have hbody2 : pre ++ (encodeParts boundary (p :: ps) ++ suf) =
        (pre ++ CRLF ++ hb ++ CRLF) ++ (p.data ++ ((delim boundary) ++ (encodeParts boundary ps ++ suf))) := by
      simp only [encodeParts, List.map_cons, List.flatten_cons, encodePart, hhb, List.append_assoc]
    have hbody3 : pre ++ (encodeParts boundary (p :: ps) ++ suf) =
        (pre ++ encodePart boundary p) ++ (encodeParts boundary ps ++ suf) := by
      simp only [encodeParts, List.map_cons, List.flatten_cons, List.append_assoc]
    simp only [partMarkups, List.map_cons, List.flatMap_cons, hhb, List.cons_append, List.nil_append]
    congr 1
    · rw [hbody]
      have := sectionBytes_mid (pre ++ CRLF) (hb.take (hb.length - 2))
        ((hb.drop (hb.length - 2) ++ CRLF) ++ (p.data ++ (delim boundary ++ (encodeParts boundary ps ++ suf))))
        .headers (pre.length + 2) (pre.length + 2 + hb.length - 2) (by simp [CRLF]) (by simp [CRLF]; omega)
      exact this
    · congr 1
      · rw [hbody2]
        exact sectionBytes_mid (pre ++ CRLF ++ hb ++ CRLF) p.data _ .data _ _ (by simp [CRLF]; omega)
          (by simp [CRLF]; omega)
      · rw [hbody3]
        have hpl : (pre ++ encodePart boundary p).length =
            pre.length + 2 + hb.length - 2 + 4 + p.data.length + (delim boundary).length := by
          simp [encodePart, hhb, CRLF]; omega
        rw [← hpl]
        exact ih (pre ++ encodePart boundary p) suf (fun q hq => hlen q (List.mem_cons_of_mem _ hq))

theorem expected_contents (boundary : Bytes) (parts : List Part) (epi : Bytes) (hwf : WFBody boundary parts) :
    (expectedMarkups boundary parts).map (sectionBytes (encodeBody boundary parts epi)) =
      expectedContents parts := by
  unfold expectedMarkups expectedContents
  simp only [List.map_cons]
  congr 1
  have := partMarkups_contents boundary parts (HYPHENx2 ++ boundary) (HYPHENx2 ++ epi)
    (fun p hp => by
      have h := hwf.2 p hp
      have := headerBlock_length_ge p.lines h.1 h.2.1
      omega)
  have hl : (HYPHENx2 ++ boundary).length = 2 + boundary.length := by simp [HYPHENx2]; omega
  rw [hl] at this
  exact this

/-! ### the scanner and `bytes.find` -/

/-- `find`: the result is the first position where the pattern starts -/
theorem findSub_spec (pat : Bytes) : ∀ (s : Bytes),
    match findSub pat s with
    | some i => pat <+: s.drop i ∧ i + pat.length ≤ s.length ∧ ∀ i', i' < i → ¬ pat <+: s.drop i'
    | none => ∀ i', i' ≤ s.length → ¬ pat <+: s.drop i' := by
  intro s
  induction s with
  | nil =>
    unfold findSub
    by_cases hp : pat.isEmpty = true
    · rw [if_pos hp]
      have : pat = [] := List.isEmpty_iff.mp hp
      subst this
      exact ⟨by simp, by simp, fun i' h => by omega⟩
    · rw [if_neg hp]
      intro i' _ hpre
      simp only [List.drop_nil] at hpre
      have := List.prefix_nil.mp hpre
      exact hp (by simp [this])
  | cons c cs ih =>
    unfold findSub
    by_cases hp : pat.isPrefixOf (c :: cs) = true
    · rw [if_pos hp]
      have hpre := List.isPrefixOf_iff_prefix.mp hp
      exact ⟨by simpa using hpre, by simpa using hpre.length_le, fun i' h => by omega⟩
    · rw [if_neg hp]
      have hnp : ¬ pat <+: c :: cs := fun h => hp (List.isPrefixOf_iff_prefix.mpr h)
      cases hf : findSub pat cs with
      | none =>
        rw [hf] at ih
        simp only [Option.map_none]
        intro i' hi'
        cases i' with
        | zero => simpa using hnp
        | succ j => simpa using ih j (by simp at hi'; omega)
      | some i =>
        rw [hf] at ih
        simp only [Option.map_some]
        obtain ⟨h1, h2, h3⟩ := ih
        refine ⟨by simpa using h1, by simp; omega, fun i' hi' => ?_⟩
        cases i' with
        | zero => simpa using hnp
        | succ j => simpa using h3 j (by omega)

/-- the byte-at-a-time scanner started with nothing matched finds exactly what `bytes.find` finds -/
theorem scan_eq_find {tok : Bytes} (hnb : NB tok) (s : Bytes) :
    match findSub tok s with
    | some i => scan tok 0 s = .found (i + tok.length)
    | none => ∃ m', scan tok 0 s = .more m' := by
  have hl := nb_length_pos hnb
  have hspec := findSub_spec tok s
  cases hf : findSub tok s with
  | some i =>
    rw [hf] at hspec
    obtain ⟨h1, h2, h3⟩ := hspec
    simp only
    apply scan_eq_found hnb s [] 0 (i + tok.length) hl (pmMax_nil hnb) h2
    · rw [List.nil_append]
      obtain ⟨t, ht⟩ := h1
      have : s = s.take i ++ (tok ++ t) := by rw [ht, List.take_append_drop]
      rw [this, ← List.append_assoc, List.take_append_of_le_length (by simp [List.length_take]; omega),
        List.take_of_length_le (by simp [List.length_take]; omega)]
      exact List.suffix_append _ _
    · intro j hj hs
      rw [List.nil_append] at hs
      -- an occurrence ending at j < i + tlen starts at j - tlen < i
      have hjl : tok.length ≤ (s.take j).length := hs.length_le
      have hjs : j ≤ s.length ∨ s.length < j := by omega
      have hlen : (s.take j).length = min j s.length := List.length_take
      obtain ⟨pre, hpre⟩ := hs
      have hstart : pre.length + tok.length = (s.take j).length := by rw [← hpre]; simp
      apply h3 pre.length (by omega)
      have : s = pre ++ tok ++ s.drop j := by rw [hpre, List.take_append_drop]
      refine ⟨s.drop j, ?_⟩
      conv => rhs; rw [this]
      rw [List.append_assoc, List.drop_left']
      rfl
  | none =>
    rw [hf] at hspec
    simp only
    have := scan_spec hnb s [] 0 hl (pmMax_nil hnb)
    cases hsc : scan tok 0 s with
    | more m' => exact ⟨m', rfl⟩
    | found j =>
      rw [hsc] at this
      obtain ⟨_, hj, hs, _⟩ := this
      rw [List.nil_append] at hs
      obtain ⟨pre, hpre⟩ := hs
      exfalso
      apply hspec pre.length
      · have := congrArg List.length hpre
        simp [List.length_take] at this; omega
      · have : s = pre ++ tok ++ s.drop j := by rw [hpre, List.take_append_drop]
        refine ⟨s.drop j, ?_⟩
        conv => rhs; rw [this]
        rw [List.append_assoc, List.drop_left']
        rfl

/-- cutting at positions does not lose or reorder bytes -/
theorem cutAt_flatten : ∀ (cuts : List Nat) (body : Bytes) (off : Nat), (cutAt body off cuts).flatten = body := by
  intro cuts
  induction cuts with
  | nil => intro body off; simp [cutAt]
  | cons c cs ih => intro body off; simp [cutAt, ih]

end Ombott.Multipart
