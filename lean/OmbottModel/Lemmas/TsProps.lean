import OmbottModel.Model.TsProps
/-!
Locality of the atomic steps of `Model/TsProps.lean` for the current decorator
(`Variant.perInstance`).

The heap is cut into slices by two predicates: `P t a` ("the (thread, app) context `(t, a)` is in
the slice") for everything that is private to a context (thread views of the stores and of
`HeaderDict._ts`, dicts, registers, allocation counters) and `S i` ("the instance-level state of
`i` is in the slice") for the `_ts_props` slot and the plain slots of an instance.

* `plan_agree`   : a step of a context inside the slice reads only the slice;
* `Agree.apply`  : the same updates keep two heaps in agreement;
* `Agree.outside`: an update outside the slice keeps a heap in agreement with itself;
* `plan_outside` : every update of a step of a context outside the slice lies outside it;
* `Own`          : dict references found in a context's cells belong to that context (relation `R`),
                   and every step keeps it so.
C08 instantiates `P u _ := u = t`, C10 `P _ b := b = a`.
-/
namespace Ombott.TsProps
open Py

@[simp] theorem Obj.inst_cls (o : Obj) (t : ThreadId) (a : AppId) : (o.inst t a).cls = o.cls := by
  cases o <;> rfl

/-! ### agreement on a slice -/

structure Agree (P : ThreadId → AppId → Prop) (S : Inst → Prop) (h h' : Heap) : Prop where
  tls : ∀ i u k, P u i.app → h.tls i u k = h'.tls i u k
  hasStore : ∀ i, S i → h.hasStore i = h'.hasStore i
  slots : ∀ i k, S i → h.slots i k = h'.slots i k
  hd : ∀ a u, P u a → h.hd a u = h'.hd a u
  dicts : ∀ o, P o.thread o.app → h.dicts o = h'.dicts o
  next : ∀ u a, P u a → h.next u a = h'.next u a
  ncopies : ∀ u a, P u a → h.ncopies u a = h'.ncopies u a
  regs : ∀ u a r, P u a → h.regs u a r = h'.regs u a r
  /-- the objects shared by all applications and threads are the same in both heaps -/
  errs : h.errs = h'.errs

theorem Agree.refl {P S} (h : Heap) : Agree P S h h :=
  ⟨fun _ _ _ _ => rfl, fun _ _ => rfl, fun _ _ _ => rfl, fun _ _ _ => rfl, fun _ _ => rfl,
   fun _ _ _ => rfl, fun _ _ _ => rfl, fun _ _ _ _ => rfl, rfl⟩

theorem Agree.symm {P S} {h h' : Heap} (g : Agree P S h h') : Agree P S h' h :=
  ⟨fun i u k p => (g.tls i u k p).symm, fun i s => (g.hasStore i s).symm,
   fun i k s => (g.slots i k s).symm, fun a u p => (g.hd a u p).symm,
   fun o p => (g.dicts o p).symm, fun u a p => (g.next u a p).symm,
   fun u a p => (g.ncopies u a p).symm, fun u a r p => (g.regs u a r p).symm, g.errs.symm⟩

theorem Agree.trans {P S} {h1 h2 h3 : Heap} (g : Agree P S h1 h2) (g' : Agree P S h2 h3) :
    Agree P S h1 h3 :=
  ⟨fun i u k p => (g.tls i u k p).trans (g'.tls i u k p),
   fun i s => (g.hasStore i s).trans (g'.hasStore i s),
   fun i k s => (g.slots i k s).trans (g'.slots i k s),
   fun a u p => (g.hd a u p).trans (g'.hd a u p),
   fun o p => (g.dicts o p).trans (g'.dicts o p),
   fun u a p => (g.next u a p).trans (g'.next u a p),
   fun u a p => (g.ncopies u a p).trans (g'.ncopies u a p),
   fun u a r p => (g.regs u a r p).trans (g'.regs u a r p), g.errs.trans g'.errs⟩

/-- the same update applied to two agreeing heaps -/
theorem Agree.apply {P S} {h h' : Heap} (g : Agree P S h h') (u : Upd) :
    Agree P S (u.apply h) (u.apply h') := by
  cases u with
  | tls i t k v =>
    refine { g with tls := ?_ }
    intro j w k' p
    simp only [Upd.apply, upd3]
    split
    · rfl
    · exact g.tls _ _ _ p
  | store i =>
    refine { g with hasStore := ?_ }
    intro j s
    simp only [Upd.apply, upd]
    split
    · rfl
    · exact g.hasStore _ s
  | slot i k v =>
    refine { g with slots := ?_ }
    intro j k' s
    simp only [Upd.apply, upd2]
    split
    · rfl
    · exact g.slots _ _ s
  | cell c i => exact { g with }
  | hd a t v =>
    refine { g with hd := ?_ }
    intro b w p
    simp only [Upd.apply, upd2]
    split
    · rfl
    · exact g.hd _ _ p
  | dict o d =>
    refine { g with dicts := ?_ }
    intro o' p
    simp only [Upd.apply, upd]
    split
    · rfl
    · exact g.dicts _ p
  | next t a =>
    refine { g with next := ?_ }
    intro w b p
    simp only [Upd.apply, upd2]
    split
    · rename_i hc
      obtain ⟨rfl, rfl⟩ := hc
      rw [g.next _ _ p]
    · exact g.next _ _ p
  | ncopies t a =>
    refine { g with ncopies := ?_ }
    intro w b p
    simp only [Upd.apply, upd2]
    split
    · rename_i hc
      obtain ⟨rfl, rfl⟩ := hc
      rw [g.ncopies _ _ p]
    · exact g.ncopies _ _ p
  | reg t a r v =>
    refine { g with regs := ?_ }
    intro w b r' p
    simp only [Upd.apply, upd3]
    split
    · rfl
    · exact g.regs _ _ _ p
  | err e k v =>
    refine { g with errs := ?_ }
    simp only [Upd.apply, g.errs]
  | tmpl => exact { g with }

theorem Agree.apply_all {P S} {h h' : Heap} (g : Agree P S h h') (us : List Upd) :
    Agree P S (applyAll h us) (applyAll h' us) := by
  induction us generalizing h h' with
  | nil => exact g
  | cons u us ih => exact ih (g.apply u)

/-- an update that lies outside the slice -/
def Upd.outside (P : ThreadId → AppId → Prop) (S : Inst → Prop) : Upd → Prop
  | .tls i t _ _ => ¬ P t i.app
  | .store i => ¬ S i
  | .slot i _ _ => ¬ S i
  | .cell _ _ => True
  | .hd a t _ => ¬ P t a
  | .dict o _ => ¬ P o.thread o.app
  | .next t a => ¬ P t a
  | .ncopies t a => ¬ P t a
  | .reg t a _ _ => ¬ P t a
  | .err _ _ _ => False            -- shared by everybody: never outside a slice
  | .tmpl => True                  -- the init-once flag is not part of any slice: nothing read depends on it

theorem Agree.outside {P S} (h : Heap) (u : Upd) (ho : u.outside P S) : Agree P S h (u.apply h) := by
  cases u with
  | tls i t k v =>
    refine { Agree.refl h with tls := ?_ }
    intro j w k' p
    simp only [Upd.apply, upd3]
    split
    · rename_i hc
      obtain ⟨rfl, rfl, rfl⟩ := hc
      exact absurd p ho
    · rfl
  | store i =>
    refine { Agree.refl h with hasStore := ?_ }
    intro j s
    simp only [Upd.apply, upd]
    split
    · subst_vars; exact absurd s ho
    · rfl
  | slot i k v =>
    refine { Agree.refl h with slots := ?_ }
    intro j k' s
    simp only [Upd.apply, upd2]
    split
    · rename_i hc
      obtain ⟨rfl, rfl⟩ := hc
      exact absurd s ho
    · rfl
  | cell c i => exact { Agree.refl h with }
  | hd a t v =>
    refine { Agree.refl h with hd := ?_ }
    intro b w p
    simp only [Upd.apply, upd2]
    split
    · rename_i hc
      obtain ⟨rfl, rfl⟩ := hc
      exact absurd p ho
    · rfl
  | dict o d =>
    refine { Agree.refl h with dicts := ?_ }
    intro o' p
    simp only [Upd.apply, upd]
    split
    · subst_vars; exact absurd p ho
    · rfl
  | next t a =>
    refine { Agree.refl h with next := ?_ }
    intro w b p
    simp only [Upd.apply, upd2]
    split
    · rename_i hc
      obtain ⟨rfl, rfl⟩ := hc
      exact absurd p ho
    · rfl
  | ncopies t a =>
    refine { Agree.refl h with ncopies := ?_ }
    intro w b p
    simp only [Upd.apply, upd2]
    split
    · rename_i hc
      obtain ⟨rfl, rfl⟩ := hc
      exact absurd p ho
    · rfl
  | reg t a r v =>
    refine { Agree.refl h with regs := ?_ }
    intro w b r' p
    simp only [Upd.apply, upd3]
    split
    · rename_i hc
      obtain ⟨rfl, rfl, rfl⟩ := hc
      exact absurd p ho
    · rfl
  | err e k v => exact absurd ho id
  | tmpl => exact { Agree.refl h with }

theorem Agree.outside_all {P S} (h : Heap) (us : List Upd) (ho : ∀ u ∈ us, u.outside P S) :
    Agree P S h (applyAll h us) := by
  induction us generalizing h with
  | nil => exact Agree.refl h
  | cons u us ih =>
    have h1 := Agree.outside (P := P) (S := S) h u (ho u (by simp))
    exact h1.trans (ih (u.apply h) (fun u' hu' => ho u' (by simp [hu'])))

/-! ### ownership of dict references -/

/-- dict references found in the cells of a context are related to that context by `R` -/
structure Own (R : ThreadId → AppId → Oid → Prop) (h : Heap) : Prop where
  regs : ∀ t a r o, h.regs t a r = some (.dict o) → R t a o
  tls : ∀ i u k o, h.tls i u k = some (.dict o) → R u i.app o
  hd : ∀ a u o, h.hd a u = some (.dict o) → R u a o
  slots : ∀ i k o u, h.slots i k = some (.dict o) → R u i.app o

theorem Own.empty (R) : Own R Heap.empty :=
  ⟨fun _ _ _ _ h => by simp [Heap.empty] at h, fun _ _ _ _ h => by simp [Heap.empty] at h,
   fun _ _ _ h => by simp [Heap.empty] at h, fun _ _ _ _ h => by simp [Heap.empty] at h⟩

@[simp] theorem Obj.inst_app (o : Obj) (t : ThreadId) (a : AppId) : (o.inst t a).app = a := by
  cases o <;> rfl

theorem storeOf_perInstance (h : Heap) (i : Inst) :
    storeOf .perInstance h i = if h.hasStore i then some i else none := rfl

theorem regDict_agree {P S R} {h h' : Heap} (t : ThreadId) (a : AppId) (r : Reg)
    (g : Agree P S h h') (ow : Own R h) (hp : P t a)
    (hRP : ∀ o, R t a o → P o.thread o.app) :
    regDict h' t a r = regDict h t a r := by
  unfold regDict
  rw [← g.regs t a r hp]
  cases hr : h.regs t a r with
  | none => rfl
  | some x =>
    cases x with
    | plain v => rfl
    | dict o => simp only []; rw [g.dicts o (hRP o (ow.regs t a r o hr))]

theorem srcVal_agree {P S} {h h' : Heap} (t : ThreadId) (a : AppId) (s : Src)
    (g : Agree P S h h') (hp : P t a) : srcVal h' t a s = srcVal h t a s := by
  cases s with
  | lit v => rfl
  | reg r => simp only [srcVal]; exact (g.regs t a r hp).symm

/-- a step of a context inside the slice decides on the same updates and the same result in two
heaps that agree on the slice -/
theorem plan_agree {P S R} {h h' : Heap} (t : ThreadId) (a : AppId) (acc : Access)
    (g : Agree P S h h') (ow : Own R h) (hp : P t a) (hpk : P (hdKey t) a)
    (hRP : ∀ o, R t a o → P o.thread o.app)
    (hst : ∀ o : Obj, h'.hasStore (o.inst t a) = h.hasStore (o.inst t a))
    (hsl : acc.attrOk ∨ ∀ o : Obj, S (o.inst t a)) :
    plan .perInstance t a h' acc = plan .perInstance t a h acc := by
  have etls : ∀ (o : Obj) k, h'.tls (o.inst t a) t k = h.tls (o.inst t a) t k := fun o k =>
    (g.tls (o.inst t a) t k (by simpa using hp)).symm
  have erd : ∀ r, regDict h' t a r = regDict h t a r := fun r => regDict_agree t a r g ow hp hRP
  have esv : ∀ s, srcVal h' t a s = srcVal h t a s := fun s => srcVal_agree t a s g hp
  have ehd : h'.hd a (hdKey t) = h.hd a (hdKey t) := (g.hd a (hdKey t) hpk).symm
  have enx : h'.next t a = h.next t a := (g.next t a hp).symm
  have enc : h'.ncopies t a = h.ncopies t a := (g.ncopies t a hp).symm
  cases acc with
  | initHead o => simp only [plan, hst]
  | initNone o k => simp only [plan, storeOf_perInstance, hst]
  | fget o k dst =>
    simp only [plan, storeOf_perInstance, hst]
    split
    · cases h.hasStore (o.inst t a) <;> simp [etls]
    · rename_i hk
      rcases hsl with hok | hS
      · exact absurd (by simpa [Access.attrOk] using hok) hk
      · rw [g.slots _ k (hS o)]
  | fset o k src => simp only [plan, storeOf_perInstance, hst, esv]
  | fdel o k =>
    simp only [plan, storeOf_perInstance, hst]
    split
    · cases h.hasStore (o.inst t a) <;> simp [etls]
    · rename_i hk
      rcases hsl with hok | hS
      · exact absurd (by simpa [Access.attrOk] using hok) hk
      · rw [g.slots _ k (hS o)]
  | hdGet dst => simp only [plan, ehd]
  | hdSet src => simp only [plan, esv]
  | dNew dst d => simp only [plan, enx]
  | dOp r op => simp only [plan, erd]
  | dUpdate r src => simp only [plan, erd]
  | dCopy r dst => simp only [plan, erd, enx]
  | newCopy => simp only [plan, enc]
  | errGet e k => simp only [plan, g.errs]
  | errSet e k x => simp only [plan]
  | tmplLoad => rfl

theorem regDict_ok {h : Heap} {t : ThreadId} {a : AppId} {r : Reg} {o : Oid} {d : Dict}
    (hr : regDict h t a r = .ok (o, d)) : h.regs t a r = some (.dict o) := by
  unfold regDict at hr
  cases hx : h.regs t a r with
  | none => rw [hx] at hr; simp at hr
  | some x =>
    rw [hx] at hr
    cases x with
    | plain v => simp at hr
    | dict o' =>
      simp only [] at hr
      cases hd : h.dicts o' with
      | none => rw [hd] at hr; simp at hr
      | some d' => rw [hd] at hr; simp only [Except.ok.injEq, Prod.mk.injEq] at hr; rw [hr.1]

/-- every update of a step of a context outside the slice lies outside the slice -/
theorem plan_outside {P S R} {h : Heap} (t : ThreadId) (a : AppId) (acc : Access)
    (ow : Own R h) (hnp : ¬ P t a) (hnk : ¬ P (hdKey t) a) (hS : ∀ o : Obj, ¬ S (o.inst t a))
    (hRP : ∀ o, R t a o → ¬ P o.thread o.app) (hsh : acc.sharedOk) :
    ∀ u ∈ (plan .perInstance t a h acc).1, u.outside P S := by
  have hreg : ∀ r o d, regDict h t a r = .ok (o, d) → ¬ P o.thread o.app := fun r o d hr =>
    hRP o (ow.regs t a r o (regDict_ok hr))
  cases acc with
  | initHead o =>
    simp only [plan]
    split <;> intro u hu <;> simp at hu
    subst hu; exact hS o
  | initNone o k =>
    simp only [plan, storeOf_perInstance]
    split
    · rename_i s hs
      intro u hu; simp at hu; subst hu
      split at hs
      · simp only [Option.some.injEq] at hs; subst hs; simpa [Upd.outside] using hnp
      · simp at hs
    · intro u hu; simp at hu
  | fget o k dst =>
    simp only [plan]
    split
    · split
      · split
        · intro u hu; simp at hu; subst hu; exact hnp
        · intro u hu; simp at hu
      · intro u hu; simp at hu
    · split
      · intro u hu; simp at hu; subst hu; exact hnp
      · intro u hu; simp at hu
  | fset o k src =>
    simp only [plan, storeOf_perInstance]
    split
    · intro u hu; simp at hu
    · split
      · split
        · rename_i s hs
          intro u hu; simp at hu; subst hu
          split at hs
          · simp only [Option.some.injEq] at hs; subst hs; simpa [Upd.outside] using hnp
          · simp at hs
        · intro u hu; simp at hu
      · intro u hu; simp at hu; subst hu; exact hS o
  | fdel o k =>
    simp only [plan, storeOf_perInstance]
    split
    · split
      · rename_i s hs
        split
        · intro u hu; simp at hu; subst hu
          split at hs
          · simp only [Option.some.injEq] at hs; subst hs; simpa [Upd.outside] using hnp
          · simp at hs
        · intro u hu; simp at hu
      · intro u hu; simp at hu
    · split
      · intro u hu; simp at hu; subst hu; exact hS o
      · intro u hu; simp at hu
  | hdGet dst =>
    simp only [plan]
    split
    · intro u hu; simp at hu; subst hu; exact hnp
    · intro u hu; simp at hu
  | hdSet src =>
    simp only [plan]
    split
    · intro u hu; simp at hu; subst hu; exact hnk
    · intro u hu; simp at hu
  | dNew dst d =>
    simp only [plan]
    intro u hu; simp at hu
    rcases hu with rfl | rfl | rfl <;> exact hnp
  | dOp r op =>
    simp only [plan]
    split
    · rename_i o d hr
      intro u hu; simp at hu; subst hu; exact hreg r o d hr
    · intro u hu; simp at hu
  | dUpdate r src =>
    simp only [plan]
    split
    · rename_i o d _ e hr _
      intro u hu; simp at hu; subst hu; exact hreg r o d hr
    · intro u hu; simp at hu
    · intro u hu; simp at hu
  | dCopy r dst =>
    simp only [plan]
    split
    · intro u hu; simp at hu
      rcases hu with rfl | rfl | rfl <;> exact hnp
    · intro u hu; simp at hu
  | newCopy =>
    simp only [plan]
    intro u hu; simp at hu; subst hu; exact hnp
  | errGet e k =>
    simp only [plan]
    split <;> intro u hu <;> simp at hu
  | errSet e k x => exact absurd hsh id
  | tmplLoad =>
    simp only [plan]
    intro u hu; simp at hu; subst hu; trivial

/-! ### ownership is kept -/

/-- the value an update writes is related by `R` to the context of the cell written -/
def Upd.keeps (R : ThreadId → AppId → Oid → Prop) : Upd → Prop
  | .tls i u _ (some (.dict o)) => R u i.app o
  | .slot i _ (some (.dict o)) => ∀ u, R u i.app o
  | .hd a u (.dict o) => R u a o
  | .reg t a _ (.dict o) => R t a o
  | _ => True

theorem Own.apply {R} {h : Heap} (ow : Own R h) (u : Upd) (hk : u.keeps R) : Own R (u.apply h) := by
  cases u with
  | tls i t k v =>
    refine { ow with tls := ?_ }
    intro j w k' o
    simp only [Upd.apply, upd3]
    split
    · rename_i hc
      obtain ⟨rfl, rfl, rfl⟩ := hc
      intro hv; subst hv; exact hk
    · exact ow.tls _ _ _ _
  | store i => exact { ow with }
  | slot i k v =>
    refine { ow with slots := ?_ }
    intro j k' o w
    simp only [Upd.apply, upd2]
    split
    · rename_i hc
      obtain ⟨rfl, rfl⟩ := hc
      intro hv; subst hv; exact hk w
    · exact ow.slots _ _ _ _
  | cell c i => exact { ow with }
  | hd a t v =>
    refine { ow with hd := ?_ }
    intro b w o
    simp only [Upd.apply, upd2]
    split
    · rename_i hc
      obtain ⟨rfl, rfl⟩ := hc
      intro hv
      simp only [Option.some.injEq] at hv
      subst hv; exact hk
    · exact ow.hd _ _ _
  | dict o d => exact { ow with }
  | next t a => exact { ow with }
  | ncopies t a => exact { ow with }
  | err e k v => exact { ow with }
  | tmpl => exact { ow with }
  | reg t a r v =>
    refine { ow with regs := ?_ }
    intro w b r' o
    simp only [Upd.apply, upd3]
    split
    · rename_i hc
      obtain ⟨rfl, rfl, rfl⟩ := hc
      intro hv
      simp only [Option.some.injEq] at hv
      subst hv; exact hk
    · exact ow.regs _ _ _ _

theorem Own.apply_all {R} {h : Heap} (ow : Own R h) (us : List Upd) (hk : ∀ u ∈ us, u.keeps R) :
    Own R (applyAll h us) := by
  induction us generalizing h with
  | nil => exact ow
  | cons u us ih =>
    exact ih (ow.apply u (hk u (by simp))) (fun u' hu' => hk u' (by simp [hu']))

theorem srcVal_own {R} {h : Heap} (ow : Own R h) (t : ThreadId) (a : AppId) (s : Src) (o : Oid)
    (hs : srcVal h t a s = some (.dict o)) : R t a o := by
  cases s with
  | lit v => simp [srcVal] at hs
  | reg r => exact ow.regs t a r o hs

/-- every update a step decides on keeps the ownership relation; `hnew`: a context is related to
the objects it creates; `hsl`: plain slots are only written when `R` does not depend on the thread -/
theorem plan_keeps {R} {h : Heap} (t : ThreadId) (a : AppId) (acc : Access) (ow : Own R h)
    (hnew : ∀ n, R t a ⟨t, a, n⟩) (hRk : ∀ o, R (hdKey t) a o ↔ R t a o)
    (hsl : acc.attrOk ∨ ∀ (o : Oid) (u u' : ThreadId), R u a o → R u' a o) :
    ∀ u ∈ (plan .perInstance t a h acc).1, u.keeps R := by
  cases acc with
  | initHead o =>
    simp only [plan]
    split <;> intro u hu <;> simp at hu
    subst hu; trivial
  | initNone o k =>
    simp only [plan]
    split
    · intro u hu; simp at hu; subst hu; trivial
    · intro u hu; simp at hu
  | fget o k dst =>
    simp only [plan, storeOf_perInstance]
    split
    · split
      · rename_i s hs
        split
        · rename_i x hx
          intro u hu; simp at hu; subst hu
          split at hs
          · simp only [Option.some.injEq] at hs; subst hs
            cases x with
            | plain v => trivial
            | dict o' => simpa [Upd.keeps] using ow.tls _ _ _ _ hx
          · simp at hs
        · intro u hu; simp at hu
      · intro u hu; simp at hu
    · split
      · rename_i x hx
        intro u hu; simp at hu; subst hu
        cases x with
        | plain v => trivial
        | dict o' => simpa [Upd.keeps] using ow.slots _ _ _ t hx
      · intro u hu; simp at hu
  | fset o k src =>
    simp only [plan, storeOf_perInstance]
    split
    · intro u hu; simp at hu
    · rename_i x hx
      split
      · split
        · rename_i s hs
          intro u hu; simp at hu; subst hu
          split at hs
          · simp only [Option.some.injEq] at hs; subst hs
            cases x with
            | plain v => trivial
            | dict o' => simpa [Upd.keeps] using srcVal_own ow t a src o' hx
          · simp at hs
        · intro u hu; simp at hu
      · rename_i hk
        intro u hu; simp at hu; subst hu
        cases x with
        | plain v => trivial
        | dict o' =>
          rcases hsl with hok | hind
          · exact absurd (by simpa [Access.attrOk] using hok) hk
          · intro w
            simpa using hind o' t w (srcVal_own ow t a src o' hx)
  | fdel o k =>
    simp only [plan]
    split
    · split
      · split
        · intro u hu; simp at hu; subst hu; trivial
        · intro u hu; simp at hu
      · intro u hu; simp at hu
    · split
      · intro u hu; simp at hu; subst hu; trivial
      · intro u hu; simp at hu
  | hdGet dst =>
    simp only [plan]
    split
    · rename_i x hx
      intro u hu; simp at hu; subst hu
      cases x with
      | plain v => trivial
      | dict o' => exact (hRk o').mp (ow.hd a (hdKey t) o' hx)
    · intro u hu; simp at hu
  | hdSet src =>
    simp only [plan]
    split
    · rename_i x hx
      intro u hu; simp at hu; subst hu
      cases x with
      | plain v => trivial
      | dict o' => exact (hRk o').mpr (srcVal_own ow t a src o' hx)
    · intro u hu; simp at hu
  | dNew dst d =>
    simp only [plan]
    intro u hu; simp at hu
    rcases hu with rfl | rfl | rfl
    · trivial
    · trivial
    · exact hnew _
  | dOp r op =>
    simp only [plan]
    split
    · intro u hu; simp at hu; subst hu; trivial
    · intro u hu; simp at hu
  | dUpdate r src =>
    simp only [plan]
    split
    · intro u hu; simp at hu; subst hu; trivial
    · intro u hu; simp at hu
    · intro u hu; simp at hu
  | dCopy r dst =>
    simp only [plan]
    split
    · intro u hu; simp at hu
      rcases hu with rfl | rfl | rfl
      · trivial
      · trivial
      · exact hnew _
    · intro u hu; simp at hu
  | newCopy =>
    simp only [plan]
    intro u hu; simp at hu; subst hu; trivial
  | errGet e k =>
    simp only [plan]
    split <;> intro u hu <;> simp at hu
  | errSet e k x =>
    simp only [plan]
    intro u hu; simp at hu; subst hu; trivial
  | tmplLoad =>
    simp only [plan]
    intro u hu; simp at hu; subst hu; trivial

/-! ### the three facts about one step -/

/-- a step keeps ownership -/
theorem exec_own {R} {h : Heap} (t : ThreadId) (a : AppId) (acc : Access) (ow : Own R h)
    (hnew : ∀ n, R t a ⟨t, a, n⟩) (hRk : ∀ o, R (hdKey t) a o ↔ R t a o)
    (hsl : acc.attrOk ∨ ∀ (o : Oid) (u u' : ThreadId), R u a o → R u' a o) :
    Own R (exec .perInstance t a acc h).1 :=
  ow.apply_all _ (plan_keeps t a acc ow hnew hRk hsl)

/-- a step of a context outside the slice leaves the slice alone -/
theorem exec_frame {P S R} {h : Heap} (t : ThreadId) (a : AppId) (acc : Access)
    (ow : Own R h) (hnp : ¬ P t a) (hnk : ¬ P (hdKey t) a) (hS : ∀ o : Obj, ¬ S (o.inst t a))
    (hRP : ∀ o, R t a o → ¬ P o.thread o.app) (hsh : acc.sharedOk) :
    Agree P S h (exec .perInstance t a acc h).1 :=
  Agree.outside_all h _ (plan_outside t a acc ow hnp hnk hS hRP hsh)

theorem Access.sharedOk_of_attrOk {acc : Access} (h : acc.attrOk) : acc.sharedOk := by
  cases acc <;> first | trivial | exact h

/-- a step of a context inside the slice: same result, agreement kept -/
theorem exec_agree {P S R} {h h' : Heap} (t : ThreadId) (a : AppId) (acc : Access)
    (g : Agree P S h h') (ow : Own R h) (hp : P t a) (hpk : P (hdKey t) a)
    (hRP : ∀ o, R t a o → P o.thread o.app)
    (hst : ∀ o : Obj, h'.hasStore (o.inst t a) = h.hasStore (o.inst t a))
    (hsl : acc.attrOk ∨ ∀ o : Obj, S (o.inst t a)) :
    (exec .perInstance t a acc h').2 = (exec .perInstance t a acc h).2 ∧
    Agree P S (exec .perInstance t a acc h).1 (exec .perInstance t a acc h').1 := by
  have hpl := plan_agree t a acc g ow hp hpk hRP hst hsl
  simp only [exec, hpl]
  exact ⟨trivial, g.apply_all _⟩

/-- `_ts_props` slots are only ever set -/
theorem exec_hasStore_mono (v : Variant) (t : ThreadId) (a : AppId) (acc : Access) (h : Heap) (i : Inst)
    (hi : h.hasStore i = true) : (exec v t a acc h).1.hasStore i = true := by
  have key : ∀ (us : List Upd) (h : Heap), h.hasStore i = true → (applyAll h us).hasStore i = true := by
    intro us
    induction us with
    | nil => intro h hh; exact hh
    | cons u us ih =>
      intro h hh
      apply ih
      cases u <;> simp only [Upd.apply, hh]
      simp only [upd]; split <;> simp [hh]
  exact key _ h hi

end Ombott.TsProps
