import OmbottModel.Lemmas.EnvCacheForms
/-!
What the proof takes from the GENERATED table (`Gen/Envcache.lean`): finite obligations decided by
the kernel, and their consequences in the form the invalidation step needs.
-/
namespace Ombott.EnvCache
open Py Ombott.Body Ombott.Forms Ombott.BodyAccess

/-- the WSGI strings each modelled property is computed from (the `reads` of its description) -/
def semReads : Prop' → List Key
  | .app | .route | .urlArgs | .headers | .body => []
  | .cookies => [cs!"HTTP_COOKIE"]
  | .scriptName => [cs!"SCRIPT_NAME", cs!"HTTP_X_SCRIPT_NAME"]
  | .fullpath => pathKeys
  | .urlparts | .url => pathKeys ++ urlKeys
  | .isJsonRequested => [cs!"HTTP_ACCEPT"]
  | .remoteRoute => [cs!"HTTP_X_FORWARDED_FOR", cs!"REMOTE_ADDR"]
  | .contentLength => [kCL]
  | .contentType | .ctype => [kCT]
  | .query => [kQS]
  | .json | .post | .forms | .files => [kCT, kCL]
  | .params => [kCT, kCL, kQS]

theorem semReads_eq (cfg : Cfg) (L : Lib) (p : Prop') : (desc cfg L p).reads = semReads p := by
  cases p <;> rfl

/-- every row of the arms table, as keys -/
def allRows : List (List Key) :=
  Gen.ecArms.map (fun r => r.2.map String.toList) ++ [Gen.ecArmHttp.map String.toList, Gen.ecArmOther.map String.toList]

theorem todelete_mem (K : Key) : todelete K ∈ allRows := by
  unfold todelete allRows
  cases h : Gen.ecArms.find? (fun p => p.1.toList = K) with
  | some r =>
    simp only [List.mem_append, List.mem_map]
    exact Or.inl ⟨r, List.mem_of_find?_eq_some h, rfl⟩
  | none =>
    simp only [List.mem_append]
    right
    split <;> simp

/-! ### the obligations -/

/-- the rows name cache entries and the body state only -/
def rowsOK : Bool := allRows.all fun row => row.all fun k => isCacheKey k || k == kBody || k == kBodyError

/-- a row that drops the buffered body drops everything computed from it -/
def bodyDropOK : Bool :=
  allRows.all fun row => !(row.contains kBody) || [kJson, kPost, kForms, kFiles, kParams].all row.contains

/-- a row that drops `forms` or `files` drops `post` -/
def postGroupOK : Bool := allRows.all fun row => !(row.contains kForms || row.contains kFiles) || row.contains kPost

/-- assigning a new `wsgi.input` drops the buffered body and the remembered error -/
def inputDropsBody : Bool := (todelete kInput).contains kBody && (todelete kInput).contains kBodyError

/-- **dependency cover**: for every cached property of the source and every environ key its
computation reads, the arm of the key drops the property's cache entry — or the pair is listed in
`Gen.ecUncovered` -/
def coverOK : Bool :=
  Gen.ecProps.all fun row => row.reads.all fun K =>
    (todelete K.toList).contains row.key.toList || Gen.ecUncovered.contains (row.name, K)

/-- the model reads what the source reads: every key of `semReads p` is in the probed read set of
the source property of that name, under the same cache key -/
def readsTieOK : Bool :=
  Prop'.all.all fun p => (semReads p).all fun c =>
    Gen.ecProps.any fun row => row.name == p.attr && row.key.toList == p.key && row.reads.any fun K => K.toList == c

/-- … and the source reads nothing more: up to the by-design pairs, `wsgi.input` (read through the
body state) and the header view (which shows every `HTTP_*` entry of its environ).  A source
property that starts reading another key, or a new cached property, makes this false. -/
def readsExactOK : Bool :=
  Gen.ecProps.all fun row => row.name == "GET" || Prop'.all.any fun p =>
    p.attr == row.name && row.reads.all fun K => (semReads p).contains K.toList || ecByDesign.contains (row.name, K) ||
      K == "wsgi.input" || row.name == "headers"

/-- the by-design pairs are not among the strings the descriptions read -/
def byDesignDisjointOK : Bool :=
  ecByDesign.all fun ak => Prop'.all.all fun p => !(p.attr == ak.1) || !(semReads p).contains ak.2.toList

/-- `''` and "absent" are the same to these (property, key) pairs -/
def emptyInsensitive : List (Prop' × Key) :=
  [(.contentLength, kCL), (.cookies, cs!"HTTP_COOKIE"), (.query, kQS), (.params, kQS)]

/-- every other pair is stale anyway (so `del` of a key holding `''` — which fires no
`env_changed` — cannot meet a cached dependent property inside the scope) -/
def emptyOK : Bool :=
  Prop'.all.all fun p => (semReads p).all fun c =>
    emptyInsensitive.contains (p, c) || stalePairs.any fun ak => ak.1 == p.attr && ak.2.toList == c

theorem rowsOK_true : rowsOK = true := by decide +kernel
theorem bodyDropOK_true : bodyDropOK = true := by decide +kernel
theorem postGroupOK_true : postGroupOK = true := by decide +kernel
theorem inputDropsBody_true : inputDropsBody = true := by decide +kernel
theorem coverOK_true : coverOK = true := by decide +kernel
theorem readsTieOK_true : readsTieOK = true := by decide +kernel
theorem readsExactOK_true : readsExactOK = true := by decide +kernel
theorem byDesignDisjointOK_true : byDesignDisjointOK = true := by decide +kernel
theorem emptyOK_true : emptyOK = true := by decide +kernel

end Ombott.EnvCache
