import OmbottModel.Lemmas.EnvCacheStores
/-!
A sufficient, syntactic condition for `Safe`: the handler reads only properties of a given set and
assigns only keys that are in no stale pair with anything those reads can cache.
-/
namespace Ombott.EnvCache
open Py Ombott.Body Ombott.Forms Ombott.BodyAccess

variable (cfg : Cfg) (L : Lib)

/-- the operation stays within: reads of `allowed`, assignments / deletions of user keys accepted by `keyOK` -/
def opWithin (allowed : List Prop') (keyOK : Key → Bool) : Op → Bool
  | .read _ p => allowed.contains p && !(p == .headers)
  | .setStr _ k _ => userKey k && !(k == kInput) && keyOK k
  | .setInput _ _ => keyOK kInput
  | .del _ k => userKey k && keyOK k
  | .copy _ => true

/-- no stale pair `(P, K)` with `K` assignable and `P` among what the allowed reads can cache -/
def closedUnder (allowed : List Prop') (keyOK : Key → Bool) : Prop :=
  ∀ ak ∈ stalePairs, keyOK ak.2.toList = true → ∀ p : Prop', p.attr = ak.1 → p.key ∉ allowed.flatMap touch

/-- only keys of `ks` are present among the property cache keys -/
def OnlyW (ks : List Key) (w : World) : Prop := ∀ e ∈ w.envs, ∀ p : Prop', e.get? p.key ≠ none → p.key ∈ ks

theorem get?_setItem_some (e : Env) (K k : Key) (v : Val) (h : (Ombott.EnvCache.setItem e K v).get? k ≠ none) :
    e.get? k ≠ none ∨ k = K := by
  unfold Ombott.EnvCache.setItem at h
  split at h
  · exact Or.inl h
  · cases hc : (dropAll (e.set K v) (todelete K)).get? k with
    | none => exact absurd hc h
    | some w =>
      obtain ⟨h1, -⟩ := get?_dropAll_some _ _ _ _ hc
      by_cases hk : k = K
      · exact Or.inr hk
      · rw [get?_set_ne _ _ _ _ hk] at h1; exact Or.inl (by rw [h1]; simp)

theorem get?_delItem_some (e : Env) (K k : Key) (h : (delItem e K).get? k ≠ none) : e.get? k ≠ none ∨ k = K := by
  unfold delItem at h
  by_cases hk : k = K
  · exact Or.inr hk
  · rw [get?_del_ne _ _ _ hk] at h
    exact get?_setItem_some e K k _ h

theorem safeSet_of_only (allowed : List Prop') (keyOK : Key → Bool) (hc : closedUnder allowed keyOK)
    (e : Env) (K : Key) (hK : keyOK K = true) (ho : ∀ p : Prop', e.get? p.key ≠ none → p.key ∈ allowed.flatMap touch) :
    safeSet e K = true := by
  simp only [safeSet, List.all_eq_true, Bool.or_eq_true, Bool.not_eq_true', beq_eq_false_iff_ne, ne_eq,
    Option.isNone_iff_eq_none, beq_iff_eq]
  intro ak hak
  by_cases hk : ak.2.toList = K
  · right
    intro p _
    by_cases hp : p.attr = ak.1
    · right
      cases hg : e.get? p.key with
      | none => rfl
      | some v => exact absurd (ho p (by rw [hg]; simp)) (hc ak hak (hk ▸ hK) p hp)
    · exact Or.inl hp
  · exact Or.inl hk

theorem within_step (allowed : List Prop') (keyOK : Key → Bool) (hc : closedUnder allowed keyOK)
    (w : World) (op : Op) (ho : OnlyW (allowed.flatMap touch) w) (hw : opWithin allowed keyOK op = true) :
    safeOp w op = true ∧ OnlyW (allowed.flatMap touch) (step cfg L w op).1 := by
  have setCase : ∀ (i : Nat) (e' : Env) (h : Heap), (∀ p : Prop', e'.get? p.key ≠ none → p.key ∈ allowed.flatMap touch) →
      OnlyW (allowed.flatMap touch) { heap := h, envs := w.envs.set i e' } := by
    intro i e' h he x hx
    rcases List.mem_or_eq_of_mem_set hx with h1 | h1
    · exact ho x h1
    · exact h1 ▸ he
  cases op with
  | read i p =>
    simp only [opWithin, Bool.and_eq_true, Bool.not_eq_true', List.contains_iff_mem] at hw
    obtain ⟨hp, hh⟩ := hw
    simp only [safeOp, step]
    cases he : w.envs[i]? with
    | none => exact ⟨rfl, ho⟩
    | some e =>
      simp only [hh, Bool.not_false, Bool.true_or, true_and]
      apply setCase
      intro q hq
      rcases stores_read cfg L p ⟨w.heap, e, i⟩ q.key hq with h | h
      · exact ho e (List.mem_of_getElem? he) q h
      · exact List.mem_flatMap.mpr ⟨p, hp, h⟩
  | setStr i k v =>
    simp only [opWithin, Bool.and_eq_true, Bool.not_eq_true'] at hw
    obtain ⟨⟨hu, hi⟩, hk⟩ := hw
    simp only [safeOp, step, hu, hi, Bool.not_false, Bool.true_and]
    cases he : w.envs[i]? with
    | none => exact ⟨rfl, ho⟩
    | some e =>
      have hoe := ho e (List.mem_of_getElem? he)
      refine ⟨safeSet_of_only allowed keyOK hc e k hk hoe, ?_⟩
      apply setCase
      intro q hq
      rcases get?_setItem_some e k q.key _ hq with h | h
      · exact hoe q h
      · exact absurd h (userKey_ne_key k hu q)
  | setInput i r =>
    simp only [opWithin] at hw
    simp only [safeOp, step]
    cases he : w.envs[i]? with
    | none => exact ⟨rfl, ho⟩
    | some e =>
      have hoe := ho e (List.mem_of_getElem? he)
      refine ⟨safeSet_of_only allowed keyOK hc e kInput hw hoe, ?_⟩
      apply setCase
      intro q hq
      rcases get?_setItem_some e kInput q.key _ hq with h | h
      · exact hoe q h
      · exact absurd h (userKey_ne_key kInput kInput_user q)
  | del i k =>
    simp only [opWithin, Bool.and_eq_true] at hw
    obtain ⟨hu, hk⟩ := hw
    simp only [safeOp, step, hu, Bool.true_and]
    cases he : w.envs[i]? with
    | none => exact ⟨rfl, ho⟩
    | some e =>
      have hoe := ho e (List.mem_of_getElem? he)
      refine ⟨safeSet_of_only allowed keyOK hc e k hk hoe, ?_⟩
      apply setCase
      intro q hq
      rcases get?_delItem_some e k q.key hq with h | h
      · exact hoe q h
      · exact absurd h (userKey_ne_key k hu q)
  | copy i =>
    simp only [safeOp, step]
    cases he : w.envs[i]? with
    | none => exact ⟨trivial, ho⟩
    | some e =>
      refine ⟨trivial, ?_⟩
      intro x hx
      simp only [List.mem_append, List.mem_singleton] at hx
      rcases hx with h | h
      · exact ho x h
      · exact h ▸ ho e (List.mem_of_getElem? he)

theorem safe_of_within (allowed : List Prop') (keyOK : Key → Bool) (hc : closedUnder allowed keyOK)
    (ops : List Op) (w : World) (ho : OnlyW (allowed.flatMap touch) w)
    (hw : ∀ op ∈ ops, opWithin allowed keyOK op = true) : Safe cfg L w ops := by
  induction ops generalizing w with
  | nil => trivial
  | cons op ops ih =>
    obtain ⟨h1, h2⟩ := within_step cfg L allowed keyOK hc w op ho (hw op (by simp))
    exact ⟨h1, ih _ h2 fun o ho' => hw o (by simp [ho'])⟩

/-- a world whose requests carry no property cache entry (a request as the server hands it over) -/
def FreshW (w : World) : Prop := ∀ e ∈ w.envs, ∀ p : Prop', e.get? p.key = none

theorem FreshW.inv {w : World} (h : FreshW w) : InvW cfg L w := fun e he => Inv.ofFresh cfg L e (h e he)
theorem FreshW.only {w : World} (h : FreshW w) (ks : List Key) : OnlyW ks w :=
  fun e he p hp => absurd (h e he p) hp

/-- `FreshW`, decidably -/
def freshB (w : World) : Bool := w.envs.all fun e => Prop'.all.all fun p => (e.get? p.key).isNone

theorem FreshW.ofB {w : World} (h : freshB w = true) : FreshW w := by
  intro e he p
  simp only [freshB, List.all_eq_true, Option.isNone_iff_eq_none] at h
  exact h e he p (by cases p <;> decide)

instance : DecidableEq (Except Exc Val) := fun a b =>
  match a, b with
  | .ok x, .ok y => if h : x = y then isTrue (by rw [h]) else isFalse (fun h' => h (by cases h'; rfl))
  | .error x, .error y => if h : x = y then isTrue (by rw [h]) else isFalse (fun h' => h (by cases h'; rfl))
  | .ok _, .error _ => isFalse (fun h => by cases h)
  | .error _, .ok _ => isFalse (fun h => by cases h)

end Ombott.EnvCache
