import OmbottModel.Lemmas.RouterEditRem
import OmbottModel.Lemmas.RouterIns
/-!
C11, helper lemmas (3): the tree-level calls as the router makes them — `RadiDict.remove`
(`treeRemove`) for routes and hook pairs, `RadiDict.add_hooks` (`insN` with a hook pair) and the
in-place update of a pair (`updN`).
-/
namespace Ombott.Router
open Py

/-- the mode `RadiDict.remove` works in -/
def remMode (star hooksOnly : Bool) : RemMode :=
  if star then .pref else if hooksOnly then .hooksOnly else .exact

theorem ownR_clear : ClearOK ownR true false :=
  ⟨fun _ _ _ => rfl, fun _ _ _ => rfl⟩

theorem ownH_clear (enc : HookPair → Nat) : ClearOK (ownH enc) false true :=
  ⟨fun d pk h => by cases h <;> rfl, fun _ _ _ => rfl⟩

theorem RemOK.of_no_zone {erase : Bool} {mode : RemMode} {p : List Sym} {l : List Rule}
    (h : ∀ e ∈ l, ¬ Zone mode p e.pat) : RemOK erase mode p l l :=
  ⟨fun e he => ⟨he, fun _ => h e he⟩, fun _ he _ => he⟩

/-- `RadiDict.remove(pattern, hooks_only)` on a well-formed tree, for any contents -/
theorem treeRemove_spec {own : Option Nat → List Str → Option HookPair → List Rule} (ho : OwnOK own)
    {eD eH : Bool} (hc : ClearOK own eD eH) (t : Node) (h : WFN t) (pat : List Sym) (hooksOnly : Bool)
    (t' : Node) (hr : treeRemove t pat hooksOnly = .ok t') :
    WFN t' ∧
      RemOK (eraseOf eD eH (remMode (starSplit pat).2 hooksOnly)) (remMode (starSplit pat).2 hooksOnly)
        (starSplit pat).1 (gN own t) (gN own t') := by
  unfold treeRemove at hr
  rcases hsp : starSplit pat with ⟨p, star⟩
  simp only [hsp] at hr ⊢
  split at hr
  · cases hr
  · have hmode : (if star = true then RemMode.pref else if hooksOnly = true then RemMode.hooksOnly
        else RemMode.exact) = remMode star hooksOnly := rfl
    rw [hmode] at hr
    cases hN : remN true (remMode star hooksOnly) t p with
    | none =>
      rw [hN] at hr
      simp only [pure, Except.pure, Except.ok.injEq] at hr
      subst hr
      exact ⟨h, RemOK.of_no_zone (remN_none ho _ true t h p hN)⟩
    | some x =>
      obtain ⟨t1, d1⟩ := x
      rw [hN] at hr
      simp only [pure, Except.pure, Except.ok.injEq] at hr
      subst hr
      obtain ⟨hw, s, _, hnm, _, hrem⟩ := remN_spec ho hc _ true t h p t1 d1 hN
      obtain ⟨rfl, _⟩ := hnm rfl
      simp only [litSyms, List.map_nil, map_under_nil] at hrem
      exact ⟨hw, hrem⟩

/-! ### the hook view of a tree -/

section HookView
variable (enc : HookPair → Nat)

mutual
/-- the tree with the (encoded) hook pair of every node in its data slot: hook pairs become
"routes", so that the insertion lemmas of C01 speak about them -/
def hvN : Node → Node
  | .mk k _ _ f h lits tok => .mk k (h.map enc) [] f none (hvL lits) (hvT tok)
def hvT : Option Node → Option Node
  | none => none
  | some t => some (hvN t)
def hvL : List Node → List Node
  | [] => []
  | k :: ks => hvN k :: hvL ks
end

theorem hvN_key (n : Node) : (hvN enc n).key = n.key := by cases n; rfl
theorem hvN_filter (n : Node) : (hvN enc n).filter = n.filter := by cases n; rfl
theorem hvN_withKey (n : Node) (k : Str) : hvN enc (n.withKey k) = (hvN enc n).withKey k := by
  cases n; simp [Node.withKey, hvN]

mutual
theorem denN_hvN (n : Node) : denN (hvN enc n) = hdenN enc n := by
  match n with
  | .mk k d pk f h lits tok =>
    simp only [hvN, denN, hdenN, gN, denL_hvL lits, denT_hvT tok]
    cases h <;> rfl
theorem denT_hvT (t : Option Node) : denT (hvT enc t) = gT (ownH enc) t := by
  match t with
  | none => simp [hvT, denT, gT]
  | some t =>
    simp only [hvT, denT, gT, hvN_filter]
    rw [denN_hvN t]; rfl
theorem denL_hvL (ks : List Node) : denL (hvL enc ks) = gL (ownH enc) ks := by
  match ks with
  | [] => simp [hvL, denL, gL]
  | k :: ks =>
    simp only [hvL, denL, gL, hvN_key]
    rw [denN_hvN k, denL_hvL ks]; rfl
end

theorem forall_mem_hvL (P : Str → Prop) (ks : List Node) :
    (∀ k' ∈ hvL enc ks, P k'.key) ↔ (∀ k' ∈ ks, P k'.key) := by
  induction ks with
  | nil => simp [hvL]
  | cons x xs ih => simp [hvL, hvN_key, ih]

mutual
theorem WFN_hvN (n : Node) : WFN (hvN enc n) ↔ WFN n := by
  match n with
  | .mk k d pk f h lits tok =>
    simp only [hvN]
    unfold WFN
    rw [WFL_hvL lits, WFT_hvT tok]
theorem WFT_hvT (t : Option Node) : WFT (hvT enc t) ↔ WFT t := by
  match t with
  | none => simp only [hvT]
  | some t =>
    simp only [hvT]
    unfold WFT
    exact WFN_hvN t
theorem WFL_hvL (ks : List Node) : WFL (hvL enc ks) ↔ WFL ks := by
  match ks with
  | [] => simp only [hvL]
  | k :: ks =>
    simp only [hvL]
    unfold WFL
    rw [hvN_key, WFN_hvN k, WFL_hvL ks, forall_mem_hvL enc (fun x => x.head? ≠ k.key.head?)]
end

/-- the arguments of `_set` seen through the hook view -/
def hvA (a : SetArgs) : SetArgs :=
  { data := a.hooks.map enc, hooks := none, names := [], overwrite := a.overwrite }

theorem setHere_hv (a : SetArgs) (ha : a.data = none) (n : Node) :
    setHere (hvA enc a) (hvN enc n) = (setHere a n).map (hvN enc) := by
  obtain ⟨ad, ah, an, ao⟩ := a
  simp only at ha
  subst ha
  match n with
  | .mk k d p f h lits tok =>
    simp only [setHere, hvN, hvA]
    cases ah <;> cases h <;> cases ao <;> simp [Except.map, hvN]

mutual
theorem chainLit_hv (a : SetArgs) (ha : a.data = none) (key : Str) (r : List Sym) :
    chainLit (hvA enc a) key r = hvN enc (chainLit a key r) := by
  match r with
  | [] => simp [chainLit, hvN, hvA, ha, hvL, hvT]
  | .lit c :: r => simp only [chainLit]; exact chainLit_hv a ha (key ++ [c]) r
  | .tok g :: r => simp only [chainLit, hvN, hvL, hvT, chainTok_hv a ha g r, Option.map_none]
theorem chainTok_hv (a : SetArgs) (ha : a.data = none) (g : Option Fid) (r : List Sym) :
    chainTok (hvA enc a) g r = hvN enc (chainTok a g r) := by
  match r with
  | [] => simp [chainTok, hvN, hvA, ha, hvL, hvT]
  | .lit c :: r => simp only [chainTok, hvN, hvL, hvT, chainLit_hv a ha [c] r, Option.map_none]
  | .tok g' :: r => simp only [chainTok, hvN, hvL, hvT, chainTok_hv a ha g' r, Option.map_none]
end

theorem splitIns_hv (a : SetArgs) (ha : a.data = none) (n : Node) (route : List Sym) :
    splitIns (hvA enc a) (hvN enc n) route = (splitIns a n route).map (hvN enc) := by
  unfold splitIns
  simp only [hvN_key, ← hvN_withKey]
  split
  · rename_i hd
    have := setHere_hv enc a ha (.mk (commonPrefix n.key (litRun route)) none [] none none
      [n.withKey (n.key.drop (commonPrefix n.key (litRun route)).length)] none)
    simpa [hvN, hvL, hvT] using this
  · simp [Except.map, hvN, hvL, hvT, chainLit_hv enc a ha]
  · simp [Except.map, hvN, hvL, hvT, chainTok_hv enc a ha]

theorem Except.map_map' {ε α β γ} (f : α → β) (g : β → γ) (x : Except ε α) :
    (x.map f).map g = x.map (g ∘ f) := by cases x <;> rfl

mutual
theorem insN_hv (a : SetArgs) (ha : a.data = none) (n : Node) (p : List Sym) :
    insN (hvA enc a) (hvN enc n) p = (insN a n p).map (hvN enc) := by
  match n, p with
  | n, [] => simp only [insN]; exact setHere_hv enc a ha n
  | .mk k d pk f h lits tok, .lit c :: r =>
    simp only [insN, hvN]
    rw [insL_hv a ha lits c r]
    cases insL a lits c r with
    | error e => rfl
    | ok o =>
      cases o with
      | none => simp [Except.map, hvN, hvL, chainLit_hv enc a ha]
      | some l => simp [Except.map, hvN]
  | .mk k d pk f h lits tok, .tok g :: r =>
    simp only [insN, hvN]
    rw [insT_hv a ha tok g r]
    cases insT a tok g r with
    | error e => rfl
    | ok t => simp [Except.map, hvN, hvT]
theorem insT_hv (a : SetArgs) (ha : a.data = none) (t : Option Node) (g : Option Fid) (r : List Sym) :
    insT (hvA enc a) (hvT enc t) g r = (insT a t g r).map (hvN enc) := by
  match t with
  | none => simp [insT, hvT, Except.map, chainTok_hv enc a ha]
  | some t =>
    simp only [insT, hvT, hvN_filter]
    split
    · rfl
    · exact insN_hv a ha t r
theorem insL_hv (a : SetArgs) (ha : a.data = none) (ks : List Node) (c : Char) (r : List Sym) :
    insL (hvA enc a) (hvL enc ks) c r = (insL a ks c r).map (Option.map (hvL enc)) := by
  match ks with
  | [] => simp [insL, hvL, Except.map]
  | k :: ks =>
    simp only [insL, hvL, hvN_key]
    split
    · cases hs : stripKey k.key (.lit c :: r) with
      | none =>
        simp only [Option.elim]
        rw [splitIns_hv enc a ha k]
        cases splitIns a k (.lit c :: r) <;> simp [Except.map, hvL]
      | some rest =>
        simp only [Option.elim]
        rw [insN_hv a ha k rest]
        cases insN a k rest <;> simp [Except.map, hvL]
    · rw [insL_hv a ha ks c r]
      cases insL a ks c r with
      | error e => rfl
      | ok o => cases o <;> simp [Except.map, hvL]
end

end HookView

/-- **`RadiDict.add_hooks` adds exactly the pair.**  Well-formedness is kept, the routes the
tree holds do not change, and the hook pairs are the old ones with the pair at `pat` added /
replaced. -/
theorem insHooks_spec (enc : HookPair → Nat) (a : SetArgs) (ha : a.data = none) (hp : HookPair)
    (hh : a.hooks = some hp) (t t' : Node) (p : List Sym) (h : WFN t) (hi : insN a t p = .ok t') :
    WFN t' ∧ (∀ e, e ∈ denN t' ↔ e ∈ denN t) ∧
      (∀ e, e ∈ hdenN enc t' ↔ e = ⟨p, enc hp, []⟩ ∨ (e ∈ hdenN enc t ∧ e.pat ≠ p)) := by
  obtain ⟨hw, _, _, hd⟩ := insN_spec a t h p t' hi
  refine ⟨hw, ?_, ?_⟩
  · intro e
    have := hd e
    simpa [newRule, ha] using this
  · have hi' : insN (hvA enc a) (hvN enc t) p = .ok (hvN enc t') := by
      rw [insN_hv enc a ha t p, hi]; rfl
    obtain ⟨_, _, _, hd'⟩ := insN_spec (hvA enc a) (hvN enc t) ((WFN_hvN enc t).mpr h) p _ hi'
    intro e
    have := hd' e
    rw [denN_hvN, denN_hvN] at this
    simpa [newRule, hvA, hh] using this

/-! ### updating a hook pair in place -/

/-- old and new hook pairs around `node[HOOKS][type] = hook` at the node `p` leads to -/
def UpdH (x : Nat) (p : List Sym) (old new : List Rule) : Prop :=
  (∀ e, e ∈ new → (e ∈ old ∧ shape e.pat ≠ shape p) ∨ (shape e.pat = shape p ∧ e.data = x ∧ e.keys = [])) ∧
  (∀ e, e ∈ old → shape e.pat ≠ shape p → e ∈ new) ∧
  (∃ e, e ∈ new ∧ shape e.pat = shape p ∧ e.data = x ∧ e.keys = [])

theorem UpdH.under {x : Nat} {p : List Sym} {old new : List Rule} (h : UpdH x p old new) (pre : List Sym) :
    UpdH x (pre ++ p) (old.map (Rule.under pre)) (new.map (Rule.under pre)) := by
  obtain ⟨h1, h2, e0, he0, hs0, hd0, hk0⟩ := h
  refine ⟨?_, ?_, e0.under pre, List.mem_map.mpr ⟨e0, he0, rfl⟩, by simp [hs0], hd0, hk0⟩
  · intro e he
    obtain ⟨y, hy, rfl⟩ := List.mem_map.mp he
    rcases h1 y hy with ⟨ho, hne⟩ | ⟨hs, hd, hk⟩
    · exact Or.inl ⟨List.mem_map.mpr ⟨y, ho, rfl⟩, by simpa using hne⟩
    · exact Or.inr ⟨by simp [hs], hd, hk⟩
  · intro e he hne
    obtain ⟨y, hy, rfl⟩ := List.mem_map.mp he
    exact List.mem_map.mpr ⟨y, h2 y hy (by simpa using hne), rfl⟩

theorem UpdH.frame {x : Nat} {p : List Sym} {old new : List Rule} (h : UpdH x p old new)
    (l1 l2 : List Rule) (h1 : ∀ e ∈ l1, shape e.pat ≠ shape p) (h2 : ∀ e ∈ l2, shape e.pat ≠ shape p) :
    UpdH x p (l1 ++ old ++ l2) (l1 ++ new ++ l2) := by
  obtain ⟨ha, hb, e0, he0, hx⟩ := h
  refine ⟨?_, ?_, e0, by simp [he0], hx⟩
  · intro e he
    simp only [List.mem_append] at he ⊢
    rcases he with (he | he) | he
    · exact Or.inl ⟨Or.inl (Or.inl he), h1 e he⟩
    · rcases ha e he with ⟨ho, hne⟩ | hr
      · exact Or.inl ⟨Or.inl (Or.inr ho), hne⟩
      · exact Or.inr hr
    · exact Or.inl ⟨Or.inr he, h2 e he⟩
  · intro e he hne
    simp only [List.mem_append] at he ⊢
    rcases he with (he | he) | he
    · exact Or.inl (Or.inl he)
    · exact Or.inl (Or.inr (hb e he hne))
    · exact Or.inr he

theorem shape_cons_ne_nil (s : Sym) (q : List Sym) : shape (s :: q) ≠ shape [] := by simp

mutual
theorem updN_spec (enc : HookPair → Nat) (hp : HookPair) (n : Node) (h : WFN n) (p : List Sym) (n' : Node)
    (hu : updN (Node.setHooks hp) n p = some n') :
    WFN n' ∧ n'.key = n.key ∧ n'.filter = n.filter ∧ denN n' = denN n ∧
      UpdH (enc hp) p (hdenN enc n) (hdenN enc n') := by
  match n, p with
  | .mk k d pk f hk lits tok, [] =>
    simp only [updN, Option.some.injEq] at hu
    subst hu
    unfold WFN at h
    refine ⟨by simp only [Node.setHooks]; unfold WFN; exact h, rfl, rfl, by simp [Node.setHooks, denN], ?_⟩
    have hrest : ∀ e, e ∈ gL (ownH enc) lits ++ gT (ownH enc) tok → shape e.pat ≠ shape [] := by
      intro e he
      rcases List.mem_append.mp he with he | he
      · obtain ⟨_, _, c, q, _, hq⟩ := mem_gL_shape (ownH_ok enc) h.1 he; rw [hq]; simp
      · obtain ⟨g, q, hq⟩ := mem_gT_shape he; rw [hq]; simp
    simp only [hdenN, Node.setHooks, gN, List.append_assoc]
    refine ⟨?_, ?_, ⟨[], enc hp, []⟩, by simp [ownH], rfl, rfl, rfl⟩
    · intro e he
      rcases List.mem_append.mp he with he | he
      · simp only [ownH, List.mem_singleton] at he
        subst he; exact Or.inr ⟨rfl, rfl, rfl⟩
      · exact Or.inl ⟨List.mem_append_right _ he, hrest e he⟩
    · intro e he hne
      rcases List.mem_append.mp he with he | he
      · rw [(ownH_ok enc).pat_nil d pk hk e he] at hne; exact absurd rfl hne
      · exact List.mem_append_right _ he
  | .mk k d pk f hk lits tok, .lit c :: r =>
    simp only [updN] at hu
    unfold WFN at h
    obtain ⟨hl, ht⟩ := h
    cases hL : updL (Node.setHooks hp) lits c r with
    | none => rw [hL] at hu; simp at hu
    | some l' =>
      rw [hL] at hu
      simp only [Option.map_some, Option.some.injEq] at hu
      subst hu
      obtain ⟨hwl, hden, hupd, _⟩ := updL_spec enc hp lits hl c r l' hL
      refine ⟨by unfold WFN; exact ⟨hwl, ht⟩, rfl, rfl, by simp only [denN, hden], ?_⟩
      simp only [hdenN, gN]
      exact hupd.frame _ _
        (fun e he => by rw [(ownH_ok enc).pat_nil d pk hk e he]; exact (shape_cons_ne_nil _ _).symm)
        (fun e he => by obtain ⟨g, q, hq⟩ := mem_gT_shape he; rw [hq]; simp [shapeSym])
  | .mk k d pk f hk lits tok, .tok g :: r =>
    simp only [updN] at hu
    unfold WFN at h
    obtain ⟨hl, ht⟩ := h
    cases hT : updT (Node.setHooks hp) tok r with
    | none => rw [hT] at hu; simp at hu
    | some t' =>
      rw [hT] at hu
      simp only [Option.map_some, Option.some.injEq] at hu
      subst hu
      obtain ⟨hwt, hden, hupd⟩ := updT_spec enc hp tok ht g r t' hT
      refine ⟨by unfold WFN; exact ⟨hl, hwt⟩, rfl, rfl, by simp only [denN, hden], ?_⟩
      simp only [hdenN, gN]
      have := hupd.frame (ownH enc d pk hk ++ gL (ownH enc) lits) [] (by
        intro e he
        rcases List.mem_append.mp he with he | he
        · rw [(ownH_ok enc).pat_nil d pk hk e he]; exact (shape_cons_ne_nil _ _).symm
        · obtain ⟨_, _, c, q, _, hq⟩ := mem_gL_shape (ownH_ok enc) hl he
          rw [hq]; simp [shapeSym]) (by simp)
      simpa using this
theorem updT_spec (enc : HookPair → Nat) (hp : HookPair) (t : Option Node) (h : WFT t) (g : Option Fid)
    (r : List Sym) (t' : Option Node) (hu : updT (Node.setHooks hp) t r = some t') :
    WFT t' ∧ denT t' = denT t ∧ UpdH (enc hp) (.tok g :: r) (gT (ownH enc) t) (gT (ownH enc) t') := by
  match t with
  | none => simp [updT] at hu
  | some t0 =>
    simp only [updT] at hu
    unfold WFT at h
    cases hN : updN (Node.setHooks hp) t0 r with
    | none => rw [hN] at hu; simp at hu
    | some t1 =>
      rw [hN] at hu
      simp only [Option.map_some, Option.some.injEq] at hu
      subst hu
      obtain ⟨hw, _, hfl, hden, hupd⟩ := updN_spec enc hp t0 h r t1 hN
      refine ⟨by unfold WFT; exact hw, by simp only [denT, hden, hfl], ?_⟩
      simp only [gT, hfl]
      have hu' := hupd.under [Sym.tok t0.filter]
      simp only [hdenN] at hu'
      obtain ⟨h1, h2, e0, he0, hs0, hx0⟩ := hu'
      refine ⟨?_, ?_, e0, he0, ?_, hx0⟩
      · intro e he
        obtain ⟨y, _, rfl⟩ := List.mem_map.mp he
        rcases h1 _ he with ⟨ho, hne⟩ | ⟨hs, hx⟩
        · exact Or.inl ⟨ho, by simpa [shapeSym] using hne⟩
        · exact Or.inr ⟨by simpa [shapeSym] using hs, hx⟩
      · intro e he hne
        obtain ⟨y, _, rfl⟩ := List.mem_map.mp he
        exact h2 _ he (by simpa [shapeSym] using hne)
      · obtain ⟨y, _, rfl⟩ := List.mem_map.mp he0
        simpa [shapeSym] using hs0
theorem updL_spec (enc : HookPair → Nat) (hp : HookPair) (ks : List Node) (h : WFL ks) (c : Char)
    (r : List Sym) (ks' : List Node) (hu : updL (Node.setHooks hp) ks c r = some ks') :
    WFL ks' ∧ denL ks' = denL ks ∧ UpdH (enc hp) (.lit c :: r) (gL (ownH enc) ks) (gL (ownH enc) ks') ∧
      ks'.map (fun k => k.key) = ks.map (fun k => k.key) := by
  match ks with
  | [] => simp [updL] at hu
  | k :: ks =>
    have h' := h
    unfold WFL at h'
    obtain ⟨hne, hk, hks, hdist⟩ := h'
    simp only [updL] at hu
    by_cases hcc : k.key.head? = some c
    · have hc' : (k.key.head? == some c) = true := by simp [hcc]
      simp only [hc', if_true] at hu
      cases hs : stripKey k.key (.lit c :: r) with
      | none => rw [hs] at hu; simp at hu
      | some rest =>
        rw [hs] at hu
        simp only [Option.elim] at hu
        cases hN : updN (Node.setHooks hp) k rest with
        | none => rw [hN] at hu; simp at hu
        | some k1 =>
          rw [hN] at hu
          simp only [Option.map_some, Option.some.injEq] at hu
          subst hu
          obtain ⟨hw, hkey, _, hden, hupd⟩ := updN_spec enc hp k hk rest k1 hN
          refine ⟨?_, by simp only [denL, hden, hkey], ?_, by simp [hkey]⟩
          · unfold WFL; exact ⟨by rw [hkey]; exact hne, hw, hks, by rw [hkey]; exact hdist⟩
          · simp only [gL, hkey]
            have := (hupd.under (litSyms k.key)).frame [] (gL (ownH enc) ks) (by simp) (by
              intro e he
              obtain ⟨k2, hk2, c2, q, hc2, hq⟩ := mem_gL_shape (ownH_ok enc) hks he
              rw [hq, ← stripKey_some hs]
              simp only [shape_cons, shapeSym, ne_eq, List.cons.injEq, Sym.lit.injEq, not_and]
              intro hEq
              exact absurd (by rw [hc2, hcc, hEq]) (hdist k2 hk2))
            rw [← stripKey_some hs] at this
            simpa [hdenN] using this
    · have hc' : (k.key.head? == some c) = false := by simpa using hcc
      simp only [hc', Bool.false_eq_true, if_false] at hu
      cases hX : updL (Node.setHooks hp) ks c r with
      | none => rw [hX] at hu; simp at hu
      | some ks1 =>
        rw [hX] at hu
        simp only [Option.map_some, Option.some.injEq] at hu
        subst hu
        obtain ⟨hw1, hden, hupd, hkeys⟩ := updL_spec enc hp ks hks c r ks1 hX
        refine ⟨?_, by simp only [denL, hden], ?_, by simp [hkeys]⟩
        · unfold WFL
          refine ⟨hne, hk, hw1, ?_⟩
          intro k' hk'
          have hmem : k'.key ∈ ks1.map (fun k => k.key) := List.mem_map.mpr ⟨k', hk', rfl⟩
          rw [hkeys] at hmem
          obtain ⟨k0, hk0, hEq⟩ := List.mem_map.mp hmem
          rw [← hEq]; exact hdist k0 hk0
        · simp only [gL]
          have := hupd.frame ((gN (ownH enc) k).map (Rule.under (litSyms k.key))) [] (by
            intro e he
            obtain ⟨y, _, rfl⟩ := List.mem_map.mp he
            cases hkk : k.key with
            | nil => exact absurd hkk hne
            | cons c2 cs =>
              simp only [Rule.under_pat, litSyms, List.map_cons, List.cons_append, shape_cons, shapeSym,
                ne_eq, List.cons.injEq, Sym.lit.injEq, not_and]
              intro hEq
              exact absurd (by rw [hkk, hEq]; rfl) hcc) (by simp)
          simpa using this
end

/-! ### any successful `_set` seen through the hook view -/

section HookViewOk
variable (enc : HookPair → Nat)

theorem setHere_hv_ok (a : SetArgs) (n n' : Node) (h : setHere a n = .ok n') :
    setHere (hvA enc a) (hvN enc n) = .ok (hvN enc n') := by
  obtain ⟨ad, ah, an, ao⟩ := a
  match n with
  | .mk k d p f hk lits tok =>
    simp only [setHere, hvN, hvA] at h ⊢
    split at h
    · cases h
    · split at h
      · cases h
      · rename_i h1 h2
        simp only [Except.ok.injEq] at h
        subst h
        cases ah <;> cases hk <;> cases ao <;> simp_all [hvN]

mutual
theorem chainLit_hv' (a : SetArgs) (key : Str) (r : List Sym) :
    chainLit (hvA enc a) key r = hvN enc (chainLit a key r) := by
  match r with
  | [] => simp [chainLit, hvN, hvA, hvL, hvT]
  | .lit c :: r => simp only [chainLit]; exact chainLit_hv' a (key ++ [c]) r
  | .tok g :: r => simp only [chainLit, hvN, hvL, hvT, chainTok_hv' a g r, Option.map_none]
theorem chainTok_hv' (a : SetArgs) (g : Option Fid) (r : List Sym) :
    chainTok (hvA enc a) g r = hvN enc (chainTok a g r) := by
  match r with
  | [] => simp [chainTok, hvN, hvA, hvL, hvT]
  | .lit c :: r => simp only [chainTok, hvN, hvL, hvT, chainLit_hv' a [c] r, Option.map_none]
  | .tok g' :: r => simp only [chainTok, hvN, hvL, hvT, chainTok_hv' a g' r, Option.map_none]
end

theorem splitIns_hv_ok (a : SetArgs) (n n' : Node) (route : List Sym) (h : splitIns a n route = .ok n') :
    splitIns (hvA enc a) (hvN enc n) route = .ok (hvN enc n') := by
  unfold splitIns at h ⊢
  simp only [hvN_key, ← hvN_withKey]
  dsimp only at h
  cases hd : List.drop (commonPrefix n.key (litRun route)).length route with
  | nil =>
    rw [hd] at h
    have := setHere_hv_ok enc a _ n' h
    simpa [hvN, hvL, hvT] using this
  | cons sy r =>
    rw [hd] at h
    cases sy with
    | lit c =>
      simp only [Except.ok.injEq] at h
      subst h
      simp [hvN, hvL, hvT, chainLit_hv' enc a]
    | tok g =>
      simp only [Except.ok.injEq] at h
      subst h
      simp [hvN, hvL, hvT, chainTok_hv' enc a]

mutual
theorem insN_hv_ok (a : SetArgs) (n : Node) (p : List Sym) (n' : Node) (h : insN a n p = .ok n') :
    insN (hvA enc a) (hvN enc n) p = .ok (hvN enc n') := by
  match n, p with
  | n, [] => simp only [insN] at h ⊢; exact setHere_hv_ok enc a n n' h
  | .mk k d pk f hk lits tok, .lit c :: r =>
    simp only [insN, hvN] at h ⊢
    cases hL : insL a lits c r with
    | error e => rw [hL] at h; simp [Except.map] at h
    | ok o =>
      rw [hL] at h
      simp only [Except.map, Except.ok.injEq] at h
      subst h
      rw [insL_hv_ok a lits c r o hL]
      cases o with
      | none => simp [Except.map, hvN, hvL, chainLit_hv' enc a]
      | some l => simp [Except.map, hvN]
  | .mk k d pk f hk lits tok, .tok g :: r =>
    simp only [insN, hvN] at h ⊢
    cases hT : insT a tok g r with
    | error e => rw [hT] at h; simp [Except.map] at h
    | ok t =>
      rw [hT] at h
      simp only [Except.map, Except.ok.injEq] at h
      subst h
      rw [insT_hv_ok a tok g r t hT]
      simp [Except.map, hvN, hvT]
theorem insT_hv_ok (a : SetArgs) (t : Option Node) (g : Option Fid) (r : List Sym) (t' : Node)
    (h : insT a t g r = .ok t') : insT (hvA enc a) (hvT enc t) g r = .ok (hvN enc t') := by
  match t with
  | none =>
    simp only [insT, Except.ok.injEq] at h
    subst h
    simp [insT, hvT, chainTok_hv' enc a]
  | some t =>
    simp only [insT, hvT, hvN_filter] at h ⊢
    split
    · rename_i hf; simp [hf] at h
    · rename_i hf
      simp only [hf, Bool.false_eq_true, if_false] at h
      exact insN_hv_ok a t r t' h
theorem insL_hv_ok (a : SetArgs) (ks : List Node) (c : Char) (r : List Sym) (o : Option (List Node))
    (h : insL a ks c r = .ok o) : insL (hvA enc a) (hvL enc ks) c r = .ok (o.map (hvL enc)) := by
  match ks with
  | [] =>
    simp only [insL, Except.ok.injEq] at h
    subst h
    simp [insL, hvL]
  | k :: ks =>
    simp only [insL, hvL, hvN_key] at h ⊢
    split
    · rename_i hc
      simp only [hc, if_true] at h
      cases hs : stripKey k.key (.lit c :: r) with
      | none =>
        rw [hs] at h
        simp only [Option.elim] at h ⊢
        cases hX : splitIns a k (.lit c :: r) with
        | error e => rw [hX] at h; simp [Except.map] at h
        | ok k' =>
          rw [hX] at h
          simp only [Except.map, Except.ok.injEq] at h
          subst h
          rw [splitIns_hv_ok enc a k k' _ hX]
          simp [Except.map, hvL]
      | some rest =>
        rw [hs] at h
        simp only [Option.elim] at h ⊢
        cases hX : insN a k rest with
        | error e => rw [hX] at h; simp [Except.map] at h
        | ok k' =>
          rw [hX] at h
          simp only [Except.map, Except.ok.injEq] at h
          subst h
          rw [insN_hv_ok a k rest k' hX]
          simp [Except.map, hvL]
    · rename_i hc
      simp only [hc, Bool.false_eq_true, if_false] at h
      cases hX : insL a ks c r with
      | error e => rw [hX] at h; simp [Except.map] at h
      | ok o0 =>
        rw [hX] at h
        simp only [Except.map, Except.ok.injEq] at h
        subst h
        rw [insL_hv_ok a ks c r o0 hX]
        cases o0 <;> simp [Except.map, hvL]
end

end HookViewOk

/-- `RadiDict.add` (data only) leaves the hook pairs of the tree as they are -/
theorem treeAdd_hooks (enc : HookPair → Nat) (t t' : Node) (pat : List Sym) (d : Nat) (names : List Str)
    (ow : Bool) (h : WFN t) (hi : treeAdd t pat d names ow = .ok t') :
    ∀ e, e ∈ hdenN enc t' ↔ e ∈ hdenN enc t := by
  unfold treeAdd at hi
  have hi' := insN_hv_ok enc _ t pat t' hi
  obtain ⟨_, _, _, hd'⟩ := insN_spec _ (hvN enc t) ((WFN_hvN enc t).mpr h) pat _ hi'
  intro e
  have := hd' e
  rw [denN_hvN, denN_hvN] at this
  simpa [newRule, hvA] using this

/-! ### the filter-blind walk finds the hook pair the tree holds at a pattern -/

/-- `RadiRouter._match(route_pattern=…, get_hooks=True)` -/
def hookAtShape (n : Node) (p : List Sym) : Option HookPair :=
  match findN false n p with
  | .ok m => m.hooks
  | .error _ => none

mutual
theorem findN_hooks (enc : HookPair → Nat) (n : Node) (h : WFN n) (p : List Sym) :
    (∀ e ∈ hdenN enc n, shape e.pat = shape p → ∃ hp, hookAtShape n p = some hp ∧ e.data = enc hp) ∧
    (∀ hp, hookAtShape n p = some hp → ∃ e ∈ hdenN enc n, shape e.pat = shape p ∧ e.data = enc hp ∧ e.keys = []) := by
  match n, p with
  | .mk k d pk f hk lits tok, [] =>
    unfold WFN at h
    simp only [hookAtShape, findN, Node.hooks, hdenN, gN]
    constructor
    · intro e he hs
      rcases List.mem_append.mp he with he | he
      · rcases List.mem_append.mp he with he | he
        · cases hk with
          | none => simp [ownH] at he
          | some hp => simp only [ownH, List.mem_singleton] at he; subst he; exact ⟨hp, rfl, rfl⟩
        · obtain ⟨_, _, c, q, _, hq⟩ := mem_gL_shape (ownH_ok enc) h.1 he; rw [hq] at hs; simp at hs
      · obtain ⟨g, q, hq⟩ := mem_gT_shape he; rw [hq] at hs; simp at hs
    · intro hp hh
      subst hh
      exact ⟨⟨[], enc hp, []⟩, by simp [ownH], rfl, rfl, rfl⟩
  | .mk k d pk f hk lits tok, .lit c :: r =>
    unfold WFN at h
    obtain ⟨h1, h2⟩ := findL_hooks enc lits h.1 c r
    simp only [hookAtShape, findN, hdenN, gN] at h1 h2 ⊢
    constructor
    · intro e he hs
      rcases List.mem_append.mp he with he | he
      · rcases List.mem_append.mp he with he | he
        · rw [(ownH_ok enc).pat_nil d pk hk e he] at hs; simp at hs
        · exact h1 e he hs
      · obtain ⟨g, q, hq⟩ := mem_gT_shape he; rw [hq] at hs; simp [shapeSym] at hs
    · intro hp hh
      obtain ⟨e, he, hx⟩ := h2 hp hh
      exact ⟨e, by simp [he], hx⟩
  | .mk k d pk f hk lits tok, .tok g :: r =>
    unfold WFN at h
    obtain ⟨h1, h2⟩ := findT_hooks enc tok h.2 g r
    simp only [hookAtShape, findN, hdenN, gN] at h1 h2 ⊢
    constructor
    · intro e he hs
      rcases List.mem_append.mp he with he | he
      · rcases List.mem_append.mp he with he | he
        · rw [(ownH_ok enc).pat_nil d pk hk e he] at hs; simp at hs
        · obtain ⟨_, _, c, q, _, hq⟩ := mem_gL_shape (ownH_ok enc) h.1 he
          rw [hq] at hs; simp [shapeSym] at hs
      · exact h1 e he hs
    · intro hp hh
      obtain ⟨e, he, hx⟩ := h2 hp hh
      exact ⟨e, by simp [he], hx⟩
theorem findT_hooks (enc : HookPair → Nat) (t : Option Node) (h : WFT t) (g : Option Fid) (r : List Sym) :
    (∀ e ∈ gT (ownH enc) t, shape e.pat = shape (.tok g :: r) →
      ∃ hp, (match findT false t g r with | .ok m => m.hooks | .error _ => none) = some hp ∧ e.data = enc hp) ∧
    (∀ hp, (match findT false t g r with | .ok m => m.hooks | .error _ => none) = some hp →
      ∃ e ∈ gT (ownH enc) t, shape e.pat = shape (.tok g :: r) ∧ e.data = enc hp ∧ e.keys = []) := by
  match t with
  | none => simp [gT, findT]
  | some t0 =>
    unfold WFT at h
    obtain ⟨h1, h2⟩ := findN_hooks enc t0 h r
    simp only [hookAtShape, hdenN] at h1 h2
    simp only [gT, findT, Bool.false_and, Bool.false_eq_true, if_false]
    constructor
    · intro e he hs
      obtain ⟨y, hy, rfl⟩ := List.mem_map.mp he
      exact h1 y hy (by simpa [shapeSym] using hs)
    · intro hp hh
      obtain ⟨e, he, hs, hx⟩ := h2 hp hh
      exact ⟨e.under [Sym.tok t0.filter], List.mem_map.mpr ⟨e, he, rfl⟩, by simp [shapeSym, hs], hx⟩
theorem findL_hooks (enc : HookPair → Nat) (ks : List Node) (h : WFL ks) (c : Char) (r : List Sym) :
    (∀ e ∈ gL (ownH enc) ks, shape e.pat = shape (.lit c :: r) →
      ∃ hp, (match findL false ks c r with | .ok m => m.hooks | .error _ => none) = some hp ∧ e.data = enc hp) ∧
    (∀ hp, (match findL false ks c r with | .ok m => m.hooks | .error _ => none) = some hp →
      ∃ e ∈ gL (ownH enc) ks, shape e.pat = shape (.lit c :: r) ∧ e.data = enc hp ∧ e.keys = []) := by
  match ks with
  | [] => simp [gL, findL]
  | k :: ks =>
    unfold WFL at h
    obtain ⟨hne, hk, hks, hdist⟩ := h
    simp only [gL, findL]
    by_cases hcc : k.key.head? = some c
    · have hc' : (k.key.head? == some c) = true := by simp [hcc]
      simp only [hc', if_true]
      have hsib : ∀ e ∈ gL (ownH enc) ks, shape e.pat ≠ shape (.lit c :: r) := by
        intro e he
        obtain ⟨k2, hk2, c2, q, hc2, hq⟩ := mem_gL_shape (ownH_ok enc) hks he
        rw [hq]
        simp only [shape_cons, shapeSym, ne_eq, List.cons.injEq, Sym.lit.injEq, not_and]
        intro hEq
        exact absurd (by rw [hc2, hcc, hEq]) (hdist k2 hk2)
      cases hs : stripKey k.key (.lit c :: r) with
      | none =>
        simp only [Option.elim]
        constructor
        · intro e he hsh
          rcases List.mem_append.mp he with he | he
          · obtain ⟨y, _, rfl⟩ := List.mem_map.mp he
            simp only [Rule.under_pat, shape_append, shape_litSyms] at hsh
            exact absurd hsh (stripKey_none_ne hs _)
          · exact absurd hsh (hsib e he)
        · intro hp hh; cases hh
      | some rest =>
        simp only [Option.elim]
        obtain ⟨h1, h2⟩ := findN_hooks enc k hk rest
        simp only [hookAtShape, hdenN] at h1 h2
        constructor
        · intro e he hsh
          rcases List.mem_append.mp he with he | he
          · obtain ⟨y, hy, rfl⟩ := List.mem_map.mp he
            refine h1 y hy ?_
            rw [stripKey_some hs] at hsh
            simpa using hsh
          · exact absurd hsh (hsib e he)
        · intro hp hh
          obtain ⟨e, he, hsx, hx⟩ := h2 hp hh
          refine ⟨e.under (litSyms k.key), by simp only [List.mem_append, List.mem_map]; exact Or.inl ⟨e, he, rfl⟩, ?_, hx⟩
          rw [stripKey_some hs]; simp [hsx]
    · have hc' : (k.key.head? == some c) = false := by simpa using hcc
      simp only [hc', Bool.false_eq_true, if_false]
      obtain ⟨h1, h2⟩ := findL_hooks enc ks hks c r
      constructor
      · intro e he hsh
        rcases List.mem_append.mp he with he | he
        · obtain ⟨y, _, rfl⟩ := List.mem_map.mp he
          cases hkk : k.key with
          | nil => exact absurd hkk hne
          | cons c2 cs =>
            rw [hkk] at hsh
            simp only [Rule.under_pat, litSyms, List.map_cons, List.cons_append, shape_cons, shapeSym,
              List.cons.injEq, Sym.lit.injEq] at hsh
            exact absurd (by rw [hkk, hsh.1]; rfl) hcc
        · exact h1 e he hsh
      · intro hp hh
        obtain ⟨e, he, hx⟩ := h2 hp hh
        exact ⟨e, List.mem_append_right _ he, hx⟩
end

end Ombott.Router
