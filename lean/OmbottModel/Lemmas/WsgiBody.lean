import OmbottModel.Lemmas.WsgiInv
/-! Conjuncts (c) and (d): the returned iterable is made of `bytes`; a Content-Length the
framework sets equals the bytes returned. -/
namespace Ombott.Wsgi
open Py

theorem restBytes_chunks (r : List Item)
    (h : r.all (fun i => match i with | .bytes _ => true | _ => false) = true) :
    (restBytes r).all BodyItem.isChunk = true := by
  induction r with
  | nil => rfl
  | cons i is ih =>
    simp only [List.all_cons, Bool.and_eq_true] at h
    obtain ⟨h1, h2⟩ := h
    cases i <;> simp only [Bool.false_eq_true] at h1
    simp only [restBytes, List.all_cons, BodyItem.isChunk, Bool.true_and]
    exact ih h2

theorem restText_chunks (r : List Item)
    (h : r.all (fun i => match i with | .text _ => true | _ => false) = true) :
    (restText r).all BodyItem.isChunk = true := by
  induction r with
  | nil => rfl
  | cons i is ih =>
    simp only [List.all_cons, Bool.and_eq_true] at h
    obtain ⟨h1, h2⟩ := h
    cases i <;> simp only [Bool.false_eq_true] at h1
    simp only [restText, List.all_cons, BodyItem.isChunk, Bool.true_and]
    exact ih h2

/-- invariant of the loop for conjunct (c) -/
def ChunkInv : Cfg → Prop
  | .run _ _ o => Out.all homog o = true
  | .done _ (.body items _ _) => items.all BodyItem.isChunk = true
  | .done _ _ => True

theorem castIter_chunk (cnt : Nat) (s : Slots) (id : Nat) (hc : Bool) (items : List Item)
    (hh : homogItems (skipEmpty items) = true) (hi : Item.allL homog items = true) :
    ChunkInv (castIter cnt s id hc items) := by
  generalize hci : castIter cnt s id hc items = c
  cases c with
  | run cnt' s' o' => exact (castIter_out_all homog internal_homog cnt s id hc items hi cnt' s' o' hci).2
  | done s' r =>
    unfold castIter at hci
    simp only at hci
    split at hci <;> try (cases hci; done)
    · rename_i b rest heq
      cases hci
      rw [heq] at hh
      simp only [ChunkInv, List.all_cons, BodyItem.isChunk, Bool.true_and]
      exact restBytes_chunks rest hh
    · rename_i t rest heq
      cases hci
      rw [heq] at hh
      simp only [ChunkInv, List.all_cons, BodyItem.isChunk, Bool.true_and]
      exact restText_chunks rest hh

theorem fileChunks_chunks (c : Bytes) : (fileChunks c).all BodyItem.isChunk = true := by
  unfold fileChunks; split <;> rfl

theorem castOut_chunk (app : App) (hall : app.all homog = true) (fw : Bool) (cnt : Nat) (s : Slots)
    (out : Out) (ho : Out.all homog out = true) : ChunkInv (castOut app fw cnt s out) := by
  unfold castOut
  split
  · unfold finishEmpty; rfl
  · split
    · unfold finishEmpty; rfl
    · unfold finishBytes; rfl
  · split
    · unfold finishEmpty; rfl
    · unfold finishBytes; rfl
  · simp only
    split
    · split
      · trivial
      · rename_i s'' o hd
        rcases defaultHandler_cases _ _ _ _ _ hd with ⟨_, rfl⟩ | ⟨j, _, rfl⟩ <;> rfl
    · rename_i o heh; exact errHandler_all homog app hall _ _ heh
    · exact Out.all_body homog _ _ _ ho
    · trivial
  · exact Out.all_body homog _ _ _ ho
  · split
    · exact fileChunks_chunks _
    · split
      · exact fileChunks_chunks _
      · apply castIter_chunk
        · split <;> simp [skipEmpty, homogItems]
          rename_i hne
          cases hcon : ‹Bytes› with
          | nil => simp [hcon] at hne
          | cons x xs => simp [skipEmpty, homogItems]
        · split <;> rfl
  · rename_i id hc items
    exact castIter_chunk cnt s id hc items (Out.all_self homog _ ho) (Out.all_items homog _ _ _ ho)
  · rfl

theorem step_chunk (app : App) (hall : app.all homog = true) (fw : Bool) (c : Cfg) (h : ChunkInv c) :
    ChunkInv (step app fw c) := by
  cases c with
  | done s r => exact h
  | run cnt s out =>
    unfold step
    simp only
    split
    · split
      · trivial
      · rename_i s'' o hd
        apply castOut_chunk app hall fw
        rcases defaultHandler_cases _ _ _ _ _ hd with ⟨_, rfl⟩ | ⟨j, _, rfl⟩ <;> rfl
    · exact castOut_chunk app hall fw _ s out h

/-- `_cast` returns an iterable of `bytes` for every program of the domain -/
theorem cast_chunks (app : App) (hall : app.all homog = true) (fw : Bool) (s : Slots) (out : Out)
    (ho : Out.all homog out = true) :
    ∀ items c n, (cast app fw s out).2 = .body items c n → items.all BodyItem.isChunk = true := by
  intro items c n h
  have := runLoop_invariant app fw ChunkInv (step_chunk app hall fw)
    (Gen.wsgiCastMaxLoops + 1) (.run 0 s out) ho
  unfold cast at h
  split at h
  · rename_i heq; rw [heq] at this; simp only at h; subst h; exact this
  · cases h

/-! ### framework Content-Length -/

/-- invariant of the loop for conjunct (d): when the loop ends having inserted the
Content-Length header itself, the value is the number of bytes of the returned list and the
header is the last entry of the response's header dict -/
def ClInv : Cfg → Prop
  | .done s (.body items _ (some n)) =>
      bodyLen items = n ∧
      ∃ pre, s.resp.headers = pre ++ [("Content-Length".toList, [HVal.good (natStr n)])]
  | _ => True

theorem setdefault_inserted (h : Hdrs) (k : Str) (v : HVal) (hi : (h.setdefault k v).2 = true) :
    (h.setdefault k v).1 = h ++ [(k, [v])] := by
  unfold Hdrs.setdefault at *
  split
  · rename_i hk; simp [hk] at hi
  · rfl

theorem finishEmpty_cl (s : Slots) : ClInv (finishEmpty s) := by
  unfold finishEmpty
  simp only
  cases hi : (s.resp.headers.setdefault "Content-Length".toList (HVal.good (natStr 0))).2 with
  | false => simp only [ClInv, Bool.false_eq_true, if_false]
  | true =>
    simp only [ClInv, if_true, bodyLen, true_and, withResp]
    exact ⟨_, setdefault_inserted _ _ _ hi⟩

theorem finishBytes_cl (s : Slots) (b : Bytes) : ClInv (finishBytes s b) := by
  unfold finishBytes
  simp only
  cases hi : (s.resp.headers.setdefault "Content-Length".toList (HVal.good (natStr b.length))).2 with
  | false => simp only [ClInv, Bool.false_eq_true, if_false]
  | true =>
    simp only [ClInv, if_true, bodyLen, Nat.add_zero, true_and, withResp]
    exact ⟨_, setdefault_inserted _ _ _ hi⟩

theorem castIter_cl (cnt : Nat) (s : Slots) (id : Nat) (hc : Bool) (items : List Item) :
    ClInv (castIter cnt s id hc items) := by
  unfold castIter
  simp only
  split <;> trivial

theorem castOut_cl (app : App) (fw : Bool) (cnt : Nat) (s : Slots) (out : Out) :
    ClInv (castOut app fw cnt s out) := by
  unfold castOut
  split
  · exact finishEmpty_cl _
  · split
    · exact finishEmpty_cl _
    · exact finishBytes_cl _ _
  · split
    · exact finishEmpty_cl _
    · exact finishBytes_cl _ _
  · simp only
    split
    · split <;> trivial
    · trivial
    · trivial
    · trivial
  · trivial
  · split
    · trivial
    · split
      · trivial
      · exact castIter_cl _ _ _ _ _
  · exact castIter_cl _ _ _ _ _
  · trivial

theorem step_cl (app : App) (fw : Bool) (c : Cfg) (h : ClInv c) : ClInv (step app fw c) := by
  cases c with
  | done s r => exact h
  | run cnt s out =>
    unfold step
    simp only
    split
    · split
      · trivial
      · exact castOut_cl _ _ _ _ _
    · exact castOut_cl _ _ _ _ _

theorem cast_cl (app : App) (fw : Bool) (s : Slots) (out : Out) :
    ∀ items c n, (cast app fw s out).2 = .body items c (some n) →
      bodyLen items = n ∧
      ∃ pre, (cast app fw s out).1.resp.headers = pre ++ [("Content-Length".toList, [HVal.good (natStr n)])] := by
  intro items c n h
  have := runLoop_invariant app fw ClInv (step_cl app fw) (Gen.wsgiCastMaxLoops + 1) (.run 0 s out) trivial
  unfold cast at h ⊢
  split at h
  · rename_i heq
    rw [heq] at this
    simp only at h
    subst h
    simp only [heq]
    exact this
  · cases h

/-! ### the framework's Content-Length as emitted -/

theorem utf8EncodeChar_ascii (c : Char) (h : c.toNat < 128) :
    String.utf8EncodeChar c = [UInt8.ofNat c.toNat] := by
  unfold String.utf8EncodeChar
  have hval : c.val.toNat = c.toNat := rfl
  simp only [hval]
  have : c.toNat ≤ 127 := by omega
  simp only [this, if_true]

theorem recode_ascii (s : Str) (h : ∀ c ∈ s, c.toNat < 128) : recodeLatin1 s = s := by
  induction s with
  | nil => rfl
  | cons c cs ih =>
    have hc := h c (List.mem_cons_self ..)
    have ih' := ih (fun x hx => h x (List.mem_cons_of_mem _ hx))
    unfold recodeLatin1 latin1Decode utf8 at ih' ⊢
    simp only [List.flatMap_cons, utf8EncodeChar_ascii c hc, List.map_cons, List.singleton_append]
    rw [ih']
    congr 1
    have h1 : (UInt8.ofNat c.toNat).toNat = c.toNat := by
      simp only [UInt8.toNat_ofNat']; omega
    rw [h1]
    exact Char.ofNat_toNat c

theorem natStr_ascii (n : Nat) : ∀ c ∈ natStr n, c.toNat < 128 := by
  intro c hc
  have := isDigit_bounds c (natStr_digits n c hc)
  omega

/-- a header entry with one good value that survives the blacklist is emitted -/
theorem headerlist_mem (st : RState) (hl : List (Str × Str)) (h : headerlist st = some hl)
    (k v : Str) (hm : (k, [HVal.good v]) ∈ st.headers)
    (hkeep : (badHeadersFor st.code).contains (titleAscii k) = false) :
    (k, recodeLatin1 v) ∈ hl := by
  unfold headerlist at h
  split at h
  · cases h
  · simp only [Option.some.injEq] at h
    subst h
    simp only [List.mem_append, List.mem_filterMap]
    left; left
    refine ⟨(k, HVal.good v), ?_, rfl⟩
    unfold flatHeaders
    simp only [List.mem_flatMap, List.mem_map]
    refine ⟨(k, [HVal.good v]), ?_, HVal.good v, by simp, rfl⟩
    unfold keptHeaders
    simp only
    split
    · exact hm
    · refine List.mem_filter.mpr ⟨hm, ?_⟩
      simp only [hkeep, Bool.not_false]


end Ombott.Wsgi
