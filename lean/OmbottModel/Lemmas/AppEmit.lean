import OmbottModel.Lemmas.AppServe
/-!
The header list handed to `start_response` by `App.serve`, for C14: on the normal path it is
`Model/Headers.headerlist` of a response object whose store `_hval` kept clean
(`wsgi_slots_ok` + `headersView_clean`); on the catch-all path it is the literal list.
-/
namespace Ombott.App
open Py Ombott Ombott.Wsgi

/-- the response object after the call is the one `_cast` left -/
theorem wsgi_slots (app : Wsgi.App) (s : Slots) (r : Wsgi.Req) :
    (wsgi app s r).slots = (Wsgi.cast app r.fileWrapper (handle app s r).1 (handle app s r).2.2).1 := by
  unfold wsgi
  rcases hh : handle app s r with ⟨s1, ev1, out⟩
  simp only
  rcases hc : Wsgi.cast app r.fileWrapper s1 out with ⟨s2, cr⟩
  cases cr with
  | body items closer fwCL =>
    simp only
    cases headerlist s2.resp <;> rfl
  | raised => rfl
  | diverged => rfl

/-- inside C03's domain the response object stays well formed through `_handle` and `_cast`:
status line of its code, CR/LF-free names, every stored value accepted by `_hval` -/
theorem wsgi_slots_ok (app : Wsgi.App) (s : Slots) (r : Wsgi.Req)
    (heff : app.effsOK = true) (hall : app.all respOK = true)
    (hreff : r.route.effsOK = true) (hrall : r.route.all respOK = true) :
    (wsgi app s r).slots.resp.ok = true := by
  rw [wsgi_slots]
  have hinv := handle_inv respOK internal_respOK app s r heff hall hreff hrall
  exact cast_resp_ok respOK internal_respOK (fun o h => Out.all_self respOK o h) app hall
    r.fileWrapper (handle app s r).1 (handle app s r).2.2 hinv.1 hinv.2

/-- a `start_response` call with `exc_info` is the last-resort one, with its literal header list -/
theorem wsgi_start_exc (app : Wsgi.App) (s : Slots) (r : Wsgi.Req) (line : Str) (hdrs : List (Str × Str))
    (hmem : Wsgi.Event.startResponse line hdrs true ∈ (wsgi app s r).events) :
    hdrs = Headers.catchAllHeaders ∧ line = "500 INTERNAL SERVER ERROR".toList := by
  have hplain := handle_events_plain app s r
  have hcl : ∀ c : Option Nat, ∀ e ∈ closeEvents c, e.isStart = false := by
    intro c e he; cases c <;> simp [closeEvents] at he; subst he; rfl
  have hcrit : ∀ (pre : List Wsgi.Event), (∀ e ∈ pre, e.isStart = false) →
      Wsgi.Event.startResponse line hdrs true ∈ pre ++ [Wsgi.Event.stderr, critStart] →
      hdrs = Headers.catchAllHeaders ∧ line = "500 INTERNAL SERVER ERROR".toList := by
    intro pre hpre hm
    simp only [List.mem_append, List.mem_cons, List.not_mem_nil, or_false] at hm
    rcases hm with h | h | h
    · have := hpre _ h; simp [Wsgi.Event.isStart] at this
    · cases h
    · simp only [critStart, Wsgi.Event.startResponse.injEq] at h
      obtain ⟨rfl, rfl, _⟩ := h
      exact ⟨rfl, rfl⟩
  unfold wsgi at hmem
  rcases hh : handle app s r with ⟨s1, ev1, out⟩
  rw [hh] at hplain hmem
  simp only at hplain hmem
  rcases hc : Wsgi.cast app r.fileWrapper s1 out with ⟨s2, cr⟩
  rw [hc] at hmem
  cases cr with
  | body items closer fwCL =>
    simp only at hmem
    cases hl : headerlist s2.resp with
    | some l =>
      rw [hl] at hmem
      simp only [List.mem_append, List.mem_cons, List.not_mem_nil, or_false] at hmem
      rcases hmem with (h | h) | h
      · have := (hplain _ h).1; simp [Wsgi.Event.isStart] at this
      · split at h
        · have := hcl _ _ h; simp [Wsgi.Event.isStart] at this
        · cases h
      · simp only [Wsgi.Event.startResponse.injEq] at h
        obtain ⟨_, _, h3⟩ := h
        cases h3
    | none =>
      rw [hl] at hmem
      simp only [catchAll] at hmem
      rw [List.append_assoc] at hmem
      refine hcrit _ ?_ (by rw [List.append_assoc]; exact hmem)
      intro e he
      simp only [List.mem_append] at he
      rcases he with (h | h) | h
      · exact (hplain _ h).1
      · split at h
        · exact hcl _ _ h
        · cases h
      · exact hcl _ _ h
  | raised =>
    simp only [catchAll, closeEvents, List.append_nil] at hmem
    exact hcrit ev1 (fun e he => (hplain e he).1) hmem
  | diverged =>
    simp only [catchAll, closeEvents, List.append_nil] at hmem
    exact hcrit ev1 (fun e he => (hplain e he).1) hmem

end Ombott.App
