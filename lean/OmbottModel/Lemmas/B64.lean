import OmbottModel.Lemmas.Cookies
import OmbottModel.Py.Crypto
/-! The base64 contract of C15 holds for the concrete `Py.Crypto.b64encode/b64decode` the driver
runs: output within the alphabet, decode ∘ encode = id.  (So for the driver's instance the only
thing taken on trust about base64 is that `Py.Crypto` agrees with CPython, which the
correspondence lines `cookie b64/unb64` exercise.) -/
namespace Py.Crypto
open Py Ombott.Cookies

set_option maxRecDepth 100000 in
theorem b64Char_facts : ∀ k, k < 64 →
    (isB64Byte (b64Char k) = true ∧ b64Val (b64Char k) = some k ∧ b64Char k ≠ 61) := by
  decide

theorem b64encode_alphabet (x : Bytes) : ∀ c ∈ b64encode x, isB64Byte c = true := by
  induction x using b64encode.induct with
  | case1 a b c r ih =>
    intro ch hc
    have ha := a.toNat_lt; have hb := b.toNat_lt; have hcc := c.toNat_lt
    simp only [b64encode, List.mem_cons] at hc
    rcases hc with rfl | rfl | rfl | rfl | h
    · exact (b64Char_facts _ (by omega)).1
    · exact (b64Char_facts _ (by omega)).1
    · exact (b64Char_facts _ (by omega)).1
    · exact (b64Char_facts _ (by omega)).1
    · exact ih ch h
  | case2 a b =>
    intro ch hc
    have ha := a.toNat_lt; have hb := b.toNat_lt
    simp only [b64encode, List.mem_cons, List.not_mem_nil, or_false] at hc
    rcases hc with rfl | rfl | rfl | rfl
    · exact (b64Char_facts _ (by omega)).1
    · exact (b64Char_facts _ (by omega)).1
    · exact (b64Char_facts _ (by omega)).1
    · decide
  | case3 a =>
    intro ch hc
    have ha := a.toNat_lt
    simp only [b64encode, List.mem_cons, List.not_mem_nil, or_false] at hc
    rcases hc with rfl | rfl | rfl | rfl
    · exact (b64Char_facts _ (by omega)).1
    · exact (b64Char_facts _ (by omega)).1
    · decide
    · decide
  | case4 => intro ch hc; simp [b64encode] at hc

theorem ofNat_eq (a : UInt8) (n : Nat) (h : n = a.toNat) : UInt8.ofNat n = a := by
  rw [h]; exact UInt8.ofNat_toNat

theorem b64decode_encode (x : Bytes) : b64decode (b64encode x) = some x := by
  induction x using b64encode.induct with
  | case1 a b c r ih =>
    have ha := a.toNat_lt; have hb := b.toNat_lt; have hcc := c.toNat_lt
    simp only [b64encode]
    have f0 := b64Char_facts ((a.toNat * 65536 + b.toNat * 256 + c.toNat) / 262144) (by omega)
    have f1 := b64Char_facts ((a.toNat * 65536 + b.toNat * 256 + c.toNat) / 4096 % 64) (by omega)
    have f2 := b64Char_facts ((a.toNat * 65536 + b.toNat * 256 + c.toNat) / 64 % 64) (by omega)
    have f3 := b64Char_facts ((a.toNat * 65536 + b.toNat * 256 + c.toNat) % 64) (by omega)
    rw [b64decode.eq_4 _ _ _ _ _ (fun h _ _ => f2.2.2 h) (fun h _ => f3.2.2 h)]
    simp only [f0.2.1, f1.2.1, f2.2.1, f3.2.1, ih, bind, Option.bind]
    congr 1
    congr 1
    · exact ofNat_eq a _ (by omega)
    · congr 1
      · exact ofNat_eq b _ (by omega)
      · congr 1
        exact ofNat_eq c _ (by omega)
  | case2 a b =>
    have ha := a.toNat_lt; have hb := b.toNat_lt
    simp only [b64encode]
    have f0 := b64Char_facts ((a.toNat * 65536 + b.toNat * 256) / 262144) (by omega)
    have f1 := b64Char_facts ((a.toNat * 65536 + b.toNat * 256) / 4096 % 64) (by omega)
    have f2 := b64Char_facts ((a.toNat * 65536 + b.toNat * 256) / 64 % 64) (by omega)
    rw [b64decode.eq_3 _ _ _ (fun h => f2.2.2 h)]
    have hz : (a.toNat * 65536 + b.toNat * 256) / 64 % 64 % 4 = 0 := by omega
    simp only [f0.2.1, f1.2.1, f2.2.1, bind, Option.bind, hz, if_true]
    congr 1
    congr 1
    · exact ofNat_eq a _ (by omega)
    · congr 1
      exact ofNat_eq b _ (by omega)
  | case3 a =>
    have ha := a.toNat_lt
    simp only [b64encode]
    have f0 := b64Char_facts ((a.toNat * 65536) / 262144) (by omega)
    have f1 := b64Char_facts ((a.toNat * 65536) / 4096 % 64) (by omega)
    rw [b64decode.eq_2]
    have hy : (a.toNat * 65536) / 4096 % 64 % 16 = 0 := by omega
    simp only [f0.2.1, f1.2.1, bind, Option.bind, hy, if_true]
    congr 1
    congr 1
    exact ofNat_eq a _ (by omega)
  | case4 => rfl

end Py.Crypto

namespace Ombott.Cookies
open Py

/-- the driver's base64 meets the contract the C15 theorems assume -/
theorem b64Contract_of_crypto (L : Lib) (h1 : L.b64 = Crypto.b64encode) (h2 : L.unb64 = Crypto.b64decode) :
    B64Contract L where
  alphabet := by rw [h1]; exact Crypto.b64encode_alphabet
  inverse := by rw [h1, h2]; exact Crypto.b64decode_encode

end Ombott.Cookies
