import OmbottModel.Lemmas.WsgiTrace
import OmbottModel.Lemmas.WsgiCast
/-! Conjunct (g): what `_handle` hands to `_cast` as a function of the program alone, and the
fate of a 500 error object in `_cast`. -/
namespace Ombott.Wsgi
open Py

/-- how a hook ends: `none` = it returns normally -/
def Hook.flow (h : Hook) : Option Flow :=
  if effsFail h.effs then some .exc else
  match h.res with
  | .ok => none
  | .raisesResp o => some (.resp o)
  | .raises => some .exc

/-- the flow started by the first failing hook of a list -/
def firstFlow : List (Nat × Hook) → Option Flow
  | [] => none
  | (_, h) :: r => match h.flow with
    | some f => some f
    | none => firstFlow r

def Route.flow : Route → Flow
  | .notFound => .resp (mkError 404 "Not Found".toList)
  | .notAllowed allow => .resp (mkError 405 "Method not allowed.".toList [("Allow".toList, [.good allow])])
  | .found h =>
    if effsFail h.effs then .exc else
    match h.res with
    | .returns o => .ret o
    | .raisesResp o => .resp o
    | .raises => .exc

/-- what leaves the `try`/`finally` of `_handle`, as a function of the program alone -/
def handleFlow (app : App) (r : Req) : Flow :=
  let f1 := match firstFlow (enumFrom 0 app.before) with
    | some f => f
    | none => r.route.flow
  match firstFlow (enumFrom 0 app.after).reverse with
  | some f => f
  | none => f1

theorem runBefore_flow (l : List (Nat × Hook)) (st : RState) :
    (runBefore l st).2.2 = firstFlow l := by
  induction l generalizing st with
  | nil => rfl
  | cons p ps ih =>
    obtain ⟨i, h⟩ := p
    unfold runBefore firstFlow Hook.flow
    have hf := runEffs_fails h.effs st
    rcases hr : runEffs h.effs st with ⟨st', b⟩
    rw [hr] at hf
    simp only at hf
    subst hf
    cases he : effsFail h.effs with
    | true => simp
    | false =>
      simp only [Bool.false_eq_true, if_false]
      cases hres : h.res with
      | raisesResp o => rfl
      | raises => rfl
      | ok => exact ih st'

theorem runAfter_flow (l : List (Nat × Hook)) (st : RState) (fl : Flow) :
    (runAfter l st fl).2.2 = (firstFlow l).getD fl := by
  induction l generalizing st with
  | nil => rfl
  | cons p ps ih =>
    obtain ⟨j, h⟩ := p
    unfold runAfter firstFlow Hook.flow
    have hf := runEffs_fails h.effs st
    rcases hr : runEffs h.effs st with ⟨st', b⟩
    rw [hr] at hf
    simp only at hf
    subst hf
    cases he : effsFail h.effs with
    | true => simp
    | false =>
      simp only [Bool.false_eq_true, if_false]
      cases hres : h.res with
      | raisesResp o => rfl
      | raises => rfl
      | ok => exact ih st'

theorem runRoute_flow (route : Route) (st : RState) : (runRoute route st).2.2 = route.flow := by
  unfold runRoute Route.flow
  cases route with
  | notFound => rfl
  | notAllowed a => rfl
  | found h =>
    simp only
    have hf := runEffs_fails h.effs st
    rcases hr : runEffs h.effs st with ⟨st', b⟩
    rw [hr] at hf
    simp only at hf
    subst hf
    cases he : effsFail h.effs with
    | true => simp
    | false =>
      simp only [Bool.false_eq_true, if_false]
      cases h.res <;> rfl

/-- the object `_handle` returns and whether it wrote a traceback, from the program alone -/
theorem handle_out (app : App) (s : Slots) (r : Req) (hp : r.pathOK = true) :
    (handle app s r).2.2 = (settle (handleFlow app r)).2 ∧
    ((settle (handleFlow app r)).1 = [.stderr] → Event.stderr ∈ (handle app s r).2.1) := by
  unfold handle handleFlow
  rw [reinit_eq]
  unfold handleFrom
  simp only [hp, Bool.not_true, Bool.false_eq_true, if_false, hookList_before, hookList_after]
  have hb := runBefore_flow (enumFrom 0 app.before) RState.init
  rcases hrb : runBefore (enumFrom 0 app.before) RState.init with ⟨st1, ev1, fl1⟩
  rw [hrb] at hb
  simp only at hb
  rw [← hb]
  cases fl1 with
  | some fl =>
    simp only
    have ha := runAfter_flow (enumFrom 0 app.after).reverse st1 fl
    rcases hra : runAfter (enumFrom 0 app.after).reverse st1 fl with ⟨st3, ev3, fl3⟩
    rw [hra] at ha
    simp only at ha ⊢
    have hfl : fl3 = (match firstFlow (enumFrom 0 app.after).reverse with
        | some f => f
        | none => fl) := by
      rw [ha]; cases firstFlow (enumFrom 0 app.after).reverse <;> rfl
    rw [← hfl]
    exact ⟨rfl, fun h => by simp [h]⟩
  | none =>
    simp only
    have hr := runRoute_flow r.route st1
    rcases hrr : runRoute r.route st1 with ⟨st2, ev2, fl2⟩
    rw [hrr] at hr
    simp only at hr
    rw [← hr]
    have ha := runAfter_flow (enumFrom 0 app.after).reverse st2 fl2
    rcases hra : runAfter (enumFrom 0 app.after).reverse st2 fl2 with ⟨st3, ev3, fl3⟩
    rw [hra] at ha
    simp only at ha ⊢
    have hfl : fl3 = (match firstFlow (enumFrom 0 app.after).reverse with
        | some f => f
        | none => fl2) := by
      rw [ha]; cases firstFlow (enumFrom 0 app.after).reverse <;> rfl
    rw [← hfl]
    exact ⟨rfl, fun h => by simp [h]⟩

/-! ### a 500 error object in `_cast` -/

theorem step_run (app : App) (fw : Bool) (cnt : Nat) (s : Slots) (out : Out)
    (h : cnt + 1 ≤ Gen.wsgiCastMaxLoops) :
    step app fw (.run cnt s out) = castOut app fw (cnt + 1) s out := by
  unfold step
  have : ¬ (cnt + 1 > Gen.wsgiCastMaxLoops) := by omega
  simp only [this, if_false]

def Cfg.doneWith (c : Cfg) (code : Nat) (line : Str) : Prop :=
  match c with
  | .done s (.body _ none _) => s.resp.code = code ∧ s.resp.line = line
  | _ => False

theorem finishEmpty_doneWith (s : Slots) : (finishEmpty s).doneWith s.resp.code s.resp.line := by
  unfold finishEmpty; exact ⟨rfl, rfl⟩

theorem finishBytes_doneWith (s : Slots) (b : Bytes) :
    (finishBytes s b).doneWith s.resp.code s.resp.line := by
  unfold finishBytes; exact ⟨rfl, rfl⟩

/-- an error object with a text body whose status has no custom handler ends the loop two
iterations later with that status on the response object (HTML page or JSON text alike) -/
theorem runLoop_error (app : App) (fw : Bool) (n cnt : Nat) (s : Slots) (r : RState) (body : Str)
    (hcnt : cnt + 2 ≤ Gen.wsgiCastMaxLoops) (hno : errHandlerFor app r.code = none) :
    (runLoop app fw (n + 2) (.run cnt s (.resp true r (.text body)))).doneWith r.code r.line := by
  rw [runLoop_succ_run, step_run app fw cnt s _ (by omega)]
  obtain ⟨s1, x, hd⟩ := defaultHandler_text (withResp s (apply r s.resp)) r body
  have hs1 : s1.resp.code = r.code ∧ s1.resp.line = r.line := by
    rcases defaultHandler_cases _ _ _ _ _ hd with ⟨rfl, _⟩ | ⟨j, rfl, _⟩ <;> exact ⟨rfl, rfl⟩
  have h1 : castOut app fw (cnt + 1) s (.resp true r (.text body)) = .run (cnt + 1) s1 (.text x) := by
    simp only [castOut, hno, hd]
  rw [h1, runLoop_succ_run, step_run app fw (cnt + 1) _ _ (by omega)]
  unfold castOut
  simp only
  split
  · have := finishEmpty_doneWith s1
    rw [hs1.1, hs1.2] at this
    generalize finishEmpty s1 = c at this ⊢
    cases c with
    | done s' res => rw [runLoop_done]; exact this
    | run _ _ _ => exact this.elim
  · have := finishBytes_doneWith s1 (utf8 x)
    rw [hs1.1, hs1.2] at this
    generalize finishBytes s1 (utf8 x) = c at this ⊢
    cases c with
    | done s' res => rw [runLoop_done]; exact this
    | run _ _ _ => exact this.elim

theorem maxLoops_ge : 3 ≤ Gen.wsgiCastMaxLoops := by decide

/-- `_cast` of a 500 error object without a custom 500 handler -/
theorem cast_error500 (app : App) (fw : Bool) (s : Slots) (body : Str) (hdrs : Hdrs)
    (hno : errHandlerFor app 500 = none) :
    ∃ s' items cl, cast app fw s (mkError 500 body hdrs) = (s', .body items none cl) ∧
      s'.resp.code = 500 ∧ s'.resp.line = lineOfCode 500 := by
  have hm := maxLoops_ge
  obtain ⟨k, hk⟩ : ∃ k, Gen.wsgiCastMaxLoops + 1 = k + 2 := ⟨Gen.wsgiCastMaxLoops - 1, by omega⟩
  have := runLoop_error app fw k 0 s { code := 500, line := lineOfCode 500, headers := hdrs, cookies := [] }
    body (by omega) hno
  unfold cast mkError
  rw [hk]
  generalize runLoop app fw (k + 2) _ = c at this ⊢
  cases c with
  | run _ _ _ => exact this.elim
  | done s' res =>
    cases res with
    | body items closer cl =>
      cases closer with
      | none => exact ⟨s', items, cl, rfl, this.1, this.2⟩
      | some _ => exact this.elim
    | raised => exact this.elim
    | diverged => exact this.elim

/-- `_cast` of an iterable whose first `next()` raises, without a custom 500 handler -/
theorem cast_first_next_raises (app : App) (fw : Bool) (s : Slots) (id : Nat) (hc : Bool)
    (items rest : List Item) (hi : skipEmpty items = .raises :: rest)
    (hno : errHandlerFor app 500 = none) :
    ∃ s' its cl, cast app fw s (.iter id hc items) = (s', .body its none cl) ∧
      s'.resp.code = 500 ∧ s'.resp.line = lineOfCode 500 := by
  have hm := maxLoops_ge
  obtain ⟨k, hk⟩ : ∃ k, Gen.wsgiCastMaxLoops + 1 = (k + 2) + 1 := ⟨Gen.wsgiCastMaxLoops - 2, by omega⟩
  have := runLoop_error app fw k 1 s { code := 500, line := lineOfCode 500, headers := [], cookies := [] }
    "Unhandled exception".toList (by omega) hno
  unfold cast
  rw [hk, runLoop_succ_run, step_run app fw 0 s _ (by omega)]
  have h1 : castOut app fw (0 + 1) s (.iter id hc items) =
      .run 1 s (mkError 500 "Unhandled exception".toList) := by
    simp only [castOut, castIter, hi]
  rw [h1]
  unfold mkError
  generalize runLoop app fw (k + 2) _ = c at this ⊢
  cases c with
  | run _ _ _ => exact this.elim
  | done s' res =>
    cases res with
    | body its closer cl =>
      cases closer with
      | none => exact ⟨s', its, cl, rfl, this.1, this.2⟩
      | some _ => exact this.elim
    | raised => exact this.elim
    | diverged => exact this.elim

end Ombott.Wsgi
