import OmbottModel.Lemmas.EnvCacheGetters
/-!
The body state: `_body` of the model against `spBody` of the reference, and the getters built on it.
-/
namespace Ombott.EnvCache
open Py Ombott.Body Ombott.Forms Ombott.BodyAccess

variable (cfg : Cfg) (L : Lib)

theorem bodyKeys_plain : ∀ k ∈ bodyKeys, isCacheKey k = false ∧ k ≠ kPost ∧ k ≠ kForms ∧ k ≠ kFiles ∧
    k ≠ kApp ∧ k ≠ kRoute ∧ k ≠ kUrlArgs := by decide

theorem bodyKeys_not_prop : ∀ k ∈ bodyKeys, ∀ q : Prop', desc cfg L q ≠ .special → q.key ≠ k := by
  intro k hk q hq
  cases q <;> first | (exact absurd rfl hq) | (revert k; decide)

/-- while there is no buffered body, a change of the body state disturbs no cached entry -/
theorem Inv.set_body {cfg : Cfg} {L : Lib} {e : Env} (hI : Inv cfg L e) (k : Key) (v : Val)
    (hb : e.get? kBody = none) (hk : k ∈ bodyKeys) : Inv cfg L (e.set k v) := by
  obtain ⟨p1, p2, p3, p4, p5, p6, p7⟩ := bodyKeys_plain k hk
  refine ⟨?_, ?_, ?_⟩
  · intro q w hq
    by_cases hs : desc cfg L q = .special
    · unfold CachedOK; rw [hs]; trivial
    · rw [get?_set_ne _ _ _ _ (bodyKeys_not_prop cfg L k hk q hs)] at hq
      have hc := hI.cached q w hq
      have ok := desc_ok cfg L q
      unfold CachedOK at hc ⊢
      cases hd : desc cfg L q with
      | special => exact absurd hd hs
      | pure r f =>
        rw [hd] at hc ok
        simp only [DescOK] at ok
        simp only at hc ⊢
        rw [ok.1.set k (fun h => (ok.2 k h).2 hk)]; exact hc
      | viaBody r need k0 kk =>
        rw [hd] at hc ok
        simp only [DescOK] at ok
        obtain ⟨o1, o2, -, o4⟩ := ok
        simp only at hc ⊢
        have hkr : k ∉ r := fun h => (o4 k h).2 hk
        rw [o1.set k hkr, o2.set k hkr]
        by_cases hn : need e = true
        · rw [if_pos hn] at hc
          obtain ⟨sk, ct, h1, -⟩ := hc
          rw [hb] at h1; cases h1
        · rw [if_neg hn] at hc ⊢; exact hc
  · intro h
    rw [get?_set_ne _ _ _ _ (Ne.symm p2)] at h
    obtain ⟨h1, h2⟩ := hI.postCons h
    exact ⟨get?_set_isSome _ _ _ _ h1, get?_set_isSome _ _ _ _ h2⟩
  · obtain ⟨h1, h2, h3⟩ := hI.noExt
    exact ⟨by rw [get?_set_ne _ _ _ _ (Ne.symm p5)]; exact h1, by rw [get?_set_ne _ _ _ _ (Ne.symm p6)]; exact h2,
           by rw [get?_set_ne _ _ _ _ (Ne.symm p7)]; exact h3⟩

theorem A_set_plain (s : RS) (k : Key) (v : Val) (h : isCacheKey k = false) :
    A { s with env := s.env.set k v } = { A s with env := (A s).env.set k v } := by
  simp [A, erase_set_plain _ _ _ h]

theorem kInput_plain : isCacheKey kInput = false := by decide
theorem kBodyError_plain : isCacheKey kBodyError = false := by decide

theorem bodyPre_A (s : RS) :
    bodyPre cfg (A s) = match bodyPre cfg s with
      | .inl (r, s') => .inl (r, A s')
      | .inr id => .inr id := by
  unfold bodyPre
  simp only [A_env, get?_erase_plain _ _ kBodyError_plain, get?_erase_plain _ _ kInput_plain,
    str?_erase_plain _ cs!"CONTENT_TYPE" (by decide)]
  cases s.env.get? kBodyError with
  | some v => cases v <;> rfl
  | none =>
    simp only
    cases markupInitError ((s.env.str? cs!"CONTENT_TYPE").getD []) with
    | some x => simp only; rw [A_set_plain _ _ _ kBodyError_plain]; rfl
    | none =>
      simp only
      cases s.env.get? kInput with
      | none => rfl
      | some v => cases v <;> rfl

theorem chunkedOf_erase (e : Env) : chunkedOf (erase e) = chunkedOf e := by
  simp [chunkedOf, str?_erase_plain _ cs!"HTTP_TRANSFER_ENCODING" (by decide)]

theorem bodyPost_A (id : Nat) (cl : Int) (s : RS) :
    bodyPost cfg id cl (A s) = ((bodyPost cfg id cl s).1, A (bodyPost cfg id cl s).2) := by
  unfold bodyPost
  simp only [A_env, A_heap, chunkedOf_erase, str?_erase_plain _ cs!"CONTENT_TYPE" (by decide)]
  rcases bodyRead cfg.memfile cl (chunkedOf s.env) cfg.maxBody (heapGet s.heap id) with ⟨r, rec⟩
  cases r with
  | error x =>
    simp only
    by_cases hx : Body.isRequestError x = true
    · simp only [hx, if_true]
      simp [A, erase_set_plain _ _ _ kBodyError_plain]
    · simp only [hx]; rfl
  | ok sk =>
    simp only
    simp [A, erase_set_plain _ _ _ kInput_plain]

theorem bodyPre_noBody (s : RS) (r : Except Exc Val) (s' : RS) (h : bodyPre cfg s = .inl (r, s'))
    (hb : s.env.get? kBody = none) (hI : Inv cfg L s.env) : Inv cfg L s'.env ∧ (∀ v, r ≠ .ok v) := by
  unfold bodyPre at h
  split at h
  · cases h; exact ⟨hI, by simp⟩
  · cases h; exact ⟨hI, by simp⟩
  · split at h
    · cases h; exact ⟨hI.set_body _ _ hb (by simp [bodyKeys]), by simp⟩
    · split at h
      · cases h; exact ⟨hI, by simp⟩
      · cases h
      · cases h; exact ⟨hI, by simp⟩

theorem bodyPost_inv (id : Nat) (cl : Int) (s : RS) (hb : s.env.get? kBody = none) (hI : Inv cfg L s.env) :
    Inv cfg L (bodyPost cfg id cl s).2.env ∧ (bodyPost cfg id cl s).2.env.get? kBody = none := by
  have hne : kBody ≠ kBodyError := by decide
  have hne2 : kBody ≠ kInput := by decide
  unfold bodyPost
  split
  · split
    · exact ⟨hI.set_body _ _ hb (by simp [bodyKeys]), by simp [get?_set_ne _ _ _ _ hne, hb]⟩
    · exact ⟨hI, hb⟩
  · exact ⟨hI.set_body _ _ hb (by simp [bodyKeys]), by simp [get?_set_ne _ _ _ _ hne2, hb]⟩

/-- `_body` -/
theorem sim_body (s : RS) (hI : Inv cfg L s.env) : Sim cfg L (rdBody cfg) (spBody cfg) s := by
  have hkb : isCacheKey kBody = false := kBody_not_cache
  unfold Sim rdBody spBody cacheIn
  simp only [A_env, get?_erase_plain _ _ hkb]
  cases hb : s.env.get? kBody with
  | some v => exact ⟨rfl, rfl, hI⟩
  | none =>
    simp only [bodyPre_A]
    rcases hpre : bodyPre cfg s with ⟨r, s'⟩ | id
    · obtain ⟨hI', hne⟩ := bodyPre_noBody cfg L s r s' hpre hb hI
      cases r with
      | ok v => exact absurd rfl (hne v)
      | error x => exact ⟨rfl, rfl, hI'⟩
    · simp only
      obtain ⟨c1, c2, c3⟩ := sim_contentLength cfg L s hI
      have hsp : specRead cfg L .contentLength = fun s => (contentLengthOf s.env, s) := rfl
      rw [hsp] at c1 c2
      simp only [A_env] at c1 c2
      have hcl : contentLengthOf (erase s.env) = contentLengthOf s.env :=
        ro_contentLengthOf.erase (fun k hk => by simp at hk; subst hk; decide) s.env
      rw [hcl] at c1
      rcases hrd : rdContentLength s with ⟨rc, s1⟩
      rw [hrd] at c1 c2 c3
      simp only at c1 c2 c3
      rw [hcl, ← c1]
      have hb1 : s1.env.get? kBody = none := by
        have : (A s1).env.get? kBody = (A s).env.get? kBody := by rw [c2]
        simpa [get?_erase_plain _ _ hkb, hb] using this
      cases rc with
      | error x => exact ⟨rfl, c2, c3⟩
      | ok v =>
        simp only
        cases asInt v with
        | error x => exact ⟨rfl, c2, c3⟩
        | ok cl =>
          simp only
          rw [← c2, bodyPost_A]
          obtain ⟨hI2, hb2⟩ := bodyPost_inv cfg L id cl s1 hb1 c3
          rcases hbp : bodyPost cfg id cl s1 with ⟨rb, s2⟩
          rw [hbp] at hI2 hb2
          simp only at hI2 hb2 ⊢
          cases rb with
          | error x => exact ⟨rfl, rfl, hI2⟩
          | ok b =>
            refine ⟨rfl, ?_, hI2.set_body _ _ hb2 (by simp [bodyKeys])⟩
            simp [A, erase_set_plain _ _ _ hkb]

end Ombott.EnvCache
