import OmbottModel.Lemmas.EnvCacheWorld
/-!
Which environ keys a read can create (`touch`), so that "only these properties were ever read"
bounds what is cached — this is how the instance theorems discharge `Safe`.
-/
namespace Ombott.EnvCache
open Py Ombott.Body Ombott.Forms Ombott.BodyAccess

/-- `m` creates no environ key outside `ks` -/
def Stores {α} (ks : List Key) (m : M α) : Prop :=
  ∀ s k, (m s).2.env.get? k ≠ none → s.env.get? k ≠ none ∨ k ∈ ks

theorem Stores.mono {α} {ks ks' : List Key} {m : M α} (h : Stores ks m) (hs : (ks.all fun k => ks'.contains k) = true) :
    Stores ks' m := by
  intro s k hk
  refine (h s k hk).imp (fun x => x) fun hm => ?_
  simp only [List.all_eq_true, List.contains_iff_mem] at hs
  exact hs k hm

theorem Stores.pure {α} (f : RS → Except Exc α) : Stores [] (fun s => (f s, s)) := fun _ _ hk => Or.inl hk

theorem Stores.liftE {α} (r : Except Exc α) : Stores [] (liftE r) := fun _ _ hk => Or.inl hk
theorem Stores.ret {α} (a : α) : Stores [] (M.ret a) := fun _ _ hk => Or.inl hk
theorem Stores.fail {α} (x : Exc) : Stores [] (M.fail x : M α) := fun _ _ hk => Or.inl hk

theorem Stores.bind {α β} {ks : List Key} {m : M α} {f : α → M β} (hm : Stores ks m) (hf : ∀ a, Stores ks (f a)) :
    Stores ks (M.bind m f) := by
  intro s k hk
  unfold M.bind at hk
  rcases hms : m s with ⟨r, s1⟩
  rw [hms] at hk
  have h1 := hm s k
  rw [hms] at h1
  cases r with
  | error x => exact h1 hk
  | ok a =>
    rcases hf a s1 k hk with h | h
    · exact h1 h
    · exact Or.inr h

theorem Stores.store (k : Key) (v : Val) : Stores [k] (store k v) := by
  intro s c hc
  simp only [Ombott.EnvCache.store] at hc
  by_cases h : c = k
  · exact Or.inr (by simp [h])
  · rw [get?_set_ne _ _ _ _ h] at hc; exact Or.inl hc

theorem Stores.cacheIn {ks : List Key} (k : Key) {g : M Val} (hg : Stores ks g) : Stores (k :: ks) (cacheIn k g) := by
  intro s c hc
  unfold Ombott.EnvCache.cacheIn at hc
  split at hc
  · exact Or.inl hc
  · rcases hgs : g s with ⟨r, s1⟩
    rw [hgs] at hc
    have h1 := hg s c
    rw [hgs] at h1
    cases r with
    | error x => exact (h1 hc).imp (fun x => x) (List.mem_cons_of_mem _)
    | ok v =>
      simp only at hc
      by_cases h : c = k
      · exact Or.inr (by simp [h])
      · rw [get?_set_ne _ _ _ _ h] at hc
        exact (h1 hc).imp (fun x => x) (List.mem_cons_of_mem _)

variable (cfg : Cfg) (L : Lib)

def bodyTouch : List Key := [kBody, kBodyError, kInput, kContentLength]
def jsonTouch : List Key := [kJson, kCtype, kContentType] ++ bodyTouch
def postTouch : List Key := [kPost, kForms, kFiles] ++ jsonTouch

/-- the environ keys a read of `p` can create -/
def touch : Prop' → List Key
  | .app => [kApp] | .route => [kRoute] | .urlArgs => [kUrlArgs]
  | .headers => [kHeaders]
  | .cookies => [kCookies]
  | .scriptName => [kScriptName]
  | .fullpath => [kFullpath, kScriptName]
  | .urlparts => [kUrlparts, kFullpath, kScriptName]
  | .url => [kUrl, kUrlparts, kFullpath, kScriptName]
  | .isJsonRequested => [kIsJson]
  | .remoteRoute => [kRemoteRoute]
  | .contentLength => [kContentLength]
  | .contentType => [kContentType]
  | .ctype => [kCtype, kContentType]
  | .query => [kQuery, kGet]
  | .body => bodyTouch
  | .json => jsonTouch
  | .post | .forms | .files => postTouch
  | .params => [kParams, kQuery, kGet] ++ postTouch

theorem stores_contentLength : Stores [kContentLength] rdContentLength :=
  Stores.cacheIn _ (Stores.pure _)
theorem stores_contentType : Stores [kContentType] rdContentType := Stores.cacheIn _ (Stores.pure _)
theorem stores_ctype : Stores [kCtype, kContentType] rdCtype :=
  Stores.cacheIn _ (Stores.bind stores_contentType fun _ => (Stores.liftE _).mono (by decide))
theorem stores_scriptName : Stores [kScriptName] (rdScriptName cfg) := Stores.cacheIn _ (Stores.pure _)
theorem stores_fullpath : Stores [kFullpath, kScriptName] (rdFullpath cfg L) :=
  Stores.cacheIn _ (Stores.bind (stores_scriptName cfg) fun _ =>
    Stores.bind ((Stores.liftE _).mono (by decide)) fun _ => (Stores.pure _).mono (by decide))
theorem stores_urlparts : Stores [kUrlparts, kFullpath, kScriptName] (rdUrlparts cfg L) :=
  Stores.cacheIn _ (Stores.bind (stores_fullpath cfg L) fun _ =>
    Stores.bind ((Stores.liftE _).mono (by decide)) fun _ => (Stores.pure _).mono (by decide))
theorem stores_url : Stores [kUrl, kUrlparts, kFullpath, kScriptName] (rdUrl cfg L) :=
  Stores.cacheIn _ (Stores.bind (stores_urlparts cfg L) fun _ => (Stores.liftE _).mono (by decide))

theorem stores_query : Stores [kQuery, kGet] rdQuery := by
  apply Stores.cacheIn
  intro s c hc
  simp only at hc
  split at hc
  · simp only at hc
    by_cases h : c = kGet
    · exact Or.inr (by simp [h])
    · rw [get?_set_ne _ _ _ _ h] at hc; exact Or.inl hc
  · exact Or.inl hc

theorem stores_bodyPre (s : RS) (r : Except Exc Val) (s' : RS) (h : bodyPre cfg s = .inl (r, s')) (c : Key)
    (hc : s'.env.get? c ≠ none) : s.env.get? c ≠ none ∨ c ∈ bodyTouch := by
  unfold bodyPre at h
  split at h
  · cases h; exact Or.inl hc
  · cases h; exact Or.inl hc
  · split at h
    · cases h
      by_cases hk : c = kBodyError
      · exact Or.inr (by simp [bodyTouch, hk])
      · rw [get?_set_ne _ _ _ _ hk] at hc; exact Or.inl hc
    · split at h
      · cases h; exact Or.inl hc
      · cases h
      · cases h; exact Or.inl hc

theorem stores_bodyPost (id : Nat) (cl : Int) : Stores bodyTouch (bodyPost cfg id cl) := by
  intro s c hc
  unfold bodyPost at hc
  split at hc
  · split at hc
    · simp only at hc
      by_cases hk : c = kBodyError
      · exact Or.inr (by simp [bodyTouch, hk])
      · rw [get?_set_ne _ _ _ _ hk] at hc; exact Or.inl hc
    · exact Or.inl hc
  · simp only at hc
    by_cases hk : c = kInput
    · exact Or.inr (by simp [bodyTouch, hk])
    · rw [get?_set_ne _ _ _ _ hk] at hc; exact Or.inl hc

theorem stores_body : Stores bodyTouch (rdBody cfg) := by
  have : Stores (kBody :: bodyTouch) (rdBody cfg) := by
    apply Stores.cacheIn
    intro s c hc
    simp only at hc
    rcases hpre : bodyPre cfg s with ⟨r, s'⟩ | sid
    · rw [hpre] at hc
      exact stores_bodyPre cfg s r s' hpre c hc
    · rw [hpre] at hc
      simp only at hc
      rcases hcl : rdContentLength s with ⟨rc, s1⟩
      rw [hcl] at hc
      have h1 := stores_contentLength s c
      rw [hcl] at h1
      have lift : s1.env.get? c ≠ none → s.env.get? c ≠ none ∨ c ∈ bodyTouch :=
        fun h => (h1 h).imp (fun x => x) (fun hm => by simp at hm; simp [bodyTouch, hm])
      cases rc with
      | error x => exact lift hc
      | ok v =>
        simp only at hc
        cases hv : asInt v with
        | error x => rw [hv] at hc; exact lift hc
        | ok n =>
          rw [hv] at hc
          rcases stores_bodyPost cfg sid n s1 c hc with h | h
          · exact lift h
          · exact Or.inr h
  exact this.mono (by decide)

theorem stores_bodyString : Stores bodyTouch (getBodyString cfg) :=
  Stores.bind (stores_body cfg) fun _ => Stores.bind ((Stores.liftE _).mono (by decide)) fun _ =>
    Stores.bind (stores_contentLength.mono (by decide)) fun _ =>
      Stores.bind ((Stores.liftE _).mono (by decide)) fun _ => (Stores.liftE _).mono (by decide)

theorem stores_json : Stores jsonTouch (rdJson cfg L) := by
  have : Stores (kJson :: ([kCtype, kContentType] ++ bodyTouch)) (rdJson cfg L) := by
    apply Stores.cacheIn
    refine Stores.bind (stores_ctype.mono (by decide)) fun _ => Stores.bind ((Stores.liftE _).mono (by decide)) fun l => ?_
    by_cases h : l.head? = some cs!"application/json"
    · simp only [h, if_true]
      exact Stores.bind ((stores_bodyString cfg).mono (by decide)) fun _ => (Stores.liftE _).mono (by decide)
    · simp only [h, if_false]
      exact (Stores.ret _).mono (by decide)
  exact this.mono (by decide)

theorem stores_postCompute : Stores jsonTouch (postCompute cfg L) := by
  refine Stores.bind (stores_contentType.mono (by decide)) fun _ =>
    Stores.bind ((Stores.liftE _).mono (by decide)) fun ct => ?_
  by_cases hm : startsWithS ct cs!"multipart/" = true
  · simp only [hm, not_true_eq_false, if_false]
    exact Stores.bind ((stores_body cfg).mono (by decide)) fun _ =>
      Stores.bind ((Stores.liftE _).mono (by decide)) fun _ => (Stores.liftE _).mono (by decide)
  · simp only [hm, Bool.false_eq_true, not_false_eq_true, ↓reduceIte]
    by_cases hj : startsWithS ct cs!"application/json" = true
    · simp only [hj, ↓reduceIte]
      exact Stores.bind (stores_json cfg L) fun _ => Stores.bind ((Stores.liftE _).mono (by decide)) fun _ =>
        (Stores.ret _).mono (by decide)
    · simp only [hj, Bool.false_eq_true, ↓reduceIte]
      exact Stores.bind ((stores_bodyString cfg).mono (by decide)) fun _ =>
        Stores.bind ((Stores.liftE _).mono (by decide)) fun _ => (Stores.ret _).mono (by decide)

theorem stores_post : Stores postTouch (rdPost cfg L) := by
  have : Stores (kPost :: ([kForms, kFiles] ++ jsonTouch)) (rdPost cfg L) := by
    apply Stores.cacheIn
    refine Stores.bind ((stores_postCompute cfg L).mono (by decide)) fun t => ?_
    refine Stores.bind ((Stores.store kFiles _).mono (by decide)) fun _ => ?_
    exact Stores.bind ((Stores.store kForms _).mono (by decide)) fun _ => (Stores.ret _).mono (by decide)
  exact this.mono (by decide)

theorem stores_envItem (k : Key) : Stores [] (envItem k) := by
  intro s c hc
  unfold envItem at hc
  split at hc <;> exact Or.inl hc

theorem stores_forms : Stores postTouch (rdForms cfg L) := by
  have : Stores (kForms :: postTouch) (rdForms cfg L) :=
    Stores.cacheIn _ (Stores.bind (stores_post cfg L) fun _ => (stores_envItem _).mono (by decide))
  exact this.mono (by decide)

theorem stores_files : Stores postTouch (rdFiles cfg L) := by
  have : Stores (kFiles :: postTouch) (rdFiles cfg L) :=
    Stores.cacheIn _ (Stores.bind (stores_post cfg L) fun _ => (stores_envItem _).mono (by decide))
  exact this.mono (by decide)

theorem stores_params : Stores ([kParams, kQuery, kGet] ++ postTouch) (rdParams cfg L) := by
  have : Stores (kParams :: ([kQuery, kGet] ++ postTouch)) (rdParams cfg L) := by
    apply Stores.cacheIn
    refine Stores.bind (stores_query.mono (by decide)) fun _ => Stores.bind ((Stores.liftE _).mono (by decide)) fun _ => ?_
    exact Stores.bind ((stores_forms cfg L).mono (by decide)) fun _ =>
      Stores.bind ((Stores.liftE _).mono (by decide)) fun _ => (Stores.ret _).mono (by decide)
  exact this.mono (by decide)

/-- **a read creates only the keys of `touch`** -/
theorem stores_read (p : Prop') : Stores (touch p) (readProp cfg L p) := by
  cases p with
  | app => exact Stores.cacheIn _ (Stores.fail _)
  | route => exact Stores.cacheIn _ (Stores.fail _)
  | urlArgs => exact Stores.cacheIn _ (Stores.fail _)
  | headers => exact Stores.cacheIn _ (Stores.pure _)
  | cookies => exact Stores.cacheIn _ (Stores.pure _)
  | params => exact stores_params cfg L
  | url => exact stores_url cfg L
  | urlparts => exact stores_urlparts cfg L
  | fullpath => exact stores_fullpath cfg L
  | scriptName => exact stores_scriptName cfg
  | isJsonRequested => exact Stores.cacheIn _ (Stores.pure _)
  | remoteRoute => exact Stores.cacheIn _ (Stores.pure _)
  | contentLength => exact stores_contentLength
  | contentType => exact stores_contentType
  | ctype => exact stores_ctype
  | query => exact stores_query
  | json => exact stores_json cfg L
  | post => exact stores_post cfg L
  | forms => exact stores_forms cfg L
  | files => exact stores_files cfg L
  | body => exact stores_body cfg

end Ombott.EnvCache
