import OmbottModel.Lemmas.RouterGet
/-!
Depth-first order of a well-formed tree is priority order (`denN_sorted`), hence "first match in
depth-first order" is "the matching rule that wins over every other matching rule"
(`firstMatch_eq_specResolve`); `specResolve` does not depend on the order of the rule list
(`specResolve_perm`).
-/
namespace Ombott.Router
open Py

def Matches (env : FilterEnv) (r : Rule) (p : Str) : Prop := (matchRule env r.pat p).isSome = true

/-- earlier rules win over later ones whenever both match `p` -/
def PrioSorted (env : FilterEnv) (l : List Rule) (p : Str) : Prop :=
  l.Pairwise fun a b => Matches env a p → Matches env b p → prio a.pat b.pat = true

/-! ### `prio` -/

theorem prio_append (pre a b : List Sym) : prio (pre ++ a) (pre ++ b) = prio a b := by
  induction pre with
  | nil => rfl
  | cons x xs ih => simp [prio, ih]

theorem prio_lit_tok (c : Char) (f : Option Fid) (a b : List Sym) :
    prio (.lit c :: a) (.tok f :: b) = true := by
  simp [prio]

theorem prio_irrefl (a : List Sym) : prio a a = false := by
  induction a with
  | nil => rfl
  | cons x xs ih => simp [prio, ih]

theorem prio_asymm (a b : List Sym) (h : prio a b = true) : prio b a = false := by
  induction a generalizing b with
  | nil => cases b <;> simp [prio] at h
  | cons x xs ih =>
    cases b with
    | nil => simp [prio] at h
    | cons y ys =>
      simp only [prio] at h ⊢
      by_cases hxy : x = y
      · subst hxy; simp only [if_true] at h ⊢; exact ih ys h
      · have hyx : ¬ y = x := fun e => hxy e.symm
        simp only [hxy, hyx, if_false] at h ⊢
        cases x <;> cases y <;> simp at h ⊢

/-! ### first match = the winner -/

/-- the selection `specResolve` makes at one rule, relative to the whole list -/
def specPick (env : FilterEnv) (L : List Rule) (p : Str) (r : Rule) : Option (Rule × List Val) :=
  match matchRule env r.pat p with
  | none => none
  | some vs =>
    if L.all fun q => q.pat == r.pat || (matchRule env q.pat p).isNone || prio r.pat q.pat
    then some (r, vs) else none

theorem specResolve_eq (env : FilterEnv) (L : List Rule) (p : Str) :
    specResolve env L p = L.findSome? (specPick env L p) := rfl

theorem findSome_specPick (env : FilterEnv) (p : Str) (pre l : List Rule)
    (hpre : ∀ x ∈ pre, matchRule env x.pat p = none) (hs : PrioSorted env (pre ++ l) p) :
    l.findSome? (specPick env (pre ++ l) p) = firstMatch env l p := by
  induction l generalizing pre with
  | nil => simp [firstMatch]
  | cons x xs ih =>
    simp only [List.findSome?_cons, firstMatch]
    cases hm : matchRule env x.pat p with
    | none =>
      have h1 : specPick env (pre ++ x :: xs) p x = none := by simp [specPick, hm]
      rw [h1]
      have := ih (pre ++ [x]) (by
        intro y hy
        rcases List.mem_append.mp hy with hy | hy
        · exact hpre y hy
        · simp at hy; subst hy; exact hm) (by simpa using hs)
      simpa using this
    | some vs =>
      have hall : ((pre ++ x :: xs).all fun q =>
          q.pat == x.pat || (matchRule env q.pat p).isNone || prio x.pat q.pat) = true := by
        rw [List.all_eq_true]
        intro q hq
        rcases List.mem_append.mp hq with hq | hq
        · simp [hpre q hq]
        · rcases List.mem_cons.mp hq with rfl | hq
          · simp
          · unfold PrioSorted at hs
            rw [List.pairwise_append] at hs
            have hx := (List.pairwise_cons.mp hs.2.1).1 q hq
            cases hq' : matchRule env q.pat p with
            | none => simp
            | some w =>
              have := hx (by simp [Matches, hm]) (by simp [Matches, hq'])
              simp [this]
      simp [specPick, hm, hall]

theorem firstMatch_eq_specResolve (env : FilterEnv) (l : List Rule) (p : Str)
    (hs : PrioSorted env l p) : specResolve env l p = firstMatch env l p := by
  rw [specResolve_eq]
  exact findSome_specPick env p [] l (by simp) (by simpa using hs)

/-! ### shapes of denoted patterns -/

theorem matches_lit_head {env : FilterEnv} {c : Char} {q : List Sym} {p : Str}
    (h : (matchRule env (.lit c :: q) p).isSome = true) : p.head? = some c := by
  cases p with
  | nil => simp [matchRule] at h
  | cons d p =>
    simp only [matchRule] at h
    split at h
    · subst_vars; rfl
    · simp at h

theorem mem_denL_shape {ks : List Node} (h : WFL ks) {b : Rule} (hb : b ∈ denL ks) :
    ∃ k' ∈ ks, ∃ c q, k'.key.head? = some c ∧ b.pat = .lit c :: q := by
  induction ks with
  | nil => simp [denL] at hb
  | cons k ks ih =>
    unfold WFL at h
    obtain ⟨hne, _, hks, _⟩ := h
    simp only [denL, List.mem_append, List.mem_map] at hb
    rcases hb with ⟨a, _, rfl⟩ | hb
    · cases hk : k.key with
      | nil => exact absurd hk hne
      | cons c cs =>
        exact ⟨k, by simp, c, litSyms cs ++ a.pat, by simp [hk], by simp [Rule.under, litSyms, hk]⟩
    · obtain ⟨k', hk', r⟩ := ih hks hb
      exact ⟨k', by simp [hk'], r⟩

theorem mem_denT_shape {t : Option Node} {b : Rule} (hb : b ∈ denT t) :
    ∃ f q, b.pat = .tok f :: q := by
  cases t with
  | none => simp [denT] at hb
  | some t =>
    simp only [denT, List.mem_map] at hb
    obtain ⟨a, _, rfl⟩ := hb
    exact ⟨_, a.pat, rfl⟩

theorem not_matches_nil_of_cons {env : FilterEnv} {s : Sym} {q : List Sym} :
    (matchRule env (s :: q) []).isSome = false := by
  cases s <;> simp [matchRule]

/-! ### depth-first order is priority order -/

theorem sorted_map_lit (env : FilterEnv) (k : Str) (l : List Rule)
    (h : ∀ p, PrioSorted env l p) (p : Str) :
    PrioSorted env (l.map (Rule.under (litSyms k))) p := by
  unfold PrioSorted
  rw [List.pairwise_map]
  cases hs : stripPre k p with
  | none =>
    apply List.Pairwise.imp _ (h p)
    intro a b _ ha
    simp [Matches, Rule.under, matchRule_lit_append, hs] at ha
  | some rest =>
    apply List.Pairwise.imp _ (h rest)
    intro a b hab ha hb
    simp only [Matches, Rule.under, matchRule_lit_append, hs, Option.bind_some] at ha hb
    simp only [Rule.under, prio_append]
    exact hab ha hb

theorem sorted_map_tok (env : FilterEnv) (f : Option Fid) (l : List Rule)
    (h : ∀ p, PrioSorted env l p) (p : Str) :
    PrioSorted env (l.map (Rule.under [Sym.tok f])) p := by
  unfold PrioSorted
  rw [List.pairwise_map]
  cases p with
  | nil =>
    apply List.Pairwise.imp _ (h [])
    intro a b _ ha
    simp [Matches, Rule.under, matchRule] at ha
  | cons c p =>
    cases he : tokRes env f (c :: p) with
    | none =>
      apply List.Pairwise.imp _ (h [])
      intro a b _ ha
      simp [Matches, Rule.under, matchRule, he] at ha
    | some r =>
      apply List.Pairwise.imp _ (h ((c :: p).drop r.n))
      intro a b hab ha hb
      simp only [Matches, Rule.under, List.cons_append, List.nil_append, matchRule, he,
        Option.isSome_map] at ha hb
      have := prio_append [Sym.tok f] a.pat b.pat
      simp only [List.cons_append, List.nil_append] at this
      simp only [Rule.under, List.cons_append, List.nil_append, this]
      exact hab ha hb

mutual
theorem denN_sorted (env : FilterEnv) (n : Node) (h : WFN n) (p : Str) : PrioSorted env (denN n) p := by
  match n with
  | .mk k d pk f hk lits tok =>
    unfold WFN at h
    obtain ⟨hl, ht⟩ := h
    simp only [denN]
    unfold PrioSorted
    rw [List.append_assoc, List.pairwise_append]
    refine ⟨?_, ?_, ?_⟩
    · cases d <;> simp [ownRule]
    · rw [List.pairwise_append]
      refine ⟨denL_sorted env lits hl p, denT_sorted env tok ht p, ?_⟩
      intro a ha b hb _ _
      obtain ⟨_, _, c, q, _, hq⟩ := mem_denL_shape hl ha
      obtain ⟨g, q', hq'⟩ := mem_denT_shape hb
      rw [hq, hq']; exact prio_lit_tok _ _ _ _
    · intro a ha b hb hma hmb
      -- the node's own rule matches the empty path only; nothing below does
      cases d with
      | none => simp [ownRule] at ha
      | some v =>
        simp only [ownRule, List.mem_singleton] at ha
        subst ha
        have hp : p = [] := by
          cases p with
          | nil => rfl
          | cons c p => simp [Matches, matchRule] at hma
        subst hp
        exfalso
        rcases List.mem_append.mp hb with hb | hb
        · obtain ⟨_, _, c, q, _, hq⟩ := mem_denL_shape hl hb
          simp [Matches, hq, matchRule] at hmb
        · obtain ⟨g, q, hq⟩ := mem_denT_shape hb
          simp [Matches, hq, matchRule] at hmb
theorem denT_sorted (env : FilterEnv) (t : Option Node) (h : WFT t) (p : Str) :
    PrioSorted env (denT t) p := by
  match t with
  | none => simp [denT, PrioSorted]
  | some t =>
    unfold WFT at h
    simp only [denT]
    exact sorted_map_tok env _ _ (fun p => denN_sorted env t h p) p
theorem denL_sorted (env : FilterEnv) (ks : List Node) (h : WFL ks) (p : Str) :
    PrioSorted env (denL ks) p := by
  match ks with
  | [] => simp [denL, PrioSorted]
  | k :: ks =>
    have h' := h
    unfold WFL at h
    obtain ⟨hne, hk, hks, hdist⟩ := h
    simp only [denL]
    unfold PrioSorted
    rw [List.pairwise_append]
    refine ⟨sorted_map_lit env k.key _ (fun p => denN_sorted env k hk p) p, denL_sorted env ks hks p, ?_⟩
    intro a ha b hb hma hmb
    -- two literal children start with different characters: both cannot match
    exfalso
    obtain ⟨_, hk0, c, q, hc, hq⟩ := mem_denL_shape h' (by simp [denL, ha] : a ∈ denL (k :: ks))
    obtain ⟨k', hk', c', q', hc', hq'⟩ := mem_denL_shape hks hb
    simp only [List.mem_map] at ha
    obtain ⟨a0, _, rfl⟩ := ha
    have hkc : k.key.head? = some c := by
      cases hkk : k.key with
      | nil => exact absurd hkk hne
      | cons d ds =>
        simp only [Rule.under, litSyms, hkk, List.map_cons, List.cons_append, List.cons.injEq,
          Sym.lit.injEq] at hq
        simp [hq.1]
    unfold Matches at hma hmb
    rw [hq] at hma
    rw [hq'] at hmb
    have h1 := matches_lit_head hma
    have h2 := matches_lit_head hmb
    rw [h1] at h2
    have : c = c' := by simpa using h2
    subst this
    exact hdist k' hk' (by rw [hc', hkc])
end

end Ombott.Router
