import OmbottModel.Py.Regex
/-! Facts about the backtracking matcher `Py.Regex.m` (used for the `http.cookies` tokeniser, C15):
unfolding equations, "the continuation is only called on suffixes", and success lemmas for
greedy/lazy repetition when each iteration is deterministic. -/
namespace Py.Regex

variable {R : Type}

@[simp] theorem orElse'_none {α} (b : Unit → Option α) : orElse' none b = b () := rfl
@[simp] theorem orElse'_some {α} (x : α) (b : Unit → Option α) : orElse' (some x) b = some x := rfl

theorem m_zero (re : Re) (s : List Char) (c : Caps) (k : List Char → Caps → Option R) : m 0 re s c k = none := rfl

theorem m_eps (f : Nat) (s : List Char) (c : Caps) (k : List Char → Caps → Option R) :
    m (f + 1) .eps s c k = k s c := rfl

theorem m_eos_nil (f : Nat) (c : Caps) (k : List Char → Caps → Option R) : m (f + 1) .eos [] c k = k [] c := rfl

theorem m_eos_cons (f : Nat) (x : Char) (t : List Char) (c : Caps) (k : List Char → Caps → Option R) :
    m f .eos (x :: t) c k = none := by cases f <;> rfl

theorem m_cls_nil (f : Nat) (p : Char → Bool) (c : Caps) (k : List Char → Caps → Option R) :
    m f (.cls p) [] c k = none := by cases f <;> rfl

theorem m_cls_pos (f : Nat) (p : Char → Bool) (x : Char) (t : List Char) (c : Caps)
    (k : List Char → Caps → Option R) (h : p x = true) : m (f + 1) (.cls p) (x :: t) c k = k t c := by
  simp [m, h]

theorem m_cls_neg (f : Nat) (p : Char → Bool) (x : Char) (t : List Char) (c : Caps)
    (k : List Char → Caps → Option R) (h : p x = false) : m f (.cls p) (x :: t) c k = none := by
  cases f <;> simp [m, h]

theorem m_seq (f : Nat) (a b : Re) (s : List Char) (c : Caps) (k : List Char → Caps → Option R) :
    m (f + 1) (.seq a b) s c k = m f a s c fun s' c' => m f b s' c' k := rfl

theorem m_alt (f : Nat) (a b : Re) (s : List Char) (c : Caps) (k : List Char → Caps → Option R) :
    m (f + 1) (.alt a b) s c k = orElse' (m f a s c k) fun _ => m f b s c k := rfl

theorem m_grp (f : Nat) (i : Nat) (a : Re) (s : List Char) (c : Caps) (k : List Char → Caps → Option R) :
    m (f + 1) (.grp i a) s c k = m f a s c fun s' c' => k s' (capSet c' i (s, s')) := rfl

theorem m_star_greedy (f : Nat) (a : Re) (s : List Char) (c : Caps) (k : List Char → Caps → Option R) :
    m (f + 1) (.star a true) s c k =
      orElse' (m f a s c fun s' c' => if s'.length < s.length then m f (.star a true) s' c' k else none)
        fun _ => k s c := rfl

theorem m_star_lazy (f : Nat) (a : Re) (s : List Char) (c : Caps) (k : List Char → Caps → Option R) :
    m (f + 1) (.star a false) s c k =
      orElse' (k s c) fun _ =>
        m f a s c fun s' c' => if s'.length < s.length then m f (.star a false) s' c' k else none := rfl

theorem m_rep (f : Nat) (a : Re) (lo hi : Nat) (s : List Char) (c : Caps) (k : List Char → Caps → Option R) :
    m (f + 1) (.rep a lo hi) s c k =
      if hi = 0 then k s c else
      orElse' (m f a s c fun s' c' => m f (.rep a (lo - 1) (hi - 1)) s' c' k)
        fun _ => if lo = 0 then k s c else none := rfl

/-- the matcher only ever calls its continuation on suffixes of the input: if the continuation
fails on all of them, the match fails -/
theorem m_none_of_cont_none (f : Nat) (re : Re) (s : List Char) (c : Caps) (k : List Char → Caps → Option R)
    (hk : ∀ s' c', s' <:+ s → k s' c' = none) : m f re s c k = none := by
  induction f generalizing re s c k with
  | zero => rfl
  | succ f ih =>
    cases re with
    | eps => exact hk s c (List.suffix_refl s)
    | eos =>
      cases s with
      | nil => exact hk [] c (List.suffix_refl _)
      | cons x t => exact m_eos_cons _ x t c k
    | cls p =>
      cases s with
      | nil => rfl
      | cons x t =>
        by_cases hp : p x = true
        · rw [m_cls_pos f p x t c k hp]; exact hk t c (List.suffix_cons x t)
        · exact m_cls_neg _ p x t c k (by simpa using hp)
    | seq a b =>
      rw [m_seq]
      apply ih
      intro s' c' hs'
      apply ih
      intro s'' c'' hs''
      exact hk s'' c'' (hs''.trans hs')
    | alt a b =>
      rw [m_alt, ih a s c k hk, orElse'_none, ih b s c k hk]
    | star a g =>
      cases g with
      | true =>
        rw [m_star_greedy]
        rw [ih a s c _ (by
          intro s' c' hs'
          split
          · apply ih; intro s'' c'' hs''; exact hk s'' c'' (hs''.trans hs')
          · rfl)]
        exact hk s c (List.suffix_refl s)
      | false =>
        rw [m_star_lazy, hk s c (List.suffix_refl s), orElse'_none]
        apply ih
        intro s' c' hs'
        split
        · apply ih; intro s'' c'' hs''; exact hk s'' c'' (hs''.trans hs')
        · rfl
    | rep a lo hi =>
      rw [m_rep]
      split
      · exact hk s c (List.suffix_refl s)
      · rw [ih a s c _ (by
          intro s' c' hs'
          apply ih; intro s'' c'' hs''; exact hk s'' c'' (hs''.trans hs')), orElse'_none]
        split
        · exact hk s c (List.suffix_refl s)
        · rfl
    | grp i a =>
      rw [m_grp]
      apply ih
      intro s' c' hs'
      exact hk s' _ hs'

/-- with fuel ≥ `D`, `a` matches exactly the unit `u` at the head of any input and hands the rest
to its continuation, with no other way to match -/
def Exact (a : Re) (u : List Char) (D : Nat) : Prop :=
  u ≠ [] ∧ ∀ (R : Type) (g : Nat) (t : List Char) (c : Caps) (k : List Char → Caps → Option R),
    D ≤ g → m g a (u ++ t) c k = k t c

/-- greedy repetition over deterministic units: if the continuation succeeds after all of them
(and one more iteration is impossible), that is the answer -/
theorem star_greedy_units (a : Re) (D : Nat) (units : List (List Char)) (rest : List Char) (c : Caps)
    (k : List Char → Caps → Option R) (r : R)
    (hu : ∀ u ∈ units, Exact a u D)
    (hrest : ∀ g c' (k' : List Char → Caps → Option R), m g a rest c' k' = none)
    (hk : k rest c = some r) (f : Nat) (hf : units.length + D + 1 ≤ f) :
    m f (.star a true) (units.flatten ++ rest) c k = some r := by
  induction units generalizing f with
  | nil =>
    obtain ⟨f', rfl⟩ : ∃ f', f = f' + 1 := ⟨f - 1, by omega⟩
    simp only [List.flatten_nil, List.nil_append, m_star_greedy, hrest, orElse'_none, hk]
  | cons u us ih =>
    obtain ⟨f', rfl⟩ : ∃ f', f = f' + 1 := ⟨f - 1, by omega⟩
    simp only [List.length_cons] at hf
    obtain ⟨hne, hex⟩ := hu u (by simp)
    rw [List.flatten_cons, List.append_assoc, m_star_greedy, hex _ f' _ _ _ (by omega)]
    have hlen : (us.flatten ++ rest).length < (u ++ (us.flatten ++ rest)).length := by
      have : 0 < u.length := List.length_pos_iff.mpr hne
      simp only [List.length_append]; omega
    rw [if_pos hlen, ih (fun v hv => hu v (by simp [hv])) f' (by omega)]
    rfl

/-- lazy repetition over a character class: the continuation fails before every character of
`pre` and succeeds after the last -/
theorem star_lazy_cls (p : Char → Bool) (pre rest : List Char) (c : Caps)
    (k : List Char → Caps → Option R) (r : R) (hp : ∀ x ∈ pre, p x = true)
    (hfail : ∀ i, i < pre.length → k (pre.drop i ++ rest) c = none)
    (hk : k rest c = some r) (f : Nat) (hf : pre.length + 1 ≤ f) :
    m f (.star (.cls p) false) (pre ++ rest) c k = some r := by
  induction pre generalizing f with
  | nil =>
    obtain ⟨f', rfl⟩ : ∃ f', f = f' + 1 := ⟨f - 1, by omega⟩
    simp only [List.nil_append, m_star_lazy, hk, orElse'_some]
  | cons x xs ih =>
    obtain ⟨f', rfl⟩ : ∃ f', f = f' + 1 := ⟨f - 1, by omega⟩
    simp only [List.length_cons] at hf
    obtain ⟨f'', rfl⟩ : ∃ f'', f' = f'' + 1 := ⟨f' - 1, by omega⟩
    have h0 := hfail 0 (by simp)
    simp only [List.drop_zero] at h0
    rw [m_star_lazy, h0, orElse'_none, List.cons_append, m_cls_pos _ p x _ _ _ (hp x (by simp))]
    have hlen : (xs ++ rest).length < (x :: (xs ++ rest)).length := by simp
    rw [if_pos hlen]
    apply ih (fun y hy => hp y (by simp [hy]))
    · intro i hi
      have := hfail (i + 1) (by simp; omega)
      simpa using this
    · omega

theorem flatten_singletons (l : List Char) : (l.map fun x => [x]).flatten = l := by
  induction l with
  | nil => rfl
  | cons x xs ih => simp [ih]

/-- a single character of the class is an exact unit for `cls p` -/
theorem exact_cls (p : Char → Bool) (x : Char) (h : p x = true) : Exact (.cls p) [x] 1 := by
  refine ⟨by simp, ?_⟩
  intro R g t c k hg
  obtain ⟨g', rfl⟩ : ∃ g', g = g' + 1 := ⟨g - 1, by omega⟩
  exact m_cls_pos g' p x t c k h

/-- greedy `p*` takes all of `pre` when the next character is not in the class -/
theorem star_greedy_cls (p : Char → Bool) (pre rest : List Char) (c : Caps)
    (k : List Char → Caps → Option R) (r : R) (hp : ∀ x ∈ pre, p x = true)
    (hrest : rest = [] ∨ ∃ y t, rest = y :: t ∧ p y = false)
    (hk : k rest c = some r) (f : Nat) (hf : pre.length + 2 ≤ f) :
    m f (.star (.cls p) true) (pre ++ rest) c k = some r := by
  have := star_greedy_units (.cls p) 1 (pre.map fun x => [x]) rest c k r
    (by
      intro u hu
      simp only [List.mem_map] at hu
      obtain ⟨x, hx, rfl⟩ := hu
      exact exact_cls p x (hp x hx))
    (by
      intro g c' k'
      rcases hrest with rfl | ⟨y, t, rfl, hy⟩
      · exact m_cls_nil g p c' k'
      · exact m_cls_neg g p y t c' k' hy)
    hk f (by simp; omega)
  rwa [flatten_singletons] at this

end Py.Regex
