import OmbottModel.Lemmas.RouteUrlLoop
/-!
When `url` is called with the matched values handed back (`splitArgs`: anonymous wildcards
positionally, the others by name), the argument picked for the `i`-th wildcard is the `i`-th
value, so `urlPieces` is `urlSpec` and `Route.url` is `buildUrl`.
-/
namespace Ombott.RouteUrl
open Py Ombott.Router

theorem splitArgs_cons (n : Str) (ns : List Str) (v : Val) (vs : List Val) :
    splitArgs (n :: ns) (v :: vs) =
      if isAnon n then (v :: (splitArgs ns vs).1, (splitArgs ns vs).2)
      else ((splitArgs ns vs).1, (n, v) :: (splitArgs ns vs).2) := by
  simp only [splitArgs]

/-- number of anonymous names -/
def countAnon (ns : List Str) : Nat := (ns.filter isAnon).length

theorem countAnon_cons (n : Str) (ns : List Str) :
    countAnon (n :: ns) = (if isAnon n then 1 else 0) + countAnon ns := by
  unfold countAnon
  by_cases h : isAnon n = true
  · simp [List.filter, h, Nat.add_comm]
  · simp [List.filter, h]

theorem countAnon_take_succ (ns : List Str) (i : Nat) (n : Str) (h : ns[i]? = some n) :
    countAnon (ns.take (i + 1)) = countAnon (ns.take i) + (if isAnon n then 1 else 0) := by
  induction ns generalizing i with
  | nil => simp at h
  | cons n0 ns ih =>
    cases i with
    | zero =>
      simp only [List.getElem?_cons_zero, Option.some.injEq] at h
      subst h
      by_cases h0 : isAnon n0 = true <;> simp [countAnon, List.filter, h0]
    | succ j =>
      simp only [List.getElem?_cons_succ] at h
      simp only [List.take_succ_cons, countAnon_cons, ih j h]
      omega

/-- the positional argument of an anonymous wildcard is its matched value -/
theorem splitArgs_anon : ∀ (ns : List Str) (vs : List Val) (i : Nat) (n : Str) (v : Val),
    ns[i]? = some n → vs[i]? = some v → isAnon n = true →
    (splitArgs ns vs).1[countAnon (ns.take i)]? = some v := by
  intro ns
  induction ns with
  | nil => intro vs i n v h; simp at h
  | cons n0 ns ih =>
    intro vs i n v hn hv ha
    cases vs with
    | nil => simp at hv
    | cons v0 vs =>
      rw [splitArgs_cons]
      cases i with
      | zero =>
        simp only [List.getElem?_cons_zero, Option.some.injEq] at hn hv
        subst hn; subst hv
        simp [ha, countAnon]
      | succ j =>
        simp only [List.getElem?_cons_succ] at hn hv
        have := ih vs j n v hn hv ha
        simp only [List.take_succ_cons, countAnon_cons]
        by_cases h0 : isAnon n0 = true
        · simp only [h0, if_true]
          rw [Nat.add_comm, List.getElem?_cons_succ]; exact this
        · simp only [h0, Bool.false_eq_true, if_false, Nat.zero_add]; exact this

theorem dictGet_cons_ne {α β} [BEq α] [LawfulBEq α] (k k' : α) (v : β) (d : List (α × β)) (h : k' ≠ k) :
    dictGet ((k', v) :: d) k = dictGet d k := by
  unfold dictGet
  have : ((k', v).1 == k) = false := by simpa using h
  rw [List.find?_cons, this]

theorem dictGet_cons_eq {α β} [BEq α] [LawfulBEq α] (k : α) (v : β) (d : List (α × β)) :
    dictGet ((k, v) :: d) k = some v := by
  unfold dictGet
  simp

/-- the keyword argument of a named wildcard is its matched value (names are distinct) -/
theorem splitArgs_named : ∀ (ns : List Str) (vs : List Val) (i : Nat) (n : Str) (v : Val),
    ns.Nodup → ns[i]? = some n → vs[i]? = some v → isAnon n = false →
    dictGet (splitArgs ns vs).2 n = some v := by
  intro ns
  induction ns with
  | nil => intro vs i n v _ h; simp at h
  | cons n0 ns ih =>
    intro vs i n v hnd hn hv ha
    cases vs with
    | nil => simp at hv
    | cons v0 vs =>
      rw [splitArgs_cons]
      have hnd' := (List.nodup_cons.mp hnd)
      cases i with
      | zero =>
        simp only [List.getElem?_cons_zero, Option.some.injEq] at hn hv
        subst hn; subst hv
        simp only [ha, Bool.false_eq_true, if_false]
        exact dictGet_cons_eq _ _ _
      | succ j =>
        simp only [List.getElem?_cons_succ] at hn hv
        have := ih vs j n v hnd'.2 hn hv ha
        by_cases h0 : isAnon n0 = true
        · simp only [h0, if_true]; exact this
        · simp only [h0, Bool.false_eq_true, if_false]
          have hne : n0 ≠ n := by
            intro he; subst he
            exact hnd'.1 (List.mem_of_getElem? hn)
          rw [dictGet_cons_ne _ _ _ _ hne]; exact this

/-- the arguments of the call the property describes -/
def matchedArgs (p : List Sym) (ns : List Str) (vs : List Val) : UrlArgs :=
  { patOut := patStr p, params := ns, filters := tokFilters p,
    args := (splitArgs ns vs).1, kw := (splitArgs ns vs).2 }

theorem pickPiece_matched (env : FilterEnv) (fenv : FormatEnv) (p : List Sym) (ns : List Str) (vs : List Val)
    (hnd : ns.Nodup) (i : Nat) (n : Str) (v : Val) (f : Option Fid) (nxt : Str)
    (hn : ns[i]? = some n) (hv : vs[i]? = some v) (hf : (tokFilters p)[i]? = some f) :
    pickPiece env fenv (matchedArgs p ns vs) i (countAnon (ns.take i)) nxt =
      (match piece env fenv f nxt v with
        | .error e => Except.error e
        | .ok prt => .ok (prt, countAnon (ns.take (i + 1)))) := by
  unfold pickPiece piece
  simp only [matchedArgs, hn, hf, bind, Except.bind, pure, Except.pure]
  rw [countAnon_take_succ ns i n hn]
  by_cases ha : isAnon n = true
  · simp only [ha, if_true, splitArgs_anon ns vs i n v hn hv ha]
    cases fmtOut fenv f v with
    | error e => rfl
    | ok prt =>
      dsimp only
      cases sanity env f prt nxt <;> rfl
  · have ha' : isAnon n = false := by simpa using ha
    simp only [ha', Bool.false_eq_true, if_false, splitArgs_named ns vs i n v hnd hn hv ha', Nat.add_zero]
    cases fmtOut fenv f v with
    | error e => rfl
    | ok prt =>
      dsimp only
      cases sanity env f prt nxt <;> rfl

/-- with the matched values handed back, the pieces are those of the spec -/
theorem urlPieces_eq_spec (env : FilterEnv) (fenv : FormatEnv) (p : List Sym) (ns : List Str) (vs : List Val)
    (hnd : ns.Nodup) :
    ∀ (q : List Sym) (i : Nat), (tokFilters p).drop i = tokFilters q →
      ns.length = i + tokCount q → vs.length = i + tokCount q →
      urlPieces env fenv (matchedArgs p ns vs) q i (countAnon (ns.take i)) = urlSpec env fenv q (vs.drop i) := by
  intro q
  induction q with
  | nil => intro i _ _ _; rfl
  | cons s q ih =>
    intro i hf hl hv
    cases s with
    | lit c =>
      simp only [urlPieces, urlSpec, ih i hf hl hv]
      cases urlSpec env fenv q (vs.drop i) <;> rfl
    | tok f =>
      simp only [tokCount] at hl hv
      simp only [tokFilters] at hf
      have hi1 : i < ns.length := by omega
      have hi2 : i < vs.length := by omega
      have hfi : (tokFilters p)[i]? = some f := by
        have := congrArg List.head? hf
        simpa [List.head?_drop] using this
      have hdrop : (tokFilters p).drop (i + 1) = tokFilters q := by
        have := congrArg List.tail hf
        simpa [List.tail_drop] using this
      have hvd : vs.drop i = vs[i] :: vs.drop (i + 1) := (List.drop_eq_getElem_cons hi2)
      rw [hvd]
      simp only [urlPieces, urlSpec]
      rw [pickPiece_matched env fenv p ns vs hnd i ns[i] vs[i] f (litRun q)
        (List.getElem?_eq_getElem hi1) (List.getElem?_eq_getElem hi2) hfi]
      cases piece env fenv f (litRun q) vs[i] with
      | error e => rfl
      | ok prt =>
        simp only [bind, Except.bind, pure, Except.pure]
        rw [ih (i + 1) hdrop (by omega) (by omega)]
        cases urlSpec env fenv q (vs.drop (i + 1)) <;> rfl

/-- a pattern without wildcards builds its own text -/
theorem buildUrl_noTok (env : FilterEnv) (fenv : FormatEnv) (p : List Sym) (h : tokCount p = 0) (vs : List Val) :
    buildUrl env fenv p vs = .ok (patStr p) := by
  induction p with
  | nil => rfl
  | cons s p ih =>
    cases s with
    | lit c =>
      rw [buildUrl_lit, ih (by simpa [tokCount] using h)]
      rfl
    | tok f => simp [tokCount] at h

/-- **`Route.url` on the matched values is `buildUrl`** -/
theorem urlOf_matched (env : FilterEnv) (fenv : FormatEnv) (p : List Sym) (ns : List Str) (vs : List Val)
    (hn : NoMarkerLit p) (hnd : ns.Nodup) (hl : ns.length = tokCount p) (hv : vs.length = tokCount p) :
    urlOf env fenv (matchedArgs p ns vs) = buildUrl env fenv p vs := by
  by_cases he : ns.isEmpty = true
  · have h0 : tokCount p = 0 := by
      rw [← hl]; simpa using he
    rw [buildUrl_noTok env fenv p h0]
    unfold urlOf
    simp [matchedArgs, he]
  · have he' : (matchedArgs p ns vs).params.isEmpty = false := by simpa [matchedArgs] using he
    rw [urlOf_eq_pieces env fenv _ p rfl hn he']
    have := urlPieces_eq_spec env fenv p ns vs hnd p 0 rfl (by simpa using hl) (by simpa using hv)
    simp only [List.take_zero, List.drop_zero] at this
    have h0 : countAnon [] = 0 := rfl
    rw [h0] at this
    rw [this]
    unfold buildUrl
    cases urlSpec env fenv p vs <;> rfl

end Ombott.RouteUrl
