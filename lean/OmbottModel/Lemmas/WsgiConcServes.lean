import OmbottModel.Model.WsgiConc
import OmbottModel.Lemmas.TsProps
/-!
The programs `Model/WsgiConc.lean` builds for a request of application `a` that does not call into
another application satisfy `Prog.Serves a`: every step is tagged `a` and every attribute it names
is in the generated thread-local lists.  This is what makes `one_app_noninterference` applicable to
the programs the driver runs.
-/
namespace Ombott.WsgiConc
open Py Ombott.TsProps

theorem req_attr_environ : "environ" ∈ propsOf .request := by decide
theorem req_attr_env_get : "_env_get" ∈ propsOf .request := by decide
theorem resp_attrs : "_status_line" ∈ propsOf .response ∧ "_status_code" ∈ propsOf .response ∧
    "_headers" ∈ propsOf .response ∧ "_cookies" ∈ propsOf .response ∧ "body" ∈ propsOf .response := by
  decide

theorem serves_ite {a : AppId} {c : Prop} [Decidable c] {p q : Prog} (hp : p.Serves a) (hq : q.Serves a) :
    (if c then p else q).Serves a := by
  split <;> assumption

theorem initNones_serves (a : AppId) (o : Obj) (c : Cls) (hc : o.cls = c) (ps : List Attr)
    (hps : ∀ p ∈ ps, p ∈ propsOf c) (k : Prog) (hk : k.Serves a) :
    (ps.foldr (fun p k => Prog.step a (.initNone o p) fun _ => k) k).Serves a := by
  induction ps with
  | nil => exact hk
  | cons p ps ih =>
    simp only [List.foldr_cons]
    refine Prog.Serves.step _ _ trivial (fun _ => ih (fun q hq => hps q (by simp [hq])))

theorem initWrapper_serves (a : AppId) (o : Obj) (c : Cls) (hc : o.cls = c) (k : Prog) (hk : k.Serves a) :
    (initWrapper a o c k).Serves a := by
  unfold initWrapper
  refine Prog.Serves.step _ _ trivial (fun _ => initNones_serves a o c hc _ (fun _ h => h) k hk)

theorem requestInit_serves (a : AppId) (o : Obj) (ho : o.cls = .request) (env : Reg) (k : Prog)
    (hk : k.Serves a) : (requestInit a o env k).Serves a := by
  unfold requestInit
  apply initWrapper_serves a o .request ho
  refine Prog.Serves.step _ _ (by simp only [Access.attrOk, ho]; exact req_attr_environ) fun _ => ?_
  refine Prog.Serves.step _ _ (by simp only [Access.attrOk, ho]; exact req_attr_env_get) fun _ => ?_
  refine Prog.Serves.step _ _ (by simp only [Access.attrOk, ho]; exact req_attr_environ) fun _ => ?_
  exact Prog.Serves.step _ _ trivial fun _ => hk

theorem responseInit_serves (a : AppId) (k : Prog) (hk : k.Serves a) : (responseInit a k).Serves a := by
  unfold responseInit
  apply initWrapper_serves a .response .response rfl
  refine Prog.Serves.step _ _ resp_attrs.1 fun _ => ?_
  refine Prog.Serves.step _ _ resp_attrs.2.1 fun _ => ?_
  refine Prog.Serves.step _ _ resp_attrs.2.2.2.1 fun _ => ?_
  refine Prog.Serves.step _ _ trivial fun _ => ?_
  refine Prog.Serves.step _ _ resp_attrs.2.2.1 fun _ => ?_
  refine Prog.Serves.step _ _ resp_attrs.2.2.1 fun _ => ?_
  refine Prog.Serves.step _ _ trivial fun _ => ?_
  refine Prog.Serves.step _ _ resp_attrs.2.2.2.2 fun _ => ?_
  refine Prog.Serves.step _ _ resp_attrs.2.1 fun _ => ?_
  exact Prog.Serves.step _ _ resp_attrs.1 fun _ => hk

theorem constructApp_serves (a : AppId) (k : Prog) (hk : k.Serves a) : (constructApp a k).Serves a := by
  unfold constructApp
  refine Prog.Serves.step _ _ trivial fun _ => ?_
  apply requestInit_serves a .request rfl
  refine Prog.Serves.step _ _ trivial fun _ => ?_
  refine Prog.Serves.step _ _ trivial fun _ => ?_
  exact responseInit_serves a k hk

theorem cacheIn_serves (a : AppId) (o : Obj) (ho : o.cls = .request) (d : Nat) (key : String)
    (getter : (PVal → Prog) → Prog) (k : PVal → Prog)
    (hg : ∀ ret, (∀ v, (ret v).Serves a) → (getter ret).Serves a) (hk : ∀ v, (k v).Serves a) :
    (cacheIn a o d key getter k).Serves a := by
  unfold cacheIn
  refine Prog.Serves.step _ _ (by simp only [Access.attrOk, ho]; exact req_attr_environ) fun _ => ?_
  refine Prog.Serves.step _ _ trivial fun r => ?_
  split
  · exact Prog.Serves.step _ _ trivial fun _ => hk _
  · apply hg
    intro v
    exact Prog.Serves.step _ _ trivial fun _ => Prog.Serves.step _ _ trivial fun _ => hk _

theorem envGet_serves (a : AppId) (o : Obj) (ho : o.cls = .request) (key : String) (k : PVal → Prog)
    (hk : ∀ v, (k v).Serves a) : (envGet a o key k).Serves a := by
  unfold envGet
  refine Prog.Serves.step _ _ (by simp only [Access.attrOk, ho]; exact req_attr_env_get) fun _ => ?_
  exact Prog.Serves.step _ _ trivial fun _ => hk _

theorem environGet_serves (a : AppId) (o : Obj) (ho : o.cls = .request) (key : String) (k : PVal → Prog)
    (hk : ∀ v, (k v).Serves a) : (environGet a o key k).Serves a := by
  unfold environGet
  refine Prog.Serves.step _ _ (by simp only [Access.attrOk, ho]; exact req_attr_environ) fun _ => ?_
  exact Prog.Serves.step _ _ trivial fun _ => hk _

theorem reqPath_serves (a : AppId) (o : Obj) (ho : o.cls = .request) (k : PVal → Prog)
    (hk : ∀ v, (k v).Serves a) : (reqPath a o k).Serves a :=
  envGet_serves a o ho _ _ fun _ => hk _

theorem reqContentLength_serves (a : AppId) (o : Obj) (ho : o.cls = .request) (d : Nat) (k : PVal → Prog)
    (hk : ∀ v, (k v).Serves a) : (reqContentLength a o d k).Serves a :=
  cacheIn_serves a o ho d _ _ _ (fun _ hret => environGet_serves a o ho _ _ fun v => hret v) hk

theorem reqContentType_serves (a : AppId) (o : Obj) (ho : o.cls = .request) (d : Nat) (k : PVal → Prog)
    (hk : ∀ v, (k v).Serves a) : (reqContentType a o d k).Serves a :=
  cacheIn_serves a o ho d _ _ _ (fun _ hret => environGet_serves a o ho _ _ fun v => hret v) hk

theorem reqBodyObj_serves (a : AppId) (o : Obj) (ho : o.cls = .request) (d : Nat) (k : PVal → Prog)
    (hk : ∀ v, (k v).Serves a) : (reqBodyObj a o d k).Serves a := by
  unfold reqBodyObj
  apply cacheIn_serves a o ho d _ _ _ _ hk
  intro ret hret
  apply environGet_serves a o ho; intro _
  apply environGet_serves a o ho; intro _
  apply environGet_serves a o ho; intro _
  apply reqContentLength_serves a o ho; intro _
  apply environGet_serves a o ho; intro _
  refine Prog.Serves.step _ _ (by simp only [Access.attrOk, ho]; exact req_attr_environ) fun _ => ?_
  exact Prog.Serves.step _ _ trivial fun _ => Prog.Serves.step _ _ trivial fun _ => hret _

theorem reqPost_serves (a : AppId) (o : Obj) (ho : o.cls = .request) (d : Nat) (k : PVal → Prog)
    (hk : ∀ v, (k v).Serves a) : (reqPost a o d k).Serves a := by
  unfold reqPost
  apply cacheIn_serves a o ho d _ _ _ _ hk
  intro ret hret
  refine Prog.Serves.step _ _ (by simp only [Access.attrOk, ho]; exact req_attr_environ) fun _ => ?_
  refine Prog.Serves.step _ _ trivial fun _ => ?_
  apply reqContentType_serves a o ho; intro ct
  refine serves_ite ?_ ?_
  · refine Prog.Serves.step _ _ trivial fun _ => ?_
    exact reqBodyObj_serves a o ho _ _ fun _ => hret _
  · apply reqBodyObj_serves a o ho; intro _
    apply reqBodyObj_serves a o ho; intro _
    apply reqContentLength_serves a o ho; intro _
    exact Prog.Serves.step _ _ trivial fun _ => hret _

theorem reqUrl_serves (a : AppId) (o : Obj) (ho : o.cls = .request) (d : Nat) (k : PVal → Prog)
    (hk : ∀ v, (k v).Serves a) : (reqUrl a o d k).Serves a := by
  unfold reqUrl
  apply cacheIn_serves a o ho d _ _ _ _ hk
  intro ret hret
  apply cacheIn_serves a o ho _ _ _ _ _ (fun v => hret v)
  intro ret2 hret2
  refine Prog.Serves.step _ _ (by simp only [Access.attrOk, ho]; exact req_attr_env_get) fun _ => ?_
  refine Prog.Serves.step _ _ trivial fun _ => ?_
  refine Prog.Serves.step _ _ trivial fun _ => ?_
  apply cacheIn_serves a o ho
  · intro ret3 hret3
    apply envGet_serves a o ho; intro _
    apply cacheIn_serves a o ho
    · intro ret4 hret4
      refine Prog.Serves.step _ _ (by simp only [Access.attrOk, ho]; exact req_attr_env_get) fun _ => ?_
      exact Prog.Serves.step _ _ trivial fun _ => hret4 _
    · intro _
      exact reqPath_serves a o ho _ fun p => hret3 p
  · intro _
    exact Prog.Serves.step _ _ trivial fun _ => hret2 _

theorem obsRead_serves (a : AppId) (v : PVal) (k : Prog) (hk : k.Serves a) : (obsRead a v k).Serves a :=
  Prog.Serves.emit _ _ hk

theorem obsCopy_serves (a : AppId) (v : PVal) (k : Prog) (hk : k.Serves a) : (obsCopy a v k).Serves a :=
  Prog.Serves.emit _ _ hk

theorem hdOp_serves (a : AppId) (op : DictOp) (k : Res → Prog) (hk : ∀ r, (k r).Serves a) :
    (hdOp a op k).Serves a :=
  Prog.Serves.step _ _ trivial fun _ => Prog.Serves.step _ _ trivial hk

theorem setStatus_serves (a : AppId) (code : Int) (line : String) (k : Prog) (hk : k.Serves a) :
    (setStatus a code line k).Serves a :=
  Prog.Serves.step _ _ resp_attrs.2.1 fun _ => Prog.Serves.step _ _ resp_attrs.1 fun _ => hk

theorem setItems_serves (a : AppId) (r : Reg) (l : List (String × String)) (k : Prog) (hk : k.Serves a) :
    (setItems a r l k).Serves a := by
  induction l with
  | nil => exact hk
  | cons x l ih => exact Prog.Serves.step _ _ trivial fun _ => ih

theorem applyTo_serves (a : AppId) (code : Int) (line body : String) (hdrs : List (String × String))
    (k : Prog) (hk : k.Serves a) : (applyTo a code line body hdrs k).Serves a := by
  unfold applyTo
  refine Prog.Serves.step _ _ resp_attrs.2.1 fun _ => ?_
  refine Prog.Serves.step _ _ resp_attrs.1 fun _ => ?_
  refine Prog.Serves.step _ _ resp_attrs.2.2.1 fun _ => ?_
  refine Prog.Serves.step _ _ trivial fun _ => ?_
  refine Prog.Serves.step _ _ resp_attrs.2.2.1 fun _ => ?_
  apply setItems_serves
  exact Prog.Serves.step _ _ resp_attrs.2.2.2.2 fun _ => hk

theorem errField_serves (a : AppId) (src : ErrSrc) (f : Attr) (k : Res → Prog)
    (hk : ∀ r, (k r).Serves a) : (errField a src f k).Serves a := by
  cases src with
  | shared e => exact Prog.Serves.step _ _ trivial hk
  | fresh code line text hdrs exc tb => simp only [errField]; exact hk _

theorem setItemsD_serves (a : AppId) (r : Reg) (l : Dict) (k : Prog) (hk : k.Serves a) :
    (setItemsD a r l k).Serves a := by
  induction l with
  | nil => exact hk
  | cons x l ih => exact Prog.Serves.step _ _ trivial fun _ => ih

theorem applyErr_serves (a : AppId) (src : ErrSrc) (k : Prog) (hk : k.Serves a) :
    (applyErr a src k).Serves a := by
  unfold applyErr
  apply errField_serves; intro _
  refine Prog.Serves.step _ _ resp_attrs.2.1 fun _ => ?_
  apply errField_serves; intro _
  refine Prog.Serves.step _ _ resp_attrs.1 fun _ => ?_
  refine Prog.Serves.step _ _ resp_attrs.2.2.1 fun _ => ?_
  refine Prog.Serves.step _ _ trivial fun _ => ?_
  refine Prog.Serves.step _ _ resp_attrs.2.2.1 fun _ => ?_
  apply errField_serves; intro _
  apply setItemsD_serves
  apply errField_serves; intro _
  apply errField_serves; intro _
  exact Prog.Serves.step _ _ resp_attrs.2.2.2.2 fun _ => hk

theorem reqIsJson_serves (a : AppId) (k : PVal → Prog) (hk : ∀ v, (k v).Serves a) :
    (reqIsJson a k).Serves a := by
  unfold reqIsJson
  apply cacheIn_serves a .request rfl
  · intro ret hret
    exact envGet_serves a .request rfl _ _ fun _ => hret _
  · exact hk

theorem defaultErrorHandler_serves (a : AppId) (debug : Bool) (src : ErrSrc) (k : String → Prog)
    (hk : ∀ s, (k s).Serves a) : (defaultErrorHandler a debug src k).Serves a := by
  unfold defaultErrorHandler
  apply reqIsJson_serves; intro j
  refine serves_ite ?_ ?_
  · apply errField_serves; intro _
    apply errField_serves; intro _
    apply errField_serves; intro _
    exact hdOp_serves a _ _ fun _ => hk _
  · apply reqUrl_serves a .request rfl; intro u
    refine serves_ite ?_ ?_
    · apply errField_serves; intro _
      apply errField_serves; intro _
      refine Prog.Serves.step _ _ trivial fun _ => ?_
      apply errField_serves; intro _
      apply errField_serves; intro _
      exact hk _
    · refine Prog.Serves.step _ _ trivial fun _ => ?_
      apply errField_serves; intro _
      apply errField_serves; intro _
      exact hk _

theorem customErrorHandler_serves (a : AppId) (src : ErrSrc) (k : String → Prog)
    (hk : ∀ s, (k s).Serves a) : (customErrorHandler a src k).Serves a := by
  unfold customErrorHandler
  refine Prog.Serves.step _ _ resp_attrs.1 fun _ => Prog.Serves.emit _ _ ?_
  refine hdOp_serves a _ _ fun _ => Prog.Serves.emit _ _ ?_
  refine hdOp_serves a _ _ fun _ => Prog.Serves.emit _ _ ?_
  exact errField_serves a src _ _ fun _ => hk _

theorem castText_serves (a : AppId) (s : String) (b : Bool) (k : String → Prog)
    (hk : ∀ s, (k s).Serves a) : (castText a s b k).Serves a := by
  unfold castText
  split
  · exact hdOp_serves a _ _ fun _ => hk _
  · exact hdOp_serves a _ _ fun _ => hdOp_serves a _ _ fun _ => hk _

theorem castEmpty_serves (a : AppId) (k : String → Prog) (hk : ∀ s, (k s).Serves a) :
    (castEmpty a k).Serves a :=
  hdOp_serves a _ _ fun _ => hk _

theorem cast_serves (a : AppId) (debug : Bool) (custom : List Int) (o : Out) (k : String → Prog)
    (hk : ∀ s, (k s).Serves a) : (cast a debug custom o k).Serves a := by
  cases o with
  | empty => exact castEmpty_serves a k hk
  | text s => simp only [cast]; split; exact castEmpty_serves a k hk; exact castText_serves a _ _ k hk
  | bytes s => simp only [cast]; split; exact castEmpty_serves a k hk; exact castText_serves a _ _ k hk
  | resp code line body hdrs =>
    simp only [cast]
    apply applyTo_serves
    split
    · exact castEmpty_serves a k hk
    · exact castText_serves a _ _ k hk
  | err src =>
    simp only [cast]
    apply applyErr_serves
    apply errField_serves; intro rc
    have hafter : ∀ page : String,
        (if page == "" then castEmpty a k else castText a page false k).Serves a :=
      fun page => serves_ite (castEmpty_serves a k hk) (castText_serves a _ _ k hk)
    refine serves_ite ?_ ?_
    · exact customErrorHandler_serves a src _ hafter
    · exact defaultErrorHandler_serves a debug src _ hafter

theorem finishCookies_serves (a : AppId) (status : String) (hl : List (String × String)) (body : String)
    (k : Prog) (hk : k.Serves a) : (finishCookies a status hl body k).Serves a := by
  unfold finishCookies
  refine Prog.Serves.step _ _ resp_attrs.2.2.2.1 fun rk => ?_
  cases rk with
  | ref =>
    refine Prog.Serves.step _ _ trivial fun rj => ?_
    exact serves_ite (Prog.Serves.emit _ _ hk)
      (Prog.Serves.step _ _ resp_attrs.2.2.2.1 fun _ => Prog.Serves.emit _ _ hk)
  | val v => exact Prog.Serves.emit _ _ hk
  | items d => exact Prog.Serves.emit _ _ hk
  | err e => exact Prog.Serves.emit _ _ hk

theorem finishHeaders_serves (a : AppId) (body : String) (k : Prog) (hk : k.Serves a) :
    (finishHeaders a body k).Serves a := by
  unfold finishHeaders
  refine Prog.Serves.step _ _ resp_attrs.1 fun rl => ?_
  refine Prog.Serves.step _ _ resp_attrs.2.2.1 fun _ => ?_
  refine Prog.Serves.step _ _ trivial fun ri => ?_
  refine Prog.Serves.step _ _ resp_attrs.2.1 fun rc => ?_
  refine serves_ite ?_ (finishCookies_serves a _ _ _ k hk)
  refine Prog.Serves.step _ _ resp_attrs.2.2.1 fun _ => ?_
  refine Prog.Serves.step _ _ trivial fun rh => ?_
  exact finishCookies_serves a _ _ _ k hk

theorem finish_serves (a : AppId) (isHead : Bool) (body : String) (k : Prog) (hk : k.Serves a) :
    (finish a isHead body k).Serves a := by
  unfold finish
  refine Prog.Serves.step _ _ resp_attrs.2.1 fun r1 => ?_
  refine serves_ite (finishHeaders_serves a _ k hk) ?_
  exact Prog.Serves.step _ _ resp_attrs.2.1 fun r2 => finishHeaders_serves a _ k hk

theorem obtain_serves (a : AppId) (what : String) (k : Prog) (hk : k.Serves a) :
    (obtain a what k).Serves a := by
  have hq : ∀ ret : PVal → Prog, (∀ v, (ret v).Serves a) →
      (envGet a .request "QUERY_STRING" fun _ =>
        Prog.step a (.fget .request "environ" rTmp) fun _ =>
        Prog.step a (.dOp rTmp (.set "ombott.request.get" (.str "<query>"))) fun _ => ret (.str "<query>")).Serves a :=
    fun ret hret => envGet_serves a .request rfl _ _ fun _ =>
      Prog.Serves.step _ _ req_attr_environ fun _ => Prog.Serves.step _ _ trivial fun _ => hret _
  have hf : ∀ (d : Nat) (ret : PVal → Prog), (∀ v, (ret v).Serves a) →
      (reqPost a .request (d + 1) fun _ => environGet a .request "ombott.request.forms" fun v => ret v).Serves a :=
    fun d ret hret => reqPost_serves a .request rfl _ _ fun _ => environGet_serves a .request rfl _ _ fun v => hret v
  unfold obtain
  simp only []
  refine serves_ite (cacheIn_serves a .request rfl _ _ _ _ hq fun _ => hk) ?_
  refine serves_ite (cacheIn_serves a .request rfl _ _ _ _
    (fun ret hret => envGet_serves a .request rfl _ _ fun _ => hret _) fun _ => hk) ?_
  refine serves_ite (cacheIn_serves a .request rfl _ _ _ _
    (fun ret hret => Prog.Serves.step _ _ req_attr_environ fun _ => hret _) fun _ => hk) ?_
  refine serves_ite (cacheIn_serves a .request rfl _ _ _ _ (hf 0) fun _ => hk) ?_
  refine serves_ite (reqPost_serves a .request rfl _ _ fun _ => hk) ?_
  refine serves_ite (cacheIn_serves a .request rfl _ _ _ _
    (fun ret hret => reqPost_serves a .request rfl _ _ fun _ =>
      environGet_serves a .request rfl _ _ fun v => hret v) fun _ => hk) ?_
  refine serves_ite (cacheIn_serves a .request rfl _ _ _ _
    (fun ret hret => cacheIn_serves a .request rfl _ _ _ _ hq fun _ =>
      cacheIn_serves a .request rfl _ _ _ _ (hf 1) fun _ => hret _) fun _ => hk) ?_
  exact serves_ite (cacheIn_serves a .request rfl _ _ _ _ (fun ret hret => hret _) fun _ => hk) hk

theorem hop_serves (nest : Req → Prog → Prog) (a : AppId) (cs : List Nat) (op : HOp)
    (hl : op.isLocal = true) (k : List Nat → Prog) (hk : ∀ cs', (k cs').Serves a) :
    (hop nest a cs op k).Serves a := by
  cases op with
  | path => simp only [hop]; exact reqPath_serves a .request rfl _ fun _ => obsRead_serves a _ _ (hk _)
  | method => simp only [hop]; exact envGet_serves a .request rfl _ _ fun _ => obsRead_serves a _ _ (hk _)
  | query q =>
    simp only [hop]
    apply cacheIn_serves a .request rfl
    · intro ret hret
      apply envGet_serves a .request rfl; intro _
      refine Prog.Serves.step _ _ req_attr_environ fun _ => ?_
      exact Prog.Serves.step _ _ trivial fun _ => hret _
    · intro _
      exact Prog.Serves.step _ _ trivial fun _ => obsRead_serves a _ _ (hk _)
  | cookie c =>
    simp only [hop]
    apply cacheIn_serves a .request rfl
    · intro ret hret
      exact envGet_serves a .request rfl _ _ fun _ => hret _
    · intro _
      exact Prog.Serves.step _ _ trivial fun _ => obsRead_serves a _ _ (hk _)
  | header n key =>
    simp only [hop]
    apply cacheIn_serves a .request rfl
    · intro ret hret
      exact Prog.Serves.step _ _ req_attr_environ fun _ => hret _
    · intro _
      exact Prog.Serves.step _ _ trivial fun _ => obsRead_serves a _ _ (hk _)
  | envGet key => simp only [hop]; exact envGet_serves a .request rfl _ _ fun _ => obsRead_serves a _ _ (hk _)
  | body =>
    simp only [hop]
    apply reqBodyObj_serves a .request rfl; intro _
    exact Prog.Serves.step _ _ trivial fun _ => obsRead_serves a _ _ (hk _)
  | form f =>
    simp only [hop]
    apply cacheIn_serves a .request rfl
    · intro ret hret
      apply reqPost_serves a .request rfl; intro _
      exact environGet_serves a .request rfl _ _ fun _ => hret _
    · intro _
      exact Prog.Serves.step _ _ trivial fun _ => obsRead_serves a _ _ (hk _)
  | file name field =>
    simp only [hop]
    apply cacheIn_serves a .request rfl
    · intro ret hret
      apply reqPost_serves a .request rfl; intro _
      exact environGet_serves a .request rfl _ _ fun _ => hret _
    · intro _
      exact Prog.Serves.step _ _ trivial fun _ => obsRead_serves a _ _ (hk _)
  | dump what =>
    simp only [hop]
    apply obtain_serves
    exact Prog.Serves.step _ _ trivial fun _ => obsRead_serves a _ _ (hk _)
  | mutate what => simp only [hop]; exact obtain_serves a what _ (hk _)
  | envSet key v =>
    simp only [hop]
    exact Prog.Serves.step _ _ req_attr_environ fun _ => Prog.Serves.step _ _ trivial fun _ => hk _
  | extSet name v =>
    simp only [hop]
    exact Prog.Serves.step _ _ req_attr_environ fun _ => Prog.Serves.step _ _ trivial fun _ => hk _
  | reqSet key v =>
    simp only [hop]
    apply envGet_serves a _ rfl; intro _
    refine Prog.Serves.step _ _ req_attr_environ fun _ => ?_
    refine Prog.Serves.step _ _ trivial fun r => ?_
    refine serves_ite (hk _) ?_
    refine Prog.Serves.step _ _ trivial fun _ => ?_
    refine Prog.Serves.step _ _ req_attr_environ fun _ => ?_
    generalize envChangedPops key = pops
    induction pops with
    | nil => exact hk _
    | cons c pops ih => exact Prog.Serves.step _ _ trivial fun _ => ih
  | extGet name =>
    simp only [hop]
    exact Prog.Serves.step _ _ req_attr_environ fun _ =>
      Prog.Serves.step _ _ trivial fun _ => obsRead_serves a _ _ (hk _)
  | whoami => simp only [hop]; exact Prog.Serves.step _ _ trivial fun _ => obsRead_serves a _ _ (hk _)
  | kwargs => simp only [hop]; exact Prog.Serves.step _ _ trivial fun _ => obsRead_serves a _ _ (hk _)
  | urlArgs =>
    simp only [hop]
    apply cacheIn_serves a .request rfl
    · intro ret hret; exact hret _
    · intro _; exact obsRead_serves a _ _ (hk _)
  | scookie c =>
    simp only [hop]
    apply cacheIn_serves a .request rfl
    · intro ret hret
      exact envGet_serves a .request rfl _ _ fun _ => hret _
    · intro _
      exact Prog.Serves.step _ _ trivial fun _ => obsRead_serves a _ _ (hk _)
  | url => simp only [hop]; exact reqUrl_serves a .request rfl _ _ fun _ => obsRead_serves a _ _ (hk _)
  | status code line => simp only [hop]; exact setStatus_serves a _ _ _ (hk _)
  | rdStatus => simp only [hop]; exact Prog.Serves.step _ _ resp_attrs.1 fun _ => obsRead_serves a _ _ (hk _)
  | setHdr n v => simp only [hop]; exact hdOp_serves a _ _ fun _ => hk _
  | addHdr n v => simp only [hop]; exact hdOp_serves a _ _ fun _ => hk _
  | rdHdr n => simp only [hop]; exact hdOp_serves a _ _ fun _ => obsRead_serves a _ _ (hk _)
  | setCookie n rendered =>
    simp only [hop]
    have hset : (Prog.step a (.fget .response "_cookies" rCookies) fun _ =>
        Prog.step a (.dOp rCookies (.set n (.str rendered))) fun _ => k cs).Serves a :=
      Prog.Serves.step _ _ resp_attrs.2.2.2.1 fun _ => Prog.Serves.step _ _ trivial fun _ => hk _
    have hnew : (Prog.step a (.dNew rCookies []) fun _ =>
        Prog.step a (.fset .response "_cookies" (.reg rCookies)) fun _ =>
        Prog.step a (.fget .response "_cookies" rCookies) fun _ =>
        Prog.step a (.dOp rCookies (.set n (.str rendered))) fun _ => k cs).Serves a :=
      Prog.Serves.step _ _ trivial fun _ => Prog.Serves.step _ _ resp_attrs.2.2.2.1 fun _ => hset
    refine Prog.Serves.step _ _ resp_attrs.2.2.2.1 fun r => ?_
    cases r with
    | ref =>
      refine Prog.Serves.step _ _ trivial fun ri => ?_
      cases ri with
      | items d =>
        cases d with
        | nil => exact hnew
        | cons x d => exact hset
      | val v => exact hset
      | ref => exact hset
      | err e => exact hset
    | val v => exact hnew
    | items d => exact hnew
    | err e => exact hnew
  | ctype v => simp only [hop]; exact hdOp_serves a _ _ fun _ => hk _
  | copy =>
    simp only [hop]
    refine Prog.Serves.step _ _ req_attr_environ fun _ => ?_
    refine Prog.Serves.step _ _ trivial fun _ => ?_
    refine Prog.Serves.step _ _ trivial fun r => ?_
    exact requestInit_serves a _ rfl _ _ (hk _)
  | cpath i => simp only [hop]; exact reqPath_serves a (.copy _) rfl _ fun _ => obsCopy_serves a _ _ (hk _)
  | cset i key v =>
    simp only [hop]
    apply envGet_serves a _ rfl; intro _
    refine Prog.Serves.step _ _ req_attr_environ fun _ => ?_
    refine Prog.Serves.step _ _ trivial fun r => ?_
    refine serves_ite (hk _) ?_
    refine Prog.Serves.step _ _ trivial fun _ => ?_
    refine Prog.Serves.step _ _ req_attr_environ fun _ => ?_
    generalize envChangedPops key = pops
    induction pops with
    | nil => exact hk _
    | cons c pops ih => exact Prog.Serves.step _ _ trivial fun _ => ih
  | cheader i n key =>
    simp only [hop]
    apply cacheIn_serves a (.copy _) rfl
    · intro ret hret
      exact Prog.Serves.step _ _ req_attr_environ fun _ => hret _
    · intro _
      exact Prog.Serves.step _ _ trivial fun _ => obsCopy_serves a _ _ (hk _)
  | nested r => simp [HOp.isLocal] at hl
  | construct b => simp [HOp.isLocal] at hl

theorem hops_serves (nest : Req → Prog → Prog) (a : AppId) (ops : List HOp)
    (hl : ∀ op ∈ ops, op.isLocal = true) (cs : List Nat) (k : Prog) (hk : k.Serves a) :
    (hops nest a ops cs k).Serves a := by
  induction ops generalizing cs with
  | nil => exact hk
  | cons op rest ih =>
    simp only [hops]
    exact hop_serves nest a cs op (hl op (by simp)) _ fun cs' =>
      ih (fun o ho => hl o (by simp [ho])) cs'

theorem failJsonProg_serves (a : AppId) (k : Prog) (hk : k.Serves a) : (failJsonProg a k).Serves a := by
  unfold failJsonProg
  refine Prog.Serves.step _ _ req_attr_environ fun _ => ?_
  refine Prog.Serves.step _ _ trivial fun _ => ?_
  apply cacheIn_serves a .request rfl
  · intro ret hret
    exact reqContentType_serves a .request rfl _ _ fun v => hret v
  · intro _
    apply reqBodyObj_serves a .request rfl; intro _
    apply reqBodyObj_serves a .request rfl; intro _
    exact reqContentLength_serves a .request rfl _ _ fun _ => hk

theorem failFormProg_serves (a : AppId) (k : Prog) (hk : k.Serves a) : (failFormProg a k).Serves a := by
  unfold failFormProg
  refine Prog.Serves.step _ _ req_attr_environ fun _ => ?_
  refine Prog.Serves.step _ _ trivial fun _ => ?_
  refine Prog.Serves.step _ _ req_attr_environ fun _ => ?_
  refine Prog.Serves.step _ _ trivial fun _ => ?_
  refine Prog.Serves.step _ _ req_attr_environ fun _ => ?_
  refine Prog.Serves.step _ _ trivial fun _ => ?_
  apply reqContentType_serves a .request rfl; intro _
  apply reqBodyObj_serves a .request rfl; intro _
  apply reqBodyObj_serves a .request rfl; intro _
  exact reqContentLength_serves a .request rfl _ _ fun _ => hk

theorem failMultipartProg_serves (a : AppId) (k : Prog) (hk : k.Serves a) :
    (failMultipartProg a k).Serves a := by
  unfold failMultipartProg
  refine Prog.Serves.step _ _ req_attr_environ fun _ => ?_
  refine Prog.Serves.step _ _ trivial fun _ => ?_
  refine Prog.Serves.step _ _ req_attr_environ fun _ => ?_
  refine Prog.Serves.step _ _ trivial fun _ => ?_
  refine Prog.Serves.step _ _ req_attr_environ fun _ => ?_
  refine Prog.Serves.step _ _ trivial fun _ => ?_
  apply reqContentType_serves a .request rfl; intro _
  refine Prog.Serves.step _ _ trivial fun _ => ?_
  exact reqBodyObj_serves a .request rfl _ _ fun _ => hk

theorem redirectProg_serves (loc line : String) (k : Out → Prog) (hk : ∀ x, (k x).Serves defaultApp) :
    (redirectProg loc line k).Serves defaultApp := by
  unfold redirectProg
  apply envGet_serves defaultApp .request rfl; intro _
  refine Prog.Serves.step _ _ resp_attrs.1 fun _ => ?_
  refine Prog.Serves.step _ _ trivial fun _ => ?_
  refine Prog.Serves.step _ _ trivial fun _ => ?_
  refine Prog.Serves.step _ _ resp_attrs.2.2.2.1 fun _ => ?_
  exact reqUrl_serves defaultApp .request rfl _ _ fun _ => hk _

theorem outcome_serves (a : AppId) (o : Outcome) (ho : o.LocalTo a) (k : Out → Prog) (hk : ∀ x, (k x).Serves a) :
    (outcome a o k).Serves a := by
  cases o with
  | redirect loc line =>
    simp only [Outcome.LocalTo] at ho
    subst ho
    simp only [outcome]; exact redirectProg_serves loc line k hk
  | failJson e => simp only [outcome]; exact failJsonProg_serves a _ (hk _)
  | failForm e => simp only [outcome]; exact failFormProg_serves a _ (hk _)
  | failMultipart e => simp only [outcome]; exact failMultipartProg_serves a _ (hk _)
  | ret s => simp only [outcome]; exact hk _
  | retBytes s => simp only [outcome]; exact hk _
  | empty => simp only [outcome]; exact hk _
  | raise c l b h => simp only [outcome]; exact hk _
  | error c l t => simp only [outcome]; exact hk _
  | crash l e => simp only [outcome]; exact hk _

/-- serving a request that stays inside application `a` is a `Serves a` program -/
theorem serve_serves (fuel : Nat) (a : AppId) (r : Req) (hl : r.LocalTo a) (k : Prog) (hk : k.Serves a) :
    (serve fuel r k).Serves a := by
  cases fuel with
  | zero => cases r; exact hk
  | succ fuel =>
    cases r with
    | mk b env debug custom before after route =>
      have hloc : b = a ∧ (∀ op ∈ before, op.isLocal = true) ∧ (∀ op ∈ after, op.isLocal = true) := by
        cases route <;> simp only [Req.LocalTo] at hl
        · exact ⟨hl.1, hl.2.1, hl.2.2.1⟩
        all_goals exact hl
      obtain ⟨hb, hbefore, hafter⟩ := hloc
      subst hb
      have hcf : ∀ o : Out, (cast b debug custom o fun body =>
          finish b (dictGet env "REQUEST_METHOD" == some (.str "HEAD")) body k).Serves b :=
        fun o => cast_serves b debug custom o _ fun _ => finish_serves b _ _ k hk
      have hleave : ∀ o : Out, (hops (serve fuel) b after [] (cast b debug custom o fun body =>
          finish b (dictGet env "REQUEST_METHOD" == some (.str "HEAD")) body k)).Serves b :=
        fun o => hops_serves _ b after hafter [] _ (hcf o)
      have hre : ∀ p : Prog, p.Serves b →
          (Prog.step b (.dOp rEnviron (.set "ombott.app" (.str "<app>"))) fun _ =>
            requestInit b .request rEnviron <| responseInit b p).Serves b :=
        fun p hp => Prog.Serves.step _ _ trivial fun _ =>
          requestInit_serves b .request rfl _ _ (responseInit_serves b p hp)
      simp only [serve]
      refine Prog.Serves.step _ _ trivial fun _ => ?_
      refine Prog.Serves.step _ _ trivial fun rp => ?_
      refine Prog.Serves.step _ _ trivial fun _ => ?_
      cases route with
      | badPath line => exact hre _ (hcf _)
      | notFound line text =>
        refine Prog.Serves.step _ _ trivial fun _ => ?_
        apply hre
        apply hops_serves _ b before hbefore
        apply reqPath_serves b .request rfl; intro _
        apply envGet_serves b .request rfl; intro _
        exact hleave _
      | notAllowed line text allow =>
        refine Prog.Serves.step _ _ trivial fun _ => ?_
        apply hre
        apply hops_serves _ b before hbefore
        apply reqPath_serves b .request rfl; intro _
        apply envGet_serves b .request rfl; intro _
        exact hleave _
      | handler ops out =>
        refine Prog.Serves.step _ _ trivial fun _ => ?_
        apply hre
        apply hops_serves _ b before hbefore
        apply reqPath_serves b .request rfl; intro _
        apply envGet_serves b .request rfl; intro _
        refine Prog.Serves.step _ _ trivial fun _ => ?_
        refine Prog.Serves.step _ _ trivial fun _ => ?_
        refine Prog.Serves.step _ _ trivial fun _ => ?_
        refine Prog.Serves.step _ _ trivial fun _ => ?_
        simp only [Req.LocalTo] at hl
        exact hops_serves _ b ops hl.2.2.2.1 [] _ (outcome_serves b out hl.2.2.2.2 _ hleave)

end Ombott.WsgiConc
