import OmbottModel.Model.RouterBuiltinEnv
import OmbottModel.Lemmas.RouteUrlInt
/-!
The text matched by the `float` mask `-?\d+(\.\d+)?` (`floatLex`): decomposition of the input,
what stands after the match, and matching again with another continuation.
-/
namespace Ombott.Builtins
open Py Ombott.Router Ombott.RouteUrl

theorem isDecDigit_minus : isDecDigit '-' = false := by decide
theorem isDecDigit_dot : isDecDigit '.' = false := by decide

/-- text of a lexed numeral -/
def FloatLex.text (l : FloatLex) : Str :=
  (if l.neg then ['-'] else []) ++ l.ip ++ (if l.fp.isEmpty then [] else '.' :: l.fp)

theorem FloatLex.text_length (l : FloatLex) : l.text.length = l.len := by
  unfold FloatLex.text FloatLex.len
  cases l.neg <;> cases h : l.fp.isEmpty <;> simp [h] <;> omega

/-- nothing the greedy mask could still take stands after the match -/
def LexStop (l : FloatLex) (rest : Str) : Prop :=
  (∀ c, rest.head? = some c → isDecDigit c = false) ∧
    (l.fp = [] → ∀ d r, rest = '.' :: d :: r → isDecDigit d = false)

theorem takeWhile_dec_stop (ds rest : Str) (hd : ∀ c ∈ ds, isDecDigit c = true)
    (hr : ∀ c, rest.head? = some c → isDecDigit c = false) : (ds ++ rest).takeWhile isDecDigit = ds :=
  takeWhile_append_stop isDecDigit ds rest hd hr

theorem floatLex_eq (s : Str) :
    floatLex s = (lexBody (if (s.head? == some '-') = true then s.drop 1 else s)).map
      fun x => ⟨s.head? == some '-', x.1, x.2⟩ := rfl

theorem lexBody_build (ip fp rest : Str) (hip : ip ≠ []) (hd : ∀ c ∈ ip, isDecDigit c = true)
    (hf : ∀ c ∈ fp, isDecDigit c = true)
    (hstop : LexStop ⟨false, ip, fp⟩ rest) :
    lexBody (ip ++ (if fp.isEmpty then [] else '.' :: fp) ++ rest) = some (ip, fp) := by
  unfold lexBody
  have htw : (ip ++ (if fp.isEmpty then [] else '.' :: fp) ++ rest).takeWhile isDecDigit = ip := by
    rw [List.append_assoc]
    apply takeWhile_dec_stop ip _ hd
    intro c hc
    by_cases he : fp.isEmpty = true
    · simp only [he, if_true, List.nil_append] at hc
      exact hstop.1 c hc
    · simp only [he, Bool.false_eq_true, if_false, List.cons_append, List.head?_cons, Option.some.injEq] at hc
      subst hc; exact isDecDigit_dot
  simp only [htw]
  have hne : ip.isEmpty = false := by simpa using hip
  simp only [hne, Bool.false_eq_true, if_false, Option.some.injEq, Prod.mk.injEq, true_and]
  rw [List.append_assoc, List.drop_left]
  by_cases he : fp.isEmpty = true
  · have hfp : fp = [] := by simpa using he
    subst hfp
    simp only [List.isEmpty_nil, if_true, List.nil_append]
    cases rest with
    | nil => rfl
    | cons a r =>
      by_cases ha : a = '.'
      · subst ha
        cases r with
        | nil => rfl
        | cons d r' =>
          have := hstop.2 rfl d r' rfl
          simp [List.takeWhile, this]
      · split
        · rename_i r' heq; simp only [List.cons.injEq] at heq; exact absurd heq.1 ha
        · rfl
  · simp only [he, Bool.false_eq_true, if_false, List.cons_append]
    exact takeWhile_dec_stop fp rest hf hstop.1

theorem lexBody_spec {body : Str} {ip fp : Str} (h : lexBody body = some (ip, fp)) :
    ip ≠ [] ∧ (∀ c ∈ ip, isDecDigit c = true) ∧ (∀ c ∈ fp, isDecDigit c = true) ∧
      ∃ rest, body = ip ++ (if fp.isEmpty then [] else '.' :: fp) ++ rest ∧ LexStop ⟨false, ip, fp⟩ rest := by
  unfold lexBody at h
  simp only at h
  by_cases he : (body.takeWhile isDecDigit).isEmpty = true
  · rw [if_pos he] at h; cases h
  · rw [if_neg he] at h
    simp only [Option.some.injEq, Prod.mk.injEq] at h
    obtain ⟨h1, h2⟩ := h
    have hne : ip ≠ [] := by rw [← h1]; simpa using he
    have hd : ∀ c ∈ ip, isDecDigit c = true := by rw [← h1]; exact takeWhile_all _ _
    have hdrop : body.drop ip.length = body.dropWhile isDecDigit := by rw [← h1]; exact drop_takeWhile_length _ _
    have hbody : body = ip ++ body.dropWhile isDecDigit := by
      rw [← h1]; exact (List.takeWhile_append_dropWhile).symm
    have hstop0 := dropWhile_head isDecDigit body
    rw [h1, hdrop] at h2
    refine ⟨hne, hd, ?_⟩
    cases hdw : body.dropWhile isDecDigit with
    | nil =>
      rw [hdw] at h2 hbody
      simp only at h2
      subst h2
      refine ⟨by simp, [], by simpa using hbody, ?_, ?_⟩
      · intro c hc; simp at hc
      · intro _ d r hr; cases hr
    | cons a r =>
      rw [hdw] at h2 hbody hstop0
      by_cases ha : a = '.'
      · subst ha
        simp only at h2
        have hfd : ∀ c ∈ fp, isDecDigit c = true := by rw [← h2]; exact takeWhile_all _ _
        refine ⟨hfd, ?_⟩
        by_cases hfe : fp.isEmpty = true
        · have hfp : fp = [] := by simpa using hfe
          refine ⟨'.' :: r, by rw [hfp]; simpa using hbody, ?_, ?_⟩
          · intro c hc; simp only [List.head?_cons, Option.some.injEq] at hc; subst hc; exact isDecDigit_dot
          · intro _ d r' hr
            simp only [List.cons.injEq, true_and] at hr
            subst hr
            rw [hfp] at h2
            simp only [List.takeWhile] at h2
            cases hdd : isDecDigit d with
            | false => rfl
            | true => rw [hdd] at h2; cases h2
        · refine ⟨r.dropWhile isDecDigit, ?_, ?_, ?_⟩
          · simp only [hfe, Bool.false_eq_true, if_false]
            rw [hbody, ← h2]
            simp [List.takeWhile_append_dropWhile]
          · exact dropWhile_head _ _
          · intro hfp; exact absurd (show fp = [] from hfp) (by simpa using hfe)
      · have h2' : fp = [] := by
          rw [← h2]
          split
          · rename_i r' heq; simp only [List.cons.injEq] at heq; exact absurd heq.1 ha
          · rfl
        subst h2'
        refine ⟨by simp, a :: r, by simpa using hbody, ?_, ?_⟩
        · exact hstop0
        · intro _ d r' hr
          simp only [List.cons.injEq] at hr
          exact absurd hr.1 ha

/-- decomposition of the input of a successful `floatLex` -/
theorem floatLex_spec {s : Str} {l : FloatLex} (h : floatLex s = some l) :
    l.ip ≠ [] ∧ (∀ c ∈ l.ip, isDecDigit c = true) ∧ (∀ c ∈ l.fp, isDecDigit c = true) ∧
      s = l.text ++ s.drop l.len ∧ LexStop l (s.drop l.len) := by
  rw [floatLex_eq] at h
  cases hb : lexBody (if (s.head? == some '-') = true then s.drop 1 else s) with
  | none => rw [hb] at h; cases h
  | some x =>
    obtain ⟨ip, fp⟩ := x
    rw [hb] at h
    simp only [Option.map_some, Option.some.injEq] at h
    subst h
    obtain ⟨h1, h2, h3, rest, hbody, hstop⟩ := lexBody_spec hb
    refine ⟨h1, h2, h3, ?_⟩
    have hs : s = (if (s.head? == some '-') = true then ['-'] else []) ++
        (ip ++ (if fp.isEmpty then [] else '.' :: fp) ++ rest) := by
      by_cases hn : (s.head? == some '-') = true
      · rw [if_pos hn] at hbody ⊢
        cases s with
        | nil => simp at hn
        | cons a r =>
          simp only [List.head?_cons, beq_iff_eq, Option.some.injEq] at hn
          subst hn
          simp only [List.drop_succ_cons, List.drop_zero] at hbody
          rw [← hbody]; rfl
      · rw [if_neg hn] at hbody ⊢
        simpa using hbody
    generalize (s.head? == some '-') = neg at hs ⊢
    have htext : s = FloatLex.text ⟨neg, ip, fp⟩ ++ rest := by
      rw [hs]
      cases neg <;> simp [FloatLex.text, List.append_assoc]
    have hdrop : s.drop (FloatLex.len ⟨neg, ip, fp⟩) = rest := by
      rw [htext, ← FloatLex.text_length, List.drop_left]
    rw [hdrop]
    exact ⟨htext, hstop⟩

/-- building a match: sign, digits, optional fraction, and a continuation the mask cannot enter -/
theorem floatLex_build (l : FloatLex) (rest : Str) (hip : l.ip ≠ []) (hd : ∀ c ∈ l.ip, isDecDigit c = true)
    (hf : ∀ c ∈ l.fp, isDecDigit c = true) (hstop : LexStop l rest) :
    floatLex (l.text ++ rest) = some l := by
  rw [floatLex_eq]
  obtain ⟨neg, ip, fp⟩ := l
  simp only at hip hd hf
  have hstop' : LexStop ⟨false, ip, fp⟩ rest := hstop
  cases neg with
  | true =>
    have hh : ((FloatLex.text ⟨true, ip, fp⟩ ++ rest).head? == some '-') = true := by simp [FloatLex.text]
    rw [hh]
    simp only [if_true]
    have : (FloatLex.text ⟨true, ip, fp⟩ ++ rest).drop 1 = ip ++ (if fp.isEmpty then [] else '.' :: fp) ++ rest := by
      simp [FloatLex.text, List.append_assoc]
    rw [this, lexBody_build ip fp rest hip hd hf hstop']
    rfl
  | false =>
    have hh : ((FloatLex.text ⟨false, ip, fp⟩ ++ rest).head? == some '-') = false := by
      cases ip with
      | nil => exact absurd rfl hip
      | cons a r =>
        simp only [FloatLex.text, Bool.false_eq_true, if_false, List.nil_append, List.cons_append, List.head?_cons,
          beq_eq_false_iff_ne, ne_eq, Option.some.injEq]
        intro ha
        have := hd a (by simp)
        rw [ha, isDecDigit_minus] at this
        cases this
    rw [hh]
    simp only [Bool.false_eq_true, if_false]
    have : FloatLex.text ⟨false, ip, fp⟩ ++ rest = ip ++ (if fp.isEmpty then [] else '.' :: fp) ++ rest := by
      simp [FloatLex.text]
    rw [this, lexBody_build ip fp rest hip hd hf hstop']
    rfl

/-- what stands after a match does not go on with a digit -/
theorem floatLex_stop {s : Str} {l : FloatLex} (h : floatLex s = some l) :
    ∀ c, (s.drop l.len).head? = some c → isDecDigit c = false :=
  (floatLex_spec h).2.2.2.2.1

theorem dotDigit_false {rest : Str} (h : dotDigit rest = false) : ∀ d r, rest = '.' :: d :: r → isDecDigit d = false := by
  intro d r hr
  subst hr
  simpa [dotDigit] using h

/-- a match that covers the whole text is found again in front of any continuation that does not
start with a digit and — when the match has no fraction — does not go on with `.` and a digit -/
theorem floatLex_append {u : Str} {l : FloatLex} (h : floatLex u = some l) (hfull : l.len = u.length)
    (rest : Str) (hr : ∀ c, rest.head? = some c → isDecDigit c = false)
    (hfp : l.fp ≠ [] ∨ dotDigit rest = false) :
    floatLex (u ++ rest) = some l := by
  obtain ⟨h1, h2, h3, hu, _⟩ := floatLex_spec h
  have hnil : u.drop l.len = [] := by rw [hfull]; exact List.drop_length
  rw [hnil, List.append_nil] at hu
  rw [hu]
  refine floatLex_build l rest h1 h2 h3 ⟨hr, fun hf => ?_⟩
  rcases hfp with hne | hdd
  · exact absurd hf hne
  · exact dotDigit_false hdd

/-- a whole-text match of a text with a decimal point has a fraction -/
theorem floatLex_fp_of_dot {u : Str} {l : FloatLex} (h : floatLex u = some l) (hfull : l.len = u.length)
    (hdot : '.' ∈ u) : l.fp ≠ [] := by
  obtain ⟨_, h2, _, hu, _⟩ := floatLex_spec h
  have hnil : u.drop l.len = [] := by rw [hfull]; exact List.drop_length
  rw [hnil, List.append_nil] at hu
  intro hfp
  rw [hu] at hdot
  simp only [FloatLex.text, hfp, List.isEmpty_nil, if_true, List.append_nil, List.mem_append] at hdot
  rcases hdot with hd | hd
  · cases l.neg <;> simp at hd
  · have := h2 '.' hd
    rw [isDecDigit_dot] at this
    cases this

end Ombott.Builtins
