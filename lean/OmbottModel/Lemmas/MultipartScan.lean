import OmbottModel.Model.Multipart
import OmbottModel.Model.MultipartSpec
/-!
The delimiter scanner.  A pattern that starts with CR and has no other CR has no proper border,
so at most one partial match is alive at any time; `stepM` tracks it; `scan` therefore finds
the first occurrence.
-/
namespace Ombott.Multipart
open Py Spec

/-- delimiter-like: starts with CR, no other CR -/
def NB (tok : Bytes) : Prop := ∃ rest, tok = CR :: rest ∧ CR ∉ rest

/-- `Pm tok m h`: the first `m` bytes of the pattern are a suffix of the history `h` -/
def Pm (tok : Bytes) (m : Nat) (h : Bytes) : Prop := tok.take m <:+ h

/-- `m` is *the* partial match at the end of `h` -/
def PmMax (tok : Bytes) (h : Bytes) (m : Nat) : Prop :=
  Pm tok m h ∧ ∀ k, 1 ≤ k → k ≤ tok.length → Pm tok k h → k = m

theorem nb_length_pos {tok : Bytes} (hnb : NB tok) : 0 < tok.length := by
  obtain ⟨r, rfl, _⟩ := hnb; simp

theorem nb_get_zero {tok : Bytes} (hnb : NB tok) : tok[0]? = some CR := by
  obtain ⟨r, rfl, _⟩ := hnb; simp

theorem nb_get_pos_ne_cr {tok : Bytes} (hnb : NB tok) (i : Nat) (hi : 0 < i) (b : UInt8)
    (hb : tok[i]? = some b) : b ≠ CR := by
  obtain ⟨r, rfl, hr⟩ := hnb
  cases i with
  | zero => omega
  | succ j =>
    simp only [List.getElem?_cons_succ] at hb
    intro h; subst h
    exact hr (List.mem_of_getElem? hb)

theorem take_length_of_le {tok : Bytes} {i : Nat} (h : i ≤ tok.length) : (tok.take i).length = i := by
  simp [List.length_take]; omega

/-- two different non-trivial partial matches cannot be alive at once -/
theorem pm_unique {tok : Bytes} (hnb : NB tok) (h : Bytes) (i j : Nat) (hi : 1 ≤ i) (hij : i < j)
    (hj : j ≤ tok.length) (pi : Pm tok i h) (pj : Pm tok j h) : False := by
  have hlen_i : (tok.take i).length = i := take_length_of_le (by omega)
  have hlen_j : (tok.take j).length = j := take_length_of_le hj
  have hsuf : tok.take i <:+ tok.take j :=
    List.suffix_of_suffix_length_le pi pj (by omega)
  obtain ⟨pre, hpre⟩ := hsuf
  have hpl : pre.length = j - i := by
    have := congrArg List.length hpre
    simp only [List.length_append, hlen_i, hlen_j] at this; omega
  have h1 : (tok.take j)[j - i]? = some CR := by
    rw [← hpre, List.getElem?_append_right (by omega), hpl, Nat.sub_self]
    rw [List.getElem?_take]
    simp only [show 0 < i by omega, if_true]
    exact nb_get_zero hnb
  have h2 : tok[j - i]? = some CR := by
    rw [List.getElem?_take] at h1
    split at h1
    · exact h1
    · simp at h1
  exact nb_get_pos_ne_cr hnb (j - i) (by omega) CR h2 rfl

theorem take_succ_of_get (l : Bytes) (m : Nat) (b : UInt8) (h : l[m]? = some b) :
    l.take (m + 1) = l.take m ++ [b] := by
  rw [List.take_add_one, h]; rfl

theorem step_sound {tok : Bytes} (hnb : NB tok) (m : Nat) (h : Bytes) (b : UInt8) (pm : Pm tok m h) :
    Pm tok (stepM tok m b) (h ++ [b]) := by
  unfold stepM Pm at *
  split
  · next hb =>
    rw [take_succ_of_get _ _ _ hb]
    obtain ⟨pre, rfl⟩ := pm
    exact ⟨pre, by simp⟩
  · split
    · next hb =>
      subst hb
      obtain ⟨r, rfl, _⟩ := hnb
      exact ⟨h, by simp⟩
    · exact ⟨h ++ [b], by simp⟩

theorem pm_snoc_inv {tok : Bytes} (k : Nat) (h : Bytes) (b : UInt8) (hk : 1 ≤ k) (hkl : k ≤ tok.length)
    (p : Pm tok k (h ++ [b])) : tok[k - 1]? = some b ∧ Pm tok (k - 1) h := by
  unfold Pm at *
  obtain ⟨j, rfl⟩ : ∃ j, k = j + 1 := ⟨k - 1, by omega⟩
  have hlt : j < tok.length := by omega
  have hg : tok[j]? = some tok[j] := List.getElem?_eq_getElem hlt
  rw [take_succ_of_get _ _ _ hg] at p
  obtain ⟨pre, hpre⟩ := p
  have := List.append_inj' (by simpa using hpre : (pre ++ List.take j tok) ++ [tok[j]] = h ++ [b]) rfl
  obtain ⟨h1, h2⟩ := this
  simp at h2
  refine ⟨by simpa [h2] using hg, ⟨pre, h1⟩⟩

theorem step_max {tok : Bytes} (hnb : NB tok) (m : Nat) (h : Bytes) (b : UInt8)
    (uniq : ∀ k, 1 ≤ k → k ≤ tok.length → Pm tok k h → k = m)
    (k : Nat) (hk : 1 ≤ k) (hkl : k ≤ tok.length) (p : Pm tok k (h ++ [b])) :
    k = stepM tok m b := by
  obtain ⟨hb, pk⟩ := pm_snoc_inv k h b hk hkl p
  unfold stepM
  by_cases h1 : k = 1
  · subst h1
    rw [nb_get_zero hnb] at hb
    simp only [Option.some.injEq] at hb
    subst hb
    split
    · next hg =>
      by_cases hm0 : m = 0
      · omega
      · exact absurd rfl (nb_get_pos_ne_cr hnb m (by omega) CR hg)
    · simp
  · have : k - 1 = m := uniq (k - 1) (by omega) (by omega) pk
    subst this
    rw [if_pos hb]; omega

theorem stepM_le {tok : Bytes} (m : Nat) (b : UInt8) (hm : m < tok.length) (hl : 0 < tok.length) :
    stepM tok m b ≤ tok.length := by
  unfold stepM
  split
  · omega
  · split <;> omega

theorem pmMax_step {tok : Bytes} (hnb : NB tok) (m : Nat) (h : Bytes) (b : UInt8)
    (pm : PmMax tok h m) : PmMax tok (h ++ [b]) (stepM tok m b) :=
  ⟨step_sound hnb m h b pm.1, fun k hk hkl p => step_max hnb m h b pm.2 k hk hkl p⟩

/-- the initial history for a pending prefix -/
theorem pmMax_take {tok : Bytes} (hnb : NB tok) (m : Nat) (hm : m ≤ tok.length) :
    PmMax tok (tok.take m) m := by
  refine ⟨List.suffix_refl _, fun k hk hkl p => ?_⟩
  have hkm : k ≤ m := by
    have := p.length_le
    rw [take_length_of_le hkl, take_length_of_le hm] at this; exact this
  by_cases h : k = m
  · exact h
  · exact absurd (pm_unique hnb (tok.take m) k m hk (by omega) hm p (List.suffix_refl _)) id

theorem pmMax_not_full {tok : Bytes} {h : Bytes} {m : Nat} (pm : PmMax tok h m) (hm : m < tok.length)
    (hl : 0 < tok.length) : ¬ tok <:+ h := by
  intro hs
  have := pm.2 tok.length hl (Nat.le_refl _) (by unfold Pm; simpa using hs)
  omega

/-! ### what `scan` computes -/

theorem scan_cons (tok : Bytes) (m : Nat) (b : UInt8) (bs : Bytes) :
    scan tok m (b :: bs) = if stepM tok m b = tok.length then .found 1
      else match scan tok (stepM tok m b) bs with
        | .found j => .found (j + 1)
        | .more m' => .more m' := rfl

theorem scan_spec {tok : Bytes} (hnb : NB tok) : ∀ (s h : Bytes) (m : Nat), m < tok.length → PmMax tok h m →
    match scan tok m s with
    | .found j => 1 ≤ j ∧ j ≤ s.length ∧ tok <:+ h ++ s.take j ∧ ∀ i, i < j → ¬ tok <:+ h ++ s.take i
    | .more m' => m' < tok.length ∧ PmMax tok (h ++ s) m' ∧ ∀ i, i ≤ s.length → ¬ tok <:+ h ++ s.take i := by
  intro s
  induction s with
  | nil =>
    intro h m hm pm
    simp only [scan, List.append_nil, List.length_nil, List.take_nil]
    exact ⟨hm, pm, fun i _ => pmMax_not_full pm hm (nb_length_pos hnb)⟩
  | cons b s ih =>
    intro h m hm pm
    have hl := nb_length_pos hnb
    have pm' := pmMax_step hnb m h b pm
    have hle := stepM_le (tok := tok) m b hm hl
    rw [scan_cons]
    by_cases heq : stepM tok m b = tok.length
    · rw [if_pos heq]
      refine ⟨Nat.le_refl _, by simp, ?_, ?_⟩
      · have := pm'.1
        unfold Pm at this
        rw [heq, List.take_length] at this
        simpa using this
      · intro i hi
        have : i = 0 := by omega
        subst this
        simpa using pmMax_not_full pm hm hl
    · rw [if_neg heq]
      have hlt : stepM tok m b < tok.length := by omega
      have := ih (h ++ [b]) (stepM tok m b) hlt pm'
      cases hsc : scan tok (stepM tok m b) s with
      | found j =>
        rw [hsc] at this
        obtain ⟨h1, h2, h3, h4⟩ := this
        refine ⟨by omega, by simp; omega, by simpa using h3, ?_⟩
        intro i hi
        cases i with
        | zero => simpa using pmMax_not_full pm hm hl
        | succ i' =>
          have := h4 i' (by omega)
          simpa using this
      | more m' =>
        rw [hsc] at this
        obtain ⟨h1, h2, h3⟩ := this
        refine ⟨h1, by simpa using h2, ?_⟩
        intro i hi
        cases i with
        | zero => simpa using pmMax_not_full pm hm hl
        | succ i' =>
          have := h3 i' (by simp at hi; omega)
          simpa using this

/-- determinism, found case -/
theorem scan_eq_found {tok : Bytes} (hnb : NB tok) (s h : Bytes) (m j : Nat) (hm : m < tok.length)
    (pm : PmMax tok h m) (hj : j ≤ s.length) (hfull : tok <:+ h ++ s.take j)
    (hfirst : ∀ i, i < j → ¬ tok <:+ h ++ s.take i) : scan tok m s = .found j := by
  have := scan_spec hnb s h m hm pm
  split at this
  · next j' hj' =>
    obtain ⟨h1, h2, h3, h4⟩ := this
    rw [hj']
    congr 1
    by_cases hlt : j' < j
    · exact absurd h3 (hfirst j' hlt)
    · by_cases hgt : j < j'
      · exact absurd hfull (h4 j hgt)
      · omega
  · next m' _ =>
    exact absurd hfull (this.2.2 j hj)

/-- determinism, not-found case -/
theorem scan_eq_more {tok : Bytes} (hnb : NB tok) (s h : Bytes) (m m' : Nat) (hm : m < tok.length)
    (pm : PmMax tok h m) (hno : ∀ i, i ≤ s.length → ¬ tok <:+ h ++ s.take i)
    (hm' : (1 ≤ m' ∧ m' ≤ tok.length ∧ Pm tok m' (h ++ s)) ∨
           (m' = 0 ∧ ∀ k, 1 ≤ k → k ≤ tok.length → ¬ Pm tok k (h ++ s))) :
    scan tok m s = .more m' := by
  have := scan_spec hnb s h m hm pm
  split at this
  · next j hj =>
    exact absurd this.2.2.1 (hno j this.2.1)
  · next m'' hm'' =>
    rw [hm'']
    congr 1
    obtain ⟨_, pmm, _⟩ := this
    rcases hm' with ⟨h1, h2, h3⟩ | ⟨h1, h2⟩
    · exact (pmm.2 m' h1 h2 h3).symm
    · subst h1
      by_cases h0 : m'' = 0
      · exact h0
      · exact absurd pmm.1 (h2 m'' (by omega) (by omega))

/-! ### scan over concatenations, matching runs -/

def Spec.ScanRes.shift (n : Nat) : ScanRes → ScanRes
  | .found j => .found (n + j)
  | .more m => .more m

theorem scan_append (tok : Bytes) : ∀ (a b : Bytes) (m : Nat),
    scan tok m (a ++ b) = match scan tok m a with
      | .found j => .found j
      | .more m' => (scan tok m' b).shift a.length := by
  intro a
  induction a with
  | nil =>
    intro b m
    simp only [List.nil_append, scan, List.length_nil]
    cases scan tok m b <;> simp [ScanRes.shift]
  | cons x a ih =>
    intro b m
    simp only [List.cons_append, scan]
    split
    · rfl
    · rw [ih]
      cases h : scan tok (stepM tok m x) a with
      | found j => simp
      | more m' =>
        simp only [List.length_cons]
        cases scan tok m' b with
        | found j => simp [ScanRes.shift]; omega
        | more m'' => simp [ScanRes.shift]

theorem stepM_match {tok : Bytes} {m : Nat} {b : UInt8} (h : tok[m]? = some b) : stepM tok m b = m + 1 := by
  simp [stepM, h]

/-- the pending remainder arrives: the pattern completes after `tlen - m` bytes -/
theorem scan_match (tok : Bytes) : ∀ (n m : Nat) (s : Bytes), m + n = tok.length → 0 < n →
    scan tok m (tok.drop m ++ s) = .found n := by
  intro n
  induction n with
  | zero => intro m s _ h; omega
  | succ n ih =>
    intro m s hmn _
    have hlt : m < tok.length := by omega
    have hd : tok.drop m = tok[m] :: tok.drop (m + 1) := List.drop_eq_getElem_cons hlt
    rw [hd, List.cons_append]
    unfold scan
    have hs : stepM tok m tok[m] = m + 1 := stepM_match (List.getElem?_eq_getElem hlt)
    rw [hs]
    by_cases hn : n = 0
    · subst hn
      rw [if_pos (by omega)]
    · rw [if_neg (by omega)]
      rw [ih (m + 1) s (by omega) (by omega)]

/-- a proper prefix of the pending remainder arrives -/
theorem scan_prefix (tok : Bytes) : ∀ (p : Bytes) (m : Nat), m + p.length < tok.length →
    p <+: tok.drop m → scan tok m p = .more (m + p.length) := by
  intro p
  induction p with
  | nil => intro m _ _; simp [scan]
  | cons x p ih =>
    intro m hlen hpre
    have hlt : m < tok.length := by simp at hlen; omega
    have hd : tok.drop m = tok[m] :: tok.drop (m + 1) := List.drop_eq_getElem_cons hlt
    rw [hd] at hpre
    obtain ⟨t, ht⟩ := hpre
    simp only [List.cons_append, List.cons.injEq] at ht
    obtain ⟨hx, ht⟩ := ht
    subst hx
    unfold scan
    have hs : stepM tok m tok[m] = m + 1 := stepM_match (List.getElem?_eq_getElem hlt)
    rw [hs]
    simp only [List.length_cons] at hlen ⊢
    rw [if_neg (by omega)]
    rw [ih (m + 1) (by omega) ⟨t, ht⟩]
    simp only [ScanRes.more.injEq]; omega

end Ombott.Multipart
