import OmbottModel.Model.EnvCacheSpec
/-!
Association-list algebra for `Model/EnvCache.lean`: `get?` / `set` / `del` / `erase`, and the
"reads only these keys" predicate that gives both insensitivity to the cache entries and
insensitivity to assignments of other keys.
-/
namespace Ombott.EnvCache
open Py

theorem get?_set_self (e : Env) (k : Key) (v : Val) : (e.set k v).get? k = some v := by
  induction e with
  | nil => simp [Env.set, Env.get?]
  | cons p r ih =>
    obtain ⟨k', v'⟩ := p
    by_cases h : k' = k
    · simp [Env.set, Env.get?, h]
    · simp [Env.set, Env.get?, h, ih]

theorem get?_set_ne (e : Env) (k c : Key) (v : Val) (h : c ≠ k) : (e.set k v).get? c = e.get? c := by
  induction e with
  | nil => simp [Env.set, Env.get?, Ne.symm h]
  | cons p r ih =>
    obtain ⟨k', v'⟩ := p
    by_cases h1 : k' = k
    · subst h1
      simp [Env.set, Env.get?, Ne.symm h]
    · by_cases h2 : k' = c
      · subst h2
        simp [Env.set, Env.get?, h1]
      · simp [Env.set, Env.get?, h1, h2, ih]

theorem get?_del_self (e : Env) (k : Key) : (e.del k).get? k = none := by
  induction e with
  | nil => simp [Env.del, Env.get?]
  | cons p r ih =>
    obtain ⟨k', v'⟩ := p
    by_cases h : k' = k
    · simpa [Env.del, List.filter, h] using ih
    · simp only [Env.del, List.filter, ne_eq, h, not_false_eq_true, decide_true, Env.get?, if_false]
      simpa [Env.del] using ih

theorem get?_del_ne (e : Env) (k c : Key) (h : c ≠ k) : (e.del k).get? c = e.get? c := by
  induction e with
  | nil => simp [Env.del, Env.get?]
  | cons p r ih =>
    obtain ⟨k', v'⟩ := p
    by_cases h1 : k' = k
    · subst h1
      simp only [Env.del, List.filter, ne_eq, not_true_eq_false, decide_false, Env.get?, Ne.symm h, if_false]
      simpa [Env.del] using ih
    · simp only [Env.del, List.filter, ne_eq, h1, not_false_eq_true, decide_true, Env.get?]
      by_cases h2 : k' = c
      · simp [h2]
      · simp only [h2, if_false]
        simpa [Env.del] using ih

theorem get?_some_of_del (e : Env) (k c : Key) (v : Val) (h : (e.del k).get? c = some v) :
    e.get? c = some v ∧ c ≠ k := by
  by_cases hc : c = k
  · subst hc; rw [get?_del_self] at h; cases h
  · rw [get?_del_ne e k c hc] at h; exact ⟨h, hc⟩

theorem str?_set_ne (e : Env) (k c : Key) (v : Val) (h : c ≠ k) : (e.set k v).str? c = e.str? c := by
  simp [Env.str?, get?_set_ne e k c v h]

theorem str?_del_ne (e : Env) (k c : Key) (h : c ≠ k) : (e.del k).str? c = e.str? c := by
  simp [Env.str?, get?_del_ne e k c h]

/-! ### `erase` -/

theorem get?_erase_plain (e : Env) (k : Key) (h : isCacheKey k = false) : (erase e).get? k = e.get? k := by
  induction e with
  | nil => rfl
  | cons p r ih =>
    obtain ⟨k', v'⟩ := p
    by_cases hc : isCacheKey k' = true
    · have hne : k' ≠ k := by intro h'; subst h'; rw [h] at hc; cases hc
      simp only [erase, List.filter, hc, Bool.not_true, Env.get?, hne, if_false]
      simpa [erase] using ih
    · have hc' : isCacheKey k' = false := by simpa using hc
      simp only [erase, List.filter, hc', Bool.not_false, Env.get?]
      by_cases h2 : k' = k
      · simp [h2]
      · simp only [h2, if_false]
        simpa [erase] using ih

theorem get?_erase_cache (e : Env) (k : Key) (h : isCacheKey k = true) : (erase e).get? k = none := by
  induction e with
  | nil => rfl
  | cons p r ih =>
    obtain ⟨k', v'⟩ := p
    by_cases hc : isCacheKey k' = true
    · simp only [erase, List.filter, hc, Bool.not_true]
      simpa [erase] using ih
    · have hc' : isCacheKey k' = false := by simpa using hc
      have hne : k' ≠ k := by intro h'; subst h'; rw [h] at hc'; cases hc'
      simp only [erase, List.filter, hc', Bool.not_false, Env.get?, hne, if_false]
      simpa [erase] using ih

theorem str?_erase_plain (e : Env) (k : Key) (h : isCacheKey k = false) : (erase e).str? k = e.str? k := by
  simp [Env.str?, get?_erase_plain e k h]

theorem erase_set_cache (e : Env) (k : Key) (v : Val) (h : isCacheKey k = true) : erase (e.set k v) = erase e := by
  induction e with
  | nil => simp [Env.set, erase, List.filter, h]
  | cons p r ih =>
    obtain ⟨k', v'⟩ := p
    by_cases h1 : k' = k
    · subst h1
      simp [Env.set, erase, List.filter, h]
    · simp only [Env.set, h1, if_false, erase, List.filter]
      have := ih
      simp only [erase] at this
      rw [this]

theorem erase_set_plain (e : Env) (k : Key) (v : Val) (h : isCacheKey k = false) :
    erase (e.set k v) = (erase e).set k v := by
  induction e with
  | nil => simp [Env.set, erase, List.filter, h]
  | cons p r ih =>
    obtain ⟨k', v'⟩ := p
    by_cases h1 : k' = k
    · subst h1
      simp [Env.set, erase, List.filter, h]
    · by_cases hc : isCacheKey k' = true
      · simp only [Env.set, h1, if_false, erase, List.filter, hc, Bool.not_true]
        have := ih
        simp only [erase] at this
        exact this
      · have hc' : isCacheKey k' = false := by simpa using hc
        simp only [Env.set, h1, if_false, erase, List.filter, hc', Bool.not_false]
        have := ih
        simp only [erase] at this
        rw [this]

theorem erase_del (e : Env) (k : Key) : erase (e.del k) = (erase e).del k := by
  simp only [erase, Env.del, List.filter_filter]
  congr 1
  funext p
  exact Bool.and_comm _ _

theorem erase_del_cache (e : Env) (k : Key) (h : isCacheKey k = true) : erase (e.del k) = erase e := by
  rw [erase_del]
  simp only [Env.del, erase, List.filter_filter]
  apply List.filter_congr
  intro p _
  by_cases hp : p.1 = k
  · simp [hp, h]
  · simp [hp]

theorem erase_idem (e : Env) : erase (erase e) = erase e := by
  simp [erase, List.filter_filter]

theorem dropAll_erase (e : Env) (ks : List Key) : erase (dropAll e ks) = dropAll (erase e) ks := by
  induction ks generalizing e with
  | nil => rfl
  | cons k r ih => simp only [dropAll, List.foldl_cons]; rw [← erase_del]; exact ih _

theorem get?_dropAll_of_mem (e : Env) (ks : List Key) (k : Key) (h : k ∈ ks) : (dropAll e ks).get? k = none := by
  induction ks generalizing e with
  | nil => cases h
  | cons a r ih =>
    simp only [dropAll, List.foldl_cons]
    by_cases ha : k ∈ r
    · exact ih _ ha
    · have : k = a := by simpa [ha] using h
      subst this
      clear ih h
      -- later deletions keep an absent key absent
      have key : ∀ (l : List Key) (e' : Env), e'.get? k = none → (List.foldl Env.del e' l).get? k = none := by
        intro l
        induction l with
        | nil => intro e' h'; exact h'
        | cons b l ihl =>
          intro e' h'
          simp only [List.foldl_cons]
          apply ihl
          by_cases hb : k = b
          · subst hb; exact get?_del_self _ _
          · rw [get?_del_ne _ _ _ hb]; exact h'
      exact key r _ (get?_del_self _ _)

theorem get?_dropAll_of_not_mem (e : Env) (ks : List Key) (k : Key) (h : k ∉ ks) : (dropAll e ks).get? k = e.get? k := by
  induction ks generalizing e with
  | nil => rfl
  | cons a r ih =>
    simp only [dropAll, List.foldl_cons]
    have h1 : k ≠ a := by intro h'; exact h (by simp [h'])
    have h2 : k ∉ r := by intro h'; exact h (by simp [h'])
    have := ih (e.del a) h2
    simp only [dropAll] at this
    rw [this, get?_del_ne _ _ _ h1]

/-! ### functions of some of the WSGI strings -/

/-- `f` looks at the environ only through the strings under the keys `ks` -/
def ReadsOnly {β} (ks : List Key) (f : Env → β) : Prop :=
  ∀ e e' : Env, (∀ k ∈ ks, e.str? k = e'.str? k) → f e = f e'

theorem ReadsOnly.erase {β} {ks : List Key} {f : Env → β} (h : ReadsOnly ks f)
    (hk : ∀ k ∈ ks, isCacheKey k = false) (e : Env) : f (erase e) = f e :=
  h _ _ fun k hkm => str?_erase_plain e k (hk k hkm)

theorem ReadsOnly.set {β} {ks : List Key} {f : Env → β} (h : ReadsOnly ks f) (K : Key) (hK : K ∉ ks)
    (e : Env) (v : Val) : f (e.set K v) = f e :=
  h _ _ fun k hkm => str?_set_ne e K k v (fun h' => hK (h' ▸ hkm))

theorem ReadsOnly.del {β} {ks : List Key} {f : Env → β} (h : ReadsOnly ks f) (K : Key) (hK : K ∉ ks)
    (e : Env) : f (e.del K) = f e :=
  h _ _ fun k hkm => str?_del_ne e K k (fun h' => hK (h' ▸ hkm))

theorem ReadsOnly.mono {β} {ks ks' : List Key} {f : Env → β} (h : ReadsOnly ks f) (hs : ∀ k ∈ ks, k ∈ ks') :
    ReadsOnly ks' f := fun e e' he => h e e' fun k hk => he k (hs k hk)

theorem ReadsOnly.of_eq {β} {ks : List Key} {f : Env → β} {e e' : Env} (h : ReadsOnly ks f)
    (hk : ∀ k ∈ ks, isCacheKey k = false) (he : Ombott.EnvCache.erase e = Ombott.EnvCache.erase e') : f e = f e' := by
  rw [← h.erase hk e, ← h.erase hk e', he]

end Ombott.EnvCache
