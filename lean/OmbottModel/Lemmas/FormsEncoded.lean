import OmbottModel.Model.Forms
import OmbottModel.Lemmas.FormsRead
/-!
`FieldStorage.iter_items` over the sections of an encoded form body (C07): every part is read back
as the field it was written from; the data ranges are those of the encoder.
-/
namespace Ombott.Forms
open Py Ombott.Multipart

/-- length of the header section of a field's part (its lines joined by CRLF) -/
def hdrLen (f : Field) : Nat := (utf8Encode (joinCRLF f.headerLines)).length

/-- the data range of every field's part in an encoded body whose first part starts (with the CRLF
that ends the delimiter line) at `off`; `tlen` = length of the delimiter -/
def dataRanges (tlen : Nat) : Nat → List Field → List (Nat × Nat)
  | _, [] => []
  | off, f :: fs =>
    (off + 2 + hdrLen f + 4, off + 2 + hdrLen f + 4 + f.data.length) ::
      dataRanges tlen (off + 2 + hdrLen f + 4 + f.data.length + tlen) fs

theorem take_drop_mid (A B C : Bytes) : ((A ++ (B ++ C)).drop A.length).take B.length = B := by
  rw [List.drop_left, List.take_left]

theorem part_headerBlock_length (f : Field) (hf : FieldOK f) :
    (Spec.headerBlock f.part.lines).length = hdrLen f + 2 := by
  unfold Field.part
  simp only
  rw [headerBlock_join _ (headerLines_ok f hf).1]
  simp [hdrLen, CRLF]

theorem encodePart_length (b : Bytes) (f : Field) (hf : FieldOK f) :
    (Spec.encodePart b f.part).length = 2 + hdrLen f + 4 + f.data.length + (Spec.delim b).length := by
  unfold Spec.encodePart
  simp only [List.length_append, part_headerBlock_length f hf, CRLF, List.length_cons, List.length_nil]
  unfold Field.part
  simp only
  omega

/-- the header section of the part that starts at `pre.length` -/
theorem part_header_at (b : Bytes) (f : Field) (hf : FieldOK f) (pre rest : Bytes) :
    ((pre ++ (Spec.encodePart b f.part ++ rest)).drop (pre.length + 2)).take (hdrLen f) =
      utf8Encode (joinCRLF f.headerLines) := by
  unfold Spec.encodePart Field.part
  simp only
  rw [headerBlock_join _ (headerLines_ok f hf).1]
  have e : pre ++ (CRLF ++ (utf8Encode (joinCRLF f.headerLines) ++ CRLF ++ (CRLF ++ (f.data ++ Spec.delim b))) ++ rest) =
      (pre ++ CRLF) ++ (utf8Encode (joinCRLF f.headerLines) ++ (CRLF ++ (CRLF ++ (f.data ++ Spec.delim b)) ++ rest)) := by
    simp only [List.append_assoc]
  rw [e]
  have hl : pre.length + 2 = (pre ++ CRLF).length := by simp [CRLF]
  rw [hl]
  exact take_drop_mid _ _ _

/-- the data section of the part that starts at `pre.length` -/
theorem part_data_at (b : Bytes) (f : Field) (hf : FieldOK f) (pre rest : Bytes) :
    ((pre ++ (Spec.encodePart b f.part ++ rest)).drop (pre.length + 2 + hdrLen f + 4)).take f.data.length = f.data := by
  unfold Spec.encodePart Field.part
  simp only
  rw [headerBlock_join _ (headerLines_ok f hf).1]
  have e : pre ++ (CRLF ++ (utf8Encode (joinCRLF f.headerLines) ++ CRLF ++ (CRLF ++ (f.data ++ Spec.delim b))) ++ rest) =
      (pre ++ CRLF ++ utf8Encode (joinCRLF f.headerLines) ++ CRLF ++ CRLF) ++ (f.data ++ (Spec.delim b ++ rest)) := by
    simp only [List.append_assoc]
  rw [e]
  have hl : pre.length + 2 + hdrLen f + 4 = (pre ++ CRLF ++ utf8Encode (joinCRLF f.headerLines) ++ CRLF ++ CRLF).length := by
    simp [CRLF, hdrLen]; omega
  rw [hl]
  exact take_drop_mid _ _ _

theorem itemsLoop_encoded (b : Bytes) (sp : Bool) (fields : List Field) :
    ∀ (pre post : Bytes) (mr : Int), (∀ f ∈ fields, FieldOK f) → (textBudget fields : Int) ≤ mr →
      itemsLoop (pre ++ (Spec.encodeParts b (fields.map Field.part) ++ post)) sp
        (Spec.partMarkups (Spec.delim b).length pre.length (fields.map Field.part)) mr =
      ⟨(fields.zip (dataRanges (Spec.delim b).length pre.length fields)).map
          (fun x => fieldS x.1 (x.2.1 : Int) (x.2.2 : Int)), none⟩ := by
  induction fields with
  | nil => intro pre post mr _ _; simp [Spec.partMarkups, itemsLoop, dataRanges]
  | cons f fs ih =>
    intro pre post mr hok hbud
    have hf := hok f (by simp)
    simp only [List.map_cons, Spec.partMarkups, Spec.encodeParts, List.flatten_cons]
    rw [itemsLoop]
    simp only [ne_eq, not_true_eq_false, ↓reduceIte]
    have hbl := part_headerBlock_length f hf
    have he : pre.length + 2 + (Spec.headerBlock f.part.lines).length - 2 = pre.length + 2 + hdrLen f := by
      rw [hbl]; omega
    have hdata : f.part.data = f.data := rfl
    rw [he, hdata]
    have hX : pre ++ (Spec.encodePart b f.part ++ (List.map (Spec.encodePart b) (List.map Field.part fs)).flatten ++ post) =
        pre ++ (Spec.encodePart b f.part ++ ((List.map (Spec.encodePart b) (List.map Field.part fs)).flatten ++ post)) := by
      simp only [List.append_assoc]
    rw [hX]
    have hcostle : (fieldCost f : Int) ≤ mr := by
      simp only [textBudget, List.map_cons, List.sum_cons] at hbud
      omega
    have hrf := readField_part
      (pre ++ (Spec.encodePart b f.part ++ ((List.map (Spec.encodePart b) (List.map Field.part fs)).flatten ++ post))) sp f hf
      (pre.length + 2) (pre.length + 2 + hdrLen f + 4) mr
      (part_header_at b f hf pre _) (part_data_at b f hf pre _) hcostle
    have c1 : ((pre.length + 2 + hdrLen f : Nat) : Int) = ((pre.length + 2 + (utf8Encode (joinCRLF f.headerLines)).length : Nat) : Int) := rfl
    simp only [c1]
    rw [hrf]
    simp only
    -- the rest of the parts
    have hX2 : pre ++ (Spec.encodePart b f.part ++ ((List.map (Spec.encodePart b) (List.map Field.part fs)).flatten ++ post)) =
        (pre ++ Spec.encodePart b f.part) ++ (Spec.encodeParts b (fs.map Field.part) ++ post) := by
      simp only [Spec.encodeParts, List.append_assoc]
    have hoff : pre.length + 2 + hdrLen f + 4 + f.data.length + (Spec.delim b).length = (pre ++ Spec.encodePart b f.part).length := by
      rw [List.length_append, encodePart_length b f hf]; omega
    rw [hX2, hoff]
    have hbud' : (textBudget fs : Int) ≤ mr - (fieldCost f : Int) := by
      simp only [textBudget, List.map_cons, List.sum_cons] at hbud ⊢
      omega
    rw [ih (pre ++ Spec.encodePart b f.part) post _ (fun x hx => hok x (by simp [hx])) hbud']
    simp only [dataRanges, List.zip_cons_cons, List.map_cons, hoff]

/-! ### geometry of the encoded body -/

/-- the delimiter right after the data of the part that starts at `pre.length` -/
theorem part_delim_at (b : Bytes) (f : Field) (hf : FieldOK f) (pre rest : Bytes) :
    ((pre ++ (Spec.encodePart b f.part ++ rest)).drop (pre.length + 2 + hdrLen f + 4 + f.data.length)).take
      (Spec.delim b).length = Spec.delim b := by
  unfold Spec.encodePart Field.part
  simp only
  rw [headerBlock_join _ (headerLines_ok f hf).1]
  have e : pre ++ (CRLF ++ (utf8Encode (joinCRLF f.headerLines) ++ CRLF ++ (CRLF ++ (f.data ++ Spec.delim b))) ++ rest) =
      (pre ++ CRLF ++ utf8Encode (joinCRLF f.headerLines) ++ CRLF ++ CRLF ++ f.data) ++ (Spec.delim b ++ rest) := by
    simp only [List.append_assoc]
  rw [e]
  have hl : pre.length + 2 + hdrLen f + 4 + f.data.length =
      (pre ++ CRLF ++ utf8Encode (joinCRLF f.headerLines) ++ CRLF ++ CRLF ++ f.data).length := by
    simp [CRLF, hdrLen]; omega
  rw [hl]
  exact take_drop_mid _ _ _

theorem dataRanges_length (tlen : Nat) (fields : List Field) : ∀ off, (dataRanges tlen off fields).length = fields.length := by
  induction fields with
  | nil => intro off; rfl
  | cons f fs ih => intro off; simp [dataRanges, ih]

/-- every range lies at least `CRLF` + `CRLFCRLF` after the start of the parts -/
theorem dataRanges_lower (tlen : Nat) (fields : List Field) :
    ∀ (off i : Nat) (r : Nat × Nat), (dataRanges tlen off fields)[i]? = some r → off + 6 ≤ r.1 ∧ r.1 ≤ r.2 := by
  induction fields with
  | nil => intro off i r h; simp [dataRanges] at h
  | cons f fs ih =>
    intro off i r h
    cases i with
    | zero =>
      simp only [dataRanges, List.getElem?_cons_zero, Option.some.injEq] at h
      subst h; simp only; omega
    | succ i =>
      simp only [dataRanges, List.getElem?_cons_succ] at h
      have := ih _ i r h
      omega

/-- the ranges are in order, and two of them are at least a delimiter, a CRLF and a CRLFCRLF apart -/
theorem dataRanges_separated (tlen : Nat) (fields : List Field) :
    ∀ (off i j : Nat) (ri rj : Nat × Nat), i < j → (dataRanges tlen off fields)[i]? = some ri →
      (dataRanges tlen off fields)[j]? = some rj → ri.2 + tlen + 6 ≤ rj.1 := by
  induction fields with
  | nil => intro off i j ri rj _ h; simp [dataRanges] at h
  | cons f fs ih =>
    intro off i j ri rj hij hi hj
    cases j with
    | zero => omega
    | succ j =>
      simp only [dataRanges, List.getElem?_cons_succ] at hj
      cases i with
      | zero =>
        simp only [dataRanges, List.getElem?_cons_zero, Option.some.injEq] at hi
        subst hi
        have := (dataRanges_lower tlen fs _ j rj hj).1
        simp only; omega
      | succ i =>
        simp only [dataRanges, List.getElem?_cons_succ] at hi
        exact ih _ i j ri rj (by omega) hi hj

/-- each range holds exactly its field's data and is followed by the delimiter -/
theorem dataRanges_content (b : Bytes) (fields : List Field) :
    ∀ (pre post : Bytes), (∀ f ∈ fields, FieldOK f) →
      ∀ (i : Nat) (f : Field) (r : Nat × Nat), fields[i]? = some f →
        (dataRanges (Spec.delim b).length pre.length fields)[i]? = some r →
        r.2 = r.1 + f.data.length ∧
        ((pre ++ (Spec.encodeParts b (fields.map Field.part) ++ post)).drop r.1).take f.data.length = f.data ∧
        ((pre ++ (Spec.encodeParts b (fields.map Field.part) ++ post)).drop r.2).take (Spec.delim b).length =
          Spec.delim b := by
  induction fields with
  | nil => intro pre post _ i f r h; simp at h
  | cons f0 fs ih =>
    intro pre post hok i f r hf hr
    have hf0 := hok f0 (by simp)
    have hX : pre ++ (Spec.encodeParts b (List.map Field.part (f0 :: fs)) ++ post) =
        pre ++ (Spec.encodePart b f0.part ++ (Spec.encodeParts b (fs.map Field.part) ++ post)) := by
      simp only [Spec.encodeParts, List.map_cons, List.flatten_cons, List.append_assoc]
    cases i with
    | zero =>
      simp only [List.getElem?_cons_zero, Option.some.injEq] at hf
      simp only [dataRanges, List.getElem?_cons_zero, Option.some.injEq] at hr
      subst hf; subst hr
      rw [hX]
      exact ⟨rfl, part_data_at b f0 hf0 pre _, part_delim_at b f0 hf0 pre _⟩
    | succ i =>
      simp only [List.getElem?_cons_succ] at hf
      simp only [dataRanges, List.getElem?_cons_succ] at hr
      have hX2 : pre ++ (Spec.encodePart b f0.part ++ (Spec.encodeParts b (fs.map Field.part) ++ post)) =
          (pre ++ Spec.encodePart b f0.part) ++ (Spec.encodeParts b (fs.map Field.part) ++ post) := by
        simp only [List.append_assoc]
      have hoff : pre.length + 2 + hdrLen f0 + 4 + f0.data.length + (Spec.delim b).length =
          (pre ++ Spec.encodePart b f0.part).length := by
        rw [List.length_append, encodePart_length b f0 hf0]; omega
      rw [hoff] at hr
      rw [hX, hX2]
      exact ih (pre ++ Spec.encodePart b f0.part) post (fun x hx => hok x (by simp [hx])) i f r hf hr

end Ombott.Forms
