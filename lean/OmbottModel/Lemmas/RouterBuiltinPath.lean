import OmbottModel.Model.RouterBuiltinEnv
import OmbottModel.Lemmas.RouteUrlInt
/-!
The concrete `path` filter: what a match means (`pathFilter_spec`), and when the matched text is
matched again in front of another continuation (`pathFilter_rebuilt`): the continuation starts
with the look-ahead literal and the literal does not stand in it again before the first newline
(`laterLit`).
-/
namespace Ombott.Builtins
open Py Ombott.Router Ombott.RouteUrl

/-! ### `lastOk` -/

theorem lastOk_some {ok : Nat → Bool} {n k : Nat} (h : lastOk ok n = some k) :
    1 ≤ k ∧ k ≤ n ∧ ok k = true ∧ ∀ j, k < j → j ≤ n → ok j = false := by
  induction n with
  | zero => simp [lastOk] at h
  | succ n ih =>
    unfold lastOk at h
    by_cases hk : ok (n + 1) = true
    · rw [if_pos hk] at h
      cases h
      exact ⟨by omega, Nat.le_refl _, hk, fun j h1 h2 => by omega⟩
    · rw [if_neg hk] at h
      obtain ⟨h1, h2, h3, h4⟩ := ih h
      refine ⟨h1, by omega, h3, fun j hj1 hj2 => ?_⟩
      by_cases hj : j = n + 1
      · subst hj; simpa using hk
      · exact h4 j hj1 (by omega)

theorem lastOk_eq_some {ok : Nat → Bool} {n k : Nat} (h1 : 1 ≤ k) (h2 : k ≤ n) (h3 : ok k = true)
    (h4 : ∀ j, k < j → j ≤ n → ok j = false) : lastOk ok n = some k := by
  induction n with
  | zero => omega
  | succ n ih =>
    unfold lastOk
    by_cases hk : k = n + 1
    · subst hk; rw [if_pos h3]
    · have : ok (n + 1) = false := h4 (n + 1) (by omega) (Nat.le_refl _)
      rw [this]
      simp only [Bool.false_eq_true, if_false]
      exact ih (by omega) (fun j hj1 hj2 => h4 j hj1 (by omega))

/-! ### `dotRun` -/

theorem dotRun_le (s : Str) : dotRun s ≤ s.length := by
  unfold dotRun
  exact (List.takeWhile_prefix _).length_le

theorem dotRun_append_free (t r : Str) (ht : ∀ c ∈ t, c ≠ '\n') : dotRun (t ++ r) = t.length + dotRun r := by
  induction t with
  | nil => simp
  | cons a t ih =>
    have ha : (a != '\n') = true := by simpa using ht a (by simp)
    have := ih (fun c hc => ht c (by simp [hc]))
    simp only [dotRun, List.cons_append, List.takeWhile_cons, ha, if_true, List.length_cons] at this ⊢
    omega

theorem take_free_of_le_dotRun (s : Str) (k : Nat) (hk : k ≤ dotRun s) : ∀ c ∈ s.take k, c ≠ '\n' := by
  intro c hc
  have hsub : s.take k <+: s.takeWhile (· != '\n') := by
    have h1 : s.take k = (s.takeWhile (· != '\n') ++ s.dropWhile (· != '\n')).take k := by
      rw [List.takeWhile_append_dropWhile]
    rw [h1, List.take_append_of_le_length (by simpa [dotRun] using hk)]
    exact List.take_prefix _ _
  have hm : c ∈ s.takeWhile (· != '\n') := hsub.subset hc
  have := takeWhile_all (· != '\n') s c hm
  simpa using this

/-! ### `pathOk` only looks at what is left -/

theorem pathOk_shift (conf t rest : Str) (i : Nat) :
    pathOk conf (t ++ rest) (t.length + i) = pathOk conf rest i := by
  unfold pathOk
  rw [List.drop_length_add_append]

theorem pathOk_split (conf s : Str) (k i : Nat) (hk : k ≤ s.length) :
    pathOk conf s (k + i) = pathOk conf (s.drop k) i := by
  have h := pathOk_shift conf (s.take k) (s.drop k) i
  rw [List.take_append_drop, List.length_take, Nat.min_eq_left hk] at h
  exact h

/-! ### what a match of `path` means -/

theorem pathFilter_spec {conf s : Str} {r : FilterRes} (h : pathFilter conf s = some r) :
    r = ⟨.str (s.take r.n), r.n, none⟩ ∧ 1 ≤ r.n ∧ r.n ≤ dotRun s ∧ pathOk conf s r.n = true ∧
      ∀ j, r.n < j → j ≤ dotRun s → pathOk conf s j = false := by
  unfold pathFilter at h
  cases hl : lastOk (pathOk conf s) (dotRun s) with
  | none => rw [hl] at h; cases h
  | some k =>
    rw [hl] at h
    simp only [Option.map_some, Option.some.injEq] at h
    subst h
    obtain ⟨h1, h2, h3, h4⟩ := lastOk_some hl
    exact ⟨rfl, h1, h2, h3, h4⟩

theorem pathFilter_eq_some {conf s : Str} {k : Nat} (h1 : 1 ≤ k) (h2 : k ≤ dotRun s)
    (h3 : pathOk conf s k = true) (h4 : ∀ j, k < j → j ≤ dotRun s → pathOk conf s j = false) :
    pathFilter conf s = some ⟨.str (s.take k), k, none⟩ := by
  unfold pathFilter
  rw [lastOk_eq_some h1 h2 h3 h4]
  rfl

theorem laterLit_false {conf rest : Str} (h : laterLit conf rest = false) :
    ∀ i, 1 ≤ i → i ≤ dotRun rest → pathOk conf rest i = false := by
  intro i h1 h2
  unfold laterLit at h
  rw [List.any_eq_false] at h
  have := h (i - 1) (by simp; omega)
  have hi : i - 1 + 1 = i := by omega
  rw [hi] at this
  simpa using this

theorem laterLit_of_none {conf rest : Str} (h : ∀ i, 1 ≤ i → i ≤ dotRun rest → pathOk conf rest i = false) :
    laterLit conf rest = false := by
  unfold laterLit
  rw [List.any_eq_false]
  intro i hi
  have hi' : i < dotRun rest := by simpa using hi
  simpa using h (i + 1) (by omega) (by omega)

/-- **the matched text is matched again** in front of `rest'`, when `rest'` starts as the
look-ahead demands and the literal does not stand again further on (`laterLit`) -/
theorem pathFilter_rebuilt {conf path : Str} {r : FilterRes} (hf : pathFilter conf path = some r)
    (rest' : Str) (h0 : pathOk conf rest' 0 = true) (hl : laterLit conf rest' = false) :
    pathFilter conf (path.take r.n ++ rest') = some ⟨.str (path.take r.n), r.n, none⟩ := by
  obtain ⟨_, h1, h2, _, _⟩ := pathFilter_spec hf
  have hlen : (path.take r.n).length = r.n := by
    rw [List.length_take]; exact Nat.min_eq_left (Nat.le_trans h2 (dotRun_le path))
  have hfree := take_free_of_le_dotRun path r.n h2
  have hrun : dotRun (path.take r.n ++ rest') = r.n + dotRun rest' := by
    rw [dotRun_append_free _ _ hfree, hlen]
  have hsh : ∀ i, pathOk conf (path.take r.n ++ rest') (r.n + i) = pathOk conf rest' i := by
    intro i
    have := pathOk_shift conf (path.take r.n) rest' i
    rwa [hlen] at this
  have key := pathFilter_eq_some (conf := conf) (s := path.take r.n ++ rest') (k := r.n) h1
    (by rw [hrun]; omega) (by simpa using (hsh 0).trans h0)
    (by
      intro j hj1 hj2
      rw [hrun] at hj2
      have : j = r.n + (j - r.n) := by omega
      rw [this, hsh]
      exact laterLit_false hl (j - r.n) (by omega) (by omega))
  rw [key]
  congr 2
  rw [List.take_append_of_le_length (by omega), List.take_of_length_le (by omega)]

/-- the original continuation has no later occurrence either (the match was the longest) -/
theorem laterLit_orig {conf path : Str} {r : FilterRes} (hf : pathFilter conf path = some r) :
    laterLit conf (path.drop r.n) = false := by
  obtain ⟨_, h1, h2, _, h4⟩ := pathFilter_spec hf
  have hle : r.n ≤ path.length := Nat.le_trans h2 (dotRun_le path)
  have hfree := take_free_of_le_dotRun path r.n h2
  have hrun : dotRun path = r.n + dotRun (path.drop r.n) := by
    have := dotRun_append_free (path.take r.n) (path.drop r.n) hfree
    rw [List.take_append_drop, List.length_take, Nat.min_eq_left hle] at this
    exact this
  apply laterLit_of_none
  intro i hi1 hi2
  rw [← pathOk_split conf path r.n i hle]
  exact h4 (r.n + i) (by omega) (by omega)

/-- the look-ahead literal after itself: nothing later (a proper suffix is too short) -/
theorem laterLit_self (conf : Str) : laterLit conf conf = false := by
  apply laterLit_of_none
  intro i hi1 hi2
  unfold pathOk
  by_cases he : conf.isEmpty = true
  · have : conf = [] := by simpa using he
    subst this
    simp [dotRun] at hi2
    omega
  · simp only [he, Bool.false_eq_true, if_false]
    have hi3 : i ≤ conf.length := Nat.le_trans hi2 (dotRun_le conf)
    cases hp : conf.isPrefixOf (conf.drop i) with
    | false => rfl
    | true =>
      have hpre : conf <+: conf.drop i := List.isPrefixOf_iff_prefix.mp hp
      have := hpre.length_le
      rw [List.length_drop] at this
      have hne : conf ≠ [] := by simpa using he
      have : 0 < conf.length := List.length_pos_iff.mpr hne
      omega

theorem pathOk_self (conf : Str) : pathOk conf conf 0 = true := by
  unfold pathOk
  by_cases he : conf.isEmpty = true
  · have : conf = [] := by simpa using he
    subst this; rfl
  · simp only [he, Bool.false_eq_true, if_false, List.drop_zero]
    exact List.isPrefixOf_iff_prefix.mpr (List.prefix_refl _)

theorem pathOk_zero_of_prefix {conf rest : Str} (hne : conf ≠ []) (h : conf <+: rest) : pathOk conf rest 0 = true := by
  unfold pathOk
  have : conf.isEmpty = false := by simpa using hne
  simp only [this, Bool.false_eq_true, if_false, List.drop_zero]
  exact List.isPrefixOf_iff_prefix.mpr h

end Ombott.Builtins
