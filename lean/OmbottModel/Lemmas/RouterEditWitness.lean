import OmbottModel.Lemmas.RouterEditProps
/-!
C11: the concrete trees and histories the non-vacuity examples of `Props/C11.lean` use.
-/
namespace Ombott.Router
open Py

/-- `RadiDict.add_hooks` on a tree: `addHooks_denote` of `Props/C11.lean`, needed here for the
well-formedness of the example tree -/
theorem exAddHooks_wf (t t' : Node) (pat : List Sym) (hooks : HookPair) (ow : Bool) (h : WFN t)
    (hi : treeAddHooks t pat hooks ow = .ok t') : WFN t' :=
  (insHooks_spec (fun _ => 0) { hooks := some hooks, overwrite := ow } rfl hooks rfl t t' pat h hi).1

def exAB : List Sym := [.lit 'a', .lit 'b']
def exABC : List Sym := [.lit 'a', .lit 'b', .lit 'c']

/-- the tree after `add('/ab')` -/
def exT1 : Node := .mk ['/'] none [] none none [.mk ['a', 'b'] (some 0) [] none none [] none] none
/-- … and `add('/abc')` -/
def exT2 : Node :=
  .mk ['/'] none [] none none [.mk ['a', 'b'] (some 0) [] none none [.mk ['c'] (some 1) [] none none [] none] none] none
/-- … and a hook pair at `/ab` -/
def exT : Node :=
  .mk ['/'] none [] none none
    [.mk ['a', 'b'] (some 0) [] none (some ⟨some 7, none⟩) [.mk ['c'] (some 1) [] none none [] none] none] none

theorem exAB_nostar : NoStar exAB := by unfold NoStar exAB; decide
theorem exABC_nostar : NoStar exABC := by unfold NoStar exABC; decide

theorem exT2_wf : WFN exT2 := by
  have h0 : WFN Node.root := by unfold Node.root WFN WFL WFT; exact ⟨trivial, trivial⟩
  have h1 := insert_wf' Node.root exT1 exAB 0 [] false h0 rfl
  exact insert_wf' exT1 exT2 exABC 1 [] false h1 rfl

theorem exT_wf : WFN exT := exAddHooks_wf exT2 exT exAB ⟨some 7, none⟩ false exT2_wf rfl

def cenv0 : CompileEnv := fun _ => none

def exAdd (rule : String) (h : Nat) (name : Option String := none) : EditOp :=
  .reg (.add cenv0 { rule := rule.toList, methods := ["GET".toList], handler := h, name := name.map (·.toList) })

/-- a history with an accepted add, an add rejected late (name clash, the route stays), a hook,
a removal that prunes and a `prefix*` removal -/
def exOps : List EditOp :=
  [exAdd "/ab" 0 (some "n"), exAdd "/abc" 1 (some "n"), .addHook cenv0 "/ab".toList 2 false,
   .removeRule cenv0 "/abc".toList, .removeRule cenv0 "/x*".toList]

/-- the plain registration of what survives -/
def exOpsF : List EditOp := [exAdd "/ab" 0 (some "n"), .addHook cenv0 "/ab".toList 2 false]

theorem ok_of_parse {cenv : CompileEnv} {rule : Str} {P : Parsed} (h : parseRule cenv rule = .ok P)
    (h1 : NoLitTok P.syms) (h2 : NoStar P.syms) :
    ∀ p, parseRule cenv rule = .ok p → NoLitTok p.syms ∧ NoStar p.syms := by
  intro p hp; rw [h] at hp; cases hp; exact ⟨h1, h2⟩

theorem exAB_notok : NoLitTok exAB := by
  intro c hc; simp [exAB] at hc; rcases hc with rfl | rfl <;> decide
theorem exABC_notok : NoLitTok exABC := by
  intro c hc; simp [exABC] at hc; rcases hc with rfl | rfl | rfl <;> decide
theorem exXS_notok : NoLitTok [.lit 'x', .lit '*'] := by
  intro c hc; simp at hc; rcases hc with rfl | rfl <;> decide

theorem exOps_ok : ∀ op ∈ exOps, EditOK op := by
  intro op hop
  simp only [exOps, List.mem_cons, List.mem_nil_iff, or_false] at hop
  rcases hop with rfl | rfl | rfl | rfl | rfl
  · exact ok_of_parse (P := ⟨exAB, [], exAB⟩) rfl exAB_notok exAB_nostar
  · exact ok_of_parse (P := ⟨exABC, [], exABC⟩) rfl exABC_notok exABC_nostar
  · exact fun p hp => (ok_of_parse (P := ⟨exAB, [], exAB⟩) rfl exAB_notok exAB_nostar p hp).1
  · exact fun p hp => (ok_of_parse (P := ⟨exABC, [], exABC⟩) rfl exABC_notok exABC_nostar p hp).1
  · intro p hp
    have h0 : parseRule cenv0 "/x*".toList = .ok ⟨[.lit 'x', .lit '*'], [], [.lit 'x', .lit '*']⟩ := rfl
    rw [h0] at hp; cases hp; exact exXS_notok

theorem exOpsF_ok : ∀ op ∈ exOpsF, EditOK op := by
  intro op hop
  simp only [exOpsF, List.mem_cons, List.mem_nil_iff, or_false] at hop
  rcases hop with rfl | rfl
  · exact ok_of_parse (P := ⟨exAB, [], exAB⟩) rfl exAB_notok exAB_nostar
  · exact fun p hp => (ok_of_parse (P := ⟨exAB, [], exAB⟩) rfl exAB_notok exAB_nostar p hp).1

end Ombott.Router
