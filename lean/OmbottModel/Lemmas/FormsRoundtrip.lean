import OmbottModel.Model.BodyAccess
import OmbottModel.Lemmas.FormsEncoded
import OmbottModel.Lemmas.FormsCollect
/-!
Assembly for C07 `form_roundtrip`: the request that carries an encoded form, what `POST` makes of
it, and the client-side view of the result.
-/
namespace Ombott.Forms
open Py Ombott.Multipart

/-! ### the client-side view -/

/-- a field as the client sent it / as a handler reads it back -/
inductive VItem
  | text (v : Str)
  | file (name filename : Str) (ctype : Option Str) (content : Bytes)
  deriving Repr, DecidableEq

def specItem : Field → VItem
  | .text _ v => .text v
  | .file n fn ct c => .file n fn ct c

/-- what a handler reads from an item: the text, or the upload's name, raw filename, content type
(`content_type.value`) and the bytes `file.read()` returns; `none` if the read fails or the value
is `None` -/
def viewItem (body : Bytes) (sp : Bool) : Item → Option VItem
  | .text (some v) => some (.text v)
  | .text none => none
  | .file u =>
    match windowBytes body sp u.file.1 u.file.2 with
    | .ok c => some (.file u.name u.rawFilename u.contentType c)
    | .error _ => none

/-- the value stored under a key shows exactly these fields, in this order; one field is stored
bare, several as a list -/
def Shows (body : Bytes) (sp : Bool) (v : Option PVal) (fs : List Field) : Prop :=
  (vals v).map (viewItem body sp) = fs.map (fun f => some (specItem f)) ∧ ShapeOK v

/-! ### one yielded field -/

theorem itemOf_fieldS (f : Field) (hf : FieldOK f) (ds de : Int) :
    itemFst (fieldS f ds de) =
      (match f with
       | .text _ v => Item.text (some v)
       | .file n fn _ _ => Item.file ⟨n, fn, fieldHeaders f, (ds, de)⟩) ∧
    itemToFiles (fieldS f ds de) = f.isFile ∧ (fieldS f ds de).name = f.name := by
  cases f with
  | text n v => simp [itemFst, itemToFiles, itemOf, fieldS, Field.isFile, Field.name]
  | file n fn ct c =>
    obtain ⟨_, _, hne, _⟩ := hf
    have : fn.isEmpty = false := by cases fn <;> simp_all
    simp [itemFst, itemToFiles, itemOf, fieldS, Field.isFile, Field.name, this]

theorem contentType_fieldHeaders (n fn : Str) (ct : Option Str) (c : Bytes) (w : Int × Int) :
    (Upload.contentType ⟨n, fn, fieldHeaders (.file n fn ct c), w⟩) = ct := by
  have hd : (cs!"Content-Disposition" == cs!"Content-Type") = false := by decide
  cases ct with
  | none => simp [Upload.contentType, fieldHeaders, dictGet, hd]
  | some v => simp [Upload.contentType, fieldHeaders, dictGet, hd, ctypeHeader]

theorem windowBytes_range (X : Bytes) (sp : Bool) (ds : Nat) (c : Bytes)
    (h : (X.drop ds).take c.length = c) :
    windowBytes X sp (ds : Int) ((ds + c.length : Nat) : Int) = .ok c := by
  have e : ((ds + c.length : Nat) : Int) - (ds : Int) = (c.length : Int) := by omega
  have hr : ∃ p', (Proxy.new (ds : Int) ((ds + c.length : Nat) : Int)).read X sp none = .ok (c, p') := by
    unfold Proxy.read Proxy.new
    simp only [e]
    by_cases hz : c.length = 0
    · have : c = [] := List.eq_nil_of_length_eq_zero hz
      subst this
      refine ⟨⟨(ds : Int), ((ds + ([] : Bytes).length : Nat) : Int), (ds : Int)⟩, ?_⟩
      simp
    · rw [if_neg (by omega)]
      unfold srcRead
      rw [if_neg (by omega)]
      simp only
      rw [if_neg (by omega)]
      simp only [Int.toNat_natCast, h]
      exact ⟨_, rfl⟩
  obtain ⟨p', hp'⟩ := hr
  unfold windowBytes
  rw [hp']

/-- a field read back from its own part shows as the field that was sent -/
theorem viewItem_fieldS (X : Bytes) (sp : Bool) (f : Field) (hf : FieldOK f) (ds : Nat)
    (hd : (X.drop ds).take f.data.length = f.data) :
    viewItem X sp (itemFst (fieldS f (ds : Int) ((ds + f.data.length : Nat) : Int))) = some (specItem f) := by
  rw [(itemOf_fieldS f hf _ _).1]
  cases f with
  | text n v => rfl
  | file n fn ct c =>
    simp only [viewItem, specItem]
    have := windowBytes_range X sp ds c hd
    simp only [Field.data] at this ⊢
    rw [this]
    simp only [Option.some.injEq, VItem.file.injEq, true_and, and_true]
    exact contentType_fieldHeaders n fn ct c _

/-! ### all yielded fields -/

/-- two lists related element by element -/
inductive AllPairs {α β} (R : α → β → Prop) : List α → List β → Prop
  | nil : AllPairs R [] []
  | cons {a b as bs} : R a b → AllPairs R as bs → AllPairs R (a :: as) (b :: bs)

/-- the fields `iter_items` yields for an encoded body -/
def encodedItems (tlen off : Nat) (fields : List Field) : List FieldS :=
  (fields.zip (dataRanges tlen off fields)).map (fun x => fieldS x.1 (x.2.1 : Int) (x.2.2 : Int))

/-- a yielded field reads back as the field that was sent -/
def ReadsBack (X : Bytes) (sp : Bool) (f : Field) (it : FieldS) : Prop :=
  it.name = f.name ∧ itemToFiles it = f.isFile ∧ viewItem X sp (itemFst it) = some (specItem f)

theorem encodedItems_readBack (b : Bytes) (sp : Bool) (fields : List Field) :
    ∀ (pre post : Bytes), (∀ f ∈ fields, FieldOK f) →
      AllPairs (ReadsBack (pre ++ (Spec.encodeParts b (fields.map Field.part) ++ post)) sp) fields
        (encodedItems (Spec.delim b).length pre.length fields) := by
  induction fields with
  | nil => intro pre post _; exact AllPairs.nil
  | cons f fs ih =>
    intro pre post hok
    have hf := hok f (by simp)
    simp only [encodedItems, dataRanges, List.zip_cons_cons, List.map_cons]
    have hX : pre ++ (Spec.encodeParts b (f.part :: List.map Field.part fs) ++ post) =
        pre ++ (Spec.encodePart b f.part ++ (Spec.encodeParts b (fs.map Field.part) ++ post)) := by
      simp only [Spec.encodeParts, List.map_cons, List.flatten_cons, List.append_assoc]
    rw [hX]
    refine AllPairs.cons ?_ ?_
    · have hd := part_data_at b f hf pre (Spec.encodeParts b (fs.map Field.part) ++ post)
      have c1 : ((pre.length + 2 + hdrLen f + 4 + f.data.length : Nat) : Int) =
          (((pre.length + 2 + hdrLen f + 4) + f.data.length : Nat) : Int) := rfl
      refine ⟨(itemOf_fieldS f hf _ _).2.2, (itemOf_fieldS f hf _ _).2.1, ?_⟩
      exact viewItem_fieldS _ sp f hf (pre.length + 2 + hdrLen f + 4) hd
    · have hX2 : pre ++ (Spec.encodePart b f.part ++ (Spec.encodeParts b (fs.map Field.part) ++ post)) =
          (pre ++ Spec.encodePart b f.part) ++ (Spec.encodeParts b (fs.map Field.part) ++ post) := by
        simp only [List.append_assoc]
      have hoff : pre.length + 2 + hdrLen f + 4 + f.data.length + (Spec.delim b).length =
          (pre ++ Spec.encodePart b f.part).length := by
        rw [List.length_append, encodePart_length b f hf]; omega
      rw [hX2, hoff]
      exact ih (pre ++ Spec.encodePart b f.part) post (fun x hx => hok x (by simp [hx]))

theorem forall₂_filter_map {α β γ} (R : α → β → Prop) (p : α → Bool) (q : β → Bool) (g : β → γ) (h : α → γ)
    (hR : ∀ a b, R a b → p a = q b ∧ g b = h a) :
    ∀ (as : List α) (bs : List β), AllPairs R as bs → (bs.filter q).map g = (as.filter p).map h := by
  intro as bs hf
  induction hf with
  | nil => rfl
  | cons hab _ ih =>
    obtain ⟨h1, h2⟩ := hR _ _ hab
    simp only [List.filter_cons, h1]
    split
    · simp [h2, ih]
    · exact ih

open Ombott.BodyAccess in
/-- the encoder's Content-Type takes the multipart branch of `POST` -/
theorem lowerCT_multipart (boundary : Str) (quote : Bool) (cl : Int) (fr : Except Ombott.BodyAccess.FrErr (List Bytes)) :
    startsWithS (lowerCT ⟨some (contentTypeFor boundary quote), cl, fr⟩) cs!"multipart/" = true := by
  unfold lowerCT contentTypeFor lower startsWithS
  simp only [Option.getD_some, List.map_append]
  have : List.map lowerChar cs!"multipart/form-data; boundary=" = cs!"multipart/form-data; boundary=" := by decide
  rw [this]
  rfl

end Ombott.Forms
