import OmbottModel.Lemmas.RouterEditProps
/-!
C01, route hooks: installing a hook (`RadiRouter.add_hook`, whatever pattern it names and however
it spells the wildcards) changes neither the `routes` table nor a route object, so every lookup
dispatches as before and hands the handler the same keyword arguments.
-/
namespace Ombott.Router
open Py

/-- a lookup's answer without the hooks collected on the way (and, for a 404, without the
partial values / prefix that only the per-prefix 404 hook receives) -/
def Resolved.noHooks : Resolved → Resolved
  | .found h m kw _ => .found h m kw []
  | .notFound _ _ _ => .notFound [] [] []
  | .notAllowed a => .notAllowed a
  | .fault => .fault

/-- `add_hook` touches the tree and the `hooks` index only -/
theorem addHook_tables (R : Router) (cenv : CompileEnv) (rule : Str) (hook : Nat) (pt : Bool) :
    (R.addHook cenv rule hook pt).1.routes = R.routes ∧ (R.addHook cenv rule hook pt).1.objs = R.objs := by
  unfold Router.addHook
  cases parseRule cenv rule with
  | error e => exact ⟨rfl, rfl⟩
  | ok p =>
    simp only
    unfold Router.addHookParsed
    split
    · exact ⟨rfl, rfl⟩
    · simp only
      split
      · split <;> exact ⟨rfl, rfl⟩
      · split <;> exact ⟨rfl, rfl⟩

/-- two routers with the same `routes` table and route objects, both in step with their trees,
dispatch every lookup alike -/
theorem resolve_noHooks_congr {R R' : Router} (hinv : Inv R) (hinv' : Inv R')
    (hr : R'.routes = R.routes) (ho : R'.objs = R.objs)
    (env : FilterEnv) (hs : NoSel env) (path : Str) (ms : List Str) :
    (R'.resolve env path ms).noHooks = (R.resolve env path ms).noHooks := by
  have h1 := resolve_full hinv env hs path ms
  have h2 := resolve_full hinv' env hs path ms
  rw [rules_congr hr ho] at h2
  cases hsr : specResolve env R.rules (stripSlash path) with
  | none =>
    rw [hsr] at h1 h2
    obtain ⟨v, h, p, e1⟩ := h1
    obtain ⟨v', h', p', e2⟩ := h2
    rw [e1, e2]; rfl
  | some x =>
    obtain ⟨rule, vs⟩ := x
    rw [hsr] at h1 h2
    obtain ⟨route, ho1, _, _, _, e1⟩ := h1
    obtain ⟨route', ho2, _, _, _, e2⟩ := h2
    have : route' = route := by
      unfold Router.obj? at ho1 ho2
      rw [ho] at ho2
      rw [ho1] at ho2
      exact (Option.some.inj ho2).symm
    subst this
    rw [e1, e2]
    cases route'.getItem ms <;> rfl

end Ombott.Router
