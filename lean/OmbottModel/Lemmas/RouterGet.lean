import OmbottModel.Model.RouterSpec
/-!
Lookup in a well-formed tree = first matching rule of the tree's denotation in depth-first
order (`getN_core`), and depth-first order is priority order (`denN_sorted`).
-/
namespace Ombott.Router
open Py

/-- first rule of a list that matches -/
def firstMatch (env : FilterEnv) : List Rule → Str → Option (Rule × List Val)
  | [], _ => none
  | r :: rest, p =>
    match matchRule env r.pat p with
    | some vs => some (r, vs)
    | none => firstMatch env rest p

theorem firstMatch_append (env : FilterEnv) (a b : List Rule) (p : Str) :
    firstMatch env (a ++ b) p = (firstMatch env a p).orElse (fun _ => firstMatch env b p) := by
  induction a with
  | nil => simp [firstMatch]
  | cons x xs ih =>
    simp only [List.cons_append, firstMatch]
    cases h : matchRule env x.pat p with
    | some vs => simp
    | none => simpa using ih

/-! ### literal keys -/

theorem matchRule_lit_append (env : FilterEnv) (k : Str) (pat : List Sym) (p : Str) :
    matchRule env (litSyms k ++ pat) p = (stripPre k p).bind (matchRule env pat) := by
  induction k generalizing p with
  | nil => simp [litSyms, stripPre]
  | cons c ks ih =>
    cases p with
    | nil => simp [litSyms, matchRule, stripPre]
    | cons d p =>
      simp only [litSyms, List.map_cons, List.cons_append, matchRule, stripPre]
      by_cases h : c = d
      · subst h; simp only [if_true, beq_self_eq_true]; exact ih p
      · have : (c == d) = false := by simpa using h
        simp [h, this]

/-- the values are the same whatever stands in front of the pattern -/
def Rule.liftRes (pre : List Sym) (x : Rule × List Val) : Rule × List Val := (x.1.under pre, x.2)

theorem firstMatch_map_lit (env : FilterEnv) (k : Str) (l : List Rule) (p : Str) :
    firstMatch env (l.map (Rule.under (litSyms k))) p =
      ((stripPre k p).bind (firstMatch env l)).map (Rule.liftRes (litSyms k)) := by
  induction l with
  | nil => cases stripPre k p <;> simp [firstMatch]
  | cons x xs ih =>
    simp only [List.map_cons, firstMatch, Rule.under, matchRule_lit_append env k x.pat p]
    cases hs : stripPre k p with
    | none => simp [hs] at ih; simpa using ih
    | some rest =>
      simp only [Option.bind_some, firstMatch]
      cases matchRule env x.pat rest with
      | some vs => simp [Rule.liftRes, Rule.under]
      | none => simp [hs] at ih; simpa using ih

theorem stripPre_head {k : Str} {p rest : Str} (hk : k ≠ []) (h : stripPre k p = some rest) :
    ∃ c p', p = c :: p' ∧ k.head? = some c := by
  cases k with
  | nil => exact absurd rfl hk
  | cons c ks =>
    cases p with
    | nil => simp [stripPre] at h
    | cons d p' =>
      simp only [stripPre] at h
      split at h
      · rename_i hcd
        have : c = d := by simpa using hcd
        subst this; exact ⟨_, _, rfl, rfl⟩
      · simp at h

theorem stripPre_other {k : Str} {c : Char} {p : Str} (hne : k ≠ []) (h : k.head? ≠ some c) :
    stripPre k (c :: p) = none := by
  cases k with
  | nil => exact absurd rfl hne
  | cons d ks =>
    simp only [stripPre]
    split
    · rename_i hcd
      have : d = c := by simpa using hcd
      subst this; simp at h
    · rfl

theorem stripPre_nil {k : Str} (hne : k ≠ []) : stripPre k [] = none := by
  cases k with
  | nil => exact absurd rfl hne
  | cons d ks => rfl

/-! ### wildcard -/

/-- what a match below a wildcard looks like from above it -/
def Rule.liftTok (f : Option Fid) (v : Val) (x : Rule × List Val) : Rule × List Val :=
  (x.1.under [Sym.tok f], v :: x.2)

theorem firstMatch_tok (env : FilterEnv) (f : Option Fid) (l : List Rule) (c : Char) (p : Str) :
    firstMatch env (l.map (Rule.under [Sym.tok f])) (c :: p) =
      (tokRes env f (c :: p)).bind fun r =>
        (firstMatch env l ((c :: p).drop r.n)).map (Rule.liftTok f r.val) := by
  induction l with
  | nil => cases h : tokRes env f (c :: p) <;> simp [firstMatch]
  | cons x xs ih =>
    simp only [List.map_cons, firstMatch, Rule.under, List.cons_append, List.nil_append, matchRule]
    cases he : tokRes env f (c :: p) with
    | none => simp [he] at ih; simpa using ih
    | some r =>
      simp only [Option.bind_some]
      cases hm : matchRule env x.pat (List.drop r.n (c :: p)) with
      | some vs => simp [Rule.liftTok, Rule.under]
      | none => simp [he] at ih; simpa [Rule.under] using ih

theorem firstMatch_tok_nil (env : FilterEnv) (f : Option Fid) (l : List Rule) :
    firstMatch env (l.map (Rule.under [Sym.tok f])) [] = none := by
  induction l with
  | nil => simp [firstMatch]
  | cons x xs ih => simpa [firstMatch, matchRule, Rule.under] using ih

theorem own_nonempty (env : FilterEnv) (d : Option Nat) (pk : List Str) (c : Char) (p : Str) :
    firstMatch env (ownRule d pk) (c :: p) = none := by
  cases d <;> simp [ownRule, firstMatch, matchRule]

theorem denL_other (env : FilterEnv) (ks : List Node) (h : WFL ks) (c : Char) (p : Str)
    (hd : ∀ k' ∈ ks, k'.key.head? ≠ some c) : firstMatch env (denL ks) (c :: p) = none := by
  induction ks with
  | nil => simp [denL, firstMatch]
  | cons k ks ih =>
    unfold WFL at h
    obtain ⟨hne, _, hks, _⟩ := h
    simp only [denL, firstMatch_append, firstMatch_map_lit env k.key]
    rw [stripPre_other hne (hd k (by simp))]
    simp only [Option.bind_none, Option.map_none, Option.orElse_none]
    exact ih hks (fun k' hk' => hd k' (by simp [hk']))

theorem denL_nil (env : FilterEnv) (ks : List Node) (h : WFL ks) :
    firstMatch env (denL ks) [] = none := by
  induction ks with
  | nil => simp [denL, firstMatch]
  | cons k ks ih =>
    unfold WFL at h
    obtain ⟨hne, _, hks, _⟩ := h
    simp only [denL, firstMatch_append, firstMatch_map_lit env k.key, stripPre_nil hne]
    simp only [Option.bind_none, Option.map_none, Option.orElse_none]
    exact ih hks

theorem denT_nil (env : FilterEnv) (t : Option Node) : firstMatch env (denT t) [] = none := by
  cases t with
  | none => simp [denT, firstMatch]
  | some t => simp only [denT]; exact firstMatch_tok_nil env _ _

/-! ### the lookup -/

/-- a match found below a position where the values `vs0` were already collected -/
def coreOf (vs0 : List Val) (x : Rule × List Val) : Nat × List Str × List Val :=
  (x.1.data, x.1.keys, vs0 ++ x.2)

theorem coreOf_liftRes (vs0 : List Val) (pre : List Sym) (x : Rule × List Val) :
    coreOf vs0 (Rule.liftRes pre x) = coreOf vs0 x := rfl

theorem coreOf_liftTok (vs0 : List Val) (f : Option Fid) (v : Val) (x : Rule × List Val) :
    coreOf vs0 (Rule.liftTok f v x) = coreOf (vs0 ++ [v]) x := by
  simp [coreOf, Rule.liftTok, Rule.under]

theorem tokRes_noSel {env : FilterEnv} (hs : NoSel env) {f : Option Fid} {s : Str} {r : FilterRes}
    (h : tokRes env f s = some r) : r.sel = none := by
  cases f with
  | none => simp only [tokRes, Option.some.injEq] at h; subst h; rfl
  | some g => exact hs g s r h

theorem core_orTok (lit : Option Res) (hasTok : Bool) (alt : Unit → Res)
    (h : hasTok = false → (alt ()).core = none) :
    (Res.orTok lit hasTok alt).core = (lit.bind Res.core).orElse fun _ => (alt ()).core := by
  cases lit with
  | none => simp [Res.orTok]
  | some r =>
    cases r with
    | hit d k v hk => simp [Res.orTok, Res.core]
    | miss v hk p =>
      cases hasTok with
      | true => simp [Res.orTok, Res.core]
      | false => rw [h rfl]; simp [Res.orTok, Res.core]

@[simp] theorem Acc.miss_core (a : Acc) : a.miss.core = none := rfl

@[simp] theorem Acc.advance_vals (a : Acc) (e : Str) (h : Option HookPair) :
    (a.advance e h).vals = a.vals := by
  cases h <;> rfl

mutual
theorem getN_core (env : FilterEnv) (hs : NoSel env) (n : Node) (h : WFN n) (a : Acc) (path : Str) :
    (getN env n a path).core = (firstMatch env (denN n) path).map (coreOf a.vals) := by
  match n, path with
  | .mk k d pk f hk lits tok, [] =>
    unfold WFN at h
    simp only [getN, denN, firstMatch_append, denL_nil env lits h.1, denT_nil]
    cases d <;> simp [ownRule, firstMatch, matchRule, Acc.atEnd, Acc.miss, Res.core, coreOf]
  | .mk k d pk f hk lits tok, c :: p =>
    unfold WFN at h
    obtain ⟨hl, ht⟩ := h
    simp only [getN, denN, firstMatch_append, own_nonempty]
    rw [core_orTok, getL_core env hs lits hl a c p, getT_core env hs tok ht a c p]
    · cases firstMatch env (denL lits) (c :: p) <;> simp
    · intro hno
      cases tok with
      | none => simp only [getT]; rfl
      | some t => simp at hno
theorem getT_core (env : FilterEnv) (hs : NoSel env) (t : Option Node) (h : WFT t) (a : Acc)
    (c : Char) (p : Str) :
    (getT env t a (c :: p)).core = (firstMatch env (denT t) (c :: p)).map (coreOf a.vals) := by
  match t with
  | none => simp [getT, denT, firstMatch]
  | some t =>
    unfold WFT at h
    simp only [getT, denT, firstMatch_tok, tokStep]
    cases he : tokRes env t.filter (c :: p) with
    | none => simp
    | some r =>
      obtain ⟨v, n, sel⟩ := r
      have : sel = none := tokRes_noSel hs he
      subst this
      simp only [Option.bind_some]
      rw [getN_core env hs t h]
      simp only [Acc.advance_vals]
      cases firstMatch env (denN t) (List.drop n (c :: p)) <;> simp [coreOf_liftTok]
theorem getL_core (env : FilterEnv) (hs : NoSel env) (ks : List Node) (h : WFL ks) (a : Acc)
    (c : Char) (p : Str) :
    ((getL env ks a c p).bind Res.core) = (firstMatch env (denL ks) (c :: p)).map (coreOf a.vals) := by
  match ks with
  | [] => simp [getL, denL, firstMatch]
  | k :: ks =>
    unfold WFL at h
    obtain ⟨hne, hk, hks, hdist⟩ := h
    simp only [getL, denL, firstMatch_append, firstMatch_map_lit env k.key]
    by_cases hc : k.key.head? = some c
    · have hc' : (k.key.head? == some c) = true := by simp [hc]
      simp only [hc', if_true, Option.bind_some]
      rw [denL_other env ks hks c p (fun k' hk' => hc ▸ hdist k' hk')]
      cases hsp : stripPre k.key (c :: p) with
      | none => simp
      | some rest =>
        simp only [Option.elim, Option.bind_some]
        rw [getN_core env hs k hk]
        simp only [Acc.advance_vals]
        cases firstMatch env (denN k) rest <;> simp [coreOf_liftRes]
    · have hc' : (k.key.head? == some c) = false := by simpa using hc
      simp only [hc', Bool.false_eq_true, if_false]
      rw [stripPre_other hne hc]
      simp only [Option.bind_none, Option.map_none, Option.orElse_none]
      exact getL_core env hs ks hks a c p
end

end Ombott.Router
