import OmbottModel.Lemmas.RouterHist
/-!
Facts about `specResolve`, `matchRule`, `makeParamsDict` and the parser's parameter list that the
C01 / C02 property theorems combine.
-/
namespace Ombott.Router
open Py

theorem specResolve_mem {env : FilterEnv} {L : List Rule} {p : Str} {r : Rule} {vs : List Val}
    (h : specResolve env L p = some (r, vs)) : r ∈ L ∧ matchRule env r.pat p = some vs := by
  rw [specResolve_eq] at h
  obtain ⟨x, hx, hfx⟩ := List.exists_of_findSome?_eq_some h
  unfold specPick at hfx
  cases hm : matchRule env x.pat p with
  | none => simp [hm] at hfx
  | some w =>
    simp only [hm] at hfx
    split at hfx
    · simp only [Option.some.injEq, Prod.mk.injEq] at hfx
      obtain ⟨rfl, rfl⟩ := hfx
      exact ⟨hx, hm⟩
    · cases hfx

theorem dictGet_mem {β} {d : List (Str × β)} {k : Str} {v : β} (h : dictGet d k = some v) :
    (k, v) ∈ d := by
  unfold dictGet at h
  simp only [Option.map_eq_some_iff] at h
  obtain ⟨⟨k', v'⟩, hf, rfl⟩ := h
  have hk : k' = k := by simpa using List.find?_some hf
  subst hk
  exact List.mem_of_find?_eq_some hf

theorem getItem_mem {r : Route} {ms : List Str} {m : RouteMethod} (h : r.getItem ms = .ok m) :
    ∃ name, (name, m) ∈ r.methods := by
  induction ms with
  | nil => simp [Route.getItem, throw, throwThe, MonadExceptOf.throw] at h
  | cons x xs ih =>
    unfold Route.getItem at h
    cases hd : dictGet r.methods x with
    | some rm =>
      simp only [hd, pure, Except.pure, Except.ok.injEq] at h
      subst h
      exact ⟨x, dictGet_mem hd⟩
    | none => simp only [hd] at h; exact ih h

/-- number of wildcards of a pattern -/
def countToks : List Sym → Nat
  | [] => 0
  | .lit _ :: p => countToks p
  | .tok _ :: p => countToks p + 1

theorem matchRule_length {env : FilterEnv} {pat : List Sym} {p : Str} {vs : List Val}
    (h : matchRule env pat p = some vs) : vs.length = countToks pat := by
  induction pat generalizing p vs with
  | nil => cases p <;> simp [matchRule] at h; subst h; rfl
  | cons s ps ih =>
    cases s with
    | lit c =>
      cases p with
      | nil => simp [matchRule] at h
      | cons d p =>
        simp only [matchRule] at h
        split at h
        · exact ih h
        · cases h
    | tok f =>
      cases p with
      | nil => simp [matchRule] at h
      | cons d p =>
        simp only [matchRule] at h
        cases ht : tokRes env f (d :: p) with
        | none => simp [ht] at h
        | some r =>
          simp only [ht, Option.map_eq_some_iff] at h
          obtain ⟨w, hw, rfl⟩ := h
          simp [countToks, ih hw]

/-- every value of a match is what the filter of some wildcard of the pattern answered on a
non-empty remainder of the path -/
theorem matchRule_vals {env : FilterEnv} {pat : List Sym} {p : Str} {vs : List Val}
    (h : matchRule env pat p = some vs) :
    ∀ v ∈ vs, ∃ f s r, Sym.tok f ∈ pat ∧ s <:+ p ∧ s ≠ [] ∧ tokRes env f s = some r ∧ r.val = v := by
  induction pat generalizing p vs with
  | nil => cases p <;> simp [matchRule] at h; subst h; simp
  | cons s ps ih =>
    cases s with
    | lit c =>
      cases p with
      | nil => simp [matchRule] at h
      | cons d p =>
        simp only [matchRule] at h
        split at h
        · intro v hv
          obtain ⟨f, s, r, h1, h2, h3, h4⟩ := ih h v hv
          exact ⟨f, s, r, by simp [h1], h2.trans (List.suffix_cons d p), h3, h4⟩
        · cases h
    | tok f =>
      cases p with
      | nil => simp [matchRule] at h
      | cons d p =>
        simp only [matchRule] at h
        cases ht : tokRes env f (d :: p) with
        | none => simp [ht] at h
        | some r =>
          simp only [ht, Option.map_eq_some_iff] at h
          obtain ⟨w, hw, rfl⟩ := h
          intro v hv
          rcases List.mem_cons.mp hv with rfl | hv
          · exact ⟨f, d :: p, r, by simp, List.suffix_refl _, by simp, ht, rfl⟩
          · obtain ⟨f', s, r', h1, h2, h3, h4⟩ := ih hw v hv
            exact ⟨f', s, r', by simp [h1], h2.trans (List.drop_suffix _ _), h3, h4⟩

/-! ### `make_params_dict` -/

def isAnon (n : Str) : Bool := Gen.anonPrefix.toList.isPrefixOf n

theorem foldl_params_mem (l : List (Str × Val)) (d : List (Str × Val)) (k : Str) (v : Val)
    (h : (k, v) ∈ l.foldl (fun d (x : Str × Val) => if isAnon x.1 then d else dictSet d x.1 x.2) d) :
    (k, v) ∈ d ∨ ((k, v) ∈ l ∧ isAnon k = false) := by
  induction l generalizing d with
  | nil => exact Or.inl h
  | cons x xs ih =>
    simp only [List.foldl_cons] at h
    rcases ih _ h with h1 | ⟨h1, h2⟩
    · split at h1
      · exact Or.inl h1
      · rename_i hx
        rcases (mem_dictSet _ _ _ _ _).mp h1 with ⟨rfl, rfl⟩ | ⟨_, h1⟩
        · exact Or.inr ⟨by simp, by simpa using hx⟩
        · exact Or.inl h1
    · exact Or.inr ⟨by simp [h1], h2⟩

/-- the kwargs come from the zip of names and values; anonymous names never appear -/
theorem makeParamsDict_mem {names : List Str} {vals : List Val} {k : Str} {v : Val}
    (h : (k, v) ∈ makeParamsDict names vals) : (k, v) ∈ names.zip vals ∧ isAnon k = false := by
  unfold makeParamsDict at h
  have e : (fun (d : List (Str × Val)) (x : Str × Val) =>
        match x with | (n, v) => if Gen.anonPrefix.toList.isPrefixOf n = true then d else dictSet d n v) =
      (fun d x => if isAnon x.1 then d else dictSet d x.1 x.2) := by
    funext d ⟨a, b⟩; rfl
  rw [e] at h
  rcases foldl_params_mem _ _ k v h with h1 | h1
  · cases h1
  · exact h1

theorem foldl_params_complete (l : List (Str × Val)) (hnd : (l.map (·.1)).Nodup) (d : List (Str × Val))
    (k : Str) (v : Val)
    (h : ((k, v) ∈ d ∧ k ∉ l.map (·.1)) ∨ ((k, v) ∈ l ∧ isAnon k = false)) :
    (k, v) ∈ l.foldl (fun d (x : Str × Val) => if isAnon x.1 then d else dictSet d x.1 x.2) d := by
  induction l generalizing d with
  | nil =>
    rcases h with h | h
    · exact h.1
    · cases h.1
  | cons x xs ih =>
    simp only [List.map_cons, List.nodup_cons] at hnd
    simp only [List.foldl_cons]
    apply ih hnd.2
    rcases h with ⟨h1, h2⟩ | ⟨h1, h2⟩
    · simp only [List.map_cons, List.mem_cons, not_or] at h2
      refine Or.inl ⟨?_, h2.2⟩
      split
      · exact h1
      · exact (mem_dictSet _ _ _ _ _).mpr (Or.inr ⟨h2.1, h1⟩)
    · rcases List.mem_cons.mp h1 with rfl | h1
      · refine Or.inl ⟨?_, hnd.1⟩
        simp only [h2, Bool.false_eq_true, if_false]
        exact (mem_dictSet _ _ _ _ _).mpr (Or.inl ⟨rfl, rfl⟩)
      · exact Or.inr ⟨h1, h2⟩

theorem zip_fst_sublist {α β} (a : List α) (b : List β) : ((a.zip b).map (·.1)).Sublist a := by
  induction a generalizing b with
  | nil => simp
  | cons x xs ih =>
    cases b with
    | nil => simp
    | cons y ys => simpa using ih ys

/-- with pairwise different names the kwargs are exactly the zip of names and values without
the anonymous names -/
theorem makeParamsDict_iff {names : List Str} {vals : List Val} (hnd : names.Nodup) (k : Str) (v : Val) :
    (k, v) ∈ makeParamsDict names vals ↔ ((k, v) ∈ names.zip vals ∧ isAnon k = false) := by
  constructor
  · exact makeParamsDict_mem
  · intro h
    unfold makeParamsDict
    have e : (fun (d : List (Str × Val)) (x : Str × Val) =>
          match x with | (n, v) => if Gen.anonPrefix.toList.isPrefixOf n = true then d else dictSet d n v) =
        (fun d x => if isAnon x.1 then d else dictSet d x.1 x.2) := by
      funext d ⟨a, b⟩; rfl
    rw [e]
    apply foldl_params_complete
    · exact (zip_fst_sublist names vals).nodup hnd
    · exact Or.inr h

theorem makeParamsDict_nil_vals (names : List Str) : makeParamsDict names [] = [] := by
  unfold makeParamsDict; simp

/-! ### the parser lists one name per wildcard -/

theorem countToks_append (a b : List Sym) : countToks (a ++ b) = countToks a + countToks b := by
  induction a with
  | nil => simp [countToks]
  | cons s a ih => cases s <;> simp [countToks, ih] <;> omega

theorem countToks_lits (t : Str) : countToks (t.map Sym.lit) = 0 := by
  induction t with
  | nil => rfl
  | cons c t ih => simpa [countToks] using ih

theorem parseParts_params_len (cenv : CompileEnv) (parts : List Part) (anon : Nat) (p : Parsed)
    (h : parseParts cenv parts anon = .ok p) : p.params.length = countToks p.syms := by
  induction parts generalizing anon p with
  | nil => simp [parseParts, pure, Except.pure] at h; subst h; rfl
  | cons x xs ih =>
    unfold parseParts at h
    cases hx : x.part with
    | some txt =>
      simp only [hx] at h
      cases hr : parseParts cenv xs anon with
      | error e => simp [hr, bind, Except.bind] at h
      | ok rest =>
        simp only [hr, bind, Except.bind, pure, Except.pure, Except.ok.injEq] at h
        subst h
        simp [countToks_append, countToks_lits, ih _ _ hr]
    | none =>
      simp only [hx] at h
      cases hf : makeFilter cenv x.filter x.args with
      | error e => simp [hf, bind, Except.bind] at h
      | ok f =>
        simp only [hf, bind, Except.bind] at h
        split at h
        · cases h
        · rename_i rest hr
          simp only [pure, Except.pure, Except.ok.injEq] at h
          subst h
          simp [countToks, countToks_append, countToks_lits, ih _ _ hr]

theorem parseRule_params_len {cenv : CompileEnv} {rule : Str} {p : Parsed}
    (h : parseRule cenv rule = .ok p) : p.params.length = countToks p.syms := by
  unfold parseRule at h
  cases rule with
  | nil => simp [throw, throwThe, MonadExceptOf.throw] at h
  | cons c r =>
    simp only at h
    split at h
    · simp [throw, throwThe, MonadExceptOf.throw] at h
    · split at h
      · simp [throw, throwThe, MonadExceptOf.throw] at h
      · rename_i p' hp _
        simp only [pure, Except.pure, Except.ok.injEq] at h
        subst h
        exact parseParts_params_len _ _ _ _ hp
      · simp [throw, throwThe, MonadExceptOf.throw] at h

end Ombott.Router
