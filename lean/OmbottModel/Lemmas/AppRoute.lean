import OmbottModel.Lemmas.AppServe
import OmbottModel.Lemmas.AppRouter
import OmbottModel.Lemmas.RouterResolve
/-!
`App.serve` read on the router: the handler event of `Model/Wsgi` is a call the router resolved
(`serve_handler_event`), the response record of `App.serve` (`serve_ok`), and definedness of
`App.serve` on routers built by registration histories (`serveW_defined`).
-/
namespace Ombott.App
open Py Ombott Ombott.Wsgi

/-! ### the handler event -/

theorem handle_events_undecodable (app : Wsgi.App) (s : Slots) (r : Wsgi.Req) (hp : r.pathOK = false) :
    (handle app s r).2.1 = [] := by
  unfold handle handleFrom
  simp only [hp, Bool.not_false, if_true]

/-- a handler event in the exchange means `_handle` took the found-route branch -/
theorem handler_event_found (app : Wsgi.App) (s : Slots) (r : Wsgi.Req)
    (h : Wsgi.Event.handler ∈ (wsgi app s r).events ++ serverEvents (wsgi app s r)) :
    r.pathOK = true ∧ r.route.isFound = true := by
  obtain ⟨c, errs, st, herrs, hst, hev, _⟩ := wsgi_events_shape app s r
  have hclose : ∀ c : Option Nat, Wsgi.Event.handler ∉ closeEvents c := by
    intro c hc; cases c <;> simp [closeEvents] at hc
  have hin : Wsgi.Event.handler ∈ (handle app s r).2.1 := by
    rw [hev] at h
    simp only [List.mem_append, List.mem_cons, List.not_mem_nil, or_false, serverEvents] at h
    rcases h with (((h | h) | h) | h) | h
    · exact h
    · exact absurd h (hclose _)
    · rcases herrs with rfl | rfl
      · cases h
      · simp at h
    · subst h; cases hst
    · exact absurd h (hclose _)
  cases hp : r.pathOK with
  | false => rw [handle_events_undecodable app s r hp] at hin; cases hin
  | true =>
    refine ⟨rfl, ?_⟩
    obtain ⟨tail, ht, heq⟩ := handle_trace app s r hp
    rw [heq] at hin
    simp only [List.mem_append, List.mem_map] at hin
    rcases hin with ((⟨_, _, h⟩ | h) | ⟨_, _, h⟩) | h
    · cases h
    · split at h
      · simp only [List.mem_cons] at h
        rcases h with h | h
        · cases h
        · split at h
          · assumption
          · cases h
      · cases h
    · cases h
    · rcases ht with rfl | rfl
      · cases h
      · simp at h

/-! ### the response record -/

theorem startOf_mem {evs : List Wsgi.Event} {l : Str} {h : List (Str × Str)} {x : Bool}
    (hs : startOf evs = some (l, h, x)) : Wsgi.Event.startResponse l h x ∈ evs := by
  induction evs with
  | nil => cases hs
  | cons e r ih =>
    cases e with
    | startResponse l' h' x' =>
      simp only [startOf, Option.some.injEq, Prod.mk.injEq] at hs
      obtain ⟨rfl, rfl, rfl⟩ := hs
      exact List.mem_cons_self ..
    | before i => exact List.mem_cons_of_mem _ (ih hs)
    | routed => exact List.mem_cons_of_mem _ (ih hs)
    | handler => exact List.mem_cons_of_mem _ (ih hs)
    | after j => exact List.mem_cons_of_mem _ (ih hs)
    | close k => exact List.mem_cons_of_mem _ (ih hs)
    | stderr => exact List.mem_cons_of_mem _ (ih hs)

theorem startOf_isSome_of_mem {evs : List Wsgi.Event} {e : Wsgi.Event} (he : e ∈ evs) (hs : e.isStart = true) :
    (startOf evs).isSome = true := by
  induction evs with
  | nil => cases he
  | cons a r ih =>
    cases a with
    | startResponse l' h' x' => rfl
    | before i | routed | handler | after j | close k | stderr =>
      rcases List.mem_cons.mp he with rfl | hm
      · cases hs
      · exact ih hm

/-- `App.serve` always produces a response record where it is defined -/
theorem serve_ok {cfg : AppConfig} {R : Router.Router} {q : Req} {res : Wsgi.Result}
    (h : serveW cfg R q = .ok res) :
    ∃ resp, serve cfg R q = .ok (some resp) ∧
      resp.events = (res.events ++ serverEvents res).map (liftEvent (callOf (resolved cfg R q))) ∧
      resp.body = res.body ∧
      ∃ x, Wsgi.Event.startResponse resp.status resp.headers x ∈ res.events := by
  obtain ⟨r, _, rfl⟩ := serveW_ok h
  obtain ⟨pre, st, hev, hst⟩ := (by
    obtain ⟨c, errs, st, _, hst, hev, _⟩ := wsgi_events_shape cfg.hooks Slots.fresh r
    exact ⟨_, st, hev, hst⟩ :
    ∃ pre st, (wsgi cfg.hooks Slots.fresh r).events = pre ++ [st] ∧ st.isStart = true)
  have hsome := startOf_isSome_of_mem (evs := (wsgi cfg.hooks Slots.fresh r).events) (e := st)
    (by rw [hev]; simp) hst
  cases hso : startOf (wsgi cfg.hooks Slots.fresh r).events with
  | none => rw [hso] at hsome; cases hsome
  | some p =>
    obtain ⟨l, hd, x⟩ := p
    refine ⟨{ events := ((wsgi cfg.hooks Slots.fresh r).events ++ serverEvents (wsgi cfg.hooks Slots.fresh r)).map
                (liftEvent (callOf (resolved cfg R q))),
              status := l, headers := hd, body := (wsgi cfg.hooks Slots.fresh r).body }, ?_, rfl, rfl, x, startOf_mem hso⟩
    unfold serve
    rw [h]
    simp only [Except.map, responseOf, hso, Option.map_some]

theorem liftEvent_handler {c c' : Option Call} {e : Wsgi.Event} (h : liftEvent c e = .handler c') :
    e = .handler ∧ c' = c := by
  cases e <;> simp only [liftEvent, Event.handler.injEq, reduceCtorEq] at h
  exact ⟨rfl, h.symm⟩

/-- **the handler event carries the router's call.**  Whenever the response record of `App.serve`
has a handler event, the path decoded, the router answered `found h m kw` (no route hooks), the
event carries exactly `(h, m, kw)`, and the program that ran is `cfg.handlers h kw`. -/
theorem serve_handler_event {cfg : AppConfig} {R : Router.Router} {q : Req} {resp : Response}
    (hs : serve cfg R q = .ok (some resp)) (c : Option Call) (hc : Event.handler c ∈ resp.events) :
    ∃ p h m kw, ErrorPage.utf8Decode q.rawPath = some p ∧
      R.handle cfg.upper cfg.fenv q.verb p = .found h m kw [] ∧ c = some ⟨h, m, kw⟩ ∧
      ∃ r, wsgiReq cfg R q = .ok r ∧ r.route = .found (cfg.handlers h kw) := by
  cases hw : serveW cfg R q with
  | error s => unfold serve at hs; rw [hw] at hs; cases hs
  | ok res =>
    obtain ⟨resp', hs', hev, _⟩ := serve_ok hw
    rw [hs] at hs'
    simp only [Except.ok.injEq, Option.some.injEq] at hs'
    subst hs'
    obtain ⟨r, hr, rfl⟩ := serveW_ok hw
    rw [hev] at hc
    simp only [List.mem_map] at hc
    obtain ⟨e, he, hle⟩ := hc
    obtain ⟨rfl, rfl⟩ := liftEvent_handler hle
    obtain ⟨_, hfound⟩ := handler_event_found cfg.hooks Slots.fresh r he
    obtain ⟨_, _, _, _, _, _, _, _, _, hrel⟩ := wsgiReq_ok hr
    unfold resolved at hrel ⊢
    generalize hrt : r.route = route at hrel hfound
    cases hd : ErrorPage.utf8Decode q.rawPath with
    | none =>
      rw [hd] at hrel
      simp only [Option.map_none] at hrel
      cases hrel
      cases hfound
    | some p =>
      rw [hd] at hrel
      simp only [Option.map_some] at hrel ⊢
      generalize hrs : R.handle cfg.upper cfg.fenv q.verb p = rs at hrel
      cases hrel with
      | found h m kw => exact ⟨p, h, m, kw, rfl, hrs, rfl, r, hr, hrt⟩
      | notFound v p' => cases hfound
      | notAllowed a ha => cases hfound

/-! ### definedness on routers built by registration histories -/

/-- `str.strip('/')` does not see the normalisation `request.path` applies -/
theorem stripSlash_request_path' (path : Str) :
    Router.stripSlash ('/' :: path.dropWhile (· == '/')) = Router.stripSlash path := by
  unfold Router.stripSlash stripBy
  have : List.dropWhile (· == '/') ('/' :: List.dropWhile (· == '/') path) =
      List.dropWhile (· == '/') path := by
    rw [List.dropWhile_cons_of_pos (by simp)]
    induction path with
    | nil => rfl
    | cons c cs ih =>
      by_cases hc : (c == '/') = true
      · simp only [List.dropWhile_cons, hc, if_true]; exact ih
      · simp only [List.dropWhile_cons, hc, Bool.false_eq_true, if_false]
  rw [this]

/-- **On a router built by any history of `add` / `remove_method`, `App.serve` is undefined only
at the two request-made seams**: `Request.url` raises, or the 405's `Allow` value is refused by
`_hval` (a method registered under a name with CR / LF / NUL).  Route hooks and faults do not
occur. -/
theorem serveW_defined (cfg : AppConfig) (ops : List Router.Op) (hok : ∀ op ∈ ops, Router.OpOK op)
    (q : Req) (s : Seam) (h : serveW cfg (Router.Router.run cfg.upper ops) q = .error s) :
    (∃ e, urlOf q = .error e ∧ s = .urlError e) ∨
    (s = .allowRefused ∧ ∃ p allow, ErrorPage.utf8Decode q.rawPath = some p ∧
      (Router.Router.run cfg.upper ops).handle cfg.upper cfg.fenv q.verb p = .notAllowed allow ∧
      Wsgi.hvalOk allow = false) := by
  rcases serveW_error h with hu | ⟨rs, hrs, hro⟩
  · exact Or.inl hu
  · right
    unfold resolved at hrs
    cases hd : ErrorPage.utf8Decode q.rawPath with
    | none => rw [hd] at hrs; cases hrs
    | some p =>
      rw [hd] at hrs
      simp only [Option.map_some, Option.some.injEq] at hrs
      have hnil := Router.run_handle_hooks_nil cfg.upper ops cfg.fenv q.verb p
      have hnf := Router.run_handle_not_fault cfg.upper ops hok cfg.fenv q.verb p
      rw [hrs] at hnil hnf
      cases rs with
      | found hh m kw hooks =>
        simp only at hnil
        subst hnil
        simp [routeOf] at hro
      | notFound v hooks p' =>
        simp only at hnil
        subst hnil
        simp [routeOf] at hro
      | notAllowed a =>
        simp only [routeOf] at hro
        split at hro
        · cases hro
        · rename_i ha
          simp only [Except.error.injEq] at hro
          exact ⟨hro.symm, p, a, rfl, hrs, by simpa using ha⟩
      | fault => exact absurd rfl hnf

end Ombott.App
