import OmbottModel.Lemmas.RouterEditFreshTree
/-!
C11, helper lemmas (9): what else every router reached by an edit history satisfies, as far as
re-registering its survivors needs it (`FInv`): method tables have distinct keys and every
entry carries its key as name (so one `add` per entry rebuilds the table), no registered name
is empty (`add` skips an empty name), no pattern of the tree starts with a slash (`_match`
asserts it), and no hook pair of the tree is `[None, None]` (`add_hook` always fills a slot).
-/
namespace Ombott.Router
open Py

/-- a method table that one `add` per entry rebuilds as it is -/
def MethOK (ms : List (Str × RouteMethod)) : Prop :=
  (ms.map (·.1)).Nodup ∧ ∀ x ∈ ms, x.2.name = x.1

/-- `RadiRouter._match`: `assert route_pattern[0] != '/'` holds -/
def GoodPat (p : List Sym) : Prop := p.head? ≠ some (.lit '/')

theorem GoodPat.of_shape {a b : List Sym} (h : shape a = shape b) (hb : GoodPat b) : GoodPat a := by
  unfold GoodPat at hb ⊢
  cases a with
  | nil => simp
  | cons x xs =>
    cases b with
    | nil => simp at h
    | cons y ys =>
      simp only [shape_cons, List.cons.injEq] at h
      cases x <;> cases y <;> simp_all [shapeSym]

theorem goodPat_of_not_head {p : List Sym} (h : ¬ (p.head? == some (.lit '/')) = true) : GoodPat p := by
  unfold GoodPat; simpa using h

structure FInv (R : Router) : Prop where
  meth : ∀ r ∈ R.objs, MethOK r.methods
  nameNe : ∀ x ∈ R.named, x.1 ≠ []
  slashR : ∀ e ∈ denote R.tree, GoodPat e.pat
  slashH : ∀ e ∈ hdenN encPair R.tree, GoodPat e.pat ∧ e.data ≠ encPair ⟨none, none⟩

theorem finv_init : FInv {} := by
  refine ⟨fun r hr => (by cases hr), fun x hx => (by cases hx), ?_, ?_⟩
  · intro e he
    have : e ∈ denN Node.root := he
    simp [Node.root, denN, denL, denT, ownRule] at this
  · intro e he
    simp [hdenN, Node.root, gN, gL, gT, ownH] at he

/-! ### method tables -/

theorem methOK_nil : MethOK [] := ⟨List.nodup_nil, fun x hx => by cases hx⟩

theorem MethOK.dictSet {ms : List (Str × RouteMethod)} (h : MethOK ms) (m : Str) (hd : Nat) (ps : List Str) :
    MethOK (dictSet ms m ⟨m, hd, ps⟩) := by
  refine ⟨dictSet_keys_nodup _ _ _ h.1, ?_⟩
  rintro ⟨k, v⟩ hx
  rcases (mem_dictSet _ _ _ _ _).mp hx with ⟨rfl, rfl⟩ | ⟨_, hx⟩
  · rfl
  · exact h.2 _ hx

theorem MethOK.setMethods {r : Route} (h : MethOK r.methods) (ms : List Str) (hd : Nat) (ps : List Str) :
    MethOK (r.setMethods ms hd ps).methods := by
  unfold Route.setMethods
  induction ms generalizing r with
  | nil => exact h
  | cons m ms ih =>
    simp only [List.foldl_cons]
    exact ih (r := { r with methods := Ombott.Router.dictSet r.methods m ⟨m, hd, ps⟩ }) (h.dictSet m hd ps)

theorem MethOK.addMethod {r r' : Route} (h : MethOK r.methods) {ms : List Str} {hd : Nat} {ps : List Str}
    (ha : r.addMethod ms hd ps = .ok r') : MethOK r'.methods := by
  unfold Route.addMethod at ha
  split at ha
  · cases ha
  · simp only [pure, Except.pure, Except.ok.injEq] at ha
    subst ha
    exact h.setMethods ms hd ps

theorem MethOK.dictPop {ms : List (Str × RouteMethod)} (h : MethOK ms) (m : Str) : MethOK (dictPop ms m) := by
  unfold Ombott.Router.dictPop
  exact ⟨nodup_filter_keys _ _ h.1, fun x hx => h.2 x (List.mem_filter.mp hx).1⟩

theorem MethOK.removeMethod {r : Route} (h : MethOK r.methods) (ms : List Str) :
    MethOK (r.removeMethod ms).methods := by
  unfold Route.removeMethod
  simp only
  generalize r.methods = d at h ⊢
  induction ms generalizing d with
  | nil => exact h
  | cons m ms ih =>
    simp only [List.foldl_cons]
    exact ih _ (h.dictPop m)

/-! ### registration -/

theorem FInv.setObj {R : Router} (h : FInv R) (id : Nat) (r' : Route) (hm : MethOK r'.methods) :
    FInv (R.setObj id r') := by
  refine ⟨?_, h.nameNe, h.slashR, h.slashH⟩
  intro r hr
  rcases List.mem_or_eq_of_mem_set (show r ∈ R.objs.set id r' from hr) with hr | rfl
  · exact h.meth r hr
  · exact hm

theorem FInv.registerName {R : Router} (h : FInv R) (a : AddArgs) (id : Nat) :
    FInv (R.registerName a id).1 := by
  unfold Router.registerName
  cases a.name with
  | none => exact h
  | some nm =>
    simp only
    split
    · exact h
    · rename_i hne
      have key : FInv ({ R with named := dictSet R.named nm id } : Router) := by
        refine ⟨h.meth, ?_, h.slashR, h.slashH⟩
        rintro ⟨k, v⟩ hx
        rcases (mem_dictSet _ _ _ _ _).mp hx with ⟨rfl, _⟩ | ⟨_, hx⟩
        · simpa using hne
        · exact h.nameNe _ hx
      cases dictGet R.named nm with
      | none => exact key
      | some reg =>
        simp only
        split
        · exact h
        · exact key

theorem FInv.register {R : Router} (h : FInv R) (a : AddArgs) (p : Parsed) (id : Nat) :
    FInv (R.register a p id).1 := by
  unfold Router.register
  cases hr : R.obj? id with
  | none => exact h
  | some route =>
    have hm : MethOK route.methods := h.meth route (List.mem_of_getElem? hr)
    simp only
    split
    · exact (h.setObj id _ (hm.setMethods _ _ _)).registerName a id
    · cases ha : route.addMethod a.methods a.handler p.params with
      | error e => exact h
      | ok route' => exact (h.setObj id route' (hm.addMethod ha)).registerName a id

theorem FInv.removeMethod {R : Router} (h : FInv R) (id : Nat) (ms : List Str) :
    FInv (R.removeMethod id ms) := by
  unfold Router.removeMethod
  cases hr : R.obj? id with
  | none => exact h
  | some r => exact h.setObj id _ ((h.meth r (List.mem_of_getElem? hr)).removeMethod ms)

theorem FInv.findOrInsert {R : Router} {T : Str → Prop} (h : FInv R) (hE : EInv R T) (rule : Str)
    (p : Parsed) (hg : GoodPat p.syms) : FInv (R.findOrInsert rule p).1 := by
  unfold Router.findOrInsert
  cases hm : R.matchPat p.syms with
  | some id0 => exact h
  | none =>
    simp only
    cases hi : treeAdd R.tree p.syms R.objs.length p.params with
    | error e => exact h
    | ok t =>
      simp only
      have hden := insert_denote' R.tree t p.syms R.objs.length p.params false hE.inv.wf hi
      have hhk := treeAdd_hooks encPair R.tree t p.syms R.objs.length p.params false hE.inv.wf hi
      refine ⟨?_, h.nameNe, ?_, ?_⟩
      · intro r hr
        rcases List.mem_append.mp hr with hr | hr
        · exact h.meth r hr
        · simp only [List.mem_singleton] at hr
          subst hr
          exact methOK_nil
      · intro e he
        rcases (hden e).mp he with rfl | ⟨he, _⟩
        · exact hg
        · exact h.slashR e he
      · intro e he
        exact h.slashH e ((hhk e).mp he)

theorem FInv.addParsed {R : Router} {T : Str → Prop} (h : FInv R) (hE : EInv R T) (a : AddArgs)
    (p : Parsed) : FInv (R.addParsed a p).1 := by
  unfold Router.addParsed
  split
  · exact h
  · rename_i hc
    have h1 := h.findOrInsert hE a.rule p (goodPat_of_not_head hc)
    cases hf : R.findOrInsert a.rule p with
    | mk R' out =>
      rw [hf] at h1
      cases out with
      | error e => exact h1
      | ok id => exact h1.register a p id

theorem FInv.add {R : Router} {T : Str → Prop} (h : FInv R) (hE : EInv R T) (upper : Str → Str)
    (cenv : CompileEnv) (a : AddArgs) : FInv (R.add upper cenv a).1 := by
  unfold Router.add
  simp only
  cases hp : parseRule cenv a.rule with
  | error e => exact h
  | ok p => exact h.addParsed hE _ p

/-! ### removal -/

/-- `RadiDict.remove` adds nothing -/
theorem treeRemove_subset (t t' : Node) (pat : List Sym) (hooksOnly : Bool) (h : WFN t)
    (hr : treeRemove t pat hooksOnly = .ok t') :
    (∀ e ∈ denote t', e ∈ denote t) ∧ (∀ enc, ∀ e ∈ hdenN enc t', e ∈ hdenN enc t) := by
  refine ⟨fun e he => ?_, fun enc e he => ?_⟩
  · have := (treeRemove_spec ownR_ok ownR_clear t h pat hooksOnly t' hr).2
    rw [gN_ownR, gN_ownR] at this
    exact (this.1 e he).1
  · exact ((treeRemove_spec (ownH_ok enc) (ownH_clear enc) t h pat hooksOnly t' hr).2.1 e he).1

/-- a state that holds the same route objects, some of the names and some of the tree -/
theorem FInv.shrink {R R' : Router} (h : FInv R) (hobjs : R'.objs = R.objs)
    (hnamed : ∀ x ∈ R'.named, x ∈ R.named) (hden : ∀ e ∈ denote R'.tree, e ∈ denote R.tree)
    (hhk : ∀ e ∈ hdenN encPair R'.tree, e ∈ hdenN encPair R.tree) : FInv R' :=
  ⟨by rw [hobjs]; exact h.meth, fun x hx => h.nameNe x (hnamed x hx), fun e he => h.slashR e (hden e he),
    fun e he => h.slashH e (hhk e he)⟩

theorem removeNamed_sub (R : Router) (pats : List Str) : ∀ x ∈ (R.removeNamed pats).named, x ∈ R.named := by
  intro x hx
  unfold Router.removeNamed at hx
  exact (List.mem_filter.mp hx).1

theorem FInv.removePattern {R : Router} {T : Str → Prop} (h : FInv R) (hE : EInv R T) (pat : List Sym) :
    FInv (R.removePattern pat).1 := by
  unfold Router.removePattern
  cases hr : treeRemove R.tree pat false with
  | error e => exact h
  | ok t =>
    obtain ⟨hden, hhk⟩ := treeRemove_subset R.tree t pat false hE.inv.wf hr
    simp only
    rcases starSplit pat with ⟨p, star⟩
    cases star with
    | true =>
      simp only [if_true]
      exact h.shrink rfl (removeNamed_sub _ _) hden (hhk encPair)
    | false =>
      simp only [Bool.false_eq_true, if_false]
      exact h.shrink rfl (removeNamed_sub _ _) hden (hhk encPair)

theorem FInv.removeRule {R : Router} {T : Str → Prop} (h : FInv R) (hE : EInv R T) (cenv : CompileEnv)
    (rule : Str) : FInv (R.removeRule cenv rule).1 := by
  unfold Router.removeRule
  cases hp : parseRule cenv rule with
  | error e => exact h
  | ok p => exact h.removePattern hE p.syms

theorem FInv.removeName {R : Router} {T : Str → Prop} (h : FInv R) (hE : EInv R T) (name : Str) :
    FInv (R.removeName name).1 := by
  unfold Router.removeName
  cases hg : dictGet R.named name with
  | none => exact h
  | some id =>
    simp only
    have hpop : ∀ x ∈ dictPop R.named name, x ∈ R.named := fun x hx => ((mem_dictPop _ _ _).mp hx).1
    have h1 : FInv ({ R with named := dictPop R.named name } : Router) :=
      h.shrink rfl hpop (fun _ he => he) (fun _ he => he)
    cases hr1 : ({ R with named := dictPop R.named name } : Router).obj? id with
    | none => exact h1
    | some route =>
      simp only
      cases htr : treeRemove R.tree route.syms false with
      | error e => exact h1
      | ok t =>
        simp only
        obtain ⟨hden, hhk⟩ := treeRemove_subset R.tree t route.syms false hE.inv.wf htr
        have h2 : FInv ({ R with named := dictPop R.named name, tree := t } : Router) :=
          h.shrink rfl hpop hden (hhk encPair)
        split
        · exact h.shrink rfl (fun x hx => hpop x (removeNamed_sub _ _ x hx)) hden (hhk encPair)
        · exact h2

/-! ### hooks -/

theorem installHook_ne (old : Option HookPair) (hook : Nat) (pt : Bool) :
    installHook old hook pt ≠ ⟨none, none⟩ := by
  unfold installHook
  cases pt <;> simp

theorem FInv.addHookParsed {R : Router} {T : Str → Prop} (h : FInv R) (hE : EInv R T) (p : Parsed)
    (hook : Nat) (pt : Bool) : FInv (R.addHookParsed p hook pt).1 := by
  unfold Router.addHookParsed
  split
  · exact h
  · rename_i hc
    have hg : GoodPat p.syms := goodPat_of_not_head hc
    simp only
    have fresh :
        FInv (match insN { hooks := some (installHook none hook pt), names := p.params, overwrite := false }
            R.tree p.syms with
          | .error e => (R, (.error e.name : Except ErrName Str))
          | .ok t => ({ R with tree := t, hookIdx := dictSet R.hookIdx (patStr p.syms) (installHook none hook pt) },
              .ok (patStr p.syms))).1 := by
      cases hi : insN { hooks := some (installHook none hook pt), names := p.params, overwrite := false }
          R.tree p.syms with
      | error e => exact h
      | ok t =>
        obtain ⟨_, hden, hhk⟩ := insHooks_spec encPair _ rfl _ rfl R.tree t p.syms hE.inv.wf hi
        refine ⟨h.meth, h.nameNe, fun e he => h.slashR e ((hden e).mp he), ?_⟩
        intro e he
        rcases (hhk e).mp he with rfl | ⟨ho, _⟩
        · exact ⟨hg, fun hEq => installHook_ne _ _ _ (encPair_inj hEq)⟩
        · exact h.slashH e ho
    cases hf : findN false R.tree p.syms with
    | error e => exact fresh
    | ok n =>
      simp only
      cases hn : n.hooks with
      | none => exact fresh
      | some hp0 =>
        simp only
        cases hu : updN (Node.setHooks (installHook (some hp0) hook pt)) R.tree p.syms with
        | none => exact h
        | some t =>
          obtain ⟨_, _, _, hden, hupd⟩ := updN_spec encPair _ R.tree hE.inv.wf p.syms t hu
          refine ⟨h.meth, h.nameNe, fun e he => h.slashR e (by show e ∈ denN R.tree; rw [← hden]; exact he), ?_⟩
          intro e he
          rcases hupd.1 e he with ⟨ho, _⟩ | ⟨hs, hd, _⟩
          · exact h.slashH e ho
          · exact ⟨hg.of_shape hs, fun hEq => installHook_ne _ _ _ (encPair_inj (hd.symm.trans hEq))⟩

theorem FInv.addHook {R : Router} {T : Str → Prop} (h : FInv R) (hE : EInv R T) (cenv : CompileEnv)
    (rule : Str) (hook : Nat) (pt : Bool) : FInv (R.addHook cenv rule hook pt).1 := by
  unfold Router.addHook
  cases hp : parseRule cenv rule with
  | error e => exact h
  | ok p => exact h.addHookParsed hE p hook pt

theorem FInv.removeHook {R : Router} {T : Str → Prop} (h : FInv R) (hE : EInv R T) (cenv : CompileEnv)
    (rule : Str) : FInv (R.removeHook cenv rule).1 := by
  unfold Router.removeHook
  cases hp : parseRule cenv rule with
  | error e => exact h
  | ok p =>
    simp only
    cases htr : treeRemove R.tree p.syms true with
    | error e => exact h
    | ok t =>
      obtain ⟨hden, hhk⟩ := treeRemove_subset R.tree t p.syms true hE.inv.wf htr
      exact h.shrink rfl (fun _ hx => hx) hden (hhk encPair)

/-! ### histories -/

theorem FInv.step {R : Router} {T : Str → Prop} (h : FInv R) (hE : EInv R T) (upper : Str → Str)
    (op : EditOp) (hok : EditOK op) : FInv (R.editStep upper op) := by
  cases op with
  | reg o =>
    cases o with
    | add cenv a => exact h.add hE upper cenv a
    | removeMethod id ms => exact h.removeMethod id ms
  | removeRule cenv rule => exact h.removeRule hE cenv rule
  | removeName nm => exact h.removeName hE nm
  | addHook cenv rule hook pt => exact h.addHook hE cenv rule hook pt
  | removeHook cenv rule => exact h.removeHook hE cenv rule

theorem foldl_finv (upper : Str → Str) (ops : List EditOp) (hok : ∀ op ∈ ops, EditOK op)
    (R : Router) (T : Str → Prop) (hE : EInv R T) (h : FInv R) :
    FInv (ops.foldl (Router.editStep upper) R) := by
  induction ops generalizing R T with
  | nil => exact h
  | cons op ops ih =>
    exact ih (fun o ho => hok o (by simp [ho])) _ _ (hE.step upper op (hok op (by simp)))
      (h.step hE upper op (hok op (by simp)))

/-- after every edit history the survivors can be re-registered one call at a time -/
theorem editRun_finv (upper : Str → Str) (ops : List EditOp) (hok : ∀ op ∈ ops, EditOK op) :
    FInv (Router.editRun upper ops) :=
  foldl_finv upper ops hok {} _ einv_init finv_init

end Ombott.Router
