import OmbottModel.Lemmas.RouterEditDen
/-!
C11, helper lemmas (2): `RadiDict.remove` (`remN/remT/remL` with pruning and `_try_merge`) keeps
the tree well formed and removes exactly what its mode says (`remN_spec`), stated for the generic
denotation so that it covers the routes and the hook pairs at once.
-/
namespace Ombott.Router
open Py

/-! ### what a removal speaks about -/

/-- the patterns a removal of `p` is aimed at (patterns as `_match` sees them, i.e. up to
filters): the pattern itself, or everything that extends it for a wildcard removal -/
def Zone : RemMode → List Sym → List Sym → Prop
  | .pref, p, q => shape p <+: shape q
  | .exact, p, q => shape q = shape p
  | .hooksOnly, p, q => shape q = shape p

/-- the same zone on pattern strings (what the indexes of `RadiRouter` are keyed by), and only
where something is erased at all -/
def Killed : RemMode → Bool → List Sym → List Sym → Prop
  | .pref, _, p, q => patStr p <+: patStr q
  | .exact, erase, p, q => erase = true ∧ patStr q = patStr p
  | .hooksOnly, erase, p, q => erase = true ∧ patStr q = patStr p

theorem zone_under (mode : RemMode) (pre p q : List Sym) :
    Zone mode (pre ++ p) (pre ++ q) ↔ Zone mode p q := by
  cases mode <;> simp [Zone, List.prefix_append_right_inj]

theorem killed_under (mode : RemMode) (erase : Bool) (pre p q : List Sym) :
    Killed mode erase (pre ++ p) (pre ++ q) ↔ Killed mode erase p q := by
  cases mode <;> simp [Killed, patStr_append, List.prefix_append_right_inj]

theorem zone_cons_nil (mode : RemMode) (s : Sym) (r : List Sym) : ¬ Zone mode (s :: r) [] := by
  cases mode <;> simp [Zone]

theorem zone_lit_tok (mode : RemMode) (c : Char) (g : Option Fid) (r q : List Sym) :
    ¬ Zone mode (.lit c :: r) (.tok g :: q) := by
  cases mode <;> simp [Zone, shapeSym]

theorem zone_tok_lit (mode : RemMode) (c : Char) (g : Option Fid) (r q : List Sym) :
    ¬ Zone mode (.tok g :: r) (.lit c :: q) := by
  cases mode <;> simp [Zone, shapeSym]

theorem zone_lit_ne (mode : RemMode) {c c' : Char} (h : c' ≠ c) (r q : List Sym) :
    ¬ Zone mode (.lit c :: r) (.lit c' :: q) := by
  cases mode <;> simp [Zone, shapeSym, h, Ne.symm h]

theorem zone_tok_tok (mode : RemMode) (g g' : Option Fid) (r q : List Sym) :
    Zone mode (.tok g :: r) (.tok g' :: q) ↔ Zone mode r q := by
  cases mode <;> simp [Zone, shapeSym]

theorem killed_tok_tok (mode : RemMode) (erase : Bool) (g g' : Option Fid) (r q : List Sym) :
    Killed mode erase (.tok g :: r) (.tok g' :: q) ↔ Killed mode erase r q := by
  cases mode <;> simp [Killed, symChar]

/-- old and new contents around a removal of `p`: nothing new appears, what is left is outside
the zone when the mode erases (`erase`), and everything outside the zone is still there -/
def RemOK (erase : Bool) (mode : RemMode) (p : List Sym) (old new : List Rule) : Prop :=
  (∀ e, e ∈ new → e ∈ old ∧ (erase = true → ¬ Zone mode p e.pat)) ∧
  (∀ e, e ∈ old → ¬ Killed mode erase p e.pat → e ∈ new)

theorem RemOK.under {erase : Bool} {mode : RemMode} {p : List Sym} {old new : List Rule}
    (h : RemOK erase mode p old new) (pre : List Sym) :
    RemOK erase mode (pre ++ p) (old.map (Rule.under pre)) (new.map (Rule.under pre)) := by
  constructor
  · intro e he
    obtain ⟨x, hx, rfl⟩ := List.mem_map.mp he
    obtain ⟨h1, h2⟩ := h.1 x hx
    exact ⟨List.mem_map.mpr ⟨x, h1, rfl⟩, fun he => by rw [Rule.under_pat, zone_under]; exact h2 he⟩
  · intro e he hk
    obtain ⟨x, hx, rfl⟩ := List.mem_map.mp he
    rw [Rule.under_pat, killed_under] at hk
    exact List.mem_map.mpr ⟨x, h.2 x hx hk, rfl⟩

theorem RemOK.frame {erase : Bool} {mode : RemMode} {p : List Sym} {old new : List Rule}
    (h : RemOK erase mode p old new) (l1 l2 : List Rule)
    (h1 : ∀ e ∈ l1, ¬ Zone mode p e.pat) (h2 : ∀ e ∈ l2, ¬ Zone mode p e.pat) :
    RemOK erase mode p (l1 ++ old ++ l2) (l1 ++ new ++ l2) := by
  constructor
  · intro e he
    simp only [List.mem_append] at he ⊢
    rcases he with (he | he) | he
    · exact ⟨Or.inl (Or.inl he), fun _ => h1 e he⟩
    · exact ⟨Or.inl (Or.inr (h.1 e he).1), (h.1 e he).2⟩
    · exact ⟨Or.inr he, fun _ => h2 e he⟩
  · intro e he hk
    simp only [List.mem_append] at he ⊢
    rcases he with (he | he) | he
    · exact Or.inl (Or.inl he)
    · exact Or.inl (Or.inr (h.2 e he hk))
    · exact Or.inr he

theorem RemOK.congr {erase : Bool} {mode : RemMode} {p : List Sym} {old new old' new' : List Rule}
    (h : RemOK erase mode p old new) (ho : ∀ e, e ∈ old' ↔ e ∈ old) (hn : ∀ e, e ∈ new' ↔ e ∈ new) :
    RemOK erase mode p old' new' :=
  ⟨fun e he => ⟨(ho e).mpr (h.1 e ((hn e).mp he)).1, (h.1 e ((hn e).mp he)).2⟩,
   fun e he hk => (hn e).mpr (h.2 e ((ho e).mp he) hk)⟩

/-- nothing of `old` is in the zone's reach from below: dropping it all is a removal -/
theorem RemOK.drop_all {erase : Bool} {mode : RemMode} {p : List Sym} {old new : List Rule}
    (h : RemOK erase mode p old new) (hnew : new = []) : RemOK erase mode p old [] := by
  subst hnew; exact h

/-! ### the pieces of `remove` -/

section Generic
variable {own : Option Nat → List Str → Option HookPair → List Rule}

/-- how `own` reacts to what `remove` clears at the node it ends at: clearing the data
(`eD`) / the hook pair (`eH`) either erases the node's contribution or leaves it as it was -/
structure ClearOK (own : Option Nat → List Str → Option HookPair → List Rule) (eD eH : Bool) : Prop where
  data : ∀ d pk h, own none [] h = if eD then [] else own d pk h
  hooks : ∀ d pk h, own d pk none = if eH then [] else own d pk h

def eraseOf (eD eH : Bool) : RemMode → Bool
  | .hooksOnly => eH
  | .exact => eD
  | .pref => eD

theorem gN_of_isEmpty (ho : OwnOK own) {n : Node} (h : n.isEmpty = true) : gN own n = [] := by
  match n with
  | .mk k d pk f hk lits tok =>
    simp only [Node.isEmpty, Bool.and_eq_true, Option.isNone_iff_eq_none, List.isEmpty_iff] at h
    obtain ⟨⟨⟨rfl, rfl⟩, rfl⟩, rfl⟩ := h
    simp [gN, gL, gT, ho.empty]

theorem WFN_clearAt (mode : RemMode) (n : Node) (h : WFN n) : WFN (clearAt mode n) := by
  match n with
  | .mk k d pk f hk lits tok =>
    cases mode
    · simpa only [clearAt, WFN] using (by unfold WFN at h; exact h)
    · simpa only [clearAt, WFN] using (by unfold WFN at h; exact h)
    · simp only [clearAt]; unfold WFN WFL WFT; exact ⟨trivial, trivial⟩

theorem clearAt_key (mode : RemMode) (n : Node) :
    (clearAt mode n).key = n.key ∧ (clearAt mode n).filter = n.filter := by
  match n with
  | .mk k d pk f hk lits tok => cases mode <;> exact ⟨rfl, rfl⟩

/-- the node `remove` ends at -/
theorem clearAt_spec (ho : OwnOK own) {eD eH : Bool} (hc : ClearOK own eD eH) (mode : RemMode)
    (n : Node) (h : WFN n) :
    RemOK (eraseOf eD eH mode) mode [] (gN own n) (gN own (clearAt mode n)) := by
  match n with
  | .mk k d pk f hk lits tok =>
    unfold WFN at h
    have hrest : ∀ e, e ∈ gL own lits ++ gT own tok → e.pat ≠ [] := by
      intro e he
      rcases List.mem_append.mp he with he | he
      · obtain ⟨_, _, c, q, _, hq⟩ := mem_gL_shape ho h.1 he; rw [hq]; simp
      · obtain ⟨g, q, hq⟩ := mem_gT_shape he; rw [hq]; simp
    cases mode with
    | exact =>
      simp only [clearAt, gN, eraseOf, hc.data d pk hk, List.append_assoc]
      constructor
      · intro e he
        rcases List.mem_append.mp he with he | he
        · cases eD <;> simp_all
        · exact ⟨List.mem_append_right _ he, fun _ hz => hrest e he (by simpa [Zone, shape] using hz)⟩
      · intro e he hk'
        rcases List.mem_append.mp he with he | he
        · have hp := ho.pat_nil d pk hk e he
          cases eD
          · simpa using Or.inl he
          · exact absurd ⟨rfl, by rw [hp]⟩ hk'
        · exact List.mem_append_right _ he
    | hooksOnly =>
      simp only [clearAt, gN, eraseOf, hc.hooks d pk hk, List.append_assoc]
      constructor
      · intro e he
        rcases List.mem_append.mp he with he | he
        · cases eH <;> simp_all
        · exact ⟨List.mem_append_right _ he, fun _ hz => hrest e he (by simpa [Zone, shape] using hz)⟩
      · intro e he hk'
        rcases List.mem_append.mp he with he | he
        · have hp := ho.pat_nil d pk hk e he
          cases eH
          · simpa using Or.inl he
          · exact absurd ⟨rfl, by rw [hp]⟩ hk'
        · exact List.mem_append_right _ he
    | pref =>
      simp only [clearAt, gN, gL, gT, eraseOf, hc.data d pk hk, List.append_nil]
      constructor
      · intro e he
        cases eD <;> simp_all
      · intro e _ hk'
        exact absurd (by simp [Killed]) hk'

/-- `_try_merge`: same contents, seen through the longer key -/
theorem tryMerge_spec (ho : OwnOK own) (noMerge : Bool) (n : Node) (h : WFN n) :
    WFN (tryMerge noMerge n) ∧ ∃ s, (tryMerge noMerge n).key = n.key ++ s ∧
      (noMerge = true → s = [] ∧ (tryMerge noMerge n).filter = n.filter) ∧
      (gN own (tryMerge noMerge n)).map (Rule.under (litSyms s)) = gN own n := by
  match n with
  | .mk k d pk f hk lits tok =>
    simp only [tryMerge]
    split
    · exact ⟨h, [], by simp, fun _ => ⟨rfl, rfl⟩, by simp [litSyms, map_under_nil]⟩
    · rename_i hcond
      simp only [Bool.or_eq_true, not_or, Bool.not_eq_true, Option.isSome_eq_false_iff,
        Option.isNone_iff_eq_none] at hcond
      obtain ⟨⟨⟨hnm, hd⟩, hh⟩, _⟩ := hcond
      subst hd hh
      split
      · rename_i c
        unfold WFN WFL at h
        obtain ⟨⟨_, hc, _, _⟩, _⟩ := h
        refine ⟨WFN_withKey c _ hc, c.key, by cases c; rfl, fun hn => by simp [hn] at hnm, ?_⟩
        simp [gN_withKey, gN, gL, gT, ho.empty]
      · exact ⟨h, [], by simp, fun _ => ⟨rfl, rfl⟩, by simp [litSyms, map_under_nil]⟩

/-- the loop body at a parent (`pruneUp`) -/
theorem pruneUp_spec (ho : OwnOK own) (noMerge : Bool) (n : Node) (h : WFN n) (dl : Bool) :
    WFN (pruneUp noMerge n dl).1 ∧ ∃ s, (pruneUp noMerge n dl).1.key = n.key ++ s ∧
      (noMerge = true → s = [] ∧ (pruneUp noMerge n dl).1.filter = n.filter) ∧
      ((pruneUp noMerge n dl).2 = true → gN own (pruneUp noMerge n dl).1 = []) ∧
      (gN own (pruneUp noMerge n dl).1).map (Rule.under (litSyms s)) = gN own n := by
  unfold pruneUp
  cases dl with
  | false =>
    simp only [Bool.false_eq_true, if_false]
    exact ⟨h, [], by simp, fun _ => ⟨rfl, trivial⟩, by simp, by simp [litSyms, map_under_nil]⟩
  | true =>
    simp only [if_true, finish]
    obtain ⟨hw, s, hk, hn, hg⟩ := tryMerge_spec ho noMerge n h
    exact ⟨hw, s, hk, hn, gN_of_isEmpty ho, hg⟩

theorem head_append_of_ne_nil {k s : Str} (h : k ≠ []) : (k ++ s).head? = k.head? := by
  cases k with
  | nil => exact absurd rfl h
  | cons c cs => rfl

theorem litSyms_append' (a b : Str) : litSyms (a ++ b) = litSyms a ++ litSyms b := by
  simp [litSyms]

/-! ### `remove` -/

mutual
/-- **`RadiDict.remove` below a node.**  The node stays well formed; its key can only grow (by the
key of a merged child, never at the root or at a wildcard child); a node reported for deletion
holds nothing; and the contents change by exactly the removal. -/
theorem remN_spec (ho : OwnOK own) {eD eH : Bool} (hc : ClearOK own eD eH) (mode : RemMode)
    (noMerge : Bool) (n : Node) (h : WFN n) (p : List Sym) (n' : Node) (del : Bool)
    (hr : remN noMerge mode n p = some (n', del)) :
    WFN n' ∧ ∃ s, n'.key = n.key ++ s ∧ (noMerge = true → s = [] ∧ n'.filter = n.filter) ∧
      (del = true → gN own n' = []) ∧
      RemOK (eraseOf eD eH mode) mode p (gN own n) ((gN own n').map (Rule.under (litSyms s))) := by
  match n, p with
  | n, [] =>
    simp only [remN, finish, Option.some.injEq, Prod.mk.injEq] at hr
    obtain ⟨rfl, rfl⟩ := hr
    refine ⟨WFN_clearAt mode n h, [], by simp [(clearAt_key mode n).1],
      fun _ => ⟨rfl, (clearAt_key mode n).2⟩, gN_of_isEmpty ho, ?_⟩
    simpa [litSyms, map_under_nil] using clearAt_spec ho hc mode n h
  | .mk k d pk f hk lits tok, .lit c :: r =>
    simp only [remN] at hr
    have h' := h
    unfold WFN at h'
    obtain ⟨hl, ht⟩ := h'
    cases hL : remL mode lits c r with
    | none => rw [hL] at hr; simp at hr
    | some x =>
      obtain ⟨lits', dl⟩ := x
      rw [hL] at hr
      simp only [Option.map_some, Option.some.injEq] at hr
      obtain ⟨hwl, _, hrem⟩ := remL_spec ho hc mode lits hl c r lits' dl hL
      have hwf1 : WFN (.mk k d pk f hk lits' tok) := by unfold WFN; exact ⟨hwl, ht⟩
      obtain ⟨hw, s, hkey, hnm, hdel, hg⟩ := pruneUp_spec ho noMerge _ hwf1 dl
      rw [hr] at hw hkey hnm hdel hg
      refine ⟨hw, s, hkey, hnm, hdel, ?_⟩
      rw [hg]
      simp only [gN]
      exact hrem.frame _ _
        (fun e he => by rw [ho.pat_nil d pk hk e he]; exact zone_cons_nil mode _ _)
        (fun e he => by obtain ⟨g, q, hq⟩ := mem_gT_shape he; rw [hq]; exact zone_lit_tok mode c g r q)
  | .mk k d pk f hk lits tok, .tok g :: r =>
    simp only [remN] at hr
    have h' := h
    unfold WFN at h'
    obtain ⟨hl, ht⟩ := h'
    cases hT : remT mode tok r with
    | none => rw [hT] at hr; simp at hr
    | some x =>
      obtain ⟨tok', dl⟩ := x
      rw [hT] at hr
      simp only [Option.map_some, Option.some.injEq] at hr
      obtain ⟨hwt, hrem⟩ := remT_spec ho hc mode tok ht g r tok' dl hT
      have hwf1 : WFN (.mk k d pk f hk lits tok') := by unfold WFN; exact ⟨hl, hwt⟩
      obtain ⟨hw, s, hkey, hnm, hdel, hg⟩ := pruneUp_spec ho noMerge _ hwf1 dl
      rw [hr] at hw hkey hnm hdel hg
      refine ⟨hw, s, hkey, hnm, hdel, ?_⟩
      rw [hg]
      simp only [gN]
      have := hrem.frame (own d pk hk ++ gL own lits) [] (by
        intro e he
        rcases List.mem_append.mp he with he | he
        · rw [ho.pat_nil d pk hk e he]; exact zone_cons_nil mode _ _
        · obtain ⟨_, _, c, q, _, hq⟩ := mem_gL_shape ho hl he
          rw [hq]; exact zone_tok_lit mode c g r q) (by simp)
      simpa using this
theorem remT_spec (ho : OwnOK own) {eD eH : Bool} (hc : ClearOK own eD eH) (mode : RemMode)
    (t : Option Node) (h : WFT t) (g : Option Fid) (r : List Sym) (t' : Option Node) (del : Bool)
    (hr : remT mode t r = some (t', del)) :
    WFT t' ∧ RemOK (eraseOf eD eH mode) mode (.tok g :: r) (gT own t) (gT own t') := by
  match t with
  | none => simp [remT] at hr
  | some t0 =>
    simp only [remT] at hr
    unfold WFT at h
    cases hN : remN true mode t0 r with
    | none => rw [hN] at hr; simp at hr
    | some x =>
      obtain ⟨t1, d1⟩ := x
      rw [hN] at hr
      simp only [Option.map_some, Option.some.injEq] at hr
      obtain ⟨hw, s, _, hnm, hdel, hrem⟩ := remN_spec ho hc mode true t0 h r t1 d1 hN
      obtain ⟨rfl, hfl⟩ := hnm rfl
      simp only [litSyms, List.map_nil, map_under_nil] at hrem
      have hu := hrem.under [Sym.tok t0.filter]
      have hzone : RemOK (eraseOf eD eH mode) mode (.tok g :: r)
          ((gN own t0).map (Rule.under [Sym.tok t0.filter]))
          ((gN own t1).map (Rule.under [Sym.tok t0.filter])) := by
        constructor
        · intro e he
          obtain ⟨h1, h2⟩ := hu.1 e he
          refine ⟨h1, fun hE hz => h2 hE ?_⟩
          obtain ⟨x, _, rfl⟩ := List.mem_map.mp he
          simp only [Rule.under_pat, List.singleton_append, List.cons_append, List.nil_append] at hz ⊢
          exact (zone_tok_tok mode _ _ _ _).mpr ((zone_tok_tok mode _ _ _ _).mp hz)
        · intro e he hk
          refine hu.2 e he (fun hk' => hk ?_)
          obtain ⟨x, _, rfl⟩ := List.mem_map.mp he
          simp only [Rule.under_pat, List.singleton_append, List.cons_append, List.nil_append] at hk' ⊢
          exact (killed_tok_tok mode _ _ _ _ _).mpr ((killed_tok_tok mode _ _ _ _ _).mp hk')
      cases d1 with
      | true =>
        simp only [if_true, Prod.mk.injEq] at hr
        obtain ⟨rfl, rfl⟩ := hr
        refine ⟨by unfold WFT; trivial, ?_⟩
        rw [hdel rfl] at hzone
        simpa [gT] using hzone
      | false =>
        simp only [Bool.false_eq_true, if_false, Prod.mk.injEq] at hr
        obtain ⟨rfl, rfl⟩ := hr
        refine ⟨by unfold WFT; exact hw, ?_⟩
        simp only [gT, hfl]
        exact hzone
theorem remL_spec (ho : OwnOK own) {eD eH : Bool} (hc : ClearOK own eD eH) (mode : RemMode)
    (ks : List Node) (h : WFL ks) (c : Char) (r : List Sym) (ks' : List Node) (del : Bool)
    (hr : remL mode ks c r = some (ks', del)) :
    WFL ks' ∧ (∀ k' ∈ ks', ∃ k ∈ ks, k'.key.head? = k.key.head?) ∧
      RemOK (eraseOf eD eH mode) mode (.lit c :: r) (gL own ks) (gL own ks') := by
  match ks with
  | [] => simp [remL] at hr
  | k :: ks =>
    have h' := h
    unfold WFL at h'
    obtain ⟨hne, hk, hks, hdist⟩ := h'
    simp only [remL] at hr
    by_cases hcc : k.key.head? = some c
    · have hc' : (k.key.head? == some c) = true := by simp [hcc]
      simp only [hc', if_true] at hr
      -- the siblings cannot be in the zone
      have hsib : ∀ e ∈ gL own ks, ¬ Zone mode (.lit c :: r) e.pat := by
        intro e he
        obtain ⟨k2, hk2, c2, q, hc2, hq⟩ := mem_gL_shape ho hks he
        rw [hq]
        refine zone_lit_ne mode ?_ r q
        intro hEq
        exact hdist k2 hk2 (by rw [hc2, hcc, hEq])
      -- the child that was entered
      have hchild : ∀ k1 d1, (stripKey k.key (.lit c :: r)).elim (remPartial mode k (.lit c :: r))
            (fun rest => remN false mode k rest) = some (k1, d1) →
          WFN k1 ∧ k1.key.head? = k.key.head? ∧ k1.key ≠ [] ∧ (d1 = true → gN own k1 = []) ∧
            RemOK (eraseOf eD eH mode) mode (.lit c :: r)
              ((gN own k).map (Rule.under (litSyms k.key)))
              ((gN own k1).map (Rule.under (litSyms k1.key))) := by
        intro k1 d1 hk1
        cases hs : stripKey k.key (.lit c :: r) with
        | some rest =>
          rw [hs] at hk1
          simp only [Option.elim] at hk1
          obtain ⟨hw, s, hkey, _, hdel, hrem⟩ := remN_spec ho hc mode false k hk rest k1 d1 hk1
          refine ⟨hw, by rw [hkey, head_append_of_ne_nil hne], by rw [hkey]; simp [hne], hdel, ?_⟩
          have := hrem.under (litSyms k.key)
          rw [← stripKey_some hs, map_under_under] at this
          rw [hkey, litSyms_append']
          exact this
        | none =>
          rw [hs] at hk1
          simp only [Option.elim, remPartial] at hk1
          split at hk1
          · rename_i hcond
            simp only [Bool.and_eq_true, beq_iff_eq, List.isPrefixOf_iff_prefix] at hcond
            obtain ⟨hmode, hpre⟩ := hcond
            subst hmode
            simp only [finish, Option.some.injEq, Prod.mk.injEq] at hk1
            obtain ⟨rfl, rfl⟩ := hk1
            refine ⟨WFN_clearAt _ k hk, by rw [(clearAt_key _ k).1], by rw [(clearAt_key _ k).1]; exact hne,
              gN_of_isEmpty ho, ?_⟩
            rw [(clearAt_key _ k).1]
            have hcl := clearAt_spec ho hc .pref k hk
            constructor
            · intro e he
              obtain ⟨x, hx, rfl⟩ := List.mem_map.mp he
              obtain ⟨h1, h2⟩ := hcl.1 x hx
              refine ⟨List.mem_map.mpr ⟨x, h1, rfl⟩, fun hE => absurd (by simp [Zone]) (h2 hE)⟩
            · intro e he hkl
              obtain ⟨x, _, rfl⟩ := List.mem_map.mp he
              refine absurd ?_ hkl
              simp only [Killed, Rule.under_pat, patStr_append, patStr_litSyms]
              exact List.IsPrefix.trans hpre (List.prefix_append _ _)
          · simp at hk1
      cases hX : (stripKey k.key (.lit c :: r)).elim (remPartial mode k (.lit c :: r))
          (fun rest => remN false mode k rest) with
      | none => rw [hX] at hr; simp at hr
      | some x =>
        obtain ⟨k1, d1⟩ := x
        rw [hX] at hr
        simp only [Option.map_some, Option.some.injEq] at hr
        obtain ⟨hw1, hhead, hne1, hdel, hrem⟩ := hchild k1 d1 hX
        cases d1 with
        | true =>
          simp only [if_true, Prod.mk.injEq] at hr
          obtain ⟨rfl, rfl⟩ := hr
          refine ⟨hks, fun k' hk' => ⟨k', by simp [hk'], rfl⟩, ?_⟩
          rw [hdel rfl] at hrem
          simp only [gL]
          have := hrem.frame [] (gL own ks) (by simp) hsib
          simpa using this
        | false =>
          simp only [Bool.false_eq_true, if_false, Prod.mk.injEq] at hr
          obtain ⟨rfl, rfl⟩ := hr
          refine ⟨?_, ?_, ?_⟩
          · unfold WFL
            exact ⟨hne1, hw1, hks, by rw [hhead]; exact hdist⟩
          · intro k' hk'
            rcases List.mem_cons.mp hk' with rfl | hk'
            · exact ⟨k, by simp, hhead⟩
            · exact ⟨k', by simp [hk'], rfl⟩
          · simp only [gL]
            have := hrem.frame [] (gL own ks) (by simp) hsib
            simpa using this
    · have hc' : (k.key.head? == some c) = false := by simpa using hcc
      simp only [hc', Bool.false_eq_true, if_false] at hr
      cases hX : remL mode ks c r with
      | none => rw [hX] at hr; simp at hr
      | some x =>
        obtain ⟨ks1, d1⟩ := x
        rw [hX] at hr
        simp only [Option.map_some, Option.some.injEq, Prod.mk.injEq] at hr
        obtain ⟨rfl, rfl⟩ := hr
        obtain ⟨hw1, hheads, hrem⟩ := remL_spec ho hc mode ks hks c r ks1 d1 hX
        refine ⟨?_, ?_, ?_⟩
        · unfold WFL
          refine ⟨hne, hk, hw1, ?_⟩
          intro k' hk'
          obtain ⟨k0, hk0, hEq⟩ := hheads k' hk'
          rw [hEq]; exact hdist k0 hk0
        · intro k' hk'
          rcases List.mem_cons.mp hk' with rfl | hk'
          · exact ⟨k', by simp, rfl⟩
          · obtain ⟨k0, hk0, hEq⟩ := hheads k' hk'
            exact ⟨k0, by simp [hk0], hEq⟩
        · simp only [gL]
          have := hrem.frame ((gN own k).map (Rule.under (litSyms k.key))) [] (by
            intro e he
            obtain ⟨x, _, rfl⟩ := List.mem_map.mp he
            cases hkk : k.key with
            | nil => exact absurd hkk hne
            | cons c2 cs =>
              simp only [Rule.under_pat, litSyms, List.map_cons, List.cons_append]
              refine zone_lit_ne mode ?_ r _
              intro hEq
              exact hcc (by rw [hkk, hEq]; rfl)) (by simp)
          simpa using this
end

/-! ### a mismatch means there was nothing to remove -/

theorem stripKey_none_not_prefix {k : Str} {route : List Sym} (hs : stripKey k route = none)
    (hp : ¬ patStr route <+: k) (x : List Sym) : ¬ shape route <+: litSyms k ++ x := by
  induction k generalizing route with
  | nil => simp [stripKey] at hs
  | cons a ks ih =>
    cases route with
    | nil => exact absurd (by simp) hp
    | cons sy r =>
      cases sy with
      | tok g => simp [litSyms, shapeSym]
      | lit c =>
        simp only [stripKey] at hs
        by_cases hac : a = c
        · subst hac
          simp only [beq_self_eq_true, if_true] at hs
          simp only [patStr_cons, symChar, List.cons_prefix_cons, true_and] at hp
          have := ih hs hp
          simpa [litSyms, shapeSym] using this
        · simp [litSyms, shapeSym, Ne.symm hac]

theorem stripKey_none_ne {k : Str} {route : List Sym} (hs : stripKey k route = none)
    (x : List Sym) : litSyms k ++ x ≠ shape route := by
  induction k generalizing route with
  | nil => simp [stripKey] at hs
  | cons a ks ih =>
    cases route with
    | nil => simp [litSyms]
    | cons sy r =>
      cases sy with
      | tok g => simp [litSyms, shapeSym]
      | lit c =>
        simp only [stripKey] at hs
        by_cases hac : a = c
        · subst hac
          simp only [beq_self_eq_true, if_true] at hs
          have := ih hs
          simpa [litSyms, shapeSym] using this
        · simp [litSyms, shapeSym, hac]

mutual
/-- when `_match` reports a mismatch (and `remove` returns without touching anything) the tree
holds nothing in the zone of the removal -/
theorem remN_none (ho : OwnOK own) (mode : RemMode) (noMerge : Bool) (n : Node) (h : WFN n)
    (p : List Sym) (hr : remN noMerge mode n p = none) : ∀ e ∈ gN own n, ¬ Zone mode p e.pat := by
  match n, p with
  | n, [] => simp [remN] at hr
  | .mk k d pk f hk lits tok, .lit c :: r =>
    simp only [remN, Option.map_eq_none_iff] at hr
    unfold WFN at h
    intro e he
    simp only [gN, List.mem_append] at he
    rcases he with (he | he) | he
    · rw [ho.pat_nil d pk hk e he]; exact zone_cons_nil mode _ _
    · exact remL_none ho mode lits h.1 c r hr e he
    · obtain ⟨g, q, hq⟩ := mem_gT_shape he; rw [hq]; exact zone_lit_tok mode c g r q
  | .mk k d pk f hk lits tok, .tok g :: r =>
    simp only [remN, Option.map_eq_none_iff] at hr
    unfold WFN at h
    intro e he
    simp only [gN, List.mem_append] at he
    rcases he with (he | he) | he
    · rw [ho.pat_nil d pk hk e he]; exact zone_cons_nil mode _ _
    · obtain ⟨_, _, c, q, _, hq⟩ := mem_gL_shape ho h.1 he
      rw [hq]; exact zone_tok_lit mode c g r q
    · exact remT_none ho mode tok h.2 g r hr e he
theorem remT_none (ho : OwnOK own) (mode : RemMode) (t : Option Node) (h : WFT t) (g : Option Fid)
    (r : List Sym) (hr : remT mode t r = none) : ∀ e ∈ gT own t, ¬ Zone mode (.tok g :: r) e.pat := by
  match t with
  | none => intro e he; simp [gT] at he
  | some t0 =>
    simp only [remT, Option.map_eq_none_iff] at hr
    unfold WFT at h
    intro e he
    simp only [gT, List.mem_map] at he
    obtain ⟨x, hx, rfl⟩ := he
    simp only [Rule.under_pat, List.singleton_append]
    rw [zone_tok_tok]
    exact remN_none ho mode true t0 h r hr x hx
theorem remL_none (ho : OwnOK own) (mode : RemMode) (ks : List Node) (h : WFL ks) (c : Char)
    (r : List Sym) (hr : remL mode ks c r = none) : ∀ e ∈ gL own ks, ¬ Zone mode (.lit c :: r) e.pat := by
  match ks with
  | [] => intro e he; simp [gL] at he
  | k :: ks =>
    unfold WFL at h
    obtain ⟨hne, hk, hks, hdist⟩ := h
    simp only [remL] at hr
    intro e he
    simp only [gL, List.mem_append, List.mem_map] at he
    by_cases hcc : k.key.head? = some c
    · have hc' : (k.key.head? == some c) = true := by simp [hcc]
      simp only [hc', if_true, Option.map_eq_none_iff] at hr
      rcases he with ⟨x, hx, rfl⟩ | he
      · simp only [Rule.under_pat]
        cases hs : stripKey k.key (.lit c :: r) with
        | some rest =>
          rw [hs] at hr
          simp only [Option.elim] at hr
          rw [stripKey_some hs, zone_under]
          exact remN_none ho mode false k hk rest hr x hx
        | none =>
          rw [hs] at hr
          simp only [Option.elim, remPartial] at hr
          cases mode with
          | pref =>
            simp only [beq_self_eq_true, Bool.true_and, ite_eq_right_iff, reduceCtorEq, imp_false,
              List.isPrefixOf_iff_prefix] at hr
            simp only [Zone, shape_append, shape_litSyms]
            exact stripKey_none_not_prefix hs hr _
          | exact =>
            simp only [Zone, shape_append, shape_litSyms]
            exact stripKey_none_ne hs _
          | hooksOnly =>
            simp only [Zone, shape_append, shape_litSyms]
            exact stripKey_none_ne hs _
      · obtain ⟨k2, hk2, c2, q, hc2, hq⟩ := mem_gL_shape ho hks he
        rw [hq]
        refine zone_lit_ne mode ?_ r q
        intro hEq
        exact hdist k2 hk2 (by rw [hc2, hcc, hEq])
    · have hc' : (k.key.head? == some c) = false := by simpa using hcc
      simp only [hc', Bool.false_eq_true, if_false, Option.map_eq_none_iff] at hr
      rcases he with ⟨x, _, rfl⟩ | he
      · cases hkk : k.key with
        | nil => exact absurd hkk hne
        | cons c2 cs =>
          simp only [Rule.under_pat, litSyms, List.map_cons, List.cons_append]
          refine zone_lit_ne mode ?_ r _
          intro hEq
          exact hcc (by rw [hkk, hEq]; rfl)
      · exact remL_none ho mode ks hks c r hr e he
end

end Generic

end Ombott.Router
