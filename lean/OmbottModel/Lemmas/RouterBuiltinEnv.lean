import OmbottModel.Lemmas.RouterBuiltinPath
import OmbottModel.Lemmas.RouterBuiltinLex
/-!
The concrete environment `withBuiltin` wildcard by wildcard: no selectors, `path` answers with
the text it consumed, and the stability of every built-in wildcard where it stands
(`StableAtSide`: `StableAt` of `Lemmas/RouteUrlSpec.lean` for the matches that meet the decidable
side condition `tokSide`), from which `rematch_spec_side` carries a match of a path over to the
URL built from the matched values.
-/
namespace Ombott.Builtins
open Py Ombott.Router Ombott.RouteUrl

/-! ### the three kinds are exclusive -/

theorem fidName_of_int {g : Fid} (h : isIntFid g = true) : fidName g = "int".toList := by simpa [isIntFid] using h
theorem fidName_of_float {g : Fid} (h : isFloatFid g = true) : fidName g = "float".toList := by
  simpa [isFloatFid] using h
theorem fidName_of_path {g : Fid} (h : isPathFid g = true) : fidName g = "path".toList := by simpa [isPathFid] using h

theorem not_int_of_float {g : Fid} (h : isFloatFid g = true) : isIntFid g = false := by
  unfold isIntFid; rw [fidName_of_float h]; decide
theorem not_int_of_path {g : Fid} (h : isPathFid g = true) : isIntFid g = false := by
  unfold isIntFid; rw [fidName_of_path h]; decide
theorem not_float_of_path {g : Fid} (h : isPathFid g = true) : isFloatFid g = false := by
  unfold isFloatFid; rw [fidName_of_path h]; decide

theorem hasFormatter_float {g : Fid} (h : isFloatFid g = true) : hasFormatter g = true := by
  unfold hasFormatter; rw [fidName_of_float h]; decide
theorem hasFormatter_path {g : Fid} (h : isPathFid g = true) : hasFormatter g = false := by
  unfold hasFormatter; rw [fidName_of_path h]; decide

/-! ### the environment wildcard by wildcard -/

theorem withBuiltin_int (fc : FloatConv) (env : FilterEnv) {g : Fid} (hg : isIntFid g = true) (s : Str) :
    withBuiltin fc env g s = intFilter s := by simp [withBuiltin, hg]

theorem withBuiltin_float (fc : FloatConv) (env : FilterEnv) {g : Fid} (hg : isFloatFid g = true) (s : Str) :
    withBuiltin fc env g s = floatFilter fc s := by simp [withBuiltin, hg, not_int_of_float hg]

theorem withBuiltin_path (fc : FloatConv) (env : FilterEnv) {g : Fid} (hg : isPathFid g = true) (s : Str) :
    withBuiltin fc env g s = pathFilter (fidArgs g) s := by
  simp [withBuiltin, hg, not_int_of_path hg, not_float_of_path hg]

theorem withBuiltin_other (fc : FloatConv) (env : FilterEnv) {g : Fid} (h1 : isIntFid g = false)
    (h2 : isFloatFid g = false) (h3 : isPathFid g = false) (s : Str) : withBuiltin fc env g s = env g s := by
  simp [withBuiltin, h1, h2, h3]

theorem floatFilter_spec {fc : FloatConv} {s : Str} {r : FilterRes} (h : floatFilter fc s = some r) :
    ∃ l, floatLex s = some l ∧
      r = ⟨if exactDec l.dec then floatVal l.dec else fc (s.take l.len), l.len, none⟩ := by
  unfold floatFilter at h
  cases hl : floatLex s with
  | none => rw [hl] at h; cases h
  | some l =>
    rw [hl] at h
    simp only [Option.map_some, Option.some.injEq] at h
    exact ⟨l, rfl, h.symm⟩

/-- none of the built-in handlers answers with a selector -/
theorem noSel_withBuiltin (fc : FloatConv) (env : FilterEnv) (hs : NoSel env) : NoSel (withBuiltin fc env) := by
  intro f s r h
  by_cases hi : isIntFid f = true
  · rw [withBuiltin_int fc env hi] at h
    exact (intFilter_spec h).2.1
  · by_cases hf : isFloatFid f = true
    · rw [withBuiltin_float fc env hf] at h
      obtain ⟨l, _, hr⟩ := floatFilter_spec h
      rw [hr]
    · by_cases hp : isPathFid f = true
      · rw [withBuiltin_path fc env hp] at h
        rw [(pathFilter_spec h).1]
      · rw [withBuiltin_other fc env (by simpa using hi) (by simpa using hf) (by simpa using hp)] at h
        exact hs f s r h

theorem noSel_builtinEnv (fc : FloatConv) : NoSel (builtinEnv fc) :=
  noSel_withBuiltin fc _ (by intro f s r h; cases h)

/-- `path` answers with the text it consumed and has no formatter -/
theorem textFilter_path (fc : FloatConv) (env : FilterEnv) {g : Fid} (hg : isPathFid g = true) :
    TextFilter (withBuiltin fc env) g := by
  refine ⟨hasFormatter_path hg, ?_⟩
  intro s r h
  rw [withBuiltin_path fc env hg] at h
  rw [(pathFilter_spec h).1]

/-! ### `Stable` only looks at the handler of its own wildcard -/

theorem sanity_congr {env env' : FilterEnv} (g : Fid) (h : ∀ s, env g s = env' g s) (prt : Val) (nxt : Str) :
    sanity env (some g) prt nxt = sanity env' (some g) prt nxt := by
  cases prt with
  | conv _ => rfl
  | str s => simp only [sanity, h]

theorem piece_congr {env env' : FilterEnv} (fenv : FormatEnv) (g : Fid) (h : ∀ s, env g s = env' g s)
    (nxt : Str) (v : Val) : piece env fenv (some g) nxt v = piece env' fenv (some g) nxt v := by
  unfold piece
  cases fmtOut fenv (some g) v with
  | error e => rfl
  | ok prt =>
    simp only [bind, Except.bind]
    rw [sanity_congr g h]

theorem stable_congr {env env' : FilterEnv} {fenv : FormatEnv} {g : Fid} (h : ∀ s, env g s = env' g s)
    (hs : Stable (tokRes env (some g)) (piece env fenv (some g))) :
    Stable (tokRes env' (some g)) (piece env' fenv (some g)) := by
  have h1 : tokRes env' (some g) = tokRes env (some g) := by
    funext s; exact (h s).symm
  have h2 : piece env' fenv (some g) = piece env fenv (some g) := by
    funext nxt v; exact (piece_congr fenv g h nxt v).symm
  rw [h1, h2]; exact hs

/-- `Stable` for `int` under the concrete environment (from `stable_int`) -/
theorem stable_int_builtin (fc : FloatConv) (env : FilterEnv) (fenv : FormatEnv) (g : Fid)
    (hg : isIntFid g = true) :
    Stable (tokRes (withBuiltin fc env) (some g)) (piece (withBuiltin fc env) fenv (some g)) :=
  stable_congr (env := withInt env)
    (fun s => by rw [withBuiltin_int fc env hg]; simp [withInt, hg]) (stable_int env fenv g hg)

/-! ### stability with side conditions -/

/-- `StableAt` (`Lemmas/RouteUrlSpec.lean`) for the matches that meet the side condition of the
wildcard (`tokSide`: on the value and on the URL built for the rest of the rule) -/
def StableAtSide (fc : FloatConv) (env : FilterEnv) (fenv : FormatEnv) (f : Option Fid) (p' : List Sym) : Prop :=
  ∀ (path : Str) (r : FilterRes) (vs : List Val) (rest' : Str),
    path ≠ [] → tokRes env f path = some r →
    matchRule env p' (path.drop r.n) = some vs →
    buildUrl env fenv p' vs = .ok rest' →
    matchRule env p' rest' = some vs →
    tokSide fc f p' r.val rest' = true →
    ∃ u, piece env fenv f (litRun p') r.val = .ok (.str u) ∧ u ++ rest' ≠ [] ∧
      ∃ r', tokRes env f (u ++ rest') = some r' ∧ r'.val = r.val ∧ r'.n = u.length

def AllStableSide (fc : FloatConv) (env : FilterEnv) (fenv : FormatEnv) : List Sym → Prop
  | [] => True
  | .lit _ :: p => AllStableSide fc env fenv p
  | .tok f :: p => StableAtSide fc env fenv f p ∧ AllStableSide fc env fenv p

theorem stableAtSide_of_stableAt {fc : FloatConv} {env : FilterEnv} {fenv : FormatEnv} {f : Option Fid}
    {p' : List Sym} (h : StableAt env fenv f p') : StableAtSide fc env fenv f p' :=
  fun path r vs rest' h1 h2 h3 h4 h5 _ => h path r vs rest' h1 h2 h3 h4 h5

theorem sideOK_lit (fc : FloatConv) (env : FilterEnv) (fenv : FormatEnv) (c : Char) (p : List Sym) (vs : List Val) :
    sideOK fc env fenv (.lit c :: p) vs = sideOK fc env fenv p vs := by
  cases vs <;> rfl

/-- the induction behind `url_rematch_builtin`: `rematch_spec` with side conditions -/
theorem rematch_spec_side {fc : FloatConv} {env : FilterEnv} {fenv : FormatEnv} {p : List Sym}
    (hs : AllStableSide fc env fenv p) {path : Str} {vs : List Val}
    (hm : matchRule env p path = some vs) (hside : sideOK fc env fenv p vs = true) :
    ∃ u, buildUrl env fenv p vs = .ok u ∧ matchRule env p u = some vs := by
  induction p generalizing path vs with
  | nil =>
    obtain ⟨rfl, rfl⟩ := matchRule_nil.mp hm
    exact ⟨[], rfl, rfl⟩
  | cons s p ih =>
    cases s with
    | lit c =>
      obtain ⟨r, rfl, hm'⟩ := matchRule_lit.mp hm
      rw [sideOK_lit] at hside
      obtain ⟨u', hb, hr⟩ := ih hs hm' hside
      exact ⟨c :: u', buildUrl_lit_ok.mpr ⟨u', hb, rfl⟩, matchRule_lit.mpr ⟨u', rfl, hr⟩⟩
    | tok f =>
      obtain ⟨hne, res, vs', ht, hm', rfl⟩ := matchRule_tok.mp hm
      simp only [sideOK, Bool.and_eq_true] at hside
      obtain ⟨rest', hb, hr⟩ := ih hs.2 hm' hside.2
      have hts : tokSide fc f p res.val rest' = true := by
        have := hside.1
        rw [hb] at this
        exact this
      obtain ⟨u, hp, hne', r', ht', hv, hn⟩ := hs.1 path res vs' rest' hne ht hm' hb hr hts
      refine ⟨u ++ rest', buildUrl_tok_ok.mpr ⟨u, rest', hp, hb, rfl⟩,
        matchRule_tok.mpr ⟨hne', r', vs', ht', ?_, ?_⟩⟩
      · rw [hn, List.drop_left]; exact hr
      · rw [hv]

/-! ### `path` where it stands -/

theorem nil_of_litRun_nil {p' : List Sym} (h1 : litRun p' = []) (h2 : startsWithTok p' = false) : p' = [] := by
  cases p' with
  | nil => rfl
  | cons s q =>
    cases s with
    | lit c => simp [litRun] at h1
    | tok f => simp [startsWithTok] at h2

/-- what a `path` wildcard contributes to the URL: the matched text, accepted by the sanity check
in front of the literal it looks ahead for -/
theorem piece_path (fc : FloatConv) (env : FilterEnv) (fenv : FormatEnv) {g : Fid} (hg : isPathFid g = true)
    {path : Str} {r : FilterRes} (hf : pathFilter (fidArgs g) path = some r) :
    piece (withBuiltin fc env) fenv (some g) (fidArgs g) r.val = .ok (.str (path.take r.n)) := by
  obtain ⟨hreq, h1, h2, _, _⟩ := pathFilter_spec hf
  have hlen : (path.take r.n).length = r.n := by
    rw [List.length_take]; exact Nat.min_eq_left (Nat.le_trans h2 (dotRun_le path))
  have hval : r.val = .str (path.take r.n) := by rw [hreq]
  have hre := pathFilter_rebuilt hf (fidArgs g) (pathOk_self _) (laterLit_self _)
  rw [hval]
  simp only [piece, fmtOut, hasFormatter_path hg, Bool.not_false, if_true, sanity, withBuiltin_path fc env hg, hre,
    hlen, bind, Except.bind, pure, Except.pure, beq_self_eq_true]

/-- **`path` is stable where it stands** when the literal it looks ahead for does not stand
again (`laterLit`) in the URL built for the rest of the rule -/
theorem stableAtSide_path (fc : FloatConv) (env : FilterEnv) (fenv : FormatEnv) (g : Fid) (p' : List Sym)
    (hg : isPathFid g = true) (hconf : fidArgs g = litRun p') (hnt : startsWithTok p' = false) :
    StableAtSide fc (withBuiltin fc env) fenv (some g) p' := by
  intro path r vs rest' _ ht _ _ hr hside
  have ht' : pathFilter (fidArgs g) path = some r := by
    rw [← withBuiltin_path fc env hg]; exact ht
  obtain ⟨hreq, h1, h2, _, _⟩ := pathFilter_spec ht'
  have hl : laterLit (fidArgs g) rest' = false := by
    have := hside
    simp only [tokSide, not_int_of_path hg, not_float_of_path hg, hg, Bool.false_eq_true, if_false, if_true,
      Bool.not_eq_true'] at this
    rw [hconf]; exact this
  have h0 : pathOk (fidArgs g) rest' 0 = true := by
    by_cases hc : litRun p' = []
    · have hp : p' = [] := nil_of_litRun_nil hc hnt
      subst hp
      obtain ⟨rfl, _⟩ := matchRule_nil.mp hr
      rw [hconf, hc]; rfl
    · rw [hconf]
      exact pathOk_zero_of_prefix hc (matchRule_litRun_prefix hr)
  have hlen : (path.take r.n).length = r.n := by
    rw [List.length_take]; exact Nat.min_eq_left (Nat.le_trans h2 (dotRun_le path))
  have hval : r.val = .str (path.take r.n) := by rw [hreq]
  refine ⟨path.take r.n, by rw [← hconf]; exact piece_path fc env fenv hg ht', ?_,
    ⟨.str (path.take r.n), r.n, none⟩, ?_, hval.symm, hlen.symm⟩
  · intro hnil
    have : (path.take r.n).length = 0 := by rw [(List.append_eq_nil_iff.mp hnil).1]; rfl
    omega
  · show withBuiltin fc env g (path.take r.n ++ rest') = _
    rw [withBuiltin_path fc env hg]
    exact pathFilter_rebuilt ht' rest' h0 hl

/-! ### `float` where it stands -/

theorem floatFilter_append {fc : FloatConv} {u : Str} {v : Val}
    (h : floatFilter fc u = some ⟨v, u.length, none⟩) (rest : Str)
    (hr : ∀ c, rest.head? = some c → isDecDigit c = false) (hdot : '.' ∈ u ∨ dotDigit rest = false) :
    floatFilter fc (u ++ rest) = some ⟨v, u.length, none⟩ := by
  obtain ⟨l, hl, hreq⟩ := floatFilter_spec h
  simp only [FilterRes.mk.injEq, and_true] at hreq
  obtain ⟨hv, hn⟩ := hreq
  have hfp : l.fp ≠ [] ∨ dotDigit rest = false := by
    rcases hdot with hd | hd
    · exact Or.inl (floatLex_fp_of_dot hl hn.symm hd)
    · exact Or.inr hd
  have hl' := floatLex_append hl hn.symm rest hr hfp
  unfold floatFilter
  rw [hl']
  simp only [Option.map_some, Option.some.injEq, FilterRes.mk.injEq, and_true]
  refine ⟨?_, hn.symm⟩
  rw [hv, List.take_left' hn, List.take_of_length_le (by omega)]

theorem floatValOK_spec {fc : FloatConv} {v : Val} (h : floatValOK fc v = true) :
    ∃ u, floatFmt v = some u ∧ '.' ∈ u ∧ floatFilter fc u = some ⟨v, u.length, none⟩ := by
  unfold floatValOK at h
  cases hf : floatFmt v with
  | none => rw [hf] at h; cases h
  | some u =>
    rw [hf] at h
    simp only [Bool.and_eq_true, List.contains_iff_mem, beq_iff_eq] at h
    exact ⟨u, rfl, h.1, h.2⟩

theorem floatSide_spec {fc : FloatConv} {v : Val} {rest' : Str} (h : floatSide fc v rest' = true) :
    ∃ u, floatFmt v = some u ∧ floatFilter fc u = some ⟨v, u.length, none⟩ ∧ ('.' ∈ u ∨ dotDigit rest' = false) := by
  unfold floatSide at h
  cases hf : floatFmt v with
  | none => rw [hf] at h; cases h
  | some u =>
    rw [hf] at h
    simp only [Bool.and_eq_true, Bool.or_eq_true, List.contains_iff_mem, beq_iff_eq, Bool.not_eq_true'] at h
    exact ⟨u, rfl, h.1, h.2⟩

theorem floatSide_of_floatValOK {fc : FloatConv} {v : Val} (h : floatValOK fc v = true) (rest' : Str) :
    floatSide fc v rest' = true := by
  obtain ⟨u, h1, h2, h3⟩ := floatValOK_spec h
  unfold floatSide
  rw [h1]
  simp [h3, h2]

/-- what a `float` wildcard contributes to the URL -/
theorem piece_float (fc : FloatConv) (env : FilterEnv) (fenv : FormatEnv) {g : Fid} (hg : isFloatFid g = true)
    {v : Val} {u : Str} (hf : floatFmt v = some u) (nxt : Str)
    (hs : floatFilter fc (u ++ nxt) = some ⟨v, u.length, none⟩) :
    piece (withBuiltin fc env) (withFloatFmt fenv) (some g) nxt v = .ok (.str u) := by
  simp only [piece, fmtOut, hasFormatter_float hg, not_int_of_float hg, withFloatFmt, hg, hf, Bool.not_true,
    Bool.false_eq_true, if_false, if_true, sanity, withBuiltin_float fc env hg, hs, bind, Except.bind, pure,
    Except.pure, Functor.map, Except.map, beq_self_eq_true]

/-- **`float` is stable where it stands** for a value whose formatted text is read back as the
same value and either has a decimal point or is not followed by `.` and a digit (`floatSide`),
when the wildcards directly after it keep the head of their text -/
theorem stableAtSide_float (fc : FloatConv) (env : FilterEnv) (fenv : FormatEnv) (g : Fid) (p' : List Sym)
    (hg : isFloatFid g = true) (hrun : HeadRun (withBuiltin fc env) (withFloatFmt fenv) p') :
    StableAtSide fc (withBuiltin fc env) (withFloatFmt fenv) (some g) p' := by
  intro path r vs rest' _ ht hm hb hrm hside
  have ht' : floatFilter fc path = some r := by
    rw [← withBuiltin_float fc env hg]; exact ht
  obtain ⟨l, hl, hreq⟩ := floatFilter_spec ht'
  have hn : r.n = l.len := by rw [hreq]
  have hstop : ∀ c, (path.drop r.n).head? = some c → isDecDigit c = false := by
    rw [hn]; exact floatLex_stop hl
  have hok : floatSide fc r.val rest' = true := by
    have := hside
    simp only [tokSide, not_int_of_float hg, hg, Bool.false_eq_true, if_false, if_true] at this
    exact this
  obtain ⟨u, hfm, hfu, hdot⟩ := floatSide_spec hok
  have hsh : SameHead (path.drop r.n) rest' := sameHead_of_headRun hrun hm hb
  have hrest : ∀ c, rest'.head? = some c → isDecDigit c = false := sameHead_stop hsh hstop
  have hnxt : ∀ c, (litRun p').head? = some c → isDecDigit c = false := by
    intro c hc
    obtain ⟨t, htt⟩ := matchRule_litRun_prefix hm
    apply hstop c
    rw [← htt]
    cases hq : litRun p' with
    | nil => rw [hq] at hc; simp at hc
    | cons a q => rw [hq] at hc; simpa using hc
  have hnxtdot : '.' ∈ u ∨ dotDigit (litRun p') = false := by
    rcases hdot with hd | hd
    · exact Or.inl hd
    · right
      -- the literal run is a prefix of `rest'` as well (the rest of the rule matches `rest'`)
      obtain ⟨t, htt⟩ := matchRule_litRun_prefix hrm
      cases hq : litRun p' with
      | nil => rfl
      | cons a q =>
        cases q with
        | nil => rfl
        | cons b q' =>
          rw [hq] at htt
          rw [← htt] at hd
          exact hd
  have hune : u ≠ [] := by
    intro hnil
    obtain ⟨l, hl, hreq⟩ := floatFilter_spec hfu
    rw [hnil] at hl
    simp [floatLex, lexBody] at hl
  refine ⟨u, piece_float fc env fenv hg hfm _ (floatFilter_append hfu _ hnxt hnxtdot), ?_,
    ⟨r.val, u.length, none⟩, ?_, rfl, rfl⟩
  · intro hnil
    exact hune (List.append_eq_nil_iff.mp hnil).1
  · show withBuiltin fc env g (u ++ rest') = _
    rw [withBuiltin_float fc env hg]
    exact floatFilter_append hfu rest' hrest hdot

/-! ### every built-in wildcard is stable where it stands -/

theorem headRun_builtin (fc : FloatConv) (env : FilterEnv) (fenv : FormatEnv) (p : List Sym)
    (h1 : builtinOnly p = true) (h2 : convAfterTok p = false) (h3 : startsWithConv p = false) :
    HeadRun (withBuiltin fc env) fenv p := by
  induction p with
  | nil => trivial
  | cons s p ih =>
    cases s with
    | lit c => trivial
    | tok f =>
      simp only [convAfterTok, Bool.or_eq_false_iff] at h2
      cases f with
      | none => exact ⟨headKeep_plain _ _, ih h1 h2.2 h2.1⟩
      | some g =>
        simp only [builtinOnly, Bool.and_eq_true, Bool.or_eq_true] at h1
        simp only [startsWithConv, Bool.or_eq_false_iff] at h3
        have hp : isPathFid g = true := by
          rcases h1.1 with (hi | hf) | hp
          · rw [hi] at h3; cases h3.1
          · rw [hf] at h3; cases h3.2
          · exact hp.1.1
        exact ⟨headKeep_text _ _ g (textFilter_path fc env hp), ih h1.2 h2.2 h2.1⟩

/-- in a rule of built-in wildcards (`builtinOnly`) where no converting wildcard directly follows
another wildcard, every wildcard is stable where it stands, for the matches that meet `tokSide` -/
theorem allStableSide_builtin (fc : FloatConv) (env : FilterEnv) (fenv : FormatEnv) (p : List Sym)
    (h1 : builtinOnly p = true) (h2 : convAfterTok p = false) :
    AllStableSide fc (withBuiltin fc env) (withFloatFmt fenv) p := by
  induction p with
  | nil => trivial
  | cons s p ih =>
    cases s with
    | lit c => exact ih h1 h2
    | tok f =>
      simp only [convAfterTok, Bool.or_eq_false_iff] at h2
      cases f with
      | none =>
        exact ⟨stableAtSide_of_stableAt
          (stableAt_of_stable (stable_plain _ _) (headRun_builtin fc env _ p h1 h2.2 h2.1)), ih h1 h2.2⟩
      | some g =>
        simp only [builtinOnly, Bool.and_eq_true, Bool.or_eq_true] at h1
        refine ⟨?_, ih h1.2 h2.2⟩
        have hrun := headRun_builtin fc env (withFloatFmt fenv) p h1.2 h2.2 h2.1
        rcases h1.1 with (hi | hf) | hp
        · exact stableAtSide_of_stableAt (stableAt_of_stable (stable_int_builtin fc env _ g hi) hrun)
        · exact stableAtSide_float fc env fenv g p hf hrun
        · simp only [Bool.and_eq_true, beq_iff_eq, Bool.not_eq_true'] at hp
          exact stableAtSide_path fc env _ g p hp.1.1 hp.1.2 hp.2

/-! ### the side conditions that hold by themselves -/

theorem piece_plain' (env : FilterEnv) (fenv : FormatEnv) (nxt : Str) (v : Val) :
    piece env fenv none nxt v = .ok v := rfl

/-- in a rule without converting wildcards the URL built from the matched values is the matched
path itself -/
theorem buildUrl_textOnly (fc : FloatConv) (env : FilterEnv) (fenv : FormatEnv) (p : List Sym) :
    ∀ (path : Str) (vs : List Val), builtinOnly p = true → textOnly p = true →
      matchRule (withBuiltin fc env) p path = some vs → buildUrl (withBuiltin fc env) fenv p vs = .ok path := by
  induction p with
  | nil =>
    intro path vs _ _ hm
    obtain ⟨rfl, rfl⟩ := matchRule_nil.mp hm
    rfl
  | cons s p ih =>
    intro path vs h1 h2 hm
    cases s with
    | lit c =>
      obtain ⟨r, rfl, hm'⟩ := matchRule_lit.mp hm
      exact buildUrl_lit_ok.mpr ⟨r, ih r vs h1 h2 hm', rfl⟩
    | tok f =>
      obtain ⟨_, res, vs', ht, hm', rfl⟩ := matchRule_tok.mp hm
      cases f with
      | none =>
        rw [tokRes_plain] at ht
        cases ht
        refine buildUrl_tok_ok.mpr ⟨path.takeWhile (· != Gen.pathSep), _, rfl, ih _ vs' h1 h2 hm', ?_⟩
        show path = _ ++ path.drop (path.takeWhile (· != Gen.pathSep)).length
        rw [drop_takeWhile_length, List.takeWhile_append_dropWhile]
      | some g =>
        simp only [textOnly, Bool.and_eq_true] at h2
        simp only [builtinOnly, Bool.and_eq_true, Bool.or_eq_true] at h1
        have hg := h2.1
        have hconf : fidArgs g = litRun p := by
          rcases h1.1 with (hi | hf) | hp
          · rw [not_int_of_path hg] at hi; cases hi
          · rw [not_float_of_path hg] at hf; cases hf
          · simp only [Bool.and_eq_true, beq_iff_eq] at hp; exact hp.1.2
        have ht' : pathFilter (fidArgs g) path = some res := by
          rw [← withBuiltin_path fc env hg]; exact ht
        refine buildUrl_tok_ok.mpr ⟨path.take res.n, _, ?_, ih _ vs' h1.2 h2.2 hm', ?_⟩
        · rw [← hconf]; exact piece_path fc env fenv hg ht'
        · exact (List.take_append_drop _ _).symm

theorem sideOK_tok (fc : FloatConv) (env : FilterEnv) (fenv : FormatEnv) (f : Option Fid) (p : List Sym) (v : Val)
    (vs : List Val) :
    sideOK fc env fenv (.tok f :: p) (v :: vs) =
      ((match buildUrl env fenv p vs with
        | .ok rest' => tokSide fc f p v rest'
        | .error _ => true) && sideOK fc env fenv p vs) := rfl

/-- **the side conditions hold by themselves** when no `path` wildcard is followed later in the
rule by a converting wildcard (the text after it is unchanged in the URL, and the original match
was the longest) and every `float` value is `floatValOK` -/
theorem sideOK_static (fc : FloatConv) (env : FilterEnv) (fenv : FormatEnv) (p : List Sym) :
    ∀ (path : Str) (vs : List Val), builtinOnly p = true → pathThenText p = true →
      matchRule (withBuiltin fc env) p path = some vs → floatsOK fc p vs = true →
      sideOK fc (withBuiltin fc env) fenv p vs = true := by
  induction p with
  | nil => intro _ _ _ _ _ _; rfl
  | cons s p ih =>
    intro path vs h1 h2 hm hfl
    cases s with
    | lit c =>
      obtain ⟨r, rfl, hm'⟩ := matchRule_lit.mp hm
      rw [sideOK_lit]
      have hfl' : floatsOK fc p vs = true := by cases vs <;> exact hfl
      exact ih r vs h1 h2 hm' hfl'
    | tok f =>
      obtain ⟨_, res, vs', ht, hm', rfl⟩ := matchRule_tok.mp hm
      rw [sideOK_tok]
      simp only [floatsOK, Bool.and_eq_true] at hfl
      cases f with
      | none =>
        have := ih _ vs' h1 h2 hm' hfl.2
        rw [this]
        cases buildUrl (withBuiltin fc env) fenv p vs' <;> rfl
      | some g =>
        simp only [builtinOnly, Bool.and_eq_true, Bool.or_eq_true] at h1
        simp only [pathThenText, Bool.and_eq_true, Bool.or_eq_true, Bool.not_eq_true'] at h2
        rw [ih _ vs' h1.2 h2.2 hm' hfl.2, Bool.and_true]
        cases hb : buildUrl (withBuiltin fc env) fenv p vs' with
        | error e => rfl
        | ok rest' =>
          show tokSide fc (some g) p res.val rest' = true
          rcases h1.1 with (hi | hf) | hp
          · simp [tokSide, hi]
          · have := hfl.1
            simp only [hf, Bool.not_true, Bool.false_or] at this
            simp [tokSide, not_int_of_float hf, hf, floatSide_of_floatValOK this]
          · simp only [Bool.and_eq_true, beq_iff_eq, Bool.not_eq_true'] at hp
            have hg := hp.1.1
            have htxt : textOnly p = true := by
              rcases h2.1 with h | h
              · rw [hg] at h; cases h
              · exact h
            have hbu := buildUrl_textOnly fc env fenv p _ vs' h1.2 htxt hm'
            rw [hbu] at hb
            cases hb
            have ht' : pathFilter (fidArgs g) path = some res := by
              rw [← withBuiltin_path fc env hg]; exact ht
            have := laterLit_orig ht'
            rw [hp.1.2] at this
            simp [tokSide, not_int_of_path hg, not_float_of_path hg, hg, this]

/-! ### the concrete answers do not depend on the rest of the environment -/

theorem tokRes_builtin_indep (fc : FloatConv) (env env' : FilterEnv) (f : Option Fid)
    (hf : ∀ g, f = some g → (isIntFid g || isFloatFid g || isPathFid g) = true) (s : Str) :
    tokRes (withBuiltin fc env) f s = tokRes (withBuiltin fc env') f s := by
  cases f with
  | none => rfl
  | some g =>
    have := hf g rfl
    simp only [Bool.or_eq_true] at this
    show withBuiltin fc env g s = withBuiltin fc env' g s
    rcases this with (hi | hfl) | hp
    · rw [withBuiltin_int fc env hi, withBuiltin_int fc env' hi]
    · rw [withBuiltin_float fc env hfl, withBuiltin_float fc env' hfl]
    · rw [withBuiltin_path fc env hp, withBuiltin_path fc env' hp]

theorem matchRule_builtin_indep (fc : FloatConv) (env env' : FilterEnv) (p : List Sym) :
    ∀ path, builtinPat p = true → matchRule (withBuiltin fc env) p path = matchRule (withBuiltin fc env') p path := by
  induction p with
  | nil => intro path _; cases path <;> rfl
  | cons s p ih =>
    intro path hb
    cases s with
    | lit c =>
      cases path with
      | nil => rfl
      | cons d r =>
        simp only [matchRule]
        rw [ih r hb]
    | tok f =>
      cases path with
      | nil => rfl
      | cons d r =>
        have hf : ∀ g, f = some g → (isIntFid g || isFloatFid g || isPathFid g) = true := by
          intro g hg; subst hg
          simp only [builtinPat, Bool.and_eq_true] at hb
          exact hb.1
        have hb' : builtinPat p = true := by
          cases f with
          | none => exact hb
          | some g => simp only [builtinPat, Bool.and_eq_true] at hb; exact hb.2
        simp only [matchRule]
        rw [tokRes_builtin_indep fc env env' f hf]
        cases tokRes (withBuiltin fc env') f (d :: r) with
        | none => rfl
        | some res => simp only; rw [ih _ hb']

theorem all_congr_mem {α} {l : List α} {p q : α → Bool} (h : ∀ a ∈ l, p a = q a) : l.all p = l.all q := by
  induction l with
  | nil => rfl
  | cons a l ih =>
    simp only [List.all_cons]
    rw [h a (by simp), ih (fun b hb => h b (by simp [hb]))]

theorem findSome_congr_mem {α β} {l : List α} {f g : α → Option β} (h : ∀ a ∈ l, f a = g a) :
    l.findSome? f = l.findSome? g := by
  induction l with
  | nil => rfl
  | cons a l ih =>
    simp only [List.findSome?_cons]
    rw [h a (by simp), ih (fun b hb => h b (by simp [hb]))]

/-- the plain matcher over rules of built-in wildcards does not consult the user-regex part of
the environment -/
theorem specResolve_builtin_indep (fc : FloatConv) (env env' : FilterEnv) (rules : List Rule)
    (hb : ∀ r ∈ rules, builtinPat r.pat = true) (path : Str) :
    specResolve (withBuiltin fc env) rules path = specResolve (withBuiltin fc env') rules path := by
  unfold specResolve
  apply findSome_congr_mem
  intro r hr
  rw [matchRule_builtin_indep fc env env' r.pat path (hb r hr)]
  cases matchRule (withBuiltin fc env') r.pat path with
  | none => rfl
  | some vs =>
    simp only
    have : (rules.all fun q => q.pat == r.pat || (matchRule (withBuiltin fc env) q.pat path).isNone || prio r.pat q.pat) =
        (rules.all fun q => q.pat == r.pat || (matchRule (withBuiltin fc env') q.pat path).isNone || prio r.pat q.pat) := by
      apply all_congr_mem
      intro q hq
      rw [matchRule_builtin_indep fc env env' q.pat path (hb q hq)]
    rw [this]

end Ombott.Builtins

namespace Ombott.Builtins
open Py Ombott.Router Ombott.RouteUrl

/-! ### what a concrete wildcard answers, spelled out per kind -/

/-- `v` is the value the wildcard with filter `f` binds when it is tried on the text `s`:
plain — the text up to the next separator; `int` — the integer the `int` handler reads from a
`-?\d+` text at the start of `s`; `float` — the numeral matched by `-?\d+(\.\d+)?` at the start
of `s` (as `repr` of the double inside `exactDec`, the converter's answer outside); `path` — the
longest newline-free non-empty prefix of `s` followed by the configured literal.  No other
filter. -/
def BuiltinAnswer (fc : FloatConv) (f : Option Fid) (s : Str) (v : Val) : Prop :=
  match f with
  | none => v = .str (s.takeWhile (· != Gen.pathSep))
  | some g =>
    if isIntFid g then ∃ z n, intFilter s = some ⟨intVal z, n, none⟩ ∧ v = intVal z
    else if isFloatFid g then
      ∃ l, floatLex s = some l ∧ v = (if exactDec l.dec then floatVal l.dec else fc (s.take l.len))
    else if isPathFid g then ∃ k, lastOk (pathOk (fidArgs g) s) (dotRun s) = some k ∧ v = .str (s.take k)
    else False

theorem builtinAnswer_of_tokRes (fc : FloatConv) (env : FilterEnv) (f : Option Fid)
    (hf : ∀ g, f = some g → (isIntFid g || isFloatFid g || isPathFid g) = true) {s : Str} {r : FilterRes}
    (h : tokRes (withBuiltin fc env) f s = some r) : BuiltinAnswer fc f s r.val := by
  cases f with
  | none =>
    rw [tokRes_plain] at h
    cases h
    rfl
  | some g =>
    have hk := hf g rfl
    simp only [Bool.or_eq_true] at hk
    have h' : withBuiltin fc env g s = some r := h
    unfold BuiltinAnswer
    simp only
    rcases hk with (hi | hfl) | hp
    · rw [withBuiltin_int fc env hi] at h'
      obtain ⟨⟨z, hz⟩, hsel, _⟩ := intFilter_spec h'
      rw [if_pos hi]
      refine ⟨z, r.n, ?_, hz⟩
      rw [h']
      cases r
      simp only at hz hsel
      rw [hz, hsel]
    · rw [withBuiltin_float fc env hfl] at h'
      obtain ⟨l, hl, hr⟩ := floatFilter_spec h'
      rw [if_neg (by simp [not_int_of_float hfl]), if_pos hfl]
      exact ⟨l, hl, by rw [hr]⟩
    · rw [withBuiltin_path fc env hp] at h'
      rw [if_neg (by simp [not_int_of_path hp]), if_neg (by simp [not_float_of_path hp]), if_pos hp]
      unfold pathFilter at h'
      cases hl : lastOk (pathOk (fidArgs g) s) (dotRun s) with
      | none => rw [hl] at h'; cases h'
      | some k =>
        rw [hl] at h'
        simp only [Option.map_some, Option.some.injEq] at h'
        exact ⟨k, rfl, by rw [← h']⟩

theorem builtinPat_mem {p : List Sym} (h : builtinPat p = true) {g : Fid} (hm : Sym.tok (some g) ∈ p) :
    (isIntFid g || isFloatFid g || isPathFid g) = true := by
  induction p with
  | nil => cases hm
  | cons s p ih =>
    cases s with
    | lit c =>
      rcases List.mem_cons.mp hm with he | hm'
      · cases he
      · exact ih h hm'
    | tok f =>
      cases f with
      | none =>
        rcases List.mem_cons.mp hm with he | hm'
        · cases he
        · exact ih h hm'
      | some g' =>
        simp only [builtinPat, Bool.and_eq_true] at h
        rcases List.mem_cons.mp hm with he | hm'
        · cases he; exact h.1
        · exact ih h.2 hm'

end Ombott.Builtins
