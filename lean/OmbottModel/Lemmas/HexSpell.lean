import OmbottModel.Lemmas.Chunked
import OmbottModel.Lemmas.PyInt
/-! `int(spelling, 16)` reads back every canonical size spelling: hex digits in either case with
any number of leading zeros (`hexSpell`), and such a spelling is a legal size-line spelling. -/
namespace Ombott.Chunked
open Py Ombott.Body

/-- the codes `int(x, 16)` accepts as digits -/
def IsHexCode (n : Nat) : Prop := (hexDigitVal n).isSome = true

theorem hexCode_range (n : Nat) (h : (hexDigitVal n).isSome = true) :
    (48 ≤ n ∧ n ≤ 57) ∨ (97 ≤ n ∧ n ≤ 102) ∨ (65 ≤ n ∧ n ≤ 70) := by
  unfold hexDigitVal at h
  split at h
  · rename_i h1; simp only [Bool.and_eq_true, decide_eq_true_eq] at h1; exact Or.inl h1
  · split at h
    · rename_i h1; simp only [Bool.and_eq_true, decide_eq_true_eq] at h1; exact Or.inr (Or.inl h1)
    · split at h
      · rename_i h1; simp only [Bool.and_eq_true, decide_eq_true_eq] at h1; exact Or.inr (Or.inr h1)
      · simp at h

theorem hexCode_facts (n : Nat) (_ : n < 256) (h : (hexDigitVal n).isSome = true) :
    n ≠ 13 ∧ n ≠ 59 ∧ n ≠ 10 ∧ isWsNat n = false ∧ n ≠ 45 ∧ n ≠ 43 ∧ n ≠ 120 ∧ n ≠ 88 ∧ n ≠ 95 := by
  have hr := hexCode_range n h
  refine ⟨by omega, by omega, by omega, ?_, by omega, by omega, by omega, by omega, by omega⟩
  simp only [isWsNat, Bool.or_eq_false_iff, Bool.and_eq_false_iff, beq_eq_false_iff_ne, decide_eq_false_iff_not]
  omega

theorem hexDigitByte_val : ∀ (d : Fin 16) (u : Bool), hexDigitVal (hexDigitByte u d.val).toNat = some d.val := by
  decide

theorem hexDigitByte_code (u : Bool) (d : Nat) (h : d < 16) : IsHexCode (hexDigitByte u d).toNat := by
  have := hexDigitByte_val ⟨d, h⟩ u
  simp only at this
  simp [IsHexCode, this]

/-- value of a digit-code list read left to right -/
def hexFold (a : Nat) (ds : List Nat) : Nat := ds.foldl (fun a c => a * 16 + (hexDigitVal c).getD 0) a

theorem hexDigitsVal_codes : ∀ (ds : List Nat) (a : Nat) (ok : Bool), (∀ c ∈ ds, IsHexCode c) →
    (ds ≠ [] ∨ ok = true) → hexDigitsVal ds a ok = some (hexFold a ds) := by
  intro ds
  induction ds with
  | nil => intro a ok _ h; simp at h; simp [hexDigitsVal, hexFold, h]
  | cons c cs ih =>
    intro a ok hall _
    have hc := hall c (by simp)
    simp only [IsHexCode, Option.isSome_iff_exists] at hc
    obtain ⟨d, hd⟩ := hc
    simp only [hexDigitsVal, hd]
    rw [ih _ true (fun x hx => hall x (by simp [hx])) (Or.inr rfl)]
    simp [hexFold, hd]

theorem hexBody_codes (r : List Nat) (h : ∀ c ∈ r, IsHexCode c) : hexBody r = hexDigitsVal r 0 false := by
  unfold hexBody
  split
  · rename_i x rest
    have hx : IsHexCode x := h x (by simp)
    have : x < 256 ∨ 256 ≤ x := by omega
    have hne : (x == 120 || x == 88) = false := by
      rcases this with h1 | h1
      · have := hexCode_facts x h1 hx
        simp [this.2.2.2.2.2.2.1, this.2.2.2.2.2.2.2.1]
      · simp; omega
    rw [hne]; rfl
  · rfl

theorem hexFold_append (a : Nat) (x y : List Nat) : hexFold a (x ++ y) = hexFold (hexFold a x) y := by
  simp [hexFold, List.foldl_append]

theorem hexFold_zeros (k : Nat) : hexFold 0 (List.replicate k 48) = 0 := by
  induction k with
  | zero => rfl
  | succ k ih =>
    rw [List.replicate_succ]
    simp only [hexFold, List.foldl_cons] at ih ⊢
    have : (0 * 16 + (hexDigitVal 48).getD 0) = 0 := by decide
    rw [this]; exact ih

theorem hexSpellAux_acc (u : Bool) : ∀ (fuel n : Nat) (acc : Bytes),
    hexSpellAux u fuel n acc = hexSpellAux u fuel n [] ++ acc := by
  intro fuel
  induction fuel with
  | zero => intro n acc; simp [hexSpellAux]
  | succ f ih =>
    intro n acc
    simp only [hexSpellAux]
    split
    · simp
    · rw [ih (n / 16) (hexDigitByte u (n % 16) :: acc), ih (n / 16) [hexDigitByte u (n % 16)]]
      simp

/-- the digits of `n`: all hex codes, at least one, and they read back as `n` -/
theorem hexSpellAux_spec (u : Bool) : ∀ (fuel n : Nat), n < fuel →
    hexSpellAux u fuel n [] ≠ [] ∧ (∀ b ∈ hexSpellAux u fuel n [], IsHexCode b.toNat) ∧
    hexFold 0 ((hexSpellAux u fuel n []).map (·.toNat)) = n := by
  intro fuel
  induction fuel with
  | zero => intro n h; omega
  | succ f ih =>
    intro n hn
    simp only [hexSpellAux]
    split
    · rename_i h16
      refine ⟨by simp, ?_, ?_⟩
      · intro b hb; simp at hb; subst hb; exact hexDigitByte_code u n h16
      · have := hexDigitByte_val ⟨n, h16⟩ u
        simp only at this
        simp [hexFold, this]
    · rename_i h16
      have hlt : n / 16 < f := by omega
      obtain ⟨h1, h2, h3⟩ := ih (n / 16) hlt
      rw [hexSpellAux_acc]
      refine ⟨by simp, ?_, ?_⟩
      · intro b hb
        simp only [List.mem_append, List.mem_singleton] at hb
        rcases hb with hb | hb
        · exact h2 b hb
        · subst hb; exact hexDigitByte_code u _ (Nat.mod_lt _ (by omega))
      · rw [List.map_append, hexFold_append, h3]
        have := hexDigitByte_val ⟨n % 16, Nat.mod_lt _ (by omega)⟩ u
        simp only at this
        simp only [hexFold, List.map_cons, List.map_nil, List.foldl_cons, List.foldl_nil, this, Option.getD_some]
        omega

theorem hexSpell_codes (u : Bool) (zeros n : Nat) : ∀ b ∈ hexSpell u zeros n, IsHexCode b.toNat := by
  intro b hb
  simp only [hexSpell, List.mem_append, List.mem_replicate] at hb
  rcases hb with ⟨-, rfl⟩ | hb
  · unfold IsHexCode; decide
  · exact (hexSpellAux_spec u (n + 1) n (by omega)).2.1 b hb

theorem hexSpell_ne_nil (u : Bool) (zeros n : Nat) : hexSpell u zeros n ≠ [] := by
  have := (hexSpellAux_spec u (n + 1) n (by omega)).1
  simp [hexSpell, this]

/-- **`int(x, 16)` reads every canonical spelling back**: either case, any number of leading
zeros -/
theorem pyIntHex_hexSpell (u : Bool) (zeros n : Nat) : pyIntHex (hexSpell u zeros n) = some (n : Int) := by
  have hcodes := hexSpell_codes u zeros n
  have hfacts : ∀ b ∈ hexSpell u zeros n, _ := fun b hb =>
    hexCode_facts b.toNat (UInt8.toNat_lt b) (hcodes b hb)
  have hstrip : bstrip (hexSpell u zeros n) = hexSpell u zeros n :=
    stripBy_id _ _ (fun b hb => (hfacts b hb).2.2.2.1)
  have hval : hexDigitsVal ((hexSpell u zeros n).map (·.toNat)) 0 false = some n := by
    rw [hexDigitsVal_codes _ 0 false (by
      intro c hc
      simp only [List.mem_map] at hc
      obtain ⟨b, hb, rfl⟩ := hc
      exact hcodes b hb) (Or.inl (by simp [hexSpell_ne_nil]))]
    simp only [hexSpell, List.map_append, List.map_replicate, hexFold_append]
    have : (48 : UInt8).toNat = 48 := rfl
    rw [this, hexFold_zeros, (hexSpellAux_spec u (n + 1) n (by omega)).2.2]
  have hbody : hexBody ((hexSpell u zeros n).map (·.toNat)) = some n := by
    rw [hexBody_codes _ (by
      intro c hc
      simp only [List.mem_map] at hc
      obtain ⟨b, hb, rfl⟩ := hc
      exact hcodes b hb), hval]
  unfold pyIntHex
  rw [hstrip]
  cases hs : (hexSpell u zeros n).map (·.toNat) with
  | nil => rw [hs] at hbody; simp [hexBody, hexDigitsVal] at hbody
  | cons c cs =>
    have hmem : c ∈ (hexSpell u zeros n).map (·.toNat) := by rw [hs]; simp
    simp only [List.mem_map] at hmem
    obtain ⟨b, hb, rfl⟩ := hmem
    have hf := hfacts b hb
    rw [hs] at hbody
    split
    · rename_i heq; simp only [List.cons.injEq] at heq; exact absurd heq.1 hf.2.2.2.2.1
    · rename_i heq; simp only [List.cons.injEq] at heq; exact absurd heq.1 hf.2.2.2.2.2.1
    · simp [hbody]

/-- a canonical spelling with a legal extension is a legal size line -/
theorem legalLine_hexSpell (u : Bool) (zeros n : Nat) (ext : Bytes)
    (hext : ext = [] ∨ ∃ e, ext = SEM :: e ∧ ∀ b ∈ e, b ≠ LF) : LegalLine (hexSpell u zeros n) ext := by
  refine ⟨?_, hext⟩
  intro b hb
  have hf := hexCode_facts b.toNat (UInt8.toNat_lt b) (hexSpell_codes u zeros n b hb)
  refine ⟨?_, ?_, ?_⟩
  · intro h; subst h; exact hf.1 rfl
  · intro h; subst h; exact hf.2.1 rfl
  · intro h; subst h; exact hf.2.2.1 rfl

/-- every non-empty payload, sent with its length spelled canonically (either case, any leading
zeros) and a legal extension, is a legal chunk -/
theorem legalChunk_canonical (payload : Bytes) (u : Bool) (zeros : Nat) (ext : Bytes) (hp : payload ≠ [])
    (hext : ext = [] ∨ ∃ e, ext = SEM :: e ∧ ∀ b ∈ e, b ≠ LF) :
    LegalChunk { payload := payload, spelling := hexSpell u zeros payload.length, ext := ext } :=
  ⟨legalLine_hexSpell u zeros _ ext hext, pyIntHex_hexSpell u zeros _, hp⟩

end Ombott.Chunked
