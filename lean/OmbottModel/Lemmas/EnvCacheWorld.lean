import OmbottModel.Lemmas.EnvCacheStep
/-!
One operation of a handler on a request and its copies: the cached machine and the reference
machine stay in step.
-/
namespace Ombott.EnvCache
open Py Ombott.Body Ombott.Forms Ombott.BodyAccess

variable (cfg : Cfg) (L : Lib)

/-- every request of the world is coherent -/
def InvW (w : World) : Prop := ∀ e ∈ w.envs, Inv cfg L e

theorem headerName_cache (k : Key) (h : isCacheKey k = true) : headerName k = none := by
  simp only [isCacheKey, Bool.and_eq_true] at h
  have hp : cs!"ombott.request.".isPrefixOf k = true := h.1.1
  unfold headerName
  have h1 : cs!"HTTP_".isPrefixOf k = false := by
    cases k with
    | nil => simp at hp
    | cons c r =>
      have : c = 'o' := by
        simp only [List.isPrefixOf, Bool.and_eq_true, beq_iff_eq] at hp
        exact hp.1.symm
      subst this
      simp [List.isPrefixOf]
  have h2 : k ≠ cs!"CONTENT_TYPE" := by intro hk; subst hk; revert hp; decide
  have h3 : k ≠ cs!"CONTENT_LENGTH" := by intro hk; subst hk; revert hp; decide
  simp [h1, h2, h3]

theorem headerItems_erase (e : Env) : headerItems (erase e) = headerItems e := by
  induction e with
  | nil => rfl
  | cons p r ih =>
    obtain ⟨k, v⟩ := p
    by_cases hc : isCacheKey k = true
    · have : erase ((k, v) :: r) = erase r := by simp [erase, List.filter, hc]
      rw [this, ih]
      simp [headerItems, List.filterMap_cons, headerName_cache k hc]
    · have hc' : isCacheKey k = false := by simpa using hc
      have : erase ((k, v) :: r) = (k, v) :: erase r := by simp [erase, List.filter, hc']
      rw [this]
      simp only [headerItems, List.filterMap_cons] at ih ⊢
      rw [ih]

theorem observe_erase (w : World) (v : Val) : observe (eraseW w) v = observe w v := by
  cases v <;> simp only [observe]
  case view j =>
    have : (eraseW w).envs.getD j [] = erase (w.envs.getD j []) := by
      simp only [eraseW, List.getD_eq_getElem?_getD, List.getElem?_map]
      cases w.envs[j]? <;> rfl
    rw [this, headerItems_erase]

theorem eraseW_set (w : World) (i : Nat) (e : Env) (h : Heap) :
    eraseW { heap := h, envs := w.envs.set i e } = { heap := h, envs := (eraseW w).envs.set i (erase e) } := by
  simp [eraseW, List.map_set]

theorem InvW.set {w : World} (hW : InvW cfg L w) (i : Nat) (e : Env) (h : Heap) (he : Inv cfg L e) :
    InvW cfg L { heap := h, envs := w.envs.set i e } := by
  intro x hx
  rcases List.mem_or_eq_of_mem_set hx with h1 | h1
  · exact hW x h1
  · exact h1 ▸ he

theorem kInput_user : userKey kInput = true := by decide

/-- **one step**: inside the scope, the cached machine answers what the reference answers, and the
two worlds stay related -/
theorem step_sim (w : World) (op : Op) (hW : InvW cfg L w) (hs : safeOp w op = true) :
    (step cfg L w op).2 = (specStep cfg L (eraseW w) op).2 ∧
    eraseW (step cfg L w op).1 = (specStep cfg L (eraseW w) op).1 ∧
    InvW cfg L (step cfg L w op).1 := by
  have hget : ∀ i : Nat, (eraseW w).envs[i]? = (w.envs[i]?).map erase := by
    intro i; simp [eraseW, List.getElem?_map]
  cases op with
  | read i p =>
    simp only [step, specStep, hget]
    cases he : w.envs[i]? with
    | none => exact ⟨rfl, rfl, hW⟩
    | some e =>
      have hI : Inv cfg L e := hW e (List.mem_of_getElem? he)
      have hsafe : safeRead p ⟨w.heap, e, i⟩ := by
        intro hp
        subst hp
        simpa [safeOp, he] using hs
      obtain ⟨s1, s2, s3⟩ := sim_read cfg L p ⟨w.heap, e, i⟩ hI hsafe
      simp only [Option.map_some]
      have hA : (⟨(eraseW w).heap, erase e, i⟩ : RS) = A ⟨w.heap, e, i⟩ := rfl
      rw [hA]
      rcases hm : readProp cfg L p ⟨w.heap, e, i⟩ with ⟨r, s'⟩
      rcases hsp : specRead cfg L p (A ⟨w.heap, e, i⟩) with ⟨r', t'⟩
      rw [hm, hsp] at s1 s2
      rw [hm] at s3
      simp only at s1 s2 s3 ⊢
      subst s1
      subst s2
      refine ⟨?_, ?_, hW.set cfg L i _ _ s3⟩
      · have : ({ heap := (A s').heap, envs := (eraseW w).envs.set i (A s').env } : World) =
            eraseW { heap := s'.heap, envs := w.envs.set i s'.env } := (eraseW_set w i s'.env s'.heap).symm
        rw [this]
        congr 1
        cases r with
        | error x => rfl
        | ok v => simp [Except.map, observe_erase]
      · exact eraseW_set w i s'.env s'.heap
  | setStr i k v =>
    simp only [step, specStep, hget]
    cases he : w.envs[i]? with
    | none => exact ⟨rfl, rfl, hW⟩
    | some e =>
      have hI : Inv cfg L e := hW e (List.mem_of_getElem? he)
      simp only [safeOp, he, Bool.and_eq_true, Bool.not_eq_true', beq_eq_false_iff_ne] at hs
      obtain ⟨⟨hu, -⟩, hss⟩ := hs
      simp only [Option.map_some, World.setEnv]
      refine ⟨trivial, ?_, hW.set cfg L i _ _ (hI.afterSet k _ hu hss)⟩
      rw [eraseW_set, erase_setItem _ _ _ (userKey_plain k hu)]
      rfl
  | setInput i r =>
    simp only [step, specStep, hget]
    cases he : w.envs[i]? with
    | none => exact ⟨rfl, rfl, hW⟩
    | some e =>
      have hI : Inv cfg L e := hW e (List.mem_of_getElem? he)
      simp only [safeOp, he] at hs
      simp only [Option.map_some]
      refine ⟨trivial, ?_, hW.set cfg L i _ _ (hI.afterSet kInput _ kInput_user hs)⟩
      rw [eraseW_set, erase_setItem _ _ _ (userKey_plain kInput kInput_user)]
      rfl
  | del i k =>
    simp only [step, specStep, hget]
    cases he : w.envs[i]? with
    | none => exact ⟨rfl, rfl, hW⟩
    | some e =>
      have hI : Inv cfg L e := hW e (List.mem_of_getElem? he)
      simp only [safeOp, he, Bool.and_eq_true] at hs
      obtain ⟨hu, hss⟩ := hs
      simp only [Option.map_some, World.setEnv]
      refine ⟨trivial, ?_, hW.set cfg L i _ _ (hI.afterDel k hu hss)⟩
      rw [eraseW_set, erase_delItem _ _ (userKey_plain k hu)]
      rfl
  | copy i =>
    simp only [step, specStep, hget]
    cases he : w.envs[i]? with
    | none => exact ⟨rfl, rfl, hW⟩
    | some e =>
      have hI : Inv cfg L e := hW e (List.mem_of_getElem? he)
      simp only [Option.map_some]
      refine ⟨trivial, by simp [eraseW, copyEnv], ?_⟩
      intro x hx
      simp only [List.mem_append, List.mem_singleton] at hx
      rcases hx with h | h
      · exact hW x h
      · exact h ▸ hI

/-- the whole sequence -/
theorem run_eq_spec (ops : List Op) (w : World) (hW : InvW cfg L w) (hs : Safe cfg L w ops) :
    run cfg L w ops = specRunFrom cfg L (eraseW w) ops := by
  induction ops generalizing w with
  | nil => rfl
  | cons op ops ih =>
    obtain ⟨h1, h2⟩ := hs
    obtain ⟨a1, a2, a3⟩ := step_sim cfg L w op hW h1
    simp only [run, specRunFrom]
    rcases hst : step cfg L w op with ⟨w', o⟩
    rcases hsp : specStep cfg L (eraseW w) op with ⟨t', o'⟩
    rw [hst, hsp] at a1 a2
    rw [hst] at a3 h2
    simp only at a1 a2 a3 h2
    subst a1
    subst a2
    cases o with
    | none => exact ih w' a3 h2
    | some r => simp only; rw [ih w' a3 h2]

/-- a world without cache entries is coherent -/
theorem Inv.ofFresh (e : Env) (h : ∀ p : Prop', e.get? p.key = none) : Inv cfg L e := by
  refine ⟨?_, ?_, ⟨h .app, h .route, h .urlArgs⟩⟩
  · intro p v hv; rw [h p] at hv; cases hv
  · intro hp; exact absurd (h .post) hp

end Ombott.EnvCache
