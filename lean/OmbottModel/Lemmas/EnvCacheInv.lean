import OmbottModel.Lemmas.EnvCacheEnv
/-!
The coherence invariant of the cache layer and the simulation framework: a getter of
`Model/EnvCache.lean` run on a coherent state `s` answers what the reference (`specRead`) answers
on the erased state `A s`, leaves a state whose erasure is the reference's final state, and
keeps the invariant.
-/
namespace Ombott.EnvCache
open Py Ombott.Body Ombott.Forms Ombott.BodyAccess

/-- the state as a brand-new request would have it -/
def A (s : RS) : RS := { s with env := erase s.env }

@[simp] theorem A_heap (s : RS) : (A s).heap = s.heap := rfl
@[simp] theorem A_self (s : RS) : (A s).self = s.self := rfl
@[simp] theorem A_env (s : RS) : (A s).env = erase s.env := rfl

/-- the cached value `v` of property `p` is what the reference computes from environ `e` -/
def CachedOK (cfg : Cfg) (L : Lib) (p : Prop') (e : Env) (v : Val) : Prop :=
  match desc cfg L p with
  | .pure _ f => f e = .ok v
  | .viaBody _ need k0 k =>
    if need e then ∃ sk ct, e.get? kBody = some (.body sk ct) ∧ k e sk ct = .ok v else k0 e = .ok v
  | .special => True

structure Inv (cfg : Cfg) (L : Lib) (e : Env) : Prop where
  cached : ∀ p v, e.get? p.key = some v → CachedOK cfg L p e v
  postCons : e.get? kPost ≠ none → e.get? kForms ≠ none ∧ e.get? kFiles ≠ none
  noExt : e.get? kApp = none ∧ e.get? kRoute = none ∧ e.get? kUrlArgs = none

/-! ### keys -/

theorem key_injective : ∀ p q : Prop', p.key = q.key → p = q := by
  intro p q; cases p <;> cases q <;> simp [Prop'.key] <;> decide

def bodyKeys : List Key := [kInput, kBody, kBodyError]

theorem isCacheKey_key (p : Prop') (h1 : p ≠ .body) (h2 : p ≠ .app) (h3 : p ≠ .route) (h4 : p ≠ .urlArgs) :
    isCacheKey p.key = true := by
  cases p <;> first | (exact absurd rfl ‹_›) | decide

/-! ### well-formed descriptions -/

/-- the components of a description look only at the WSGI strings it lists, none of which is a
cache entry or part of the body state -/
def DescOK (d : SpecDesc) : Prop :=
  match d with
  | .pure reads f => ReadsOnly reads f ∧ (∀ k ∈ reads, isCacheKey k = false ∧ k ∉ bodyKeys)
  | .viaBody reads need k0 k =>
    ReadsOnly reads need ∧ ReadsOnly reads k0 ∧ (∀ sk ct, ReadsOnly reads fun e => k e sk ct) ∧
    (∀ k ∈ reads, isCacheKey k = false ∧ k ∉ bodyKeys)
  | .special => True

/-! ### simulation -/

/-- getter `m` on state `s` against reference `S` on the erased state -/
def Sim (cfg : Cfg) (L : Lib) {α} (m S : M α) (s : RS) : Prop :=
  (m s).1 = (S (A s)).1 ∧ A (m s).2 = (S (A s)).2 ∧ Inv cfg L (m s).2.env

theorem Sim.bind {cfg : Cfg} {L : Lib} {α β} {m S : M α} {f T : α → M β} {s : RS}
    (h : Sim cfg L m S s) (hf : ∀ a s1, m s = (.ok a, s1) → Sim cfg L (f a) (T a) s1) :
    Sim cfg L (M.bind m f) (M.bind S T) s := by
  obtain ⟨h1, h2, h3⟩ := h
  rcases hm : m s with ⟨r, s1⟩
  rcases hS : S (A s) with ⟨r', t⟩
  rw [hm, hS] at h1 h2
  simp only at h1 h2
  subst h1
  rw [hm] at h3
  cases r with
  | error e =>
    refine ⟨?_, ?_, ?_⟩ <;> simp only [M.bind, hm, hS]
    · exact h2
    · exact h3
  | ok a =>
    have := hf a s1 hm
    unfold Sim at this
    rw [h2] at this
    simp only [Sim, M.bind, hm, hS]
    exact this

theorem Sim.ret {cfg : Cfg} {L : Lib} {α} (a : α) (s : RS) (h : Inv cfg L s.env) :
    Sim cfg L (M.ret a) (M.ret a) s := ⟨rfl, rfl, h⟩

theorem Sim.liftE {cfg : Cfg} {L : Lib} {α} (r : Except Exc α) (s : RS) (h : Inv cfg L s.env) :
    Sim cfg L (liftE r) (liftE r) s := ⟨rfl, rfl, h⟩

theorem Sim.fail {cfg : Cfg} {L : Lib} {α} (x : Exc) (s : RS) (h : Inv cfg L s.env) :
    Sim cfg L (M.fail x : M α) (M.fail x) s := ⟨rfl, rfl, h⟩

/-- reading the WSGI strings -/
theorem Sim.reads {cfg : Cfg} {L : Lib} {α} {ks : List Key} {f : Env → Except Exc α} (hf : ReadsOnly ks f)
    (hk : ∀ k ∈ ks, isCacheKey k = false) (s : RS) (h : Inv cfg L s.env) :
    Sim cfg L (fun s => (f s.env, s)) (fun s => (f s.env, s)) s :=
  ⟨by simp [hf.erase hk], rfl, h⟩

theorem Sim.inv {cfg : Cfg} {L : Lib} {α} {m S : M α} {s : RS} (h : Sim cfg L m S s) : Inv cfg L (m s).2.env := h.2.2

end Ombott.EnvCache
