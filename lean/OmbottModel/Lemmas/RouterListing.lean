import OmbottModel.Model.RouterListing
import OmbottModel.Lemmas.RouterEditInv
/-!
C11 (listing), helper lemmas (1): the explicit-stack loop of `RadiDict._routes_iter`
(`iterLoop`) yields exactly the depth-first, children-first walk of the tree (`walkN`); what a
consumer reads off the yielded paths (`listedOf`) is `listPostN`, whose routes are `denPostN`,
a permutation of `denote`.
-/
namespace Ombott.Router
open Py

/-! ### the walk the loop performs -/

mutual
/-- the node paths of a subtree, children first; `anc` = the path from the root down to (not
including) the node -/
def walkN (yh : Bool) (anc : List PathEl) (b : Bool) : Node → List (List PathEl)
  | .mk k d pk f h lits tok =>
    walkL yh (anc ++ [(b, .mk k d pk f h lits tok)]) lits ++
      walkT yh (anc ++ [(b, .mk k d pk f h lits tok)]) tok ++
      (if wantsYield yh (.mk k d pk f h lits tok) then [anc ++ [(b, .mk k d pk f h lits tok)]] else [])
def walkT (yh : Bool) (anc : List PathEl) : Option Node → List (List PathEl)
  | none => []
  | some t => walkN yh anc true t
def walkL (yh : Bool) (anc : List PathEl) : List Node → List (List PathEl)
  | [] => []
  | k :: ks => walkN yh anc false k ++ walkL yh anc ks
end

theorem framesPath_cons (b : Bool) (n : Node) (i : Nat) (rest : List Frame) :
    framesPath ((b, n, i) :: rest) = framesPath rest ++ [(b, n)] := by
  simp [framesPath]

theorem iterLoop_nil (yh : Bool) (pre : List PathEl) (fuel : Nat) : iterLoop yh pre fuel [] = [] := by
  cases fuel <;> rfl

theorem children_lits_get (k : Str) (d : Option Nat) (pk : List Str) (f : Option Fid) (h : Option HookPair)
    (tok : Option Node) (done : List Node) (x : Node) (ks : List Node) :
    (Node.mk k d pk f h (done ++ x :: ks) tok).children[done.length]? = some (false, x) := by
  cases tok with
  | none =>
    simp only [Node.children, List.map_append, List.map_cons]
    rw [List.getElem?_append_right (by simp)]
    simp
  | some t =>
    simp only [Node.children, List.map_append, List.map_cons, List.append_assoc]
    rw [List.getElem?_append_right (by simp)]
    simp

theorem children_tok_get (k : Str) (d : Option Nat) (pk : List Str) (f : Option Fid) (h : Option HookPair)
    (lits : List Node) (t : Node) :
    (Node.mk k d pk f h lits (some t)).children[lits.length]? = some (true, t) := by
  simp only [Node.children]
  rw [List.getElem?_append_right (by simp)]
  simp

theorem children_end_none (k : Str) (d : Option Nat) (pk : List Str) (f : Option Fid) (h : Option HookPair)
    (lits : List Node) : (Node.mk k d pk f h lits none).children[lits.length]? = none := by
  simp [Node.children]

theorem children_end_some (k : Str) (d : Option Nat) (pk : List Str) (f : Option Fid) (h : Option HookPair)
    (lits : List Node) (t : Node) : (Node.mk k d pk f h lits (some t)).children[lits.length + 1]? = none := by
  simp [Node.children]

/-- one round of the loop when the frame still has a child to visit -/
theorem iterLoop_push (yh : Bool) (pre : List PathEl) (fuel : Nat) (b : Bool) (n : Node) (i : Nat)
    (rest : List Frame) (c : PathEl) (hc : n.children[i]? = some c) :
    iterLoop yh pre (fuel + 1) ((b, n, i) :: rest) =
      iterLoop yh pre fuel ((c.1, c.2, 0) :: (b, n, i + 1) :: rest) := by
  simp only [iterLoop, hc]

/-- one round of the loop when the frame is exhausted -/
theorem iterLoop_pop (yh : Bool) (pre : List PathEl) (fuel : Nat) (b : Bool) (n : Node) (i : Nat)
    (rest : List Frame) (hc : n.children[i]? = none) :
    iterLoop yh pre (fuel + 1) ((b, n, i) :: rest) =
      (if wantsYield yh n then [pre ++ (framesPath rest ++ [(b, n)])] else []) ++ iterLoop yh pre fuel rest := by
  simp only [iterLoop, hc, framesPath_cons]
  split <;> simp

mutual
/-- the loop started on a fresh frame walks the subtree and goes on with the rest of the stack -/
theorem iterLoop_N (yh : Bool) (pre : List PathEl) (n : Node) (b : Bool) (rest : List Frame) (extra : Nat) :
    iterLoop yh pre (roundsN n + extra) ((b, n, 0) :: rest) =
      walkN yh (pre ++ framesPath rest) b n ++ iterLoop yh pre extra rest := by
  match n with
  | .mk k d pk f h lits tok =>
    have hL := iterLoop_L yh pre lits k d pk f h tok [] b rest (roundsT tok + 1 + extra)
    simp only [List.nil_append, List.length_nil] at hL
    have hfuel : roundsN (.mk k d pk f h lits tok) + extra = roundsL lits + (roundsT tok + 1 + extra) := by
      simp only [roundsN]; omega
    rw [hfuel, hL, walkN, iterLoop_T yh pre tok k d pk f h lits b rest extra]
    simp only [List.append_assoc]
theorem iterLoop_T (yh : Bool) (pre : List PathEl) (tok : Option Node) (k : Str) (d : Option Nat)
    (pk : List Str) (f : Option Fid) (h : Option HookPair) (lits : List Node) (b : Bool)
    (rest : List Frame) (extra : Nat) :
    iterLoop yh pre (roundsT tok + 1 + extra) ((b, .mk k d pk f h lits tok, lits.length) :: rest) =
      walkT yh (pre ++ framesPath rest ++ [(b, .mk k d pk f h lits tok)]) tok ++
        ((if wantsYield yh (.mk k d pk f h lits tok) then
            [pre ++ framesPath rest ++ [(b, .mk k d pk f h lits tok)]] else []) ++
          iterLoop yh pre extra rest) := by
  match tok with
  | none =>
    have hfuel : roundsT none + 1 + extra = extra + 1 := by simp only [roundsT]; omega
    rw [hfuel, iterLoop_pop yh pre extra b _ _ rest (children_end_none k d pk f h lits)]
    simp only [walkT, List.nil_append, List.append_assoc]
  | some t =>
    have hfuel : roundsT (some t) + 1 + extra = (roundsN t + (extra + 1)) + 1 := by
      simp only [roundsT]; omega
    rw [hfuel, iterLoop_push yh pre _ b _ _ rest (true, t) (children_tok_get k d pk f h lits t)]
    rw [iterLoop_N yh pre t true ((b, .mk k d pk f h lits (some t), lits.length + 1) :: rest) (extra + 1)]
    rw [iterLoop_pop yh pre extra b _ _ rest (children_end_some k d pk f h lits t)]
    simp only [walkT, framesPath_cons, List.append_assoc]
theorem iterLoop_L (yh : Bool) (pre : List PathEl) (ks : List Node) (k : Str) (d : Option Nat)
    (pk : List Str) (f : Option Fid) (h : Option HookPair) (tok : Option Node) (done : List Node)
    (b : Bool) (rest : List Frame) (extra : Nat) :
    iterLoop yh pre (roundsL ks + extra) ((b, .mk k d pk f h (done ++ ks) tok, done.length) :: rest) =
      walkL yh (pre ++ framesPath rest ++ [(b, .mk k d pk f h (done ++ ks) tok)]) ks ++
        iterLoop yh pre extra ((b, .mk k d pk f h (done ++ ks) tok, (done ++ ks).length) :: rest) := by
  match ks with
  | [] =>
    simp only [roundsL, Nat.zero_add, walkL, List.nil_append, List.append_nil]
  | x :: xs =>
    have hfuel : roundsL (x :: xs) + extra = (roundsN x + (roundsL xs + extra)) + 1 := by
      simp only [roundsL]; omega
    rw [hfuel, iterLoop_push yh pre _ b _ _ rest (false, x) (children_lits_get k d pk f h tok done x xs)]
    rw [iterLoop_N yh pre x false ((b, .mk k d pk f h (done ++ x :: xs) tok, done.length + 1) :: rest)
      (roundsL xs + extra)]
    have hL := iterLoop_L yh pre xs k d pk f h tok (done ++ [x]) b rest extra
    simp only [List.append_assoc, List.singleton_append, List.length_append, List.length_cons,
      List.length_nil, Nat.zero_add] at hL
    rw [hL]
    simp only [walkL, framesPath_cons, List.append_assoc, List.length_append, List.length_cons]
end

/-- **the loop is the walk**: `roundsN` rounds empty the stack, and what was yielded on the way is
the children-first walk of the start node, each path prefixed by `prefix_stack` -/
theorem iterFrom_eq_walk (yh : Bool) (pre : List PathEl) (b : Bool) (n : Node) :
    iterFrom yh pre (b, n) = walkN yh pre b n := by
  have := iterLoop_N yh pre n b [] 0
  simp only [Nat.add_zero, framesPath, List.map_nil, List.reverse_nil, List.append_nil, iterLoop_nil] at this
  exact this

/-! ### what is read off the walk -/

theorem pathSyms_append (a b : List PathEl) : pathSyms (a ++ b) = pathSyms a ++ pathSyms b := by
  induction a with
  | nil => rfl
  | cons x xs ih =>
    obtain ⟨fl, n⟩ := x
    cases fl <;> simp [pathSyms, ih]

theorem Listed.under_under (a b : List Sym) (l : Listed) : (l.under a).under b = l.under (b ++ a) := by
  cases l; simp [Listed.under]

theorem Listed.map_under_under (a b : List Sym) (l : List Listed) :
    (l.map (Listed.under a)).map (Listed.under b) = l.map (Listed.under (b ++ a)) := by
  simp [List.map_map, Function.comp_def, Listed.under_under]

theorem listedOf_snoc (anc : List PathEl) (b : Bool) (n : Node) :
    listedOf (anc ++ [(b, n)]) = ⟨pathSyms (anc ++ [(b, n)]).tail, n.data, n.params, n.hooks⟩ := by
  simp [listedOf]

mutual
theorem walkN_listed (yh : Bool) (anc : List PathEl) (b : Bool) (n : Node) :
    (walkN yh anc b n).map listedOf =
      (listPostN yh n).map (Listed.under (pathSyms (anc ++ [(b, n)]).tail)) := by
  match n with
  | .mk k d pk f h lits tok =>
    simp only [walkN, listPostN, List.map_append]
    rw [walkL_listed yh (anc ++ [(b, Node.mk k d pk f h lits tok)]) (by simp) lits,
      walkT_listed yh (anc ++ [(b, Node.mk k d pk f h lits tok)]) (by simp) tok]
    congr 1
    simp only [wantsYield, Node.data, Node.hooks, ownListed]
    by_cases hw : (d.isSome || yh && h.isSome) = true
    · simp only [hw, if_true, List.map_cons, List.map_nil, listedOf_snoc, Listed.under, Node.data,
        Node.params, Node.hooks, List.append_nil]
    · simp [hw]
theorem walkT_listed (yh : Bool) (me : List PathEl) (hme : me ≠ []) (tok : Option Node) :
    (walkT yh me tok).map listedOf = (listPostT yh tok).map (Listed.under (pathSyms me.tail)) := by
  match tok with
  | none => rfl
  | some t =>
    simp only [walkT, listPostT]
    rw [walkN_listed yh me true t, Listed.map_under_under, List.tail_append_of_ne_nil hme, pathSyms_append]
    simp [pathSyms]
theorem walkL_listed (yh : Bool) (me : List PathEl) (hme : me ≠ []) (ks : List Node) :
    (walkL yh me ks).map listedOf = (listPostL yh ks).map (Listed.under (pathSyms me.tail)) := by
  match ks with
  | [] => rfl
  | x :: xs =>
    simp only [walkL, listPostL, List.map_append]
    rw [walkN_listed yh me false x, walkL_listed yh me hme xs, Listed.map_under_under,
      List.tail_append_of_ne_nil hme, pathSyms_append]
    simp [pathSyms]
end

theorem Listed.under_nil (l : Listed) : l.under [] = l := by cases l; rfl

/-- **what `_routes_iter()` lists**: read off the yielded paths, the children-first listing of the tree -/
theorem routesIter_listed (yh : Bool) (t : Node) :
    (routesIter t [] yh).map listedOf = listPostN yh t := by
  simp only [routesIter, iterFrom_eq_walk]
  rw [walkN_listed]
  simp only [List.nil_append, List.tail_cons, pathSyms]
  induction listPostN yh t with
  | nil => rfl
  | cons x xs ih => simp [Listed.under_nil, ih]

/-! ### the routes among the listed entries -/

theorem rule?_under (pre : List Sym) (l : Listed) : (l.under pre).rule? = l.rule?.map (Rule.under pre) := by
  cases l with
  | mk p d k h => cases d <;> rfl

theorem filterMap_rule?_under (pre : List Sym) (l : List Listed) :
    (l.map (Listed.under pre)).filterMap Listed.rule? = (l.filterMap Listed.rule?).map (Rule.under pre) := by
  induction l with
  | nil => rfl
  | cons x xs ih =>
    simp only [List.map_cons, List.filterMap_cons, rule?_under]
    cases x.rule? <;> simp [ih]

theorem ownListed_rules (yh : Bool) (d : Option Nat) (pk : List Str) (h : Option HookPair) :
    (ownListed yh d pk h).filterMap Listed.rule? = ownRule d pk := by
  cases d with
  | none =>
    simp only [ownListed, Option.isSome_none, Bool.false_or, ownRule]
    split <;> simp [Listed.rule?]
  | some v => simp [ownListed, ownRule, Listed.rule?]

mutual
theorem listPostN_rules (yh : Bool) (n : Node) : (listPostN yh n).filterMap Listed.rule? = denPostN n := by
  match n with
  | .mk k d pk f h lits tok =>
    simp only [listPostN, denPostN, List.filterMap_append, listPostL_rules yh lits, listPostT_rules yh tok,
      ownListed_rules]
theorem listPostT_rules (yh : Bool) (tok : Option Node) : (listPostT yh tok).filterMap Listed.rule? = denPostT tok := by
  match tok with
  | none => rfl
  | some t => simp only [listPostT, denPostT, filterMap_rule?_under, listPostN_rules yh t]
theorem listPostL_rules (yh : Bool) (ks : List Node) : (listPostL yh ks).filterMap Listed.rule? = denPostL ks := by
  match ks with
  | [] => rfl
  | x :: xs =>
    simp only [listPostL, denPostL, List.filterMap_append, filterMap_rule?_under, listPostN_rules yh x,
      listPostL_rules yh xs]
end

mutual
/-- without `yield_hooks` every listed entry holds a route -/
theorem listPostN_data (n : Node) : ∀ l ∈ listPostN false n, l.data.isSome = true := by
  match n with
  | .mk k d pk f h lits tok =>
    intro l hl
    simp only [listPostN, List.mem_append] at hl
    rcases hl with (hl | hl) | hl
    · exact listPostL_data lits l hl
    · exact listPostT_data tok l hl
    · simp only [ownListed, Bool.false_and, Bool.or_false] at hl
      split at hl
      · simp only [List.mem_singleton] at hl; subst hl; assumption
      · cases hl
theorem listPostT_data (tok : Option Node) : ∀ l ∈ listPostT false tok, l.data.isSome = true := by
  match tok with
  | none => intro l hl; cases hl
  | some t =>
    intro l hl
    simp only [listPostT, List.mem_map] at hl
    obtain ⟨x, hx, rfl⟩ := hl
    exact listPostN_data t x hx
theorem listPostL_data (ks : List Node) : ∀ l ∈ listPostL false ks, l.data.isSome = true := by
  match ks with
  | [] => intro l hl; cases hl
  | x :: xs =>
    intro l hl
    simp only [listPostL, List.mem_append, List.mem_map] at hl
    rcases hl with ⟨y, hy, rfl⟩ | hl
    · exact listPostN_data x y hy
    · exact listPostL_data xs l hl
end

theorem map_rule?_of_data (l : List Listed) (h : ∀ x ∈ l, x.data.isSome = true) :
    l.map Listed.rule? = (l.filterMap Listed.rule?).map some := by
  induction l with
  | nil => rfl
  | cons x xs ih =>
    have hx := h x (by simp)
    obtain ⟨p, d, k, hk⟩ := x
    cases d with
    | none => simp at hx
    | some v =>
      simp only [List.map_cons, List.filterMap_cons, Listed.rule?, Option.map_some]
      rw [ih (fun y hy => h y (by simp [hy]))]

/-! ### children-first order is a rearrangement of `denote` -/

mutual
theorem denPostN_perm (n : Node) : (denPostN n).Perm (denN n) := by
  match n with
  | .mk k d pk f h lits tok =>
    simp only [denPostN, denN]
    have h1 := (denPostL_perm lits).append (denPostT_perm tok)
    have h2 : (denPostL lits ++ denPostT tok ++ ownRule d pk).Perm (ownRule d pk ++ (denPostL lits ++ denPostT tok)) :=
      List.perm_append_comm
    rw [List.append_assoc (ownRule d pk)]
    exact h2.trans (List.Perm.append_left _ h1)
theorem denPostT_perm (tok : Option Node) : (denPostT tok).Perm (denT tok) := by
  match tok with
  | none => exact List.Perm.refl _
  | some t => simp only [denPostT, denT]; exact (denPostN_perm t).map _
theorem denPostL_perm (ks : List Node) : (denPostL ks).Perm (denL ks) := by
  match ks with
  | [] => exact List.Perm.refl _
  | x :: xs => simp only [denPostL, denL]; exact ((denPostN_perm x).map _).append (denPostL_perm xs)
end

/-! ### a well-formed tree holds every pattern once -/

theorem nodup_map_under {l : List Rule} (h : (l.map (·.pat)).Nodup) (pre : List Sym) :
    ((l.map (Rule.under pre)).map (·.pat)).Nodup := by
  rw [List.map_map]
  have : ((fun r : Rule => r.pat) ∘ Rule.under pre) = (fun q => pre ++ q) ∘ (fun r : Rule => r.pat) := by
    funext r; rfl
  rw [this, ← List.map_map]
  exact List.Pairwise.map _ (fun a b hab hq => hab (List.append_cancel_left hq)) h

mutual
theorem denN_pats_nodup (n : Node) (h : WFN n) : ((denN n).map (·.pat)).Nodup := by
  match n with
  | .mk k d pk f hk lits tok =>
    unfold WFN at h
    obtain ⟨hl, ht⟩ := h
    simp only [denN, List.map_append, List.append_assoc]
    rw [List.nodup_append]
    refine ⟨?_, ?_, ?_⟩
    · cases d <;> simp [ownRule]
    · rw [List.nodup_append]
      refine ⟨denL_pats_nodup lits hl, denT_pats_nodup tok ht, ?_⟩
      intro a ha b hb hab
      simp only [List.mem_map] at ha hb
      obtain ⟨e, he, rfl⟩ := ha
      obtain ⟨e', he', rfl⟩ := hb
      obtain ⟨_, _, c, q, _, hq⟩ := mem_denL_shape hl he
      obtain ⟨g, q', hq'⟩ := mem_denT_shape he'
      rw [hq, hq'] at hab
      cases hab
    · intro a ha b hb hab
      simp only [List.mem_map] at ha
      obtain ⟨e, he, rfl⟩ := ha
      rw [ownRule_pat e he] at hab
      simp only [List.mem_append, List.mem_map] at hb
      rcases hb with ⟨e', he', rfl⟩ | ⟨e', he', rfl⟩
      · exact denL_pat_ne_nil hl e' he' hab.symm
      · exact denT_pat_ne_nil e' he' hab.symm
theorem denT_pats_nodup (t : Option Node) (h : WFT t) : ((denT t).map (·.pat)).Nodup := by
  match t with
  | none => simp [denT]
  | some t =>
    unfold WFT at h
    simp only [denT]
    exact nodup_map_under (denN_pats_nodup t h) _
theorem denL_pats_nodup (ks : List Node) (h : WFL ks) : ((denL ks).map (·.pat)).Nodup := by
  match ks with
  | [] => simp [denL]
  | k :: ks =>
    have h' := h
    unfold WFL at h
    obtain ⟨hne, hk, hks, hdist⟩ := h
    simp only [denL, List.map_append]
    rw [List.nodup_append]
    refine ⟨nodup_map_under (denN_pats_nodup k hk) _, denL_pats_nodup ks hks, ?_⟩
    intro a ha b hb hab
    simp only [List.mem_map] at ha hb
    obtain ⟨e, ⟨a0, ha0, rfl⟩, rfl⟩ := ha
    obtain ⟨e', he', rfl⟩ := hb
    obtain ⟨k', hk', c', q', hc', hq'⟩ := mem_denL_shape hks he'
    cases hkk : k.key with
    | nil => exact hne hkk
    | cons c cs =>
      rw [hq'] at hab
      simp only [Rule.under, litSyms, hkk, List.map_cons, List.cons_append, List.cons.injEq, Sym.lit.injEq] at hab
      exact hdist k' hk' (by rw [hc', hkk]; simp [hab.1])
end

end Ombott.Router
