import OmbottModel.Lemmas.RouterEditInv
import OmbottModel.Lemmas.RouterEditHooks
import OmbottModel.Lemmas.RouterPrio
/-!
C11, helper lemmas (6): from the invariant to the observable answers — an injective numbering of
hook pairs, tree hook lookup = `hooks` index on specified patterns, the full answer of `resolve`.
-/
namespace Ombott.Router
open Py

/-! ### an injective numbering of hook pairs -/

def encOpt : Option Nat → Nat
  | none => 0
  | some n => n + 1

def encPair (hp : HookPair) : Nat := 2 ^ encOpt hp.simple * (2 * encOpt hp.partialHook + 1)

theorem pairN_inj : ∀ (a a' b b' : Nat), 2 ^ a * (2 * b + 1) = 2 ^ a' * (2 * b' + 1) → a = a' ∧ b = b'
  | 0, 0, b, b', h => by simp at h; omega
  | 0, k + 1, b, b', h => by
    exfalso
    have e : 2 ^ (k + 1) * (2 * b' + 1) = 2 * (2 ^ k * (2 * b' + 1)) := by
      rw [Nat.pow_succ, Nat.mul_comm (2 ^ k) 2, Nat.mul_assoc]
    rw [e] at h
    generalize 2 ^ k * (2 * b' + 1) = X at h
    simp at h; omega
  | j + 1, 0, b, b', h => by
    exfalso
    have e : 2 ^ (j + 1) * (2 * b + 1) = 2 * (2 ^ j * (2 * b + 1)) := by
      rw [Nat.pow_succ, Nat.mul_comm (2 ^ j) 2, Nat.mul_assoc]
    rw [e] at h
    generalize 2 ^ j * (2 * b + 1) = X at h
    simp at h; omega
  | j + 1, k + 1, b, b', h => by
    have e1 : 2 ^ (j + 1) * (2 * b + 1) = 2 * (2 ^ j * (2 * b + 1)) := by
      rw [Nat.pow_succ, Nat.mul_comm (2 ^ j) 2, Nat.mul_assoc]
    have e2 : 2 ^ (k + 1) * (2 * b' + 1) = 2 * (2 ^ k * (2 * b' + 1)) := by
      rw [Nat.pow_succ, Nat.mul_comm (2 ^ k) 2, Nat.mul_assoc]
    rw [e1, e2] at h
    have := pairN_inj j k b b' (by omega)
    omega

theorem encOpt_inj {a b : Option Nat} (h : encOpt a = encOpt b) : a = b := by
  cases a <;> cases b <;> simp_all [encOpt]

theorem encPair_inj {a b : HookPair} (h : encPair a = encPair b) : a = b := by
  obtain ⟨h1, h2⟩ := pairN_inj _ _ _ _ h
  cases a; cases b
  simp only [HookPair.mk.injEq]
  exact ⟨encOpt_inj h1, encOpt_inj h2⟩

/-! ### dictionaries with distinct keys -/

theorem dictGet_of_mem {β} {d : List (Str × β)} (hnd : (d.map (·.1)).Nodup) {k : Str} {v : β}
    (h : (k, v) ∈ d) : dictGet d k = some v := by
  unfold dictGet
  induction d with
  | nil => cases h
  | cons x xs ih =>
    simp only [List.map_cons, List.nodup_cons] at hnd
    rcases List.mem_cons.mp h with rfl | h
    · simp [List.find?]
    · have hne : x.1 ≠ k := by
        intro hEq
        exact hnd.1 (List.mem_map.mpr ⟨(k, v), h, hEq.symm⟩)
      have : (x.1 == k) = false := by simpa using hne
      simp only [List.find?, this]
      exact ih hnd.2 h

/-! ### tree hook lookup = `hooks` index, on the specified patterns -/

theorem hookAtShape_eq_index {R : Router} {T : Str → Prop} (h : EInv R T) (q : List Sym)
    (hq : NoLitTok q) (hT : ¬ T (patStr q)) : hookAtShape R.tree q = R.hookAt (patStr q) := by
  have h1 : ∀ hp, hookAtShape R.tree q = some hp → R.hookAt (patStr q) = some hp := by
    intro hp hh
    obtain ⟨e, he, hs, hd, _⟩ := (findN_hooks encPair R.tree h.inv.wf q).2 hp hh
    have hps : patStr e.pat = patStr q := patStr_eq_of_shape hs
    obtain ⟨hp', hmem, hd'⟩ := h.htree encPair e he (by rw [hps]; exact hT)
    have : hp = hp' := encPair_inj (by rw [← hd, hd'])
    subst this
    rw [hps] at hmem
    exact dictGet_of_mem h.hnodup hmem
  have h2 : ∀ hp, R.hookAt (patStr q) = some hp → hookAtShape R.tree q = some hp := by
    intro hp hh
    obtain ⟨q', hq', he⟩ := h.hidx encPair _ hp (dictGet_mem hh) hT
    have hs : shape q' = shape q := shape_eq_of_patStr (h.hnotok encPair _ he) hq hq'
    obtain ⟨hp', hh', hd⟩ := (findN_hooks encPair R.tree h.inv.wf q).1 _ he hs
    simp only at hd
    rw [hh', encPair_inj hd]
  cases hA : hookAtShape R.tree q with
  | some hp => exact (h1 hp hA).symm
  | none =>
    cases hB : R.hookAt (patStr q) with
    | none => rfl
    | some hp => rw [h2 hp hB] at hA; cases hA

theorem NoLitTok.of_prefix {q p : List Sym} (hq : q <+: p) (hp : NoLitTok p) : NoLitTok q :=
  fun c hc => hp c (hq.subset hc)

/-- the hooks a match of `pat` delivers, read from the tree and read from the index, agree when
no prefix of `pat` is unspecified -/
theorem specHooks_index {R : Router} {T : Str → Prop} (h : EInv R T) (env : FilterEnv) (pat : List Sym)
    (hp : NoLitTok pat) (hT : ∀ q, q <+: pat → ¬ T (patStr q)) (path : Str) :
    specHooks env (hookAtShape R.tree) pat path = specHooks env (fun q => R.hookAt (patStr q)) pat path := by
  unfold specHooks
  rw [hookAtShape_eq_index h [] (fun c hc => by cases hc) (hT [] (by simp))]
  congr 1
  apply specHooksFrom_congr
  intro q hq _
  simp only [List.nil_append]
  exact hookAtShape_eq_index h q (NoLitTok.of_prefix hq hp) (hT q hq)

/-! ### the full answer of a lookup -/

theorem treeGet_eq (env : FilterEnv) (t : Node) (path : Str) :
    treeGet env t path = getN env t ⟨[], [], emitHook t.hooks 0⟩ path := by
  unfold treeGet
  cases t with
  | mk k d pk f h lits tok => cases h <;> rfl

theorem treeGet_full (env : FilterEnv) (hs : NoSel env) (t : Node) (h : WFN t) (path : Str) :
    match firstMatch env (denN t) path with
    | some (r, vs) => treeGet env t path = .hit r.data r.keys vs (specHooks env (hookAtShape t) r.pat path)
    | none => (treeGet env t path).isHit = false := by
  have := getN_full env hs t h ⟨[], [], emitHook t.hooks 0⟩ path
  rw [treeGet_eq]
  cases hfm : firstMatch env (denN t) path with
  | none => rw [hfm] at this; exact this
  | some x =>
    obtain ⟨r, vs⟩ := x
    rw [hfm] at this
    simp only [FullRes] at this
    simp only
    rw [this]
    simp only [List.nil_append, List.length_nil, specHooks, hookAtShape_nil]

/-- **the answer of `resolve` in terms of the rules of the `routes` index**: 404 exactly when
no rule matches; otherwise the route of the rule the plain matcher selects is dispatched on, and
the hooks delivered are the hook pairs of the tree at the prefixes of that rule's pattern -/
theorem resolve_full {R : Router} (hinv : Inv R) (env : FilterEnv) (hs : NoSel env) (path : Str)
    (ms : List Str) :
    match specResolve env R.rules (stripSlash path) with
    | none => ∃ v h p, R.resolve env path ms = .notFound v h p
    | some (rule, vs) => ∃ route,
        R.obj? rule.data = some route ∧ route.syms = rule.pat ∧ route.params = rule.keys ∧
        (patStr route.syms, rule.data) ∈ R.routes ∧
        R.resolve env path ms =
          match route.getItem ms with
          | .ok m => .found m.handler m.name
              (makeParamsDict (if m.params.isEmpty then rule.keys else m.params) vs)
              (specHooks env (hookAtShape R.tree) rule.pat (stripSlash path))
          | .error _ => .notAllowed (joinComma (sortStrs (route.methods.map (·.1)))) := by
  have hfull := treeGet_full env hs R.tree hinv.wf (stripSlash path)
  have hinj : PatInj (denote R.tree) := by
    intro e he e' he' hp
    exact denN_patStrInj R.tree hinv.wf e he e' he' (hinv.notok e he) (hinv.notok e' he') (by rw [hp])
  have hsr : specResolve env R.rules (stripSlash path) = firstMatch env (denN R.tree) (stripSlash path) := by
    rw [← specResolve_congr env (denote R.tree) R.rules _ hinv.den hinj]
    exact firstMatch_eq_specResolve env _ _ (denN_sorted env R.tree hinv.wf _)
  rw [hsr]
  unfold Router.resolve
  cases hfm : firstMatch env (denN R.tree) (stripSlash path) with
  | none =>
    rw [hfm] at hfull
    simp only at hfull ⊢
    cases hg : treeGet env R.tree (stripSlash path) with
    | miss v h p => exact ⟨v, h, p, rfl⟩
    | hit d k v hk => rw [hg] at hfull; simp [Res.isHit] at hfull
  | some x =>
    obtain ⟨rule, vs⟩ := x
    rw [hfm] at hfull
    simp only at hfull ⊢
    rw [hfull]
    simp only
    have hmem : rule ∈ denote R.tree := by
      rw [← hsr] at hfm
      have := (specResolve_mem hfm).1
      exact (hinv.den _).mpr this
    obtain ⟨ps, id, r, hin, hr, rfl⟩ := (mem_rules R _).mp ((hinv.den _).mp hmem)
    obtain ⟨r0, hr0, hps⟩ := hinv.keys ps id hin
    rw [hr] at hr0; cases hr0
    refine ⟨r, hr, rfl, rfl, hps ▸ hin, ?_⟩
    simp only [hr]
    cases r.getItem ms <;> rfl

/-! ### the plain matcher only looks at patterns -/

theorem specPick_rel (env : FilterEnv) (L L' : List Rule) (p : Str)
    (h' : ∀ e' ∈ L', ∃ e ∈ L, e.pat = e'.pat) {r r' : Rule} (hr : r'.pat = r.pat) {vs : List Val}
    (hp : specPick env L p r = some (r, vs)) : specPick env L' p r' = some (r', vs) := by
  unfold specPick at hp ⊢
  rw [hr]
  cases hm : matchRule env r.pat p with
  | none => simp [hm] at hp
  | some w =>
    simp only [hm] at hp ⊢
    split at hp
    · rename_i hall
      simp only [Option.some.injEq, Prod.mk.injEq, true_and] at hp
      subst hp
      rw [if_pos]
      rw [List.all_eq_true] at hall ⊢
      intro q' hq'
      obtain ⟨q, hq, hqp⟩ := h' q' hq'
      have := hall q hq
      rw [hqp] at this
      exact this
    · cases hp

theorem specResolve_rel (env : FilterEnv) (L L' : List Rule) (p : Str) (hinj' : PatInj L')
    (h : ∀ e ∈ L, ∃ e' ∈ L', e'.pat = e.pat) (h' : ∀ e' ∈ L', ∃ e ∈ L, e.pat = e'.pat)
    {r : Rule} {vs : List Val} (hs : specResolve env L p = some (r, vs)) :
    ∃ r', r' ∈ L' ∧ r'.pat = r.pat ∧ specResolve env L' p = some (r', vs) := by
  rw [specResolve_eq] at hs
  obtain ⟨x, hx, hfx⟩ := List.exists_of_findSome?_eq_some hs
  have hxr : x = r := by
    unfold specPick at hfx
    cases hm : matchRule env x.pat p with
    | none => simp [hm] at hfx
    | some w =>
      simp only [hm] at hfx
      split at hfx
      · simp only [Option.some.injEq, Prod.mk.injEq] at hfx; exact hfx.1
      · cases hfx
  subst hxr
  obtain ⟨r', hr', hpat⟩ := h x hx
  have hpick := specPick_rel env L L' p h' hpat hfx
  refine ⟨r', hr', hpat, ?_⟩
  rw [specResolve_eq]
  cases hf : L'.findSome? (specPick env L' p) with
  | none =>
    rw [List.findSome?_eq_none_iff] at hf
    rw [hf r' hr'] at hpick; cases hpick
  | some y =>
    obtain ⟨x', hx', hfx'⟩ := List.exists_of_findSome?_eq_some hf
    have := specPick_unique env L' p hinj' hx' hr' hfx' hpick
    subst this
    rw [hfx'] at hpick
    exact hpick

/-! ### what an observer keeps of an answer -/

/-- the answer of `resolve` without the hook list and the 404 payload -/
inductive Answer
  | found (handler : Nat) (method : Str) (kwargs : List (Str × Val))
  | notFound
  | notAllowed (allow : Str)
  | fault
  deriving DecidableEq, Repr

def Resolved.answer : Resolved → Answer
  | .found h m kw _ => .found h m kw
  | .notFound .. => .notFound
  | .notAllowed a => .notAllowed a
  | .fault => .fault

def Resolved.hooks : Resolved → List (Nat × HookPair)
  | .found _ _ _ hs => hs
  | _ => []

theorem getItem_congr {r r' : Route} (h : r.methods = r'.methods) (ms : List Str) :
    r.getItem ms = r'.getItem ms := by
  induction ms with
  | nil => rfl
  | cons m ms ih => simp only [Route.getItem, h, ih]

theorem rules_patInj {R : Router} (h : Inv R) : PatInj R.rules := by
  intro e he e' he' hp
  have h1 := (h.den e).mpr he
  have h2 := (h.den e').mpr he'
  exact denN_patStrInj R.tree h.wf e h1 e' h2 (h.notok e h1) (h.notok e' h2) (by rw [hp])

theorem routeAt_of_mem {R : Router} (h : Inv R) {ps : Str} {id : Nat} {r : Route}
    (hin : (ps, id) ∈ R.routes) (hr : R.obj? id = some r) : R.routeAt ps = some r.view := by
  unfold Router.routeAt
  rw [dictGet_of_mem h.nodup hin]
  simp [hr]

theorem mem_of_routeAt {R : Router} {ps : Str} {v : RouteView} (hv : R.routeAt ps = some v) :
    ∃ id r, (ps, id) ∈ R.routes ∧ R.obj? id = some r ∧ r.view = v := by
  unfold Router.routeAt at hv
  cases hg : dictGet R.routes ps with
  | none => simp [hg] at hv
  | some id =>
    cases hr : R.obj? id with
    | none => simp [hg, hr] at hv
    | some r =>
      simp only [hg, hr, Option.bind_some, Option.map_some, Option.some.injEq] at hv
      exact ⟨id, r, dictGet_mem hg, hr, hv⟩

/-- same `routes` map ⇒ the rule lists hold the same patterns -/
theorem rules_rel {R F : Router} (hR : Inv R) (hF : Inv F) (hs : ∀ ps, R.routeAt ps = F.routeAt ps) :
    ∀ e ∈ R.rules, ∃ e' ∈ F.rules, e'.pat = e.pat := by
  intro e he
  obtain ⟨ps, id, r, hin, hr, rfl⟩ := (mem_rules R e).mp he
  have hv := routeAt_of_mem hR hin hr
  rw [hs ps] at hv
  obtain ⟨id', r', hin', hr', hview⟩ := mem_of_routeAt hv
  refine ⟨⟨r'.syms, id', r'.params⟩, (mem_rules F _).mpr ⟨ps, id', r', hin', hr', rfl⟩, ?_⟩
  have : r'.view.syms = r.view.syms := by rw [hview]
  exact this

/-- **two routers with the same survivors answer alike** (routes part) -/
theorem answer_of_same_routes {R F : Router} (hR : Inv R) (hF : Inv F)
    (hs : ∀ ps, R.routeAt ps = F.routeAt ps) (env : FilterEnv) (hns : NoSel env) (path : Str) (ms : List Str) :
    (R.resolve env path ms).answer = (F.resolve env path ms).answer ∧
    ∀ rule vs, specResolve env R.rules (stripSlash path) = some (rule, vs) →
      (R.resolve env path ms).hooks = [] ∧ (F.resolve env path ms).hooks = [] ∨
      ∃ rule', specResolve env F.rules (stripSlash path) = some (rule', vs) ∧ rule'.pat = rule.pat ∧
        (R.resolve env path ms).hooks = specHooks env (hookAtShape R.tree) rule.pat (stripSlash path) ∧
        (F.resolve env path ms).hooks = specHooks env (hookAtShape F.tree) rule.pat (stripSlash path) := by
  have hRF := rules_rel hR hF hs
  have hFR := rules_rel hF hR (fun ps => (hs ps).symm)
  have fR := resolve_full hR env hns path ms
  have fF := resolve_full hF env hns path ms
  cases hsr : specResolve env R.rules (stripSlash path) with
  | none =>
    rw [hsr] at fR
    obtain ⟨v, h, p, hres⟩ := fR
    cases hsf : specResolve env F.rules (stripSlash path) with
    | none =>
      rw [hsf] at fF
      obtain ⟨v', h', p', hres'⟩ := fF
      rw [hres, hres']
      exact ⟨rfl, fun _ _ hh => by cases hh⟩
    | some x =>
      obtain ⟨rule', vs'⟩ := x
      obtain ⟨r0, _, _, h0⟩ := specResolve_rel env F.rules R.rules _ (rules_patInj hR) hFR hRF hsf
      rw [hsr] at h0; cases h0
  | some x =>
    obtain ⟨rule, vs⟩ := x
    rw [hsr] at fR
    obtain ⟨route, hobj, hsyms, hparams, hin, hres⟩ := fR
    obtain ⟨rule', hmem', hpat, hsf⟩ := specResolve_rel env R.rules F.rules _ (rules_patInj hF) hRF hFR hsr
    rw [hsf] at fF
    obtain ⟨route', hobj', hsyms', hparams', hin', hres'⟩ := fF
    -- the two route objects look the same
    have hv := routeAt_of_mem hR hin hobj
    have hv' := routeAt_of_mem hF hin' hobj'
    have e : route'.syms = route.syms := by rw [hsyms', hpat, hsyms]
    rw [e, ← hs, hv] at hv'
    simp only [Option.some.injEq] at hv'
    have hm : route.methods = route'.methods := congrArg RouteView.methods hv'
    have hk : rule.keys = rule'.keys := by
      rw [← hparams, ← hparams']; exact congrArg RouteView.params hv'
    rw [hres, hres', getItem_congr hm, hm, hk, hpat]
    constructor
    · cases route'.getItem ms <;> rfl
    · intro rule2 vs2 h2
      simp only [Option.some.injEq, Prod.mk.injEq] at h2
      obtain ⟨rfl, rfl⟩ := h2
      cases hgi : route'.getItem ms with
      | error e => exact Or.inl ⟨rfl, rfl⟩
      | ok m => exact Or.inr ⟨rule', hsf, hpat, rfl, rfl⟩

/-- lookup by rule (`RadiRouter[{rule}]`) reads the `routes` map -/
theorem matchPat_view {R : Router} (h : Inv R) (p : List Sym) :
    ((R.matchPat p).bind R.obj?).map Route.view =
      (R.routeAt (patStr p)).bind fun v => if v.syms = p then some v else none := by
  cases hm : R.matchPat p with
  | some id =>
    obtain ⟨keys, he⟩ := (matchPat_iff h.wf p id).mp hm
    obtain ⟨ps, id', r, hin, hr, heq⟩ := (mem_rules R _).mp ((h.den _).mp he)
    simp only [Rule.mk.injEq] at heq
    obtain ⟨hsy, rfl, _⟩ := heq
    obtain ⟨r0, hr0, hps⟩ := h.keys ps id hin
    rw [hr] at hr0; cases hr0
    subst hsy
    subst hps
    rw [routeAt_of_mem h hin hr]
    simp [hr, Route.view]
  | none =>
    simp only [Option.bind_none, Option.map_none]
    cases hv : R.routeAt (patStr p) with
    | none => rfl
    | some v =>
      simp only [Option.bind_some]
      split
      · rename_i hsy
        exfalso
        obtain ⟨id, r, hin, hr, hview⟩ := mem_of_routeAt hv
        have hrs : r.syms = p := by rw [← hsy, ← hview]; rfl
        have : (⟨p, id, r.params⟩ : Rule) ∈ denote R.tree :=
          (h.den _).mpr ((mem_rules R _).mpr ⟨_, id, r, hin, hr, by rw [hrs]⟩)
        rw [(matchPat_iff h.wf p id).mpr ⟨_, this⟩] at hm
        cases hm
      · rfl


end Ombott.Router
