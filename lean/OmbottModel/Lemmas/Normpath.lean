import OmbottModel.Model.StaticFile
import OmbottModel.Lemmas.Split
/-! POSIX `normpath`: the component stack invariant, the shape of the result, idempotence, and
absence of `..` in an absolute result (C16). -/
namespace Ombott.StaticFile
open Py

/-! ### `split('/')` and `'/'.join` -/

theorem splitOn1_no_sep {α} [BEq α] [LawfulBEq α] (sep : α) (l : List α) :
    ∀ c ∈ splitOn1 sep l, sep ∉ c := by
  induction l with
  | nil => intro c hc; simp [splitOn1] at hc; subst hc; simp
  | cons x r ih =>
    intro c hc
    unfold splitOn1 at hc
    split at hc
    · simp only [List.mem_cons] at hc
      rcases hc with rfl | hc
      · simp
      · exact ih c hc
    · rename_i hx
      split at hc
      · simp at hc; subst hc
        have hne : x ≠ sep := by intro e; subst e; simp at hx
        simp [Ne.symm hne]
      · rename_i a r' heq
        simp only [List.mem_cons] at hc
        rcases hc with rfl | hc
        · have ha : sep ∉ a := ih a (by rw [heq]; simp)
          have hne : x ≠ sep := by intro e; subst e; simp at hx
          simp [ha, Ne.symm hne]
        · exact ih c (by rw [heq]; simp [hc])

/-- splitting at a separator: the pieces before it, then the pieces after it -/
theorem splitOn1_append_sep {α} [BEq α] [LawfulBEq α] (sep : α) (a b : List α) :
    splitOn1 sep (a ++ sep :: b) = splitOn1 sep a ++ splitOn1 sep b := by
  induction a with
  | nil => simp [splitOn1]
  | cons x r ih =>
    simp only [List.cons_append, splitOn1]
    split
    · rw [ih]; simp
    · rw [ih]
      have hne := splitOn1_ne_nil sep r
      cases h : splitOn1 sep r with
      | nil => exact absurd h hne
      | cons p ps => simp

theorem segments_append_sep (a b : Str) : segments (a ++ '/' :: b) = segments a ++ segments b := by
  simp [segments, splitOn1_append_sep]

theorem splitOn1_replicate_sep (n : Nat) (s : Str) :
    splitOn1 '/' (List.replicate n '/' ++ s) = List.replicate n [] ++ splitOn1 '/' s := by
  induction n with
  | zero => simp
  | succ n ih => simp [List.replicate_succ, splitOn1, ih]

/-- a path component as `normpath` keeps it: non-empty, not `.`, no separator inside -/
def CompOK (c : Str) : Prop := c ≠ [] ∧ c ≠ dot ∧ '/' ∉ c

theorem splitOn1_joinSlash (l : List Str) (hne : l ≠ []) (h : ∀ c ∈ l, '/' ∉ c) :
    splitOn1 '/' (joinSlash l) = l := by
  induction l with
  | nil => contradiction
  | cons a r ih =>
    cases r with
    | nil => simp [joinSlash, splitOn1_nosep '/' a (h a (by simp))]
    | cons b r' =>
      simp only [joinSlash]
      rw [splitOn1_append '/' a _ (h a (by simp)), ih (by simp) (fun c hc => h c (by simp [hc]))]

theorem joinSlash_eq_nil (l : List Str) (h : ∀ c ∈ l, c ≠ []) : joinSlash l = [] ↔ l = [] := by
  cases l with
  | nil => simp [joinSlash]
  | cons a r =>
    cases r with
    | nil => simp [joinSlash, h a (by simp)]
    | cons b r' => simp [joinSlash]

theorem joinSlash_head (l : List Str) (h : ∀ c ∈ l, c ≠ [] ∧ '/' ∉ c) : (joinSlash l).head? ≠ some '/' := by
  cases l with
  | nil => simp [joinSlash]
  | cons a r =>
    have ha := h a (by simp)
    cases a with
    | nil => exact absurd rfl ha.1
    | cons x xs =>
      have : x ≠ '/' := by intro e; subst e; exact ha.2 (by simp)
      cases r with
      | nil => simp [joinSlash, this]
      | cons b r' => simp [joinSlash, this]


/-! ### what the component loop of `normpath` leaves on its stack -/

/-- the stack (`new_comps` reversed): kept components on top of a block of `..` (the block is
empty for an absolute path) -/
def StackOK (initial : Nat) (st : List Str) : Prop :=
  (∀ c ∈ st, CompOK c) ∧ ∃ a b, st = a ++ b ∧ dotdot ∉ a ∧ (∀ y ∈ b, y = dotdot) ∧ (initial ≠ 0 → b = [])


theorem normStep_ok (initial : Nat) (st : List Str) (comp : Str) (hc : '/' ∉ comp) (h : StackOK initial st) :
    StackOK initial (normStep initial st comp) := by
  obtain ⟨hall, a, b, rfl, ha, hb, hi⟩ := h
  unfold normStep
  split
  · exact ⟨hall, a, b, rfl, ha, hb, hi⟩
  · rename_i hskip
    simp only [not_or] at hskip
    have hcomp : CompOK comp := ⟨hskip.1, hskip.2, hc⟩
    split
    · rename_i hpush
      refine ⟨by intro c hm; simp only [List.mem_cons] at hm; rcases hm with rfl | hm; exact hcomp; exact hall c hm, ?_⟩
      by_cases hdd : comp = dotdot
      · -- pushing `..`: only onto an empty stack of a relative path or onto another `..`
        subst hdd
        have ha' : a = [] := by
          rcases hpush with h1 | h1 | h1
          · exact absurd rfl h1
          · have := h1.2; simp at this; exact this.1
          · cases a with
            | nil => rfl
            | cons x xs =>
              simp at h1; subst h1; exact absurd (by simp) ha
        subst ha'
        have hi' : initial = 0 := by
          rcases hpush with h1 | h1 | h1
          · exact absurd rfl h1
          · exact h1.1
          · apply Classical.byContradiction; intro hne
            have := hi hne; subst this; simp at h1
        refine ⟨[], dotdot :: b, by simp, by simp, ?_, fun hne => absurd hi' hne⟩
        intro y hy; simp only [List.mem_cons] at hy; rcases hy with rfl | hy; rfl; exact hb y hy
      · exact ⟨comp :: a, b, by simp, by simp [ha, Ne.symm hdd], hb, hi⟩
    · rename_i hpush
      simp only [not_or, not_and, Decidable.not_not] at hpush
      -- popping
      refine ⟨fun c hm => hall c (List.mem_of_mem_tail hm), ?_⟩
      cases a with
      | nil =>
        cases b with
        | nil => exact ⟨[], [], rfl, by simp, by simp, fun _ => rfl⟩
        | cons y ys =>
          have : y = dotdot := hb y (by simp)
          subst this
          exact absurd (by simp) hpush.2.2
      | cons x xs =>
        refine ⟨xs, b, by simp, fun hm => ha (by simp [hm]), hb, hi⟩

theorem foldl_normStep_ok (initial : Nat) (comps : List Str) (st : List Str)
    (hc : ∀ c ∈ comps, '/' ∉ c) (h : StackOK initial st) :
    StackOK initial (comps.foldl (normStep initial) st) := by
  induction comps generalizing st with
  | nil => exact h
  | cons c r ih =>
    exact ih _ (fun x hx => hc x (by simp [hx])) (normStep_ok initial st c (hc c (by simp)) h)

/-- the forward list of components of a normalised path: a block of `..` (relative paths only)
followed by components none of which is `..` -/
def Norm (initial : Nat) (l : List Str) : Prop :=
  (∀ c ∈ l, CompOK c) ∧ ∃ k a, l = List.replicate k dotdot ++ a ∧ dotdot ∉ a ∧ (initial ≠ 0 → k = 0)

theorem StackOK.norm {initial : Nat} {st : List Str} (h : StackOK initial st) : Norm initial st.reverse := by
  obtain ⟨hall, a, b, rfl, ha, hb, hi⟩ := h
  refine ⟨by intro c hc; exact hall c (by simp at hc ⊢; exact hc.symm), b.length, a.reverse, ?_, by simpa using ha, ?_⟩
  · rw [List.reverse_append]
    congr 1
    rw [List.eq_replicate_iff]
    exact ⟨by simp, by intro y hy; exact hb y (by simpa using hy)⟩
  · intro hne; rw [hi hne]; rfl

/-- re-running the component loop over an already normalised list changes nothing -/
theorem foldl_normStep_norm (initial : Nat) (l : List Str) (st : List Str)
    (h : Norm initial (st.reverse ++ l)) :
    l.foldl (normStep initial) st = l.reverse ++ st := by
  induction l generalizing st with
  | nil => simp
  | cons c r ih =>
    have hnext : Norm initial ((c :: st).reverse ++ r) := by simpa using h
    obtain ⟨hall, k, a, hl, ha, hi⟩ := h
    have hc : CompOK c := hall c (by simp)
    have hstep : normStep initial st c = c :: st := by
      unfold normStep
      rw [if_neg (by simp [hc.1, hc.2.1])]
      by_cases hdd : c = dotdot
      · subst hdd
        -- everything before this `..` is `..`, and the path is relative
        have hpre : ∀ y ∈ st.reverse, y = dotdot := by
          intro y hy
          have hmem : dotdot ∈ List.replicate k dotdot ++ a := by rw [← hl]; simp
          -- position argument: `..` at index `st.length` lies inside the replicate block
          have hlen : st.reverse.length < k := by
            apply Classical.byContradiction; intro hnot
            have hge : k ≤ st.reverse.length := by omega
            have : (st.reverse ++ dotdot :: r).drop k = a := by rw [hl]; simp
            rw [List.drop_append_of_le_length hge] at this
            have : dotdot ∈ a := by rw [← this]; simp
            exact ha this
          have : (st.reverse ++ dotdot :: r).take st.reverse.length = st.reverse := by simp
          rw [hl, List.take_append_of_le_length (by simp at hlen ⊢; omega)] at this
          rw [← this] at hy
          exact (List.mem_replicate.mp (List.mem_of_mem_take hy)).2
        have hk0 : initial = 0 := by
          apply Classical.byContradiction; intro hne
          have := hi hne; subst this
          simp at hl
          exact ha (by rw [← hl]; simp)
        rw [if_pos]
        right
        cases st with
        | nil => left; exact ⟨hk0, rfl⟩
        | cons x xs => right; simp [hpre x (by simp)]
      · rw [if_pos (Or.inl hdd)]
    simp only [List.foldl_cons, hstep]
    rw [ih (c :: st) hnext]
    simp


/-! ### the shape of `normpath`'s result -/

/-- `sep * initial + '/'.join(comps) or '.'` -/
def render (initial : Nat) (l : List Str) : Str :=
  let out := List.replicate initial '/' ++ joinSlash l
  if out = [] then dot else out

theorem initialSlashes_le (p : Str) : initialSlashes p ≤ 2 := by
  unfold initialSlashes; split <;> omega

theorem normpath_shape (p : Str) (hp : p ≠ []) :
    ∃ l, Norm (initialSlashes p) l ∧ normpath p = render (initialSlashes p) l := by
  refine ⟨((splitOn1 '/' p).foldl (normStep (initialSlashes p)) []).reverse, ?_, ?_⟩
  · apply StackOK.norm
    apply foldl_normStep_ok _ _ _ (splitOn1_no_sep '/' p)
    exact ⟨by simp, [], [], rfl, by simp, by simp, fun _ => rfl⟩
  · unfold normpath render
    rw [if_neg hp]

theorem Norm.comp_ne_nil {i : Nat} {l : List Str} (h : Norm i l) : ∀ c ∈ l, c ≠ [] ∧ '/' ∉ c :=
  fun c hc => ⟨(h.1 c hc).1, (h.1 c hc).2.2⟩

theorem is0 (x : Char) (xs : List Char) (hx : x ≠ '/') : initialSlashes (x :: xs) = 0 := by
  unfold initialSlashes
  split <;> simp_all
theorem is1 (x : Char) (xs : List Char) (hx : x ≠ '/') : initialSlashes ('/' :: x :: xs) = 1 := by
  unfold initialSlashes
  split <;> simp_all
theorem is2 (x : Char) (xs : List Char) (hx : x ≠ '/') : initialSlashes ('/' :: '/' :: x :: xs) = 2 := by
  unfold initialSlashes
  split
  · simp_all
  · rfl
  · rename_i h1 h2 h3
    simp at h3
    obtain ⟨rfl, rfl⟩ := h3
    exact absurd rfl (h2 _)
  · simp_all

/-- how many leading slashes the rendered path has -/
theorem initialSlashes_render (i : Nat) (l : List Str) (hi : i ≤ 2) (h : Norm i l) :
    initialSlashes (render i l) = i := by
  have hhead := joinSlash_head l h.comp_ne_nil
  unfold render
  simp only
  split
  · rename_i he
    simp at he
    have : i = 0 := by cases i <;> simp_all
    subst this; rfl
  · cases hj : joinSlash l with
    | nil =>
      match i, hi with
      | 0, _ => rfl
      | 1, _ => rfl
      | 2, _ => rfl
    | cons x xs =>
      have hx : x ≠ '/' := by rw [hj] at hhead; simpa using hhead
      match i, hi with
      | 0, _ => exact is0 x xs hx
      | 1, _ => exact is1 x xs hx
      | 2, _ => exact is2 x xs hx

theorem foldl_normStep_nils (i n : Nat) (st : List Str) :
    (List.replicate n ([] : Str)).foldl (normStep i) st = st := by
  induction n with
  | zero => rfl
  | succ n ih => simp [List.replicate_succ, normStep, ih]

/-- `normpath` is idempotent on what it renders -/
theorem normpath_render (i : Nat) (l : List Str) (hi : i ≤ 2) (h : Norm i l) :
    normpath (render i l) = render i l := by
  have his := initialSlashes_render i l hi h
  by_cases hout : List.replicate i '/' ++ joinSlash l = []
  · have hr : render i l = dot := by unfold render; simp only [hout, if_true]
    rw [hr]; decide
  · have hr : render i l = List.replicate i '/' ++ joinSlash l := by
      unfold render; simp only [hout, if_false]
    have hne : render i l ≠ [] := by rw [hr]; exact hout
    unfold normpath
    rw [if_neg hne, his]
    simp only
    have hsplit : (splitOn1 '/' (render i l)).foldl (normStep i) [] = l.reverse := by
      rw [hr, splitOn1_replicate_sep, List.foldl_append, foldl_normStep_nils]
      by_cases hl : l = []
      · subst hl; simp [joinSlash, splitOn1, normStep]
      · rw [splitOn1_joinSlash l hl (fun c hc => (h.comp_ne_nil c hc).2)]
        rw [foldl_normStep_norm i l [] (by simpa using h)]
        simp
    rw [hsplit, List.reverse_reverse]
    rfl

theorem normpath_idempotent' (p : Str) : normpath (normpath p) = normpath p := by
  by_cases hp : p = []
  · subst hp; decide
  · obtain ⟨l, hn, he⟩ := normpath_shape p hp
    rw [he]
    exact normpath_render _ l (initialSlashes_le p) hn

theorem segments_render (i : Nat) (l : List Str) (hi : 0 < i) (h : Norm i l) : segments (render i l) = l := by
  have hout : List.replicate i '/' ++ joinSlash l ≠ [] := by
    cases i with
    | zero => omega
    | succ n => simp [List.replicate_succ]
  unfold render
  simp only [hout, if_false]
  unfold segments
  rw [splitOn1_replicate_sep, List.filter_append]
  have h1 : (List.replicate i ([] : Str)).filter (· ≠ []) = [] := by
    rw [List.filter_eq_nil_iff]; intro a ha; rw [List.mem_replicate] at ha; simp [ha.2]
  rw [h1, List.nil_append]
  by_cases hl : l = []
  · subst hl; simp [joinSlash, splitOn1]
  · rw [splitOn1_joinSlash l hl (fun c hc => (h.comp_ne_nil c hc).2)]
    rw [List.filter_eq_self]
    intro c hc; simp [(h.comp_ne_nil c hc).1]

theorem initialSlashes_pos (p : Str) (h : p.head? = some '/') : 0 < initialSlashes p := by
  cases p with
  | nil => simp at h
  | cons x xs =>
    simp at h; subst h
    unfold initialSlashes
    split <;> simp_all

theorem normpath_abs_no_dotdot' (p : Str) (h : p.head? = some '/') : dotdot ∉ segments (normpath p) := by
  have hp : p ≠ [] := by intro e; subst e; simp at h
  obtain ⟨l, hn, he⟩ := normpath_shape p hp
  have hpos := initialSlashes_pos p h
  rw [he, segments_render _ l hpos hn]
  obtain ⟨_, k, a, hl, ha, hk⟩ := hn
  have : k = 0 := hk (by omega)
  subst this
  simpa [hl] using ha

theorem normpath_abs_head (p : Str) (h : p.head? = some '/') : (normpath p).head? = some '/' := by
  have hp : p ≠ [] := by intro e; subst e; simp at h
  obtain ⟨l, hn, he⟩ := normpath_shape p hp
  have hpos := initialSlashes_pos p h
  rw [he]
  unfold render
  cases hi : initialSlashes p with
  | zero => omega
  | succ n => simp [List.replicate_succ]

end Ombott.StaticFile
