import OmbottModel.Lemmas.RouteUrlSpec
import OmbottModel.Lemmas.PyInt
/-!
`Stable` proved for the two wildcards the model computes itself: the plain wildcard (up to the
next `/`) and `int` (mask `-?\d+`, converter `int`, formatter `str(int(x))`).
-/
namespace Ombott.RouteUrl
open Py Ombott.Router

/-! ### list facts -/

theorem takeWhile_append_stop {α} (p : α → Bool) (u rest : List α) (hu : ∀ x ∈ u, p x = true)
    (hr : ∀ c, rest.head? = some c → p c = false) : (u ++ rest).takeWhile p = u := by
  induction u with
  | nil =>
    cases rest with
    | nil => rfl
    | cons c r => simp [hr c rfl]
  | cons a u ih =>
    simp only [List.cons_append, List.takeWhile, hu a (by simp)]
    rw [ih (fun x hx => hu x (by simp [hx]))]

theorem dropWhile_head {α} (p : α → Bool) (l : List α) : ∀ c, (l.dropWhile p).head? = some c → p c = false := by
  induction l with
  | nil => intro c h; simp at h
  | cons a l ih =>
    intro c h
    by_cases hpa : p a = true
    · simp only [List.dropWhile, hpa] at h
      exact ih c h
    · simp only [List.dropWhile, hpa] at h
      simp only [List.head?_cons, Option.some.injEq] at h
      subst h
      simpa using hpa

theorem drop_takeWhile_length {α} (p : α → Bool) (l : List α) : l.drop (l.takeWhile p).length = l.dropWhile p := by
  induction l with
  | nil => rfl
  | cons a l ih =>
    simp only [List.takeWhile, List.dropWhile]
    split <;> simp [ih]

theorem takeWhile_all {α} (p : α → Bool) (l : List α) : ∀ x ∈ l.takeWhile p, p x = true :=
  List.all_eq_true.mp List.all_takeWhile

theorem sameHead_stop {p : Char → Bool} {a b : Str} (h : SameHead a b)
    (ha : ∀ c, a.head? = some c → p c = false) : ∀ c, b.head? = some c → p c = false := by
  intro c hc
  exact ha c (by rw [h]; exact hc)

/-! ### the plain wildcard -/

theorem piece_plain (env : FilterEnv) (fenv : FormatEnv) (nxt : Str) (v : Val) :
    piece env fenv none nxt v = .ok v := rfl

theorem tokRes_plain (env : FilterEnv) (path : Str) : tokRes env none path = some (plainTok path) := rfl

/-- `Stable` for the plain wildcard -/
theorem stable_plain (env : FilterEnv) (fenv : FormatEnv) :
    Stable (tokRes env none) (piece env fenv none) := by
  intro path r nxt hne hf _
  rw [tokRes_plain] at hf
  cases hf
  let q : Char → Bool := (· != Gen.pathSep)
  have hdrop : path.drop (plainTok path).n = path.dropWhile q := drop_takeWhile_length q path
  refine ⟨path.takeWhile q, rfl, ?_⟩
  intro rest' hsh
  rw [hdrop] at hsh
  have hstop := sameHead_stop hsh (dropWhile_head q path)
  have htw : (path.takeWhile q ++ rest').takeWhile q = path.takeWhile q :=
    takeWhile_append_stop q _ _ (takeWhile_all q path) hstop
  refine ⟨?_, plainTok (path.takeWhile q ++ rest'), rfl, ?_, ?_⟩
  · intro hnil
    have h1 : path.takeWhile q = [] := (List.append_eq_nil_iff.mp hnil).1
    have h2 : rest' = [] := (List.append_eq_nil_iff.mp hnil).2
    have h3 : path.dropWhile q = path := by
      have := List.takeWhile_append_dropWhile (p := q) (l := path)
      rw [h1] at this; simpa using this
    rw [h3, h2] at hsh
    cases path with
    | nil => exact hne rfl
    | cons a l => simp [SameHead] at hsh
  · show Val.str ((path.takeWhile q ++ rest').takeWhile q) = Val.str (path.takeWhile q)
    rw [htw]
  · show ((path.takeWhile q ++ rest').takeWhile q).length = (path.takeWhile q).length
    rw [htw]

/-- the plain wildcard keeps the head of its text (its formatter is the identity) -/
theorem headKeep_plain (env : FilterEnv) (fenv : FormatEnv) :
    HeadKeep (tokRes env none) (piece env fenv none) := by
  intro path r nxt u _ hf hg rest' hsh
  rw [tokRes_plain] at hf
  cases hf
  rw [piece_plain] at hg
  let q : Char → Bool := (· != Gen.pathSep)
  have hu : u = path.takeWhile q := by
    simp only [plainTok, Except.ok.injEq, Val.str.injEq] at hg
    exact hg.symm
  have hdrop : path.drop (plainTok path).n = path.dropWhile q := drop_takeWhile_length q path
  rw [hdrop] at hsh
  have hp : path = path.takeWhile q ++ path.dropWhile q := (List.takeWhile_append_dropWhile).symm
  rw [hu]
  conv => lhs; rw [hp]
  exact sameHead_append_left _ hsh

/-! ### filters whose value is the matched text and that have no formatter (`re`, `path`) -/

/-- handler `g` answers with the text it consumed, and there is no formatter for it -/
def TextFilter (env : FilterEnv) (g : Fid) : Prop :=
  hasFormatter g = false ∧ ∀ s r, env g s = some r → r.val = .str (s.take r.n)

/-- such a wildcard keeps the head of its text: what is put into the URL is the matched text -/
theorem headKeep_text (env : FilterEnv) (fenv : FormatEnv) (g : Fid) (ht : TextFilter env g) :
    HeadKeep (tokRes env (some g)) (piece env fenv (some g)) := by
  intro path r nxt u _ hf hg rest' hsh
  have hv : r.val = .str (path.take r.n) := ht.2 path r hf
  have hu : u = path.take r.n := by
    simp only [piece, fmtOut, ht.1, Bool.not_false, if_true, bind, Except.bind, pure, Except.pure] at hg
    cases hsan : sanity env (some g) r.val nxt with
    | error e => rw [hsan] at hg; cases hg
    | ok _ =>
      rw [hsan] at hg
      simp only [Except.ok.injEq] at hg
      rw [hv] at hg
      simp only [Val.str.injEq] at hg
      exact hg.symm
  rw [hu]
  conv => lhs; rw [← List.take_append_drop r.n path]
  exact sameHead_append_left _ hsh

/-! ### the `int` filter -/

theorem digitZeros_head : Gen.digitZeros = 48 :: Gen.digitZeros.tail := by rfl

theorem decDigit_ascii (c : Char) (h : c.isDigit = true) : decDigit? c = some (c.toNat - 48) := by
  have ⟨h1, h2⟩ := isDigit_bounds c h
  unfold decDigit?
  rw [digitZeros_head, List.find?_cons]
  have : (decide (48 ≤ c.toNat) && decide (c.toNat < 48 + 10)) = true := by
    simp only [Bool.and_eq_true, decide_eq_true_eq]; omega
  rw [this]; rfl

theorem isDecDigit_ascii (c : Char) (h : c.isDigit = true) : isDecDigit c = true := by
  simp [isDecDigit, decDigit_ascii c h]

theorem digitsValue_fold (ds : Str) (hd : ∀ c ∈ ds, c.isDigit = true) (acc : Nat) :
    ds.foldl (fun acc c => acc * 10 + (decDigit? c).getD 0) acc =
      ds.foldl (fun sofar c => 10 * sofar + (c.toNat - '0'.toNat)) acc := by
  induction ds generalizing acc with
  | nil => rfl
  | cons c cs ih =>
    simp only [List.foldl_cons]
    rw [decDigit_ascii c (hd c (by simp))]
    rw [ih (fun x hx => hd x (by simp [hx]))]
    simp [Nat.mul_comm]

theorem digitsValue_ascii (ds : Str) (hd : ∀ c ∈ ds, c.isDigit = true) :
    digitsValue ds = Nat.ofDigitChars 10 ds 0 := by
  unfold digitsValue
  rw [Nat.ofDigitChars_eq_foldl]
  exact digitsValue_fold ds hd 0

theorem digitsValue_natStr (n : Nat) : digitsValue (natStr n) = n := by
  rw [digitsValue_ascii _ (natStr_digits n)]
  exact Nat.ofDigitChars_ten_toDigits

theorem natStr_head_ne_minus (n : Nat) (rest : Str) : (natStr n ++ rest).head? ≠ some '-' := by
  cases h : natStr n with
  | nil => exact absurd h (natStr_ne_nil n)
  | cons c cs =>
    have hc : c.isDigit = true := natStr_digits n c (by rw [h]; simp)
    simp only [List.cons_append, List.head?_cons, ne_eq, Option.some.injEq]
    intro hm; rw [hm] at hc; simp at hc

/-- the `int` handler reads the canonical decimal text back, whatever non-digit follows -/
theorem intFilter_intStr (z : Int) (rest : Str) (hr : ∀ c, rest.head? = some c → isDecDigit c = false)
    (hz : intStrDigits z ≤ Gen.intMaxStrDigits) :
    intFilter (intStr z ++ rest) = some ⟨intVal z, (intStr z).length, none⟩ := by
  have hall : ∀ n, ∀ x ∈ natStr n, isDecDigit x = true :=
    fun n x hx => isDecDigit_ascii x (natStr_digits n x hx)
  cases z with
  | ofNat n =>
    have hneg : ((natStr n ++ rest).head? == some '-') = false := by
      simpa using natStr_head_ne_minus n rest
    simp only [intStr, intFilter, hneg, Bool.false_eq_true, if_false]
    rw [takeWhile_append_stop isDecDigit _ _ (hall n) hr]
    have : (natStr n).isEmpty = false := by
      cases h : natStr n with
      | nil => exact absurd h (natStr_ne_nil n)
      | cons _ _ => rfl
    have hlim : ¬ Gen.intMaxStrDigits < (natStr n).length := by
      simpa [intStrDigits] using hz
    simp [this, hlim, digitsValue_natStr]
  | negSucc n =>
    simp only [intStr, intFilter, List.cons_append, List.head?_cons, beq_self_eq_true, if_true, List.drop_succ_cons,
      List.drop_zero]
    rw [takeWhile_append_stop isDecDigit _ _ (hall (n + 1)) hr]
    have : (natStr (n + 1)).isEmpty = false := by
      cases h : natStr (n + 1) with
      | nil => exact absurd h (natStr_ne_nil _)
      | cons _ _ => rfl
    have hlim : ¬ Gen.intMaxStrDigits < (natStr (n + 1)).length := by
      simpa [intStrDigits, Int.natAbs_negSucc] using hz
    simp only [this, hlim, Bool.false_eq_true, if_false, digitsValue_natStr, List.length_cons]
    simp [Int.negSucc_eq]

theorem decDigit_lt (c : Char) : (decDigit? c).getD 0 < 10 := by
  unfold decDigit?
  cases h : Gen.digitZeros.find? (fun z => z ≤ c.toNat && c.toNat < z + 10) with
  | none => simp
  | some z =>
    have := List.find?_some h
    simp at this ⊢; omega

theorem digitsValue_foldl_lt (ds : Str) (acc : Nat) :
    ds.foldl (fun acc c => acc * 10 + (decDigit? c).getD 0) acc < (acc + 1) * 10 ^ ds.length := by
  induction ds generalizing acc with
  | nil => simp
  | cons c cs ih =>
    simp only [List.foldl_cons, List.length_cons]
    have h1 := ih (acc * 10 + (decDigit? c).getD 0)
    have h2 := decDigit_lt c
    calc _ < (acc * 10 + (decDigit? c).getD 0 + 1) * 10 ^ cs.length := h1
      _ ≤ ((acc + 1) * 10) * 10 ^ cs.length := Nat.mul_le_mul_right _ (by omega)
      _ = (acc + 1) * 10 ^ (cs.length + 1) := by rw [Nat.pow_succ, Nat.mul_assoc, Nat.mul_comm 10]

/-- a run of `k` digits names a number below `10^k` -/
theorem digitsValue_lt (ds : Str) : digitsValue ds < 10 ^ ds.length := by
  have := digitsValue_foldl_lt ds 0; simpa [digitsValue] using this

/-- the canonical text of the value of a digit run is not longer than the run -/
theorem natStr_digitsValue_length (ds : Str) (hne : ds ≠ []) : (natStr (digitsValue ds)).length ≤ ds.length :=
  (natStr_length_le_iff _ _ (List.length_pos_iff.mpr hne)).mpr (digitsValue_lt ds)

/-- what the `int` handler returns: an `int` value the interpreter prints (at most
`Gen.intMaxStrDigits` digits), no selector, and what is left does not go on with a digit (the mask is
greedy) -/
theorem intFilter_spec_lim {path : Str} {r : FilterRes} (h : intFilter path = some r) :
    (∃ z, r.val = intVal z ∧ intStrDigits z ≤ Gen.intMaxStrDigits) ∧ r.sel = none ∧
      ∀ c, (path.drop r.n).head? = some c → isDecDigit c = false := by
  unfold intFilter at h
  by_cases hneg : (path.head? == some '-') = true
  · simp only [hneg, if_true] at h
    by_cases he : (List.takeWhile isDecDigit (path.drop 1)).isEmpty = true
    · rw [if_pos he] at h; cases h
    · by_cases hl : Gen.intMaxStrDigits < (List.takeWhile isDecDigit (path.drop 1)).length
      · simp only [he, hl, Bool.false_eq_true, if_false, if_true] at h; cases h
      · simp only [he, hl, Bool.false_eq_true, if_false, Option.some.injEq] at h
        subst h
        have hne : List.takeWhile isDecDigit (path.drop 1) ≠ [] := by
          intro h0; rw [h0] at he; exact he rfl
        refine ⟨⟨_, rfl, ?_⟩, rfl, ?_⟩
        · have := natStr_digitsValue_length _ hne
          simp only [intStrDigits, Int.natAbs_neg, Int.natAbs_natCast]
          omega
        · have : path.drop ((List.takeWhile isDecDigit (path.drop 1)).length + 1) =
              (path.drop 1).drop (List.takeWhile isDecDigit (path.drop 1)).length := by
            rw [List.drop_drop, Nat.add_comm]
          show ∀ c, (path.drop ((List.takeWhile isDecDigit (path.drop 1)).length + 1)).head? = some c → _
          rw [this, drop_takeWhile_length]
          exact dropWhile_head _ _
  · simp only [hneg, Bool.false_eq_true, if_false, Nat.add_zero] at h
    by_cases he : (List.takeWhile isDecDigit path).isEmpty = true
    · rw [if_pos he] at h; cases h
    · by_cases hl : Gen.intMaxStrDigits < (List.takeWhile isDecDigit path).length
      · simp only [he, hl, Bool.false_eq_true, if_false, if_true] at h; cases h
      · simp only [he, hl, Bool.false_eq_true, if_false, Option.some.injEq] at h
        subst h
        have hne : List.takeWhile isDecDigit path ≠ [] := by
          intro h0; rw [h0] at he; exact he rfl
        refine ⟨⟨_, rfl, ?_⟩, rfl, ?_⟩
        · have := natStr_digitsValue_length _ hne
          simp only [intStrDigits, Int.natAbs_natCast]
          omega
        · show ∀ c, (path.drop (List.takeWhile isDecDigit path).length).head? = some c → _
          rw [drop_takeWhile_length]
          exact dropWhile_head _ _

/-- what the `int` handler returns: an `int` value, no selector, and what is left does not go
on with a digit (the mask is greedy) -/
theorem intFilter_spec {path : Str} {r : FilterRes} (h : intFilter path = some r) :
    (∃ z, r.val = intVal z) ∧ r.sel = none ∧ ∀ c, (path.drop r.n).head? = some c → isDecDigit c = false := by
  obtain ⟨⟨z, hz, _⟩, h2, h3⟩ := intFilter_spec_lim h
  exact ⟨⟨z, hz⟩, h2, h3⟩

/-- **beyond the limit the `int` handler does not match** (`int()` raised `ValueError`; a 500 before
be98856): a run of more than `Gen.intMaxStrDigits` `\d` characters, with or without a sign,
whatever follows -/
theorem intFilter_none_beyond (s : Str)
    (h : Gen.intMaxStrDigits < ((if (s.head? == some '-') = true then s.drop 1 else s).takeWhile isDecDigit).length) :
    intFilter s = none := by
  unfold intFilter
  simp only [h, if_true]
  split <;> simp

theorem hasFormatter_int (g : Fid) (hg : isIntFid g = true) : hasFormatter g = true := by
  have hn : fidName g = "int".toList := by simpa [isIntFid] using hg
  unfold hasFormatter
  rw [hn]
  decide

theorem intDigitCount_intStr (z : Int) : intDigitCount (intStr z) = intStrDigits z := by
  cases z with
  | ofNat n => simp [intStr, intStrDigits, intDigitCount_digits _ (natStr_digits n)]
  | negSucc n =>
    simp only [intStr, intStrDigits, Int.natAbs_negSucc]
    rw [intDigitCount_sign '-' (by decide), intDigitCount_digits _ (natStr_digits _)]

theorem intFmt_intVal (z : Int) (hz : intStrDigits z ≤ Gen.intMaxStrDigits) : intFmt (intVal z) = some (intStr z) := by
  have : ¬ Gen.intMaxStrDigits < intDigitCount (intStr z) := by rw [intDigitCount_intStr]; omega
  simp [intFmt, intVal, List.isPrefixOf, this]

theorem tokRes_int (env : FilterEnv) (g : Fid) (hg : isIntFid g = true) (s : Str) :
    tokRes (withInt env) (some g) s = intFilter s := by
  simp [tokRes, withInt, hg]

/-- formatting an `int` value in front of a literal run that does not start with a digit -/
theorem piece_int (env : FilterEnv) (fenv : FormatEnv) (g : Fid) (hg : isIntFid g = true) (z : Int) (nxt : Str)
    (hn : ∀ c, nxt.head? = some c → isDecDigit c = false) (hz : intStrDigits z ≤ Gen.intMaxStrDigits) :
    piece (withInt env) fenv (some g) nxt (intVal z) = .ok (.str (intStr z)) := by
  simp only [piece, fmtOut, hasFormatter_int g hg, hg, intFmt_intVal z hz, Bool.not_true, Bool.false_eq_true, if_false,
    if_true, sanity, withInt, intFilter_intStr z nxt hn hz, bind, Except.bind, pure, Except.pure, beq_self_eq_true]

/-- `Stable` for the `int` wildcard -/
theorem stable_int (env : FilterEnv) (fenv : FormatEnv) (g : Fid) (hg : isIntFid g = true) :
    Stable (tokRes (withInt env) (some g)) (piece (withInt env) fenv (some g)) := by
  intro path r nxt _ hf hpre
  rw [tokRes_int env g hg] at hf
  obtain ⟨⟨z, hz, hzl⟩, _, hstop⟩ := intFilter_spec_lim hf
  have hnxt : ∀ c, nxt.head? = some c → isDecDigit c = false := by
    intro c hc
    obtain ⟨t, ht⟩ := hpre
    apply hstop c
    rw [← ht]
    cases nxt with
    | nil => simp at hc
    | cons a l => simpa using hc
  refine ⟨intStr z, by rw [hz]; exact piece_int env fenv g hg z nxt hnxt hzl, ?_⟩
  intro rest' hsh
  have hr' := sameHead_stop hsh hstop
  refine ⟨?_, ⟨intVal z, (intStr z).length, none⟩, ?_, hz.symm, rfl⟩
  · intro hnil
    have : intStr z = [] := (List.append_eq_nil_iff.mp hnil).1
    cases z with
    | ofNat n => exact natStr_ne_nil n this
    | negSucc n => simp [intStr] at this
  · rw [tokRes_int env g hg]
    exact intFilter_intStr z rest' hr' hzl

/-! ### rules made of plain and `int` wildcards -/

/-- every wildcard of the pattern is plain or `int` -/
def plainIntOnly : List Sym → Bool
  | [] => true
  | .lit _ :: p => plainIntOnly p
  | .tok none :: p => plainIntOnly p
  | .tok (some g) :: p => isIntFid g && plainIntOnly p

def startsWithInt : List Sym → Bool
  | .tok (some g) :: _ => isIntFid g
  | _ => false

/-- some `int` wildcard directly follows another wildcard -/
def intAfterTok : List Sym → Bool
  | [] => false
  | .lit _ :: p => intAfterTok p
  | .tok _ :: p => startsWithInt p || intAfterTok p

theorem headRun_plainInt (env : FilterEnv) (fenv : FormatEnv) (p : List Sym)
    (h1 : plainIntOnly p = true) (h2 : intAfterTok p = false) (h3 : startsWithInt p = false) :
    HeadRun (withInt env) fenv p := by
  induction p with
  | nil => trivial
  | cons s p ih =>
    cases s with
    | lit c => trivial
    | tok f =>
      cases f with
      | none =>
        simp only [intAfterTok, Bool.or_eq_false_iff] at h2
        exact ⟨headKeep_plain _ _, ih h1 h2.2 h2.1⟩
      | some g =>
        simp only [plainIntOnly, Bool.and_eq_true] at h1
        simp only [startsWithInt] at h3
        rw [h1.1] at h3; cases h3

/-- in a rule of plain and `int` wildcards where no `int` directly follows a wildcard, every
wildcard is stable where it stands -/
theorem allStable_plainInt (env : FilterEnv) (fenv : FormatEnv) (p : List Sym)
    (h1 : plainIntOnly p = true) (h2 : intAfterTok p = false) : AllStable (withInt env) fenv p := by
  induction p with
  | nil => trivial
  | cons s p ih =>
    cases s with
    | lit c => exact ih h1 h2
    | tok f =>
      simp only [intAfterTok, Bool.or_eq_false_iff] at h2
      cases f with
      | none =>
        exact ⟨stableAt_of_stable (stable_plain _ _) (headRun_plainInt env fenv p h1 h2.2 h2.1), ih h1 h2.2⟩
      | some g =>
        simp only [plainIntOnly, Bool.and_eq_true] at h1
        exact ⟨stableAt_of_stable (stable_int env fenv g h1.1) (headRun_plainInt env fenv p h1.2 h2.2 h2.1),
          ih h1.2 h2.2⟩

end Ombott.RouteUrl
