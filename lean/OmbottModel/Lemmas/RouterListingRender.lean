import OmbottModel.Model.RouterListing
import OmbottModel.Lemmas.RouterPrint
import OmbottModel.Lemmas.RouterInv
/-!
C11 (listing), helper lemmas (4): the text `RadiDict._render_route` prints for a pattern is the
`:name` flavour of the rule syntax (`parse_print` of C01 reads it back); `params_unpack` undoes
`params_signature`.
-/
namespace Ombott.Router
open Py

/-! ### `_render_route` as a printer -/

/-- what `_render_route` comes to on a pattern without literal marker characters and names
without marker characters: every wildcard becomes `:name`, left to right; wildcards beyond the
names keep their marker -/
def printPat : List Sym → List Str → Str
  | [], _ => []
  | .lit c :: r, ns => c :: printPat r ns
  | .tok _ :: r, n :: ns => paramLabel n ++ printPat r ns
  | .tok _ :: r, [] => Gen.paramToken :: printPat r []

theorem printPat_nil (p : List Sym) : printPat p [] = patStr p := by
  induction p with
  | nil => rfl
  | cons s r ih => cases s <;> simp [printPat, patStr, symChar, ih] <;> rfl

theorem replaceFirst_skip (c : Char) (new pre rest : Str) (h : c ∉ pre) :
    replaceFirst c new (pre ++ rest) = pre ++ replaceFirst c new rest := by
  induction pre with
  | nil => rfl
  | cons d ds ih =>
    have hd : (d == c) = false := by
      have : d ≠ c := fun e => h (by simp [e])
      simpa using this
    simp only [List.cons_append, replaceFirst, hd, Bool.false_eq_true, if_false]
    rw [ih (fun hm => h (by simp [hm]))]

theorem renderRoute_cons (route : Str) (n : Str) (ns : List Str) :
    renderRoute route (n :: ns) = renderRoute (replaceFirst Gen.paramToken (paramLabel n) route) ns := rfl

/-- `_render_route` is `printPat` -/
theorem renderRoute_printPat (names : List Str) (hn : ∀ n ∈ names, Gen.paramToken ∉ paramLabel n) :
    ∀ (p : List Sym) (pre : Str), NoLitTok p → Gen.paramToken ∉ pre →
      renderRoute (pre ++ patStr p) names = pre ++ printPat p names := by
  induction names with
  | nil => intro p pre _ _; rw [printPat_nil]; rfl
  | cons n ns ihn =>
    intro p
    induction p with
    | nil =>
      intro pre _ hpre
      rw [renderRoute_cons, replaceFirst_skip _ _ _ _ hpre]
      have := ihn (fun m hm => hn m (by simp [hm])) [] pre (fun _ h => by cases h) hpre
      simpa [replaceFirst, printPat, patStr] using this
    | cons s r ihp =>
      intro pre hp hpre
      cases s with
      | lit c =>
        have hc : c ≠ Gen.paramToken := hp c (by simp)
        have := ihp (pre ++ [c]) (fun x hx => hp x (by simp [hx]))
          (by simp only [List.mem_append, List.mem_singleton, not_or]; exact ⟨hpre, fun e => hc e.symm⟩)
        simpa [patStr, symChar, printPat] using this
      | tok f =>
        rw [renderRoute_cons]
        simp only [patStr, List.map_cons, symChar]
        rw [replaceFirst_skip _ _ _ _ hpre]
        simp only [replaceFirst, beq_self_eq_true, if_true]
        have hl := hn n (by simp)
        have := ihn (fun m hm => hn m (by simp [hm])) r (pre ++ paramLabel n)
          (fun x hx => hp x (by simp [hx]))
          (by simp only [List.mem_append, not_or]; exact ⟨hpre, hl⟩)
        simpa [printPat, List.append_assoc, patStr] using this

/-! ### the domain in which the printed text reads back -/

/-- **which enumerated patterns `_render_route` prints readably.**  The printer writes
`:name` for every wildcard and nothing else, so: every wildcard is the plain one (no filter can
be printed: `int`, `float`, `path`, `re`, `rex` are all lost), it has a name of its own that is
an identifier (an anonymous wildcard is stored as `anon-<k>`, which is not), and it stands
before a `/` or at the end of the pattern (`:name` reads on over word characters); the literal
text is free of the parser's parameter tokens (`:`, `<`, `{`) and of the marker character; there
are exactly as many names as wildcards. -/
def Renderable : List Sym → List Str → Prop
  | [], ns => ns = []
  | .lit c :: r, ns => isParamTok c = false ∧ c ≠ Gen.paramToken ∧ Renderable r ns
  | .tok f :: r, ns => f = none ∧ ∃ n ns', ns = n :: ns' ∧ IsIdent n ∧
      (r = [] ∨ r.head? = some (.lit '/')) ∧ Renderable r ns'

theorem Renderable.noLitTok : ∀ {p : List Sym} {ns : List Str}, Renderable p ns → NoLitTok p
  | [], _, _ => fun _ h => by cases h
  | .lit c :: r, ns, h => by
    unfold Renderable at h
    intro x hx
    simp only [List.mem_cons, Sym.lit.injEq] at hx
    rcases hx with rfl | hx
    · exact h.2.1
    · exact h.2.2.noLitTok x hx
  | .tok f :: r, ns, h => by
    unfold Renderable at h
    obtain ⟨_, n, ns', _, _, _, hr⟩ := h
    intro x hx
    simp only [List.mem_cons, reduceCtorEq, false_or] at hx
    exact hr.noLitTok x hx

theorem isWord_marker : isWord Gen.paramToken = false := by decide

theorem isNameStart_marker : isNameStart Gen.paramToken = false := by decide

theorem IsIdent.no_marker {n : Str} (h : IsIdent n) : Gen.paramToken ∉ paramLabel n := by
  obtain ⟨c, r, rfl, hc, hw⟩ := h
  simp only [paramLabel, List.isEmpty_cons, Bool.false_eq_true, if_false, List.mem_cons, not_or]
  refine ⟨by decide, ?_, ?_⟩
  · intro e; rw [← e] at hc; rw [isNameStart_marker] at hc; cases hc
  · intro hm; have := hw _ hm; rw [isWord_marker] at this; cases this

theorem Renderable.names_ok : ∀ {p : List Sym} {ns : List Str}, Renderable p ns →
    ∀ n ∈ ns, Gen.paramToken ∉ paramLabel n
  | [], _, h => by unfold Renderable at h; subst h; intro n hn; cases hn
  | .lit c :: r, ns, h => by unfold Renderable at h; exact h.2.2.names_ok
  | .tok f :: r, ns, h => by
    unfold Renderable at h
    obtain ⟨_, n, ns', rfl, hid, _, hr⟩ := h
    intro m hm
    simp only [List.mem_cons] at hm
    rcases hm with rfl | hm
    · exact hid.no_marker
    · exact hr.names_ok m hm

/-! ### the abstract rule of a renderable pattern (`:name` flavour, maximal literal runs) -/

def consLit (c : Char) : List ASeg → List ASeg
  | .lit t :: rest => .lit (c :: t) :: rest
  | other => .lit [c] :: other

def segsOf : List Sym → List Str → List ASeg
  | [], _ => []
  | .lit c :: r, ns => consLit c (segsOf r ns)
  | .tok _ :: r, n :: ns => .wild .colon (some n) none none :: segsOf r ns
  | .tok _ :: r, [] => .wild .colonEnd none none none :: segsOf r []

theorem printSegs_consLit (c : Char) (l : List ASeg) : printSegs (consLit c l) = c :: printSegs l := by
  cases l with
  | nil => rfl
  | cons x xs => cases x <;> simp [consLit, printSegs, printSeg]

theorem printSegs_segsOf : ∀ {p : List Sym} {ns : List Str}, Renderable p ns →
    printSegs (segsOf p ns) = printPat p ns
  | [], _, _ => rfl
  | .lit c :: r, ns, h => by
    unfold Renderable at h
    simp only [segsOf, printSegs_consLit, printPat, printSegs_segsOf h.2.2]
  | .tok f :: r, ns, h => by
    unfold Renderable at h
    obtain ⟨_, n, ns', rfl, hid, _, hr⟩ := h
    have hne : n.isEmpty = false := by
      cases n with
      | nil => exact absurd rfl hid.ne_nil
      | cons _ _ => rfl
    simp only [segsOf, printPat, paramLabel, hne, Bool.false_eq_true, if_false]
    simp only [printSegs, List.map_cons, List.flatten_cons, printSeg, printWild, Option.getD_some,
      List.cons_append]
    rw [← printSegs_segsOf hr]; rfl

theorem absParsed_consLit (c : Char) (l : List ASeg) (anon : Nat) :
    absParsed (consLit c l) anon =
      ⟨.lit c :: (absParsed l anon).syms, (absParsed l anon).params, .lit c :: (absParsed l anon).symsOut⟩ := by
  cases l with
  | nil => rfl
  | cons x xs => cases x <;> simp [consLit, absParsed]

theorem absParsed_segsOf : ∀ {p : List Sym} {ns : List Str}, Renderable p ns → ∀ anon,
    absParsed (segsOf p ns) anon = ⟨p, ns, p⟩
  | [], _, h, _ => by unfold Renderable at h; subst h; rfl
  | .lit c :: r, ns, h, anon => by
    unfold Renderable at h
    simp only [segsOf, absParsed_consLit, absParsed_segsOf h.2.2 anon]
  | .tok f :: r, ns, h, anon => by
    unfold Renderable at h
    obtain ⟨rfl, n, ns', rfl, _, _, hr⟩ := h
    simp only [segsOf, absParsed, Option.isSome_some, if_true, Option.map_none, Option.getD_some,
      absParsed_segsOf hr anon]

theorem segsOK_consLit (c : Char) (hc : isParamTok c = false) (l : List ASeg) (h : SegsOK l) :
    SegsOK (consLit c l) := by
  cases l with
  | nil => simp [consLit, SegsOK, hc]
  | cons x xs =>
    cases x with
    | lit t =>
      unfold SegsOK at h
      simp only [consLit]
      unfold SegsOK
      refine ⟨by simp, ?_, h.2.2.1, h.2.2.2⟩
      intro d hd
      simp only [List.mem_cons] at hd
      rcases hd with rfl | hd
      · exact hc
      · exact h.2.1 d hd
    | wild fl nm ft ar =>
      simp only [consLit]
      unfold SegsOK
      exact ⟨by simp, by simp [hc], trivial, h⟩

theorem segsOf_slash (r : List Sym) (ns : List Str) (h : r.head? = some (.lit '/')) :
    ∃ t rest, segsOf r ns = .lit t :: rest ∧ t.head? = some '/' := by
  cases r with
  | nil => simp at h
  | cons s r' =>
    simp only [List.head?_cons, Option.some.injEq] at h
    subst h
    simp only [segsOf]
    cases hs : segsOf r' ns with
    | nil => exact ⟨['/'], [], rfl, rfl⟩
    | cons x xs =>
      cases x with
      | lit t => exact ⟨'/' :: t, xs, rfl, rfl⟩
      | wild fl nm ft ar => exact ⟨['/'], _, rfl, rfl⟩

theorem segsOK_segsOf : ∀ {p : List Sym} {ns : List Str}, Renderable p ns → SegsOK (segsOf p ns)
  | [], _, _ => trivial
  | .lit c :: r, ns, h => by
    unfold Renderable at h
    exact segsOK_consLit c h.1 _ (segsOK_segsOf h.2.2)
  | .tok f :: r, ns, h => by
    unfold Renderable at h
    obtain ⟨_, n, ns', rfl, hid, hpos, hr⟩ := h
    simp only [segsOf]
    unfold SegsOK
    refine ⟨⟨?_, ?_, by simp⟩, ?_, segsOK_segsOf hr⟩
    · intro m hm; cases hm; exact hid
    · intro g hg; cases hg
    · rcases hpos with rfl | hpos
      · simp [segsOf]
      · obtain ⟨t, rest, hs, ht⟩ := segsOf_slash r ns' hpos
        simp only [hs]; exact ht

theorem filtersBuild_consLit (cenv : CompileEnv) (c : Char) (l : List ASeg) (h : FiltersBuild cenv l) :
    FiltersBuild cenv (consLit c l) := by
  cases l with
  | nil => simp [consLit, FiltersBuild]
  | cons x xs =>
    cases x with
    | lit t => unfold FiltersBuild at h; simp only [consLit]; unfold FiltersBuild; exact h
    | wild fl nm ft ar => simp only [consLit]; unfold FiltersBuild; exact h

theorem filtersBuild_segsOf (cenv : CompileEnv) : ∀ {p : List Sym} {ns : List Str}, Renderable p ns →
    FiltersBuild cenv (segsOf p ns)
  | [], _, _ => trivial
  | .lit c :: r, ns, h => by
    unfold Renderable at h
    exact filtersBuild_consLit cenv c _ (filtersBuild_segsOf cenv h.2.2)
  | .tok f :: r, ns, h => by
    unfold Renderable at h
    obtain ⟨_, n, ns', rfl, _, _, hr⟩ := h
    simp only [segsOf]
    unfold FiltersBuild
    exact ⟨fun g hg => (by cases hg), filtersBuild_segsOf cenv hr⟩

/-- the text printed for a renderable pattern is the `:name` flavour of its abstract rule -/
theorem render_eq_printRule {p : List Sym} {names : List Str} (h : Renderable p names) :
    '/' :: renderRoute (patStr p) names = printRule (segsOf p names) := by
  have := renderRoute_printPat names h.names_ok p [] h.noLitTok (by simp)
  simp only [List.nil_append] at this
  rw [this, printRule, printSegs_segsOf h]

/-! ### `params_unpack ∘ params_signature` -/

theorem foldl_dictSet_fresh (l : List (Str × Option Fid)) (d : ParamsDict)
    (hnd : (l.map (·.1)).Nodup) (hfresh : ∀ x ∈ l, ∀ y ∈ d, y.1 ≠ x.1) :
    l.foldl (fun d (n, f) => dictSet d n (false, f)) d = d ++ l.map fun x => (x.1, (false, x.2)) := by
  induction l generalizing d with
  | nil => simp
  | cons x xs ih =>
    obtain ⟨n, f⟩ := x
    simp only [List.foldl_cons]
    have hany : d.any (fun y => y.1 == n) = false := by
      rw [List.any_eq_false]
      intro y hy
      have := hfresh (n, f) (by simp) y hy
      simpa using this
    have hset : dictSet d n (false, f) = d ++ [(n, (false, f))] := by simp [dictSet, hany]
    rw [hset]
    simp only [List.map_cons, List.nodup_cons] at hnd
    rw [ih _ hnd.2]
    · simp
    · intro z hz y hy
      simp only [List.mem_append, List.mem_singleton] at hy
      rcases hy with hy | rfl
      · exact hfresh z (by simp [hz]) y hy
      · intro e
        exact hnd.1 (by simp only [List.mem_map]; exact ⟨z, hz, e.symm⟩)

theorem zip_map_fst {α β} : ∀ (a : List α) (b : List β), a.length = b.length → (a.zip b).map (·.1) = a
  | [], _, _ => rfl
  | x :: xs, [], h => by simp at h
  | x :: xs, y :: ys, h => by simp [zip_map_fst xs ys (by simpa using h)]

theorem zip_map_snd {α β} : ∀ (a : List α) (b : List β), a.length = b.length → (a.zip b).map (·.2) = b
  | [], [], _ => rfl
  | [], y :: ys, h => by simp at h
  | x :: xs, [], h => by simp at h
  | x :: xs, y :: ys, h => by simp [zip_map_snd xs ys (by simpa using h)]

end Ombott.Router
