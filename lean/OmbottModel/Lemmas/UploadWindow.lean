import OmbottModel.Lemmas.UploadCopy
/-! Refinement of `BytesIOProxy(src, st, en)` to `io.BytesIO(src[st:en])` (C07, upload object). -/
namespace Ombott.Upload
open Py Ombott.Forms

/-- the operations the proxy and a `BytesIO` over the slice define alike, at the reference's current
state: every `read` except `read(0)` (the proxy reads to the end, `BytesIO` returns `b''`); `seek`
whose target does not lie beyond the end (the proxy clamps there, `BytesIO` does not) and, for
`SEEK_SET`, is not negative (the proxy clamps to 0, `BytesIO` raises); `tell` and the constant
methods except `writable` (the proxy says `False`).  Closing is outside the comparison. -/
def Agree (b : Bio) : POp → Prop
  | .read (some k) => k ≠ 0
  | .read none => True
  | .seek pos w =>
    (w = 0 → 0 ≤ pos ∧ pos ≤ b.data.length) ∧ (w = 1 → (b.pos : Int) + pos ≤ b.data.length) ∧ (w = 2 → pos ≤ 0)
  | .tell | .isatty | .seekable | .readable | .fileno | .flush => True
  | .writable | .closed | .close | .closeSrc => False

/-- every operation of the sequence is one both sides define alike, at the state the reference has
reached by then -/
def AgreeSeq : Bio → List POp → Prop
  | _, [] => True
  | b, op :: ops => Agree b op ∧ AgreeSeq (bioOp b op).2 ops

/-- the simulation relation: same window, open source, the proxy's position is `st +` the
reference's -/
def Sim (body : Bytes) (st en : Nat) (s : PSt) (b : Bio) : Prop :=
  s.p = ⟨st, en, ((st + b.pos : Nat) : Int)⟩ ∧ s.closed = false ∧ b.data = window body st en ∧ b.pos ≤ en - st

theorem window_length (body : Bytes) (st en : Nat) (h : en ≤ body.length) (hse : st ≤ en) :
    (window body st en).length = en - st := by
  simp [window, List.length_take]; omega

theorem window_drop (body : Bytes) (st en bp : Nat) :
    (window body st en).drop bp = (body.drop (st + bp)).take (en - (st + bp)) := by
  unfold window
  rw [List.drop_take, List.drop_drop]
  congr 1
  omega

/-- closes the equal-answer / relation goals left after unfolding one operation -/
macro "close_sim" h:ident : tactic =>
  `(tactic| (and_intros <;> first | rfl | trivial | exact $h | omega | (simp only []; omega) | (congr 1; omega) | (congr 2; omega)))

theorem step_sim (body : Bytes) (sp : Bool) (st en : Nat) (hse : st ≤ en) (h3 : en ≤ body.length)
    (s : PSt) (b : Bio) (op : POp) (hs : Sim body st en s b) (ha : Agree b op) :
    (proxyOp body sp s op).1 = (bioOp b op).1 ∧ Sim body st en (proxyOp body sp s op).2 (bioOp b op).2 := by
  obtain ⟨sp', sc⟩ := s
  obtain ⟨bd, bp⟩ := b
  obtain ⟨h1, h2, h4, h5⟩ := hs
  simp only at h1 h2 h4 h5
  subst h1 h2 h4
  have hL := window_length body st en h3 hse
  cases op with
  | read sz =>
    have hrest := window_drop body st en bp
    cases sz with
    | none =>
      obtain ⟨m, hm, hread, hlen, hmdef⟩ := proxyRead_open body sp st en (st + bp) none (by omega) h3
      simp only at hmdef
      simp only [proxyOp, hread, bioOp, Bio.read, hrest]
      have e : en - (st + bp) = m := hmdef.symm
      rw [e, hlen]
      refine ⟨rfl, ?_, rfl, rfl, by simp only; omega⟩
      simp only [Nat.add_assoc]
    | some k =>
      obtain ⟨m, hm, hread, hlen, hmdef⟩ := proxyRead_open body sp st en (st + bp) (some k) (by omega) h3
      simp only at hmdef
      have hk0 : k ≠ 0 := ha
      simp only [proxyOp, hread, bioOp, Bio.read, hrest]
      by_cases hk : k > 0
      · rw [if_pos hk] at hmdef
        rw [if_neg (by omega), List.take_take, ← hmdef, hlen]
        refine ⟨rfl, ?_, rfl, rfl, by simp only; omega⟩
        simp only [Nat.add_assoc]
      · rw [if_neg hk] at hmdef
        rw [if_pos (by omega), ← hmdef, hlen]
        refine ⟨rfl, ?_, rfl, rfl, by simp only; omega⟩
        simp only [Nat.add_assoc]
  | seek pos w =>
    simp only [Agree, hL] at ha
    obtain ⟨a0, a1, a2⟩ := ha
    simp only [proxyOp, proxySeek, bioOp, Bio.seek, hL]
    by_cases hw : w < 0
    · have e0 : ¬ w = 0 := by omega
      have e1 : ¬ w = 1 := by omega
      have e2 : ¬ w = 2 := by omega
      simp only [hw, ↓reduceIte, e0, e1, e2]
      close_sim h5
    · simp only [hw, ↓reduceIte]
      by_cases w0 : w = 0
      · subst w0
        obtain ⟨p0, p1⟩ := a0 rfl
        have hn : ¬ pos < 0 := by omega
        simp only [Int.toNat_zero, Proxy.seek, Proxy.seekSet, hn, ↓reduceIte, Proxy.tell]
        have e : min ((st : Int) + pos) (en : Int) = (st : Int) + pos := by omega
        refine ⟨by rw [e]; congr 1; omega, ?_, rfl, rfl, by simp only; omega⟩
        simp only [e]; congr 1; omega
      · by_cases w1 : w = 1
        · subst w1
          have := a1 rfl
          simp only [show (1 : Int).toNat = 1 from rfl, Proxy.seek, Proxy.seekSet, Proxy.tell, w0, ↓reduceIte]
          by_cases hn : ((st + bp : Nat) : Int) - (st : Int) + pos < 0
          · simp only [hn, ↓reduceIte]
            have e : min ((st : Int) + 0) (en : Int) = (st : Int) := by omega
            refine ⟨by rw [e]; congr 1; omega, ?_, rfl, rfl, by simp only; omega⟩
            simp only [e]; congr 1; omega
          · simp only [hn, ↓reduceIte]
            have e : min ((st : Int) + (((st + bp : Nat) : Int) - (st : Int) + pos)) (en : Int) = (st : Int) + ((bp : Int) + pos) := by omega
            refine ⟨by rw [e]; congr 1; omega, ?_, rfl, rfl, by simp only; omega⟩
            simp only [e]; congr 1; omega
        · by_cases w2 : w = 2
          · subst w2
            have := a2 rfl
            simp only [show (2 : Int).toNat = 2 from rfl, Proxy.seek, Proxy.seekSet, Proxy.tell, w0, w1, ↓reduceIte]
            by_cases hn : (en : Int) + pos - (st : Int) < 0
            · simp only [hn, ↓reduceIte]
              have e : min ((st : Int) + 0) (en : Int) = (st : Int) := by omega
              refine ⟨by rw [e]; congr 1; omega, ?_, rfl, rfl, by simp only; omega⟩
              simp only [e]; congr 1; omega
            · simp only [hn, ↓reduceIte]
              have e : min ((st : Int) + ((en : Int) + pos - (st : Int))) (en : Int) = (en : Int) + pos := by omega
              refine ⟨by rw [e]; congr 1; omega, ?_, rfl, rfl, by simp only; omega⟩
              simp only [e]; congr 1; omega
          · simp only [w0, w1, w2, ↓reduceIte]
            obtain ⟨n, hn⟩ : ∃ n : Nat, w.toNat = n + 3 := ⟨w.toNat - 3, by omega⟩
            simp only [hn, Proxy.seek]
            close_sim h5
  | tell => exact ⟨by simp [proxyOp, bioOp, Proxy.tell]; omega, rfl, rfl, rfl, h5⟩
  | isatty => exact ⟨rfl, rfl, rfl, rfl, h5⟩
  | seekable => exact ⟨rfl, rfl, rfl, rfl, h5⟩
  | readable => exact ⟨rfl, rfl, rfl, rfl, h5⟩
  | fileno => exact ⟨rfl, rfl, rfl, rfl, h5⟩
  | flush => exact ⟨rfl, rfl, rfl, rfl, h5⟩
  | writable => exact absurd ha (by simp [Agree])
  | closed => exact absurd ha (by simp [Agree])
  | close => exact absurd ha (by simp [Agree])
  | closeSrc => exact absurd ha (by simp [Agree])

theorem run_sim (body : Bytes) (sp : Bool) (st en : Nat) (hse : st ≤ en) (h3 : en ≤ body.length) :
    ∀ (ops : List POp) (s : PSt) (b : Bio), Sim body st en s b → AgreeSeq b ops →
      (runProxy body sp s ops).1 = (runBio b ops).1 := by
  intro ops
  induction ops with
  | nil => intro s b _ _; rfl
  | cons op ops ih =>
    intro s b hs ha
    obtain ⟨h1, h2⟩ := step_sim body sp st en hse h3 s b op hs ha.1
    simp only [runProxy, runBio]
    rw [h1, ih _ _ h2 ha.2]

end Ombott.Upload
