import OmbottModel.Lemmas.RouteUrlArgs
import OmbottModel.Lemmas.RouteUrlInt
/-!
From the decidable domain predicate (`urlDomain`, evaluated by the driver on every rule) to the
hypotheses the lemmas use; `Route.url` on a route object as `buildUrl`; the shape of every URL
`url` returns (`interleave`).
-/
namespace Ombott.RouteUrl
open Py Ombott.Router

theorem noMarkerLit_of_B {q : List Sym} (h : noMarkerLitB q = true) : NoMarkerLit q := by
  intro c hc
  have := (List.all_eq_true.mp h) _ hc
  simpa using this

theorem nodup_of_B : ∀ {l : List Str}, nodupB l = true → l.Nodup
  | [], _ => List.nodup_nil
  | a :: l, h => by
    simp only [nodupB, Bool.and_eq_true, Bool.not_eq_true', List.contains_eq_mem, decide_eq_false_iff_not] at h
    exact List.nodup_cons.mpr ⟨h.1, nodup_of_B h.2⟩

theorem urlDomain_spec {r : Route} (h : urlDomain r = true) :
    NoMarkerLit r.symsOut ∧ r.params.Nodup ∧ r.params.length = tokCount r.symsOut ∧
      tokFilters r.symsOut = tokFilters r.syms := by
  simp only [urlDomain, Bool.and_eq_true, beq_iff_eq] at h
  exact ⟨noMarkerLit_of_B h.1.1.1, nodup_of_B h.1.1.2, h.1.2, h.2⟩

/-- `Route.url` with the matched values handed back is `buildUrl` over the output pattern -/
theorem routeUrl_matched (env : FilterEnv) (fenv : FormatEnv) (r : Route) (hd : urlDomain r = true)
    (vs : List Val) (hv : vs.length = tokCount r.symsOut) :
    routeUrl env fenv r (splitArgs r.params vs).1 (splitArgs r.params vs).2 = buildUrl env fenv r.symsOut vs := by
  obtain ⟨h1, h2, h3, h4⟩ := urlDomain_spec hd
  have : urlArgsOf r (splitArgs r.params vs).1 (splitArgs r.params vs).2 = matchedArgs r.symsOut r.params vs := by
    simp [urlArgsOf, matchedArgs, h4]
  unfold routeUrl
  rw [this]
  exact urlOf_matched env fenv r.symsOut r.params vs h1 h2 h3 hv

theorem interleave_noTok (p : List Sym) (h : tokCount p = 0) (ts : List Str) : interleave p ts = patStr p := by
  induction p with
  | nil => rfl
  | cons s p ih =>
    cases s with
    | lit c => simp only [interleave, patStr, List.map_cons, symChar]; congr 1; exact ih (by simpa [tokCount] using h)
    | tok f => simp [tokCount] at h

/-- whatever `urlPieces` joins to is the literal characters of the pattern, verbatim and in
order, with one text per wildcard in between -/
theorem pieces_interleave (env : FilterEnv) (fenv : FormatEnv) (a : UrlArgs) :
    ∀ (q : List Sym) (i k : Nat) (l : List Val) (u : Str),
      urlPieces env fenv a q i k = .ok l → joinVals l = .ok u →
      ∃ ts : List Str, ts.length = tokCount q ∧ u = interleave q ts := by
  intro q
  induction q with
  | nil =>
    intro i k l u h1 h2
    simp only [urlPieces, Except.ok.injEq] at h1
    subst h1
    simp only [joinVals, pure, Except.pure, Except.ok.injEq] at h2
    exact ⟨[], rfl, h2.symm⟩
  | cons s q ih =>
    intro i k l u h1 h2
    cases s with
    | lit c =>
      simp only [urlPieces] at h1
      cases hq : urlPieces env fenv a q i k with
      | error e => rw [hq] at h1; cases h1
      | ok l' =>
        rw [hq] at h1
        simp only [Except.ok.injEq] at h1
        subst h1
        simp only [joinVals] at h2
        cases hj : joinVals l' with
        | error e => rw [hj] at h2; cases h2
        | ok u' =>
          rw [hj] at h2
          simp only [Functor.map, Except.map, Except.ok.injEq] at h2
          obtain ⟨ts, hl, hu⟩ := ih i k l' u' hq hj
          exact ⟨ts, by simpa [tokCount] using hl, by rw [← h2, hu]; rfl⟩
    | tok f =>
      simp only [urlPieces] at h1
      cases hp : pickPiece env fenv a i k (litRun q) with
      | error e => rw [hp] at h1; cases h1
      | ok pk =>
        obtain ⟨prt, k'⟩ := pk
        rw [hp] at h1
        simp only at h1
        cases hq : urlPieces env fenv a q (i + 1) k' with
        | error e => rw [hq] at h1; cases h1
        | ok l' =>
          rw [hq] at h1
          simp only [Except.ok.injEq] at h1
          subst h1
          cases prt with
          | conv s => simp [joinVals] at h2
          | str t =>
            simp only [joinVals] at h2
            cases hj : joinVals l' with
            | error e => rw [hj] at h2; cases h2
            | ok u' =>
              rw [hj] at h2
              simp only [Functor.map, Except.map, Except.ok.injEq] at h2
              obtain ⟨ts, hl, hu⟩ := ih (i + 1) k' l' u' hq hj
              exact ⟨t :: ts, by simp [tokCount, hl], by rw [← h2, hu]; rfl⟩

/-- `ts` are the texts the values `vs` were formatted to, wildcard by wildcard (`cs` = filter
and following literal run of each wildcard, `tokCtx`) -/
def Formatted (env : FilterEnv) (fenv : FormatEnv) : List (Option Fid × Str) → List Val → List Str → Prop
  | [], _, ts => ts = []
  | c :: cs, v :: vs, t :: ts => piece env fenv c.1 c.2 v = .ok (.str t) ∧ Formatted env fenv cs vs ts
  | _ :: _, _, _ => False

/-- the URL built by the spec: the literal characters verbatim and in order, and between them,
for the `i`-th wildcard, the text its value was formatted to (sanity-checked in front of the
literal run that follows) -/
theorem buildUrl_interleave (env : FilterEnv) (fenv : FormatEnv) :
    ∀ (p : List Sym) (vs : List Val) (u : Str), buildUrl env fenv p vs = .ok u →
      ∃ ts : List Str, ts.length = tokCount p ∧ u = interleave p ts ∧ Formatted env fenv (tokCtx p) vs ts := by
  intro p
  induction p with
  | nil =>
    intro vs u h
    rw [buildUrl_nil] at h
    cases h
    exact ⟨[], rfl, rfl, rfl⟩
  | cons s p ih =>
    intro vs u h
    cases s with
    | lit c =>
      obtain ⟨u', hb, rfl⟩ := buildUrl_lit_ok.mp h
      obtain ⟨ts, hl, hu, hf⟩ := ih vs u' hb
      exact ⟨ts, by simpa [tokCount] using hl, by rw [hu]; rfl, hf⟩
    | tok f =>
      cases vs with
      | nil => rw [buildUrl_tok_nil] at h; cases h
      | cons v vs =>
        obtain ⟨t, u', hp, hb, rfl⟩ := buildUrl_tok_ok.mp h
        obtain ⟨ts, hl, hu, hf⟩ := ih vs u' hb
        exact ⟨t :: ts, by simp [tokCount, hl], by rw [hu]; rfl, ⟨hp, hf⟩⟩

end Ombott.RouteUrl
