import OmbottModel.Lemmas.EnvCacheBody
import OmbottModel.Lemmas.QsDict
/-!
The getters computed from the buffered body: `_get_body_string`, `json`, `POST`, `forms`, `files`,
`params`.
-/
namespace Ombott.EnvCache
open Py Ombott.Body Ombott.Forms Ombott.BodyAccess

variable (cfg : Cfg) (L : Lib)

/-- the reference for `_get_body_string` -/
def spBodyString : M Bytes := fun s =>
  match spBody cfg s with
  | (.error x, s') => (.error x, s')
  | (.ok b, s') =>
    match asBody b with
    | .error x => (.error x, s')
    | .ok bd => (bodyStringOf cfg s'.env bd.1, s')

theorem sim_bodyString (s : RS) (hI : Inv cfg L s.env) : Sim cfg L (getBodyString cfg) (spBodyString cfg) s := by
  have h := Sim.bind (sim_body cfg L s hI)
    (f := fun b => M.bind (liftE (asBody b)) fun bd => M.bind rdContentLength fun cl =>
      M.bind (liftE (asInt cl)) fun cl => liftE (bodyStringFrom cfg bd.1 cl))
    (T := fun b => M.bind (liftE (asBody b)) fun bd => M.bind (specRead cfg L .contentLength) fun cl =>
      M.bind (liftE (asInt cl)) fun cl => liftE (bodyStringFrom cfg bd.1 cl))
    (fun b s1 hm => by
      have hI1 := (sim_body cfg L s hI).inv_of cfg L hm
      exact Sim.bind (Sim.liftE _ s1 hI1) fun bd s2 h2 => by
        obtain ⟨rfl, -⟩ := liftE_state h2
        exact Sim.bind (sim_contentLength cfg L _ hI1) fun cl s3 h3 => by
          have hI3 := (sim_contentLength cfg L _ hI1).inv_of cfg L h3
          exact Sim.bind (Sim.liftE _ s3 hI3) fun cl' s4 h4 => by
            obtain ⟨rfl, -⟩ := liftE_state h4
            exact Sim.liftE _ _ hI3)
  refine h.congr cfg L ?_
  funext t
  simp only [spBodyString, M.bind]
  rcases spBody cfg t with ⟨rb, t'⟩
  cases rb with
  | error x => rfl
  | ok b =>
    simp only [liftE]
    cases asBody b with
    | error x => rfl
    | ok bd =>
      simp only [specRead, desc, bodyStringOf]
      cases contentLengthOf t'.env with
      | error x => rfl
      | ok v =>
        simp only [Except.bind]
        cases asInt v <;> rfl

/-- the reference for `json`, spelled out -/
theorem specRead_json : specRead cfg L .json = fun s =>
    if needJson s.env then
      match spBodyString cfg s with
      | (.error x, s') => (.error x, s')
      | (.ok b, s') => (jsonFrom cfg L b, s')
    else (.ok .none, s) := by
  funext t
  simp only [specRead, desc, viaBody, spBodyString]
  split
  · rcases spBody cfg t with ⟨rb, t'⟩
    cases rb with
    | error x => rfl
    | ok b =>
      simp only
      cases asBody b with
      | error x => rfl
      | ok bd =>
        obtain ⟨sk, ct⟩ := bd
        simp only [jsonK]
        cases bodyStringOf cfg t'.env sk <;> rfl
  · rfl

theorem needJson_eq (e : Env) : needJson e = decide (((splitOn1 ';' (lower ((e.str? cs!"CONTENT_TYPE").getD []))).map strip).head? = some cs!"application/json") := by
  simp [needJson, ctypeOf, contentTypeOf, ctypeFrom, asStrs, Except.bind]

theorem sim_json (s : RS) (hI : Inv cfg L s.env) : Sim cfg L (rdJson cfg L) (specRead cfg L .json) s := by
  apply cacheIn_sim cfg L .json (by simp [desc]) (by simp) _ s hI
  intro _
  have h := Sim.bind (sim_ctype cfg L s hI)
    (f := fun ct => M.bind (liftE (asStrs ct)) fun ct =>
      if ct.head? = some cs!"application/json" then M.bind (getBodyString cfg) fun b => liftE (jsonFrom cfg L b)
      else M.ret .none)
    (T := fun ct => M.bind (liftE (asStrs ct)) fun ct =>
      if ct.head? = some cs!"application/json" then M.bind (spBodyString cfg) fun b => liftE (jsonFrom cfg L b)
      else M.ret .none)
    (fun ct s1 hm => by
      have hI1 := (sim_ctype cfg L s hI).inv_of cfg L hm
      exact Sim.bind (Sim.liftE _ s1 hI1) fun l s2 h2 => by
        obtain ⟨rfl, -⟩ := liftE_state h2
        by_cases hh : l.head? = some cs!"application/json"
        · simp only [hh, if_true]
          exact Sim.bind (sim_bodyString cfg L _ hI1) fun b s3 h3 =>
            Sim.liftE _ _ ((sim_bodyString cfg L _ hI1).inv_of cfg L h3)
        · simp only [hh, if_false]
          exact Sim.ret _ _ hI1)
  refine h.congr cfg L ?_
  rw [specRead_json]
  funext t
  simp only [M.bind, specRead, desc, ctypeOf, contentTypeOf, ctypeFrom, liftE, asStrs, needJson_eq, M.ret]
  by_cases hh : ((splitOn1 ';' (lower ((t.env.str? cs!"CONTENT_TYPE").getD []))).map strip).head? = some cs!"application/json"
  · simp only [hh, if_true, decide_true]
    rcases hsb : spBodyString cfg t with ⟨rb, t'⟩
    simp only [M.bind, hsb, liftE]
    cases rb <;> rfl
  · simp only [hh, if_false, decide_false]; rfl

/-- the reference for one run of `POST`: `(post, forms, files)` -/
def spPostTriple : M (FD × FD × FD) := fun s =>
  if needPost s.env then
    match spBody cfg s with
    | (.error x, s') => (.error x, s')
    | (.ok b, s') =>
      match asBody b with
      | .error x => (.error x, s')
      | .ok bd => (postK cfg L s'.env bd.1 bd.2, s')
  else (postK0 cfg s.env, s)

/-- the same, step by step as `POST` goes -/
def spPostM : M (FD × FD × FD) :=
  M.bind (specRead cfg L .contentType) fun ct => M.bind (liftE (asStr ct)) fun ct =>
    if ¬ startsWithS ct cs!"multipart/" then
      if startsWithS ct cs!"application/json" then
        M.bind (specRead cfg L .json) fun data => M.bind (liftE (postOfJson cfg data)) fun post => M.ret (post, post, [])
      else M.bind (spBodyString cfg) fun b => M.bind (liftE (postOfUrlencoded b)) fun post => M.ret (post, post, [])
    else
      M.bind (spBody cfg) fun b => M.bind (liftE (asBody b)) fun bd => liftE (collectMultipart cfg L bd.1 bd.2)

theorem ctLower_spBody (t : RS) : ctLower (spBody cfg t).2.env = ctLower t.env :=
  ro_ctLower.sameOutside (fun k hk => by simp at hk; subst hk; decide) (spBody_same cfg t).1

theorem spPostM_head (t : RS) : spPostM cfg L t =
    (if ¬ startsWithS (ctLower t.env) cs!"multipart/" then
      if startsWithS (ctLower t.env) cs!"application/json" then
        M.bind (specRead cfg L .json) fun data => M.bind (liftE (postOfJson cfg data)) fun post => M.ret (post, post, [])
      else M.bind (spBodyString cfg) fun b => M.bind (liftE (postOfUrlencoded b)) fun post => M.ret (post, post, [])
    else
      M.bind (spBody cfg) fun b => M.bind (liftE (asBody b)) fun bd => liftE (collectMultipart cfg L bd.1 bd.2)) t := rfl

theorem spPostM_eq : spPostM cfg L = spPostTriple cfg L := by
  funext t
  rw [spPostM_head]
  unfold spPostTriple
  by_cases hm : startsWithS (ctLower t.env) cs!"multipart/" = true
  · have hn : needPost t.env = true := by simp [needPost, hm]
    simp only [hm, hn, not_true_eq_false, if_false, if_true]
    have hc := ctLower_spBody cfg t
    rcases hsb : spBody cfg t with ⟨rb, t'⟩
    rw [hsb] at hc
    simp only at hc
    simp only [M.bind, hsb]
    cases rb with
    | error x => rfl
    | ok b =>
      simp only [liftE]
      cases asBody b with
      | error x => rfl
      | ok bd => simp only [postK, hc, hm, if_true]
  · simp only [hm, Bool.false_eq_true, not_false_eq_true, ↓reduceIte]
    by_cases hj : startsWithS (ctLower t.env) cs!"application/json" = true
    · have hn : needPost t.env = needJson t.env := by simp [needPost, hm, hj]
      simp only [hj, ↓reduceIte, hn]
      have hsj := congrFun (specRead_json cfg L) t
      by_cases hnj : needJson t.env = true
      · simp only [hnj, if_true] at hsj ⊢
        have hc := ctLower_spBody cfg t
        simp only [spBodyString] at hsj
        rcases hsb : spBody cfg t with ⟨rb, t'⟩
        rw [hsb] at hc hsj
        simp only at hc hsj
        cases rb with
        | error x =>
          simp only at hsj
          simp only [M.bind, hsj]
        | ok b =>
          simp only at hsj ⊢
          cases hab : asBody b with
          | error x =>
            rw [hab] at hsj
            simp only at hsj
            simp only [M.bind, hsj]
          | ok bd =>
            rw [hab] at hsj
            simp only at hsj
            simp only [M.bind, hsj, postK, hc, hm, hj, if_true, jsonK, liftE, M.ret]
            cases bodyStringOf cfg t'.env bd.1 with
            | error x => rfl
            | ok bs =>
              simp only [Except.bind]
              cases jsonFrom cfg L bs with
              | error x => rfl
              | ok d =>
                simp only
                cases postOfJson cfg d <;> rfl
      · simp only [hnj, Bool.false_eq_true, ↓reduceIte] at hsj ⊢
        simp only [M.bind, hsj, postK0, liftE, M.ret]
        cases postOfJson cfg .none <;> rfl
    · have hn : needPost t.env = true := by simp [needPost, hm, hj]
      simp only [hj, hn, Bool.false_eq_true, ↓reduceIte]
      have hc := ctLower_spBody cfg t
      rcases hsb : spBody cfg t with ⟨rb, t'⟩
      rw [hsb] at hc
      simp only at hc
      cases rb with
      | error x => simp only [M.bind, spBodyString, hsb]
      | ok b =>
        simp only
        cases hab : asBody b with
        | error x => simp only [M.bind, spBodyString, hsb, hab]
        | ok bd =>
          simp only [M.bind, spBodyString, hsb, hab, postK, hc, hm, hj, liftE, M.ret]
          cases bodyStringOf cfg t'.env bd.1 with
          | error x => rfl
          | ok bs =>
            simp only [Except.bind]
            cases postOfUrlencoded bs <;> rfl

theorem sim_postCompute (s : RS) (hI : Inv cfg L s.env) : Sim cfg L (postCompute cfg L) (spPostTriple cfg L) s := by
  rw [← spPostM_eq]
  exact Sim.bind (sim_contentType cfg L s hI) fun ct s1 hm => by
    have hI1 := (sim_contentType cfg L s hI).inv_of cfg L hm
    exact Sim.bind (Sim.liftE _ s1 hI1) fun ct s2 h2 => by
      obtain ⟨rfl, -⟩ := liftE_state h2
      by_cases hmp : startsWithS ct cs!"multipart/" = true
      · simp only [hmp, not_true_eq_false, if_false]
        exact Sim.bind (sim_body cfg L _ hI1) fun b s3 h3 => by
          have hI3 := (sim_body cfg L _ hI1).inv_of cfg L h3
          exact Sim.bind (Sim.liftE _ s3 hI3) fun bd s4 h4 => by
            obtain ⟨rfl, -⟩ := liftE_state h4
            exact Sim.liftE _ _ hI3
      · simp only [hmp, Bool.false_eq_true, not_false_eq_true, ↓reduceIte]
        by_cases hj : startsWithS ct cs!"application/json" = true
        · simp only [hj, ↓reduceIte]
          exact Sim.bind (sim_json cfg L _ hI1) fun d s3 h3 => by
            have hI3 := (sim_json cfg L _ hI1).inv_of cfg L h3
            exact Sim.bind (Sim.liftE _ s3 hI3) fun post s4 h4 => by
              obtain ⟨rfl, -⟩ := liftE_state h4
              exact Sim.ret _ _ hI3
        · simp only [hj, Bool.false_eq_true, ↓reduceIte]
          exact Sim.bind (sim_bodyString cfg L _ hI1) fun d s3 h3 => by
            have hI3 := (sim_bodyString cfg L _ hI1).inv_of cfg L h3
            exact Sim.bind (Sim.liftE _ s3 hI3) fun post s4 h4 => by
              obtain ⟨rfl, -⟩ := liftE_state h4
              exact Sim.ret _ _ hI3

/-- `POST`, `forms`, `files` are the three components of one run -/
theorem specRead_triple (p : Prop') (proj : FD × FD × FD → FD)
    (hd : desc cfg L p = .viaBody [kCT, kCL] needPost (fun e => (postK0 cfg e).map fun t => .dict (proj t))
      (fun e sk ct => (postK cfg L e sk ct).map fun t => .dict (proj t))) :
    specRead cfg L p = fun s => ((spPostTriple cfg L s).1.map fun t => Val.dict (proj t), (spPostTriple cfg L s).2) := by
  funext t
  unfold specRead
  rw [hd]
  simp only [viaBody, spPostTriple]
  split
  · rcases spBody cfg t with ⟨rb, t'⟩
    cases rb with
    | error x => rfl
    | ok b =>
      simp only
      cases asBody b with
      | error x => rfl
      | ok bd => obtain ⟨sk, ct⟩ := bd; rfl
  · rfl

theorem specRead_post : specRead cfg L .post = fun s =>
    ((spPostTriple cfg L s).1.map fun t => Val.dict t.1, (spPostTriple cfg L s).2) :=
  specRead_triple cfg L .post (·.1) rfl
theorem specRead_forms : specRead cfg L .forms = fun s =>
    ((spPostTriple cfg L s).1.map fun t => Val.dict t.2.1, (spPostTriple cfg L s).2) :=
  specRead_triple cfg L .forms (·.2.1) rfl
theorem specRead_files : specRead cfg L .files = fun s =>
    ((spPostTriple cfg L s).1.map fun t => Val.dict t.2.2, (spPostTriple cfg L s).2) :=
  specRead_triple cfg L .files (·.2.2) rfl

/-- where `POST` leaves the state when it publishes `t` -/
def published (s1 : RS) (t : FD × FD × FD) : RS :=
  { s1 with env := (s1.env.set kFiles (.dict t.2.2)).set kForms (.dict t.2.1) }

theorem cacheKeys3 : isCacheKey kFiles = true ∧ isCacheKey kForms = true ∧ isCacheKey kPost = true := by decide

theorem published_ok (s s1 : RS) (t : FD × FD × FD) (hI1 : Inv cfg L s1.env)
    (hsp : spPostTriple cfg L (A s) = (.ok t, A s1)) :
    Inv cfg L (published s1 t).env ∧ A (published s1 t) = A s1 ∧
      (published s1 t).env.get? kForms ≠ none ∧ (published s1 t).env.get? kFiles ≠ none := by
  obtain ⟨c1, c2, -⟩ := cacheKeys3
  have hfl : CachedOK cfg L .files s1.env (.dict t.2.2) :=
    cachedOK_of_spec cfg L .files (by simp [desc]) s s1 _ (by rw [specRead_files]; simp [hsp, Except.map])
  have hfo : CachedOK cfg L .forms s1.env (.dict t.2.1) :=
    cachedOK_of_spec cfg L .forms (by simp [desc]) s s1 _ (by rw [specRead_forms]; simp [hsp, Except.map])
  have i1 : Inv cfg L (s1.env.set kFiles (.dict t.2.2)) := hI1.store .files _ c1 (by simp) hfl
  have i2 : Inv cfg L ((s1.env.set kFiles (.dict t.2.2)).set kForms (.dict t.2.1)) :=
    i1.store .forms _ c2 (by simp) (CachedOK_set_cache cfg L .forms _ _ _ _ c1 hfo)
  refine ⟨i2, ?_, ?_, ?_⟩
  · simp [published, A, erase_set_cache _ _ _ c1, erase_set_cache _ _ _ c2]
  · simp [published, get?_set_self]
  · exact get?_set_isSome _ _ _ _ (by simp [get?_set_self])

/-- the getter under `cache_in` of `POST` -/
def postGetter : M Val := M.bind (postCompute cfg L) fun t =>
  M.bind (store kFiles (.dict t.2.2)) fun _ => M.bind (store kForms (.dict t.2.1)) fun _ => M.ret (.dict t.1)

theorem postGetter_eq (s : RS) : postGetter cfg L s =
    match postCompute cfg L s with
    | (.ok t, s1) => (.ok (.dict t.1), published s1 t)
    | (.error x, s1) => (.error x, s1) := by
  simp only [postGetter, M.bind]
  rcases postCompute cfg L s with ⟨r, s1⟩
  cases r <;> rfl

theorem sim_postGetter (s : RS) (hI : Inv cfg L s.env) : Sim cfg L (postGetter cfg L) (specRead cfg L .post) s := by
  have hpc := sim_postCompute cfg L s hI
  obtain ⟨p1, p2, p3⟩ := hpc
  unfold Sim
  rw [postGetter_eq, specRead_post]
  rcases hc : postCompute cfg L s with ⟨r, s1⟩
  rw [hc] at p1 p2 p3
  simp only at p1 p2 p3
  cases r with
  | error x => simp only [← p1, ← p2]; exact ⟨rfl, trivial, p3⟩
  | ok t =>
    have hsp : spPostTriple cfg L (A s) = (.ok t, A s1) := Prod.ext p1.symm p2.symm
    obtain ⟨q1, q2, -, -⟩ := published_ok cfg L s s1 t p3 hsp
    simp only [hsp]
    exact ⟨rfl, q2, q1⟩

theorem sim_post (s : RS) (hI : Inv cfg L s.env) : Sim cfg L (rdPost cfg L) (specRead cfg L .post) s := by
  apply cacheIn_sim' cfg L .post (by simp [desc]) (postGetter cfg L) s hI
  · intro _ v s2 hg
    rw [postGetter_eq] at hg
    have hpc := sim_postCompute cfg L s hI
    obtain ⟨p1, p2, p3⟩ := hpc
    rcases hc : postCompute cfg L s with ⟨r, s1⟩
    rw [hc] at hg p1 p2 p3
    cases r with
    | error x => simp at hg
    | ok t =>
      simp only [Prod.mk.injEq] at hg
      obtain ⟨-, rfl⟩ := hg
      have hsp : spPostTriple cfg L (A s) = (.ok t, A s1) := Prod.ext p1.symm p2.symm
      exact (published_ok cfg L s s1 t p3 hsp).2.2
  · intro _; exact sim_postGetter cfg L s hI

/-- `POST` when nothing is cached yet -/
theorem rdPost_fresh (s : RS) (h : s.env.get? kPost = none) : rdPost cfg L s =
    match postCompute cfg L s with
    | (.ok t, s1) => (.ok (.dict t.1), { published s1 t with env := (published s1 t).env.set kPost (.dict t.1) })
    | (.error x, s1) => (.error x, s1) := by
  have : rdPost cfg L = cacheIn kPost (postGetter cfg L) := rfl
  rw [this]
  simp only [cacheIn, h, postGetter_eq]
  rcases postCompute cfg L s with ⟨r, s1⟩
  cases r <;> rfl

/-- `forms` / `files`: `self.POST; return self.environ[key]` -/
theorem sim_formsLike (p : Prop') (k : Key) (proj : FD × FD × FD → FD) (hk : p.key = k) (hkp : k ≠ kPost)
    (hp : p = .forms ∨ p = .files)
    (hsp : specRead cfg L p = fun s => ((spPostTriple cfg L s).1.map fun t => Val.dict (proj t), (spPostTriple cfg L s).2))
    (hget : ∀ (s1 : RS) t, (published s1 t).env.get? k = some (.dict (proj t)))
    (s : RS) (hI : Inv cfg L s.env) :
    Sim cfg L (cacheIn k (M.bind (rdPost cfg L) fun _ => envItem k)) (specRead cfg L p) s := by
  have hs : desc cfg L p ≠ .special := by rcases hp with rfl | rfl <;> simp [desc]
  have hnp : p ≠ .post := by rcases hp with rfl | rfl <;> simp
  rw [← hk]
  apply cacheIn_sim cfg L p hs hnp _ s hI
  intro hnone
  rw [hk] at hnone ⊢
  -- nothing of `POST` is cached either
  have hpost : s.env.get? kPost = none := by
    cases hc : s.env.get? kPost with
    | none => rfl
    | some v =>
      have := hI.postCons (by rw [hc]; simp)
      rw [← hk] at hnone
      rcases hp with rfl | rfl
      · exact absurd hnone this.1
      · exact absurd hnone this.2
  have hsim := sim_post cfg L s hI
  obtain ⟨r1, r2, r3⟩ := hsim
  have hpc := sim_postCompute cfg L s hI
  obtain ⟨p1, p2, -⟩ := hpc
  rw [specRead_post] at r1 r2
  rw [rdPost_fresh cfg L s hpost] at r1 r2 r3
  unfold Sim
  rw [hsp]
  simp only [M.bind, rdPost_fresh cfg L s hpost]
  rcases hc : postCompute cfg L s with ⟨r, s1⟩
  rw [hc] at p1 p2 r1 r2 r3
  simp only at p1 p2 r1 r2 r3 ⊢
  cases r with
  | error x => exact ⟨by rw [← p1]; rfl, r2, r3⟩
  | ok t =>
    simp only [envItem, get?_set_ne _ _ _ _ hkp, hget s1 t] at r2 r3 ⊢
    exact ⟨by rw [← p1]; rfl, r2, r3⟩

theorem sim_forms (s : RS) (hI : Inv cfg L s.env) : Sim cfg L (rdForms cfg L) (specRead cfg L .forms) s :=
  sim_formsLike cfg L .forms kForms (·.2.1) rfl (by decide) (Or.inl rfl) (specRead_forms cfg L)
    (fun s1 t => by simp [published, get?_set_self]) s hI

theorem sim_files (s : RS) (hI : Inv cfg L s.env) : Sim cfg L (rdFiles cfg L) (specRead cfg L .files) s :=
  sim_formsLike cfg L .files kFiles (·.2.2) rfl (by decide) (Or.inr rfl) (specRead_files cfg L)
    (fun s1 t => by
      have : kFiles ≠ kForms := by decide
      simp [published, get?_set_ne _ _ _ _ this, get?_set_self]) s hI

/-- `parse_qsl` never raises (C18 `qs_never_raises`): `query` always has a dictionary -/
theorem queryOf_ok (e : Env) : ∃ d, queryOf e = .ok (.dict d) := by
  have hq : ∃ d, Qs.query ((e.str? cs!"QUERY_STRING").getD []) = .ok d := by
    unfold Qs.query
    split
    · exact ⟨_, rfl⟩
    · exact ⟨_, Qs.addAll_group _⟩
  obtain ⟨d, hd⟩ := hq
  exact ⟨ofQsDict d, by simp [queryOf, hd]⟩

theorem queryOf_spBody (t : RS) : queryOf (spBody cfg t).2.env = queryOf t.env :=
  ro_queryOf.sameOutside (fun k hk => by simp at hk; subst hk; decide) (spBody_same cfg t).1

theorem sim_params (s : RS) (hI : Inv cfg L s.env) : Sim cfg L (rdParams cfg L) (specRead cfg L .params) s := by
  apply cacheIn_sim cfg L .params (by simp [desc]) (by simp) _ s hI
  intro _
  have h := Sim.bind (sim_query cfg L s hI)
    (f := fun q => M.bind (liftE (asDict q)) fun q => M.bind (rdForms cfg L) fun f =>
      M.bind (liftE (asDict f)) fun f => M.ret (Val.dict (mergeDicts q f)))
    (T := fun q => M.bind (liftE (asDict q)) fun q => M.bind (specRead cfg L .forms) fun f =>
      M.bind (liftE (asDict f)) fun f => M.ret (Val.dict (mergeDicts q f)))
    (fun q s1 hm => by
      have hI1 := (sim_query cfg L s hI).inv_of cfg L hm
      exact Sim.bind (Sim.liftE _ s1 hI1) fun q s2 h2 => by
        obtain ⟨rfl, -⟩ := liftE_state h2
        exact Sim.bind (sim_forms cfg L _ hI1) fun f s3 h3 => by
          have hI3 := (sim_forms cfg L _ hI1).inv_of cfg L h3
          exact Sim.bind (Sim.liftE _ s3 hI3) fun f s4 h4 => by
            obtain ⟨rfl, -⟩ := liftE_state h4
            exact Sim.ret _ _ hI3)
  refine h.congr cfg L ?_
  funext t
  obtain ⟨d, hd⟩ := queryOf_ok t.env
  have hq : specRead cfg L .query t = (.ok (.dict d), t) := by
    show (queryOf t.env, t) = _
    rw [hd]
  have hf := congrFun (specRead_forms cfg L) t
  have hqb := queryOf_spBody cfg t
  simp only [M.bind, hq, liftE, asDict, hf, spPostTriple]
  simp only [specRead, desc, viaBody]
  by_cases hn : needPost t.env = true
  · simp only [hn, ↓reduceIte]
    rcases hsb : spBody cfg t with ⟨rb, t'⟩
    rw [hsb] at hqb
    simp only at hqb
    cases rb with
    | error x => rfl
    | ok b =>
      simp only
      cases asBody b with
      | error x => rfl
      | ok bd =>
        obtain ⟨sk, ct⟩ := bd
        simp only
        cases postK cfg L t'.env sk ct with
        | error x => rfl
        | ok tr => simp [Except.map, Except.bind, paramsFrom, hqb, hd, asDict, M.ret]
  · simp only [hn, Bool.false_eq_true, ↓reduceIte]
    cases postK0 cfg t.env with
    | error x => rfl
    | ok tr => simp [Except.map, Except.bind, paramsFrom, hd, asDict, M.ret]

/-! ### the attributes only the framework sets, the header view, and all of them together -/

theorem sim_external (k : Key) (s : RS) (hI : Inv cfg L s.env) (hk : s.env.get? k = none) :
    Sim cfg L (rdExternal k) (M.fail (.py .runtimeError)) s := by
  refine ⟨?_, ?_, ?_⟩ <;> simp only [rdExternal, cacheIn, hk, M.fail]
  all_goals first | rfl | exact hI

theorem kHeaders_facts : isCacheKey kHeaders = true ∧ kHeaders ≠ kPost ∧
    ∀ q : Prop', desc cfg L q ≠ .special → q.key ≠ kHeaders := by
  refine ⟨by decide, by decide, ?_⟩
  intro q hq; cases q <;> first | (exact absurd rfl hq) | decide

theorem ownView_iff (e : Env) (i : Nat) :
    ownView e i = true ↔ (e.get? kHeaders = none ∨ e.get? kHeaders = some (.view i)) := by
  unfold ownView
  cases e.get? kHeaders with
  | none => simp
  | some v => simp

theorem sim_headers (s : RS) (hI : Inv cfg L s.env) (hv : ownView s.env s.self = true) :
    Sim cfg L rdHeaders (specRead cfg L .headers) s := by
  rw [ownView_iff] at hv
  obtain ⟨c1, c2, c3⟩ := kHeaders_facts cfg L
  have hsp : specRead cfg L .headers = fun s => (.ok (.view s.self), s) := rfl
  rw [hsp]
  rcases hv with h | h
  · refine ⟨?_, ?_, ?_⟩ <;> simp only [rdHeaders, cacheIn, h]
    all_goals first | rfl | exact hI.store_other kHeaders _ c1 c3 c2 | simp [A, erase_set_cache _ _ _ c1]
  · refine ⟨?_, ?_, ?_⟩ <;> simp only [rdHeaders, cacheIn, h]
    all_goals first | rfl | exact hI

/-- when is a read in scope: always, except `headers` on a request that carries another request's view -/
def safeRead (p : Prop') (s : RS) : Prop := p = .headers → ownView s.env s.self = true

/-- **every getter simulates the reference** -/
theorem sim_read (p : Prop') (s : RS) (hI : Inv cfg L s.env) (hs : safeRead p s) :
    Sim cfg L (readProp cfg L p) (specRead cfg L p) s := by
  cases p with
  | app => exact sim_external cfg L kApp s hI hI.noExt.1
  | route => exact sim_external cfg L kRoute s hI hI.noExt.2.1
  | urlArgs => exact sim_external cfg L kUrlArgs s hI hI.noExt.2.2
  | headers => exact sim_headers cfg L s hI (hs rfl)
  | cookies => exact sim_cookies cfg L s hI
  | params => exact sim_params cfg L s hI
  | url => exact sim_url cfg L s hI
  | urlparts => exact sim_urlparts cfg L s hI
  | fullpath => exact sim_fullpath cfg L s hI
  | scriptName => exact sim_scriptName cfg L s hI
  | isJsonRequested => exact sim_isJson cfg L s hI
  | remoteRoute => exact sim_remoteRoute cfg L s hI
  | contentLength => exact sim_contentLength cfg L s hI
  | contentType => exact sim_contentType cfg L s hI
  | ctype => exact sim_ctype cfg L s hI
  | query => exact sim_query cfg L s hI
  | json => exact sim_json cfg L s hI
  | post => exact sim_post cfg L s hI
  | forms => exact sim_forms cfg L s hI
  | files => exact sim_files cfg L s hI
  | body => exact sim_body cfg L s hI

end Ombott.EnvCache
