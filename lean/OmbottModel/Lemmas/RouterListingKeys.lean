import OmbottModel.Lemmas.RouterListingHist
import OmbottModel.Lemmas.RouterEditProps
import OmbottModel.Lemmas.RouterEditFreshTree
/-!
C11 (listing), helper lemmas (3): `RadiDict._match` without filters only sees the shape of a
pattern; the key forms of `RadiRouter.__getitem__` in terms of the `routes` index; the route a
lookup returns is the one `resolve` dispatches on.
-/
namespace Ombott.Router
open Py

/-! ### `_match` without `param_filters` -/

theorem stripKey_shape (k : Str) (p : List Sym) : stripKey k (shape p) = (stripKey k p).map shape := by
  induction k generalizing p with
  | nil => simp [stripKey]
  | cons c ks ih =>
    cases p with
    | nil => simp [stripKey]
    | cons s p =>
      cases s with
      | lit d =>
        simp only [shape_cons, shapeSym, stripKey]
        split
        · exact ih p
        · rfl
      | tok g => simp [shape_cons, shapeSym, stripKey]

mutual
theorem findN_false_shape (n : Node) (p : List Sym) : findN false n (shape p) = findN false n p := by
  match n, p with
  | .mk k d pk f hk lits tok, [] => rfl
  | .mk k d pk f hk lits tok, .lit c :: r =>
    simp only [shape_cons, shapeSym, findN]
    exact findL_false_shape lits c r
  | .mk k d pk f hk lits tok, .tok g :: r =>
    simp only [shape_cons, shapeSym, findN]
    exact findT_false_shape tok none g r
theorem findT_false_shape (t : Option Node) (g g' : Option Fid) (r : List Sym) :
    findT false t g (shape r) = findT false t g' r := by
  match t with
  | none => rfl
  | some t0 =>
    simp only [findT, Bool.false_and, Bool.false_eq_true, if_false]
    exact findN_false_shape t0 r
theorem findL_false_shape (ks : List Node) (c : Char) (r : List Sym) :
    findL false ks c (shape r) = findL false ks c r := by
  match ks with
  | [] => rfl
  | k :: ks =>
    simp only [findL]
    split
    · have : (Sym.lit c :: shape r) = shape (.lit c :: r) := rfl
      rw [this, stripKey_shape]
      cases stripKey k.key (.lit c :: r) with
      | none => rfl
      | some rest => simp only [Option.map_some, Option.elim]; exact findN_false_shape k rest
    · exact findL_false_shape ks c r
end

mutual
/-- a walk without filter comparison ends where the walk with the tree's own filters ends -/
theorem findN_false_lift (n : Node) (q : List Sym) (m : Node) (h : findN false n q = .ok m) :
    ∃ p, shape p = shape q ∧ findN true n p = .ok m := by
  match n, q with
  | .mk k d pk f hk lits tok, [] => exact ⟨[], rfl, h⟩
  | .mk k d pk f hk lits tok, .lit c :: r =>
    simp only [findN] at h
    obtain ⟨r', hs, hf⟩ := findL_false_lift lits c r m h
    exact ⟨.lit c :: r', by simp [hs, shapeSym], by simpa [findN] using hf⟩
  | .mk k d pk f hk lits tok, .tok g :: r =>
    simp only [findN] at h
    obtain ⟨g', r', hs, hf⟩ := findT_false_lift tok g r m h
    exact ⟨.tok g' :: r', by simp [hs, shapeSym], by simpa [findN] using hf⟩
theorem findT_false_lift (t : Option Node) (g : Option Fid) (r : List Sym) (m : Node)
    (h : findT false t g r = .ok m) : ∃ g' r', shape r' = shape r ∧ findT true t g' r' = .ok m := by
  match t with
  | none => simp [findT] at h
  | some t0 =>
    simp only [findT, Bool.false_and, Bool.false_eq_true, if_false] at h
    obtain ⟨r', hs, hf⟩ := findN_false_lift t0 r m h
    exact ⟨t0.filter, r', hs, by simp [findT, hf]⟩
theorem findL_false_lift (ks : List Node) (c : Char) (r : List Sym) (m : Node)
    (h : findL false ks c r = .ok m) : ∃ r', shape r' = shape r ∧ findL true ks c r' = .ok m := by
  match ks with
  | [] => simp [findL] at h
  | k :: ks =>
    simp only [findL] at h
    split at h
    · rename_i hh
      cases hs : stripKey k.key (.lit c :: r) with
      | none => rw [hs] at h; simp [Option.elim] at h
      | some rest =>
        rw [hs] at h
        simp only [Option.elim] at h
        obtain ⟨rest', hsh, hf⟩ := findN_false_lift k rest m h
        have hsplit := stripKey_some hs
        cases hkk : k.key with
        | nil => rw [hkk] at hh; simp at hh
        | cons c0 cs =>
          rw [hkk] at hh hsplit
          have hc : c0 = c := by simpa using hh
          subst hc
          simp only [litSyms, List.map_cons, List.cons_append, List.cons.injEq, true_and] at hsplit
          refine ⟨cs.map Sym.lit ++ rest', ?_, ?_⟩
          · rw [hsplit]
            simp only [shape_append, hsh]
          · simp only [findL, hkk, List.head?_cons, beq_self_eq_true, if_true]
            have : (Sym.lit c0 :: (cs.map Sym.lit ++ rest')) = litSyms (c0 :: cs) ++ rest' := by
              simp [litSyms]
            rw [this, stripKey_append]
            simpa [Option.elim] using hf
    · rename_i hh
      obtain ⟨r', hs, hf⟩ := findL_false_lift ks c r m h
      exact ⟨r', hs, by simp only [findL, hh]; exact hf⟩
end

/-! ### pattern strings -/

theorem patStr_symsOfStr (s : Str) : patStr (symsOfStr s) = s := by
  induction s with
  | nil => rfl
  | cons c cs ih =>
    simp only [symsOfStr, List.map_cons, patStr_cons] at ih ⊢
    rw [ih]
    by_cases hc : c = Gen.paramToken
    · simp [hc, symChar]
    · simp [hc, symChar]

theorem shape_symsOfStr (s : Str) : shape (symsOfStr s) = symsOfStr s := by
  induction s with
  | nil => rfl
  | cons c cs ih =>
    simp only [symsOfStr, List.map_cons, shape_cons] at ih ⊢
    rw [ih]
    by_cases hc : c = Gen.paramToken <;> simp [hc, shapeSym]

theorem noLitTok_symsOfStr (s : Str) : NoLitTok (symsOfStr s) := by
  intro c hc hct
  simp only [symsOfStr, List.mem_map] at hc
  obtain ⟨x, _, hx⟩ := hc
  by_cases hxt : x = Gen.paramToken
  · simp [hxt] at hx
  · simp only [beq_iff_eq, hxt, if_false, Sym.lit.injEq] at hx
    exact hxt (hx.trans hct)

theorem symsOfStr_patStr {p : List Sym} (h : NoLitTok p) : symsOfStr (patStr p) = shape p := by
  have h1 : shape (symsOfStr (patStr p)) = shape p :=
    shape_eq_of_patStr (noLitTok_symsOfStr _) h (patStr_symsOfStr _)
  rw [shape_symsOfStr] at h1
  exact h1

/-- `RadiRouter._match(route_pattern=s)` returns the route registered under the pattern string `s` -/
theorem matchStr_iff {R : Router} (h : Inv R) (s : Str) (id : Nat) :
    R.matchStr s = .ok (some id) ↔ s.head? ≠ some '/' ∧ ∃ e ∈ R.rules, patStr e.pat = s ∧ e.data = id := by
  unfold Router.matchStr
  by_cases hs : s.head? = some '/'
  · simp [hs]
  · have hb : (s.head? == some '/') = false := by simpa using hs
    simp only [hb, Bool.false_eq_true, if_false, ne_eq, hs, not_false_eq_true, true_and]
    constructor
    · intro hm
      cases hf : findN false R.tree (symsOfStr s) with
      | error e => rw [hf] at hm; simp at hm
      | ok n =>
        rw [hf] at hm
        simp only [Except.ok.injEq] at hm
        obtain ⟨p, hsh, hft⟩ := findN_false_lift R.tree _ n hf
        have hmem := findN_den R.tree p n id hft hm
        refine ⟨_, (h.den _).mp hmem, ?_, rfl⟩
        simp only
        rw [patStr_eq_of_shape hsh, patStr_symsOfStr]
    · rintro ⟨e, he, hps, rfl⟩
      have hmem := (h.den e).mpr he
      obtain ⟨m, hm, hd, _⟩ := findN_complete R.tree h.wf e hmem
      have h1 := findN_true_false R.tree e.pat m hm
      rw [← findN_false_shape, ← symsOfStr_patStr (h.notok e hmem), hps] at h1
      rw [h1]
      simp only [hd]

/-- `RadiRouter._match(rule)` (filters compared): the route registered under this pattern -/
theorem byRule_iff {R : Router} (h : Inv R) (cenv : CompileEnv) (rule : Str) (id : Nat) :
    R.byRule cenv rule = .ok (some id) ↔
      ∃ p, parseRule cenv rule = .ok p ∧ p.syms.head? ≠ some (.lit '/') ∧ ∃ keys, (⟨p.syms, id, keys⟩ : Rule) ∈ R.rules := by
  unfold Router.byRule
  cases hp : parseRule cenv rule with
  | error e => simp
  | ok p =>
    by_cases hh : p.syms.head? = some (.lit '/')
    · simp [hh]
    · have hb : (p.syms.head? == some (Sym.lit '/')) = false := by simpa using hh
      simp only [hb, Bool.false_eq_true, if_false, Except.ok.injEq, ne_eq, hh, not_false_eq_true, true_and,
        exists_eq_left']
      rw [matchPat_iff h.wf]
      constructor
      · rintro ⟨keys, hk⟩; exact ⟨keys, (h.den _).mp hk⟩
      · rintro ⟨keys, hk⟩; exact ⟨keys, (h.den _).mpr hk⟩

/-- when `router[{rule}]` raises: the parser's (or `make_filter`'s) exception, or the assertion
on a pattern that starts with `/` -/
theorem byRule_error {R : Router} (cenv : CompileEnv) (rule : Str) (e : ErrName) :
    R.byRule cenv rule = .error e ↔ parseRule cenv rule = .error e ∨
      ∃ p, parseRule cenv rule = .ok p ∧ p.syms.head? = some (.lit '/') ∧ e = "AssertionError" := by
  unfold Router.byRule
  cases hp : parseRule cenv rule with
  | error e' => simp
  | ok p =>
    by_cases hh : p.syms.head? = some (.lit '/')
    · simp [hh, eq_comm]
    · simp [hh]

/-! ### keys that are refused -/

theorem matchKw_value_not_str (cenv : CompileEnv) (R : Router) (kw v : KAtom) (hv : ∀ s, v ≠ .str s) :
    R.matchKw cenv kw v = .error "TypeError" := by
  unfold Router.matchKw
  cases kw with
  | none => rfl
  | int b => rfl
  | str k =>
    simp only
    by_cases h1 : (k == "rule".toList) = true
    · rw [if_pos h1]
    · rw [if_neg h1]
      by_cases h2 : (k == "route_pattern".toList) = true
      · rw [if_pos h2]
      · rw [if_neg h2]

theorem matchKw_other_keyword (cenv : CompileEnv) (R : Router) (kw v : KAtom)
    (h1 : kw ≠ .str "rule".toList) (h2 : kw ≠ .str "route_pattern".toList) :
    R.matchKw cenv kw v = .error "TypeError" := by
  unfold Router.matchKw
  cases kw with
  | none => rfl
  | int b => rfl
  | str k =>
    simp only
    have e1 : (k == "rule".toList) = false := beq_eq_false_iff_ne.mpr (fun e => h1 (congrArg KAtom.str e))
    have e2 : (k == "route_pattern".toList) = false :=
      beq_eq_false_iff_ne.mpr (fun e => h2 (congrArg KAtom.str e))
    rw [if_neg (by rw [e1]; exact Bool.false_ne_true), if_neg (by rw [e2]; exact Bool.false_ne_true)]

/-- `kwargs = key.copy(); if 'pattern' in kwargs: kwargs['route_pattern'] = kwargs.pop('pattern')` -/
def renameKw (k : KAtom) : KAtom := if k == .str "pattern".toList then .str "route_pattern".toList else k

theorem getItem_dict_single (cenv : CompileEnv) (R : Router) (k v : KAtom) :
    R.getItem cenv (.dict [(k, v)]) = R.matchKw cenv (renameKw k) v := by
  simp only [Router.getItem, List.length_singleton, gt_iff_lt, Nat.lt_irrefl, if_false, renameKw]

theorem renameKw_other {k : KAtom} (h1 : k ≠ .str "rule".toList) (h2 : k ≠ .str "pattern".toList)
    (h3 : k ≠ .str "route_pattern".toList) :
    renameKw k ≠ .str "rule".toList ∧ renameKw k ≠ .str "route_pattern".toList := by
  unfold renameKw
  have e : (k == KAtom.str "pattern".toList) = false := beq_eq_false_iff_ne.mpr h2
  rw [if_neg (by rw [e]; exact Bool.false_ne_true)]
  exact ⟨h1, h3⟩

theorem routeKeyNew_both (a b : KAtom) (ha : a ≠ .none) (hb : b ≠ .none) :
    routeKeyNew a b = .error "TypeError" := by
  have h1 : (a != KAtom.none) = true := bne_iff_ne.mpr ha
  have h2 : (b != KAtom.none) = true := bne_iff_ne.mpr hb
  simp only [routeKeyNew, List.filter, h1, h2, List.length_cons, List.length_nil]
  rfl

theorem routeKeyNew_falsy (a : KAtom) (ha : a.truthy = false) :
    routeKeyNew a .none = .ok [(.str "pattern".toList, .none)] := by
  have h2 : (KAtom.none != KAtom.none) = false := by decide
  unfold routeKeyNew
  simp only [List.filter, h2, ha]
  cases hq : (a != KAtom.none) <;> simp

/-! ### the route `resolve` dispatches on -/

theorem resolveRoute_eq {R : Router} (hinv : Inv R) (env : FilterEnv) (hs : NoSel env) (path : Str) :
    R.resolveRoute env path = (specResolve env R.rules (stripSlash path)).map (·.1.data) := by
  have hfull := treeGet_full env hs R.tree hinv.wf (stripSlash path)
  have hinj : PatInj (denote R.tree) := by
    intro e he e' he' hp
    exact denN_patStrInj R.tree hinv.wf e he e' he' (hinv.notok e he) (hinv.notok e' he') (by rw [hp])
  have hsr : specResolve env R.rules (stripSlash path) = firstMatch env (denN R.tree) (stripSlash path) := by
    rw [← specResolve_congr env (denote R.tree) R.rules _ hinv.den hinj]
    exact firstMatch_eq_specResolve env _ _ (denN_sorted env R.tree hinv.wf _)
  rw [hsr]
  unfold Router.resolveRoute
  cases hfm : firstMatch env (denN R.tree) (stripSlash path) with
  | none =>
    rw [hfm] at hfull
    simp only at hfull
    cases hg : treeGet env R.tree (stripSlash path) with
    | miss v h p => rfl
    | hit d k v hk => rw [hg] at hfull; simp [Res.isHit] at hfull
  | some x =>
    obtain ⟨rule, vs⟩ := x
    rw [hfm] at hfull
    simp only at hfull
    rw [hfull]
    rfl

end Ombott.Router
