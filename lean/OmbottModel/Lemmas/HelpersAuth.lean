import OmbottModel.Model.ReqProps
import OmbottModel.Lemmas.B64
import OmbottModel.Lemmas.Text
import OmbottModel.Lemmas.Split
import OmbottModel.Lemmas.HelpersChar
/-! `PropsMixin.auth` reads back the credentials of a Basic `Authorization` header; `remote_route` reads back the
joined `X-Forwarded-For` list.  The lenient base64 decoder of `Py/Base64Lenient.lean` inverts `b64encode`. -/
namespace Py.Crypto
open Py

theorem a2bGo_d0 (c : UInt8) (r : Bytes) (left pads v : Nat) (hc : c ≠ 61) (hv : b64Val c = some v) :
    a2bGo (c :: r) 0 left pads = a2bGo r 1 v 0 := by
  rw [a2bGo]; simp only [hc, if_false, hv]

theorem a2bGo_d1 (c : UInt8) (r : Bytes) (left pads v : Nat) (hc : c ≠ 61) (hv : b64Val c = some v) :
    a2bGo (c :: r) 1 left pads = (a2bGo r 2 (v % 16) 0).map (UInt8.ofNat (left * 4 + v / 16) :: ·) := by
  rw [a2bGo]; simp only [hc, if_false, hv]

theorem a2bGo_d2 (c : UInt8) (r : Bytes) (left pads v : Nat) (hc : c ≠ 61) (hv : b64Val c = some v) :
    a2bGo (c :: r) 2 left pads = (a2bGo r 3 (v % 4) 0).map (UInt8.ofNat (left * 16 + v / 4) :: ·) := by
  rw [a2bGo]; simp only [hc, if_false, hv]

theorem a2bGo_d3 (c : UInt8) (r : Bytes) (left pads v : Nat) (hc : c ≠ 61) (hv : b64Val c = some v) :
    a2bGo (c :: r) 3 left pads = (a2bGo r 0 0 0).map (UInt8.ofNat (left * 64 + v) :: ·) := by
  rw [a2bGo]; simp only [hc, if_false, hv]

theorem a2bGo_pad_done (r : Bytes) (quad left pads : Nat) (h1 : 2 ≤ quad) (h2 : 4 ≤ quad + (pads + 1)) :
    a2bGo (61 :: r) quad left pads = some [] := by
  rw [a2bGo]; simp only [if_true, h1, h2]

theorem a2bGo_pad_more (r : Bytes) (quad left pads : Nat) (h1 : 2 ≤ quad) (h2 : ¬ 4 ≤ quad + (pads + 1)) :
    a2bGo (61 :: r) quad left pads = a2bGo r quad left (pads + 1) := by
  rw [a2bGo]; simp only [if_true, h1, h2, if_false]

/-- the lenient decoder inverts the encoder -/
theorem b64decodeLenient_encode (x : Bytes) : b64decodeLenient (b64encode x) = some x := by
  unfold b64decodeLenient
  induction x using b64encode.induct with
  | case1 a b c r ih =>
    have ha := a.toNat_lt; have hb := b.toNat_lt; have hcc := c.toNat_lt
    simp only [b64encode]
    have f0 := b64Char_facts ((a.toNat * 65536 + b.toNat * 256 + c.toNat) / 262144) (by omega)
    have f1 := b64Char_facts ((a.toNat * 65536 + b.toNat * 256 + c.toNat) / 4096 % 64) (by omega)
    have f2 := b64Char_facts ((a.toNat * 65536 + b.toNat * 256 + c.toNat) / 64 % 64) (by omega)
    have f3 := b64Char_facts ((a.toNat * 65536 + b.toNat * 256 + c.toNat) % 64) (by omega)
    rw [a2bGo_d0 _ _ _ _ _ f0.2.2 f0.2.1, a2bGo_d1 _ _ _ _ _ f1.2.2 f1.2.1, a2bGo_d2 _ _ _ _ _ f2.2.2 f2.2.1,
      a2bGo_d3 _ _ _ _ _ f3.2.2 f3.2.1, ih]
    simp only [Option.map_some]
    congr 1
    congr 1
    · exact ofNat_eq a _ (by omega)
    · congr 1
      · exact ofNat_eq b _ (by omega)
      · congr 1
        exact ofNat_eq c _ (by omega)
  | case2 a b =>
    have ha := a.toNat_lt; have hb := b.toNat_lt
    simp only [b64encode]
    have f0 := b64Char_facts ((a.toNat * 65536 + b.toNat * 256) / 262144) (by omega)
    have f1 := b64Char_facts ((a.toNat * 65536 + b.toNat * 256) / 4096 % 64) (by omega)
    have f2 := b64Char_facts ((a.toNat * 65536 + b.toNat * 256) / 64 % 64) (by omega)
    rw [a2bGo_d0 _ _ _ _ _ f0.2.2 f0.2.1, a2bGo_d1 _ _ _ _ _ f1.2.2 f1.2.1, a2bGo_d2 _ _ _ _ _ f2.2.2 f2.2.1,
      a2bGo_pad_done _ _ _ _ (by omega) (by omega)]
    simp only [Option.map_some]
    congr 1
    congr 1
    · exact ofNat_eq a _ (by omega)
    · congr 1
      exact ofNat_eq b _ (by omega)
  | case3 a =>
    have ha := a.toNat_lt
    simp only [b64encode]
    have f0 := b64Char_facts ((a.toNat * 65536) / 262144) (by omega)
    have f1 := b64Char_facts ((a.toNat * 65536) / 4096 % 64) (by omega)
    rw [a2bGo_d0 _ _ _ _ _ f0.2.2 f0.2.1, a2bGo_d1 _ _ _ _ _ f1.2.2 f1.2.1,
      a2bGo_pad_more _ _ _ _ (by omega) (by omega), a2bGo_pad_done _ _ _ _ (by omega) (by omega)]
    simp only [Option.map_some]
    congr 1
    congr 1
    exact ofNat_eq a _ (by omega)
  | case4 => rfl

theorem b64encode_ne_nil (x : Bytes) (h : x ≠ []) : b64encode x ≠ [] := by
  match x, h with
  | [_], _ => simp [b64encode]
  | [_, _], _ => simp [b64encode]
  | _ :: _ :: _ :: _, _ => simp [b64encode]

end Py.Crypto

namespace Ombott.ReqProps
open Py Py.Crypto Ombott.Cookies

theorem b64byte_lt (c : UInt8) (h : isB64Byte c = true) : c.toNat < 128 := by
  unfold isB64Byte isB64Nat at h
  simp only [Bool.or_eq_true, Bool.and_eq_true, decide_eq_true_eq, beq_iff_eq] at h
  omega

theorem b64byte_not_ws (c : UInt8) (h : isB64Byte c = true) : isWsChar (Char.ofNat c.toNat) = false := by
  have hl := b64byte_lt c h
  unfold isB64Byte isB64Nat at h
  simp only [Bool.or_eq_true, Bool.and_eq_true, decide_eq_true_eq, beq_iff_eq] at h
  unfold isWsChar isWsNat
  rw [Char.toNat_ofNat_lt256 _ (by omega)]
  simp only [Bool.or_eq_false_iff, Bool.and_eq_false_iff, beq_eq_false_iff_ne, decide_eq_false_iff_not]
  omega

/-- `tob(text)` of the ASCII text of a byte string of alphabet characters is that byte string -/
theorem utf8Enc_asciiText (b : Bytes) (h : ∀ c ∈ b, c.toNat < 128) : utf8Enc (asciiText b) = b := by
  induction b with
  | nil => rfl
  | cons c r ih =>
    have hc := h c (by simp)
    simp only [asciiText, List.map_cons, utf8Enc, List.flatMap_cons] at ih ⊢
    rw [utf8EncodeChar_ascii _ (by rw [Char.toNat_ofNat_lt256 _ (by omega)]; omega),
      Char.toNat_ofNat_lt256 _ (by omega), UInt8.ofNat_toNat, ih (fun d hd => h d (by simp [hd]))]
    rfl

theorem splitFirst_append {α} [BEq α] [LawfulBEq α] (sep : α) (l r : List α) (h : sep ∉ l) :
    splitFirst sep (l ++ sep :: r) = some (l, r) := by
  induction l with
  | nil => simp [splitFirst]
  | cons c cs ih =>
    have hc : (c == sep) = false := by
      simp only [List.mem_cons, not_or] at h
      simp [Ne.symm h.1]
    have := ih (fun hm => h (List.mem_cons_of_mem _ hm))
    simp [splitFirst, hc, this]

/-- `(word + sep + rest).split(None, 1)` -/
theorem splitWs1_three (w sep rest : Str) (hw : w ≠ []) (hwn : ∀ c ∈ w, isWsChar c = false)
    (hs : sep ≠ []) (hsw : ∀ c ∈ sep, isWsChar c = true) (hr : ∃ c t, rest = c :: t ∧ isWsChar c = false) :
    splitWs1 (w ++ sep ++ rest) = [w, rest] := by
  obtain ⟨c0, w', rfl⟩ := List.exists_cons_of_ne_nil hw
  obtain ⟨s0, sep', rfl⟩ := List.exists_cons_of_ne_nil hs
  obtain ⟨r0, rest', rfl, hr0⟩ := hr
  have hc0 : isWsChar c0 = false := hwn c0 (by simp)
  have hs0 : isWsChar s0 = true := hsw s0 (by simp)
  unfold splitWs1
  have h1 : ((c0 :: w') ++ (s0 :: sep') ++ (r0 :: rest')).dropWhile isWsChar = (c0 :: w') ++ (s0 :: sep') ++ (r0 :: rest') := by
    simp [hc0]
  simp only [h1]
  have hnw : ∀ c ∈ c0 :: w', (!isWsChar c) = true := by
    intro c hc; simp [hwn c hc]
  have h2 : ((c0 :: w') ++ (s0 :: sep') ++ (r0 :: rest')).takeWhile (fun c => !isWsChar c) = c0 :: w' := by
    rw [List.append_assoc, List.takeWhile_append_of_pos hnw]
    simp [hs0]
  have h3 : ((c0 :: w') ++ (s0 :: sep') ++ (r0 :: rest')).dropWhile (fun c => !isWsChar c) = (s0 :: sep') ++ (r0 :: rest') := by
    rw [List.append_assoc, List.dropWhile_append_of_pos hnw]
    simp [hs0]
  have h4 : ((s0 :: sep') ++ (r0 :: rest')).dropWhile isWsChar = r0 :: rest' := by
    rw [List.dropWhile_append_of_pos hsw]
    simp [hr0]
  rw [h2, h3, h4]
  simp

theorem upper_not_ws (c : Char) (h : isAsciiUpper c = true) : isWsChar c = false := by
  have hu := (Ombott.WsgiHeaders.isAsciiUpper_iff c).mp h
  unfold isWsChar isWsNat
  simp only [Bool.or_eq_false_iff, Bool.and_eq_false_iff, beq_eq_false_iff_ne, decide_eq_false_iff_not]
  omega

theorem basic_chars_not_ws : ∀ d ∈ cs!"basic", isWsChar d = false := by decide

/-- a word that lower-cases to `basic` is not empty and holds no white space -/
theorem basic_scheme (scheme : Str) (h : lower scheme = cs!"basic") : scheme ≠ [] ∧ ∀ c ∈ scheme, isWsChar c = false := by
  unfold lower at h
  refine ⟨(by intro e; rw [e] at h; cases h), ?_⟩
  intro c hc
  have hm : (if isAsciiUpper c then c.toLower else c) ∈ cs!"basic" := by
    rw [← h]; exact List.mem_map_of_mem hc
  by_cases hu : isAsciiUpper c = true
  · exact upper_not_ws c hu
  · simp only [hu, Bool.false_eq_true, if_false] at hm
    exact basic_chars_not_ws c hm

/-- the payload of a Basic header: non-empty, starting with a non-space, and `tob` gives the base64 bytes back -/
theorem payload_facts (x : Bytes) (hx : x ≠ []) :
    (∃ c t, asciiText (b64encode x) = c :: t ∧ isWsChar c = false) ∧
    utf8Enc (asciiText (b64encode x)) = b64encode x := by
  have hal := b64encode_alphabet x
  refine ⟨?_, utf8Enc_asciiText _ (fun c hc => b64byte_lt c (hal c hc))⟩
  obtain ⟨c, t, he⟩ := List.exists_cons_of_ne_nil (b64encode_ne_nil x hx)
  refine ⟨Char.ofNat c.toNat, asciiText t, ?_, ?_⟩
  · rw [he]; rfl
  · exact b64byte_not_ws c (hal c (by rw [he]; simp))

theorem utf8Enc_ne_nil (s : Str) (h : s ≠ []) : utf8Enc s ≠ [] := by
  intro he
  have := utf8Dec_utf8Enc s
  rw [he] at this
  have h0 : utf8Dec [] = some [] := utf8Dec_utf8Enc []
  rw [h0] at this
  exact h (Option.some.inj this).symm

/-- **the round trip inside `parse_auth`** -/
theorem parseAuthTry_basic (scheme sep user password : Str) (hs : lower scheme = cs!"basic")
    (hsep : sep ≠ []) (hsw : ∀ c ∈ sep, isWsChar c = true) (hu : ':' ∉ user) :
    parseAuthTry (basicHeader scheme sep user password) = .ok (some (user, password)) := by
  have hne : utf8Enc (user ++ ':' :: password) ≠ [] := utf8Enc_ne_nil _ (by simp)
  obtain ⟨hp1, hp2⟩ := payload_facts _ hne
  obtain ⟨hs1, hs2⟩ := basic_scheme scheme hs
  unfold parseAuthTry basicHeader
  rw [splitWs1_three scheme sep _ hs1 hs2 hsep hsw hp1]
  simp only [hs, if_true, hp2, b64decodeLenient_encode, utf8Dec_utf8Enc, splitFirst_append ':' user password hu]

/-! ### `remote_route` -/

theorem stripBy_append_left {α} (p : α → Bool) (pre s : List α) (h : ∀ c ∈ pre, p c = true) :
    stripBy p (pre ++ s) = stripBy p s := by
  unfold stripBy
  rw [List.dropWhile_append_of_pos h]

theorem route_pieces (sp : Str) (hsp : ∀ c ∈ sp, isWsChar c = true ∧ c ≠ ',') (ips : List Str) (hne : ips ≠ [])
    (hip : ∀ ip ∈ ips, ',' ∉ ip ∧ strip ip = ip) (pre : Str) (hpre : ∀ c ∈ pre, isWsChar c = true ∧ c ≠ ',') :
    (splitOn1 ',' (pre ++ joinCommaSp sp ips)).map strip = ips := by
  induction ips generalizing pre with
  | nil => exact absurd rfl hne
  | cons a r ih =>
    have ha := hip a (by simp)
    have hpa : ',' ∉ pre ++ a := by
      intro hm
      rcases List.mem_append.mp hm with h | h
      · exact (hpre _ h).2 rfl
      · exact ha.1 h
    have hsa : strip (pre ++ a) = a := by
      unfold strip
      rw [stripBy_append_left _ _ _ (fun c hc => (hpre c hc).1)]
      exact ha.2
    cases r with
    | nil =>
      simp only [joinCommaSp]
      rw [splitOn1_nosep ',' _ hpa]
      simp [hsa]
    | cons b r' =>
      simp only [joinCommaSp]
      rw [← List.append_assoc, splitOn1_append ',' _ _ hpa]
      simp only [List.map_cons, hsa]
      rw [ih (by simp) (fun ip h => hip ip (by simp [h])) sp hsp]

end Ombott.ReqProps
