import OmbottModel.Model.RouterEditSpec
import OmbottModel.Lemmas.RouterEditTree
import OmbottModel.Lemmas.RouterGet
/-!
C11, helper lemmas (5): the hook pairs `RadiDict.get` delivers with a match are the pairs at
the symbol-prefixes of the matched pattern, outermost first, each with the length of the path
prefix matched up to there (`getN_full`): `specHooks` of the tree's own hook lookup.
-/
namespace Ombott.Router
open Py

/-! ### `specHooksFrom` -/

theorem specHooksFrom_shift (env : FilterEnv) (H : List Sym → Option HookPair) (pre : List Sym) :
    ∀ (pat done : List Sym) (path : Str) (pos : Nat),
      specHooksFrom env H (pre ++ done) pat path pos =
        specHooksFrom env (fun q => H (pre ++ q)) done pat path pos := by
  intro pat
  induction pat with
  | nil => intro done path pos; simp [specHooksFrom]
  | cons s rest ih =>
    intro done path pos
    cases s with
    | lit c =>
      cases path with
      | nil => simp [specHooksFrom]
      | cons d path' =>
        simp only [specHooksFrom]
        rw [List.append_assoc, ih]
    | tok f =>
      simp only [specHooksFrom]
      cases tokRes env f path with
      | none => rfl
      | some r =>
        simp only
        rw [List.append_assoc, ih]

theorem specHooksFrom_congr (env : FilterEnv) {H H' : List Sym → Option HookPair} :
    ∀ (pat done : List Sym) (path : Str) (pos : Nat),
      (∀ q, q <+: pat → q ≠ [] → H (done ++ q) = H' (done ++ q)) →
      specHooksFrom env H done pat path pos = specHooksFrom env H' done pat path pos := by
  intro pat
  induction pat with
  | nil => intro done path pos _; simp [specHooksFrom]
  | cons s rest ih =>
    intro done path pos h
    have h1 : H (done ++ [s]) = H' (done ++ [s]) := h [s] (by simp) (by simp)
    have h2 : ∀ q, q <+: rest → q ≠ [] → H ((done ++ [s]) ++ q) = H' ((done ++ [s]) ++ q) := by
      intro q hq _
      rw [List.append_assoc]
      exact h ([s] ++ q) (by simpa using hq) (by simp)
    cases s with
    | lit c =>
      cases path with
      | nil => simp [specHooksFrom]
      | cons d path' => simp only [specHooksFrom, h1, ih _ _ _ h2]
    | tok f =>
      simp only [specHooksFrom]
      cases tokRes env f path with
      | none => rfl
      | some r => simp only [h1, ih _ _ _ h2]

theorem litSyms_take_succ (c : Char) (K : Str) (i : Nat) :
    litSyms ((c :: K).take (i + 1)) = .lit c :: litSyms (K.take i) := by
  simp [litSyms]

theorem specHooksFrom_lit_cons (env : FilterEnv) (H : List Sym → Option HookPair) (done pat : List Sym)
    (c d : Char) (path' : Str) (pos : Nat) :
    specHooksFrom env H done (.lit c :: pat) (d :: path') pos =
      emitHook (H (done ++ [.lit c])) (pos + 1) ++ specHooksFrom env H (done ++ [.lit c]) pat path' (pos + 1) := by
  simp [specHooksFrom]

/-- along a literal key nothing is delivered before its end -/
theorem specHooksFrom_key (env : FilterEnv) (H : List Sym → Option HookPair) :
    ∀ (K : Str) (done pat : List Sym) (path rest : Str) (pos : Nat), K ≠ [] →
      stripPre K path = some rest →
      (∀ i, 0 < i → i < K.length → H (done ++ litSyms (K.take i)) = none) →
      specHooksFrom env H done (litSyms K ++ pat) path pos =
        emitHook (H (done ++ litSyms K)) (pos + K.length) ++
          specHooksFrom env H (done ++ litSyms K) pat rest (pos + K.length) := by
  intro K
  induction K with
  | nil => intro _ _ _ _ _ h; exact absurd rfl h
  | cons c K ih =>
    intro done pat path rest pos _ hs hnone
    cases path with
    | nil => simp [stripPre] at hs
    | cons d path' =>
      simp only [stripPre] at hs
      split at hs
      · cases K with
        | nil =>
          simp only [stripPre, Option.some.injEq] at hs
          subst hs
          simp [litSyms, specHooksFrom]
        | cons c2 K2 =>
          have hfirst : H (done ++ [Sym.lit c]) = none := by
            have := hnone 1 (by omega) (by simp)
            simpa [litSyms] using this
          have hrec := ih (done ++ [Sym.lit c]) pat path' rest (pos + 1) (by simp) hs (by
            intro i hi hlt
            have := hnone (i + 1) (by omega) (by simp at hlt ⊢; omega)
            rw [litSyms_take_succ] at this
            simpa [List.append_assoc] using this)
          have e1 : done ++ [Sym.lit c] ++ litSyms (c2 :: K2) = done ++ litSyms (c :: c2 :: K2) := by
            simp [litSyms]
          have e2 : pos + 1 + (c2 :: K2).length = pos + (c :: c2 :: K2).length := by
            simp only [List.length_cons]; omega
          show specHooksFrom env H done (.lit c :: (litSyms (c2 :: K2) ++ pat)) (d :: path') pos = _
          rw [specHooksFrom_lit_cons, hfirst, hrec, e1, e2]
          simp [emitHook]
      · simp at hs

/-! ### the hook lookup of a node seen from its children -/

/-- the hook lookup of a node on patterns that start with literal text -/
def hookOfL (ks : List Node) : List Sym → Option HookPair
  | .lit c :: q =>
    match findL false ks c q with
    | .ok m => m.hooks
    | .error _ => none
  | _ => none

/-- … on patterns that start with a wildcard -/
def hookOfT (t : Option Node) : List Sym → Option HookPair
  | .tok g :: q =>
    match findT false t g q with
    | .ok m => m.hooks
    | .error _ => none
  | _ => none

theorem hookAtShape_lit (k : Str) (d : Option Nat) (pk : List Str) (f : Option Fid) (h : Option HookPair)
    (lits : List Node) (tok : Option Node) (c : Char) (q : List Sym) :
    hookAtShape (.mk k d pk f h lits tok) (.lit c :: q) = hookOfL lits (.lit c :: q) := rfl

theorem hookAtShape_tok (k : Str) (d : Option Nat) (pk : List Str) (f : Option Fid) (h : Option HookPair)
    (lits : List Node) (tok : Option Node) (g : Option Fid) (q : List Sym) :
    hookAtShape (.mk k d pk f h lits tok) (.tok g :: q) = hookOfT tok (.tok g :: q) := rfl

theorem hookAtShape_nil (n : Node) : hookAtShape n [] = n.hooks := by
  cases n; rfl

theorem stripKey_take_none (K : Str) (i : Nat) (hi : i < K.length) :
    stripKey K (litSyms (K.take i)) = none := by
  induction K generalizing i with
  | nil => simp at hi
  | cons c K ih =>
    cases i with
    | zero => simp [litSyms, stripKey]
    | succ j =>
      rw [litSyms_take_succ]
      simp only [stripKey, beq_self_eq_true, if_true]
      exact ih j (by simpa using hi)

theorem hookOfL_head {k : Node} {ks : List Node} {c : Char} (hc : k.key.head? = some c) (q : List Sym) :
    hookOfL (k :: ks) (.lit c :: q) =
      (stripKey k.key (.lit c :: q)).elim none (fun rest => hookAtShape k rest) := by
  simp only [hookOfL, findL, hc, beq_self_eq_true, if_true]
  cases stripKey k.key (.lit c :: q) with
  | none => rfl
  | some rest => rfl

theorem hookOfL_other {k : Node} {ks : List Node} {c : Char} (hc : k.key.head? ≠ some c) (q : List Sym) :
    hookOfL (k :: ks) (.lit c :: q) = hookOfL ks (.lit c :: q) := by
  have : (k.key.head? == some c) = false := by simpa using hc
  simp only [hookOfL, findL, this, Bool.false_eq_true, if_false]

theorem hookOfT_some (t : Node) (g : Option Fid) (q : List Sym) :
    hookOfT (some t) (.tok g :: q) = hookAtShape t q := by
  unfold hookOfT hookAtShape
  simp only [findT, Bool.false_and, Bool.false_eq_true, if_false]
  cases findN false t q <;> rfl

/-! ### the full answer of `get` -/

/-- what `get` answers when the first matching rule of the subtree is `fm` -/
def FullRes (env : FilterEnv) (H : List Sym → Option HookPair) (a : Acc) (path : Str)
    (fm : Option (Rule × List Val)) (res : Res) : Prop :=
  match fm with
  | some (r, vs) =>
    res = .hit r.data r.keys (a.vals ++ vs) (a.hooks ++ specHooksFrom env H [] r.pat path a.pre.length)
  | none => res.isHit = false

theorem advance_hooks (a : Acc) (eaten : Str) (h : Option HookPair) :
    (a.advance eaten h).hooks = a.hooks ++ emitHook h (a.pre.length + eaten.length) ∧
    (a.advance eaten h).pre.length = a.pre.length + eaten.length ∧
    (a.advance eaten h).vals = a.vals := by
  cases h <;> simp [Acc.advance, emitHook]

theorem orTok_hit (lit : Option Res) (hasTok : Bool) (alt : Unit → Res) (d : Nat) (k : List Str)
    (v : List Val) (hk : List (Nat × HookPair)) (h : lit = some (.hit d k v hk)) :
    Res.orTok lit hasTok alt = .hit d k v hk := by
  subst h; rfl

theorem orTok_nohit (lit : Option Res) (hasTok : Bool) (alt : Unit → Res)
    (h : ∀ res, lit = some res → res.isHit = false) (hno : hasTok = false → (alt ()).isHit = false) :
    Res.orTok lit hasTok alt = alt () ∨
      ((Res.orTok lit hasTok alt).isHit = false ∧ (alt ()).isHit = false) := by
  cases lit with
  | none => exact Or.inl rfl
  | some r =>
    cases r with
    | hit d k v hk => have := h _ rfl; simp [Res.isHit] at this
    | miss v hk p =>
      cases hasTok with
      | true => exact Or.inl rfl
      | false => exact Or.inr ⟨rfl, hno rfl⟩

mutual
theorem getN_full (env : FilterEnv) (hs : NoSel env) (n : Node) (h : WFN n) (a : Acc) (path : Str) :
    FullRes env (hookAtShape n) a path (firstMatch env (denN n) path) (getN env n a path) := by
  match n, path with
  | .mk k d pk f hk lits tok, [] =>
    unfold WFN at h
    simp only [getN, denN, firstMatch_append, denL_nil env lits h.1, denT_nil]
    cases d with
    | none => simp [ownRule, firstMatch, FullRes, Acc.atEnd, Acc.miss, Res.isHit]
    | some v => simp [ownRule, firstMatch, matchRule, FullRes, Acc.atEnd, specHooksFrom]
  | .mk k d pk f hk lits tok, c :: p =>
    unfold WFN at h
    obtain ⟨hl, ht⟩ := h
    have hL := getL_full env hs lits hl (hookAtShape (.mk k d pk f hk lits tok)) c
      (fun q => hookAtShape_lit k d pk f hk lits tok c q) a p
    have hT := getT_full env hs tok ht (hookAtShape (.mk k d pk f hk lits tok))
      (fun g q => hookAtShape_tok k d pk f hk lits tok g q) a c p
    simp only [getN, denN, firstMatch_append, own_nonempty]
    cases hfl : firstMatch env (denL lits) (c :: p) with
    | some x =>
      obtain ⟨r, vs⟩ := x
      rw [hfl] at hL
      simp only at hL
      simp only [Option.orElse_none, Option.orElse_some, FullRes]
      exact orTok_hit _ _ _ _ _ _ _ hL
    | none =>
      rw [hfl] at hL
      simp only at hL
      simp only [Option.orElse_none]
      have hno : tok.isSome = false → (getT env tok a (c :: p)).isHit = false := by
        intro hno
        cases tok with
        | none => simp [getT, Acc.miss, Res.isHit]
        | some t => simp at hno
      rcases orTok_nohit (getL env lits a c p) tok.isSome (fun _ => getT env tok a (c :: p)) hL hno with
        heq | ⟨h1, h2⟩
      · rw [heq]; exact hT
      · cases hft : firstMatch env (denT tok) (c :: p) with
        | none => simpa [FullRes] using h1
        | some x =>
          rw [hft] at hT
          obtain ⟨r, vs⟩ := x
          simp only [FullRes] at hT
          rw [hT] at h2
          simp [Res.isHit] at h2
theorem getT_full (env : FilterEnv) (hs : NoSel env) (t : Option Node) (h : WFT t)
    (H : List Sym → Option HookPair) (hH : ∀ g q, H (.tok g :: q) = hookOfT t (.tok g :: q))
    (a : Acc) (c : Char) (p : Str) :
    FullRes env H a (c :: p) (firstMatch env (denT t) (c :: p)) (getT env t a (c :: p)) := by
  match t with
  | none => simp [getT, denT, firstMatch, FullRes, Acc.miss, Res.isHit]
  | some t0 =>
    unfold WFT at h
    simp only [getT, denT, firstMatch_tok, tokStep]
    cases he : tokRes env t0.filter (c :: p) with
    | none => simp [FullRes, Acc.miss, Res.isHit]
    | some r =>
      obtain ⟨v, n, sel⟩ := r
      have : sel = none := tokRes_noSel hs he
      subst this
      simp only [Option.bind_some]
      have ih := getN_full env hs t0 h
        (({ a with vals := a.vals ++ [v] } : Acc).advance ((c :: p).take n) t0.hooks) ((c :: p).drop n)
      obtain ⟨hah, hap, hav⟩ := advance_hooks ({ a with vals := a.vals ++ [v] } : Acc) ((c :: p).take n) t0.hooks
      cases hfm : firstMatch env (denN t0) ((c :: p).drop n) with
      | none =>
        rw [hfm] at ih
        simpa [FullRes] using ih
      | some x =>
        obtain ⟨r, vs⟩ := x
        rw [hfm] at ih
        simp only [FullRes] at ih ⊢
        rw [ih, hah, hap, hav]
        simp only [Option.map_some, Rule.liftTok, Rule.under, List.singleton_append, List.cons_append,
          List.nil_append, specHooksFrom, he, List.append_assoc]
        have hroot : H [Sym.tok t0.filter] = t0.hooks := by
          rw [hH, hookOfT_some, hookAtShape_nil]
        have hshift := specHooksFrom_shift env H [Sym.tok t0.filter] r.pat [] ((c :: p).drop n)
          (a.pre.length + ((c :: p).take n).length)
        simp only [List.append_nil] at hshift
        have hfun : (fun q => H ([Sym.tok t0.filter] ++ q)) = hookAtShape t0 := by
          funext q
          rw [List.singleton_append, hH, hookOfT_some]
        rw [hfun] at hshift
        simp only [List.nil_append, hroot, hshift]
theorem getL_full (env : FilterEnv) (hs : NoSel env) (ks : List Node) (h : WFL ks)
    (H : List Sym → Option HookPair) (c : Char) (hH : ∀ q, H (.lit c :: q) = hookOfL ks (.lit c :: q))
    (a : Acc) (p : Str) :
    match firstMatch env (denL ks) (c :: p) with
    | some (r, vs) =>
      getL env ks a c p = some (.hit r.data r.keys (a.vals ++ vs)
        (a.hooks ++ specHooksFrom env H [] r.pat (c :: p) a.pre.length))
    | none => ∀ res, getL env ks a c p = some res → res.isHit = false := by
  match ks with
  | [] => simp [getL, denL, firstMatch]
  | k :: ks =>
    have h' := h
    unfold WFL at h'
    obtain ⟨hne, hk, hks, hdist⟩ := h'
    simp only [getL, denL, firstMatch_append, firstMatch_map_lit env k.key]
    by_cases hc : k.key.head? = some c
    · have hc' : (k.key.head? == some c) = true := by simp [hc]
      simp only [hc', if_true]
      rw [denL_other env ks hks c p (fun k' hk' => hc ▸ hdist k' hk')]
      cases hsp : stripPre k.key (c :: p) with
      | none => simp [Acc.miss, Res.isHit]
      | some rest =>
        simp only [Option.elim, Option.bind_some]
        have ih := getN_full env hs k hk (a.advance k.key k.hooks) rest
        obtain ⟨hah, hap, hav⟩ := advance_hooks a k.key k.hooks
        cases hfm : firstMatch env (denN k) rest with
        | none =>
          rw [hfm] at ih
          simp only [FullRes] at ih
          simpa using ih
        | some x =>
          obtain ⟨r, vs⟩ := x
          rw [hfm] at ih
          simp only [FullRes] at ih
          simp only [Option.map_some, Rule.liftRes, Rule.under, Option.orElse_some]
          rw [ih, hah, hap, hav]
          -- the key delivers nothing before its end, and there what the child holds
          have hkey := specHooksFrom_key env H k.key [] r.pat (c :: p) rest a.pre.length hne hsp (by
            intro i hi hlt
            have hpos : k.key.take i = c :: (k.key.take i).tail := by
              cases hkk : k.key with
              | nil => exact absurd hkk hne
              | cons c2 K2 =>
                rw [hkk] at hc
                simp only [List.head?_cons, Option.some.injEq] at hc
                subst hc
                cases i with
                | zero => omega
                | succ j => simp
            rw [List.nil_append, hpos]
            simp only [litSyms, List.map_cons]
            rw [hH, hookOfL_head hc]
            have := stripKey_take_none k.key i hlt
            rw [hpos] at this
            simp only [litSyms, List.map_cons] at this
            rw [this]; rfl)
          have hend : ∀ q, H (litSyms k.key ++ q) = hookAtShape k q := by
            intro q
            obtain ⟨tl, htl⟩ : ∃ tl, k.key = c :: tl := by
              cases hkk : k.key with
              | nil => exact absurd hkk hne
              | cons c2 K2 =>
                rw [hkk] at hc
                simp only [List.head?_cons, Option.some.injEq] at hc
                exact ⟨K2, by rw [hc]⟩
            have e : litSyms k.key ++ q = .lit c :: (litSyms tl ++ q) := by rw [htl]; simp [litSyms]
            rw [e, hH, hookOfL_head hc, ← e, stripKey_append]
            rfl
          simp only [List.nil_append] at hkey
          rw [hkey]
          have hshift := specHooksFrom_shift env H (litSyms k.key) r.pat [] rest (a.pre.length + k.key.length)
          simp only [List.append_nil] at hshift
          have hfun : (fun q => H (litSyms k.key ++ q)) = hookAtShape k := funext hend
          rw [hfun] at hshift
          have hroot : H (litSyms k.key) = k.hooks := by
            have := hend []
            rw [List.append_nil, hookAtShape_nil] at this
            exact this
          rw [hshift, hroot, List.append_assoc]
    · have hc' : (k.key.head? == some c) = false := by simpa using hc
      simp only [hc', Bool.false_eq_true, if_false]
      rw [stripPre_other hne hc]
      simp only [Option.bind_none, Option.map_none, Option.orElse_none]
      exact getL_full env hs ks hks H c (fun q => by rw [hH, hookOfL_other hc]) a p
end

end Ombott.Router
