import OmbottModel.Lemmas.RouterHist
/-!
Every route object of a router comes from a registration of its history: whatever holds for the
pattern of every rule text the history registers successfully holds for the pattern of every route
(`run_syms`), hence for every rule of the `routes` table (`run_rules`).  Used to carry "this rule set uses
built-in wildcards only" from the rule texts to the router.
-/
namespace Ombott.Router
open Py

/-- every route object's pattern satisfies `Q` -/
def SymsAll (Q : List Sym → Prop) (R : Router) : Prop := ∀ j r, R.obj? j = some r → Q r.syms

theorem SymsAll.setObj {Q : List Sym → Prop} {R : Router} (h : SymsAll Q R) (id : Nat) (r r' : Route)
    (hr : R.obj? id = some r) (hs : r'.syms = r.syms) : SymsAll Q (R.setObj id r') := by
  intro j rj hj
  rw [obj?_setObj] at hj
  split at hj
  · rename_i hij
    subst hij
    rw [hr] at hj
    simp only [Option.map_some, Option.some.injEq] at hj
    subst hj
    rw [hs]; exact h id r hr
  · exact h j rj hj

theorem SymsAll.registerName {Q : List Sym → Prop} {R : Router} (h : SymsAll Q R) (a : AddArgs) (id : Nat) :
    SymsAll Q (R.registerName a id).1 := by
  intro j r hj
  rw [obj?_of_objs_eq (registerName_objs R a id)] at hj
  exact h j r hj

theorem SymsAll.register {Q : List Sym → Prop} {R : Router} (h : SymsAll Q R) (a : AddArgs) (p : Parsed) (id : Nat) :
    SymsAll Q (R.register a p id).1 := by
  unfold Router.register
  cases hr : R.obj? id with
  | none => exact h
  | some route =>
    simp only
    split
    · exact (h.setObj id route _ hr (Route.setMethods_syms route _ _ _).1).registerName a id
    · cases ha : route.addMethod a.methods a.handler p.params with
      | error e => exact h
      | ok route' => exact (h.setObj id route route' hr (Route.addMethod_syms ha).1).registerName a id

theorem SymsAll.findOrInsert {Q : List Sym → Prop} {R : Router} (h : SymsAll Q R) (rule : Str) (p : Parsed)
    (hq : Q p.syms) : SymsAll Q (R.findOrInsert rule p).1 := by
  intro j r hj
  rcases findOrInsert_objs R rule p j r hj with h1 | ⟨_, h2⟩
  · exact h j r h1
  · rw [h2]; exact hq

theorem SymsAll.addParsed {Q : List Sym → Prop} {R : Router} (h : SymsAll Q R) (a : AddArgs) (p : Parsed)
    (hq : Q p.syms) : SymsAll Q (R.addParsed a p).1 := by
  unfold Router.addParsed
  split
  · exact h
  · have h1 := h.findOrInsert a.rule p hq
    cases hf : R.findOrInsert a.rule p with
    | mk R1 out =>
      rw [hf] at h1
      cases out with
      | error e => exact h1
      | ok id => exact h1.register a p id

theorem SymsAll.step {Q : List Sym → Prop} {R : Router} (h : SymsAll Q R) (upper : Str → Str) (op : Op)
    (hq : ∀ cenv a p, op = .add cenv a → parseRule cenv a.rule = .ok p → Q p.syms) :
    SymsAll Q (R.step upper op) := by
  cases op with
  | removeMethod id ms =>
    simp only [Router.step, Router.removeMethod]
    cases hr : R.obj? id with
    | none => exact h
    | some r => exact h.setObj id r _ hr (Route.removeMethod_syms r ms).1
  | add cenv a =>
    simp only [Router.step, Router.add]
    cases hp : parseRule cenv a.rule with
    | error e => exact h
    | ok p => exact h.addParsed _ p (hq cenv a p rfl hp)

theorem foldl_syms {Q : List Sym → Prop} (upper : Str → Str) (ops : List Op)
    (hq : ∀ cenv a p, Op.add cenv a ∈ ops → parseRule cenv a.rule = .ok p → Q p.syms) (R : Router)
    (h : SymsAll Q R) : SymsAll Q (ops.foldl (Router.step upper) R) := by
  induction ops generalizing R with
  | nil => exact h
  | cons op ops ih =>
    exact ih (fun cenv a p hm hp => hq cenv a p (by simp [hm]) hp) _
      (h.step upper op (fun cenv a p he hp => hq cenv a p (by simp [he]) hp))

/-- what holds for the pattern of every successfully parsed rule text of the history holds for
the pattern of every route object -/
theorem run_syms {Q : List Sym → Prop} (upper : Str → Str) (ops : List Op)
    (hq : ∀ cenv a p, Op.add cenv a ∈ ops → parseRule cenv a.rule = .ok p → Q p.syms) :
    SymsAll Q (Router.run upper ops) :=
  foldl_syms upper ops hq {} (by intro j r hj; simp [Router.obj?] at hj)

/-- … and for every rule of the `routes` table -/
theorem run_rules {Q : List Sym → Prop} (upper : Str → Str) (ops : List Op)
    (hq : ∀ cenv a p, Op.add cenv a ∈ ops → parseRule cenv a.rule = .ok p → Q p.syms) :
    ∀ e ∈ (Router.run upper ops).rules, Q e.pat := by
  intro e he
  obtain ⟨ps, id, r, _, hr, rfl⟩ := (mem_rules _ e).mp he
  exact run_syms upper ops hq id r hr

end Ombott.Router
