import OmbottModel.Lemmas.RouterEditMaps
/-!
C11, helper lemmas (8): why re-registering the patterns of one well-formed tree on another tree
that only holds such patterns is always accepted.

* `Compat p q`: two patterns carry the same filters as long as they run along the same symbols
  (`gN_compat`: any two patterns of one well-formed tree do).
* `FullN / LiveN`: no dead branches — every node below the root holds data, a hook pair or a
  child.  `_set` (`insN`) and the in-place update of a hook pair (`updN`) keep it; a tree built by
  registrations only has it.
* `insN_error`: on a live tree whose patterns are all compatible with the new one, `_set` can only
  fail at the node the pattern leads to (`setHere`: data / hook pair already there), never on a
  filter mismatch on the way.
* `hookListN_map`: the list of hook pairs `Router.fresh` replays is the hook denotation `hdenN`.
-/
namespace Ombott.Router
open Py

/-! ### patterns that agree on their filters -/

/-- as long as the two patterns run along the same symbols up to filters, they carry the same
filters (`RadiDict._set` refuses a pattern that is not compatible with a wildcard node on its way) -/
def Compat : List Sym → List Sym → Prop
  | [], _ => True
  | _ :: _, [] => True
  | a :: p, b :: q => shapeSym a = shapeSym b → a = b ∧ Compat p q

theorem Compat.nil_right (p : List Sym) : Compat p [] := by
  cases p <;> simp [Compat]

theorem Compat.of_head_ne {a b : Sym} (h : shapeSym a ≠ shapeSym b) (p q : List Sym) :
    Compat (a :: p) (b :: q) := by
  simp only [Compat]
  exact fun hs => absurd hs h

theorem Compat.append_left (pre p q : List Sym) : Compat (pre ++ p) (pre ++ q) ↔ Compat p q := by
  induction pre with
  | nil => simp
  | cons a pre ih => simp [Compat, ih]

theorem Compat.tok_inv {f g : Option Fid} {p q : List Sym} (h : Compat (.tok f :: p) (.tok g :: q)) :
    f = g ∧ Compat p q := by
  simp only [Compat, shapeSym, Sym.tok.injEq, true_implies] at h
  exact h

section Pairwise
variable {own own' : Option Nat → List Str → Option HookPair → List Rule}

theorem gL_head_of_mem_map {k : Node} (hne : k.key ≠ []) {x : Rule} :
    ∃ c q, k.key.head? = some c ∧ (x.under (litSyms k.key)).pat = .lit c :: q := by
  cases hk : k.key with
  | nil => exact absurd hk hne
  | cons c cs => exact ⟨c, litSyms cs ++ x.pat, by simp, by simp [litSyms]⟩

mutual
/-- any two patterns found in one well-formed tree (routes, hook pairs, …) are compatible -/
theorem gN_compat (ho : OwnOK own) (ho' : OwnOK own') (n : Node) (h : WFN n) :
    ∀ e ∈ gN own n, ∀ e' ∈ gN own' n, Compat e.pat e'.pat := by
  match n with
  | .mk k d pk f hk lits tok =>
    unfold WFN at h
    obtain ⟨hl, ht⟩ := h
    intro e he e' he'
    simp only [gN, List.mem_append] at he he'
    rcases he with (he | he) | he
    · rw [ho.pat_nil d pk hk e he]; simp [Compat]
    · rcases he' with (he' | he') | he'
      · rw [ho'.pat_nil d pk hk e' he']; exact Compat.nil_right _
      · exact gL_compat ho ho' lits hl e he e' he'
      · obtain ⟨_, _, c, q, _, hq⟩ := mem_gL_shape ho hl he
        obtain ⟨g, q', hq'⟩ := mem_gT_shape he'
        rw [hq, hq']; exact Compat.of_head_ne (by simp [shapeSym]) _ _
    · rcases he' with (he' | he') | he'
      · rw [ho'.pat_nil d pk hk e' he']; exact Compat.nil_right _
      · obtain ⟨_, _, c, q, _, hq⟩ := mem_gL_shape ho' hl he'
        obtain ⟨g, q', hq'⟩ := mem_gT_shape he
        rw [hq, hq']; exact Compat.of_head_ne (by simp [shapeSym]) _ _
      · exact gT_compat ho ho' tok ht e he e' he'
theorem gT_compat (ho : OwnOK own) (ho' : OwnOK own') (t : Option Node) (h : WFT t) :
    ∀ e ∈ gT own t, ∀ e' ∈ gT own' t, Compat e.pat e'.pat := by
  match t with
  | none => intro e he; simp [gT] at he
  | some t0 =>
    unfold WFT at h
    intro e he e' he'
    simp only [gT, List.mem_map] at he he'
    obtain ⟨x, hx, rfl⟩ := he
    obtain ⟨y, hy, rfl⟩ := he'
    simp only [Rule.under_pat]
    exact (Compat.append_left _ _ _).mpr (gN_compat ho ho' t0 h x hx y hy)
theorem gL_compat (ho : OwnOK own) (ho' : OwnOK own') (ks : List Node) (h : WFL ks) :
    ∀ e ∈ gL own ks, ∀ e' ∈ gL own' ks, Compat e.pat e'.pat := by
  match ks with
  | [] => intro e he; simp [gL] at he
  | k :: ks =>
    unfold WFL at h
    obtain ⟨hne, hk, hks, hdist⟩ := h
    intro e he e' he'
    simp only [gL, List.mem_append, List.mem_map] at he he'
    rcases he with ⟨x, hx, rfl⟩ | he
    · rcases he' with ⟨y, hy, rfl⟩ | he'
      · simp only [Rule.under_pat]
        exact (Compat.append_left _ _ _).mpr (gN_compat ho ho' k hk x hx y hy)
      · obtain ⟨c, q, hc, hq⟩ := gL_head_of_mem_map (x := x) hne
        obtain ⟨k', hk', c', q', hc', hq'⟩ := mem_gL_shape ho' hks he'
        rw [hq, hq']
        refine Compat.of_head_ne ?_ _ _
        simp only [shapeSym, ne_eq, Sym.lit.injEq]
        intro hcc
        exact hdist k' hk' (by rw [hc', hc, hcc])
    · rcases he' with ⟨y, hy, rfl⟩ | he'
      · obtain ⟨c, q, hc, hq⟩ := gL_head_of_mem_map (x := y) hne
        obtain ⟨k', hk', c', q', hc', hq'⟩ := mem_gL_shape ho hks he
        rw [hq, hq']
        refine Compat.of_head_ne ?_ _ _
        simp only [shapeSym, ne_eq, Sym.lit.injEq]
        intro hcc
        exact hdist k' hk' (by rw [hc', hc, hcc])
      · exact gL_compat ho ho' ks hks e he e' he'
end

end Pairwise

/-! ### every pattern of the tree, routes and hook pairs together -/

/-- a node contributes (a marker for) its pattern when it holds a route or a hook pair -/
def ownB : Option Nat → List Str → Option HookPair → List Rule :=
  fun d _ h => if d.isSome || h.isSome then [⟨[], 0, []⟩] else []

theorem ownB_ok : OwnOK ownB := by
  refine ⟨fun d pk h e he => ?_, fun _ => rfl⟩
  unfold ownB at he
  split at he
  · simp only [List.mem_singleton] at he; subst he; rfl
  · cases he

theorem ownB_pat (enc : HookPair → Nat) (d : Option Nat) (pk : List Str) (h : Option HookPair) (p : List Sym) :
    (∃ e ∈ ownB d pk h, e.pat = p) ↔ (∃ e ∈ ownRule d pk, e.pat = p) ∨ (∃ e ∈ ownH enc d pk h, e.pat = p) := by
  cases d <;> cases h <;> simp [ownB, ownRule, ownH, eq_comm]

theorem exists_mem_map_under {l : List Rule} {pre p : List Sym} :
    (∃ e ∈ l.map (Rule.under pre), e.pat = p) ↔ ∃ q, p = pre ++ q ∧ ∃ e ∈ l, e.pat = q := by
  constructor
  · rintro ⟨e, he, rfl⟩
    obtain ⟨x, hx, rfl⟩ := List.mem_map.mp he
    exact ⟨x.pat, rfl, x, hx, rfl⟩
  · rintro ⟨q, rfl, x, hx, rfl⟩
    exact ⟨x.under pre, List.mem_map.mpr ⟨x, hx, rfl⟩, rfl⟩

mutual
/-- the patterns `ownB` sees are those of the routes and of the hook pairs -/
theorem gN_ownB (enc : HookPair → Nat) (n : Node) (p : List Sym) :
    (∃ e ∈ gN ownB n, e.pat = p) ↔ (∃ e ∈ denN n, e.pat = p) ∨ (∃ e ∈ hdenN enc n, e.pat = p) := by
  match n with
  | .mk k d pk f hk lits tok =>
    have hL := gL_ownB enc lits p
    have hT := gT_ownB enc tok p
    have hO := ownB_pat enc d pk hk p
    simp only [gN, denN, hdenN, List.mem_append, or_and_right, exists_or] at hL hT hO ⊢
    rw [hL, hT, hO]
    constructor
    · rintro (((h | h) | (h | h)) | (h | h))
      · exact Or.inl (Or.inl (Or.inl h))
      · exact Or.inr (Or.inl (Or.inl h))
      · exact Or.inl (Or.inl (Or.inr h))
      · exact Or.inr (Or.inl (Or.inr h))
      · exact Or.inl (Or.inr h)
      · exact Or.inr (Or.inr h)
    · rintro (((h | h) | h) | ((h | h) | h))
      · exact Or.inl (Or.inl (Or.inl h))
      · exact Or.inl (Or.inr (Or.inl h))
      · exact Or.inr (Or.inl h)
      · exact Or.inl (Or.inl (Or.inr h))
      · exact Or.inl (Or.inr (Or.inr h))
      · exact Or.inr (Or.inr h)
theorem gT_ownB (enc : HookPair → Nat) (t : Option Node) (p : List Sym) :
    (∃ e ∈ gT ownB t, e.pat = p) ↔ (∃ e ∈ denT t, e.pat = p) ∨ (∃ e ∈ gT (ownH enc) t, e.pat = p) := by
  match t with
  | none => simp [gT, denT]
  | some t0 =>
    simp only [gT, denT, exists_mem_map_under]
    have := fun q => gN_ownB enc t0 q
    simp only [hdenN] at this
    constructor
    · rintro ⟨q, rfl, hq⟩
      rcases (this q).mp hq with h | h
      · exact Or.inl ⟨q, rfl, h⟩
      · exact Or.inr ⟨q, rfl, h⟩
    · rintro (⟨q, rfl, hq⟩ | ⟨q, rfl, hq⟩)
      · exact ⟨q, rfl, (this q).mpr (Or.inl hq)⟩
      · exact ⟨q, rfl, (this q).mpr (Or.inr hq)⟩
theorem gL_ownB (enc : HookPair → Nat) (ks : List Node) (p : List Sym) :
    (∃ e ∈ gL ownB ks, e.pat = p) ↔ (∃ e ∈ denL ks, e.pat = p) ∨ (∃ e ∈ gL (ownH enc) ks, e.pat = p) := by
  match ks with
  | [] => simp [gL, denL]
  | k :: ks =>
    have hK := fun q => gN_ownB enc k q
    have hS := gL_ownB enc ks p
    simp only [hdenN] at hK
    simp only [gL, denL, List.mem_append, or_and_right, exists_or, exists_mem_map_under]
    rw [hS]
    constructor
    · rintro (⟨q, rfl, hq⟩ | (h | h))
      · rcases (hK q).mp hq with h | h
        · exact Or.inl (Or.inl ⟨q, rfl, h⟩)
        · exact Or.inr (Or.inl ⟨q, rfl, h⟩)
      · exact Or.inl (Or.inr h)
      · exact Or.inr (Or.inr h)
    · rintro ((⟨q, rfl, hq⟩ | h) | (⟨q, rfl, hq⟩ | h))
      · exact Or.inl ⟨q, rfl, (hK q).mpr (Or.inl hq)⟩
      · exact Or.inr (Or.inl h)
      · exact Or.inl ⟨q, rfl, (hK q).mpr (Or.inr hq)⟩
      · exact Or.inr (Or.inr h)
end

/-! ### no dead branches -/

mutual
/-- the node holds something (data, a hook pair or a child), and so does every node below it -/
def FullN : Node → Prop
  | .mk _ d _ _ h lits tok =>
    (d.isSome = true ∨ h.isSome = true ∨ lits ≠ [] ∨ tok.isSome = true) ∧ FullL lits ∧ FullT tok
def FullT : Option Node → Prop
  | none => True
  | some t => FullN t
def FullL : List Node → Prop
  | [] => True
  | k :: ks => FullN k ∧ FullL ks
end

/-- a tree without dead branches: every node below the root is full (the root itself may be empty) -/
def LiveN : Node → Prop
  | .mk _ _ _ _ _ lits tok => FullL lits ∧ FullT tok

/-- content of a node: it holds data, a hook pair or a child -/
def Node.hasContent : Node → Prop
  | .mk _ d _ _ h lits tok => d.isSome = true ∨ h.isSome = true ∨ lits ≠ [] ∨ tok.isSome = true

theorem fullN_iff (n : Node) : FullN n ↔ n.hasContent ∧ LiveN n := by
  cases n; unfold FullN LiveN Node.hasContent; rfl

theorem FullN.live {n : Node} (h : FullN n) : LiveN n := by
  cases n; unfold FullN at h; exact h.2

theorem FullN.withKey {n : Node} (h : FullN n) (k : Str) : FullN (n.withKey k) := by
  cases n; simp only [Node.withKey]; unfold FullN at h ⊢; exact h

mutual
/-- a full node has a pattern below it -/
theorem fullN_pat (n : Node) (h : FullN n) : ∃ e, e ∈ gN ownB n := by
  match n with
  | .mk k d pk f hk lits tok =>
    unfold FullN at h
    obtain ⟨hc, hl, ht⟩ := h
    simp only [gN, List.mem_append]
    by_cases hdh : (d.isSome || hk.isSome) = true
    · exact ⟨⟨[], 0, []⟩, Or.inl (Or.inl (by simp [ownB, hdh]))⟩
    · have hdh' : d.isSome = false ∧ hk.isSome = false := by simpa using hdh
      rcases hc with hc | hc | hc | hc
      · simp [hdh'.1] at hc
      · simp [hdh'.2] at hc
      · obtain ⟨e, he⟩ := fullL_pat lits hc hl
        exact ⟨e, Or.inl (Or.inr he)⟩
      · obtain ⟨e, he⟩ := fullT_pat tok hc ht
        exact ⟨e, Or.inr he⟩
theorem fullT_pat (t : Option Node) (hs : t.isSome = true) (h : FullT t) : ∃ e, e ∈ gT ownB t := by
  match t with
  | none => simp at hs
  | some t0 =>
    unfold FullT at h
    obtain ⟨e, he⟩ := fullN_pat t0 h
    exact ⟨e.under [Sym.tok t0.filter], by simp only [gT, List.mem_map]; exact ⟨e, he, rfl⟩⟩
theorem fullL_pat (ks : List Node) (hs : ks ≠ []) (h : FullL ks) : ∃ e, e ∈ gL ownB ks := by
  match ks with
  | [] => exact absurd rfl hs
  | k :: ks =>
    unfold FullL at h
    obtain ⟨e, he⟩ := fullN_pat k h.1
    exact ⟨e.under (litSyms k.key), by simp only [gL, List.mem_append, List.mem_map]; exact Or.inl ⟨e, he, rfl⟩⟩
end

/-! ### `_set` keeps the tree live -/

mutual
theorem chainLit_full (a : SetArgs) (ha : a.data.isSome = true ∨ a.hooks.isSome = true) (key : Str)
    (r : List Sym) : FullN (chainLit a key r) := by
  match r with
  | [] =>
    simp only [chainLit]; unfold FullN FullL FullT
    exact ⟨by rcases ha with h | h <;> simp [h], trivial, trivial⟩
  | .lit c :: r => simp only [chainLit]; exact chainLit_full a ha (key ++ [c]) r
  | .tok g :: r =>
    simp only [chainLit]; unfold FullN FullL FullT
    exact ⟨by simp, trivial, chainTok_full a ha g r⟩
theorem chainTok_full (a : SetArgs) (ha : a.data.isSome = true ∨ a.hooks.isSome = true) (g : Option Fid)
    (r : List Sym) : FullN (chainTok a g r) := by
  match r with
  | [] =>
    simp only [chainTok]; unfold FullN FullL FullT
    exact ⟨by rcases ha with h | h <;> simp [h], trivial, trivial⟩
  | .lit c :: r =>
    simp only [chainTok]; unfold FullN FullL FullL FullT
    exact ⟨by simp, ⟨chainLit_full a ha [c] r, trivial⟩, trivial⟩
  | .tok g' :: r =>
    simp only [chainTok]; unfold FullN FullL FullT
    exact ⟨by simp, trivial, chainTok_full a ha g' r⟩
end

theorem setHere_ok_eq (a : SetArgs) (k : Str) (d : Option Nat) (p : List Str) (f : Option Fid)
    (hk : Option HookPair) (lits : List Node) (tok : Option Node) (n' : Node)
    (hs : setHere a (.mk k d p f hk lits tok) = .ok n') :
    n' = .mk k (if a.data.isSome then a.data else d) (if a.data.isSome then a.names else p) f
      (if a.hooks.isSome then a.hooks else hk) lits tok := by
  unfold setHere at hs
  by_cases c1 : (a.data.isSome && d.isSome && !a.overwrite) = true
  · simp [c1] at hs
  · by_cases c2 : (a.hooks.isSome && hk.isSome && !a.overwrite) = true
    · simp [c1, c2] at hs
    · simp only [c1, c2, Bool.false_eq_true, if_false, Except.ok.injEq] at hs
      exact hs.symm

theorem setHere_content (a : SetArgs) (n n' : Node) (hs : setHere a n = .ok n') (hc : n.hasContent) :
    n'.hasContent := by
  match n with
  | .mk k d p f hk lits tok =>
    rw [setHere_ok_eq a k d p f hk lits tok n' hs]
    unfold Node.hasContent at hc ⊢
    rcases hc with h1 | h1 | h1 | h1
    · left; split <;> simp_all
    · right; left; split <;> simp_all
    · exact Or.inr (Or.inr (Or.inl h1))
    · exact Or.inr (Or.inr (Or.inr h1))

theorem setHere_full (a : SetArgs) (n n' : Node) (hs : setHere a n = .ok n') :
    (FullN n → FullN n') ∧ (LiveN n → LiveN n') := by
  have hlive : LiveN n → LiveN n' := by
    match n with
    | .mk k d p f hk lits tok =>
      rw [setHere_ok_eq a k d p f hk lits tok n' hs]
      intro h; unfold LiveN at h ⊢; exact h
  refine ⟨fun h => ?_, hlive⟩
  exact (fullN_iff n').mpr ⟨setHere_content a n n' hs ((fullN_iff n).mp h).1, hlive h.live⟩

theorem splitIns_full (a : SetArgs) (ha : a.data.isSome = true ∨ a.hooks.isSome = true) (k k' : Node)
    (route : List Sym) (hk : FullN k) (hi : splitIns a k route = .ok k') : FullN k' := by
  unfold splitIns at hi
  dsimp only at hi
  have hold := hk.withKey (k.key.drop (commonPrefix k.key (litRun route)).length)
  cases hd : List.drop (commonPrefix k.key (litRun route)).length route with
  | nil =>
    rw [hd] at hi
    refine (setHere_full a _ k' hi).1 ?_
    unfold FullN FullL FullL FullT
    exact ⟨by simp, ⟨hold, trivial⟩, trivial⟩
  | cons sy r =>
    rw [hd] at hi
    cases sy with
    | lit c =>
      simp only [Except.ok.injEq] at hi
      subst hi
      unfold FullN FullL FullL FullL FullT
      exact ⟨by simp, ⟨chainLit_full a ha [c] r, hold, trivial⟩, trivial⟩
    | tok g =>
      simp only [Except.ok.injEq] at hi
      subst hi
      unfold FullN FullL FullL FullT
      exact ⟨by simp, ⟨hold, trivial⟩, chainTok_full a ha g r⟩

theorem splitIns_ne_error (a : SetArgs) (k : Node) (route : List Sym) (e : Err) :
    splitIns a k route ≠ .error e := by
  unfold splitIns
  dsimp only
  cases List.drop (commonPrefix k.key (litRun route)).length route with
  | nil => simp [setHere]
  | cons sy r => cases sy <;> simp

theorem insL_some_ne_nil (a : SetArgs) (ks : List Node) (c : Char) (r : List Sym) (l : List Node)
    (hi : insL a ks c r = .ok (some l)) : l ≠ [] := by
  induction ks generalizing l with
  | nil => simp [insL] at hi
  | cons k ks ih =>
    simp only [insL] at hi
    split at hi
    · cases hX : (stripKey k.key (.lit c :: r)).elim (splitIns a k (.lit c :: r)) (fun rest => insN a k rest) with
      | error e => rw [hX] at hi; simp [Except.map] at hi
      | ok k' =>
        rw [hX] at hi
        simp only [Except.map, Except.ok.injEq, Option.some.injEq] at hi
        subst hi; simp
    · cases hX : insL a ks c r with
      | error e => rw [hX] at hi; simp [Except.map] at hi
      | ok o =>
        rw [hX] at hi
        simp only [Except.map, Except.ok.injEq] at hi
        cases o with
        | none => simp at hi
        | some l0 =>
          simp only [Option.map_some, Option.some.injEq] at hi
          subst hi; simp

theorem insN_content (a : SetArgs) (n n' : Node) (p : List Sym) (hi : insN a n p = .ok n')
    (hc : n.hasContent) : n'.hasContent := by
  match n, p with
  | .mk k d pk f hk lits tok, [] =>
    simp only [insN] at hi
    exact setHere_content a _ n' hi hc
  | .mk k d pk f hk lits tok, .lit c :: r =>
    simp only [insN] at hi
    cases hL : insL a lits c r with
    | error e => rw [hL] at hi; simp [Except.map] at hi
    | ok o =>
      rw [hL] at hi
      simp only [Except.map, Except.ok.injEq] at hi
      subst hi
      unfold Node.hasContent
      refine Or.inr (Or.inr (Or.inl ?_))
      cases o with
      | none => simp
      | some l => simpa using insL_some_ne_nil a lits c r l hL
  | .mk k d pk f hk lits tok, .tok g :: r =>
    simp only [insN] at hi
    cases hT : insT a tok g r with
    | error e => rw [hT] at hi; simp [Except.map] at hi
    | ok t =>
      rw [hT] at hi
      simp only [Except.map, Except.ok.injEq] at hi
      subst hi
      unfold Node.hasContent
      exact Or.inr (Or.inr (Or.inr rfl))

mutual
/-- `RadiDict._set` with data or a hook pair leaves no dead branch -/
theorem insN_live (a : SetArgs) (ha : a.data.isSome = true ∨ a.hooks.isSome = true) (n : Node)
    (p : List Sym) (n' : Node) (hl : LiveN n) (hi : insN a n p = .ok n') : LiveN n' := by
  match n, p with
  | n, [] =>
    simp only [insN] at hi
    exact (setHere_full a n n' hi).2 hl
  | .mk k d pk f hk lits tok, .lit c :: r =>
    simp only [insN] at hi
    unfold LiveN at hl
    cases hL : insL a lits c r with
    | error e => rw [hL] at hi; simp [Except.map] at hi
    | ok o =>
      rw [hL] at hi
      simp only [Except.map, Except.ok.injEq] at hi
      subst hi
      unfold LiveN
      refine ⟨?_, hl.2⟩
      cases o with
      | none =>
        simp only [Option.getD]
        unfold FullL
        exact ⟨chainLit_full a ha [c] r, hl.1⟩
      | some l => exact insL_full a ha lits c r l hl.1 hL
  | .mk k d pk f hk lits tok, .tok g :: r =>
    simp only [insN] at hi
    unfold LiveN at hl
    cases hT : insT a tok g r with
    | error e => rw [hT] at hi; simp [Except.map] at hi
    | ok t =>
      rw [hT] at hi
      simp only [Except.map, Except.ok.injEq] at hi
      subst hi
      unfold LiveN FullT
      exact ⟨hl.1, insT_full a ha tok g r t hl.2 hT⟩
theorem insT_full (a : SetArgs) (ha : a.data.isSome = true ∨ a.hooks.isSome = true) (t : Option Node)
    (g : Option Fid) (r : List Sym) (t' : Node) (hl : FullT t) (hi : insT a t g r = .ok t') : FullN t' := by
  match t with
  | none =>
    simp only [insT, Except.ok.injEq] at hi
    subst hi
    exact chainTok_full a ha g r
  | some t0 =>
    simp only [insT] at hi
    unfold FullT at hl
    split at hi
    · cases hi
    · exact (fullN_iff t').mpr ⟨insN_content a t0 t' r hi ((fullN_iff t0).mp hl).1,
        insN_live a ha t0 r t' hl.live hi⟩
theorem insL_full (a : SetArgs) (ha : a.data.isSome = true ∨ a.hooks.isSome = true) (ks : List Node)
    (c : Char) (r : List Sym) (l : List Node) (hl : FullL ks) (hi : insL a ks c r = .ok (some l)) :
    FullL l := by
  match ks with
  | [] => simp [insL] at hi
  | k :: ks =>
    simp only [insL] at hi
    unfold FullL at hl
    split at hi
    · cases hs : stripKey k.key (.lit c :: r) with
      | none =>
        rw [hs] at hi
        simp only [Option.elim] at hi
        cases hX : splitIns a k (.lit c :: r) with
        | error e => rw [hX] at hi; simp [Except.map] at hi
        | ok k' =>
          rw [hX] at hi
          simp only [Except.map, Except.ok.injEq, Option.some.injEq] at hi
          subst hi
          unfold FullL
          exact ⟨splitIns_full a ha k k' _ hl.1 hX, hl.2⟩
      | some rest =>
        rw [hs] at hi
        simp only [Option.elim] at hi
        cases hX : insN a k rest with
        | error e => rw [hX] at hi; simp [Except.map] at hi
        | ok k' =>
          rw [hX] at hi
          simp only [Except.map, Except.ok.injEq, Option.some.injEq] at hi
          subst hi
          unfold FullL
          exact ⟨(fullN_iff k').mpr ⟨insN_content a k k' rest hX ((fullN_iff k).mp hl.1).1,
            insN_live a ha k rest k' hl.1.live hX⟩, hl.2⟩
    · cases hX : insL a ks c r with
      | error e => rw [hX] at hi; simp [Except.map] at hi
      | ok o =>
        rw [hX] at hi
        simp only [Except.map, Except.ok.injEq] at hi
        cases o with
        | none => simp at hi
        | some l0 =>
          simp only [Option.map_some, Option.some.injEq] at hi
          subst hi
          unfold FullL
          exact ⟨hl.1, insL_full a ha ks c r l0 hl.2 hX⟩
end

/-! ### the in-place update of a hook pair keeps the tree live, and reaches its node -/

theorem setHooks_content (hp : HookPair) (n : Node) : (Node.setHooks hp n).hasContent := by
  cases n; unfold Node.setHooks Node.hasContent; simp

mutual
theorem updN_live (hp : HookPair) (n : Node) (p : List Sym) (n' : Node) (hl : LiveN n)
    (hu : updN (Node.setHooks hp) n p = some n') : LiveN n' ∧ (n.hasContent → n'.hasContent) := by
  match n, p with
  | .mk k d pk f hk lits tok, [] =>
    simp only [updN, Option.some.injEq] at hu
    subst hu
    exact ⟨by unfold LiveN at hl; simp only [Node.setHooks]; unfold LiveN; exact hl,
      fun _ => setHooks_content hp _⟩
  | .mk k d pk f hk lits tok, .lit c :: r =>
    simp only [updN] at hu
    unfold LiveN at hl
    cases hL : updL (Node.setHooks hp) lits c r with
    | none => rw [hL] at hu; simp at hu
    | some l =>
      rw [hL] at hu
      simp only [Option.map_some, Option.some.injEq] at hu
      subst hu
      obtain ⟨h1, h2⟩ := updL_full hp lits c r l hl.1 hL
      refine ⟨by unfold LiveN; exact ⟨h1, hl.2⟩, fun _ => ?_⟩
      unfold Node.hasContent
      exact Or.inr (Or.inr (Or.inl h2))
  | .mk k d pk f hk lits tok, .tok g :: r =>
    simp only [updN] at hu
    unfold LiveN at hl
    cases hT : updT (Node.setHooks hp) tok r with
    | none => rw [hT] at hu; simp at hu
    | some t =>
      rw [hT] at hu
      simp only [Option.map_some, Option.some.injEq] at hu
      subst hu
      obtain ⟨h1, h2⟩ := updT_full hp tok r t hl.2 hT
      refine ⟨by unfold LiveN; exact ⟨hl.1, h1⟩, fun _ => ?_⟩
      unfold Node.hasContent
      exact Or.inr (Or.inr (Or.inr h2))
theorem updT_full (hp : HookPair) (t : Option Node) (r : List Sym) (t' : Option Node) (hl : FullT t)
    (hu : updT (Node.setHooks hp) t r = some t') : FullT t' ∧ t'.isSome = true := by
  match t with
  | none => simp [updT] at hu
  | some t0 =>
    simp only [updT] at hu
    unfold FullT at hl
    cases hN : updN (Node.setHooks hp) t0 r with
    | none => rw [hN] at hu; simp at hu
    | some t1 =>
      rw [hN] at hu
      simp only [Option.map_some, Option.some.injEq] at hu
      subst hu
      obtain ⟨h1, h2⟩ := updN_live hp t0 r t1 hl.live hN
      refine ⟨?_, rfl⟩
      unfold FullT
      exact (fullN_iff t1).mpr ⟨h2 ((fullN_iff t0).mp hl).1, h1⟩
theorem updL_full (hp : HookPair) (ks : List Node) (c : Char) (r : List Sym) (ks' : List Node)
    (hl : FullL ks) (hu : updL (Node.setHooks hp) ks c r = some ks') : FullL ks' ∧ ks' ≠ [] := by
  match ks with
  | [] => simp [updL] at hu
  | k :: ks =>
    simp only [updL] at hu
    unfold FullL at hl
    split at hu
    · cases hs : stripKey k.key (.lit c :: r) with
      | none => rw [hs] at hu; simp at hu
      | some rest =>
        rw [hs] at hu
        simp only [Option.elim] at hu
        cases hN : updN (Node.setHooks hp) k rest with
        | none => rw [hN] at hu; simp at hu
        | some k1 =>
          rw [hN] at hu
          simp only [Option.map_some, Option.some.injEq] at hu
          subst hu
          obtain ⟨h1, h2⟩ := updN_live hp k rest k1 hl.1.live hN
          refine ⟨?_, by simp⟩
          unfold FullL
          exact ⟨(fullN_iff k1).mpr ⟨h2 ((fullN_iff k).mp hl.1).1, h1⟩, hl.2⟩
    · cases hX : updL (Node.setHooks hp) ks c r with
      | none => rw [hX] at hu; simp at hu
      | some ks1 =>
        rw [hX] at hu
        simp only [Option.map_some, Option.some.injEq] at hu
        subst hu
        refine ⟨?_, by simp⟩
        unfold FullL
        exact ⟨hl.1, (updL_full hp ks c r ks1 hl.2 hX).1⟩
end

mutual
/-- where the filter-blind walk arrives, the update is applied (the `fault` branch of
`Router.addHookParsed` is not reached) -/
theorem updN_some (g : Node → Node) (n : Node) (p : List Sym) (m : Node)
    (h : findN false n p = .ok m) : ∃ t, updN g n p = some t := by
  match n, p with
  | n, [] => exact ⟨g n, by simp [updN]⟩
  | .mk k d pk f hk lits tok, .lit c :: r =>
    simp only [findN] at h
    obtain ⟨l, hl⟩ := updL_some g lits c r m h
    exact ⟨_, by simp only [updN, hl, Option.map_some]; rfl⟩
  | .mk k d pk f hk lits tok, .tok g' :: r =>
    simp only [findN] at h
    obtain ⟨t, ht⟩ := updT_some g tok g' r m h
    exact ⟨_, by simp only [updN, ht, Option.map_some]; rfl⟩
theorem updT_some (g : Node → Node) (t : Option Node) (g' : Option Fid) (r : List Sym) (m : Node)
    (h : findT false t g' r = .ok m) : ∃ t', updT g t r = some t' := by
  match t with
  | none => simp [findT] at h
  | some t0 =>
    simp only [findT, Bool.false_and, Bool.false_eq_true, if_false] at h
    obtain ⟨t1, ht1⟩ := updN_some g t0 r m h
    exact ⟨_, by simp only [updT, ht1, Option.map_some]; rfl⟩
theorem updL_some (g : Node → Node) (ks : List Node) (c : Char) (r : List Sym) (m : Node)
    (h : findL false ks c r = .ok m) : ∃ l, updL g ks c r = some l := by
  match ks with
  | [] => simp [findL] at h
  | k :: ks =>
    simp only [findL] at h
    simp only [updL]
    split at h
    · rename_i hc
      simp only [hc, if_true]
      cases hs : stripKey k.key (.lit c :: r) with
      | none => rw [hs] at h; simp [Option.elim] at h
      | some rest =>
        rw [hs] at h
        simp only [Option.elim] at h ⊢
        obtain ⟨k1, hk1⟩ := updN_some g k rest m h
        exact ⟨_, by simp only [hk1, Option.map_some]; rfl⟩
    · rename_i hc
      rw [if_neg hc]
      obtain ⟨l, hl⟩ := updL_some g ks c r m h
      exact ⟨_, by simp only [hl, Option.map_some]; rfl⟩
end

mutual
/-- a walk that compares filters and succeeds is also a filter-blind walk -/
theorem findN_true_false (n : Node) (p : List Sym) (m : Node) (h : findN true n p = .ok m) :
    findN false n p = .ok m := by
  match n, p with
  | n, [] => simpa [findN] using h
  | .mk k d pk f hk lits tok, .lit c :: r =>
    simp only [findN] at h ⊢
    exact findL_true_false lits c r m h
  | .mk k d pk f hk lits tok, .tok g :: r =>
    simp only [findN] at h ⊢
    exact findT_true_false tok g r m h
theorem findT_true_false (t : Option Node) (g : Option Fid) (r : List Sym) (m : Node)
    (h : findT true t g r = .ok m) : findT false t g r = .ok m := by
  match t with
  | none => simp [findT] at h
  | some t0 =>
    simp only [findT] at h ⊢
    split at h
    · cases h
    · simp only [Bool.false_and, Bool.false_eq_true, if_false]
      exact findN_true_false t0 r m h
theorem findL_true_false (ks : List Node) (c : Char) (r : List Sym) (m : Node)
    (h : findL true ks c r = .ok m) : findL false ks c r = .ok m := by
  match ks with
  | [] => simp [findL] at h
  | k :: ks =>
    simp only [findL] at h ⊢
    split
    · rename_i hc
      simp only [hc, if_true] at h
      cases hs : stripKey k.key (.lit c :: r) with
      | none => rw [hs] at h; simp [Option.elim] at h
      | some rest =>
        rw [hs] at h
        simp only [Option.elim] at h ⊢
        exact findN_true_false k rest m h
    · rename_i hc
      rw [if_neg hc] at h
      exact findL_true_false ks c r m h
end

/-! ### updating a pair that is there keeps the patterns of the hook pairs -/

theorem map_pat_under (pre : List Sym) (l : List Rule) :
    (l.map (Rule.under pre)).map (·.pat) = (l.map (·.pat)).map (pre ++ ·) := by
  simp [List.map_map, Function.comp_def]

mutual
theorem updN_hpats (enc : HookPair → Nat) (hp : HookPair) (n : Node) (p : List Sym) (n' m : Node)
    (hu : updN (Node.setHooks hp) n p = some n') (hm : findN false n p = .ok m)
    (hh : m.hooks.isSome = true) :
    n'.key = n.key ∧ n'.filter = n.filter ∧ (hdenN enc n').map (·.pat) = (hdenN enc n).map (·.pat) := by
  match n, p with
  | .mk k d pk f hk lits tok, [] =>
    simp only [updN, Option.some.injEq] at hu
    simp only [findN, Except.ok.injEq] at hm
    subst hu hm
    simp only [Node.hooks] at hh
    refine ⟨rfl, rfl, ?_⟩
    cases hk with
    | none => simp at hh
    | some hp0 => simp [hdenN, gN, Node.setHooks, ownH]
  | .mk k d pk f hk lits tok, .lit c :: r =>
    simp only [updN] at hu
    simp only [findN] at hm
    cases hL : updL (Node.setHooks hp) lits c r with
    | none => rw [hL] at hu; simp at hu
    | some l =>
      rw [hL] at hu
      simp only [Option.map_some, Option.some.injEq] at hu
      subst hu
      refine ⟨rfl, rfl, ?_⟩
      simp only [hdenN, gN, List.map_append]
      rw [updL_hpats enc hp lits c r l m hL hm hh]
  | .mk k d pk f hk lits tok, .tok g :: r =>
    simp only [updN] at hu
    simp only [findN] at hm
    cases hT : updT (Node.setHooks hp) tok r with
    | none => rw [hT] at hu; simp at hu
    | some t =>
      rw [hT] at hu
      simp only [Option.map_some, Option.some.injEq] at hu
      subst hu
      refine ⟨rfl, rfl, ?_⟩
      simp only [hdenN, gN, List.map_append]
      rw [updT_hpats enc hp tok g r t m hT hm hh]
theorem updT_hpats (enc : HookPair → Nat) (hp : HookPair) (t : Option Node) (g : Option Fid) (r : List Sym)
    (t' : Option Node) (m : Node) (hu : updT (Node.setHooks hp) t r = some t')
    (hm : findT false t g r = .ok m) (hh : m.hooks.isSome = true) :
    (gT (ownH enc) t').map (·.pat) = (gT (ownH enc) t).map (·.pat) := by
  match t with
  | none => simp [updT] at hu
  | some t0 =>
    simp only [updT] at hu
    simp only [findT, Bool.false_and, Bool.false_eq_true, if_false] at hm
    cases hN : updN (Node.setHooks hp) t0 r with
    | none => rw [hN] at hu; simp at hu
    | some t1 =>
      rw [hN] at hu
      simp only [Option.map_some, Option.some.injEq] at hu
      subst hu
      obtain ⟨_, hfl, hpat⟩ := updN_hpats enc hp t0 r t1 m hN hm hh
      simp only [hdenN] at hpat
      simp only [gT, map_pat_under, hfl, hpat]
theorem updL_hpats (enc : HookPair → Nat) (hp : HookPair) (ks : List Node) (c : Char) (r : List Sym)
    (ks' : List Node) (m : Node) (hu : updL (Node.setHooks hp) ks c r = some ks')
    (hm : findL false ks c r = .ok m) (hh : m.hooks.isSome = true) :
    (gL (ownH enc) ks').map (·.pat) = (gL (ownH enc) ks).map (·.pat) := by
  match ks with
  | [] => simp [updL] at hu
  | k :: ks =>
    simp only [updL] at hu
    simp only [findL] at hm
    split at hu
    · rename_i hc
      rw [if_pos hc] at hm
      cases hs : stripKey k.key (.lit c :: r) with
      | none => rw [hs] at hu; simp at hu
      | some rest =>
        rw [hs] at hu hm
        simp only [Option.elim] at hu hm
        cases hN : updN (Node.setHooks hp) k rest with
        | none => rw [hN] at hu; simp at hu
        | some k1 =>
          rw [hN] at hu
          simp only [Option.map_some, Option.some.injEq] at hu
          subst hu
          obtain ⟨hkey, _, hpat⟩ := updN_hpats enc hp k rest k1 m hN hm hh
          simp only [hdenN] at hpat
          simp only [gL, List.map_append, map_pat_under, hkey, hpat]
    · rename_i hc
      rw [if_neg hc] at hm
      cases hX : updL (Node.setHooks hp) ks c r with
      | none => rw [hX] at hu; simp at hu
      | some ks1 =>
        rw [hX] at hu
        simp only [Option.map_some, Option.some.injEq] at hu
        subst hu
        simp only [gL, List.map_append]
        rw [updL_hpats enc hp ks c r ks1 m hX hm hh]
end

/-! ### `_set` on a live tree of compatible patterns fails only at the node it reaches -/

mutual
theorem insN_error (a : SetArgs) (n : Node) (h : WFN n) (hl : LiveN n) (p : List Sym)
    (hc : ∀ e ∈ gN ownB n, Compat e.pat p) (err : Err) (hi : insN a n p = .error err) :
    ∃ m, findN true n p = .ok m ∧ setHere a m = .error err := by
  match n, p with
  | n, [] =>
    simp only [insN] at hi
    exact ⟨n, by simp [findN], hi⟩
  | .mk k d pk f hk lits tok, .lit c :: r =>
    simp only [insN] at hi
    unfold WFN at h
    unfold LiveN at hl
    cases hL : insL a lits c r with
    | ok o => rw [hL] at hi; simp [Except.map] at hi
    | error e =>
      rw [hL] at hi
      simp only [Except.map, Except.error.injEq] at hi
      subst hi
      obtain ⟨m, hm, hs⟩ := insL_error a lits h.1 hl.1 c r
        (fun x hx => hc x (by simp only [gN, List.mem_append]; exact Or.inl (Or.inr hx))) e hL
      exact ⟨m, by simpa [findN] using hm, hs⟩
  | .mk k d pk f hk lits tok, .tok g :: r =>
    simp only [insN] at hi
    unfold WFN at h
    unfold LiveN at hl
    cases hT : insT a tok g r with
    | ok o => rw [hT] at hi; simp [Except.map] at hi
    | error e =>
      rw [hT] at hi
      simp only [Except.map, Except.error.injEq] at hi
      subst hi
      obtain ⟨m, hm, hs⟩ := insT_error a tok h.2 hl.2 g r
        (fun x hx => hc x (by simp only [gN, List.mem_append]; exact Or.inr hx)) e hT
      exact ⟨m, by simpa [findN] using hm, hs⟩
theorem insT_error (a : SetArgs) (t : Option Node) (h : WFT t) (hl : FullT t) (g : Option Fid)
    (r : List Sym) (hc : ∀ e ∈ gT ownB t, Compat e.pat (.tok g :: r)) (err : Err)
    (hi : insT a t g r = .error err) :
    ∃ m, findT true t g r = .ok m ∧ setHere a m = .error err := by
  match t with
  | none => simp [insT] at hi
  | some t0 =>
    unfold WFT at h
    unfold FullT at hl
    -- a pattern runs through the wildcard node: its filter is the one of the new pattern
    have hfg : t0.filter = g := by
      obtain ⟨e, he⟩ := fullN_pat t0 hl
      have := hc (e.under [Sym.tok t0.filter]) (by simp only [gT, List.mem_map]; exact ⟨e, he, rfl⟩)
      simp only [Rule.under_pat, List.singleton_append] at this
      exact this.tok_inv.1
    simp only [insT, hfg, bne_self_eq_false, Bool.false_eq_true, if_false] at hi
    obtain ⟨m, hm, hs⟩ := insN_error a t0 h hl.live r (by
      intro x hx
      have := hc (x.under [Sym.tok t0.filter]) (by simp only [gT, List.mem_map]; exact ⟨x, hx, rfl⟩)
      simp only [Rule.under_pat, List.singleton_append] at this
      exact this.tok_inv.2) err hi
    exact ⟨m, by simp [findT, hfg, hm], hs⟩
theorem insL_error (a : SetArgs) (ks : List Node) (h : WFL ks) (hl : FullL ks) (c : Char)
    (r : List Sym) (hc : ∀ e ∈ gL ownB ks, Compat e.pat (.lit c :: r)) (err : Err)
    (hi : insL a ks c r = .error err) :
    ∃ m, findL true ks c r = .ok m ∧ setHere a m = .error err := by
  match ks with
  | [] => simp [insL] at hi
  | k :: ks =>
    unfold WFL at h
    unfold FullL at hl
    obtain ⟨hne, hk, hks, hdist⟩ := h
    simp only [insL] at hi
    simp only [findL]
    split at hi
    · rename_i hcc
      simp only [hcc, if_true]
      cases hs : stripKey k.key (.lit c :: r) with
      | none =>
        rw [hs] at hi
        simp only [Option.elim] at hi
        cases hX : splitIns a k (.lit c :: r) with
        | error e => exact absurd hX (splitIns_ne_error a k _ e)
        | ok k' => rw [hX] at hi; simp [Except.map] at hi
      | some rest =>
        rw [hs] at hi
        simp only [Option.elim] at hi ⊢
        cases hX : insN a k rest with
        | ok k' => rw [hX] at hi; simp [Except.map] at hi
        | error e =>
          rw [hX] at hi
          simp only [Except.map, Except.error.injEq] at hi
          subst hi
          refine insN_error a k hk hl.1.live rest ?_ e hX
          intro x hx
          have := hc (x.under (litSyms k.key))
            (by simp only [gL, List.mem_append, List.mem_map]; exact Or.inl ⟨x, hx, rfl⟩)
          rw [stripKey_some hs] at this
          exact (Compat.append_left _ _ _).mp this
    · rename_i hcc
      rw [if_neg hcc]
      cases hX : insL a ks c r with
      | ok o => rw [hX] at hi; simp [Except.map] at hi
      | error e =>
        rw [hX] at hi
        simp only [Except.map, Except.error.injEq] at hi
        subst hi
        exact insL_error a ks hks hl.2 c r
          (fun x hx => hc x (by simp only [gL, List.mem_append]; exact Or.inr hx)) e hX
end

/-! ### the hook pairs `Router.fresh` replays are the hook denotation of the tree -/

mutual
theorem hookListN_map (enc : HookPair → Nat) (pre : List Sym) (n : Node) :
    (hookListN pre n).map (fun x => (⟨x.1, enc x.2, []⟩ : Rule)) = (hdenN enc n).map (Rule.under pre) := by
  match n with
  | .mk k d pk f h lits tok =>
    simp only [hookListN, hdenN, gN, List.map_append]
    rw [hookListL_map enc pre lits, hookListT_map enc pre tok]
    cases h <;> simp [hookOwn, ownH, Rule.under]
theorem hookListT_map (enc : HookPair → Nat) (pre : List Sym) (t : Option Node) :
    (hookListT pre t).map (fun x => (⟨x.1, enc x.2, []⟩ : Rule)) = (gT (ownH enc) t).map (Rule.under pre) := by
  match t with
  | none => simp [hookListT, gT]
  | some t0 =>
    simp only [hookListT, gT]
    rw [hookListN_map enc _ t0, map_under_under]
    rfl
theorem hookListL_map (enc : HookPair → Nat) (pre : List Sym) (ks : List Node) :
    (hookListL pre ks).map (fun x => (⟨x.1, enc x.2, []⟩ : Rule)) = (gL (ownH enc) ks).map (Rule.under pre) := by
  match ks with
  | [] => simp [hookListL, gL]
  | k :: ks =>
    simp only [hookListL, gL, List.map_append]
    rw [hookListN_map enc _ k, hookListL_map enc pre ks, map_under_under]
    rfl
end

/-- a hook pair is replayed iff the tree holds it -/
theorem mem_hookListN (enc : HookPair → Nat) (n : Node) (e : Rule) :
    e ∈ hdenN enc n ↔ ∃ x ∈ hookListN [] n, e = ⟨x.1, enc x.2, []⟩ := by
  have := hookListN_map enc [] n
  rw [map_under_nil] at this
  rw [← this]
  simp only [List.mem_map]
  exact ⟨fun ⟨x, hx, he⟩ => ⟨x, hx, he.symm⟩, fun ⟨x, hx, he⟩ => ⟨x, hx, he.symm⟩⟩

end Ombott.Router
