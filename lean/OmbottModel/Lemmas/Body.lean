import OmbottModel.Model.BodyMixin
/-! Lemmas about the recording stream, the accumulator and the bounded read loop
(`Model/Body.lean`), shared by C04, C05, C13. -/
namespace Ombott.Body
open Py

/-- every `read(n)` of the model: some `j ≤ n` bytes are handed out, at least one unless `n = 0`
or the data is exhausted -/
theorem Rec.read_cases (r : Rec) (n : Nat) :
    ∃ j, j ≤ n ∧ j ≤ r.st.data.length ∧ (r.read n).1 = r.st.data.take j ∧
      (r.read n).2.st.data = r.st.data.drop j ∧ (r.read n).2.pos = r.pos + j ∧
      (r.read n).2.log = (r.pos, n) :: r.log ∧ (0 < n → r.st.data ≠ [] → 0 < j) := by
  obtain ⟨⟨data, sched⟩, pos, log⟩ := r
  cases sched with
  | nil =>
    refine ⟨min n data.length, Nat.min_le_left _ _, Nat.min_le_right _ _, ?_, ?_, ?_, rfl, ?_⟩
    · simp only [Rec.read, Stream.read]
      rw [List.take_eq_take_min]
    · simp only [Rec.read, Stream.read]
      by_cases h : n ≤ data.length
      · rw [Nat.min_eq_left h]
      · rw [Nat.min_eq_right (by omega), List.drop_of_length_le (by omega), List.drop_of_length_le (by omega)]
    · simp [Rec.read, Stream.read, List.length_take]
    · intro hn hd
      have : 0 < data.length := List.length_pos_iff.mpr hd
      omega
  | cons x xs =>
    refine ⟨min (min n (max x 1)) data.length, ?_, Nat.min_le_right _ _, ?_, ?_, ?_, rfl, ?_⟩
    · omega
    · simp only [Rec.read, Stream.read]
      rw [List.take_eq_take_min]
    · simp only [Rec.read, Stream.read]
      by_cases h : min n (max x 1) ≤ data.length
      · rw [Nat.min_eq_left h]
      · have h' : data.length ≤ min n (max x 1) := by omega
        rw [Nat.min_eq_right h', List.drop_of_length_le h', List.drop_of_length_le (Nat.le_refl _)]
    · simp [Rec.read, Stream.read, List.length_take]
    · intro hn hd
      have : 0 < data.length := List.length_pos_iff.mpr hd
      omega

/-! ### the accumulator -/

/-- the accumulator after the bytes `bs` went through `Sink.push` (in any number of parts) -/
def Sink.extend (buf : Nat) (sk : Sink) (bs : Bytes) : Sink :=
  { body := sk.body ++ bs, size := sk.size + bs.length,
    isTemp := sk.isTemp || decide (sk.size + bs.length > buf) }

/-- `body_size` is the length of what was written, and the buffer is a temporary file exactly
when it outgrew the threshold -/
def SinkInv (buf : Nat) (sk : Sink) : Prop :=
  sk.size = sk.body.length ∧ sk.isTemp = decide (sk.size > buf)

/-- the accumulator `_body_read` returns for a body `b` under threshold `buf`: the bytes, and
file-backed exactly when longer than the threshold -/
def bodyOf (buf : Nat) (b : Bytes) : Sink :=
  { body := b, size := b.length, isTemp := decide (b.length > buf) }

theorem bodyOf_eq (buf : Nat) (b : Bytes) : bodyOf buf b = Sink.extend buf {} b := by
  simp [bodyOf, Sink.extend]

theorem SinkInv.init (buf : Nat) : SinkInv buf {} := by simp [SinkInv]

theorem Sink.extend_nil (buf : Nat) (sk : Sink) (h : SinkInv buf sk) : sk.extend buf [] = sk := by
  obtain ⟨body, size, isTemp⟩ := sk
  simp only [SinkInv] at h
  simp [Sink.extend, h.2]

theorem Sink.extend_inv (buf : Nat) (sk : Sink) (bs : Bytes) (h : SinkInv buf sk) :
    SinkInv buf (sk.extend buf bs) := by
  obtain ⟨body, size, isTemp⟩ := sk
  simp only [SinkInv] at h
  simp only [SinkInv, Sink.extend, List.length_append, h.1, true_and, h.2]
  by_cases h1 : body.length > buf <;> by_cases h2 : body.length + bs.length > buf <;> simp [h1, h2]
  omega

theorem Sink.extend_extend (buf : Nat) (sk : Sink) (a b : Bytes) :
    (sk.extend buf a).extend buf b = sk.extend buf (a ++ b) := by
  obtain ⟨body, size, isTemp⟩ := sk
  simp only [Sink.extend, List.length_append, List.append_assoc, Sink.mk.injEq, true_and]
  refine ⟨by omega, ?_⟩
  by_cases h1 : size + a.length > buf <;> by_cases h2 : size + a.length + b.length > buf <;>
    by_cases h3 : size + (a.length + b.length) > buf <;> simp [h1, h2, h3] <;> omega

theorem overMax_mono (max : Option Nat) (a b : Nat) (hab : a ≤ b) (h : overMax max b = false) :
    overMax max a = false := by
  cases max with
  | none => rfl
  | some m => simp only [overMax, decide_eq_false_iff_not] at *; omega

theorem Sink.push_ok (buf : Nat) (max : Option Nat) (sk : Sink) (part : Bytes)
    (h : overMax max (sk.size + part.length) = false) :
    sk.push buf max part = .ok (sk.extend buf part) := by
  simp [Sink.push, h, Sink.extend]

theorem Sink.push_over (buf : Nat) (max : Option Nat) (sk : Sink) (part : Bytes)
    (h : overMax max (sk.size + part.length) = true) :
    sk.push buf max part = .error .bodySizeError := by
  simp [Sink.push, h]

/-! ### the bounded read loop -/

/-- What the loop does when no size limit is hit, for every read fragmentation: it hands the next
`k = min rest (available)` bytes to the accumulator and leaves the stream right behind them; the
only thing that depends on `strict` is what an early end of data means. -/
theorem readParts_within (strict : Bool) (buf : Nat) (max : Option Nat) (hb : 0 < buf) :
    ∀ (rest : Nat) (r : Rec) (sk : Sink), SinkInv buf sk →
      overMax max (sk.size + min rest r.st.data.length) = false →
      (readParts strict buf max rest r sk).2.st.data = r.st.data.drop (min rest r.st.data.length) ∧
      (readParts strict buf max rest r sk).2.pos = r.pos + min rest r.st.data.length ∧
      (readParts strict buf max rest r sk).1 =
        (if r.st.data.length < rest ∧ strict = true then .error .bodyParsingError
         else .ok (sk.extend buf (r.st.data.take (min rest r.st.data.length)))) := by
  intro rest
  induction rest using Nat.strongRecOn with
  | _ rest ih =>
    intro r sk hinv hov
    obtain ⟨j, hjn, hjd, hpart, hdata, hpos, -, hj0⟩ := Rec.read_cases r (min rest buf)
    unfold readParts
    split
    · rename_i h
      obtain ⟨hrest, hne⟩ := h
      have hjpos : 0 < j := by
        apply hj0 (by omega)
        intro hd; rw [hpart, hd] at hne; simp at hne
      have hlen : (r.read (min rest buf)).1.length = j := by rw [hpart, List.length_take]; omega
      have hk : min rest r.st.data.length = j + min (rest - j) (r.st.data.length - j) := by omega
      have hov1 : overMax max (sk.size + (r.read (min rest buf)).1.length) = false :=
        overMax_mono max _ _ (by omega) hov
      rw [Sink.push_ok _ _ _ _ hov1]
      simp only
      have hinv1 := Sink.extend_inv buf sk (r.read (min rest buf)).1 hinv
      have hd1 : (r.read (min rest buf)).2.st.data.length = r.st.data.length - j := by
        rw [hdata, List.length_drop]
      have := ih (rest - (r.read (min rest buf)).1.length) (by omega) (r.read (min rest buf)).2
        (sk.extend buf (r.read (min rest buf)).1) hinv1
        (by rw [hd1, hlen]; simp only [Sink.extend]; rw [hlen]
            have : sk.size + j + min (rest - j) (r.st.data.length - j) = sk.size + min rest r.st.data.length := by omega
            rw [this]; exact hov)
      obtain ⟨h1, h2, h3⟩ := this
      rw [hd1, hlen] at h1 h2 h3
      rw [hlen]
      refine ⟨?_, ?_, ?_⟩
      · rw [h1, hdata, List.drop_drop, hk]
      · rw [h2, hpos]; omega
      · rw [h3, Sink.extend_extend, hdata, hpart, hk, List.take_add]
        have hc : (r.st.data.length - j < rest - j ∧ strict = true) ↔ (r.st.data.length < rest ∧ strict = true) := by
          constructor <;> rintro ⟨a, b⟩ <;> exact ⟨by omega, b⟩
        simp only [hc]
    · rename_i h
      split
      · rename_i hrest
        have hnil : (r.read (min rest buf)).1 = [] := by
          apply Classical.byContradiction
          intro hc; exact h ⟨hrest, hc⟩
        have hd : r.st.data = [] := by
          apply Classical.byContradiction
          intro hc
          have hjp := hj0 (by omega) hc
          have hl : (List.take j r.st.data).length = 0 := by rw [← hpart, hnil]; rfl
          rw [List.length_take] at hl
          have : 0 < r.st.data.length := List.length_pos_iff.mpr hc
          omega
        simp only [hd, List.length_nil, Nat.min_zero, List.drop_zero, List.take_nil, Nat.add_zero] at hdata hpos ⊢
        have hj : j = 0 := by rw [hd] at hjd; simpa using hjd
        refine ⟨by rw [hdata]; simp, by rw [hpos, hj]; rfl, ?_⟩
        rw [Sink.extend_nil buf sk hinv]
        cases strict <;> simp [hrest]
      · rename_i hrest
        have : rest = 0 := by omega
        subst this
        simp [Sink.extend_nil buf sk hinv]

/-- When the bytes on offer exceed the limit the loop ends in `BodySizeError`, for every read
fragmentation, and the stream is left at most one buffer past the first byte over the limit. -/
theorem readParts_over (strict : Bool) (buf : Nat) (m : Nat) (hb : 0 < buf) :
    ∀ (rest : Nat) (r : Rec) (sk : Sink), sk.size ≤ m →
      sk.size + min rest r.st.data.length > m →
      (readParts strict buf (some m) rest r sk).1 = .error .bodySizeError ∧
      (readParts strict buf (some m) rest r sk).2.pos ≤ r.pos + (m - sk.size) + buf := by
  intro rest
  induction rest using Nat.strongRecOn with
  | _ rest ih =>
    intro r sk hsz hov
    obtain ⟨j, hjn, hjd, hpart, hdata, hpos, -, hj0⟩ := Rec.read_cases r (min rest buf)
    have hd0 : r.st.data ≠ [] := by
      intro hd; rw [hd] at hov; simp at hov; omega
    have hrest : 0 < rest := by omega
    unfold readParts
    split
    · rename_i h
      have hjpos : 0 < j := hj0 (by
        have : 0 < r.st.data.length := List.length_pos_iff.mpr hd0
        omega) hd0
      have hlen : (r.read (min rest buf)).1.length = j := by rw [hpart, List.length_take]; omega
      by_cases hp : sk.size + j > m
      · rw [Sink.push_over _ _ _ _ (by simp [overMax, hlen, hp])]
        simp only
        exact ⟨trivial, by rw [hpos]; omega⟩
      · rw [Sink.push_ok _ _ _ _ (by simp [overMax, hlen]; omega)]
        simp only
        have hd1 : (r.read (min rest buf)).2.st.data.length = r.st.data.length - j := by
          rw [hdata, List.length_drop]
        have := ih (rest - (r.read (min rest buf)).1.length) (by omega) (r.read (min rest buf)).2
          (sk.extend buf (r.read (min rest buf)).1)
          (by simp only [Sink.extend, hlen]; omega)
          (by rw [hd1]; simp only [Sink.extend, hlen]; omega)
        refine ⟨this.1, ?_⟩
        have h2 := this.2
        have hsz1 : (sk.extend buf (r.read (min rest buf)).1).size = sk.size + j := by
          simp only [Sink.extend, hlen]
        rw [hsz1, hpos] at h2
        omega
    · rename_i h
      exfalso
      apply h
      refine ⟨hrest, ?_⟩
      have hjpos : 0 < j := hj0 (by
        have : 0 < r.st.data.length := List.length_pos_iff.mpr hd0
        omega) hd0
      intro hc
      have hl : (List.take j r.st.data).length = 0 := by rw [← hpart, hc]; rfl
      rw [List.length_take] at hl
      have : 0 < r.st.data.length := List.length_pos_iff.mpr hd0
      omega

/-- Every `read(n)` issued by the loop lies inside the `rest` bytes it was asked to fetch: it is
issued at an offset `p ≥` the starting offset with `p + n ≤ start + rest`.  Old log entries are
kept. -/
theorem readParts_log (strict : Bool) (buf : Nat) (max : Option Nat) :
    ∀ (rest : Nat) (r : Rec) (sk : Sink),
      ∀ e ∈ (readParts strict buf max rest r sk).2.log,
        e ∈ r.log ∨ (r.pos ≤ e.1 ∧ e.1 + e.2 ≤ r.pos + rest) := by
  intro rest
  induction rest using Nat.strongRecOn with
  | _ rest ih =>
    intro r sk e
    obtain ⟨j, hjn, hjd, hpart, hdata, hpos, hlog, hj0⟩ := Rec.read_cases r (min rest buf)
    have hnew : ∀ e ∈ (r.read (min rest buf)).2.log, e ∈ r.log ∨ (r.pos ≤ e.1 ∧ e.1 + e.2 ≤ r.pos + rest) := by
      intro e he
      rw [hlog] at he
      rcases List.mem_cons.mp he with rfl | he
      · right; simp only; omega
      · exact Or.inl he
    unfold readParts
    split
    · rename_i h
      have hlen : (r.read (min rest buf)).1.length = j := by rw [hpart, List.length_take]; omega
      have hjpos : 0 < j := by
        rw [← hlen]; exact List.length_pos_iff.mpr h.2
      split
      · exact hnew e
      · rename_i sk' _
        intro he
        rcases ih (rest - (r.read (min rest buf)).1.length) (by omega) _ sk' e he with h1 | h1
        · exact hnew e h1
        · right
          rw [hpos, hlen] at h1
          omega
    · split
      · exact hnew e
      · exact fun he => Or.inl he

/-- the only errors of the loop: `BodySizeError` from the size check (only when a limit is
configured), and in the strict (chunked) variant `BodyParsingError` at an early end of data -/
theorem readParts_err (strict : Bool) (buf : Nat) (max : Option Nat) :
    ∀ (rest : Nat) (r : Rec) (sk : Sink) (e : Err),
      (readParts strict buf max rest r sk).1 = .error e →
        (e = .bodySizeError ∧ max ≠ none) ∨ (strict = true ∧ e = .bodyParsingError) := by
  intro rest
  induction rest using Nat.strongRecOn with
  | _ rest ih =>
    intro r sk e
    unfold readParts
    split
    · rename_i h
      have hpos : 0 < (r.read (min rest buf)).1.length := List.length_pos_iff.mpr h.2
      split
      · rename_i e' hpush
        intro he
        simp only [Except.error.injEq] at he
        subst he
        left
        unfold Sink.push at hpush
        split at hpush
        · rename_i hov
          refine ⟨by simpa using hpush.symm, ?_⟩
          intro hn; subst hn; simp [overMax] at hov
        · cases hpush
      · exact ih _ (by omega) _ _ e
    · split
      · cases strict <;> simp
        intro h; exact Or.inr h.symm
      · simp

/-- the loop never moves the stream more than `rest` bytes forward (nor backward) -/
theorem readParts_pos (strict : Bool) (buf : Nat) (max : Option Nat) :
    ∀ (rest : Nat) (r : Rec) (sk : Sink),
      r.pos ≤ (readParts strict buf max rest r sk).2.pos ∧
      (readParts strict buf max rest r sk).2.pos ≤ r.pos + rest := by
  intro rest
  induction rest using Nat.strongRecOn with
  | _ rest ih =>
    intro r sk
    obtain ⟨j, hjn, hjd, hpart, hdata, hpos, -, -⟩ := Rec.read_cases r (min rest buf)
    unfold readParts
    split
    · rename_i h
      have hlen : (r.read (min rest buf)).1.length = j := by rw [hpart, List.length_take]; omega
      have hjpos : 0 < j := by rw [← hlen]; exact List.length_pos_iff.mpr h.2
      split
      · simp only; omega
      · rename_i sk' _
        have := ih (rest - (r.read (min rest buf)).1.length) (by omega) (r.read (min rest buf)).2 sk'
        rw [hpos] at this
        omega
    · split
      · simp only; omega
      · simp

/-- a zero buffer asks for zero bytes, gets nothing and stops: nothing is accumulated -/
theorem readParts_buf_zero (max : Option Nat) (rest : Nat) (r : Rec) (sk : Sink) :
    (readParts false 0 max rest r sk).1 = .ok sk := by
  have hnil : (r.read (min rest 0)).1 = [] := by
    have := Rec.read_length_le r (min rest 0)
    exact List.length_eq_zero_iff.mp (by omega)
  unfold readParts
  split
  · rename_i h; exact absurd hnil h.2
  · split <;> rfl

theorem Sink.push_inv (buf : Nat) (max : Option Nat) (sk sk' : Sink) (part : Bytes) (h : SinkInv buf sk)
    (hp : sk.push buf max part = .ok sk') : SinkInv buf sk' ∧ overMax max sk'.size = false := by
  unfold Sink.push at hp
  split at hp
  · cases hp
  · rename_i hov
    simp only [Except.ok.injEq] at hp
    subst hp
    exact ⟨Sink.extend_inv buf sk part h, by simpa using hov⟩

/-- whatever the loop returns keeps the accounting right: `body_size` is the length written, the
body is a temporary file exactly when it outgrew the threshold, and it is within the size limit -/
theorem readParts_inv (strict : Bool) (buf : Nat) (max : Option Nat) :
    ∀ (rest : Nat) (r : Rec) (sk sk' : Sink), SinkInv buf sk → overMax max sk.size = false →
      (readParts strict buf max rest r sk).1 = .ok sk' → SinkInv buf sk' ∧ overMax max sk'.size = false := by
  intro rest
  induction rest using Nat.strongRecOn with
  | _ rest ih =>
    intro r sk sk' hinv hm
    unfold readParts
    split
    · rename_i h
      have hpos : 0 < (r.read (min rest buf)).1.length := List.length_pos_iff.mpr h.2
      split
      · intro he; cases he
      · rename_i sk1 hpush
        have := Sink.push_inv buf max sk sk1 _ hinv hpush
        exact ih _ (by omega) _ sk1 sk' this.1 this.2
    · split
      · cases strict <;> simp
        intro h; subst h; exact ⟨hinv, hm⟩
      · simp; intro h; subst h; exact ⟨hinv, hm⟩

end Ombott.Body
