import OmbottModel.Lemmas.MultipartLoop
/-!
Totality of the markup on **arbitrary** input: whatever bytes arrive in whatever chunks, `parse`
never runs out of fuel (the Python loops end), never fails an assertion, never indexes out of
range; the only errors it records are `InvalidBoundaryError`, `MalformedHeadersError` and
`UnexpectedBodyEndError`; every section boundary it computes lies inside the chunk.
(Used by C12; complements the refinement theorems, which speak about inputs on which the
reference machine is defined.)
-/
namespace Ombott.Multipart
open Py Spec

/-- the errors `MultipartMarkup.error` can hold -/
def AllowedErr : Option Err → Prop
  | none => True
  | some .invalidBoundaryError => True
  | some .malformedHeaders => True
  | some .unexpectedBodyEnd => True
  | _ => False

def HeeOk (h : Option Bytes) : Prop :=
  h = none ∨ h = some [10, 13, 10] ∨ h = some [13, 10] ∨ h = some [10]

def EaterOk (e : Eater) : Prop := e.stopped = false ∧ e.eatMeth ≠ .none ∧ HeeOk e.headersEndExpected

/-- shape of a method result: `P` for the new eater, the section end inside the chunk and past
`base`, only errors in `errs` -/
def ResOk (base : Nat) (chunk : Bytes) (P : Eater → Prop) (errs : Err → Prop) :
    Except Err (Eater × Option Int) → Prop
  | .ok (e', none) => P e'
  | .ok (e', some p) => P e' ∧ (base : Int) < p + 4 ∧ p + 4 ≤ (chunk.length : Int)
  | .error x => errs x

theorem ResOk.mono {base : Nat} {chunk : Bytes} {P Q : Eater → Prop} {errs errs' : Err → Prop}
    {r : Except Err (Eater × Option Int)} (h : ResOk base chunk P errs r)
    (hp : ∀ e, P e → Q e) (he : ∀ x, errs x → errs' x) : ResOk base chunk Q errs' r := by
  match r with
  | .ok (e', none) => exact hp _ h
  | .ok (e', some p) => exact ⟨hp _ h.1, h.2⟩
  | .error x => exact he _ h

/-! ### the regular expression search -/

def GoOk (lo len : Nat) : EndSearch → Prop
  | .none => True
  | .found p => lo ≤ p ∧ p + 4 ≤ len
  | .tail n => n = 1 ∨ n = 2 ∨ n = 3

theorem GoOk.weaken {lo len : Nat} {r : EndSearch} (h : GoOk (lo + 1) len r) : GoOk lo len r := by
  cases r with
  | none => trivial
  | found p => exact ⟨by have := h.1; omega, h.2⟩
  | tail n => exact h

theorem go_bounds (s : Bytes) : ∀ (rest pre : Bytes), s = pre ++ rest →
    GoOk pre.length s.length (endHeadersGo s pre.length rest) := by
  intro rest
  induction rest with
  | nil => intro pre _; simp [endHeadersGo, GoOk]
  | cons c r ih =>
    intro pre hs
    have ih' := ih (pre ++ [c]) (by simp [hs])
    simp only [List.length_append, List.length_cons, List.length_nil, Nat.zero_add] at ih'
    unfold endHeadersGo
    by_cases hc : c = CR
    · rw [if_pos hc]
      by_cases h1 : CRLFx2.isPrefixOf (c :: r) = true
      · rw [if_pos h1]
        have := (List.isPrefixOf_iff_prefix.mp h1).length_le
        simp only [CRLFx2, List.length_cons, List.length_nil] at this
        subst hs
        simp only [GoOk, List.length_append, List.length_cons]
        omega
      · rw [if_neg h1]
        by_cases h2 : ([CR, LF, CR].isPrefixOf (c :: r) && dollar s (pre.length + 3)) = true
        · rw [if_pos h2]; right; right; rfl
        · rw [if_neg h2]
          by_cases h3 : (CRLF.isPrefixOf (c :: r) && dollar s (pre.length + 2)) = true
          · rw [if_pos h3]; right; left; rfl
          · rw [if_neg h3]
            by_cases h4 : dollar s (pre.length + 1) = true
            · rw [if_pos h4]; left; rfl
            · rw [if_neg h4]; exact ih'.weaken
    · rw [if_neg hc]
      exact ih'.weaken

theorem search_bounds (chunk : Bytes) (base : Nat) :
    GoOk base chunk.length (endHeadersSearch chunk base) := by
  unfold endHeadersSearch
  by_cases hb : base ≤ chunk.length
  · have := go_bounds chunk (chunk.drop base) (chunk.take base) (List.take_append_drop _ _).symm
    rw [List.length_take, Nat.min_eq_left hb] at this
    exact this
  · rw [List.drop_eq_nil_of_le (by omega)]
    simp [endHeadersGo, GoOk]

theorem heeOk_tail (n : Nat) (h : n = 1 ∨ n = 2 ∨ n = 3) : HeeOk (some (CRLFx2.drop n)) := by
  rcases h with rfl | rfl | rfl
  · right; left; rfl
  · right; right; left; rfl
  · right; right; right; rfl

/-! ### `_eat_headers`, `eat` -/

/-- what `_eat_headers` may do to the eater -/
def HdrKeep (e e' : Eater) : Prop :=
  e'.stopped = e.stopped ∧ e'.eatMeth = e.eatMeth ∧ HeeOk e'.headersEndExpected

theorem search_total (e : Eater) (chunk : Bytes) (base : Nat) (hh : HeeOk e.headersEndExpected) :
    ResOk base chunk (HdrKeep e) (fun _ => False)
      (match endHeadersSearch chunk base with
        | .none => .ok (e, none)
        | .found p => .ok (e, some (p : Int))
        | .tail n => .ok ({ e with headersEndExpected := some (CRLFx2.drop n) }, none)) := by
  have := search_bounds chunk base
  revert this
  cases endHeadersSearch chunk base with
  | none => intro _; exact ⟨rfl, rfl, hh⟩
  | found p => intro h; exact ⟨⟨rfl, rfl, hh⟩, by have := h.1; omega, by have := h.2; omega⟩
  | tail n => intro h; exact ⟨rfl, rfl, heeOk_tail n h⟩

theorem slice_length' (s : Bytes) (a b : Nat) : (slice s a b).length = min b s.length - a := by
  unfold slice; simp [List.length_drop, List.length_take]

theorem heeOk_some_facts {exp : Bytes} (h : HeeOk (some exp)) :
    exp ≠ [] ∧ (exp = [LF] ∨ 2 ≤ exp.length) ∧
    ∀ n, 1 ≤ n → n < exp.length → HeeOk (some (exp.drop n)) := by
  rcases h with h | h | h | h
  · cases h
  · simp only [Option.some.injEq] at h; subst h
    refine ⟨by simp, Or.inr (by simp), fun n h1 h2 => ?_⟩
    simp only [List.length_cons, List.length_nil] at h2
    have : n = 1 ∨ n = 2 := by omega
    rcases this with rfl | rfl
    · right; right; left; rfl
    · right; right; right; rfl
  · simp only [Option.some.injEq] at h; subst h
    refine ⟨by simp, Or.inr (by simp), fun n h1 h2 => ?_⟩
    simp only [List.length_cons, List.length_nil] at h2
    have : n = 1 := by omega
    subst this
    right; right; right; rfl
  · simp only [Option.some.injEq] at h; subst h
    refine ⟨by simp, Or.inl rfl, fun n h1 h2 => ?_⟩
    simp only [List.length_cons, List.length_nil] at h2
    omega

theorem eatHeaders_total (e : Eater) (chunk : Bytes) (base : Nat) (hh : HeeOk e.headersEndExpected) :
    ResOk base chunk (HdrKeep e) (· = .malformedHeaders) (eatHeaders e chunk base) := by
  cases he : e.headersEndExpected with
  | none =>
    unfold eatHeaders
    rw [he]
    exact (search_total e chunk base hh).mono (fun _ h => h) (fun _ h => h.elim)
  | some exp =>
    rw [he] at hh
    obtain ⟨hne, hlen, hdrop⟩ := heeOk_some_facts hh
    unfold eatHeaders
    rw [he]
    simp only
    have hel : 0 < exp.length := List.length_pos_iff.mpr hne
    by_cases h1 : slice chunk base exp.length = exp
    · rw [if_pos h1]
      have hl := slice_length' chunk base exp.length
      rw [h1] at hl
      refine ⟨⟨rfl, rfl, Or.inl rfl⟩, ?_, ?_⟩ <;> push_cast <;> omega
    · rw [if_neg h1]
      by_cases h2 : (slice chunk base exp.length).isEmpty = true
      · rw [if_pos h2]
        exact ⟨rfl, rfl, by rw [he]; exact hh⟩
      · rw [if_neg h2]
        by_cases h3 : (slice chunk base exp.length).length < exp.length ∧
            startsWith exp (slice chunk base exp.length) = true
        · rw [if_pos h3]
          have hpos : 0 < (slice chunk base exp.length).length := by
            apply List.length_pos_iff.mpr
            intro hnil; apply h2; rw [hnil]; rfl
          exact ⟨rfl, rfl, hdrop _ hpos h3.1⟩
        · rw [if_neg h3]
          by_cases h4 : exp = [LF]
          · rw [if_pos h4]; rfl
          · rw [if_neg h4]
            have h5 : ¬ exp.length < 2 := by
              rcases hlen with h | h
              · exact absurd h h4
              · omega
            rw [if_neg h5]
            exact (search_total { e with headersEndExpected := none } chunk base (Or.inl rfl)).mono
              (fun _ h => h) (fun _ h => h.elim)

theorem ResOk.base_le {b1 b2 : Nat} {chunk : Bytes} {P : Eater → Prop} {errs : Err → Prop}
    {r : Except Err (Eater × Option Int)} (h : ResOk b2 chunk P errs r) (hb : b1 ≤ b2) :
    ResOk b1 chunk P errs r := by
  match r with
  | .ok (e', none) => exact h
  | .ok (e', some p) => exact ⟨h.1, by have := h.2.1; omega, h.2.2⟩
  | .error x => exact h

/-- the errors `eat` can raise -/
def EatErr (x : Err) : Prop := x = .stopMarkup ∨ x = .malformedHeaders ∨ x = .unexpectedBodyEnd

theorem finishE_total {b : Nat} {chunk : Bytes} {e0 : Eater} {r : Except Err (Eater × Option Int)}
    (h : ResOk b chunk (HdrKeep e0) (· = .malformedHeaders) r) (hs : e0.stopped = false)
    (hm : e0.eatMeth ≠ .none) : ResOk b chunk EaterOk EatErr (finishE r) := by
  match r with
  | .ok (e', none) =>
    obtain ⟨h1, h2, h3⟩ := h
    exact ⟨by rw [h1, hs], by rw [h2]; exact hm, h3⟩
  | .ok (e', some p) =>
    obtain ⟨⟨h1, h2, h3⟩, hb⟩ := h
    exact ⟨⟨by show e'.stopped = false; rw [h1, hs], by simp, h3⟩, hb⟩
  | .error x => exact Or.inr (Or.inl h)

theorem eat_headers_eq (e : Eater) (chunk : Bytes) (base : Nat) (h : e.eatMeth = .headers) :
    eat e chunk base = finishE (eatHeaders e chunk base) := by
  simp only [eat, h]; rfl

/-- entering the header block at `b` after the bytes that follow the delimiter -/
theorem enter_headers_total (e : Eater) (chunk : Bytes) (base b : Nat) (he : EaterOk e) (hb : base ≤ b) :
    ResOk base chunk EaterOk EatErr (finishE (eatHeaders { e with eatMeth := .headers } chunk b)) :=
  (finishE_total (eatHeaders_total { e with eatMeth := .headers } chunk b he.2.2) he.1 (by simp)).base_le hb

theorem eat_total (e : Eater) (chunk : Bytes) (base : Nat) (he : EaterOk e) :
    ResOk base chunk EaterOk EatErr (eat e chunk base) := by
  obtain ⟨hs, hm, hh⟩ := he
  have hget : chunk[base]? = (chunk.drop base)[0]? := by rw [List.getElem?_drop]; rfl
  have hsl : slice chunk base (base + 2) = (chunk.drop base).take 2 := by
    unfold slice; rw [List.take_drop]
  cases hmeth : e.eatMeth with
  | none => exact absurd hmeth hm
  | headers =>
    rw [eat_headers_eq e chunk base hmeth]
    exact finishE_total (eatHeaders_total e chunk base hh) hs hm
  | lf =>
    generalize hsd : chunk.drop base = s at hget
    match s with
    | [] => simp only [eat, hmeth, eatLf, hget, List.getElem?_nil]; exact ⟨hs, hm, hh⟩
    | c :: t =>
      by_cases hc : c = LF
      · have := enter_headers_total e chunk base (base + 1) ⟨hs, hm, hh⟩ (by omega)
        simp only [hs] at this
        simp only [eat, hmeth, eatLf, hget, List.getElem?_cons_zero, hc, if_true, hs, Bool.false_eq_true,
          if_false, Int.toNat_natCast]
        exact this
      · simp only [eat, hmeth, eatLf, hget, List.getElem?_cons_zero, hc, if_false]
        exact Or.inr (Or.inl rfl)
  | lastHyphen =>
    generalize hsd : chunk.drop base = s at hget
    match s with
    | [] => simp only [eat, hmeth, eatLastHyphen, hget, List.getElem?_nil]; exact ⟨hs, hm, hh⟩
    | c :: t =>
      by_cases hc : c = HYPHEN
      · simp only [eat, hmeth, eatLastHyphen, hget, List.getElem?_cons_zero, hc, if_true]
        exact Or.inl rfl
      · simp only [eat, hmeth, eatLastHyphen, hget, List.getElem?_cons_zero, hc, if_false]
        exact Or.inr (Or.inr rfl)
  | firstCrlfOrLastHyphens =>
    generalize hsd : chunk.drop base = s at hsl
    match s with
    | [] =>
      simp only [eat, hmeth, eatFirst, hsl, List.take_nil, List.isEmpty_nil, if_true]
      exact ⟨hs, hm, hh⟩
    | [c] =>
      by_cases hc : c = CR
      · subst hc
        simp [eat, hmeth, eatFirst, hsl, CRLF, CR, ResOk, EaterOk, hs, hh]
      · by_cases hc' : c = HYPHEN
        · subst hc'
          simp [eat, hmeth, eatFirst, hsl, CRLF, CR, HYPHEN, ResOk, EaterOk, hs, hh]
        · simp [eat, hmeth, eatFirst, hsl, CRLF, hc, hc', ResOk, EatErr]
    | c1 :: c2 :: t =>
      by_cases hcr : [c1, c2] = CRLF
      · have := enter_headers_total e chunk base (base + 2) ⟨hs, hm, hh⟩ (by omega)
        simp only [hs] at this
        simp only [CRLF, List.cons.injEq, and_true] at hcr
        obtain ⟨rfl, rfl⟩ := hcr
        simp only [eat, hmeth, eatFirst, hsl, List.take_succ_cons, List.take_zero, List.isEmpty_cons,
          Bool.false_eq_true, if_false, CRLF, if_true, hs, Int.toNat_natCast]
        exact this
      · by_cases hhy : [c1, c2] = HYPHENx2
        · simp [eat, hmeth, eatFirst, hsl, hcr, hhy, ResOk, EatErr]
          simp [HYPHENx2, CRLF]
        · simp [eat, hmeth, eatFirst, hsl, hcr, hhy, ResOk, EaterOk, hs, hm, hh]

/-! ### the loop -/

theorem scan_startInv (tok : Bytes) : ∀ (s : Bytes) (m P : Nat), StartInv m P →
    (∀ j, scan tok m s = .found j → tok.length ≤ P + j ∨ tok.length = P + j + 2) ∧
    (∀ m', scan tok m s = .more m' → StartInv m' (P + s.length)) := by
  intro s
  induction s with
  | nil =>
    intro m P h
    refine ⟨fun j hj => (by cases hj), fun m' hm' => ?_⟩
    simp only [scan, ScanRes.more.injEq] at hm'
    subst hm'; simpa using h
  | cons b bs ih =>
    intro m P h
    have ih' := ih (stepM tok m b) (P + 1) (h.step b)
    rw [scan_cons]
    by_cases heq : stepM tok m b = tok.length
    · rw [if_pos heq]
      refine ⟨fun j hj => ?_, fun m' hm' => (by cases hm')⟩
      simp only [ScanRes.found.injEq] at hj
      subst hj
      have := h.step (tok := tok) b
      unfold StartInv at this; rw [heq] at this; omega
    · rw [if_neg heq]
      refine ⟨fun j hj => ?_, fun m' hm' => ?_⟩
      · cases hsc : scan tok (stepM tok m b) bs with
        | more _ => rw [hsc] at hj; cases hj
        | found j' =>
          rw [hsc] at hj
          simp only [ScanRes.found.injEq] at hj
          subst hj
          have := ih'.1 j' hsc
          omega
      · cases hsc : scan tok (stepM tok m b) bs with
        | found _ => rw [hsc] at hm'; cases hm'
        | more m'' =>
          rw [hsc] at hm'
          simp only [ScanRes.more.injEq] at hm'
          subst hm'
          have := ih'.2 m'' hsc
          simp only [List.length_cons]
          rw [show P + (bs.length + 1) = P + 1 + bs.length by omega]
          exact this

/-- arithmetic of the start phase: `P` bytes read so far, `m` delimiter bytes matched -/
def StartArith (m P : Nat) : Prop := StartInv m P ∧ (P = 0 → m = 0) ∧ (m = 0 → P = 0 ∨ 2 ≤ P)

/-- the loop invariant on arbitrary input -/
structure MkOk (tok bnd : Bytes) (mk : Markuper) (cur : CurMeth) (sns : Nat) : Prop where
  token : mk.token = tok
  boundary : mk.boundary = bnd
  notStopped : mk.stopped = false
  abspos : 0 ≤ mk.abspos
  eater : EaterOk mk.eater
  trest : ∃ m, m < tok.length ∧ mk.trest = trestOf tok m ∧
    (cur = .startBoundary → sns = 0 ∧ StartArith m mk.abspos.toNat)

def OutOk (tok bnd : Bytes) (o : IterOut) : Prop :=
  AllowedErr o.exc ∧ (o.exc = none → o.mkr.stopped = false → MkOk tok bnd o.mkr o.mkr.curMeth 0)

def TotalGoal (tok bnd chunk : Bytes) (fuel : Nat) : Prop :=
  ∀ (mk : Markuper) (cur : CurMeth) (ass : Int) (sns : Nat) (acc : List Markup),
    MkOk tok bnd mk cur sns → sns ≤ chunk.length → chunk.length - sns < fuel →
    OutOk tok bnd (iterLoop chunk fuel mk cur ass sns acc)

theorem outOk_none {tok bnd : Bytes} (mk' : Markuper) (cur : CurMeth) (ass : Int) (chunk : Bytes)
    (acc : List Markup) (htok : mk'.token = tok) (hbnd : mk'.boundary = bnd) (hns : mk'.stopped = false)
    (hab : 0 ≤ mk'.abspos) (hea : EaterOk mk'.eater)
    (htr : ∃ m, m < tok.length ∧ mk'.trest = trestOf tok m ∧
      (cur = .startBoundary → StartArith m (mk'.abspos + chunk.length).toNat)) :
    OutOk tok bnd ⟨{ mk' with abspos := mk'.abspos + chunk.length, curMeth := cur, absStartSection := ass },
      acc, none⟩ := by
  refine ⟨trivial, fun _ _ => ?_⟩
  obtain ⟨m, h1, h2, h3⟩ := htr
  exact ⟨htok, hbnd, hns, by simp only; omega, hea, ⟨m, h1, h2, fun hc => ⟨rfl, h3 hc⟩⟩⟩

theorem round_total_data {tok bnd : Bytes} (htk : TokOk tok bnd) (chunk : Bytes) (fuel : Nat)
    (ih : TotalGoal tok bnd chunk fuel) (mk : Markuper) (ass : Int) (sns : Nat) (acc : List Markup)
    (h : MkOk tok bnd mk .data sns) (hsns : sns ≤ chunk.length) (hfuel : chunk.length - sns < fuel + 1) :
    OutOk tok bnd (iterLoop chunk (fuel + 1) mk .data ass sns acc) := by
  have hnb := htk.1
  have htl := htk.len
  obtain ⟨m, hm, htr, _⟩ := h.trest
  have hcall := call_data hnb mk chunk sns m h.token htr hm
  cases hsc : scan tok m (chunk.drop sns) with
  | more m' =>
    rw [hsc] at hcall
    simp only [renderScan] at hcall
    rw [iterLoop_none hcall]
    exact outOk_none _ _ _ _ _ h.token h.boundary h.notStopped h.abspos h.eater
      ⟨m', scan_more_lt tok (by omega) _ _ _ hm hsc, rfl, fun hc => by cases hc⟩
  | found j =>
    rw [hsc] at hcall
    simp only [renderScan] at hcall
    obtain ⟨hj1, hj2⟩ := scan_found_bounds tok _ _ _ hsc
    rw [List.length_drop] at hj2
    rw [iterLoop_data hcall]
    have e1 : (((sns + j : Nat) : Int) - (tok.length : Int) + (tok.length : Int)) = ((sns + j : Nat) : Int) := by omega
    simp only [h.token, e1, Int.toNat_natCast]
    apply ih _ _ _ _ _ _ (by omega) (by omega)
    exact ⟨by first | rfl | exact h.token, h.boundary, h.notStopped, h.abspos, h.eater,
      ⟨0, by omega, rfl, fun hc => by cases hc⟩⟩

theorem round_total_headers {tok bnd : Bytes} (htk : TokOk tok bnd) (chunk : Bytes) (fuel : Nat)
    (ih : TotalGoal tok bnd chunk fuel) (mk : Markuper) (ass : Int) (sns : Nat) (acc : List Markup)
    (h : MkOk tok bnd mk .headers sns) (hsns : sns ≤ chunk.length) (hfuel : chunk.length - sns < fuel + 1) :
    OutOk tok bnd (iterLoop chunk (fuel + 1) mk .headers ass sns acc) := by
  have htl := htk.len
  have hcall := call_headers mk chunk sns
  have he := eat_total mk.eater chunk sns h.eater
  obtain ⟨m, hm, htr, _⟩ := h.trest
  cases hr : eat mk.eater chunk sns with
  | error x =>
    rw [hr] at hcall he
    simp only at hcall
    by_cases hx : x = .stopMarkup
    · subst hx
      rw [iterLoop_stop hcall]
      exact ⟨trivial, fun _ hs => by simp at hs⟩
    · rw [iterLoop_error hcall hx]
      refine ⟨?_, fun hn => by cases hn⟩
      rcases he with rfl | rfl | rfl
      · exact absurd rfl hx
      · trivial
      · trivial
  | ok pr =>
    obtain ⟨e', res⟩ := pr
    rw [hr] at hcall he
    simp only at hcall
    cases res with
    | none =>
      rw [iterLoop_none hcall]
      exact outOk_none _ _ _ _ _ h.token h.boundary h.notStopped h.abspos he
        ⟨m, hm, htr, fun hc => by cases hc⟩
    | some p =>
      obtain ⟨he', hp1, hp2⟩ := he
      rw [iterLoop_headers hcall]
      apply ih _ _ _ _ _ _ (by omega) (by omega)
      exact ⟨h.token, h.boundary, h.notStopped, h.abspos, he', ⟨m, hm, htr, fun hc => by cases hc⟩⟩

theorem start_tail_total {tok bnd : Bytes} (htk : TokOk tok bnd) (chunk : Bytes) (fuel : Nat)
    (ih : TotalGoal tok bnd chunk fuel) (mk : Markuper) (ass : Int) (acc : List Markup) (m0 : Nat)
    (htok : mk.token = tok) (hbnd : mk.boundary = bnd) (hns : mk.stopped = false) (hab : 0 ≤ mk.abspos)
    (hea : EaterOk mk.eater) (hm0 : m0 < tok.length) (hinv : StartInv m0 mk.abspos.toNat)
    (hcall : mk.call .startBoundary chunk 0 =
      .ok ({ mk with trest := (renderScan tok 0 (scan tok m0 chunk)).trest },
        (renderScan tok 0 (scan tok m0 chunk)).res))
    (hmore : ∀ m', scan tok m0 chunk = .more m' → StartArith m' (mk.abspos.toNat + chunk.length))
    (hfuel : chunk.length < fuel + 1) :
    OutOk tok bnd (iterLoop chunk (fuel + 1) mk .startBoundary ass 0 acc) := by
  have htl := htk.len
  have hP : (mk.abspos.toNat : Int) = mk.abspos := Int.toNat_of_nonneg hab
  cases hsc : scan tok m0 chunk with
  | found j =>
    rw [hsc] at hcall
    simp only [renderScan] at hcall
    obtain ⟨hj1, hj2⟩ := scan_found_bounds tok _ _ _ hsc
    have := (scan_startInv tok chunk m0 mk.abspos.toNat hinv).1 j hsc
    rw [iterLoop_start hcall (by simp only; omega)]
    have e1 : (((0 + j : Nat) : Int) - (tok.length : Int) + (tok.length : Int)) = ((j : Nat) : Int) := by omega
    simp only [htok, e1, Int.toNat_natCast]
    apply ih _ _ _ _ _ _ (by omega) (by omega)
    exact ⟨by first | rfl | exact htok, hbnd, hns, hab, hea, ⟨0, by omega, rfl, fun hc => by cases hc⟩⟩
  | more m' =>
    rw [hsc] at hcall
    simp only [renderScan] at hcall
    rw [iterLoop_none hcall]
    have hsa := hmore m' hsc
    have hm' := scan_more_lt tok (by omega) _ _ _ hm0 hsc
    refine outOk_none _ _ _ _ _ htok hbnd hns hab hea ⟨m', hm', rfl, fun _ => ?_⟩
    have : (mk.abspos + (chunk.length : Int)).toNat = mk.abspos.toNat + chunk.length := by omega
    simp only
    rw [this]
    exact hsa

theorem startArith_more {tok : Bytes} (m0 P : Nat) (chunk : Bytes) (hinv : StartInv m0 P)
    (hP : 1 ≤ P ∨ 2 ≤ chunk.length ∨ ∀ m', scan tok m0 chunk = .more m' → m' ≠ 0)
    (hne : chunk ≠ []) :
    ∀ m', scan tok m0 chunk = .more m' → StartArith m' (P + chunk.length) := by
  intro m' hm'
  have hl : 0 < chunk.length := List.length_pos_iff.mpr hne
  refine ⟨(scan_startInv tok chunk m0 P hinv).2 m' hm', fun h => by omega, fun h0 => ?_⟩
  rcases hP with h | h | h
  · omega
  · omega
  · exact absurd h0 (h m' hm')

theorem round_total_start {tok bnd : Bytes} (htk : TokOk tok bnd) (chunk : Bytes) (fuel : Nat)
    (ih : TotalGoal tok bnd chunk fuel) (mk : Markuper) (ass : Int) (sns : Nat) (acc : List Markup)
    (h : MkOk tok bnd mk .startBoundary sns) (hfuel : chunk.length - sns < fuel + 1) :
    OutOk tok bnd (iterLoop chunk (fuel + 1) mk .startBoundary ass sns acc) := by
  have hnb := htk.1
  have htl := htk.len
  obtain ⟨htok, hbnd, hns, hab, hea, m, hm, htr, hst⟩ := h
  obtain ⟨hs0, hinv, hp0, hm0⟩ := hst rfl
  subst hs0
  simp only [Nat.sub_zero] at hfuel
  by_cases hmz : m = 0
  · subst hmz
    have htr' : mk.trest = none := htr
    match chunk, hfuel with
    | [], _ =>
      have hcall : mk.call .startBoundary [] 0 = .ok (mk, none) := by
        simp [Markuper.call, Markuper.eatStartBoundary, htr']
      rw [iterLoop_none hcall]
      exact outOk_none _ _ _ _ _ htok hbnd hns hab hea
        ⟨0, hm, htr, fun _ => by simpa using ⟨hinv, hp0, hm0⟩⟩
    | c :: t, hfuel =>
      by_cases hc : c = CR
      · subst hc
        apply start_tail_total htk (CR :: t) fuel ih mk ass acc 0 htok hbnd hns hab hea hm
          (Or.inl (Nat.zero_le _)) _ _ hfuel
        · apply call_start_eatData hnb mk (CR :: t) 0 htok htr hm
          simp [Markuper.eatStartBoundary, htr']
        · apply startArith_more 0 _ (CR :: t) (Or.inl (Nat.zero_le _)) _ (by simp)
          match t with
          | [] =>
            right; right
            intro m' hm'
            have hs : stepM tok 0 CR = 1 := stepM_match (nb_get_zero hnb)
            rw [scan_cons, hs, if_neg (by omega)] at hm'
            simp only [scan, ScanRes.more.injEq] at hm'
            omega
          | _ :: _ => right; left; simp
      · by_cases hc' : c = HYPHEN
        · subst hc'
          obtain ⟨_, b, hb1, hb2⟩ := htk
          have hd2 : tok.drop 2 = bnd := by rw [hb2]; rfl
          have hinv2 : StartInv 2 mk.abspos.toNat := by
            rcases hm0 rfl with h | h
            · right; omega
            · left; exact h
          by_cases hsw : startsWith (HYPHEN :: t) bnd = true
          · -- shortcut: the chunk starts with the whole boundary
            have hpre := (startsWith_iff _ _).mp hsw
            have hbl : bnd.length + 2 = tok.length := by rw [hb2]; simp
            have hle := hpre.length_le
            have hcall : mk.call .startBoundary (HYPHEN :: t) 0 = .ok (mk, some ((0 : Int) - 2)) := by
              simp only [Markuper.call, Markuper.eatStartBoundary, htr', hbnd, hsw, if_true]
              simp [hc]
            have hP : (mk.abspos.toNat : Int) = mk.abspos := Int.toNat_of_nonneg hab
            rw [iterLoop_start hcall (by rcases hm0 rfl with h | h <;> omega)]
            simp only [htok]
            apply ih _ _ _ _ _ _ (by omega) (by omega)
            exact ⟨htok, hbnd, hns, hab, hea, ⟨0, hm, htr, fun hc => by cases hc⟩⟩
          · have hb1' : bnd.take 1 = [HYPHEN] := by rw [hb1]; rfl
            apply start_tail_total ⟨hnb, b, hb1, hb2⟩ (HYPHEN :: t) fuel ih mk ass acc 2 htok hbnd hns hab hea
              (by omega) hinv2 _ _ hfuel
            · have hcall := call_data hnb { mk with trest := some bnd } (HYPHEN :: t) 0 2 htok
                (by rw [trestOf_pos tok (by omega), hd2]) (by omega)
              simp only [List.drop_zero] at hcall
              rw [← hcall]
              simp only [Markuper.call, Markuper.eatStartBoundary, htr', hbnd, hsw, hb1']
              simp [hc]
            · apply startArith_more 2 _ (HYPHEN :: t) hinv2 _ (by simp)
              match t with
              | [] =>
                right; right
                intro m' hm'
                have hs : stepM tok 2 HYPHEN = 3 := stepM_match (by rw [hb2, hb1]; rfl)
                rw [scan_cons, hs, if_neg (by omega)] at hm'
                simp only [scan, ScanRes.more.injEq] at hm'
                omega
              | _ :: _ => right; left; simp
        · obtain ⟨_, b, hb1, hb2⟩ := htk
          have hb1' : bnd.take 1 = [HYPHEN] := by rw [hb1]; rfl
          have hnsw : startsWith (c :: t) bnd = false := by
            rw [hb1]; simp [startsWith, List.isPrefixOf, hc']
            intro h; exact absurd h.symm hc'
          have hcall : mk.call .startBoundary (c :: t) 0 = .error .invalidBoundaryError := by
            simp only [Markuper.call, Markuper.eatStartBoundary, htr', hbnd, hnsw, hb1']
            simp [hc, hc']
          rw [iterLoop_error hcall (by decide)]
          exact ⟨trivial, fun hn => by cases hn⟩
  · have hm1 : 1 ≤ m := by omega
    have hP1 : 1 ≤ mk.abspos.toNat := by
      apply Classical.byContradiction
      intro hn
      exact hmz (hp0 (by omega))
    apply start_tail_total htk chunk fuel ih mk ass acc m htok hbnd hns hab hea hm hinv _ _ hfuel
    · apply call_start_eatData hnb mk chunk m htok htr hm
      simp [Markuper.eatStartBoundary, htr, trestOf_pos tok hm1]
    · by_cases hce : chunk = []
      · subst hce
        intro m' hm'
        simp only [scan, ScanRes.more.injEq] at hm'
        subst hm'
        simpa using ⟨hinv, hp0, hm0⟩
      · exact startArith_more m _ chunk hinv (Or.inl hP1) hce

theorem iterLoop_total {tok bnd : Bytes} (htk : TokOk tok bnd) (chunk : Bytes) :
    ∀ fuel, TotalGoal tok bnd chunk fuel := by
  intro fuel
  induction fuel with
  | zero => intro _ _ _ _ _ _ _ h; omega
  | succ fuel ih =>
    intro mk cur ass sns acc h hsns hfuel
    match cur with
    | .data => exact round_total_data htk chunk fuel ih mk ass sns acc h hsns hfuel
    | .headers => exact round_total_headers htk chunk fuel ih mk ass sns acc h hsns hfuel
    | .startBoundary => exact round_total_start htk chunk fuel ih mk ass sns acc h hfuel

/-- what holds of a `MultipartMarkup` object whatever was fed to it -/
def StOk (tok bnd : Bytes) (s : St) : Prop :=
  AllowedErr s.error ∧
  (s.error = none → s.markuper.stopped = false → MkOk tok bnd s.markuper s.markuper.curMeth 0)

theorem parse_total {tok bnd : Bytes} (htk : TokOk tok bnd) (s : St) (chunk : Bytes) (h : StOk tok bnd s) :
    StOk tok bnd (parse s chunk) := by
  unfold parse
  by_cases hskip : (s.error.isSome || s.markuper.stopped) = true
  · rw [if_pos hskip]; exact h
  · rw [if_neg hskip]
    simp only [Bool.or_eq_true, not_or, Option.isSome_iff_ne_none, ne_eq, Decidable.not_not,
      Bool.not_eq_true] at hskip
    obtain ⟨he, hns⟩ := hskip
    have hmk := h.2 he hns
    have := iterLoop_total htk chunk (chunk.length + 2) s.markuper s.markuper.curMeth
      s.markuper.absStartSection 0 [] hmk (by omega) (by omega)
    simp only [Markuper.iterMarkup, hns, Bool.false_eq_true, if_false]
    obtain ⟨h1, h2⟩ := this
    generalize iterLoop chunk (chunk.length + 2) s.markuper s.markuper.curMeth
      s.markuper.absStartSection 0 [] = o at h1 h2
    cases hexc : o.exc with
    | none =>
      simp only [he]
      exact ⟨trivial, fun _ hs => h2 hexc hs⟩
    | some e =>
      simp only
      rw [hexc] at h1
      exact ⟨h1, fun hn => by cases hn⟩

theorem feed_total {tok bnd : Bytes} (htk : TokOk tok bnd) : ∀ (chunks : List Bytes) (s : St),
    StOk tok bnd s → StOk tok bnd (feed s chunks) := by
  intro chunks
  induction chunks with
  | nil => intro s h; exact h
  | cons c cs ih => intro s h; exact ih (parse s c) (parse_total htk s c h)

theorem init_ok (boundary : Bytes) (hb : CR ∉ boundary) :
    ∃ s0, St.init boundary = .ok s0 ∧ StOk (delim boundary) (HYPHENx2 ++ boundary) s0 := by
  refine ⟨{ markuper := { boundary := HYPHENx2 ++ boundary, token := CRLF ++ (HYPHENx2 ++ boundary) } }, ?_, ?_⟩
  · simp [St.init, Markuper.init, hb]
  · refine ⟨trivial, fun _ _ => ⟨rfl, rfl, rfl, Int.le_refl _, ⟨rfl, by simp, Or.inl rfl⟩, ?_⟩⟩
    refine ⟨0, by simp [delim, CRLF], rfl, fun _ => ⟨rfl, Or.inl (Nat.le_refl _), fun _ => rfl, fun _ => Or.inl rfl⟩⟩

/-- **Totality.**  For every boundary the constructor accepts and every sequence of chunks with
arbitrary contents: the error recorded is none or one of `InvalidBoundaryError`,
`MalformedHeadersError`, `UnexpectedBodyEndError` — in particular no loop of the model reaches
its round bound (`RuntimeError` stands for that), no `assert` fails, no index is out of range,
`StopMarkupException` is never stored. -/
theorem parseChunks_total (boundary : Bytes) (hb : CR ∉ boundary) (chunks : List Bytes) :
    ∃ o, parseChunks boundary chunks = .ok o ∧ AllowedErr o.error := by
  obtain ⟨s0, hinit, hok⟩ := init_ok boundary hb
  refine ⟨(feed s0 chunks).obs, by unfold parseChunks; rw [hinit], ?_⟩
  exact (feed_total (tokOk_delim boundary hb) chunks s0 hok).1

end Ombott.Multipart
