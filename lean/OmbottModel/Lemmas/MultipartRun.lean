import OmbottModel.Lemmas.MultipartScan
import OmbottModel.Lemmas.MultipartEater
/-!
How the reference machine `runFrom` decomposes into its phases: delimiter scanning (`scan`) in
the start and data phases, `runH` after a delimiter and inside header blocks.
-/
namespace Ombott.Multipart
open Py Spec

theorem runFrom_nil (tok : Bytes) (r : RSt) : runFrom tok r [] = some r := rfl

theorem runFrom_cons (tok : Bytes) (r : RSt) (b : UInt8) (bs : Bytes) :
    runFrom tok r (b :: bs) = (step tok r b).bind (fun r1 => runFrom tok r1 bs) := by
  simp only [runFrom]
  cases step tok r b <;> rfl

theorem runFrom_append (tok : Bytes) : ∀ (a b : Bytes) (r : RSt),
    runFrom tok r (a ++ b) = (runFrom tok r a).bind (fun r1 => runFrom tok r1 b) := by
  intro a
  induction a with
  | nil => intro b r; rfl
  | cons x a ih =>
    intro b r
    rw [List.cons_append, runFrom_cons, runFrom_cons]
    cases step tok r x with
    | none => rfl
    | some r1 => simp only [Option.bind_some]; exact ih b r1

theorem runFrom_stopped (tok : Bytes) : ∀ (s : Bytes) (pos : Nat) (ss : Int) (mks : List Markup),
    runFrom tok ⟨.stopped, pos, ss, mks⟩ s = some ⟨.stopped, pos + s.length, ss, mks⟩ := by
  intro s
  induction s with
  | nil => intro pos ss mks; rfl
  | cons b bs ih =>
    intro pos ss mks
    rw [runFrom_cons]
    simp only [step, Option.bind_some]
    rw [ih]
    simp only [List.length_cons]
    congr 2 <;> omega

theorem runFrom_failed (tok : Bytes) (e : Err) : ∀ (s : Bytes) (pos : Nat) (ss : Int) (mks : List Markup),
    runFrom tok ⟨.failed e, pos, ss, mks⟩ s = some ⟨.failed e, pos + s.length, ss, mks⟩ := by
  intro s
  induction s with
  | nil => intro pos ss mks; rfl
  | cons b bs ih =>
    intro pos ss mks
    rw [runFrom_cons]
    simp only [step, Option.bind_some]
    rw [ih]
    simp only [List.length_cons]
    congr 2 <;> omega

/-! ### data phase -/

theorem runFrom_data (tok : Bytes) : ∀ (s : Bytes) (m pos : Nat) (ss : Int) (mks : List Markup),
    runFrom tok ⟨.data m, pos, ss, mks⟩ s =
      match scan tok m s with
      | .found j => runFrom tok ⟨.afterDelim, pos + j, ((pos + j : Nat) : Int) + 2,
          mks ++ [⟨.data, ss, ((pos + j : Nat) : Int) - tok.length⟩]⟩ (s.drop j)
      | .more m' => some ⟨.data m', pos + s.length, ss, mks⟩ := by
  intro s
  induction s with
  | nil => intro m pos ss mks; rfl
  | cons b bs ih =>
    intro m pos ss mks
    rw [runFrom_cons, scan_cons]
    by_cases h : stepM tok m b = tok.length
    · simp only [step, h, if_true, Option.bind_some, List.drop_succ_cons, List.drop_zero]
      congr 2 <;> (first | omega | (congr 3; omega) | (congr 4; omega))
    · simp only [step, h, if_false, Option.bind_some]
      rw [ih]
      cases scan tok (stepM tok m b) bs with
      | found j =>
        simp only [List.drop_succ_cons]
        congr 2 <;> (first | omega | (congr 3; omega) | (congr 4; omega))
      | more m' =>
        simp only [List.length_cons]
        congr 2 <;> omega

/-! ### start phase (after the first byte) -/

theorem stepM_le_succ (tok : Bytes) (m : Nat) (b : UInt8) :
    stepM tok m b = m + 1 ∨ stepM tok m b ≤ 1 := by
  unfold stepM
  split
  · left; rfl
  · right; split <;> omega

/-- matched length never exceeds the bytes read, except for the two virtual ones -/
def StartInv (m pos : Nat) : Prop := m ≤ pos ∨ m = pos + 2

theorem StartInv.step {tok : Bytes} {m pos : Nat} (b : UInt8) (h : StartInv m pos) :
    StartInv (stepM tok m b) (pos + 1) := by
  unfold StartInv at *
  rcases stepM_le_succ tok m b with h1 | h1 <;> omega

theorem runFrom_start (tok : Bytes) (htl : 2 ≤ tok.length) :
    ∀ (s : Bytes) (m pos : Nat) (ss : Int) (mks : List Markup) (r' : RSt), 0 < pos → 1 ≤ m →
    StartInv m pos →
    runFrom tok ⟨.start m, pos, ss, mks⟩ s = some r' →
    (∃ j, scan tok m s = .found j ∧ (tok.length ≤ pos + j ∨ tok.length = pos + j + 2) ∧
      runFrom tok ⟨.afterDelim, pos + j, ((pos + j : Nat) : Int) + 2,
        mks ++ [⟨.data, ss, max 0 (((pos + j : Nat) : Int) - tok.length)⟩]⟩ (s.drop j) = some r') ∨
    (∃ m', scan tok m s = .more m' ∧ 1 ≤ m' ∧ StartInv m' (pos + s.length) ∧
      r' = ⟨.start m', pos + s.length, ss, mks⟩) := by
  intro s
  induction s with
  | nil =>
    intro m pos ss mks r' hp hm hinv h
    right
    simp only [runFrom_nil, Option.some.injEq] at h
    exact ⟨m, rfl, hm, by simpa using hinv, h.symm⟩
  | cons b bs ih =>
    intro m pos ss mks r' hp hm hinv h
    rw [runFrom_cons] at h
    rw [scan_cons]
    have hp0 : ¬ pos = 0 := by omega
    by_cases heq : stepM tok m b = tok.length
    · left
      simp only [step, hp0, heq, if_true, if_false, Option.bind_some] at h
      refine ⟨1, by rw [if_pos heq], ?_, ?_⟩
      · have := hinv.step (tok := tok) b
        unfold StartInv at this; rw [heq] at this; omega
      · simp only [List.drop_succ_cons, List.drop_zero]
        rw [← h]
        congr 2 <;> (first | omega | (congr 3; omega) | (congr 4; omega))
    · by_cases h0 : stepM tok m b = 0
      · have ht0 : ¬ (0 = tok.length) := by omega
        simp [step, hp0, heq, h0, ht0] at h
      · simp only [step, hp0, heq, h0, if_false, Option.bind_some] at h
        rw [if_neg heq]
        rcases ih (stepM tok m b) (pos + 1) ss mks r' (by omega) (by omega) (hinv.step b) h with
          ⟨j, hj, hlen, hrun⟩ | ⟨m', hm', h1, hi, hr⟩
        · left
          refine ⟨j + 1, by rw [hj], by omega, ?_⟩
          simp only [List.drop_succ_cons]
          rw [← hrun]
          congr 2 <;> (first | omega | (congr 3; omega) | (congr 4; omega))
        · right
          refine ⟨m', by rw [hm'], h1, ?_, ?_⟩
          · simp only [List.length_cons]; rw [show pos + (bs.length + 1) = pos + 1 + bs.length by omega]; exact hi
          · rw [hr]; simp only [List.length_cons]; congr 1; omega

/-! ### after a delimiter / header block -/

theorem kstep_le {k k' : Nat} {b : UInt8} (hk : k ≤ 3) (h : kstep k b = some k') : k' ≤ 4 := by
  unfold kstep at h
  split at h
  · cases h
  · split at h
    · cases h
    · simp only [Option.some.injEq] at h
      subst h
      have := stepM_le_succ CRLFx2 k b
      omega

theorem hstep_next_hdr {ph ph' : Phase} {b : UInt8} (hph : HdrPhase ph) (h : hstep ph b = .next ph') :
    HdrPhase ph' := by
  match ph, hph with
  | .afterDelim, _ =>
    simp only [hstep] at h
    split at h
    · cases h; trivial
    · split at h
      · cases h; trivial
      · cases h
  | .afterCR, _ =>
    simp only [hstep] at h
    split at h
    · cases h; show (0 : Nat) ≤ 3; omega
    · cases h
  | .afterHyphen, _ =>
    simp only [hstep] at h
    split at h <;> cases h
  | .headers k, hk =>
    simp only [hstep] at h
    cases hks : kstep k b with
    | none => rw [hks] at h; cases h
    | some k' =>
      rw [hks] at h
      simp only at h
      split at h
      · cases h
      · next hne =>
        cases h
        have := kstep_le hk hks
        show k' ≤ 3
        omega

theorem runFrom_hdr (tok : Bytes) : ∀ (s : Bytes) (ph : Phase) (pos : Nat) (ss : Int) (mks : List Markup),
    HdrPhase ph →
    runFrom tok ⟨ph, pos, ss, mks⟩ s =
      match runH ph s with
      | .undef => none
      | .stop => some ⟨.stopped, pos + s.length, ss, mks⟩
      | .done j => runFrom tok ⟨.data 0, pos + j, ((pos + j : Nat) : Int),
          mks ++ [⟨.headers, ss, ((pos + j : Nat) : Int) - 4⟩]⟩ (s.drop j)
      | .more ph' => some ⟨ph', pos + s.length, ss, mks⟩ := by
  intro s
  induction s with
  | nil => intro ph pos ss mks _; rfl
  | cons b bs ih =>
    intro ph pos ss mks hph
    rw [runFrom_cons]
    have hst : step tok ⟨ph, pos, ss, mks⟩ b =
        match hstep ph b with
        | .undef => none
        | .stop => some ⟨.stopped, pos + 1, ss, mks⟩
        | .done => some ⟨.data 0, pos + 1, (pos : Int) + 1, mks ++ [⟨.headers, ss, (pos : Int) + 1 - 4⟩]⟩
        | .next ph' => some ⟨ph', pos + 1, ss, mks⟩ := by
      match ph, hph with
      | .afterDelim, _ => simp only [step]; cases hstep .afterDelim b <;> rfl
      | .afterCR, _ => simp only [step]; cases hstep .afterCR b <;> rfl
      | .afterHyphen, _ => simp only [step]; cases hstep .afterHyphen b <;> rfl
      | .headers k, _ => simp only [step]; cases hstep (.headers k) b <;> rfl
    rw [hst]
    simp only [runH]
    cases hh : hstep ph b with
    | undef => rfl
    | stop =>
      simp only [Option.bind_some]
      rw [runFrom_stopped]
      simp only [List.length_cons]
      congr 2 <;> omega
    | done =>
      simp only [Option.bind_some, List.drop_succ_cons, List.drop_zero]
      congr 2 <;> (first | omega | (congr 3; omega) | (congr 4; omega))
    | next ph' =>
      simp only [Option.bind_some]
      rw [ih ph' (pos + 1) ss mks (hstep_next_hdr hph hh)]
      cases runH ph' bs with
      | undef => rfl
      | stop => simp only [HRes.bump, List.length_cons]; congr 2 <;> omega
      | done j =>
        simp only [HRes.bump, List.drop_succ_cons]
        congr 2 <;> (first | omega | (congr 3; omega) | (congr 4; omega))
      | more ph'' => simp only [HRes.bump, List.length_cons]; congr 2 <;> omega

theorem runH_more_hdr : ∀ (s : Bytes) (ph ph' : Phase), HdrPhase ph → runH ph s = .more ph' → HdrPhase ph' := by
  intro s
  induction s with
  | nil => intro ph ph' hph h; simp only [runH, HRes.more.injEq] at h; rw [← h]; exact hph
  | cons b bs ih =>
    intro ph ph' hph h
    simp only [runH] at h
    cases hh : hstep ph b with
    | undef => rw [hh] at h; cases h
    | stop => rw [hh] at h; cases h
    | done => rw [hh] at h; cases h
    | next ph1 =>
      rw [hh] at h
      simp only at h
      have h1 := hstep_next_hdr hph hh
      cases hr : runH ph1 bs with
      | undef => rw [hr] at h; cases h
      | stop => rw [hr] at h; cases h
      | done j => rw [hr] at h; cases h
      | more ph2 =>
        rw [hr] at h
        simp only [HRes.bump, HRes.more.injEq] at h
        rw [← h]
        exact ih ph1 ph2 h1 hr

theorem runH_done_bounds : ∀ (s : Bytes) (ph : Phase) (j : Nat), runH ph s = .done j → 1 ≤ j ∧ j ≤ s.length := by
  intro s
  induction s with
  | nil => intro ph j h; cases h
  | cons b bs ih =>
    intro ph j h
    simp only [runH] at h
    cases hh : hstep ph b with
    | undef => rw [hh] at h; cases h
    | stop => rw [hh] at h; cases h
    | done => rw [hh] at h; simp only [HRes.done.injEq] at h; subst h; simp
    | next ph1 =>
      rw [hh] at h
      simp only at h
      cases hr : runH ph1 bs with
      | undef => rw [hr] at h; cases h
      | stop => rw [hr] at h; cases h
      | more _ => rw [hr] at h; cases h
      | done j' =>
        rw [hr] at h
        simp only [HRes.bump, HRes.done.injEq] at h
        subst h
        have := ih ph1 j' hr
        simp only [List.length_cons]; omega

theorem scan_found_bounds (tok : Bytes) : ∀ (s : Bytes) (m j : Nat), scan tok m s = .found j → 1 ≤ j ∧ j ≤ s.length := by
  intro s
  induction s with
  | nil => intro m j h; cases h
  | cons b bs ih =>
    intro m j h
    rw [scan_cons] at h
    split at h
    · simp only [ScanRes.found.injEq] at h; subst h; simp
    · cases hr : scan tok (stepM tok m b) bs with
      | more _ => rw [hr] at h; cases h
      | found j' =>
        rw [hr] at h
        simp only [ScanRes.found.injEq] at h
        subst h
        have := ih _ j' hr
        simp only [List.length_cons]; omega

theorem scan_more_lt (tok : Bytes) (htl : 0 < tok.length) : ∀ (s : Bytes) (m m' : Nat), m < tok.length →
    scan tok m s = .more m' → m' < tok.length := by
  intro s
  induction s with
  | nil => intro m m' hm h; simp only [scan, ScanRes.more.injEq] at h; omega
  | cons b bs ih =>
    intro m m' hm h
    rw [scan_cons] at h
    split at h
    · cases h
    · next hne =>
      have hle := stepM_le (tok := tok) m b hm htl
      cases hr : scan tok (stepM tok m b) bs with
      | found _ => rw [hr] at h; cases h
      | more m'' =>
        rw [hr] at h
        simp only [ScanRes.more.injEq] at h
        subst h
        exact ih _ _ (by omega) hr

end Ombott.Multipart
