import OmbottModel.Lemmas.ConfigFrame
/-! `MixableMeta._mixin` against its abstract spec: own attributes first, then the first mixin that defines an eligible
name; specials in mixin order. -/
namespace Ombott.Config

/-! ### `MixableMeta._mixin`: first definition wins -/

/-- a mixin attribute `k` is copied at all: not one of the mixin's slots, not a special, not a dunder name -/
def eligible (ms : List Name) (k : Name) : Bool := !ms.contains k && k != "on_new" && k != "on_init" && !isDunder k

/-- the abstract spec: the first mixin (in order) that defines `k` as an eligible attribute -/
def firstMixin (cs : MClasses) : List MClass → Name → Option String
  | [], _ => none
  | m :: r, k => (if eligible (getSlots cs m) k then aget m.attrs k else none).orElse fun _ => firstMixin cs r k

/-- the specials a list of mixins contributes, in mixin order -/
def specialsOf (cs : MClasses) (which : Name) (mixins : List MClass) : List String :=
  mixins.flatMap fun m => (m.attrs.filter fun kv => !(getSlots cs m).contains kv.1 && kv.1 == which).map (·.2)

theorem orElse_assoc {α} (a : Option α) (f g : Unit → Option α) :
    (a.orElse f).orElse g = a.orElse fun _ => (f ()).orElse g := by
  cases a <;> rfl

theorem mixinAttr_attrs (ms : List Name) (acc : MixAcc) (k : Name) (v : String) (k' : Name) :
    aget (mixinAttr ms acc k v).attrs k' =
      (aget acc.attrs k').orElse fun _ => if k' = k ∧ eligible ms k = true then some v else none := by
  unfold mixinAttr eligible
  by_cases h1 : k ∈ ms
  · simp [h1]
  by_cases h2 : k = "on_new"
  · subst h2; simp [h1]
  by_cases h3 : k = "on_init"
  · subst h3; simp [h1]
  by_cases h4 : isDunder k = true
  · simp [h1, h2, h3, h4]
  by_cases h5 : ahas acc.attrs k = true
  · by_cases hk : k' = k
    · subst hk
      simp only [ahas, Option.isSome_iff_exists] at h5
      obtain ⟨u, hu⟩ := h5
      simp [h1, h2, h3, h4, ahas, hu]
    · simp [h1, h2, h3, h4, h5, hk]
  · by_cases hk : k' = k
    · subst hk
      have hn : aget acc.attrs k' = none := by simpa [ahas] using h5
      simp [h1, h2, h3, h4, h5, aget_append, aget, hn]
    · have : ¬ k = k' := fun e => hk e.symm
      simp [h1, h2, h3, h4, h5, aget_append, aget, hk, this]

theorem foldAttrs_attrs (ms : List Name) (attrs : AList String) (k' : Name) :
    ∀ acc : MixAcc, aget (attrs.foldl (fun a kv => mixinAttr ms a kv.1 kv.2) acc).attrs k' =
      (aget acc.attrs k').orElse fun _ => if eligible ms k' = true then aget attrs k' else none := by
  induction attrs with
  | nil => intro acc; cases h : aget acc.attrs k' <;> simp [aget, h]
  | cons p r ih =>
    intro acc
    obtain ⟨k, v⟩ := p
    simp only [List.foldl_cons, ih, mixinAttr_attrs, orElse_assoc]
    cases aget acc.attrs k' with
    | some u => rfl
    | none =>
      simp only [Option.orElse_none]
      by_cases hk : k' = k
      · subst hk
        by_cases he : eligible ms k' = true <;> simp [he, aget]
      · have : ¬ k = k' := fun e => hk e.symm
        simp [hk, this, aget]

theorem mixinOne_attrs (cs : MClasses) (acc : MixAcc) (m : MClass) (k : Name) :
    aget (mixinOne cs acc m).attrs k =
      (aget acc.attrs k).orElse fun _ => if eligible (getSlots cs m) k = true then aget m.attrs k else none := by
  unfold mixinOne
  simp only []
  rw [← foldAttrs_attrs]
  cases m.slots with
  | none => rfl
  | some v => by_cases h : "__slots__" ∈ getSlots cs m <;> simp [h]

theorem foldMixins_attrs (cs : MClasses) (mixins : List MClass) (k : Name) :
    ∀ acc : MixAcc, aget (mixins.foldl (mixinOne cs) acc).attrs k =
      (aget acc.attrs k).orElse fun _ => firstMixin cs mixins k := by
  induction mixins with
  | nil => intro acc; cases h : aget acc.attrs k <;> simp [firstMixin, h]
  | cons m r ih =>
    intro acc
    simp only [List.foldl_cons, ih, mixinOne_attrs, orElse_assoc, firstMixin]

end Ombott.Config

namespace Ombott.Config

theorem mixinAttr_onNew (ms : List Name) (acc : MixAcc) (k : Name) (v : String) :
    (mixinAttr ms acc k v).onNew = acc.onNew ++ (if !ms.contains k && k == "on_new" then [v] else []) ∧
    (mixinAttr ms acc k v).onInit = acc.onInit ++ (if !ms.contains k && k == "on_init" then [v] else []) := by
  unfold mixinAttr
  by_cases h1 : k ∈ ms
  · simp [h1]
  by_cases h2 : k = "on_new"
  · subst h2; simp [h1]
  by_cases h3 : k = "on_init"
  · subst h3; simp [h1]
  by_cases h4 : (!isDunder k && !ahas acc.attrs k) = true <;> simp [h1, h2, h3, h4]

theorem foldAttrs_specials (ms : List Name) (attrs : AList String) :
    ∀ acc : MixAcc,
      (attrs.foldl (fun a kv => mixinAttr ms a kv.1 kv.2) acc).onNew =
        acc.onNew ++ (attrs.filter fun kv => !ms.contains kv.1 && kv.1 == "on_new").map (·.2) ∧
      (attrs.foldl (fun a kv => mixinAttr ms a kv.1 kv.2) acc).onInit =
        acc.onInit ++ (attrs.filter fun kv => !ms.contains kv.1 && kv.1 == "on_init").map (·.2) := by
  induction attrs with
  | nil => intro acc; simp
  | cons p r ih =>
    intro acc
    obtain ⟨k, v⟩ := p
    obtain ⟨a1, a2⟩ := mixinAttr_onNew ms acc k v
    simp only [List.foldl_cons, ih, a1, a2, List.filter_cons]
    constructor
    · by_cases h : ¬k ∈ ms ∧ k = "on_new"
      · obtain ⟨ha, hb⟩ := h; subst hb; simp [ha]
      · simp [h]
    · by_cases h : ¬k ∈ ms ∧ k = "on_init"
      · obtain ⟨ha, hb⟩ := h; subst hb; simp [ha]
      · simp [h]

theorem mixinOne_specials (cs : MClasses) (acc : MixAcc) (m : MClass) :
    (mixinOne cs acc m).onNew = acc.onNew ++ specialsOf cs "on_new" [m] ∧
    (mixinOne cs acc m).onInit = acc.onInit ++ specialsOf cs "on_init" [m] := by
  obtain ⟨f1, f2⟩ := foldAttrs_specials (getSlots cs m) m.attrs acc
  unfold mixinOne specialsOf
  simp only [List.flatMap_cons, List.flatMap_nil, List.append_nil]
  rw [← f1, ← f2]
  cases m.slots with
  | none => exact ⟨rfl, rfl⟩
  | some v => by_cases h : "__slots__" ∈ getSlots cs m <;> simp [h]

theorem foldMixins_specials (cs : MClasses) (mixins : List MClass) :
    ∀ acc : MixAcc,
      (mixins.foldl (mixinOne cs) acc).onNew = acc.onNew ++ specialsOf cs "on_new" mixins ∧
      (mixins.foldl (mixinOne cs) acc).onInit = acc.onInit ++ specialsOf cs "on_init" mixins := by
  induction mixins with
  | nil => intro acc; simp [specialsOf]
  | cons m r ih =>
    intro acc
    obtain ⟨o1, o2⟩ := mixinOne_specials cs acc m
    simp only [List.foldl_cons, ih, o1, o2]
    simp [specialsOf, List.append_assoc]

end Ombott.Config
