import OmbottModel.Lemmas.Body
/-! Lemmas about the chunked decoder (`Model/Chunked.lean`): the size-line scanner as a fold over
the bytes of the line, the CRLF check, the unfolding of `iterChunked`. -/
namespace Ombott.Chunked
open Py Ombott.Body

/-! ### single-byte reads -/

theorem read_one_cons (r : Rec) (c : UInt8) (t : Bytes) (h : r.st.data = c :: t) :
    (r.read 1).1 = [c] ∧ (r.read 1).2.st.data = t ∧ (r.read 1).2.pos = r.pos + 1 := by
  obtain ⟨j, hjn, hjd, hpart, hdata, hpos, -, hj0⟩ := Rec.read_cases r 1
  have : j = 1 := by
    have := hj0 (by omega) (by rw [h]; simp)
    omega
  subst this
  rw [hpart, hdata, hpos, h]
  simp

theorem read_one_nil (r : Rec) (h : r.st.data = []) :
    (r.read 1).1 = [] ∧ (r.read 1).2.st.data = [] ∧ (r.read 1).2.pos = r.pos := by
  obtain ⟨j, hjn, hjd, hpart, hdata, hpos, -, -⟩ := Rec.read_cases r 1
  have : j = 0 := by rw [h] at hjd; simpa using hjd
  subst this
  rw [hpart, hdata, hpos, h]
  simp

/-! ### the scanner as a fold -/

/-- the scanner state after a byte that does not end the line: `(seen_r, seen_sem, digits)` -/
def scanStep (s : Bool × Bool × Bytes) (c : UInt8) : Bool × Bool × Bytes :=
  if s.2.1 then (c == CR, true, s.2.2)
  else if c == CR || c == SEM then (c == CR, c == SEM, s.2.2)
  else (false, false, s.2.2 ++ [c])

/-- no byte of `l` ends the size line: no LF directly after a CR (`sR`: the byte before `l` was
a CR) -/
def NoTerm : Bool → Bytes → Prop
  | _, [] => True
  | sR, c :: t => ¬ (sR = true ∧ c = LF) ∧ NoTerm (c == CR) t

/-- one turn of the scanner loop on a non-empty stream -/
theorem scanLine_cons (buf : Nat) (r : Rec) (k : Nat) (sR sSem : Bool) (acc : Bytes) (c : UInt8) (t : Bytes)
    (h : r.st.data = c :: t) :
    scanLine buf r k sR sSem acc =
      if k + 1 > buf then (.error .bodyParsingError, (r.read 1).2)
      else if sR = true ∧ c = LF then (.ok acc, (r.read 1).2)
      else scanLine buf (r.read 1).2 (k + 1) (scanStep (sR, sSem, acc) c).1 (scanStep (sR, sSem, acc) c).2.1
        (scanStep (sR, sSem, acc) c).2.2 := by
  obtain ⟨h1, -, -⟩ := read_one_cons r c t h
  rw [scanLine]
  simp only [h1, List.cons_ne_nil, false_or]
  by_cases hk : k + 1 > buf
  · simp [hk]
  · simp only [hk, dite_false, if_false]
    have e1 : ([c] == [LF]) = (c == LF) := by simp
    have e2 : ([c] == [CR]) = (c == CR) := by simp
    have e3 : ([c] == [SEM]) = (c == SEM) := by simp
    rw [e1, e2, e3]
    by_cases hl : sR = true ∧ c = LF
    · obtain ⟨rfl, rfl⟩ := hl; simp
    · have : (sR && c == LF) = false := by
        cases sR <;> simp at hl ⊢
        exact hl
      rw [this]
      simp only [Bool.false_eq_true, if_false, hl]
      cases sSem
      · by_cases hc : (c == CR || c == SEM) = true
        · simp [scanStep, hc]
        · simp only [Bool.not_eq_true] at hc
          simp [scanStep, hc]
      · simp [scanStep]

theorem scanLine_nil (buf : Nat) (r : Rec) (k : Nat) (sR sSem : Bool) (acc : Bytes) (h : r.st.data = []) :
    scanLine buf r k sR sSem acc = (.error .bodyParsingError, (r.read 1).2) := by
  rw [scanLine]
  simp [(read_one_nil r h).1]

end Ombott.Chunked
