import OmbottModel.Lemmas.Body
/-! Lemmas about the chunked decoder (`Model/Chunked.lean`): the size-line scanner as a fold over
the bytes of the line, the CRLF check, the unfolding of `iterChunked`. -/
namespace Ombott.Chunked
open Py Ombott.Body

/-! ### single-byte reads -/

theorem read_one_cons (r : Rec) (c : UInt8) (t : Bytes) (h : r.st.data = c :: t) :
    (r.read 1).1 = [c] ∧ (r.read 1).2.st.data = t ∧ (r.read 1).2.pos = r.pos + 1 := by
  obtain ⟨j, hjn, hjd, hpart, hdata, hpos, -, hj0⟩ := Rec.read_cases r 1
  have : j = 1 := by
    have := hj0 (by omega) (by rw [h]; simp)
    omega
  subst this
  rw [hpart, hdata, hpos, h]
  simp

theorem read_one_nil (r : Rec) (h : r.st.data = []) :
    (r.read 1).1 = [] ∧ (r.read 1).2.st.data = [] ∧ (r.read 1).2.pos = r.pos := by
  obtain ⟨j, hjn, hjd, hpart, hdata, hpos, -, -⟩ := Rec.read_cases r 1
  have : j = 0 := by rw [h] at hjd; simpa using hjd
  subst this
  rw [hpart, hdata, hpos, h]
  simp

/-! ### the scanner as a fold -/

/-- the scanner state after a byte that does not end the line: `(seen_r, seen_sem, digits)` -/
def scanStep (s : Bool × Bool × Bytes) (c : UInt8) : Bool × Bool × Bytes :=
  if s.2.1 then (c == CR, true, s.2.2)
  else if c == CR || c == SEM then (c == CR, c == SEM, s.2.2)
  else (false, false, s.2.2 ++ [c])

/-- no byte of `l` ends the size line: no LF directly after a CR (`sR`: the byte before `l` was
a CR) -/
def NoTerm : Bool → Bytes → Prop
  | _, [] => True
  | sR, c :: t => ¬ (sR = true ∧ c = LF) ∧ NoTerm (c == CR) t

/-- one turn of the scanner loop on a non-empty stream -/
theorem scanLine_cons (buf : Nat) (r : Rec) (k : Nat) (sR sSem : Bool) (acc : Bytes) (c : UInt8) (t : Bytes)
    (h : r.st.data = c :: t) :
    scanLine buf r k sR sSem acc =
      if k + 1 > buf then (.error .bodyParsingError, (r.read 1).2)
      else if sR = true ∧ c = LF then (.ok acc, (r.read 1).2)
      else scanLine buf (r.read 1).2 (k + 1) (scanStep (sR, sSem, acc) c).1 (scanStep (sR, sSem, acc) c).2.1
        (scanStep (sR, sSem, acc) c).2.2 := by
  obtain ⟨h1, -, -⟩ := read_one_cons r c t h
  rw [scanLine]
  simp only [h1, List.cons_ne_nil, false_or]
  by_cases hk : k + 1 > buf
  · simp [hk]
  · simp only [hk, dite_false, if_false]
    have e1 : ([c] == [LF]) = (c == LF) := by simp
    have e2 : ([c] == [CR]) = (c == CR) := by simp
    have e3 : ([c] == [SEM]) = (c == SEM) := by simp
    rw [e1, e2, e3]
    by_cases hl : sR = true ∧ c = LF
    · obtain ⟨rfl, rfl⟩ := hl; simp
    · have : (sR && c == LF) = false := by
        cases sR <;> simp at hl ⊢
        exact hl
      rw [this]
      simp only [Bool.false_eq_true, if_false, hl]
      cases sSem
      · by_cases hc : (c == CR || c == SEM) = true
        · simp [scanStep, hc]
        · simp only [Bool.not_eq_true] at hc
          simp [scanStep, hc]
      · simp [scanStep]

theorem scanLine_nil (buf : Nat) (r : Rec) (k : Nat) (sR sSem : Bool) (acc : Bytes) (h : r.st.data = []) :
    scanLine buf r k sR sSem acc = (.error .bodyParsingError, (r.read 1).2) := by
  rw [scanLine]
  simp [(read_one_nil r h).1]

theorem scanStep_fst (s : Bool × Bool × Bytes) (c : UInt8) : (scanStep s c).1 = (c == CR) := by
  unfold scanStep
  split
  · rfl
  · split
    · rfl
    · rename_i h
      simp only [Bool.or_eq_true, not_or, Bool.not_eq_true] at h
      exact h.1.symm

/-- the scanner walks over any run of bytes that does not end the line, as long as the buffer
bound allows, for every read fragmentation -/
theorem scanLine_run (buf : Nat) : ∀ (l : Bytes) (r : Rec) (k : Nat) (sR sSem : Bool) (acc rest : Bytes),
    r.st.data = l ++ rest → NoTerm sR l → k + l.length ≤ buf →
    ∃ r', scanLine buf r k sR sSem acc =
        scanLine buf r' (k + l.length) (l.foldl scanStep (sR, sSem, acc)).1
          (l.foldl scanStep (sR, sSem, acc)).2.1 (l.foldl scanStep (sR, sSem, acc)).2.2 ∧
      r'.st.data = rest ∧ r'.pos = r.pos + l.length := by
  intro l
  induction l with
  | nil => intro r k sR sSem acc rest h _ _; exact ⟨r, rfl, by simpa using h, rfl⟩
  | cons c t ih =>
    intro r k sR sSem acc rest h hnt hk
    obtain ⟨-, hd, hp⟩ := read_one_cons r c (t ++ rest) h
    rw [scanLine_cons buf r k sR sSem acc c (t ++ rest) h]
    simp only [List.length_cons] at hk
    rw [if_neg (by omega), if_neg hnt.1]
    have hnt' := hnt.2
    rw [← scanStep_fst (sR, sSem, acc) c] at hnt'
    obtain ⟨r', he, hd', hp'⟩ := ih (r.read 1).2 (k + 1) _ (scanStep (sR, sSem, acc) c).2.1
      (scanStep (sR, sSem, acc) c).2.2 rest hd hnt' (by omega)
    refine ⟨r', ?_, hd', by rw [hp', hp, List.length_cons]; omega⟩
    rw [he, List.length_cons, List.foldl_cons]
    have : k + 1 + t.length = k + (t.length + 1) := by omega
    rw [this]

/-- a run that does not end the line and does not fit the buffer is a parsing error -/
theorem scanLine_overflow (buf : Nat) : ∀ (l : Bytes) (r : Rec) (k : Nat) (sR sSem : Bool) (acc rest : Bytes),
    r.st.data = l ++ rest → NoTerm sR l → k + l.length > buf →
    (scanLine buf r k sR sSem acc).1 = .error .bodyParsingError := by
  intro l
  induction l with
  | nil =>
    intro r k sR sSem acc rest h _ hk
    cases hr : r.st.data with
    | nil => rw [scanLine_nil _ _ _ _ _ _ hr]
    | cons c t =>
      rw [scanLine_cons _ _ _ _ _ _ c t hr, if_pos (by simp at hk; omega)]
  | cons c t ih =>
    intro r k sR sSem acc rest h hnt hk
    rw [scanLine_cons buf r k sR sSem acc c (t ++ rest) h]
    by_cases hk1 : k + 1 > buf
    · rw [if_pos hk1]
    · rw [if_neg hk1, if_neg hnt.1]
      have hnt' := hnt.2
      rw [← scanStep_fst (sR, sSem, acc) c] at hnt'
      exact ih _ _ _ _ _ rest (read_one_cons r c (t ++ rest) h).2.1 hnt' (by simp at hk; omega)

/-- a stream that ends before the line does is a parsing error -/
theorem scanLine_eof (buf : Nat) (l : Bytes) (r : Rec) (k : Nat) (sR sSem : Bool) (acc : Bytes)
    (h : r.st.data = l) (hnt : NoTerm sR l) :
    (scanLine buf r k sR sSem acc).1 = .error .bodyParsingError := by
  by_cases hk : k + l.length ≤ buf
  · obtain ⟨r', he, hd, -⟩ := scanLine_run buf l r k sR sSem acc [] (by simpa using h) hnt hk
    rw [he, scanLine_nil _ _ _ _ _ _ hd]
  · exact scanLine_overflow buf l r k sR sSem acc [] (by simpa using h) hnt (by omega)

/-- the only error of the scanner is `BodyParsingError` -/
theorem scanLine_err (buf : Nat) : ∀ (d : Bytes) (r : Rec) (k : Nat) (sR sSem : Bool) (acc : Bytes) (e : Err),
    r.st.data = d → (scanLine buf r k sR sSem acc).1 = .error e → e = .bodyParsingError := by
  intro d
  induction d with
  | nil =>
    intro r k sR sSem acc e h he
    rw [scanLine_nil _ _ _ _ _ _ h] at he
    simpa using he.symm
  | cons c t ih =>
    intro r k sR sSem acc e h he
    rw [scanLine_cons _ _ _ _ _ _ c t h] at he
    split at he
    · simpa using he.symm
    · split at he
      · cases he
      · exact ih _ _ _ _ _ e (read_one_cons r c t h).2.1 he

theorem NoTerm_of_noLF : ∀ (l : Bytes) (sR : Bool), (∀ b ∈ l, b ≠ LF) → NoTerm sR l := by
  intro l
  induction l with
  | nil => intro _ _; trivial
  | cons c t ih =>
    intro sR h
    exact ⟨fun hc => h c (by simp) hc.2, ih _ (fun b hb => h b (by simp [hb]))⟩

theorem NoTerm_prefix : ∀ (l : Bytes) (sR : Bool) (n : Nat), NoTerm sR l → NoTerm sR (l.take n) := by
  intro l
  induction l with
  | nil => intro _ _ _; simp [NoTerm]
  | cons c t ih =>
    intro sR n h
    cases n with
    | zero => simp [NoTerm]
    | succ n => exact ⟨h.1, ih _ n h.2⟩

/-! ### legal size lines -/

/-- a size line as sent: the spelling of the size (no CR, LF or `;`) and an optional chunk
extension starting with `;` and free of LF -/
def LegalLine (sp ext : Bytes) : Prop :=
  (∀ b ∈ sp, b ≠ CR ∧ b ≠ SEM ∧ b ≠ LF) ∧ (ext = [] ∨ ∃ e, ext = SEM :: e ∧ ∀ b ∈ e, b ≠ LF)

theorem foldl_digits : ∀ (sp : Bytes) (acc : Bytes), (∀ b ∈ sp, b ≠ CR ∧ b ≠ SEM ∧ b ≠ LF) →
    sp.foldl scanStep (false, false, acc) = (false, false, acc ++ sp) := by
  intro sp
  induction sp with
  | nil => intro acc _; simp
  | cons c t ih =>
    intro acc h
    have hc := h c (by simp)
    have h1 : (c == CR) = false := by simpa using hc.1
    have h2 : (c == SEM) = false := by simpa using hc.2.1
    rw [List.foldl_cons]
    have : scanStep (false, false, acc) c = (false, false, acc ++ [c]) := by simp [scanStep, h1, h2]
    rw [this, ih _ (fun b hb => h b (by simp [hb]))]
    simp

theorem foldl_ext : ∀ (e : Bytes) (sR : Bool) (acc : Bytes),
    ∃ sR', e.foldl scanStep (sR, true, acc) = (sR', true, acc) := by
  intro e
  induction e with
  | nil => intro sR acc; exact ⟨sR, rfl⟩
  | cons c t ih =>
    intro sR acc
    rw [List.foldl_cons]
    have : scanStep (sR, true, acc) c = (c == CR, true, acc) := by simp [scanStep]
    rw [this]
    exact ih _ _

theorem LegalLine.noTerm (sp ext : Bytes) (h : LegalLine sp ext) (sR : Bool) :
    NoTerm sR (sp ++ ext ++ [CR]) := by
  apply NoTerm_of_noLF
  intro b hb
  simp only [List.mem_append, List.mem_singleton] at hb
  rcases hb with (hb | hb) | hb
  · exact (h.1 b hb).2.2
  · rcases h.2 with rfl | ⟨e, rfl, he⟩
    · cases hb
    · rcases List.mem_cons.mp hb with rfl | hb
      · decide
      · exact he b hb
  · subst hb; decide

theorem LegalLine.foldl (sp ext : Bytes) (h : LegalLine sp ext) :
    ∃ sSem, (sp ++ ext ++ [CR]).foldl scanStep (false, false, []) = (true, sSem, sp) := by
  rw [List.foldl_append, List.foldl_append, foldl_digits sp [] h.1]
  rcases h.2 with rfl | ⟨e, rfl, -⟩
  · exact ⟨false, by simp [scanStep, CR, SEM]⟩
  · simp only [List.foldl_cons, List.foldl_nil]
    have : scanStep (false, false, [] ++ sp) SEM = (false, true, sp) := by simp [scanStep, CR, SEM]
    rw [this]
    obtain ⟨sR', he⟩ := foldl_ext e false sp
    rw [he]
    exact ⟨true, by simp [scanStep, CR]⟩

/-- a legal size line that fits the buffer is scanned to its spelling, the stream is left right
behind its CRLF — for every read fragmentation -/
theorem scanLine_legal (buf : Nat) (sp ext rest : Bytes) (r : Rec) (h : LegalLine sp ext)
    (hd : r.st.data = sp ++ ext ++ CRLF ++ rest) (hk : sp.length + ext.length + 2 ≤ buf) :
    ∃ r', scanLine buf r 0 false false [] = (.ok sp, r') ∧ r'.st.data = rest ∧
      r'.pos = r.pos + (sp.length + ext.length + 2) := by
  have hd' : r.st.data = (sp ++ ext ++ [CR]) ++ (LF :: rest) := by rw [hd]; simp [CRLF, CR, LF]
  obtain ⟨r1, he, hd1, hp1⟩ := scanLine_run buf (sp ++ ext ++ [CR]) r 0 false false [] (LF :: rest) hd'
    (h.noTerm sp ext false) (by simp; omega)
  obtain ⟨sSem, hf⟩ := h.foldl sp ext
  rw [he, hf, scanLine_cons _ _ _ _ _ _ LF rest hd1]
  simp only [List.length_append, List.length_cons, List.length_nil] at hp1
  rw [if_neg (by simp only [List.length_append, List.length_cons, List.length_nil]; omega), if_pos ⟨rfl, rfl⟩]
  obtain ⟨-, hd2, hp2⟩ := read_one_cons r1 LF rest hd1
  exact ⟨_, rfl, hd2, by rw [hp2, hp1]; omega⟩

/-! ### the CRLF check -/

/-- `tail = read(2)` with the one-byte retry always yields the next two bytes of the stream (fewer
only at the end of data), whether the stream hands them out together or one at a time -/
theorem readTail_spec (r : Rec) :
    (readTail r).1 = r.st.data.take 2 ∧ (readTail r).2.st.data = r.st.data.drop 2 ∧
    (readTail r).2.pos = r.pos + min 2 r.st.data.length := by
  obtain ⟨j, hjn, hjd, hpart, hdata, hpos, -, hj0⟩ := Rec.read_cases r 2
  have hlen : (r.read 2).1.length = j := by rw [hpart, List.length_take]; omega
  unfold readTail
  split
  · rename_i h1
    have hj : j = 1 := by omega
    subst hj
    obtain ⟨j', hjn', hjd', hpart', hdata', hpos', -, hj0'⟩ := Rec.read_cases (r.read 2).2 1
    rw [hdata] at hjd' hpart' hdata' hj0'
    simp only [List.length_drop] at hjd'
    refine ⟨?_, ?_, ?_⟩
    · rw [hpart, hpart']
      by_cases h2 : r.st.data.length ≤ 1
      · have : j' = 0 := by omega
        subst this
        simp only [List.take_zero, List.append_nil]
        rw [List.take_of_length_le h2, List.take_of_length_le (by omega)]
      · have hne : List.drop 1 r.st.data ≠ [] := by
          intro hc
          have := congrArg List.length hc
          simp at this; omega
        have : j' = 1 := by have := hj0' (by omega) hne; omega
        subst this
        rw [← List.take_add]
    · rw [hdata', List.drop_drop]
      by_cases h2 : r.st.data.length ≤ 1
      · rw [List.drop_of_length_le (by omega), List.drop_of_length_le (by omega)]
      · have hne : List.drop 1 r.st.data ≠ [] := by
          intro hc
          have := congrArg List.length hc
          simp at this; omega
        have : j' = 1 := by have := hj0' (by omega) hne; omega
        subst this; rfl
    · rw [hpos', hpos]
      by_cases h2 : r.st.data.length ≤ 1
      · omega
      · have hne : List.drop 1 r.st.data ≠ [] := by
          intro hc
          have := congrArg List.length hc
          simp at this; omega
        have : j' = 1 := by have := hj0' (by omega) hne; omega
        omega
  · rename_i h1
    rw [hlen] at h1
    refine ⟨?_, ?_, ?_⟩
    · rw [hpart]
      by_cases h0 : r.st.data = []
      · rw [h0]; simp
      · have := hj0 (by omega) h0
        have : j = 2 := by omega
        rw [this]
    · rw [hdata]
      by_cases h0 : r.st.data = []
      · rw [h0]; simp
      · have := hj0 (by omega) h0
        have : j = 2 := by omega
        rw [this]
    · rw [hpos]
      by_cases h0 : r.st.data = []
      · rw [h0] at hjd; simp at hjd; rw [h0, hjd]; rfl
      · have := hj0 (by omega) h0
        omega

/-! ### unfolding `iterChunked` -/

theorem iterChunked_eq (buf : Nat) (max : Option Nat) (r : Rec) (sk : Sink) :
    iterChunked buf max r sk =
      match scanLine buf r 0 false false [] with
      | (.error e, r1) => (.error e, r1)
      | (.ok line, r1) =>
        match pyIntHex line with
        | none => (.error .bodyParsingError, r1)
        | some n =>
          if n = 0 then (.ok sk, r1)
          else
            match readParts true buf max n.toNat r1 sk with
            | (.error e, r2) => (.error e, r2)
            | (.ok sk2, r2) =>
              if (readTail r2).1 ≠ CRLF then (.error .bodyParsingError, (readTail r2).2)
              else iterChunked buf max (readTail r2).2 sk2 := by
  rw [iterChunked]
  split
  · rename_i h; rw [h]
  · rename_i h; rw [h]
    simp only
    split
    · rename_i h3; rw [h3]
    · rename_i h3; rw [h3]; simp only
      split
      · rfl
      · split
        · rename_i h2; rw [h2]
        · rename_i h2; rw [h2]

/-! ### one legal chunk -/

/-- a chunk as a legal sender emits it: a legal size line whose spelling denotes the payload
length (under Python's `int(x, 16)`), and a non-empty payload (size zero is the last-chunk) -/
structure LegalChunk (c : Chunk) : Prop where
  line : LegalLine c.spelling c.ext
  size : pyIntHex c.spelling = some (c.payload.length : Int)
  nonempty : c.payload ≠ []

theorem encodeChunk_length (c : Chunk) :
    (encodeChunk c).length = c.spelling.length + c.ext.length + 2 + c.payload.length + 2 := by
  simp [encodeChunk, CRLF]; omega

/-- A complete legal chunk whose size line fits the buffer and whose payload stays within the
size limit is consumed exactly — size line, payload, CRLF — and its payload handed to the
accumulator, whatever the read fragmentation; decoding continues behind it. -/
theorem chunk_step (buf : Nat) (max : Option Nat) (c : Chunk) (rest : Bytes) (r : Rec) (sk : Sink)
    (hc : LegalChunk c) (hfit : c.spelling.length + c.ext.length + 2 ≤ buf)
    (hd : r.st.data = encodeChunk c ++ rest) (hinv : SinkInv buf sk)
    (hmax : overMax max (sk.size + c.payload.length) = false) :
    ∃ r3, iterChunked buf max r sk = iterChunked buf max r3 (sk.extend buf c.payload) ∧
      r3.st.data = rest ∧ r3.pos = r.pos + (encodeChunk c).length := by
  have hb : 0 < buf := by omega
  have hd1 : r.st.data = c.spelling ++ c.ext ++ CRLF ++ (c.payload ++ CRLF ++ rest) := by
    rw [hd]; simp [encodeChunk]
  obtain ⟨r1, hs, hdata1, hpos1⟩ := scanLine_legal buf _ _ _ r hc.line hd1 hfit
  have hplen : 0 < c.payload.length := List.length_pos_iff.mpr hc.nonempty
  have hlen1 : c.payload.length ≤ r1.st.data.length := by rw [hdata1]; simp
  have hmin : min c.payload.length r1.st.data.length = c.payload.length := Nat.min_eq_left hlen1
  obtain ⟨hp1, hp2, hp3⟩ := readParts_within true buf max hb c.payload.length r1 sk hinv (by rw [hmin]; exact hmax)
  rw [hmin] at hp1 hp2 hp3
  rw [if_neg (by omega)] at hp3
  have htake : r1.st.data.take c.payload.length = c.payload := by
    rw [hdata1, List.append_assoc, List.take_left]
  have hdrop : r1.st.data.drop c.payload.length = CRLF ++ rest := by
    rw [hdata1, List.append_assoc, List.drop_left]
  rw [htake] at hp3
  rw [hdrop] at hp1
  rcases hrp : readParts true buf max c.payload.length r1 sk with ⟨res, r2⟩
  rw [hrp] at hp1 hp2 hp3
  simp only at hp1 hp2 hp3
  subst hp3
  obtain ⟨ht1, ht2, ht3⟩ := readTail_spec r2
  rw [hp1] at ht1 ht2 ht3
  refine ⟨(readTail r2).2, ?_, by rw [ht2]; simp [CRLF], ?_⟩
  · rw [iterChunked_eq buf max r sk, hs]
    simp only [hc.size]
    rw [if_neg (by omega)]
    simp only [Int.toNat_natCast, hrp]
    rw [if_neg (by rw [ht1]; simp [CRLF])]
  · rw [ht3, hp2, hpos1, encodeChunk_length]
    simp [CRLF]
    omega

/-- the last-chunk line ends the body: nothing after its CRLF is read -/
theorem last_step (buf : Nat) (max : Option Nat) (ls le trailer : Bytes) (r : Rec) (sk : Sink)
    (hl : LegalLine ls le) (hz : pyIntHex ls = some 0) (hfit : ls.length + le.length + 2 ≤ buf)
    (hd : r.st.data = ls ++ le ++ CRLF ++ trailer) :
    ∃ r1, iterChunked buf max r sk = (.ok sk, r1) ∧ r1.st.data = trailer ∧
      r1.pos = r.pos + (ls.length + le.length + 2) := by
  obtain ⟨r1, hs, hdata1, hpos1⟩ := scanLine_legal buf _ _ _ r hl hd hfit
  refine ⟨r1, ?_, hdata1, hpos1⟩
  rw [iterChunked_eq buf max r sk, hs]
  simp [hz]

/-- **decoding is exact**: every legal encoding whose size lines fit the buffer decodes to the
concatenation of the chunk payloads, the stream is left right behind the last-chunk line (trailer
untouched), for every read fragmentation. -/
theorem iterChunked_decode (buf : Nat) (max : Option Nat) (ls le trailer : Bytes)
    (hl : LegalLine ls le) (hz : pyIntHex ls = some 0) (hlfit : ls.length + le.length + 2 ≤ buf) :
    ∀ (chunks : List Chunk) (r : Rec) (sk : Sink),
      (∀ c ∈ chunks, LegalChunk c ∧ c.spelling.length + c.ext.length + 2 ≤ buf) →
      r.st.data = encodeChunked chunks ls le trailer → SinkInv buf sk →
      overMax max (sk.size + (payloadOf chunks).length) = false →
      ∃ r', iterChunked buf max r sk = (.ok (sk.extend buf (payloadOf chunks)), r') ∧
        r'.st.data = trailer ∧
        r'.pos + trailer.length = r.pos + (encodeChunked chunks ls le trailer).length := by
  intro chunks
  induction chunks with
  | nil =>
    intro r sk _ hd hinv _
    obtain ⟨r1, h1, h2, h3⟩ := last_step buf max ls le trailer r sk hl hz hlfit (by simpa [encodeChunked] using hd)
    refine ⟨r1, ?_, h2, ?_⟩
    · rw [h1]; simp [payloadOf, Sink.extend_nil buf sk hinv]
    · rw [h3]; simp [encodeChunked, CRLF]; omega
  | cons c cs ih =>
    intro r sk hall hd hinv hmax
    have hc := hall c (by simp)
    have hpl : payloadOf (c :: cs) = c.payload ++ payloadOf cs := by simp [payloadOf]
    rw [hpl, List.length_append] at hmax
    have hd' : r.st.data = encodeChunk c ++ encodeChunked cs ls le trailer := by
      rw [hd]; simp [encodeChunked]
    obtain ⟨r3, he, hd3, hp3⟩ := chunk_step buf max c _ r sk hc.1 hc.2 hd' hinv
      (overMax_mono max _ _ (by omega) hmax)
    obtain ⟨r', he', hd4, hp4⟩ := ih r3 (sk.extend buf c.payload) (fun x hx => hall x (by simp [hx])) hd3
      (Sink.extend_inv buf sk _ hinv)
      (by simp only [Sink.extend]; rw [Nat.add_assoc]; exact hmax)
    refine ⟨r', ?_, hd4, ?_⟩
    · rw [he, he', Sink.extend_extend, hpl]
    · rw [hp4, hp3]
      simp [encodeChunked]
      omega

/-! ### totality -/

/-- whatever the bytes, the schedule and the buffer: the decoder's only errors are
`BodyParsingError` and (with a size limit configured) `BodySizeError` -/
theorem iterChunked_err (buf : Nat) (max : Option Nat) :
    ∀ (n : Nat) (r : Rec) (sk : Sink) (e : Err), r.st.data.length = n →
      (iterChunked buf max r sk).1 = .error e →
        e = .bodyParsingError ∨ (e = .bodySizeError ∧ max ≠ none) := by
  intro n
  induction n using Nat.strongRecOn with
  | _ n ih =>
    intro r sk e hn he
    rw [iterChunked_eq] at he
    rcases hs : scanLine buf r 0 false false [] with ⟨res, r1⟩
    rw [hs] at he
    cases res with
    | error e1 =>
      simp only at he
      have : (scanLine buf r 0 false false []).1 = .error e1 := by rw [hs]
      have := scanLine_err buf _ r 0 false false [] e1 rfl this
      simp only [Except.error.injEq] at he
      subst he; exact Or.inl this
    | ok line =>
      simp only at he
      have hlt := scanLine_data_lt buf r 0 false false [] line (by rw [hs])
      rw [hs] at hlt
      simp only at hlt
      cases hp : pyIntHex line with
      | none =>
        rw [hp] at he
        simp only [Except.error.injEq] at he
        exact Or.inl he.symm
      | some k =>
        rw [hp] at he
        simp only at he
        split at he
        · cases he
        · rcases hrp : readParts true buf max k.toNat r1 sk with ⟨res2, r2⟩
          rw [hrp] at he
          have hle := readParts_data_le true buf max k.toNat r1 sk
          rw [hrp] at hle
          simp only at hle
          cases res2 with
          | error e2 =>
            simp only [Except.error.injEq] at he
            subst he
            have : (readParts true buf max k.toNat r1 sk).1 = .error e2 := by rw [hrp]
            rcases readParts_err true buf max _ _ _ _ this with h | ⟨-, h⟩
            · exact Or.inr h
            · exact Or.inl h
          | ok sk2 =>
            simp only at he
            split at he
            · simp only [Except.error.injEq] at he
              exact Or.inl he.symm
            · have hle2 := readTail_data_le r2
              exact ih _ (by omega) (readTail r2).2 sk2 e rfl he

/-! ### what can go wrong after a size line -/

theorem iterChunked_scan_err (buf : Nat) (max : Option Nat) (r : Rec) (sk : Sink) (e : Err)
    (h : (scanLine buf r 0 false false []).1 = .error e) : (iterChunked buf max r sk).1 = .error e := by
  rw [iterChunked_eq]
  rcases hs : scanLine buf r 0 false false [] with ⟨res, r1⟩
  rw [hs] at h
  simp only at h
  subst h
  rfl

/-- a legal size line that, with its CRLF, is longer than the buffer is a parsing error -/
theorem scanLine_long (buf : Nat) (sp ext rest : Bytes) (r : Rec) (h : LegalLine sp ext)
    (hd : r.st.data = sp ++ ext ++ CRLF ++ rest) (hk : sp.length + ext.length + 2 > buf) :
    (scanLine buf r 0 false false []).1 = .error .bodyParsingError := by
  have hd' : r.st.data = (sp ++ ext ++ [CR]) ++ (LF :: rest) := by rw [hd]; simp [CRLF, CR, LF]
  have hlen : (sp ++ ext ++ [CR]).length = sp.length + ext.length + 1 := by simp; omega
  by_cases h1 : 0 + (sp ++ ext ++ [CR]).length > buf
  · exact scanLine_overflow buf _ r 0 false false [] _ hd' (h.noTerm sp ext false) h1
  · obtain ⟨r1, he, hd1, -⟩ := scanLine_run buf _ r 0 false false [] _ hd' (h.noTerm sp ext false) (by omega)
    rw [he, scanLine_cons _ _ _ _ _ _ LF rest hd1, if_pos (by omega)]

/-- a stream that ends inside a size line (before its LF) is a parsing error -/
theorem scanLine_cut (buf : Nat) (sp ext rest : Bytes) (r : Rec) (i : Nat) (h : LegalLine sp ext)
    (hd : r.st.data = (sp ++ ext ++ CRLF ++ rest).take i) (hi : i < sp.length + ext.length + 2) :
    (scanLine buf r 0 false false []).1 = .error .bodyParsingError := by
  have hd' : r.st.data = (sp ++ ext ++ [CR]).take i := by
    rw [hd]
    have : sp ++ ext ++ CRLF ++ rest = (sp ++ ext ++ [CR]) ++ (LF :: rest) := by simp [CRLF, CR, LF]
    rw [this, List.take_append_of_le_length (by simp; omega)]
  exact scanLine_eof buf _ r 0 false false [] hd' (NoTerm_prefix _ _ _ (h.noTerm sp ext false))

/-- After a legal size line announcing `n > 0` bytes, with arbitrary bytes `t` behind it: what
the decoder does, for every read fragmentation.  `t` need not hold a legal chunk. -/
theorem line_step (buf : Nat) (max : Option Nat) (sp ext t : Bytes) (n : Nat) (r : Rec) (sk : Sink)
    (hl : LegalLine sp ext) (hsz : pyIntHex sp = some (n : Int)) (hn : 0 < n)
    (hfit : sp.length + ext.length + 2 ≤ buf)
    (hd : r.st.data = sp ++ ext ++ CRLF ++ t) (hinv : SinkInv buf sk) :
    -- the bytes on offer exceed the size limit: BodySizeError, at most one buffer too far
    (∀ m, max = some m → sk.size ≤ m → sk.size + min n t.length > m →
      (iterChunked buf max r sk).1 = .error .bodySizeError ∧
      (iterChunked buf max r sk).2.pos ≤ r.pos + (sp.length + ext.length + 2) + (m - sk.size) + buf) ∧
    -- the stream ends inside the chunk data
    (overMax max (sk.size + min n t.length) = false → t.length < n →
      (iterChunked buf max r sk).1 = .error .bodyParsingError) ∧
    -- the chunk data is not followed by CRLF
    (overMax max (sk.size + min n t.length) = false → n ≤ t.length → (t.drop n).take 2 ≠ CRLF →
      (iterChunked buf max r sk).1 = .error .bodyParsingError) ∧
    -- the chunk is complete: its data goes to the accumulator, decoding continues behind the CRLF
    (overMax max (sk.size + min n t.length) = false → n ≤ t.length → (t.drop n).take 2 = CRLF →
      ∃ r3, iterChunked buf max r sk = iterChunked buf max r3 (sk.extend buf (t.take n)) ∧
        r3.st.data = t.drop (n + 2) ∧ r3.pos = r.pos + (sp.length + ext.length + 2) + n + 2) := by
  have hb : 0 < buf := by omega
  obtain ⟨r1, hs, hdata1, hpos1⟩ := scanLine_legal buf _ _ _ r hl hd hfit
  have hunf : iterChunked buf max r sk =
      match readParts true buf max n r1 sk with
      | (.error e, r2) => (.error e, r2)
      | (.ok sk2, r2) =>
        if (readTail r2).1 ≠ CRLF then (.error .bodyParsingError, (readTail r2).2)
        else iterChunked buf max (readTail r2).2 sk2 := by
    rw [iterChunked_eq buf max r sk, hs]
    simp only [hsz]
    rw [if_neg (by omega)]
    simp only [Int.toNat_natCast]
  refine ⟨?_, ?_, ?_, ?_⟩
  · intro m hm hsk hov
    subst hm
    obtain ⟨h1, h2⟩ := readParts_over true buf m hb n r1 sk hsk (by rw [hdata1]; exact hov)
    rw [hunf]
    rcases hrp : readParts true buf (some m) n r1 sk with ⟨res, r2⟩
    rw [hrp] at h1 h2
    simp only at h1 h2
    subst h1
    exact ⟨rfl, by simp only; omega⟩
  · intro hov hshort
    obtain ⟨-, -, h3⟩ := readParts_within true buf max hb n r1 sk hinv (by rw [hdata1]; exact hov)
    rw [hdata1, if_pos ⟨hshort, rfl⟩] at h3
    rw [hunf]
    rcases hrp : readParts true buf max n r1 sk with ⟨res, r2⟩
    rw [hrp] at h3
    simp only at h3
    subst h3
    rfl
  · intro hov hlen hbad
    obtain ⟨h1, -, h3⟩ := readParts_within true buf max hb n r1 sk hinv (by rw [hdata1]; exact hov)
    rw [hdata1, if_neg (by omega), Nat.min_eq_left hlen] at h3
    rw [hdata1, Nat.min_eq_left hlen] at h1
    rw [hunf]
    rcases hrp : readParts true buf max n r1 sk with ⟨res, r2⟩
    rw [hrp] at h1 h3
    simp only at h1 h3
    subst h3
    obtain ⟨ht1, -, -⟩ := readTail_spec r2
    rw [h1] at ht1
    simp only
    rw [if_pos (by rw [ht1]; exact hbad)]
  · intro hov hlen hgood
    obtain ⟨h1, h2, h3⟩ := readParts_within true buf max hb n r1 sk hinv (by rw [hdata1]; exact hov)
    rw [hdata1, if_neg (by omega), Nat.min_eq_left hlen] at h3
    rw [hdata1, Nat.min_eq_left hlen] at h1 h2
    rcases hrp : readParts true buf max n r1 sk with ⟨res, r2⟩
    rw [hrp] at h1 h2 h3
    simp only at h1 h2 h3
    subst h3
    obtain ⟨ht1, ht2, ht3⟩ := readTail_spec r2
    rw [h1] at ht1 ht2 ht3
    refine ⟨(readTail r2).2, ?_, by rw [ht2, List.drop_drop], ?_⟩
    · rw [hunf, hrp]
      simp only
      rw [if_neg (by rw [ht1]; simp [hgood])]
    · have : 2 ≤ (t.drop n).length := by
        have := congrArg List.length hgood
        simp [CRLF, List.length_take] at this
        simp only [List.length_drop]
        omega
      rw [ht3, h2, hpos1, Nat.min_eq_left this]

/-! ### runs of complete chunks, truncation -/

def encodeChunks (cs : List Chunk) : Bytes := (cs.map encodeChunk).flatten

theorem encodeChunked_eq (cs : List Chunk) (ls le trailer : Bytes) :
    encodeChunked cs ls le trailer = encodeChunks cs ++ (ls ++ le ++ CRLF ++ trailer) := rfl

theorem encodeChunks_cons (c : Chunk) (cs : List Chunk) :
    encodeChunks (c :: cs) = encodeChunk c ++ encodeChunks cs := by simp [encodeChunks]

theorem payloadOf_cons (c : Chunk) (cs : List Chunk) : payloadOf (c :: cs) = c.payload ++ payloadOf cs := by
  simp [payloadOf]

/-- complete legal chunks that fit the buffer and the size limit are consumed one after the
other; decoding continues behind them with their payloads accumulated -/
theorem chunks_skip (buf : Nat) (max : Option Nat) : ∀ (pre : List Chunk) (rest : Bytes) (r : Rec) (sk : Sink),
    (∀ c ∈ pre, LegalChunk c ∧ c.spelling.length + c.ext.length + 2 ≤ buf) →
    r.st.data = encodeChunks pre ++ rest → SinkInv buf sk →
    overMax max (sk.size + (payloadOf pre).length) = false →
    ∃ r', iterChunked buf max r sk = iterChunked buf max r' (sk.extend buf (payloadOf pre)) ∧
      r'.st.data = rest ∧ r'.pos = r.pos + (encodeChunks pre).length := by
  intro pre
  induction pre with
  | nil =>
    intro rest r sk _ hd hinv _
    exact ⟨r, by simp [payloadOf, Sink.extend_nil buf sk hinv], by simpa [encodeChunks] using hd, by simp [encodeChunks]⟩
  | cons c cs ih =>
    intro rest r sk hall hd hinv hmax
    have hc := hall c (by simp)
    rw [payloadOf_cons, List.length_append] at hmax
    rw [encodeChunks_cons, List.append_assoc] at hd
    obtain ⟨r3, he, hd3, hp3⟩ := chunk_step buf max c _ r sk hc.1 hc.2 hd hinv
      (overMax_mono max _ _ (by omega) hmax)
    obtain ⟨r', he', hd4, hp4⟩ := ih rest r3 (sk.extend buf c.payload) (fun x hx => hall x (by simp [hx])) hd3
      (Sink.extend_inv buf sk _ hinv)
      (by simp only [Sink.extend]; rw [Nat.add_assoc]; exact hmax)
    refine ⟨r', ?_, hd4, ?_⟩
    · rw [he, he', Sink.extend_extend, payloadOf_cons]
    · rw [hp4, hp3, encodeChunks_cons, List.length_append]; omega

/-- **every truncation is rejected**: a stream that ends anywhere before the LF of the
terminating zero-size line of a legal encoding makes the decoder raise (for every buffer size,
size limit and read fragmentation). -/
theorem iterChunked_prefix (buf : Nat) (max : Option Nat) (ls le trailer : Bytes) (hl : LegalLine ls le) :
    ∀ (chunks : List Chunk) (r : Rec) (sk : Sink) (i : Nat),
      (∀ c ∈ chunks, LegalChunk c) →
      r.st.data = (encodeChunked chunks ls le trailer).take i →
      i < (encodeChunks chunks).length + ls.length + le.length + 2 →
      SinkInv buf sk → overMax max sk.size = false →
      ∃ e, (iterChunked buf max r sk).1 = .error e := by
  intro chunks
  induction chunks with
  | nil =>
    intro r sk i _ hd hi _ _
    simp only [encodeChunks, List.map_nil, List.flatten_nil, List.length_nil, Nat.zero_add] at hi
    rw [encodeChunked_eq] at hd
    simp only [encodeChunks, List.map_nil, List.flatten_nil, List.nil_append] at hd
    exact ⟨_, iterChunked_scan_err buf max r sk _ (scanLine_cut buf ls le trailer r i hl hd hi)⟩
  | cons c cs ih =>
    intro r sk i hall hd hi hinv hm
    have hc := hall c (by simp)
    have hplen : 0 < c.payload.length := List.length_pos_iff.mpr hc.nonempty
    rw [encodeChunked_eq, encodeChunks_cons, List.append_assoc] at hd
    rw [encodeChunks_cons, List.length_append, encodeChunk_length] at hi
    -- the size line of `c`
    have hsplit : encodeChunk c ++ (encodeChunks cs ++ (ls ++ le ++ CRLF ++ trailer)) =
        c.spelling ++ c.ext ++ CRLF ++ (c.payload ++ CRLF ++ (encodeChunks cs ++ (ls ++ le ++ CRLF ++ trailer))) := by
      simp [encodeChunk]
    by_cases h1 : i < c.spelling.length + c.ext.length + 2
    · rw [hsplit] at hd
      exact ⟨_, iterChunked_scan_err buf max r sk _ (scanLine_cut buf _ _ _ r i hc.line hd h1)⟩
    · -- the line is complete
      have hd2 : r.st.data = c.spelling ++ c.ext ++ CRLF ++
          (c.payload ++ CRLF ++ (encodeChunks cs ++ (ls ++ le ++ CRLF ++ trailer))).take
            (i - (c.spelling.length + c.ext.length + 2)) := by
        have hL : (c.spelling ++ c.ext ++ CRLF).length = c.spelling.length + c.ext.length + 2 := by
          simp [CRLF]; omega
        rw [hd, hsplit, List.take_append, List.take_of_length_le (by omega), hL]
      by_cases hfit : c.spelling.length + c.ext.length + 2 ≤ buf
      · obtain ⟨s1, s2, s3, s4⟩ := line_step buf max c.spelling c.ext _ c.payload.length r sk hc.line hc.size hplen
          hfit hd2 hinv
        generalize ht : (c.payload ++ CRLF ++ (encodeChunks cs ++ (ls ++ le ++ CRLF ++ trailer))).take
            (i - (c.spelling.length + c.ext.length + 2)) = t at s1 s2 s3 s4 hd2
        have htl : t.length = min (i - (c.spelling.length + c.ext.length + 2))
            (c.payload.length + 2 + (encodeChunks cs ++ (ls ++ le ++ CRLF ++ trailer)).length) := by
          rw [← ht, List.length_take]; simp [CRLF]; omega
        by_cases hov : overMax max (sk.size + min c.payload.length t.length) = false
        · by_cases hshort : t.length < c.payload.length
          · exact ⟨_, s2 hov hshort⟩
          · by_cases hcr : (t.drop c.payload.length).take 2 = CRLF
            · obtain ⟨r3, he, hd3, -⟩ := s4 hov (by omega) hcr
              -- the chunk is complete: the cut lies further on
              have hi2 : c.payload.length + 2 ≤ i - (c.spelling.length + c.ext.length + 2) := by
                have := congrArg List.length hcr
                simp [CRLF, List.length_take, List.length_drop] at this
                omega
              have hd4 : r3.st.data = (encodeChunked cs ls le trailer).take
                  (i - (c.spelling.length + c.ext.length + 2 + c.payload.length + 2)) := by
                rw [hd3, ← ht, encodeChunked_eq, List.drop_take]
                have : c.payload ++ CRLF ++ (encodeChunks cs ++ (ls ++ le ++ CRLF ++ trailer)) =
                    (c.payload ++ CRLF) ++ (encodeChunks cs ++ (ls ++ le ++ CRLF ++ trailer)) := by simp
                rw [this, List.drop_left' (by simp [CRLF])]
                congr 1; omega
              have hminp : min c.payload.length t.length = c.payload.length := by omega
              rw [hminp] at hov
              obtain ⟨e, hee⟩ := ih r3 (sk.extend buf (t.take c.payload.length)) _
                (fun x hx => hall x (by simp [hx])) hd4 (by omega)
                (Sink.extend_inv buf sk _ hinv)
                (by simp only [Sink.extend, List.length_take]; rw [hminp]; exact hov)
              exact ⟨e, by rw [he]; exact hee⟩
            · exact ⟨_, s3 hov (by omega) hcr⟩
        · simp only [Bool.not_eq_false] at hov
          cases max with
          | none => simp [overMax] at hov
          | some m =>
            simp only [overMax, decide_eq_true_eq, decide_eq_false_iff_not] at hov hm
            exact ⟨_, (s1 m rfl (by omega) hov).1⟩
      · exact ⟨_, iterChunked_scan_err buf max r sk _
          (scanLine_long buf _ _ _ r hc.line hd2 (by omega))⟩

/-- whatever the decoder returns keeps the accounting right (see `readParts_inv`) -/
theorem iterChunked_inv (buf : Nat) (max : Option Nat) :
    ∀ (n : Nat) (r : Rec) (sk sk' : Sink), r.st.data.length = n → SinkInv buf sk →
      overMax max sk.size = false → (iterChunked buf max r sk).1 = .ok sk' →
      SinkInv buf sk' ∧ overMax max sk'.size = false := by
  intro n
  induction n using Nat.strongRecOn with
  | _ n ih =>
    intro r sk sk' hn hinv hm he
    rw [iterChunked_eq] at he
    rcases hs : scanLine buf r 0 false false [] with ⟨res, r1⟩
    rw [hs] at he
    cases res with
    | error e1 => cases he
    | ok line =>
      simp only at he
      have hlt := scanLine_data_lt buf r 0 false false [] line (by rw [hs])
      rw [hs] at hlt
      simp only at hlt
      cases hp : pyIntHex line with
      | none => rw [hp] at he; cases he
      | some k =>
        rw [hp] at he
        simp only at he
        split at he
        · simp only [Except.ok.injEq] at he
          subst he; exact ⟨hinv, hm⟩
        · rcases hrp : readParts true buf max k.toNat r1 sk with ⟨res2, r2⟩
          rw [hrp] at he
          have hle := readParts_data_le true buf max k.toNat r1 sk
          rw [hrp] at hle
          simp only at hle
          cases res2 with
          | error e2 => cases he
          | ok sk2 =>
            simp only at he
            have hi2 := readParts_inv true buf max k.toNat r1 sk sk2 hinv hm (by rw [hrp])
            split at he
            · cases he
            · have hle2 := readTail_data_le r2
              exact ih _ (by omega) (readTail r2).2 sk2 sk' rfl hi2.1 hi2.2 he

end Ombott.Chunked
