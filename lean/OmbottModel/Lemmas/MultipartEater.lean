import OmbottModel.Model.Multipart
import OmbottModel.Model.MultipartSpec
/-!
`HeadersEaeter` against the post-delimiter phases of the reference machine (`runH`).
-/
namespace Ombott.Multipart
open Py Spec

/-! ### the CRLFCRLF counter in isolation -/

inductive KRes
  | undef | done (j : Nat) | more (k : Nat)
  deriving Repr, DecidableEq

def KRes.bump : KRes → KRes
  | .done j => .done (j + 1)
  | r => r

def runK : Nat → Bytes → KRes
  | k, [] => .more k
  | k, b :: bs =>
    match kstep k b with
    | none => .undef
    | some k' => if k' = 4 then .done 1 else (runK k' bs).bump

def KRes.toH : KRes → HRes
  | .undef => .undef
  | .done j => .done j
  | .more k => .more (.headers k)

theorem toH_bump (r : KRes) : r.bump.toH = r.toH.bump := by cases r <;> rfl

theorem runH_headers (s : Bytes) : ∀ k, runH (.headers k) s = (runK k s).toH := by
  induction s with
  | nil => intro k; rfl
  | cons b bs ih =>
    intro k
    simp only [runH, runK, hstep]
    cases kstep k b with
    | none => rfl
    | some k' =>
      simp only
      by_cases h : k' = 4
      · simp [h, KRes.toH]
      · simp only [h, if_false]
        rw [ih, toH_bump]

/-! In this file bytes are written as literals (13 = CR, 10 = LF, 45 = `-`). -/

theorem kstep0 (b : UInt8) : kstep 0 b = some (if b = 13 then 1 else 0) := by
  by_cases h : b = 13
  · subst h; simp [kstep, stepM, CRLFx2]
  · have h' : ¬ (13 : UInt8) = b := fun e => h e.symm
    simp [kstep, stepM, CRLFx2, h, h', CR]

theorem kstep1 (b : UInt8) : kstep 1 b = some (if b = 10 then 2 else if b = 13 then 1 else 0) := by
  by_cases h : b = 10
  · subst h; simp [kstep, stepM, CRLFx2]
  · by_cases h2 : b = 13
    · subst h2; simp [kstep, stepM, CRLFx2, CR]
    · have h' : ¬ (10 : UInt8) = b := fun e => h e.symm
      simp [kstep, stepM, CRLFx2, h, h2, h', CR]

theorem kstep2 (b : UInt8) : kstep 2 b = if b = 10 then none else some (if b = 13 then 3 else 0) := by
  by_cases h : b = 10
  · subst h; simp [kstep, LF]
  · by_cases h2 : b = 13
    · subst h2; simp [kstep, stepM, CRLFx2, LF]
    · have h' : ¬ (13 : UInt8) = b := fun e => h2 e.symm
      simp [kstep, stepM, CRLFx2, h, h2, h', CR, LF]

theorem kstep3 (b : UInt8) : kstep 3 b = if b = 10 then some 4 else none := by
  by_cases h : b = 10
  · subst h; simp [kstep, stepM, CRLFx2, LF]
  · simp [kstep, h, LF]

theorem runK_cons (k : Nat) (b : UInt8) (bs : Bytes) :
    runK k (b :: bs) = match kstep k b with
      | none => .undef
      | some k' => if k' = 4 then .done 1 else (runK k' bs).bump := rfl

theorem runK0_cr (t : Bytes) : runK 0 (13 :: t) = (runK 1 t).bump := by
  rw [runK_cons, kstep0]; simp
theorem runK0_ne {c : UInt8} (h : c ≠ 13) (t : Bytes) : runK 0 (c :: t) = (runK 0 t).bump := by
  rw [runK_cons, kstep0]; simp [h]
theorem runK1_lf (t : Bytes) : runK 1 (10 :: t) = (runK 2 t).bump := by
  rw [runK_cons, kstep1]; simp
theorem runK1_cr (t : Bytes) : runK 1 (13 :: t) = (runK 1 t).bump := by
  rw [runK_cons, kstep1]; simp
theorem runK1_ne {c : UInt8} (h1 : c ≠ 10) (h2 : c ≠ 13) (t : Bytes) : runK 1 (c :: t) = (runK 0 t).bump := by
  rw [runK_cons, kstep1]; simp [h1, h2]
theorem runK2_lf (t : Bytes) : runK 2 (10 :: t) = .undef := by
  rw [runK_cons, kstep2]; simp
theorem runK2_cr (t : Bytes) : runK 2 (13 :: t) = (runK 3 t).bump := by
  rw [runK_cons, kstep2]; simp
theorem runK2_ne {c : UInt8} (h1 : c ≠ 10) (h2 : c ≠ 13) (t : Bytes) : runK 2 (c :: t) = (runK 0 t).bump := by
  rw [runK_cons, kstep2]; simp [h1, h2]
theorem runK3_lf (t : Bytes) : runK 3 (10 :: t) = .done 1 := by
  rw [runK_cons, kstep3]; simp
theorem runK3_ne {c : UInt8} (h1 : c ≠ 10) (t : Bytes) : runK 3 (c :: t) = .undef := by
  rw [runK_cons, kstep3]; simp [h1]

/-! ### `end_headers_patt.search` -/

/-- the regular expression search against the counter started at 0 -/
def KOk (i : Nat) : KRes → EndSearch → Prop
  | .undef, _ => True
  | .done j, r => ∃ p, r = .found p ∧ p + 4 = i + j
  | .more k, r => r = (if k = 0 then .none else .tail k)

theorem KOk.bump {i : Nat} {r : KRes} {x : EndSearch} (h : KOk (i + 1) r x) : KOk i r.bump x := by
  cases r with
  | undef => trivial
  | done j => obtain ⟨p, h1, h2⟩ := h; exact ⟨p, h1, by omega⟩
  | more k => exact h

theorem dollar_app (pre rest : Bytes) (n : Nat) :
    dollar (pre ++ rest) (pre.length + n) =
      (n == rest.length || (n + 1 == rest.length && rest[n]? == some 10)) := by
  unfold dollar
  rw [List.getElem?_append_right (by omega)]
  simp only [List.length_append, Nat.add_sub_cancel_left]
  congr 1
  · rw [Bool.eq_iff_iff]; simp
  · congr 1
    rw [Bool.eq_iff_iff]; simp; omega

/-- `$` at the very end -/
theorem dollar_end (pre rest : Bytes) : dollar (pre ++ rest) (pre.length + rest.length) = true := by
  rw [dollar_app]; simp

/-- `$` is false with at least two bytes to go -/
theorem dollar_far (pre rest : Bytes) (n : Nat) (h : n + 2 ≤ rest.length) :
    dollar (pre ++ rest) (pre.length + n) = false := by
  rw [dollar_app]
  have h1 : (n == rest.length) = false := by simp; omega
  have h2 : (n + 1 == rest.length) = false := by simp; omega
  simp [h1, h2]

/-- `$` is false one byte before the end unless that byte is LF -/
theorem dollar_near (pre rest : Bytes) (n : Nat) (c : UInt8) (h : rest[n]? = some c) (hc : c ≠ 10) :
    dollar (pre ++ rest) (pre.length + n) = false := by
  rw [dollar_app]
  have hl : n < rest.length := by
    apply Classical.byContradiction
    intro hn
    rw [List.getElem?_eq_none (by omega)] at h
    cases h
  have h1 : (n == rest.length) = false := by simp; omega
  simp [h1, h, hc]

theorem go_ne (s : Bytes) (i : Nat) {c : UInt8} (h : c ≠ 13) (t : Bytes) :
    endHeadersGo s i (c :: t) = endHeadersGo s (i + 1) t := by
  simp [endHeadersGo, h, CR]

theorem go_cr (s : Bytes) (i : Nat) (t : Bytes) :
    endHeadersGo s i (13 :: t) =
      if CRLFx2.isPrefixOf (13 :: t) then .found i
      else if [13, 10, 13].isPrefixOf (13 :: t) && dollar s (i + 3) then .tail 3
      else if CRLF.isPrefixOf (13 :: t) && dollar s (i + 2) then .tail 2
      else if dollar s (i + 1) then .tail 1
      else endHeadersGo s (i + 1) t := by
  simp [endHeadersGo, CR, LF]

theorem endHeadersGo_spec : ∀ (n : Nat) (rest pre : Bytes), rest.length ≤ n →
    KOk pre.length (runK 0 rest) (endHeadersGo (pre ++ rest) pre.length rest) := by
  intro n
  induction n with
  | zero =>
    intro rest pre h
    have : rest = [] := List.length_eq_zero_iff.mp (by omega)
    subst this
    simp [runK, endHeadersGo, KOk]
  | succ n ih =>
    intro rest pre hlen
    match rest, hlen with
    | [], _ => simp [runK, endHeadersGo, KOk]
    | c :: r1, hlen =>
      simp only [List.length_cons] at hlen
      by_cases hc : c = 13
      · subst hc
        rw [runK0_cr, go_cr]
        apply KOk.bump
        match r1, hlen with
        | [], _ =>
          have hd := dollar_end pre [13]
          simp only [List.length_cons, List.length_nil] at hd
          simp [runK, KOk, CRLFx2, CRLF, hd]
        | c2 :: r2, hlen =>
          simp only [List.length_cons] at hlen
          by_cases hc2 : c2 = 10
          · subst hc2
            rw [runK1_lf]
            apply KOk.bump
            match r2, hlen with
            | [], _ =>
              have hd := dollar_end pre [13, 10]
              simp only [List.length_cons, List.length_nil] at hd
              simp [runK, KOk, CRLFx2, CRLF, hd]
            | c3 :: r3, hlen =>
              simp only [List.length_cons] at hlen
              by_cases hc3 : c3 = 10
              · subst hc3; rw [runK2_lf]; trivial
              · by_cases hc3' : c3 = 13
                · subst hc3'
                  rw [runK2_cr]
                  apply KOk.bump
                  match r3, hlen with
                  | [], _ =>
                    have hd := dollar_end pre [13, 10, 13]
                    simp only [List.length_cons, List.length_nil] at hd
                    simp [runK, KOk, CRLFx2, CRLF, hd]
                  | c4 :: r4, hlen =>
                    by_cases hc4 : c4 = 10
                    · subst hc4
                      rw [runK3_lf]
                      refine ⟨pre.length, ?_, by omega⟩
                      simp [CRLFx2]
                    · rw [runK3_ne hc4]; trivial
                · -- CR LF x: the search moves on to after x
                  rw [runK2_ne hc3 hc3']
                  apply KOk.bump
                  have h1 := dollar_far pre (13 :: 10 :: c3 :: r3) 1 (by simp)
                  have h2 := dollar_near pre (13 :: 10 :: c3 :: r3) 2 c3 (by simp) hc3
                  have e3 : ((13 : UInt8) == c3) = false := beq_eq_false_iff_ne.mpr (fun e => hc3' e.symm)
                  have hgo : (if CRLFx2.isPrefixOf (13 :: 10 :: c3 :: r3) then EndSearch.found pre.length
                      else if [13, 10, 13].isPrefixOf (13 :: 10 :: c3 :: r3) &&
                          dollar (pre ++ 13 :: 10 :: c3 :: r3) (pre.length + 3) then .tail 3
                      else if CRLF.isPrefixOf (13 :: 10 :: c3 :: r3) &&
                          dollar (pre ++ 13 :: 10 :: c3 :: r3) (pre.length + 2) then .tail 2
                      else if dollar (pre ++ 13 :: 10 :: c3 :: r3) (pre.length + 1) then .tail 1
                      else endHeadersGo (pre ++ 13 :: 10 :: c3 :: r3) (pre.length + 1) (10 :: c3 :: r3)) =
                      endHeadersGo (pre ++ 13 :: 10 :: c3 :: r3) (pre.length + 1 + 1 + 1) r3 := by
                    simp only [CRLFx2, CRLF, h1, h2, e3, List.isPrefixOf, beq_self_eq_true, Bool.and_true,
                      Bool.true_and, Bool.and_false, Bool.false_eq_true, if_false, beq_iff_eq, Bool.false_and]
                    rw [go_ne _ _ (show (10 : UInt8) ≠ 13 by decide), go_ne _ _ hc3']
                  rw [hgo]
                  have := ih r3 (pre ++ [13, 10, c3]) (by omega)
                  simpa using this
          · by_cases hc2' : c2 = 13
            · -- CR CR: restart at the second CR
              subst hc2'
              rw [runK1_cr]
              have h1 := dollar_near pre (13 :: 13 :: r2) 1 13 (by simp) (by decide)
              have hgo : (if CRLFx2.isPrefixOf (13 :: 13 :: r2) then EndSearch.found pre.length
                  else if [13, 10, 13].isPrefixOf (13 :: 13 :: r2) &&
                      dollar (pre ++ 13 :: 13 :: r2) (pre.length + 3) then .tail 3
                  else if CRLF.isPrefixOf (13 :: 13 :: r2) &&
                      dollar (pre ++ 13 :: 13 :: r2) (pre.length + 2) then .tail 2
                  else if dollar (pre ++ 13 :: 13 :: r2) (pre.length + 1) then .tail 1
                  else endHeadersGo (pre ++ 13 :: 13 :: r2) (pre.length + 1) (13 :: r2)) =
                  endHeadersGo (pre ++ 13 :: 13 :: r2) (pre.length + 1) (13 :: r2) := by
                simp [CRLFx2, CRLF, h1]
              rw [hgo]
              have := ih (13 :: r2) (pre ++ [13]) (by simp; omega)
              rw [runK0_cr] at this
              simpa using this
            · rw [runK1_ne hc2 hc2']
              apply KOk.bump
              have h1 := dollar_near pre (13 :: c2 :: r2) 1 c2 (by simp) hc2
              have e2 : ((10 : UInt8) == c2) = false := beq_eq_false_iff_ne.mpr (fun e => hc2 e.symm)
              have hgo : (if CRLFx2.isPrefixOf (13 :: c2 :: r2) then EndSearch.found pre.length
                  else if [13, 10, 13].isPrefixOf (13 :: c2 :: r2) &&
                      dollar (pre ++ 13 :: c2 :: r2) (pre.length + 3) then .tail 3
                  else if CRLF.isPrefixOf (13 :: c2 :: r2) &&
                      dollar (pre ++ 13 :: c2 :: r2) (pre.length + 2) then .tail 2
                  else if dollar (pre ++ 13 :: c2 :: r2) (pre.length + 1) then .tail 1
                  else endHeadersGo (pre ++ 13 :: c2 :: r2) (pre.length + 1) (c2 :: r2)) =
                  endHeadersGo (pre ++ 13 :: c2 :: r2) (pre.length + 1 + 1) r2 := by
                simp only [CRLFx2, CRLF, h1, e2, List.isPrefixOf, beq_self_eq_true, Bool.and_true,
                  Bool.true_and, Bool.and_false, Bool.false_eq_true, if_false, beq_iff_eq, Bool.false_and]
                rw [go_ne _ _ hc2']
              rw [hgo]
              have := ih r2 (pre ++ [13, c2]) (by omega)
              simpa using this
      · rw [runK0_ne hc, go_ne _ _ hc]
        apply KOk.bump
        have := ih r1 (pre ++ [c]) (by omega)
        simpa using this

/-- `end_headers_patt.search(chunk, base)` against the counter started at 0 on `chunk[base:]` -/
theorem endHeadersSearch_spec (chunk : Bytes) (base : Nat) :
    KOk base (runK 0 (chunk.drop base)) (endHeadersSearch chunk base) := by
  unfold endHeadersSearch
  by_cases hb : base ≤ chunk.length
  · have := endHeadersGo_spec (chunk.drop base).length (chunk.drop base) (chunk.take base) (Nat.le_refl _)
    rw [List.take_append_drop, List.length_take, Nat.min_eq_left hb] at this
    exact this
  · rw [List.drop_eq_nil_of_le (by omega)]
    simp [runK, endHeadersGo, KOk]

/-! ### `_eat_headers` -/

/-- the eater inside a header block with `k` bytes of CRLFCRLF matched -/
def hdrEater (k : Nat) : Eater := { eatMeth := .headers, headersEndExpected := heeOf k }

theorem eaterOf_headers (k : Nat) : eaterOf (.headers k) = hdrEater k := rfl

def EHOk (chunk : Bytes) (base k : Nat) : KRes → Prop
  | .undef => True
  | .done j => eatHeaders (hdrEater k) chunk base = .ok (hdrEater 0, some (((base + j : Nat) : Int) - 4))
  | .more k' => eatHeaders (hdrEater k) chunk base = .ok (hdrEater k', none)

theorem eatHeaders0_refines (chunk : Bytes) (base : Nat) : EHOk chunk base 0 (runK 0 (chunk.drop base)) := by
  have hs := endHeadersSearch_spec chunk base
  have hun : eatHeaders (hdrEater 0) chunk base =
      match endHeadersSearch chunk base with
      | .none => .ok (hdrEater 0, none)
      | .found p => .ok (hdrEater 0, some (p : Int))
      | .tail n => .ok ({ hdrEater 0 with headersEndExpected := some (CRLFx2.drop n) }, none) := by
    simp only [eatHeaders, hdrEater, heeOf, if_true]
    cases endHeadersSearch chunk base <;> rfl
  cases hr : runK 0 (chunk.drop base) with
  | undef => trivial
  | done j =>
    rw [hr] at hs
    obtain ⟨p, hp, hpj⟩ := hs
    show eatHeaders _ _ _ = _
    rw [hun, hp]
    simp only
    congr 3
    omega
  | more k' =>
    rw [hr] at hs
    show eatHeaders _ _ _ = _
    rw [hun]
    change endHeadersSearch chunk base = _ at hs
    rw [hs]
    by_cases hk : k' = 0
    · subst hk; rfl
    · simp [hk, hdrEater, heeOf]

theorem eatHeaders_fall (exp chunk : Bytes) (h1 : slice chunk 0 exp.length ≠ exp)
    (h2 : (slice chunk 0 exp.length).isEmpty = false)
    (h3 : ¬ ((slice chunk 0 exp.length).length < exp.length ∧ startsWith exp (slice chunk 0 exp.length) = true))
    (h4 : exp ≠ [LF]) (h5 : ¬ exp.length < 2) :
    eatHeaders ⟨some exp, .headers, false⟩ chunk 0 = eatHeaders ⟨none, .headers, false⟩ chunk 0 := by
  simp [eatHeaders, h1, h2, h3, h4, h5]

theorem EHOk_fall {chunk : Bytes} {k : Nat}
    (he : eatHeaders (hdrEater k) chunk 0 = eatHeaders (hdrEater 0) chunk 0)
    (hr : runK k chunk = runK 0 chunk) : EHOk chunk 0 k (runK k chunk) := by
  have := eatHeaders0_refines chunk 0
  simp only [List.drop_zero] at this
  rw [hr]
  cases h : runK 0 chunk with
  | undef => trivial
  | done j => rw [h] at this; show eatHeaders _ _ _ = _; rw [he]; exact this
  | more k' => rw [h] at this; show eatHeaders _ _ _ = _; rw [he]; exact this

theorem eatHeaders3_refines (chunk : Bytes) : EHOk chunk 0 3 (runK 3 chunk) := by
  match chunk with
  | [] => simp [runK, EHOk, eatHeaders, hdrEater, heeOf, CRLFx2, slice]
  | c :: t =>
    by_cases hc : c = 10
    · subst hc
      rw [runK3_lf]
      simp [EHOk, eatHeaders, hdrEater, heeOf, CRLFx2, slice]
    · rw [runK3_ne hc]; trivial

theorem eatHeaders2_refines (chunk : Bytes) : EHOk chunk 0 2 (runK 2 chunk) := by
  match chunk with
  | [] => simp [runK, EHOk, eatHeaders, hdrEater, heeOf, CRLFx2, slice]
  | c :: t =>
    by_cases hc : c = 13
    · subst hc
      rw [runK2_cr]
      match t with
      | [] => simp [runK, KRes.bump, EHOk, eatHeaders, hdrEater, heeOf, CRLFx2, slice, startsWith]
      | c2 :: t2 =>
        by_cases hc2 : c2 = 10
        · subst hc2
          rw [runK3_lf]
          simp [KRes.bump, EHOk, eatHeaders, hdrEater, heeOf, CRLFx2, slice]
        · rw [runK3_ne hc2]; trivial
    · by_cases hc' : c = 10
      · subst hc'; rw [runK2_lf]; trivial
      · apply EHOk_fall
        · apply eatHeaders_fall <;> simp [hdrEater, heeOf, CRLFx2, slice, startsWith, hc, LF]
          <;> (cases t <;> simp [hc])
        · rw [runK2_ne hc' hc, runK0_ne hc]

theorem eatHeaders1_refines (chunk : Bytes) : EHOk chunk 0 1 (runK 1 chunk) := by
  match chunk with
  | [] => simp [runK, EHOk, eatHeaders, hdrEater, heeOf, CRLFx2, slice]
  | c :: t =>
    by_cases hc : c = 10
    · subst hc
      rw [runK1_lf]
      match t with
      | [] => simp [runK, KRes.bump, EHOk, eatHeaders, hdrEater, heeOf, CRLFx2, slice, startsWith]
      | c2 :: t2 =>
        by_cases hc2 : c2 = 13
        · subst hc2
          rw [runK2_cr]
          match t2 with
          | [] => simp [runK, KRes.bump, EHOk, eatHeaders, hdrEater, heeOf, CRLFx2, slice, startsWith]
          | c3 :: t3 =>
            by_cases hc3 : c3 = 10
            · subst hc3
              rw [runK3_lf]
              simp [KRes.bump, EHOk, eatHeaders, hdrEater, heeOf, CRLFx2, slice]
            · rw [runK3_ne hc3]; trivial
        · by_cases hc2' : c2 = 10
          · subst hc2'; rw [runK2_lf]; trivial
          · have : (runK 2 (c2 :: t2)).bump = runK 1 (10 :: c2 :: t2) := by rw [runK1_lf]
            rw [this]
            apply EHOk_fall
            · apply eatHeaders_fall <;> simp [hdrEater, heeOf, CRLFx2, slice, startsWith, hc2, LF]
              <;> (cases t2 <;> simp [hc2])
            · rw [runK1_lf, runK2_ne hc2' hc2, runK0_ne (by decide), runK0_ne hc2]
    · apply EHOk_fall
      · apply eatHeaders_fall <;> simp [hdrEater, heeOf, CRLFx2, slice, startsWith, hc, LF]
        <;> (cases t <;> simp [hc]) <;> (rename_i a b; cases b <;> simp [hc])
      · by_cases hc' : c = 13
        · subst hc'; rw [runK1_cr, runK0_cr]
        · rw [runK1_ne hc hc', runK0_ne hc']

theorem eatHeaders_refines (k : Nat) (hk : k ≤ 3) (chunk : Bytes) (base : Nat) (hb : 0 < k → base = 0) :
    EHOk chunk base k (runK k (chunk.drop base)) := by
  match k, hk, hb with
  | 0, _, _ => exact eatHeaders0_refines chunk base
  | 1, _, hb => rw [hb (by omega)]; exact eatHeaders1_refines chunk
  | 2, _, hb => rw [hb (by omega)]; exact eatHeaders2_refines chunk
  | 3, _, hb => rw [hb (by omega)]; exact eatHeaders3_refines chunk

/-! ### `HeadersEaeter.eat` -/

/-- what `eat(chunk, base)` has to do for a result of the reference phases on `chunk[base:]` -/
def EOk (chunk : Bytes) (base : Nat) (ph : Phase) : HRes → Prop
  | .undef => True
  | .stop => eat (eaterOf ph) chunk base = .error .stopMarkup
  | .done j => eat (eaterOf ph) chunk base =
      .ok (eaterOf .afterDelim, some (((base + j : Nat) : Int) - 4))
  | .more ph' => eat (eaterOf ph) chunk base = .ok (eaterOf ph', none)

/-- the phases the eater is responsible for -/
def HdrPhase : Phase → Prop
  | .afterDelim | .afterCR | .afterHyphen => True
  | .headers k => k ≤ 3
  | _ => False

def Spec.HRes.bumpN (n : Nat) : HRes → HRes
  | .done j => .done (j + n)
  | r => r

theorem bump_eq_bumpN (r : HRes) : r.bump = r.bumpN 1 := by cases r <;> rfl
theorem bumpN_bumpN (r : HRes) (a b : Nat) : (r.bumpN a).bumpN b = r.bumpN (a + b) := by
  cases r <;> simp [HRes.bumpN] <;> omega

/-- `finish` of `eat` -/
def finishE (r : Except Err (Eater × Option Int)) : Except Err (Eater × Option Int) :=
  match r with
  | .error x => .error x
  | .ok (e', none) => .ok (e', none)
  | .ok (e', some pos) => .ok ({ e' with eatMeth := .firstCrlfOrLastHyphens }, some pos)

theorem eat_refines_headers (k : Nat) (hk : k ≤ 3) (chunk : Bytes) (base : Nat) (hb : 0 < k → base = 0) :
    EOk chunk base (.headers k) (runH (.headers k) (chunk.drop base)) := by
  rw [runH_headers]
  have h := eatHeaders_refines k hk chunk base hb
  have he : eat (eaterOf (.headers k)) chunk base = finishE (eatHeaders (hdrEater k) chunk base) := rfl
  cases hr : runK k (chunk.drop base) with
  | undef => trivial
  | done j =>
    rw [hr] at h
    change eatHeaders _ _ _ = _ at h
    show eat _ _ _ = _
    rw [he, h]; rfl
  | more k' =>
    rw [hr] at h
    change eatHeaders _ _ _ = _ at h
    show eat _ _ _ = _
    rw [he, h]; rfl

/-- after the CRLF of the delimiter line: the header block starts at `b = base + n` -/
theorem eat_pre_ok (chunk : Bytes) (b base : Nat) (ph : Phase)
    (he : eat (eaterOf ph) chunk base = finishE (eatHeaders (hdrEater 0) chunk b))
    (n : Nat) (hbn : b = base + n) :
    EOk chunk base ph ((runK 0 (chunk.drop b)).toH.bumpN n) := by
  have h := eatHeaders0_refines chunk b
  cases hr : runK 0 (chunk.drop b) with
  | undef => trivial
  | done j =>
    rw [hr] at h
    change eatHeaders _ _ _ = _ at h
    show eat _ _ _ = _
    rw [he, h, hbn]
    simp only [finishE, hdrEater, heeOf, eaterOf, if_true]
    congr 4
    omega
  | more k' =>
    rw [hr] at h
    change eatHeaders _ _ _ = _ at h
    show eat _ _ _ = _
    rw [he, h]
    rfl

theorem eat_refines (ph : Phase) (hph : HdrPhase ph) (chunk : Bytes) (base : Nat)
    (hb : ∀ k, ph = .headers k → 0 < k → base = 0) :
    EOk chunk base ph (runH ph (chunk.drop base)) := by
  have hget : chunk[base]? = (chunk.drop base)[0]? := by rw [List.getElem?_drop]; rfl
  have hsl : slice chunk base (base + 2) = (chunk.drop base).take 2 := by
    unfold slice; rw [List.take_drop]
  have hd1 : chunk.drop (base + 1) = (chunk.drop base).drop 1 := by rw [List.drop_drop]
  have hd2 : chunk.drop (base + 2) = (chunk.drop base).drop 2 := by rw [List.drop_drop]
  match ph, hph with
  | .headers k, hk => exact eat_refines_headers k hk chunk base (hb k rfl)
  | .afterCR, _ =>
    generalize hs : chunk.drop base = s at hget hd1
    match s with
    | [] => simp [runH, EOk, eat, eaterOf, eatLf, hget]
    | c :: t =>
      by_cases hc : c = 10
      · subst hc
        have he : eat (eaterOf .afterCR) chunk base = finishE (eatHeaders (hdrEater 0) chunk (base + 1)) := by
          simp [eat, eaterOf, eatLf, hget, LF, hdrEater, heeOf]
          rfl
        have := eat_pre_ok chunk (base + 1) base .afterCR he 1 rfl
        rw [hd1] at this
        simpa [runH, hstep, LF, runH_headers, bump_eq_bumpN] using this
      · simp [runH, hstep, LF, hc, EOk]
  | .afterHyphen, _ =>
    generalize hs : chunk.drop base = s at hget
    match s with
    | [] => simp [runH, EOk, eat, eaterOf, eatLastHyphen, hget]
    | c :: t =>
      by_cases hc : c = 45
      · subst hc
        simp [runH, hstep, HYPHEN, EOk, eat, eaterOf, eatLastHyphen, hget]
      · simp [runH, hstep, HYPHEN, hc, EOk]
  | .afterDelim, _ =>
    generalize hs : chunk.drop base = s at hsl hd2
    match s with
    | [] => simp [runH, EOk, eat, eaterOf, eatFirst, hsl]
    | [c] =>
      by_cases hc : c = 13
      · subst hc
        simp [runH, hstep, CR, HRes.bump, EOk, eat, eaterOf, eatFirst, hsl, CRLF]
      · by_cases hc' : c = 45
        · subst hc'
          simp [runH, hstep, CR, HYPHEN, HRes.bump, EOk, eat, eaterOf, eatFirst, hsl, CRLF]
        · simp [runH, hstep, CR, HYPHEN, hc, hc', EOk]
    | c1 :: c2 :: t =>
      by_cases hc : c1 = 13
      · subst hc
        by_cases hc2 : c2 = 10
        · subst hc2
          have he : eat (eaterOf .afterDelim) chunk base =
              finishE (eatHeaders (hdrEater 0) chunk (base + 2)) := by
            simp [eat, eaterOf, eatFirst, hsl, CRLF, hdrEater, heeOf]
            rfl
          have := eat_pre_ok chunk (base + 2) base .afterDelim he 2 rfl
          rw [hd2] at this
          simpa [runH, hstep, CR, LF, runH_headers, bump_eq_bumpN, bumpN_bumpN] using this
        · simp [runH, hstep, CR, LF, hc2, HRes.bump, EOk]
      · by_cases hc' : c1 = 45
        · subst hc'
          by_cases hc2 : c2 = 45
          · subst hc2
            simp [runH, hstep, CR, HYPHEN, HRes.bump, EOk, eat, eaterOf, eatFirst, hsl, CRLF, HYPHENx2]
          · simp [runH, hstep, CR, HYPHEN, hc2, HRes.bump, EOk]
        · simp [runH, hstep, CR, HYPHEN, hc, hc', EOk]

end Ombott.Multipart
