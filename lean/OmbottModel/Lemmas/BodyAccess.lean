import OmbottModel.Lemmas.Chunked
import OmbottModel.Lemmas.PyInt
/-! Invariants of the request-level state machine (`Req.access`, `Req.run` in
`Model/BodyMixin.lean`): the original stream is read by at most one `_body_read` call per
request, whatever the handler does afterwards. -/
namespace Ombott.Body
open Py Ombott.Chunked

/-- the original stream has been handed to `_body_read` (successfully or not) -/
def Spent (q : Req) : Prop := q.cache.isSome = true ∨ q.bodyError.isSome = true

/-- the errors of `_body_read` are request errors (both framings) -/
theorem bodyRead_err_isRequestError (buf : Nat) (cl : Int) (ch : Bool) (max : Option Nat) (r : Rec) (e : Err)
    (h : (bodyRead buf cl ch max r).1 = .error e) : isRequestError e = true := by
  cases ch with
  | true =>
    simp only [bodyRead, if_true] at h
    rcases iterChunked_err buf max _ r {} e rfl h with rfl | ⟨rfl, -⟩ <;> rfl
  | false =>
    simp only [bodyRead, iterBody, Bool.false_eq_true, if_false] at h
    rcases readParts_err false buf max _ r {} e h with ⟨rfl, -⟩ | ⟨h, -⟩
    · rfl
    · cases h

/-- everything `Request.body` can do to the request: nothing (cached body, remembered error,
malformed Content-Length), or — only if the stream was not spent yet — exactly one `_body_read`
on it, after which it is spent.  A returned body is cached, rewound. -/
theorem body_effect (q : Req) :
    (q.body).2.cfg = q.cfg ∧ (q.body).2.clHeader = q.clHeader ∧ (q.body).2.teHeader = q.teHeader ∧
    (∀ sk, (q.body).1 = .ok sk → (q.body).2.cache = some (sk, 0)) ∧
    (((q.body).2.input = q.input ∧ (q.body).2.bodyError = q.bodyError ∧
        ((q.body).2.cache.map (·.1) = q.cache.map (·.1))) ∨
     (¬ Spent q ∧ Spent (q.body).2 ∧ ∃ cl, contentLength q.clHeader = .ok cl ∧
        (q.body).2.input = (bodyRead q.cfg.memfile cl (isChunked q.teHeader) q.cfg.maxBody q.input).2)) := by
  obtain ⟨cfg, clh, teh, input, cache, berr⟩ := q
  cases cache with
  | some c =>
    obtain ⟨sk, pos⟩ := c
    refine ⟨rfl, rfl, rfl, ?_, Or.inl ⟨rfl, rfl, rfl⟩⟩
    intro sk' h
    have : sk = sk' := by simpa [Req.body, Req.loadBody] using h
    subst this; rfl
  | none =>
    cases berr with
    | some e =>
      refine ⟨rfl, rfl, rfl, ?_, Or.inl ⟨rfl, rfl, rfl⟩⟩
      intro sk' h; simp [Req.body, Req.loadBody] at h
    | none =>
      cases hcl : contentLength clh with
      | error e =>
        simp only [Req.body, Req.loadBody, hcl]
        refine ⟨trivial, trivial, trivial, ?_, Or.inl ⟨trivial, trivial, trivial⟩⟩
        intro sk' h; simp at h
      | ok cl =>
        have hns : ¬ Spent ⟨cfg, clh, teh, input, none, none⟩ := by simp [Spent]
        rcases hbr : bodyRead cfg.memfile cl (isChunked teh) cfg.maxBody input with ⟨res, r'⟩
        cases res with
        | error e =>
          have hreq := bodyRead_err_isRequestError _ _ _ _ _ e (by rw [hbr])
          simp only [Req.body, Req.loadBody, hcl, hbr, hreq, if_true]
          refine ⟨trivial, trivial, trivial, ?_, Or.inr ⟨hns, Or.inr rfl, cl, rfl, by rw [hbr]⟩⟩
          intro sk' h; simp at h
        | ok sk =>
          simp only [Req.body, Req.loadBody, hcl, hbr]
          refine ⟨trivial, trivial, trivial, ?_, Or.inr ⟨hns, Or.inl rfl, cl, rfl, by rw [hbr]⟩⟩
          intro sk' h
          simp only [Except.ok.injEq] at h
          subst h; rfl

/-- `_get_body_string` touches the request like `Request.body` does, plus the file position of the
buffered copy -/
theorem getBodyString_effect (q : Req) :
    (q.getBodyString).2.cfg = q.cfg ∧ (q.getBodyString).2.clHeader = q.clHeader ∧
    (q.getBodyString).2.teHeader = q.teHeader ∧ (q.getBodyString).2.input = (q.body).2.input ∧
    (q.getBodyString).2.bodyError = (q.body).2.bodyError ∧
    ((q.getBodyString).2.cache.map (·.1) = (q.body).2.cache.map (·.1)) := by
  obtain ⟨h1, h2, h3, h4, -⟩ := body_effect q
  unfold Req.getBodyString
  rcases hb : q.body with ⟨res, q1⟩
  rw [hb] at h1 h2 h3 h4
  simp only at h1 h2 h3 h4
  cases res with
  | error e => exact ⟨h1, h2, h3, rfl, rfl, rfl⟩
  | ok sk =>
    have hc := h4 sk rfl
    simp only
    cases hcl : contentLength q1.clHeader with
    | error e => exact ⟨h1, h2, h3, rfl, rfl, rfl⟩
    | ok cl =>
      simp only
      by_cases hgt : cl > (q1.cfg.memfile : Int)
      · rw [if_pos hgt]; exact ⟨h1, h2, h3, rfl, rfl, rfl⟩
      · rw [if_neg hgt]
        generalize (if cl < 0 then q1.cfg.memfile + 1 else cl.toNat) = n
        by_cases h5 : (List.take n sk.body).length > q1.cfg.memfile
        · rw [if_pos h5]; exact ⟨h1, h2, h3, rfl, rfl, by simp [hc]⟩
        · rw [if_neg h5]; exact ⟨h1, h2, h3, rfl, rfl, by simp [hc]⟩

/-- accesses made by the framework on the application's behalf (everything but the application
reading `wsgi.input` itself) -/
def Access.framework : Access → Bool
  | .bodyRead _ => true
  | .bodyString => true
  | _ => false

/-- accesses that leave `wsgi.input` alone (everything but its replacement by the application) -/
def Access.keepsInput : Access → Bool
  | .replaceInput _ => false
  | _ => true

/-- every framework access touches the request exactly like `Request.body`, up to the file
position of the buffered copy -/
theorem access_effect (q : Req) (a : Access) (ha : a.framework = true) :
    (q.access a).2.cfg = q.cfg ∧ (q.access a).2.clHeader = q.clHeader ∧
    (q.access a).2.teHeader = q.teHeader ∧ (q.access a).2.input = (q.body).2.input ∧
    (q.access a).2.bodyError = (q.body).2.bodyError ∧
    ((q.access a).2.cache.map (·.1) = (q.body).2.cache.map (·.1)) := by
  cases a with
  | inputRead => cases ha
  | replaceInput r => cases ha
  | setContentLength s => cases ha
  | bodyString =>
    obtain ⟨h1, h2, h3, h4, h5, h6⟩ := getBodyString_effect q
    exact ⟨h1, h2, h3, h4, h5, h6⟩
  | bodyRead n =>
    obtain ⟨h1, h2, h3, h4, -⟩ := body_effect q
    unfold Req.access
    rcases hb : q.body with ⟨res, q1⟩
    rw [hb] at h1 h2 h3 h4
    simp only at h1 h2 h3 h4
    cases res with
    | error e => exact ⟨h1, h2, h3, rfl, rfl, rfl⟩
    | ok sk =>
      have hc := h4 sk rfl
      exact ⟨h1, h2, h3, rfl, rfl, by simp [hc]⟩

theorem Spent_congr (q q' : Req) (h1 : q'.bodyError = q.bodyError) (h2 : q'.cache.map (·.1) = q.cache.map (·.1)) :
    Spent q' ↔ Spent q := by
  have : q'.cache.isSome = q.cache.isSome := by
    have := congrArg Option.isSome h2
    simpa using this
  simp [Spent, h1, this]

end Ombott.Body
