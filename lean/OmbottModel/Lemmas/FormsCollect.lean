import OmbottModel.Model.Forms
/-!
`BodyMixin._collect_multipart` against its specification (C07): under every key, `POST` holds the
items of that name in submission order, `forms` the text ones, `files` the uploads; a single item
is stored bare, two or more as a list.
-/
namespace Ombott.Forms
open Py

/-! ### insertion-ordered dict -/

theorem find_map_replace {β} (d : List (Str × β)) (k k' : Str) (v : β) :
    ((d.map fun e => if e.1 == k then (k, v) else e).find? (·.1 == k')).map (·.2) =
      if k' = k then (if d.any (·.1 == k) then some v else none) else (d.find? (·.1 == k')).map (·.2) := by
  induction d with
  | nil => simp
  | cons e es ih =>
    rw [List.map_cons, List.find?_cons, List.find?_cons, List.any_cons]
    by_cases hek : e.1 = k
    · have hb : (e.1 == k) = true := by simpa using hek
      rw [if_pos hb]
      by_cases hk : k' = k
      · subst hk
        simp [hb]
      · have h1 : ((k, v).1 == k') = false := by simpa using fun h => hk h.symm
        have h2 : (e.1 == k') = false := by rw [hek]; simpa using fun h => hk h.symm
        simp only [h1, h2, if_neg hk] at ih ⊢
        exact ih
    · have hb : (e.1 == k) = false := by simpa using hek
      rw [if_neg (by simp [hb])]
      by_cases hek' : e.1 = k'
      · have h2 : (e.1 == k') = true := by simpa using hek'
        have hk : k' ≠ k := fun h => hek (hek'.trans h)
        simp [h2, hk]
      · have h2 : (e.1 == k') = false := by simpa using hek'
        simp only [h2, hb, Bool.false_or] at ih ⊢
        exact ih

theorem dictGet_dictSet {β} (d : List (Str × β)) (k k' : Str) (v : β) :
    dictGet (dictSet d k v) k' = if k' = k then some v else dictGet d k' := by
  unfold dictSet dictGet
  split
  · rename_i hany
    rw [find_map_replace, hany]
    simp
  · rename_i hany
    simp only [Bool.not_eq_true] at hany
    rw [List.find?_append]
    by_cases hk : k' = k
    · subst hk
      have : d.find? (·.1 == k') = none := by
        rw [List.find?_eq_none]
        intro x hx
        have := List.any_eq_false.mp hany x hx
        simpa using this
      simp [this]
    · have hkb : (k == k') = false := by simpa using fun h => hk h.symm
      simp [hk, hkb]

/-! ### the specification side -/

/-- the items under a key -/
def vals : Option PVal → List Item
  | none => []
  | some (.one i) => [i]
  | some (.many l) => l

/-- a list value has at least two items (one item is stored bare) -/
def ShapeOK : Option PVal → Prop
  | some (.many l) => 2 ≤ l.length
  | _ => True

theorem addItem_get (d : FDict) (key k : Str) (it : Item) (hs : ∀ k, ShapeOK (dictGet d k)) :
    vals (dictGet (addItem d key it) k) = vals (dictGet d k) ++ (if k = key then [it] else []) ∧
    ShapeOK (dictGet (addItem d key it) k) := by
  unfold addItem
  split
  · rename_i el hel
    rw [dictGet_dictSet]
    by_cases hk : k = key
    · subst hk; simp [hel, vals, ShapeOK]
    · simp only [hk, ↓reduceIte, List.append_nil, true_and]; exact hs k
  · rename_i l hl
    rw [dictGet_dictSet]
    by_cases hk : k = key
    · subst hk
      have := hs k
      rw [hl] at this
      simp only [ShapeOK] at this
      simp only [↓reduceIte, hl, vals, ShapeOK, List.length_append, List.length_cons, List.length_nil, true_and]
      omega
    · simp only [hk, ↓reduceIte, List.append_nil, true_and]; exact hs k
  · rename_i hnone
    rw [dictGet_dictSet]
    by_cases hk : k = key
    · subst hk; simp [hnone, vals, ShapeOK]
    · simp only [hk, ↓reduceIte, List.append_nil, true_and]; exact hs k

/-- the item a yielded field becomes, and whether it goes to `files` -/
def itemFst (f : FieldS) : Item := (itemOf f).1
def itemToFiles (f : FieldS) : Bool := (itemOf f).2

theorem collectStep_post (c : Coll) (f : FieldS) :
    (collectStep c f).post = addItem c.post f.name (itemFst f) ∧
    (collectStep c f).forms = (if itemToFiles f then c.forms else addItem c.forms f.name (itemFst f)) ∧
    (collectStep c f).files = (if itemToFiles f then addItem c.files f.name (itemFst f) else c.files) := by
  unfold collectStep itemFst itemToFiles
  cases h : itemOf f with
  | mk it tf =>
    simp only
    cases tf <;> simp

def CollOK (c : Coll) : Prop :=
  (∀ k, ShapeOK (dictGet c.post k)) ∧ (∀ k, ShapeOK (dictGet c.forms k)) ∧ (∀ k, ShapeOK (dictGet c.files k))

theorem collect_from (items : List FieldS) :
    ∀ (c : Coll), CollOK c →
      CollOK (items.foldl collectStep c) ∧
      ∀ k,
        vals (dictGet (items.foldl collectStep c).post k) =
          vals (dictGet c.post k) ++ (items.filter (fun f => f.name = k)).map itemFst ∧
        vals (dictGet (items.foldl collectStep c).forms k) =
          vals (dictGet c.forms k) ++ (items.filter (fun f => f.name = k ∧ itemToFiles f = false)).map itemFst ∧
        vals (dictGet (items.foldl collectStep c).files k) =
          vals (dictGet c.files k) ++ (items.filter (fun f => f.name = k ∧ itemToFiles f = true)).map itemFst := by
  induction items with
  | nil => intro c hc; exact ⟨hc, fun k => by simp⟩
  | cons f fs ih =>
    intro c hc
    obtain ⟨p1, p2, p3⟩ := collectStep_post c f
    have hc' : CollOK (collectStep c f) := by
      refine ⟨fun k => ?_, fun k => ?_, fun k => ?_⟩
      · rw [p1]; exact (addItem_get _ _ k _ hc.1).2
      · rw [p2]; split
        · exact hc.2.1 k
        · exact (addItem_get _ _ k _ hc.2.1).2
      · rw [p3]; split
        · exact (addItem_get _ _ k _ hc.2.2).2
        · exact hc.2.2 k
    obtain ⟨h1, h2⟩ := ih (collectStep c f) hc'
    refine ⟨h1, fun k => ?_⟩
    obtain ⟨q1, q2, q3⟩ := h2 k
    simp only [List.foldl_cons]
    refine ⟨?_, ?_, ?_⟩
    · rw [q1, p1, (addItem_get _ _ k _ hc.1).1]
      by_cases hk : k = f.name
      · subst hk; simp [List.filter_cons]
      · have : ¬ f.name = k := fun h => hk h.symm
        simp [List.filter_cons, hk, this]
    · rw [q2, p2]
      cases htf : itemToFiles f
      · simp only [Bool.false_eq_true, ↓reduceIte]
        rw [(addItem_get _ _ k _ hc.2.1).1]
        by_cases hk : k = f.name
        · subst hk; simp [List.filter_cons, htf]
        · have : ¬ f.name = k := fun h => hk h.symm
          simp [List.filter_cons, hk, this]
      · simp [List.filter_cons, htf]
    · rw [q3, p3]
      cases htf : itemToFiles f
      · simp [List.filter_cons, htf]
      · simp only [↓reduceIte]
        rw [(addItem_get _ _ k _ hc.2.2).1]
        by_cases hk : k = f.name
        · subst hk; simp [List.filter_cons, htf]
        · have : ¬ f.name = k := fun h => hk h.symm
          simp [List.filter_cons, hk, this]

theorem collect_spec (items : List FieldS) :
    CollOK (collect items) ∧
    ∀ k,
      vals (dictGet (collect items).post k) = (items.filter (fun f => f.name = k)).map itemFst ∧
      vals (dictGet (collect items).forms k) =
        (items.filter (fun f => f.name = k ∧ itemToFiles f = false)).map itemFst ∧
      vals (dictGet (collect items).files k) =
        (items.filter (fun f => f.name = k ∧ itemToFiles f = true)).map itemFst := by
  have h0 : CollOK {} := ⟨fun k => by simp [dictGet, ShapeOK], fun k => by simp [dictGet, ShapeOK],
    fun k => by simp [dictGet, ShapeOK]⟩
  have := collect_from items {} h0
  refine ⟨this.1, fun k => ?_⟩
  have hk := this.2 k
  simpa [collect, dictGet, vals] using hk

end Ombott.Forms
