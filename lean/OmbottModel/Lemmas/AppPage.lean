import OmbottModel.Model.Wsgi
import OmbottModel.Model.ErrorPage
import OmbottModel.Lemmas.ErrorPageRender
import OmbottModel.Lemmas.ErrorPageServe
/-!
The two models of the framework's error pages say the same thing.

`Model/Wsgi.lean` (C03/C09) and `Model/ErrorPage.lean` (C20) each describe `error_render.render`,
`html_escape`, `json.dumps` of the error dict, the status-line table and the last-resort page of
`Ombott.wsgi`, each over its own generated tables.  The lemmas below tie them together; every
fact about a generated table is a `decide`, so a regenerated table re-opens it.
-/
namespace Ombott.App
open Py

/-! ### 1. `renderPage` = `render` with debug off -/

/-- the segment table of `Gen.wsgiErrorPage` in the vocabulary of the `str.format` model -/
def expand : List (Bool × String) → List ErrorPage.Seg
  | [] => []
  | (false, t) :: r => t.toList.map .lit ++ expand r
  | (true, n) :: r => .field n.toList :: expand r

/-- what `Wsgi.renderPage` puts for one segment -/
def pageSeg (line urlRepr body : Str) (seg : Bool × String) : Str :=
  if seg.1 then
    (if seg.2 == "e.status" then line
     else if seg.2 == "url" then urlRepr
     else if seg.2 == "e.body" then body
     else "-] Forbidden [-".toList)
  else seg.2.toList

theorem renderPage_eq (line urlRepr body : Str) :
    Wsgi.renderPage line urlRepr body = Gen.wsgiErrorPage.flatMap (pageSeg line urlRepr body) := rfl

/-- the placeholder names `render` fills -/
def knownNames : List String := ["e.status", "url", "e.body", "exception", "traceback"]

def namesKnown (segs : List (Bool × String)) : Bool :=
  segs.all fun seg => !seg.1 || knownNames.contains seg.2

/-- the template lines, read by the `str.format` model, are the segment table -/
def templateMatches (lines : List Str) (segs : List (Bool × String)) : Bool :=
  match ErrorPage.templateSegs false lines with
  | .ok l => l == expand segs
  | .error _ => false

set_option maxRecDepth 100000 in
theorem template_matches : templateMatches Gen.errorTemplateLines Gen.wsgiErrorPage = true := by
  decide +kernel

theorem wsgiErrorPage_namesKnown : namesKnown Gen.wsgiErrorPage = true := by decide

theorem evalField_known (ctx : ErrorPage.Ctx) (hex : ctx.exception = ErrorPage.forbidden)
    (htb : ctx.traceback = ErrorPage.forbidden) (n : String) (h : knownNames.contains n = true) :
    ErrorPage.evalField ctx n.toList = .ok (pageSeg ctx.status ctx.url ctx.body (true, n)) := by
  simp only [knownNames, List.contains_cons, List.contains_nil, Bool.or_false, Bool.or_eq_true,
    beq_iff_eq] at h
  rcases h with rfl | rfl | rfl | rfl | rfl
  · rfl
  · rfl
  · rfl
  · exact congrArg Except.ok hex
  · exact congrArg Except.ok htb

theorem evalSegs_expand (ctx : ErrorPage.Ctx) (hex : ctx.exception = ErrorPage.forbidden)
    (htb : ctx.traceback = ErrorPage.forbidden) (segs : List (Bool × String))
    (h : namesKnown segs = true) :
    ErrorPage.evalSegs ctx (expand segs) = .ok (segs.flatMap (pageSeg ctx.status ctx.url ctx.body)) := by
  induction segs with
  | nil => rfl
  | cons seg r ih =>
    simp only [namesKnown, List.all_cons, Bool.and_eq_true] at h
    have ih' := ih (by simpa only [namesKnown] using h.2)
    obtain ⟨b, t⟩ := seg
    cases b with
    | false =>
      simp only [expand, ErrorPage.evalSegs_lits, ih', List.flatMap_cons]
      rfl
    | true =>
      have hk : knownNames.contains t = true := by simpa using h.1
      simp only [expand, ErrorPage.evalSegs, evalField_known ctx hex htb t hk, ih', List.flatMap_cons]
      rfl

theorem wsgi_page_agrees_with_errorpage_render (pr : Char → Bool) (e : ErrorPage.ErrResp) (url : Str) :
    ErrorPage.render pr Gen.errorTemplateLines e url false =
      .ok (Wsgi.renderPage e.status (ErrorPage.pyRepr pr (ErrorPage.pageEscape url))
        (ErrorPage.strOpt e.body)) := by
  have hm := template_matches
  unfold templateMatches at hm
  cases hl : ErrorPage.templateSegs false Gen.errorTemplateLines with
  | error err => simp [hl] at hm
  | ok l =>
    simp only [hl, beq_iff_eq] at hm
    subst hm
    simp only [ErrorPage.render, Bool.false_eq_true, if_false]
    rw [ErrorPage.renderLoop_eq_evalSegs _ false _ _ hl, renderPage_eq]
    exact evalSegs_expand _ rfl rfl _ wsgiErrorPage_namesKnown

/-! ### 2. `html_escape` -/

/-- what the lemma needs from the probed replacement pairs: each is a replacement of
`htmlEscapeChar`, and each of the five characters has one -/
def helperPairsOK (pairs : List (Char × Str)) : Bool :=
  pairs.all (fun p => htmlEscapeChar p.1 == p.2) &&
    ['&', '<', '>', '"', '\''].all fun c => (pairs.lookup c).isSome

theorem helperEscapePairs_ok : helperPairsOK Gen.helperEscapePairs = true := by decide

theorem lookup_getD_eq (pairs : List (Char × Str)) (hp : helperPairsOK pairs = true) (c : Char) :
    (pairs.lookup c).getD [c] = htmlEscapeChar c := by
  simp only [helperPairsOK, Bool.and_eq_true, List.all_eq_true, beq_iff_eq] at hp
  obtain ⟨h1, h2⟩ := hp
  cases hl : pairs.lookup c with
  | some r =>
    have := h1 _ (ErrorPage.lookup_mem hl)
    simp only [Option.getD_some]
    exact this.symm
  | none =>
    simp only [Option.getD_none]
    have hne : ∀ d ∈ ['&', '<', '>', '"', '\''], c ≠ d := by
      intro d hd hcd
      subst hcd
      have := h2 _ hd
      simp [hl] at this
    simp only [List.mem_cons, List.not_mem_nil, or_false, forall_eq_or_imp, forall_eq] at hne
    obtain ⟨ha, hb, hc, hd, he⟩ := hne
    simp [htmlEscapeChar, ha, hb, hc, hd, he]

theorem htmlEscape_eq_helperEscape (s : Str) : Py.htmlEscape s = ErrorPage.helperEscape s := by
  simp only [Py.htmlEscape, ErrorPage.helperEscape, ErrorPage.escapeWith,
    lookup_getD_eq _ helperEscapePairs_ok]

/-! ### 3. the last-resort page -/

theorem critPage_eq_criticalPage (rawPath : Bytes) (dbg : Str × Str) :
    Wsgi.critPage (ErrorPage.shownPath rawPath) = Py.utf8 (ErrorPage.criticalPage rawPath false dbg) := by
  simp only [Wsgi.critPage, ErrorPage.criticalPage, Bool.false_eq_true, if_false,
    htmlEscape_eq_helperEscape]
  rfl

/-! ### 4. `json.dumps` of a string -/

theorem hexNibble_eq (n : Nat) : Py.hexNibble n = ErrorPage.hexDigitL n := rfl

theorem hex4_eq (n : Nat) : Py.hex4 n = ErrorPage.hex4 n := by
  simp only [Py.hex4, ErrorPage.hex4, ErrorPage.hex2, hexNibble_eq, List.cons_append, List.nil_append,
    Nat.div_div_eq_div_mul]

theorem char_beq_toNat (c d : Char) : (c == d) = (c.toNat == d.toNat) := by
  by_cases h : c = d
  · subst h; simp
  · have h' : c.toNat ≠ d.toNat := fun e => h (Char.toNat_inj.mp e)
    rw [beq_eq_false_iff_ne.mpr h, beq_eq_false_iff_ne.mpr h']

theorem jsonEscChar_eq (c : Char) : Py.jsonEscChar c = ErrorPage.jsonEscChar c := by
  have h10 : (c == '\n') = (c.toNat == 10) := char_beq_toNat c '\n'
  have h13 : (c == '\r') = (c.toNat == 13) := char_beq_toNat c '\r'
  have h9 : (c == '\t') = (c.toNat == 9) := char_beq_toNat c '\t'
  have hle : (decide (c.toNat ≤ 126)) = decide (c.toNat < 127) := by
    apply decide_eq_decide.mpr; omega
  simp only [Py.jsonEscChar, ErrorPage.jsonEscChar, h10, h13, h9, hle, hex4_eq]
  rfl

theorem jsonStr_eq (s : Str) : Py.jsonStr s = ErrorPage.jsonStr s := by
  have h : Py.jsonEscChar = ErrorPage.jsonEscChar := funext jsonEscChar_eq
  simp only [Py.jsonStr, ErrorPage.jsonStr, h]

/-! ### 5. the status-line tables -/

set_option maxRecDepth 100000 in
theorem statusLines_agree :
    Gen.wsgiStatusLines.map (fun p => (p.1, p.2.toList)) = Gen.statusLines := by decide +kernel

theorem find_map_eq_lookup (l : List (Nat × String)) (n : Nat) :
    (l.find? (·.1 == n)).map (·.2.toList) = (l.map fun p => (p.1, p.2.toList)).lookup n := by
  induction l with
  | nil => rfl
  | cons p r ih =>
    simp only [List.find?_cons, List.map_cons, List.lookup_cons]
    by_cases h : p.1 = n
    · subst h; simp only [beq_self_eq_true, Option.map_some]
    · have h' : ¬ n = p.1 := fun e => h e.symm
      rw [beq_eq_false_iff_ne.mpr h, beq_eq_false_iff_ne.mpr h']
      exact ih

theorem lineOfCode_eq_statusLine (code : Nat) : Wsgi.lineOfCode code = ErrorPage.statusLine code := by
  simp only [Wsgi.lineOfCode, Wsgi.lookupLine, ErrorPage.statusLine, find_map_eq_lookup, statusLines_agree]

/-! ### 6. the JSON error dict -/

theorem jsonPage_head :
    "{\"body\": ".toList = '{' :: (ErrorPage.jsonStr "body".toList ++ [':', ' ']) := by decide

theorem jsonPage_tail :
    ", \"exception\": \"None\", \"traceback\": null}".toList =
      ',' :: ' ' :: (ErrorPage.jsonStr "exception".toList ++ ':' :: ' ' :: ErrorPage.jsonStr ErrorPage.noneStr ++
        ',' :: ' ' :: (ErrorPage.jsonStr "traceback".toList ++ ':' :: ' ' :: "null".toList)) ++ ['}'] := by
  decide

theorem jsonPage_eq_dumpsObj (t : Str) :
    Wsgi.jsonPage (.text t) = some (ErrorPage.dumpsObj
      [("body".toList, some t), ("exception".toList, some ErrorPage.noneStr), ("traceback".toList, none)]) := by
  simp only [Wsgi.jsonPage, Wsgi.jsonBody, Option.map_some, jsonStr_eq, ErrorPage.dumpsObj,
    ErrorPage.jsonMembers, ErrorPage.jsonVal, jsonPage_head, jsonPage_tail, List.append_assoc,
    List.cons_append, List.nil_append]

theorem jsonPage_none_eq_dumpsObj :
    Wsgi.jsonPage (.falsy .none) = some (ErrorPage.dumpsObj
      [("body".toList, none), ("exception".toList, some ErrorPage.noneStr), ("traceback".toList, none)]) := by
  decide

end Ombott.App
