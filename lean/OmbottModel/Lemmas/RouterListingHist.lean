import OmbottModel.Lemmas.RouterListing
/-!
C11 (listing), helper lemmas (2): in every router state an edit history can reach (`EInv`) the
enumeration of the tree, the `routes` index and the name index list the same routes.
-/
namespace Ombott.Router
open Py

theorem nodup_of_map_nodup {α β} (f : α → β) {l : List α} (h : (l.map f).Nodup) : l.Nodup :=
  List.Pairwise.of_map f (fun _ _ hne hab => hne (by rw [hab])) h

theorem denote_nodup (t : Node) (h : WFN t) : (denote t).Nodup :=
  nodup_of_map_nodup (·.pat) (denN_pats_nodup t h)

/-- the `routes` index lists every rule once -/
theorem rules_nodup {R : Router} (h : Inv R) : R.rules.Nodup := by
  unfold Router.rules
  have hp : R.routes.Pairwise (fun a b => a ∈ R.routes ∧ b ∈ R.routes ∧ a.1 ≠ b.1) := by
    have h0 : R.routes.Pairwise (fun a b => a.1 ≠ b.1) := List.pairwise_map.mp h.nodup
    exact List.Pairwise.and_mem.mp h0
  refine List.Pairwise.filterMap _ ?_ hp
  intro a a' ⟨ha, ha', hne⟩ b hb b' hb' hbb
  subst hbb
  simp only [Option.map_eq_some_iff] at hb hb'
  obtain ⟨r, hr, rfl⟩ := hb
  obtain ⟨r', hr', he⟩ := hb'
  simp only [Rule.mk.injEq] at he
  obtain ⟨_, hid, _⟩ := he
  obtain ⟨r0, hr0, hps⟩ := h.keys a.1 a.2 ha
  obtain ⟨r1, hr1, hps'⟩ := h.keys a'.1 a'.2 ha'
  rw [hid] at hr1
  rw [hr0] at hr; cases hr
  rw [hr1] at hr0; cases hr0
  exact hne (hps.trans hps'.symm)

/-- the pattern strings of the rules are the keys of `routes`, in order -/
theorem rules_patStr {R : Router} (h : Inv R) : R.rules.map (fun e => patStr e.pat) = R.routes.map (·.1) := by
  unfold Router.rules
  have hk := h.keys
  generalize R.routes = l at hk
  induction l with
  | nil => rfl
  | cons x xs ih =>
    obtain ⟨r, hr, hps⟩ := hk x.1 x.2 (by simp)
    simp only [List.filterMap_cons, hr, Option.map_some, List.map_cons]
    rw [ih (fun ps id hm => hk ps id (by simp [hm])), hps]

theorem map_pat_of_rule? {l : List Listed} {rs : List Rule} (h : l.map Listed.rule? = rs.map some) :
    l.map (·.pat) = rs.map (·.pat) := by
  induction l generalizing rs with
  | nil => cases rs <;> simp_all
  | cons x xs ih =>
    cases rs with
    | nil => simp at h
    | cons r rs =>
      simp only [List.map_cons, List.cons.injEq] at h ⊢
      refine ⟨?_, ih h.2⟩
      obtain ⟨p, d, k, hk⟩ := x
      cases d with
      | none => simp [Listed.rule?] at h
      | some v =>
        simp only [Listed.rule?, Option.map_some, Option.some.injEq] at h
        rw [← h.1]

/-- what `_routes_iter()` yields, read as rules -/
theorem routesIter_rules (t : Node) :
    ((routesIter t).map listedOf).map Listed.rule? = (denPostN t).map some := by
  rw [routesIter_listed, map_rule?_of_data _ (listPostN_data t), listPostN_rules]

theorem routesIter_filterMap_rules (yh : Bool) (t : Node) :
    ((routesIter t [] yh).map listedOf).filterMap Listed.rule? = denPostN t := by
  rw [routesIter_listed, listPostN_rules]

/-- **tree enumeration, `routes` index and name index list the same routes** in every state with
the edit invariant -/
theorem listing_of_einv {R : Router} {T : Str → Prop} (h : EInv R T) :
    (((routesIter R.tree).map listedOf).filterMap Listed.rule?).Perm R.rules ∧
    (((routesIter R.tree).map listedOf).map fun l => patStr l.pat).Perm (R.routes.map (·.1)) ∧
    (∀ nm id, (nm, id) ∈ R.named → ∃ l ∈ (routesIter R.tree).map listedOf, l.data = some id) := by
  have hperm : (denPostN R.tree).Perm R.rules := by
    refine (denPostN_perm R.tree).trans ?_
    exact (List.perm_ext_iff_of_nodup (denote_nodup R.tree h.inv.wf) (rules_nodup h.inv)).mpr h.inv.den
  refine ⟨?_, ?_, ?_⟩
  · rw [routesIter_filterMap_rules]; exact hperm
  · have h1 := map_pat_of_rule? (routesIter_rules R.tree)
    have h2 : ((routesIter R.tree).map listedOf).map (fun l => patStr l.pat) =
        (denPostN R.tree).map (fun e => patStr e.pat) := by
      have := congrArg (List.map patStr) h1
      simpa [List.map_map, Function.comp_def] using this
    rw [h2, ← rules_patStr h.inv]
    exact hperm.map _
  · intro nm id hn
    obtain ⟨r, hr, hin⟩ := h.named nm id hn
    have hmem : (⟨r.syms, id, r.params⟩ : Rule) ∈ R.rules := (mem_rules R _).mpr ⟨_, id, r, hin, hr, rfl⟩
    have hm2 : (⟨r.syms, id, r.params⟩ : Rule) ∈ ((routesIter R.tree).map listedOf).filterMap Listed.rule? := by
      rw [routesIter_filterMap_rules]; exact hperm.mem_iff.mpr hmem
    obtain ⟨l, hl, hrl⟩ := List.mem_filterMap.mp hm2
    refine ⟨l, hl, ?_⟩
    obtain ⟨p, d, k, hk⟩ := l
    cases d with
    | none => simp [Listed.rule?] at hrl
    | some v =>
      simp only [Listed.rule?, Option.map_some, Option.some.injEq, Rule.mk.injEq] at hrl
      simp [hrl.2.1]

end Ombott.Router
