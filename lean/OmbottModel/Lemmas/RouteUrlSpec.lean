import OmbottModel.Model.RouteUrl
/-!
Spec level of C19: unfolding lemmas for `buildUrl`, the stability notions (`Stable`, `HeadKeep`,
`StableAt`, `AllStable`) and the induction that carries a match of a path over to the URL built
from the matched values.
-/
namespace Ombott.RouteUrl
open Py Ombott.Router

instance instDecEqExcept {ε α} [DecidableEq ε] [DecidableEq α] : DecidableEq (Except ε α)
  | .ok a, .ok b => if h : a = b then isTrue (by rw [h]) else isFalse (by intro h'; cases h'; exact h rfl)
  | .error a, .error b => if h : a = b then isTrue (by rw [h]) else isFalse (by intro h'; cases h'; exact h rfl)
  | .ok _, .error _ => isFalse (by intro h; cases h)
  | .error _, .ok _ => isFalse (by intro h; cases h)

/-! ### `joinVals`, `buildUrl` -/

theorem joinVals_append (l1 l2 : List Val) :
    joinVals (l1 ++ l2) = (do let a ← joinVals l1; let b ← joinVals l2; pure (a ++ b)) := by
  induction l1 with
  | nil =>
    simp only [List.nil_append, joinVals]
    cases joinVals l2 <;> rfl
  | cons v r ih =>
    cases v with
    | conv s => rfl
    | str s =>
      simp only [List.cons_append, joinVals, ih]
      cases joinVals r with
      | error e => rfl
      | ok a =>
        cases joinVals l2 with
        | error e => rfl
        | ok b => simp [Functor.map, Except.map, bind, Except.bind, pure, Except.pure]

theorem buildUrl_nil (env : FilterEnv) (fenv : FormatEnv) (vs : List Val) :
    buildUrl env fenv [] vs = .ok [] := rfl

theorem buildUrl_lit (env : FilterEnv) (fenv : FormatEnv) (c : Char) (p : List Sym) (vs : List Val) :
    buildUrl env fenv (.lit c :: p) vs = (buildUrl env fenv p vs).map (c :: ·) := by
  simp only [buildUrl, urlSpec]
  cases urlSpec env fenv p vs with
  | error e => rfl
  | ok l =>
    simp only [Functor.map, Except.map, bind, Except.bind, joinVals]
    cases joinVals l <;> rfl

theorem buildUrl_lit_ok {env : FilterEnv} {fenv : FormatEnv} {c : Char} {p : List Sym} {vs : List Val} {u : Str} :
    buildUrl env fenv (.lit c :: p) vs = .ok u ↔ ∃ u', buildUrl env fenv p vs = .ok u' ∧ u = c :: u' := by
  rw [buildUrl_lit]
  cases buildUrl env fenv p vs with
  | error e => simp [Except.map]
  | ok u' =>
    simp only [Except.map, Except.ok.injEq]
    constructor
    · intro h; exact ⟨u', rfl, h.symm⟩
    · rintro ⟨u'', h1, h2⟩; rw [h2, h1]

theorem buildUrl_tok_ok {env : FilterEnv} {fenv : FormatEnv} {f : Option Fid} {p : List Sym} {v : Val}
    {vs : List Val} {u : Str} :
    buildUrl env fenv (.tok f :: p) (v :: vs) = .ok u ↔
      ∃ t u', piece env fenv f (litRun p) v = .ok (.str t) ∧ buildUrl env fenv p vs = .ok u' ∧ u = t ++ u' := by
  simp only [buildUrl, urlSpec]
  cases hp : piece env fenv f (litRun p) v with
  | error e => simp [bind, Except.bind]
  | ok prt =>
    cases hs : urlSpec env fenv p vs with
    | error e => simp [bind, Except.bind]
    | ok l =>
      cases prt with
      | conv s => simp [bind, Except.bind, pure, Except.pure, joinVals]
      | str t =>
        simp only [bind, Except.bind, pure, Except.pure, joinVals]
        cases joinVals l with
        | error e => simp [Functor.map, Except.map]
        | ok u' =>
          simp only [Functor.map, Except.map, Except.ok.injEq, Val.str.injEq]
          constructor
          · intro h; exact ⟨t, u', rfl, rfl, h.symm⟩
          · rintro ⟨t', u'', h1, h2, h3⟩; rw [h3, ← h1, ← h2]

theorem buildUrl_tok_nil (env : FilterEnv) (fenv : FormatEnv) (f : Option Fid) (p : List Sym) :
    buildUrl env fenv (.tok f :: p) [] = .error "IndexError" := rfl

/-! ### `matchRule` -/

theorem matchRule_nil {env : FilterEnv} {path : Str} {vs : List Val} :
    matchRule env [] path = some vs ↔ path = [] ∧ vs = [] := by
  cases path with
  | nil => simp [matchRule, eq_comm]
  | cons d r => simp [matchRule]

theorem matchRule_lit {env : FilterEnv} {c : Char} {p : List Sym} {path : Str} {vs : List Val} :
    matchRule env (.lit c :: p) path = some vs ↔ ∃ r, path = c :: r ∧ matchRule env p r = some vs := by
  cases path with
  | nil => simp [matchRule]
  | cons d r =>
    simp only [matchRule]
    by_cases h : c = d
    · subst h; simp
    · simp only [h, if_false]
      constructor
      · intro h'; cases h'
      · rintro ⟨r', h1, _⟩; simp only [List.cons.injEq] at h1; exact absurd h1.1.symm h

theorem matchRule_tok {env : FilterEnv} {f : Option Fid} {p : List Sym} {path : Str} {vs : List Val} :
    matchRule env (.tok f :: p) path = some vs ↔
      path ≠ [] ∧ ∃ res vs', tokRes env f path = some res ∧
        matchRule env p (path.drop res.n) = some vs' ∧ vs = res.val :: vs' := by
  cases path with
  | nil => simp [matchRule]
  | cons d r =>
    simp only [matchRule, ne_eq, reduceCtorEq, not_false_eq_true, true_and]
    cases tokRes env f (d :: r) with
    | none => simp
    | some res =>
      simp only [Option.map_eq_some_iff, Option.some.injEq]
      constructor
      · rintro ⟨a, h1, h2⟩; exact ⟨res, a, rfl, h1, h2.symm⟩
      · rintro ⟨res', a, h0, h1, h2⟩; subst h0; exact ⟨a, h1, h2.symm⟩

/-- the number of values a match yields is the number of wildcards -/
theorem matchRule_length {env : FilterEnv} {p : List Sym} {path : Str} {vs : List Val}
    (h : matchRule env p path = some vs) : vs.length = tokCount p := by
  induction p generalizing path vs with
  | nil => obtain ⟨_, rfl⟩ := matchRule_nil.mp h; rfl
  | cons s p ih =>
    cases s with
    | lit c =>
      obtain ⟨r, _, h'⟩ := matchRule_lit.mp h
      simpa [tokCount] using ih h'
    | tok f =>
      obtain ⟨_, res, vs', _, h', rfl⟩ := matchRule_tok.mp h
      simp [tokCount, ih h']

/-- a matched path starts with the literal run the pattern starts with -/
theorem matchRule_litRun_prefix {env : FilterEnv} {p : List Sym} {path : Str} {vs : List Val}
    (h : matchRule env p path = some vs) : litRun p <+: path := by
  induction p generalizing path vs with
  | nil => exact List.nil_prefix
  | cons s p ih =>
    cases s with
    | lit c =>
      obtain ⟨r, rfl, h'⟩ := matchRule_lit.mp h
      simp only [litRun]
      exact List.cons_prefix_cons.mpr ⟨rfl, ih h'⟩
    | tok f => exact List.nil_prefix

/-! ### stability -/

/-- `b` starts as `a` does: both empty, or the same first character -/
def SameHead (a b : Str) : Prop := a.head? = b.head?

theorem SameHead.refl (a : Str) : SameHead a a := rfl

theorem sameHead_append_left (t : Str) {a b : Str} (h : SameHead a b) : SameHead (t ++ a) (t ++ b) := by
  cases t with
  | nil => exact h
  | cons c t => rfl

/-- **`Stable f g`** (DESIGN 6/C19), local form.  `f` is the handler of a wildcard on the text
that is left; `g nxt` formats a value and sanity-checks it in front of the literal text `nxt`
that follows the wildcard in the rule.  Whenever `f` accepts at the head of a non-empty `path`
whose rest starts with `nxt`, the value can be formatted, and the formatted text `u` followed
by *anything that starts as the rest of `path` did* is accepted again, with the same value,
consuming exactly `u`. -/
def Stable (f : Str → Option FilterRes) (g : Str → Val → Except ErrName Val) : Prop :=
  ∀ path r nxt, path ≠ [] → f path = some r → nxt <+: path.drop r.n →
    ∃ u, g nxt r.val = .ok (.str u) ∧
      ∀ rest', SameHead (path.drop r.n) rest' →
        u ++ rest' ≠ [] ∧ ∃ r', f (u ++ rest') = some r' ∧ r'.val = r.val ∧ r'.n = u.length

/-- the formatted text starts as the matched text did (so whatever stands *before* this
wildcard sees the same first character) -/
def HeadKeep (f : Str → Option FilterRes) (g : Str → Val → Except ErrName Val) : Prop :=
  ∀ path r nxt u, path ≠ [] → f path = some r → g nxt r.val = .ok (.str u) →
    ∀ rest', SameHead (path.drop r.n) rest' → SameHead path (u ++ rest')

/-- `Stable` at a position of a rule, in its exact context: `p'` is what follows the wildcard
in the rule, and the formatted value is followed by precisely the URL built for `p'`. -/
def StableAt (env : FilterEnv) (fenv : FormatEnv) (f : Option Fid) (p' : List Sym) : Prop :=
  ∀ (path : Str) (r : FilterRes) (vs : List Val) (rest' : Str),
    path ≠ [] → tokRes env f path = some r →
    matchRule env p' (path.drop r.n) = some vs →
    buildUrl env fenv p' vs = .ok rest' →
    matchRule env p' rest' = some vs →
    ∃ u, piece env fenv f (litRun p') r.val = .ok (.str u) ∧ u ++ rest' ≠ [] ∧
      ∃ r', tokRes env f (u ++ rest') = some r' ∧ r'.val = r.val ∧ r'.n = u.length

/-- every wildcard of the rule is stable where it stands -/
def AllStable (env : FilterEnv) (fenv : FormatEnv) : List Sym → Prop
  | [] => True
  | .lit _ :: p => AllStable env fenv p
  | .tok f :: p => StableAt env fenv f p ∧ AllStable env fenv p

/-- the wildcards a pattern *starts* with all keep the head of their text -/
def HeadRun (env : FilterEnv) (fenv : FormatEnv) : List Sym → Prop
  | .tok f :: p => HeadKeep (tokRes env f) (piece env fenv f) ∧ HeadRun env fenv p
  | _ => True

/-- the URL built for a pattern starts as the matched path did, when the leading wildcards keep
their heads -/
theorem sameHead_of_headRun {env : FilterEnv} {fenv : FormatEnv} {p : List Sym} (hr : HeadRun env fenv p)
    {path : Str} {vs : List Val} {u : Str}
    (hm : matchRule env p path = some vs) (hb : buildUrl env fenv p vs = .ok u) : SameHead path u := by
  induction p generalizing path vs u with
  | nil =>
    obtain ⟨rfl, rfl⟩ := matchRule_nil.mp hm
    rw [buildUrl_nil] at hb
    cases hb; rfl
  | cons s p ih =>
    cases s with
    | lit c =>
      obtain ⟨r, rfl, _⟩ := matchRule_lit.mp hm
      obtain ⟨u', _, rfl⟩ := buildUrl_lit_ok.mp hb
      rfl
    | tok f =>
      obtain ⟨hne, res, vs', ht, hm', rfl⟩ := matchRule_tok.mp hm
      obtain ⟨t, u', hp, hb', rfl⟩ := buildUrl_tok_ok.mp hb
      exact hr.1 path res (litRun p) t hne ht hp u' (ih hr.2 hm' hb')

/-- the local notion gives the contextual one when the wildcards that follow keep their heads -/
theorem stableAt_of_stable {env : FilterEnv} {fenv : FormatEnv} {f : Option Fid} {p' : List Sym}
    (hs : Stable (tokRes env f) (piece env fenv f)) (hr : HeadRun env fenv p') : StableAt env fenv f p' := by
  intro path r vs rest' hne ht hm hb _
  obtain ⟨u, hg, hu⟩ := hs path r (litRun p') hne ht (matchRule_litRun_prefix hm)
  obtain ⟨h1, h2⟩ := hu rest' (sameHead_of_headRun hr hm hb)
  exact ⟨u, hg, h1, h2⟩

/-- **the induction behind `url_rematch`**: a match of `path` carries over to the built URL -/
theorem rematch_spec {env : FilterEnv} {fenv : FormatEnv} {p : List Sym} (hs : AllStable env fenv p)
    {path : Str} {vs : List Val} (hm : matchRule env p path = some vs) :
    ∃ u, buildUrl env fenv p vs = .ok u ∧ matchRule env p u = some vs := by
  induction p generalizing path vs with
  | nil =>
    obtain ⟨rfl, rfl⟩ := matchRule_nil.mp hm
    exact ⟨[], rfl, rfl⟩
  | cons s p ih =>
    cases s with
    | lit c =>
      obtain ⟨r, rfl, hm'⟩ := matchRule_lit.mp hm
      obtain ⟨u', hb, hr⟩ := ih hs hm'
      exact ⟨c :: u', buildUrl_lit_ok.mpr ⟨u', hb, rfl⟩, matchRule_lit.mpr ⟨u', rfl, hr⟩⟩
    | tok f =>
      obtain ⟨hne, res, vs', ht, hm', rfl⟩ := matchRule_tok.mp hm
      obtain ⟨rest', hb, hr⟩ := ih hs.2 hm'
      obtain ⟨u, hp, hne', r', ht', hv, hn⟩ := hs.1 path res vs' rest' hne ht hm' hb hr
      refine ⟨u ++ rest', buildUrl_tok_ok.mpr ⟨u, rest', hp, hb, rfl⟩, matchRule_tok.mpr ⟨hne', r', vs', ht', ?_, ?_⟩⟩
      · rw [hn, List.drop_left]; exact hr
      · rw [hv]

end Ombott.RouteUrl
