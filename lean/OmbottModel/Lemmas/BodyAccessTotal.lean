import OmbottModel.Model.BodyAccess
import OmbottModel.Lemmas.MarkupWF
/-!
Helper lemmas for C12 `body_access_total`: every exception that can come out of
`FieldStorage.iter_items` on a markup list built by `MultipartMarkup.parse` is one of the classes
`POST` catches; every error a body accessor raises went through `_raise` with
`except_class = RequestError`.
-/
namespace Ombott.BodyAccess
open Py Ombott.Multipart Ombott.Forms

/-! ### the error map -/

/-- what the theorems need of an `errors_map`: all entries are client errors and `RequestError`
has one -/
def Map4xx (m : List (String × Nat)) : Prop :=
  (∀ e ∈ m, 400 ≤ e.2 ∧ e.2 < 500) ∧ (mapGet m "RequestError").isSome

/-- a mapped client error -/
def Is4xx (e : Exc) : Prop := ∃ st, e = .py (.http st) ∧ 400 ≤ st ∧ st < 500

theorem mapGet_mem (m : List (String × Nat)) (k : String) (st : Nat) (h : mapGet m k = some st) :
    ∃ e ∈ m, e.2 = st := by
  unfold mapGet at h
  cases hf : m.find? (·.1 == k) with
  | none => simp [hf] at h
  | some e =>
    simp only [hf, Option.map_some, Option.some.injEq] at h
    exact ⟨e, List.mem_of_find?_eq_some hf, h⟩

theorem raiseErr_4xx (m : List (String × Nat)) (hm : Map4xx m) (e : Err) :
    Is4xx (raiseErr m e (some .requestError)) := by
  unfold raiseErr
  split
  · rename_i st hst
    obtain ⟨x, hx, rfl⟩ := mapGet_mem _ _ _ hst
    exact ⟨_, rfl, hm.1 x hx⟩
  · simp only [Option.bind_some]
    have hname : Err.requestError.name = "RequestError" := rfl
    rw [hname]
    split
    · rename_i st hst
      obtain ⟨x, hx, rfl⟩ := mapGet_mem _ _ _ hst
      exact ⟨_, rfl, hm.1 x hx⟩
    · rename_i hnone
      have := hm.2
      rw [hnone] at this
      simp at this

theorem raiseParsingError_4xx (m : List (String × Nat)) (hm : Map4xx m) (e : Exc) :
    Is4xx (raiseParsingError m e) := by
  unfold raiseParsingError
  split
  · split <;> exact raiseErr_4xx m hm _
  · exact raiseErr_4xx m hm _

/-! ### exceptions of `iter_items` -/

/-- the classes `FieldStorage.read` / `parse_header` raise when offsets are non-negative -/
def ReadErr (e : Exc) : Prop :=
  e = .py .bodySizeError ∨ e = .py .unicodeError ∨ e = .py .valueError ∨ e = .py .stopIteration ∨
  e = .py .keyError ∨ e = .py .bodyParsingError

theorem readErr_caught (e : Exc) (h : ReadErr e) : caughtByPost (genExc e) = true := by
  rcases h with rfl | rfl | rfl | rfl | rfl | rfl <;> decide

theorem srcRead_ok (body : Bytes) (sp : Bool) (start sz : Int) (h : 0 ≤ start) :
    ∃ b, srcRead body sp start sz = .ok b := by
  unfold srcRead
  rw [if_neg (by omega)]
  exact ⟨_, rfl⟩

theorem parseHeader_err (s : Str) (e : Exc) (h : parseHeader s = .error e) :
    e = .py .valueError ∨ e = .py .stopIteration := by
  unfold parseHeader at h
  split at h
  · cases h; exact Or.inl rfl
  · split at h
    · cases h; exact Or.inr rfl
    · cases h

theorem readLine_err (st : RdSt) (l : Str) (e : Exc) (h : readLine st l = .error e) : ReadErr e := by
  unfold readLine at h
  split at h
  · rename_i e' he
    cases h
    rcases parseHeader_err _ _ he with rfl | rfl
    · exact Or.inr (Or.inr (Or.inl rfl))
    · exact Or.inr (Or.inr (Or.inr (Or.inl rfl)))
  · simp only at h
    split at h
    · split at h
      · cases h; exact Or.inr (Or.inr (Or.inr (Or.inr (Or.inl rfl))))
      · cases h
    · split at h <;> cases h

theorem readLines_err (st : RdSt) (ls : List Str) (e : Exc) (h : readLines st ls = .error e) : ReadErr e := by
  induction ls generalizing st with
  | nil => simp [readLines] at h
  | cons l ls ih =>
    rw [readLines] at h
    split at h
    · rename_i e' he; cases h; exact readLine_err _ _ _ he
    · exact ih _ h

theorem readField_err (body : Bytes) (sp : Bool) (hs he ds de mr : Int) (e : Exc) (h0 : 0 ≤ hs) (h1 : 0 ≤ ds)
    (h : readField body sp hs he ds de mr = .error e) : ReadErr e := by
  unfold readField at h
  simp only at h
  split at h
  · cases h; exact Or.inl rfl
  · obtain ⟨raw, hraw⟩ := srcRead_ok body sp hs (he - hs) h0
    rw [hraw] at h
    simp only at h
    split at h
    · cases h; exact Or.inr (Or.inl rfl)
    · split at h
      · rename_i e' he'; cases h; exact readLines_err _ _ _ he'
      · split at h
        · cases h; exact Or.inr (Or.inr (Or.inr (Or.inr (Or.inr rfl))))
        · split at h
          · cases h
          · split at h
            · cases h
            · split at h
              · cases h; exact Or.inl rfl
              · obtain ⟨rawv, hrawv⟩ := srcRead_ok body sp ds (de - ds) h1
                rw [hrawv] at h
                simp only at h
                split at h
                · cases h; exact Or.inr (Or.inl rfl)
                · cases h

theorem itemsLoop_exc (body : Bytes) (sp : Bool) :
    ∀ (ms : List Markup) (mr : Int) (e : Exc), Alt false ms → (∀ m ∈ ms, 0 ≤ m.start) →
      (itemsLoop body sp ms mr).exc = some e → caughtByPost e = true
  | [], _, _, _, _, h => by simp [itemsLoop] at h
  | [h0], _, _, halt, _, h => by
    rw [itemsLoop] at h
    rw [if_neg (by simp only [Alt] at halt; simp [halt.1])] at h
    simp only [Option.some.injEq] at h; subst h; decide
  | h0 :: d :: rest, mr, e, halt, hpos, h => by
    rw [itemsLoop] at h
    simp only [Alt] at halt
    rw [if_neg (by simp [halt.1]), if_neg (by simp [halt.2.1])] at h
    split at h
    · rename_i e' he
      simp only [Option.some.injEq] at h; subst h
      exact readErr_caught _ (readField_err _ _ _ _ _ _ _ _ (hpos h0 (by simp)) (hpos d (by simp)) he)
    · exact itemsLoop_exc body sp rest _ e halt.2.2 (fun m hm => hpos m (by simp [hm])) h

theorem iterItems_exc (body : Bytes) (sp : Bool) (ms : List Markup) (mr : Int) (e : Exc)
    (halt : Alt true ms) (hpos : ∀ m ∈ ms, 0 ≤ m.start)
    (h : (iterItems body sp ms mr).exc = some e) : caughtByPost e = true := by
  unfold iterItems at h
  split at h
  · cases h
  · rename_i m0 rest
    simp only [Alt] at halt
    rw [if_neg (by simp [halt.1])] at h
    split at h
    · simp only [Option.some.injEq] at h; subst h; decide
    · exact itemsLoop_exc body sp rest mr e halt.2 (fun m hm => hpos m (by simp [hm])) h

/-! ### the accessors -/

/-- an outcome that is a value or a mapped client error -/
def Good {α} (o : Except Exc α) : Prop := ∀ e, o = .error e → Is4xx e

/-- the assumed contract of `json.loads`: it raises only `ValueError` (of which `JSONDecodeError`
and `UnicodeDecodeError` are subclasses) or `RecursionError` -/
def JsonContract (jl : JLoads) : Prop :=
  ∀ b e, jl b = .raises e → e = .py .valueError ∨ e = .py .unicodeError ∨ e = .other "RecursionError"

theorem bodyOf_good (cfg : Cfg) (hm : Map4xx cfg.errorsMap) (req : Req) : Good (bodyOf cfg req) := by
  intro e h
  unfold bodyOf at h
  simp only at h
  split at h
  · rename_i e' he'
    cases h
    split at he'
    · cases he'
    · split at he'
      · cases he'; exact raiseErr_4xx _ hm _
      · cases he'
  · split at h
    · cases h; exact raiseErr_4xx _ hm _
    · cases h

/-- the markup `_body` attaches to the buffered body was built by `MultipartMarkup.parse` from a
fresh object: names alternate and no section starts at a negative offset -/
theorem bodyOf_markup (cfg : Cfg) (req : Req) (body : Bytes) (st : St) (h : bodyOf cfg req = .ok (body, some st)) :
    AltInv st ∧ PosInv st := by
  unfold bodyOf at h
  simp only at h
  split at h
  · cases h
  · rename_i m hm
    split at h
    · cases h
    · rename_i chunks _
      simp only [Except.ok.injEq, Prod.mk.injEq] at h
      obtain ⟨_, hst⟩ := h
      split at hm
      · cases hm; simp at hst
      · split at hm
        · cases hm
        · rename_i s0 hs0
          cases hm
          simp only [Option.map_some, Option.some.injEq] at hst
          subst hst
          exact ⟨feed_alt _ _ (init_alt _ _ hs0), feed_pos _ _ (init_pos _ _ hs0)⟩

theorem getBodyString_good (cfg : Cfg) (hm : Map4xx cfg.errorsMap) (req : Req) : Good (getBodyString cfg req) := by
  intro e h
  unfold getBodyString at h
  split at h
  · rename_i e' he'; cases h; exact bodyOf_good cfg hm req _ he'
  · split at h
    · cases h; exact raiseErr_4xx _ hm _
    · split at h
      · cases h; exact raiseErr_4xx _ hm _
      · cases h

theorem jsonOf_good (cfg : Cfg) (hm : Map4xx cfg.errorsMap) (jl : JLoads) (hjl : JsonContract jl) (req : Req) :
    Good (jsonOf cfg jl req) := by
  intro e h
  unfold jsonOf at h
  split at h
  · split at h
    · rename_i e' he'; cases h; exact getBodyString_good cfg hm req _ he'
    · split at h
      · cases h
      · split at h
        · cases h
        · cases h
        · cases h
        · rename_i e' he'
          split at h
          · cases h; exact raiseErr_4xx _ hm _
          · rename_i hne
            exact absurd (hjl _ _ he') hne
  · cases h

theorem postOf_good (cfg : Cfg) (hm : Map4xx cfg.errorsMap) (jl : JLoads) (hjl : JsonContract jl) (req : Req) :
    Good (postOf cfg jl req).result := by
  intro e h
  unfold postOf at h
  simp only at h
  split at h
  · split at h
    · split at h
      · rename_i e' he'; cases h; exact jsonOf_good cfg hm jl hjl req _ he'
      · cases h
      · cases h
      · cases h; exact raiseErr_4xx _ hm _
    · split at h
      · rename_i e' he'; cases h; exact getBodyString_good cfg hm req _ he'
      · cases h
  · split at h
    · rename_i e' he'; cases h; exact bodyOf_good cfg hm req _ he'
    · cases h; exact raiseErr_4xx _ hm _
    · rename_i body st hb
      split at h
      · cases h; exact raiseParsingError_4xx _ hm _
      · split at h
        · cases h
        · rename_i e' he'
          cases h
          have hw := bodyOf_markup cfg req body st hb
          rw [if_pos (iterItems_exc _ _ _ _ _ hw.1.1 hw.2.2.2.2 he')]
          exact raiseParsingError_4xx _ hm _

/-- a successful `POST` run always stored the `forms` mapping -/
theorem postOf_forms (cfg : Cfg) (jl : JLoads) (req : Req) (d : Dict) (h : (postOf cfg jl req).result = .ok d) :
    (postOf cfg jl req).forms.isSome := by
  unfold postOf at h ⊢
  simp only at h ⊢
  split
  · split
    · split
      · rename_i he; rw [if_pos (by assumption), if_pos (by assumption), he] at h; cases h
      · rfl
      · rfl
      · rename_i he; rw [if_pos (by assumption), if_pos (by assumption), he] at h; cases h
    · split
      · rename_i he; rw [if_pos (by assumption), if_neg (by assumption), he] at h; cases h
      · rfl
  · split
    · rfl
    · rfl
    · split
      · rfl
      · split <;> rfl

theorem runPost_good (cfg : Cfg) (hm : Map4xx cfg.errorsMap) (jl : JLoads) (hjl : JsonContract jl) (req : Req)
    (c : Cache) : Good (runPost cfg jl req c).2 := by
  intro e h
  unfold runPost at h
  simp only at h
  split at h
  · cases h
  · rename_i e' he'; cases h; exact postOf_good cfg hm jl hjl req _ he'

/-- the caches are consistent: once `POST` is cached, so are `forms` and `files` -/
def CacheOK (c : Cache) : Prop := c.post.isSome → c.forms.isSome ∧ c.files.isSome

theorem runPost_cacheOK (cfg : Cfg) (jl : JLoads) (req : Req) (c : Cache) (hc : CacheOK c) (hp : c.post = none) :
    CacheOK (runPost cfg jl req c).1 ∧
    (∀ d, (runPost cfg jl req c).2 = .ok d →
      (runPost cfg jl req c).1.forms.isSome ∧ (runPost cfg jl req c).1.files.isSome) := by
  unfold runPost
  simp only
  cases hr : (postOf cfg jl req).result with
  | error e =>
    simp only
    refine ⟨?_, fun d hd => by cases hd⟩
    intro h; simp [hp] at h
  | ok d =>
    simp only
    have hf := postOf_forms cfg jl req d hr
    cases hff : (postOf cfg jl req).forms with
    | none => simp [hff] at hf
    | some f =>
      simp only
      exact ⟨fun _ => ⟨rfl, rfl⟩, fun _ _ => ⟨rfl, rfl⟩⟩

theorem ensurePost_good (cfg : Cfg) (hm : Map4xx cfg.errorsMap) (jl : JLoads) (hjl : JsonContract jl) (req : Req)
    (c : Cache) : Good (ensurePost cfg jl req c).2 := by
  unfold ensurePost
  split
  · intro e h; cases h
  · exact runPost_good cfg hm jl hjl req c

theorem ensurePost_cacheOK (cfg : Cfg) (jl : JLoads) (req : Req) (c : Cache) (hc : CacheOK c) :
    CacheOK (ensurePost cfg jl req c).1 ∧
    (∀ d, (ensurePost cfg jl req c).2 = .ok d →
      (ensurePost cfg jl req c).1.forms.isSome ∧ (ensurePost cfg jl req c).1.files.isSome) := by
  unfold ensurePost
  split
  · rename_i d hd
    exact ⟨hc, fun _ _ => hc (by simp [hd])⟩
  · rename_i hp
    exact runPost_cacheOK cfg jl req c hc hp

theorem readKey_good (p : Cache × Except Exc Dict) (get : Cache → Option Dict) (hp : Good p.2)
    (hk : ∀ d, p.2 = .ok d → (get p.1).isSome) : Good (readKey p get).2 := by
  intro e h
  unfold readKey at h
  split at h
  · rename_i e' he'; cases h; exact hp _ he'
  · rename_i d hd
    split at h
    · cases h
    · rename_i hnone
      have := hk d hd
      rw [hnone] at this
      simp at this

theorem readKey_cache (p : Cache × Except Exc Dict) (get : Cache → Option Dict) : (readKey p get).1 = p.1 := by
  unfold readKey
  split
  · rfl
  · split <;> rfl

theorem access_good (cfg : Cfg) (hm : Map4xx cfg.errorsMap) (jl : JLoads) (hjl : JsonContract jl) (req : Req)
    (c : Cache) (hc : CacheOK c) (a : Accessor) :
    Good (access cfg jl req c a).2 ∧ CacheOK (access cfg jl req c a).1 := by
  cases a <;> simp only [access]
  · split
    · rename_i e' he'
      exact ⟨fun e h => (by cases h; exact bodyOf_good cfg hm req _ he'), hc⟩
    · exact ⟨fun e h => (by cases h), hc⟩
  · split
    · exact ⟨fun e h => (by cases h), hc⟩
    · split
      · rename_i e' he'
        exact ⟨fun e h => (by cases h; exact jsonOf_good cfg hm jl hjl req _ he'), hc⟩
      · exact ⟨fun e h => (by cases h), hc⟩
  · split
    · exact ⟨fun e h => (by cases h), hc⟩
    · rename_i hp
      refine ⟨?_, (runPost_cacheOK cfg jl req c hc hp).1⟩
      intro e h
      simp only at h
      cases hr : (runPost cfg jl req c).2 with
      | ok d => simp [hr, Except.map] at h
      | error e' =>
        simp only [hr, Except.map] at h
        cases h
        exact runPost_good cfg hm jl hjl req c _ hr
  · split
    · exact ⟨fun e h => (by cases h), hc⟩
    · have hk := ensurePost_cacheOK cfg jl req c hc
      refine ⟨readKey_good _ _ (ensurePost_good cfg hm jl hjl req c) (fun d hd => (hk.2 d hd).1), ?_⟩
      rw [readKey_cache]; exact hk.1
  · split
    · exact ⟨fun e h => (by cases h), hc⟩
    · have hk := ensurePost_cacheOK cfg jl req c hc
      refine ⟨readKey_good _ _ (ensurePost_good cfg hm jl hjl req c) (fun d hd => (hk.2 d hd).2), ?_⟩
      rw [readKey_cache]; exact hk.1

theorem accessSeq_good (cfg : Cfg) (hm : Map4xx cfg.errorsMap) (jl : JLoads) (hjl : JsonContract jl) (req : Req)
    (accs : List Accessor) : ∀ (c : Cache), CacheOK c → ∀ o ∈ accessSeq cfg jl req c accs, Good o := by
  induction accs with
  | nil => intro c _ o ho; simp [accessSeq] at ho
  | cons a as ih =>
    intro c hc o ho
    rw [accessSeq] at ho
    have hg := access_good cfg hm jl hjl req c hc a
    rcases List.mem_cons.mp ho with rfl | ho
    · exact hg.1
    · exact ih _ hg.2 o ho

theorem good_status (o : Except Exc Val) (h : Good o) : statusOf o = 200 ∨ (400 ≤ statusOf o ∧ statusOf o < 500) := by
  cases o with
  | ok v => left; rfl
  | error e =>
    obtain ⟨st, rfl, h1, h2⟩ := h e rfl
    right; exact ⟨h1, h2⟩

/-! ### a failed `POST` leaves nothing behind -/

/-- none of the three form mappings is in the environ -/
def NoForm (c : Cache) : Prop := c.post = none ∧ c.forms = none ∧ c.files = none

def Accessor.isForm : Accessor → Bool
  | .post | .forms | .files => true
  | _ => false

theorem runPost_failed (cfg : Cfg) (jl : JLoads) (req : Req) (c : Cache) (e : Exc)
    (h : (postOf cfg jl req).result = .error e) (hc : NoForm c) :
    (runPost cfg jl req c).2 = .error e ∧ NoForm (runPost cfg jl req c).1 := by
  unfold runPost
  simp only [h]
  exact ⟨trivial, hc⟩

theorem access_failed (cfg : Cfg) (jl : JLoads) (req : Req) (c : Cache) (e : Exc)
    (h : (postOf cfg jl req).result = .error e) (hc : NoForm c) (a : Accessor) :
    NoForm (access cfg jl req c a).1 ∧ (a.isForm = true → (access cfg jl req c a).2 = .error e) := by
  obtain ⟨h1, h2, h3⟩ := hc
  have hr := runPost_failed cfg jl req c e h ⟨h1, h2, h3⟩
  cases a <;> simp only [access, Accessor.isForm]
  · split
    · exact ⟨⟨h1, h2, h3⟩, by simp⟩
    · exact ⟨⟨h1, h2, h3⟩, by simp⟩
  · split
    · exact ⟨⟨h1, h2, h3⟩, by simp⟩
    · split
      · exact ⟨⟨h1, h2, h3⟩, by simp⟩
      · exact ⟨⟨h1, h2, h3⟩, by simp⟩
  · rw [h1]
    simp only
    refine ⟨hr.2, fun _ => ?_⟩
    rw [hr.1]; rfl
  · rw [h2]
    simp only
    have he : ensurePost cfg jl req c = runPost cfg jl req c := by unfold ensurePost; rw [h1]
    rw [he, readKey_cache]
    refine ⟨hr.2, fun _ => ?_⟩
    unfold readKey; rw [hr.1]
  · rw [h3]
    simp only
    have he : ensurePost cfg jl req c = runPost cfg jl req c := by unfold ensurePost; rw [h1]
    rw [he, readKey_cache]
    refine ⟨hr.2, fun _ => ?_⟩
    unfold readKey; rw [hr.1]

theorem accessSeq_failed (cfg : Cfg) (jl : JLoads) (req : Req) (e : Exc)
    (h : (postOf cfg jl req).result = .error e) (accs : List Accessor) :
    ∀ (c : Cache), NoForm c → ∀ (i : Nat) (a : Accessor), accs[i]? = some a → a.isForm = true →
      (accessSeq cfg jl req c accs)[i]? = some (.error e) := by
  induction accs with
  | nil => intro c _ i a hi; simp at hi
  | cons x xs ih =>
    intro c hc i a hi hf
    have hx := access_failed cfg jl req c e h hc x
    rw [accessSeq]
    cases i with
    | zero =>
      simp only [List.getElem?_cons_zero, Option.some.injEq] at hi ⊢
      subst hi
      exact hx.2 hf
    | succ i =>
      simp only [List.getElem?_cons_succ] at hi ⊢
      exact ih _ hx.1 i a hi hf

end Ombott.BodyAccess
