import OmbottModel.Lemmas.RouterResolve
/-!
The literal characters of a parsed pattern are characters of the rule text
(`parseRule_lits_in_rule`); hence a rule text without the marker character parses to a pattern
without a literal marker (`parseRule_noLitTok`), which is the domain hypothesis `OpOK` of the
history theorems.
-/
namespace Ombott.Router
open Py

/-- every character of `t` occurs in `s` -/
def CharsIn (t s : Str) : Prop := ∀ c ∈ t, c ∈ s

theorem CharsIn.refl (s : Str) : CharsIn s s := fun _ h => h

theorem CharsIn.trans {a b c : Str} (h1 : CharsIn a b) (h2 : CharsIn b c) : CharsIn a c :=
  fun x hx => h2 x (h1 x hx)

theorem CharsIn.of_suffix {a b : Str} (h : a <:+ b) : CharsIn a b := fun _ hc => h.subset hc

theorem charsIn_cons (c : Char) (r : Str) : CharsIn r (c :: r) := fun _ hx => List.mem_cons_of_mem _ hx

theorem charsIn_takeWhile (p : Char → Bool) (s : Str) : CharsIn (s.takeWhile p) s :=
  fun _ hc => (List.takeWhile_prefix p).subset hc

theorem charsIn_dropWhile (p : Char → Bool) (s : Str) : CharsIn (s.dropWhile p) s :=
  CharsIn.of_suffix (List.dropWhile_suffix p)

theorem pyName_rest {s nm r : Str} (h : pyName s = some (nm, r)) : r <:+ s := by
  cases s with
  | nil => simp [pyName] at h
  | cons c t =>
    simp only [pyName] at h
    split at h
    · simp only [Option.some.injEq, Prod.mk.injEq] at h
      rw [← h.2]
      exact (List.dropWhile_suffix _).trans (List.suffix_cons c t)
    · cases h

theorem expectClose_rest {d : Char} {s r : Str} (h : expectClose d s = .ok r) : r <:+ s := by
  cases s with
  | nil => simp [expectClose] at h
  | cons c t =>
    simp only [expectClose] at h
    split at h
    · simp only [Except.ok.injEq] at h; subst h; exact List.suffix_cons c t
    · cases h

theorem scanParen_rest (r : Str) (lvl : Nat) (acc : Str) (inside rest : Str)
    (h : scanParen r lvl acc = some (inside, rest)) : rest <:+ r := by
  fun_induction scanParen r lvl acc
  all_goals (try (simp_all; done))
  · rename_i ih; exact (ih h).trans ((List.suffix_cons _ _).trans (List.suffix_cons _ _))
  all_goals (rename_i ih; exact (ih h).trans (List.suffix_cons _ _))

theorem scanSelTail_spec (r acc sel rest : Str) (h : scanSelTail r acc = some (sel, rest)) :
    rest <:+ r ∧ ∀ c ∈ sel, c ∈ acc ∨ c ∈ r := by
  fun_induction scanSelTail r acc
  all_goals (try (simp_all; done))
  · simp only [Option.some.injEq, Prod.mk.injEq] at h
    obtain ⟨rfl, rfl⟩ := h
    exact ⟨List.suffix_cons _ _, fun c hc => Or.inl (by simpa using hc)⟩
  · rename_i ih
    obtain ⟨h1, h2⟩ := ih h
    refine ⟨h1.trans (List.suffix_cons _ _), fun c hc => ?_⟩
    rcases h2 c hc with h3 | h3
    · rcases List.mem_cons.mp h3 with rfl | h3
      · exact Or.inr (by simp)
      · exact Or.inl h3
    · exact Or.inr (List.mem_cons_of_mem _ h3)

theorem scanSel_spec {s sel rest : Str} (h : scanSel s = some (sel, rest)) :
    rest <:+ s ∧ CharsIn sel s := by
  unfold scanSel at h
  split at h
  · split at h
    · cases h
    · rename_i c r _
      obtain ⟨h1, h2⟩ := scanSelTail_spec r [c] sel rest h
      refine ⟨h1.trans ((List.suffix_cons _ _).trans (List.suffix_cons _ _)), fun x hx => ?_⟩
      rcases h2 x hx with h3 | h3
      · simp only [List.mem_singleton] at h3; subst h3; simp
      · simp [h3]
  · cases h

theorem parseFilterTail_spec {d : Char} {s : Str} {args sel : Option Str} {r : Str}
    (h : parseFilterTail d s = .ok (args, sel, r)) :
    r <:+ s ∧ ∀ x, sel = some x → CharsIn x s := by
  unfold parseFilterTail at h
  split at h
  · cases h
  · rename_i c t
    split at h
    · simp only [Except.ok.injEq, Prod.mk.injEq] at h
      obtain ⟨_, rfl, rfl⟩ := h
      exact ⟨List.suffix_refl _, fun x hx => by cases hx⟩
    · split at h
      · split at h
        · cases h
        · rename_i a r' hsp
          have hr' := scanParen_rest t 0 [] a r' hsp
          split at h
          · split at h
            · rename_i x r'' hss
              simp only [Except.ok.injEq, Prod.mk.injEq] at h
              obtain ⟨_, rfl, rfl⟩ := h
              obtain ⟨h1, h2⟩ := scanSel_spec hss
              refine ⟨(h1.trans hr').trans (List.suffix_cons _ _), fun y hy => ?_⟩
              simp only [Option.some.injEq] at hy; subst hy
              exact h2.trans (CharsIn.of_suffix (hr'.trans (List.suffix_cons _ _)))
            · cases h
          · simp only [Except.ok.injEq, Prod.mk.injEq] at h
            obtain ⟨_, rfl, rfl⟩ := h
            exact ⟨hr'.trans (List.suffix_cons _ _), fun x hx => by cases hx⟩
      · split at h
        · simp only [Except.ok.injEq, Prod.mk.injEq] at h
          obtain ⟨_, rfl, rfl⟩ := h
          exact ⟨(List.dropWhile_suffix _).trans (List.suffix_cons _ _), fun x hx => by cases hx⟩
        · cases h

theorem parseAfterName_rest {d : Char} {b : Bool} {name r1 : Str} {param filter : Option Str} {r2 : Str}
    (h : parseAfterName d b name r1 = .ok (param, filter, r2)) : r2 <:+ r1 := by
  unfold parseAfterName at h
  split at h
  · cases h
  · rename_i c t
    split at h
    · simp only [Except.ok.injEq, Prod.mk.injEq] at h; rw [← h.2.2]; exact List.suffix_refl _
    · split at h
      · split at h
        · rename_i f r2' hn
          simp only [Except.ok.injEq, Prod.mk.injEq] at h
          rw [← h.2.2]; exact (pyName_rest hn).trans (List.suffix_cons _ _)
        · cases h
      · split at h
        · split at h
          · simp only [Except.ok.injEq, Prod.mk.injEq] at h; rw [← h.2.2]; exact List.suffix_refl _
          · split at h
            · rename_i f r2' hn
              simp only [Except.ok.injEq, Prod.mk.injEq] at h
              rw [← h.2.2]; exact (pyName_rest hn).trans (List.suffix_cons _ _)
            · cases h
        · split at h
          · simp only [Except.ok.injEq, Prod.mk.injEq] at h; rw [← h.2.2]; exact List.suffix_refl _
          · cases h

theorem parseClose_spec {d : Char} {param filter : Option Str} {r2 : Str} {p : Part} {rest : Str}
    (h : parseClose d param filter r2 = .ok (p, rest)) :
    rest <:+ r2 ∧ p.part = none ∧ ∀ x, p.sel = some x → CharsIn x r2 := by
  unfold parseClose at h
  split at h
  · cases he : expectClose d r2 with
    | error e => rw [he] at h; simp [Except.map] at h
    | ok r3 =>
      rw [he] at h
      simp only [Except.map, Except.ok.injEq, Prod.mk.injEq] at h
      obtain ⟨rfl, rfl⟩ := h
      exact ⟨expectClose_rest he, rfl, fun x hx => by cases hx⟩
  · split at h
    · cases h
    · rename_i f args sel r3 hft
      obtain ⟨h1, h2⟩ := parseFilterTail_spec hft
      cases he : expectClose d r3 with
      | error e => rw [he] at h; simp [Except.map] at h
      | ok r4 =>
        rw [he] at h
        simp only [Except.map, Except.ok.injEq, Prod.mk.injEq] at h
        obtain ⟨rfl, rfl⟩ := h
        exact ⟨(expectClose_rest he).trans h1, rfl, fun x hx => h2 x hx⟩

theorem parseParam_spec {s : Str} {p : Part} {rest : Str} (h : parseParam s = .ok (p, rest)) :
    rest <:+ s ∧ p.part = none ∧ ∀ x, p.sel = some x → CharsIn x s := by
  unfold parseParam at h
  split at h
  · cases h
  · rename_i first r
    split at h
    · split at h
      · simp only [Except.ok.injEq, Prod.mk.injEq] at h
        obtain ⟨rfl, rfl⟩ := h
        exact ⟨List.nil_suffix, rfl, fun x hx => by cases hx⟩
      · split at h
        · rename_i nm r' hn
          split at h
          · simp only [Except.ok.injEq, Prod.mk.injEq] at h
            obtain ⟨rfl, rfl⟩ := h
            exact ⟨(pyName_rest hn).trans (List.suffix_cons _ _), rfl, fun x hx => by cases hx⟩
          · cases h
        · cases h
    · split at h
      · cases h
      · rename_i dclose _
        simp only at h
        split at h
        · cases h
        · rename_i name r1 hn
          split at h
          · cases h
          · rename_i param filter r2 han
            obtain ⟨h1, h2, h3⟩ := parseClose_spec h
            have hr1 : r1 <:+ first :: r := by
              refine (pyName_rest hn).trans ?_
              split
              · exact (List.drop_suffix 1 r).trans (List.suffix_cons _ _)
              · exact List.suffix_cons _ _
            have hr2 := (parseAfterName_rest han).trans hr1
            exact ⟨h1.trans hr2, h2, fun x hx => (h3 x hx).trans (CharsIn.of_suffix hr2)⟩

/-- the text and selector fields of the items come from the rule text -/
theorem iterParse_chars (fuel : Nat) (s : Str) :
    ∀ part ∈ (iterParse fuel s).1,
      (∀ t, part.part = some t → CharsIn t s) ∧ (∀ x, part.sel = some x → CharsIn x s) := by
  induction fuel generalizing s with
  | zero => intro part hp; simp [iterParse] at hp
  | succ n ih =>
    intro part hp
    unfold iterParse at hp
    cases s with
    | nil => simp at hp
    | cons c t =>
      simp only at hp
      split at hp
      · cases hpp : parseParam (c :: t) with
        | error e => rw [hpp] at hp; simp at hp
        | ok res =>
          obtain ⟨p, rest⟩ := res
          rw [hpp] at hp
          simp only at hp
          obtain ⟨h1, h2, h3⟩ := parseParam_spec hpp
          rcases List.mem_cons.mp hp with rfl | hp
          · constructor
            · intro t' ht'
              split at ht' <;> simp [h2] at ht'
            · intro x hx
              split at hx
              · exact h3 x hx
              · exact h3 x hx
          · obtain ⟨g1, g2⟩ := ih rest part hp
            exact ⟨fun t' ht' => (g1 t' ht').trans (CharsIn.of_suffix h1),
                   fun x hx => (g2 x hx).trans (CharsIn.of_suffix h1)⟩
      · simp only at hp
        rcases List.mem_cons.mp hp with rfl | hp
        · exact ⟨fun t' ht' => by
                  simp only [Option.some.injEq] at ht'; subst ht'; exact charsIn_takeWhile _ _,
                 fun x hx => by cases hx⟩
        · obtain ⟨g1, g2⟩ := ih _ part hp
          exact ⟨fun t' ht' => (g1 t' ht').trans (charsIn_dropWhile _ _),
                 fun x hx => (g2 x hx).trans (charsIn_dropWhile _ _)⟩

/-- literal symbols of the pattern come from the text / selector fields of the items -/
theorem parseParts_lits (cenv : CompileEnv) (parts : List Part) (anon : Nat) (p : Parsed)
    (h : parseParts cenv parts anon = .ok p) :
    ∀ c, Sym.lit c ∈ p.syms → ∃ part ∈ parts,
      (∃ t, part.part = some t ∧ c ∈ t) ∨ (∃ x, part.sel = some x ∧ c ∈ x) := by
  induction parts generalizing anon p with
  | nil => simp [parseParts, pure, Except.pure] at h; subst h; simp
  | cons x xs ih =>
    unfold parseParts at h
    cases hx : x.part with
    | some txt =>
      simp only [hx] at h
      cases hr : parseParts cenv xs anon with
      | error e => simp [hr, bind, Except.bind] at h
      | ok rest =>
        simp only [hr, bind, Except.bind, pure, Except.pure, Except.ok.injEq] at h
        subst h
        intro c hc
        simp only [List.mem_append, List.mem_map, Sym.lit.injEq] at hc
        rcases hc with ⟨a, ha, rfl⟩ | hc
        · exact ⟨x, by simp, Or.inl ⟨txt, hx, ha⟩⟩
        · obtain ⟨part, hp, hh⟩ := ih _ _ hr c hc
          exact ⟨part, by simp [hp], hh⟩
    | none =>
      simp only [hx] at h
      cases hf : makeFilter cenv x.filter x.args with
      | error e => simp [hf, bind, Except.bind] at h
      | ok f =>
        simp only [hf, bind, Except.bind] at h
        split at h
        · cases h
        · rename_i rest hr
          simp only [pure, Except.pure, Except.ok.injEq] at h
          subst h
          intro c hc
          simp only [List.mem_cons, List.mem_append, List.mem_map, Sym.lit.injEq, reduceCtorEq, false_or] at hc
          rcases hc with ⟨a, ha, rfl⟩ | hc
          · cases hs : x.sel with
            | none => simp [hs] at ha
            | some sel =>
              simp only [hs, Option.getD_some] at ha
              exact ⟨x, by simp, Or.inr ⟨sel, hs, ha⟩⟩
          · obtain ⟨part, hp, hh⟩ := ih _ _ hr c hc
            exact ⟨part, by simp [hp], hh⟩

/-- every literal character of the parsed pattern occurs in the rule text -/
theorem parseRule_lits_in_rule {cenv : CompileEnv} {rule : Str} {p : Parsed}
    (h : parseRule cenv rule = .ok p) : ∀ c, Sym.lit c ∈ p.syms → c ∈ rule := by
  unfold parseRule at h
  cases rule with
  | nil => simp [throw, throwThe, MonadExceptOf.throw] at h
  | cons c0 r =>
    simp only at h
    split at h
    · simp [throw, throwThe, MonadExceptOf.throw] at h
    · split at h
      · simp [throw, throwThe, MonadExceptOf.throw] at h
      · rename_i p' hp _
        simp only [pure, Except.pure, Except.ok.injEq] at h
        subst h
        intro c hc
        obtain ⟨part, hpart, hh⟩ := parseParts_lits _ _ _ _ hp c hc
        obtain ⟨g1, g2⟩ := iterParse_chars _ r part hpart
        rcases hh with ⟨t, ht, hct⟩ | ⟨x, hx, hcx⟩
        · exact List.mem_cons_of_mem _ (g1 t ht c hct)
        · exact List.mem_cons_of_mem _ (g2 x hx c hcx)
      · simp [throw, throwThe, MonadExceptOf.throw] at h

/-- a rule text without the marker character parses to a pattern without a literal marker -/
theorem parseRule_noLitTok {cenv : CompileEnv} {rule : Str} {p : Parsed}
    (hr : Gen.paramToken ∉ rule) (h : parseRule cenv rule = .ok p) : NoLitTok p.syms :=
  fun c hc heq => hr (heq ▸ parseRule_lits_in_rule h c hc)

/-- the domain hypothesis of the history theorems follows from "no CR in the rule text" -/
theorem opOK_of_no_marker (cenv : CompileEnv) (a : AddArgs) (hr : Gen.paramToken ∉ a.rule) :
    OpOK (.add cenv a) := fun _ hp => parseRule_noLitTok hr hp

end Ombott.Router
