import OmbottModel.Lemmas.AppError
import OmbottModel.Lemmas.AppPage
import OmbottModel.Lemmas.ErrorPageServe
/-!
Seam `Model/Wsgi` (`_handle` → `_cast` → error page) ↔ `Model/ErrorPage` (`handleErr` →
`default_error_handler` → `serve`): on the framework errors both describe — 400 for an undecodable
path, 404, 405, and the 500 of a crashing handler / hook (HTML) — the response `App.serve` produces
is the one `ErrorPage.serve` describes: `wsgi_handle_agrees_with_errorpage_handle`.
-/
namespace Ombott.App
open Py Ombott Ombott.Wsgi

/-- `ErrorPage.serve` (debug off, no failing application error handler) for an outcome whose
error object is `e`, when `Request.url` is defined — the HTML page said with `Wsgi.renderPage` -/
theorem errorpage_serve_exact (pr : Char → Bool) (eq : ErrorPage.Req) (oc : ErrorPage.Outcome)
    (e : ErrorPage.ErrResp) (he : ErrorPage.handleErr pr eq.rawPath oc = .inr e)
    (hplain : ErrorPage.plainCode e.code = true) (url : Str)
    (hurl : ErrorPage.requestUrl eq.env (ErrorPage.shownPath eq.rawPath) = .ok url) (dbg : Str × Str) :
    ErrorPage.serve pr Gen.errorTemplateLines false eq oc false dbg =
      { status := e.status,
        ctype := if ErrorPage.isJsonRequested eq.accept then ErrorPage.jsonType else ErrorPage.htmlType,
        body := if eq.isHead then [] else
          if ErrorPage.isJsonRequested eq.accept then
            ErrorPage.dumpsObj [("body".toList, e.body), ("exception".toList, some (ErrorPage.strOpt e.exception)),
                                ("traceback".toList, e.traceback)]
          else Wsgi.renderPage e.status (ErrorPage.pyRepr pr (ErrorPage.pageEscape url)) (ErrorPage.strOpt e.body) } := by
  have hct : ∀ ct, ErrorPage.ctypeOf e.code ct = ct := by
    intro ct
    simp only [ErrorPage.plainCode, Bool.and_eq_true, bne_iff_ne, ne_eq] at hplain
    simp [ErrorPage.ctypeOf, hplain.1.2, hplain.2]
  have hbl : ErrorPage.bodyless e.code eq.isHead = eq.isHead := by
    simp only [ErrorPage.plainCode, Bool.and_eq_true, Bool.not_eq_true', ErrorPage.bodyless, Bool.or_false] at hplain
    simp only [ErrorPage.bodyless]
    rw [hplain.1.1]
    simp
  unfold ErrorPage.serve
  simp only [he, Bool.false_eq_true, if_false]
  unfold ErrorPage.defaultErrorHandler
  cases hj : ErrorPage.isJsonRequested eq.accept with
  | true => simp only [if_true, hct, hbl]
  | false =>
    simp only [Bool.false_eq_true, if_false, hurl, wsgi_page_agrees_with_errorpage_render, Except.map, hct, hbl]

theorem htmlType_eq : ErrorPage.htmlType = Gen.wsgiDefaultContentType.toList := by decide

theorem bodyBytes_page (x : Str) :
    bodyBytes (if x.isEmpty then [] else [Wsgi.BodyItem.chunk (utf8 x)]) = utf8 x := by
  cases x with
  | nil => rfl
  | cons c cs => simp [bodyBytes]

/-- what the two sides have to share for the statement: the same environ -/
structure SameRequest (pr : Char → Bool) (eq : ErrorPage.Req) (r : Wsgi.Req) (url : Str) : Prop where
  urlEq : ErrorPage.requestUrl eq.env (ErrorPage.shownPath eq.rawPath) = .ok url
  urlRepr : r.urlRepr = ErrorPage.pyRepr pr (ErrorPage.pageEscape url)
  json : r.json = ErrorPage.isJsonRequested eq.accept
  head : r.isHead = eq.isHead

/-- **`wsgi_handle_agrees_with_errorpage_handle`.**  Let `_handle` of `Model/Wsgi` return the error
object `(code, lineOfCode code, hdrs, text b)` and `handleErr` of `Model/ErrorPage` build
`httpError code (some b) exc tb` for the same environ, with a status that carries a body, no
custom handler for it, and JSON only for an error without exception object.  Then the two models
describe the same response: the status line of the one `start_response`, the `Content-Type` in its
header list, and the body bytes. -/
theorem wsgi_handle_agrees_with_errorpage_handle (app : Wsgi.App) (s : Slots) (r : Wsgi.Req)
    (pr : Char → Bool) (eq : ErrorPage.Req) (oc : ErrorPage.Outcome) (url : Str)
    (hsame : SameRequest pr eq r url)
    (code : Nat) (hdrs : Hdrs) (b : Str) (exc tb : Option Str)
    (hout : (handle app s r).2.2 = .resp true { code := code, line := lineOfCode code, headers := hdrs, cookies := [] } (.text b))
    (herr : ErrorPage.handleErr pr eq.rawPath oc = .inr (ErrorPage.httpError code (some b) exc tb))
    (hplain : ErrorPage.plainCode code = true) (hbodyful : isBodyless code = false)
    (hbad : (badHeadersFor code).isEmpty = true)
    (hno : errHandlerFor app code = none) (hgood : AllGood hdrs) (hct : hdrs.has "Content-Type".toList = false)
    (hjson : r.json = true → exc = none ∧ tb = none) (dbg : Str × Str) :
    let ep := ErrorPage.serve pr Gen.errorTemplateLines false eq oc false dbg
    (∃ hl, Wsgi.Event.startResponse ep.status hl false ∈ (wsgi app s r).events ∧
      ("Content-Type".toList, ep.ctype) ∈ hl) ∧
    bodyBytes (wsgi app s r).body = utf8 ep.body := by
  intro ep
  have hep := errorpage_serve_exact pr eq oc _ herr hplain url hsame.urlEq dbg
  obtain ⟨x, hl, hserved⟩ := wsgi_error_page_of_out app s r _ _ hout hno hgood (fun _ => rfl)
  have hstatus : ep.status = lineOfCode code := by
    show (ErrorPage.serve pr Gen.errorTemplateLines false eq oc false dbg).status = _
    rw [hep]
    simp only [ErrorPage.httpError, lineOfCode_eq_statusLine]
  have hctype : ep.ctype = (if r.json then "application/json".toList else Gen.wsgiDefaultContentType.toList) := by
    show (ErrorPage.serve pr Gen.errorTemplateLines false eq oc false dbg).ctype = _
    rw [hep, hsame.json]
    simp only
    split
    · rfl
    · exact htmlType_eq
  refine ⟨⟨hl, ?_, ?_⟩, ?_⟩
  · rw [hstatus, hserved.evs]; simp
  · rw [hctype]; exact hserved.ctype hct hbad
  · show _ = utf8 (ErrorPage.serve pr Gen.errorTemplateLines false eq oc false dbg).body
    rw [hep, hserved.bodyEq, hbodyful, hsame.head]
    simp only [Bool.false_or]
    cases hh : eq.isHead with
    | true => rfl
    | false =>
      simp only [Bool.false_eq_true, if_false]
      rw [bodyBytes_page]
      congr 1
      rcases hserved.page with ⟨hj, hx⟩ | ⟨hj, hx⟩
      · rw [← hsame.json, hj]
        simp only [Bool.false_eq_true, if_false, hx, hsame.urlRepr, ErrorPage.httpError, ErrorPage.strOpt,
          lineOfCode_eq_statusLine, fmtBody]
      · obtain ⟨rfl, rfl⟩ := hjson hj
        rw [← hsame.json, hj]
        simp only [if_true, ErrorPage.httpError, ErrorPage.strOpt]
        rw [jsonPage_eq_dumpsObj] at hx
        exact (Option.some.inj hx).symm

/-! ### the composed application -/

theorem sameRequest_of_wsgiReq {cfg : AppConfig} {R : Router.Router} {q : Req} {r : Wsgi.Req}
    (h : wsgiReq cfg R q = .ok r) : ∃ url, SameRequest cfg.pr (errorPageReq q) r url := by
  obtain ⟨url, hu, _, hhead, _, _, _, hrepr, hjson, _⟩ := wsgiReq_ok h
  exact ⟨url, hu, hrepr, hjson, hhead⟩

/-- **routing errors (404, 405) and the undecodable path (400) through `App.serve` are the
responses `Model/ErrorPage` describes** (`App.errorPageView`) -/
theorem serve_routing_error_page (cfg : AppConfig) (R : Router.Router) (q : Req) (res : Wsgi.Result)
    (hs : serveW cfg R q = .ok res) (oc : ErrorPage.Outcome)
    (hoc : routedOutcome (resolved cfg R q) = some oc)
    (hb : cfg.hooks.before.all (fun h => !h.fails) = true) (ha : cfg.hooks.after.all (fun h => !h.fails) = true)
    (hno : errHandlerFor cfg.hooks 400 = none ∧ errHandlerFor cfg.hooks 404 = none ∧ errHandlerFor cfg.hooks 405 = none)
    (dbg : Str × Str) :
    let ep := ErrorPage.serve cfg.pr Gen.errorTemplateLines false (errorPageReq q) oc false dbg
    (∃ hl, Wsgi.Event.startResponse ep.status hl false ∈ res.events ∧ ("Content-Type".toList, ep.ctype) ∈ hl) ∧
    bodyBytes res.body = utf8 ep.body := by
  obtain ⟨r, hr, rfl⟩ := serveW_ok hs
  obtain ⟨url, hsame⟩ := sameRequest_of_wsgiReq hr
  obtain ⟨_, _, _, _, _, hpok, _, _, _, hrel⟩ := wsgiReq_ok hr
  have hflow := handleFlow_quiet cfg.hooks r hb ha
  generalize hrt : r.route = route at hrel
  unfold resolved at hoc hrel
  cases hd : ErrorPage.utf8Decode q.rawPath with
  | none =>
    rw [hd] at hoc hrel hpok
    simp only [Option.map_none, routedOutcome, Option.some.injEq] at hoc
    subst hoc
    have hp : r.pathOK = false := by rw [hpok]; rfl
    have herr : ErrorPage.handleErr cfg.pr (errorPageReq q).rawPath .notFound =
        .inr (ErrorPage.httpError 400 (some "Invalid path string. Expected UTF-8".toList) none none) := by
      show ErrorPage.handleErr cfg.pr q.rawPath .notFound = _
      unfold ErrorPage.handleErr
      rw [hd]
    exact wsgi_handle_agrees_with_errorpage_handle cfg.hooks Slots.fresh r cfg.pr (errorPageReq q) .notFound url hsame
      400 [] _ none none (handle_out_undecodable cfg.hooks Slots.fresh r hp).1 herr (by decide) (by decide) (by decide)
      hno.1 (by intro p hp; cases hp) rfl (fun _ => ⟨rfl, rfl⟩) dbg
  | some p =>
    rw [hd] at hoc hrel hpok
    simp only [Option.map_some] at hoc hrel
    have hp : r.pathOK = true := by rw [hpok]; rfl
    obtain ⟨hout, _⟩ := handle_out cfg.hooks Slots.fresh r hp
    rw [hflow, hrt] at hout
    generalize hrs : R.handle cfg.upper cfg.fenv q.verb p = rs at hrel hoc
    cases hrel with
    | found h m kw => simp [routedOutcome] at hoc
    | notFound v p' =>
      simp only [routedOutcome, Option.some.injEq] at hoc
      subst hoc
      have herr : ErrorPage.handleErr cfg.pr (errorPageReq q).rawPath .notFound =
          .inr (ErrorPage.httpError 404 (some "Not Found".toList) none none) := by
        show ErrorPage.handleErr cfg.pr q.rawPath .notFound = _
        unfold ErrorPage.handleErr
        rw [hd]
      exact wsgi_handle_agrees_with_errorpage_handle cfg.hooks Slots.fresh r cfg.pr (errorPageReq q) .notFound url hsame
        404 [] _ none none hout herr (by decide) (by decide) (by decide)
        hno.2.1 (by intro p hp; cases hp) rfl (fun _ => ⟨rfl, rfl⟩) dbg
    | notAllowed a hva =>
      simp only [routedOutcome, Option.some.injEq] at hoc
      subst hoc
      have herr : ErrorPage.handleErr cfg.pr (errorPageReq q).rawPath (.notAllowed a) =
          .inr (ErrorPage.httpError 405 (some "Method not allowed.".toList) none none) := by
        show ErrorPage.handleErr cfg.pr q.rawPath (.notAllowed a) = _
        unfold ErrorPage.handleErr
        rw [hd]
      exact wsgi_handle_agrees_with_errorpage_handle cfg.hooks Slots.fresh r cfg.pr (errorPageReq q) (.notAllowed a) url hsame
        405 [("Allow".toList, [.good a])] _ none none hout herr (by decide) (by decide) (by decide)
        hno.2.2
        (by
          intro p hp v hv
          simp only [List.mem_singleton] at hp
          subst hp
          simp only [List.mem_singleton] at hv
          subst hv
          exact fun h => by cases h)
        (by
          show ([("Allow".toList, [HVal.good a])].any (·.1 == "Content-Type".toList)) = false
          simp only [List.any_cons, List.any_nil, Bool.or_false]
          decide)
        (fun _ => ⟨rfl, rfl⟩) dbg

/-- **the 500 of a crashing handler, hook or statement through `App.serve` is the page
`Model/ErrorPage` describes for `raises`** (HTML; the JSON text would quote the exception, which
`Model/Wsgi` does not carry) -/
theorem serve_crash_page (cfg : AppConfig) (R : Router.Router) (q : Req) (res : Wsgi.Result)
    (hs : serveW cfg R q = .ok res) (path : Str) (hpath : ErrorPage.utf8Decode q.rawPath = some path)
    (hcrash : ∀ r, wsgiReq cfg R q = .ok r → handleFlow cfg.hooks r = .exc)
    (hno : errHandlerFor cfg.hooks 500 = none) (hj : ErrorPage.isJsonRequested q.accept = false)
    (cls msg tb : Str) (dbg : Str × Str) :
    let ep := ErrorPage.serve cfg.pr Gen.errorTemplateLines false (errorPageReq q) (.raises cls msg tb) false dbg
    (∃ hl, Wsgi.Event.startResponse ep.status hl false ∈ res.events ∧ ("Content-Type".toList, ep.ctype) ∈ hl) ∧
    bodyBytes res.body = utf8 ep.body := by
  obtain ⟨r, hr, rfl⟩ := serveW_ok hs
  obtain ⟨url, hsame⟩ := sameRequest_of_wsgiReq hr
  obtain ⟨_, _, _, _, _, hpok, _, _, hjs, _⟩ := wsgiReq_ok hr
  have hp : r.pathOK = true := by rw [hpok, hpath]; rfl
  obtain ⟨hout, _⟩ := handle_out cfg.hooks Slots.fresh r hp
  rw [hcrash r hr] at hout
  have herr : ErrorPage.handleErr cfg.pr (errorPageReq q).rawPath (.raises cls msg tb) =
      .inr (ErrorPage.httpError 500 (some "Internal Server Error".toList)
        (some (ErrorPage.excRepr cfg.pr cls msg)) (some tb)) := by
    show ErrorPage.handleErr cfg.pr q.rawPath (.raises cls msg tb) = _
    unfold ErrorPage.handleErr
    rw [hpath]
    rfl
  exact wsgi_handle_agrees_with_errorpage_handle cfg.hooks Slots.fresh r cfg.pr (errorPageReq q) _ url hsame
    500 [] _ _ _ hout herr (by decide) (by decide) (by decide) hno (by intro p hp; cases hp) rfl
    (fun h => by rw [hjs, hj] at h; cases h) dbg

end Ombott.App
