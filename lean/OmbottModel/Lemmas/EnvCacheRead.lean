import OmbottModel.Lemmas.EnvCacheDesc
/-!
`cache_in` simulates the reference: the generic step (`cacheIn_sim`), the facts about the body
state (`spBody`), and what keeps the invariant when an entry is stored.
-/
namespace Ombott.EnvCache
open Py Ombott.Body Ombott.Forms Ombott.BodyAccess

def SpecDesc.reads : SpecDesc → List Key
  | .pure r _ => r
  | .viaBody r _ _ _ => r
  | .special => []

/-- `CachedOK` looks at the strings the description lists and at the buffered body -/
theorem CachedOK_congr (cfg : Cfg) (L : Lib) (q : Prop') (e e' : Env) (w : Val)
    (hs : ∀ c ∈ (desc cfg L q).reads, e.str? c = e'.str? c) (hb : e.get? kBody = e'.get? kBody)
    (h : CachedOK cfg L q e w) : CachedOK cfg L q e' w := by
  have ok := desc_ok cfg L q
  unfold CachedOK at h ⊢
  cases hd : desc cfg L q with
  | special => trivial
  | pure r f =>
    rw [hd] at h ok hs
    simp only [DescOK, SpecDesc.reads] at ok hs ⊢
    simp only at h
    rw [← ok.1 e e' hs]; exact h
  | viaBody r need k0 k =>
    rw [hd] at h ok hs
    simp only [DescOK, SpecDesc.reads] at ok hs ⊢
    simp only at h
    obtain ⟨o1, o2, o3, -⟩ := ok
    rw [← o1 e e' hs, ← o2 e e' hs, ← hb]
    split
    · rename_i hn
      rw [if_pos hn] at h
      obtain ⟨sk, ct, h1, h2⟩ := h
      have h3 := o3 sk ct e e' hs
      simp only at h3
      exact ⟨sk, ct, h1, by rw [← h3]; exact h2⟩
    · rename_i hn
      rw [if_neg hn] at h
      exact h

theorem reads_plain (cfg : Cfg) (L : Lib) (q : Prop') :
    ∀ c ∈ (desc cfg L q).reads, isCacheKey c = false ∧ c ∉ bodyKeys := by
  have ok := desc_ok cfg L q
  cases hd : desc cfg L q with
  | special => intro c hc; cases hc
  | pure r f => rw [hd] at ok; exact ok.2
  | viaBody r need k0 k => rw [hd] at ok; exact ok.2.2.2

theorem kBody_not_cache : isCacheKey kBody = false := by decide

/-- setting a cache entry does not disturb what another entry was computed from -/
theorem CachedOK_set_cache (cfg : Cfg) (L : Lib) (q : Prop') (e : Env) (k : Key) (v w : Val)
    (hk : isCacheKey k = true) (h : CachedOK cfg L q e w) : CachedOK cfg L q (e.set k v) w := by
  apply CachedOK_congr cfg L q e _ w _ _ h
  · intro c hc
    have := (reads_plain cfg L q c hc).1
    rw [str?_set_ne]
    intro h'; subst h'; rw [hk] at this; cases this
  · rw [get?_set_ne]
    intro h'; rw [← h'] at hk; rw [kBody_not_cache] at hk; cases hk

/-- … nor does erasing them all -/
theorem CachedOK_erase (cfg : Cfg) (L : Lib) (q : Prop') (e : Env) (w : Val) :
    CachedOK cfg L q e w ↔ CachedOK cfg L q (erase e) w := by
  constructor
  · apply CachedOK_congr
    · intro c hc; rw [str?_erase_plain _ _ (reads_plain cfg L q c hc).1]
    · rw [get?_erase_plain _ _ kBody_not_cache]
  · apply CachedOK_congr
    · intro c hc; rw [str?_erase_plain _ _ (reads_plain cfg L q c hc).1]
    · rw [get?_erase_plain _ _ kBody_not_cache]

theorem not_cache_ext : isCacheKey kApp = false ∧ isCacheKey kRoute = false ∧ isCacheKey kUrlArgs = false := by decide

theorem get?_set_isSome (e : Env) (k c : Key) (v : Val) (h : e.get? c ≠ none) : (e.set k v).get? c ≠ none := by
  by_cases hc : c = k
  · subst hc; rw [get?_set_self]; simp
  · rw [get?_set_ne _ _ _ _ hc]; exact h

/-- storing what the reference computes keeps the invariant -/
theorem Inv.store {cfg : Cfg} {L : Lib} {e : Env} (hI : Inv cfg L e) (p : Prop') (v : Val)
    (hc : isCacheKey p.key = true) (hp : p = .post → e.get? kForms ≠ none ∧ e.get? kFiles ≠ none)
    (hv : CachedOK cfg L p e v) :
    Inv cfg L (e.set p.key v) := by
  refine ⟨?_, ?_, ?_⟩
  · intro q w hq
    by_cases hk : q.key = p.key
    · have := key_injective q p hk
      subst this
      rw [get?_set_self] at hq
      cases hq
      exact CachedOK_set_cache cfg L q e _ v v hc hv
    · rw [get?_set_ne _ _ _ _ hk] at hq
      exact CachedOK_set_cache cfg L q e _ v w hc (hI.cached q w hq)
  · intro h
    by_cases hpp : p = .post
    · obtain ⟨h1, h2⟩ := hp hpp
      exact ⟨get?_set_isSome _ _ _ _ h1, get?_set_isSome _ _ _ _ h2⟩
    · have hne : kPost ≠ p.key := by
        intro h'; exact hpp (key_injective p .post h'.symm)
      rw [get?_set_ne _ _ _ _ hne] at h
      obtain ⟨h1, h2⟩ := hI.postCons h
      exact ⟨get?_set_isSome _ _ _ _ h1, get?_set_isSome _ _ _ _ h2⟩
  · obtain ⟨h1, h2, h3⟩ := hI.noExt
    obtain ⟨n1, n2, n3⟩ := not_cache_ext
    refine ⟨?_, ?_, ?_⟩
    · rw [get?_set_ne]; exact h1
      intro h'; rw [h', hc] at n1; cases n1
    · rw [get?_set_ne]; exact h2
      intro h'; rw [h', hc] at n2; cases n2
    · rw [get?_set_ne]; exact h3
      intro h'; rw [h', hc] at n3; cases n3

/-- storing an entry no property is computed from (`ombott.request.get`, the header view) -/
theorem Inv.store_other {cfg : Cfg} {L : Lib} {e : Env} (hI : Inv cfg L e) (k : Key) (v : Val)
    (hc : isCacheKey k = true) (hk : ∀ q : Prop', desc cfg L q ≠ .special → q.key ≠ k) (hpost : k ≠ kPost) :
    Inv cfg L (e.set k v) := by
  refine ⟨?_, ?_, ?_⟩
  · intro q w hq
    by_cases hs : desc cfg L q = .special
    · unfold CachedOK; rw [hs]; trivial
    · rw [get?_set_ne _ _ _ _ (hk q hs)] at hq
      exact CachedOK_set_cache cfg L q e _ v w hc (hI.cached q w hq)
  · intro h
    rw [get?_set_ne _ _ _ _ (Ne.symm hpost)] at h
    obtain ⟨h1, h2⟩ := hI.postCons h
    exact ⟨get?_set_isSome _ _ _ _ h1, get?_set_isSome _ _ _ _ h2⟩
  · obtain ⟨h1, h2, h3⟩ := hI.noExt
    obtain ⟨n1, n2, n3⟩ := not_cache_ext
    refine ⟨?_, ?_, ?_⟩
    · rw [get?_set_ne]; exact h1
      intro h'; rw [h', hc] at n1; cases n1
    · rw [get?_set_ne]; exact h2
      intro h'; rw [h', hc] at n2; cases n2
    · rw [get?_set_ne]; exact h3
      intro h'; rw [h', hc] at n3; cases n3

/-! ### the body state -/

theorem spBody_cached (cfg : Cfg) (s : RS) (b : Val) (h : s.env.get? kBody = some b) : spBody cfg s = (.ok b, s) := by
  simp [spBody, cacheIn, h]

/-- a getter under `cacheIn` that succeeded left its value under the key -/
theorem cacheIn_ok_get (k : Key) (g : M Val) (s s' : RS) (b : Val) (h : cacheIn k g s = (.ok b, s')) :
    s'.env.get? k = some b := by
  unfold cacheIn at h
  split at h
  · rename_i v hv
    cases h; exact hv
  · split at h
    · cases h; simp [get?_set_self]
    · cases h

theorem spBody_ok_get (cfg : Cfg) (s s' : RS) (b : Val) (h : spBody cfg s = (.ok b, s')) : s'.env.get? kBody = some b :=
  cacheIn_ok_get kBody _ s s' b h

/-- what `bodyPre` / `bodyPost` do to the environ: only `wsgi.input`, the buffered body and the
remembered error change -/
def SameOutsideBody (e e' : Env) : Prop := ∀ c, c ∉ bodyKeys → e'.get? c = e.get? c

theorem SameOutsideBody.refl (e : Env) : SameOutsideBody e e := fun _ _ => rfl

theorem SameOutsideBody.set (e : Env) (k : Key) (v : Val) (hk : k ∈ bodyKeys) : SameOutsideBody e (e.set k v) :=
  fun c hc => get?_set_ne _ _ _ _ (fun h => hc (h ▸ hk))

theorem SameOutsideBody.trans {e e' e'' : Env} (h1 : SameOutsideBody e e') (h2 : SameOutsideBody e' e'') :
    SameOutsideBody e e'' := fun c hc => (h2 c hc).trans (h1 c hc)

theorem bodyPre_same (cfg : Cfg) (s : RS) (r : Except Exc Val) (s' : RS) (h : bodyPre cfg s = .inl (r, s')) :
    SameOutsideBody s.env s'.env ∧ s'.heap = s.heap ∧ s'.self = s.self := by
  unfold bodyPre at h
  split at h
  · cases h; exact ⟨SameOutsideBody.refl _, rfl, rfl⟩
  · cases h; exact ⟨SameOutsideBody.refl _, rfl, rfl⟩
  · split at h
    · cases h; exact ⟨SameOutsideBody.set _ _ _ (by simp [bodyKeys]), rfl, rfl⟩
    · split at h
      · cases h; exact ⟨SameOutsideBody.refl _, rfl, rfl⟩
      · cases h
      · cases h; exact ⟨SameOutsideBody.refl _, rfl, rfl⟩

theorem bodyPost_same (cfg : Cfg) (id : Nat) (cl : Int) (s : RS) :
    SameOutsideBody s.env (bodyPost cfg id cl s).2.env ∧ (bodyPost cfg id cl s).2.self = s.self := by
  unfold bodyPost
  split
  · split
    · exact ⟨SameOutsideBody.set _ _ _ (by simp [bodyKeys]), rfl⟩
    · exact ⟨SameOutsideBody.refl _, rfl⟩
  · exact ⟨SameOutsideBody.set _ _ _ (by simp [bodyKeys]), rfl⟩

theorem cacheIn_same (k : Key) (hk : k ∈ bodyKeys) (g : M Val)
    (hg : ∀ s, SameOutsideBody s.env (g s).2.env ∧ (g s).2.self = s.self) (s : RS) :
    SameOutsideBody s.env (cacheIn k g s).2.env ∧ (cacheIn k g s).2.self = s.self := by
  unfold cacheIn
  cases s.env.get? k with
  | some v => exact ⟨SameOutsideBody.refl _, rfl⟩
  | none =>
    obtain ⟨h1, h2⟩ := hg s
    rcases hgs : g s with ⟨r, s'⟩
    rw [hgs] at h1 h2
    cases r with
    | ok v => exact ⟨h1.trans (SameOutsideBody.set _ _ _ hk), h2⟩
    | error e => exact ⟨h1, h2⟩

theorem spBody_same (cfg : Cfg) (s : RS) :
    SameOutsideBody s.env (spBody cfg s).2.env ∧ (spBody cfg s).2.self = s.self := by
  unfold spBody
  apply cacheIn_same kBody (by simp [bodyKeys])
  intro s
  rcases hpre : bodyPre cfg s with ⟨r, s'⟩ | id
  · obtain ⟨a1, -, a3⟩ := bodyPre_same cfg s r s' hpre
    exact ⟨a1, a3⟩
  · simp only
    cases contentLengthOf s.env with
    | error e => exact ⟨SameOutsideBody.refl _, rfl⟩
    | ok v =>
      simp only
      cases asInt v with
      | error e => exact ⟨SameOutsideBody.refl _, rfl⟩
      | ok cl => exact bodyPost_same cfg id cl s

theorem SameOutsideBody.str? {e e' : Env} (h : SameOutsideBody e e') (c : Key) (hc : c ∉ bodyKeys) :
    e'.str? c = e.str? c := by simp [Env.str?, h c hc]

/-- a function of listed WSGI strings does not see a change of the body state -/
theorem ReadsOnly.sameOutside {β} {ks : List Key} {f : Env → β} (hf : ReadsOnly ks f) (hk : ∀ k ∈ ks, k ∉ bodyKeys)
    {e e' : Env} (h : SameOutsideBody e e') : f e' = f e :=
  hf e' e fun k hkm => h.str? k (hk k hkm)

/-! ### from a cached value to the reference answer and back -/

theorem spec_of_cachedOK (cfg : Cfg) (L : Lib) (p : Prop') (hs : desc cfg L p ≠ .special) (e : Env) (v : Val)
    (h : CachedOK cfg L p e v) (hp : Heap) (i : Nat) :
    specRead cfg L p ⟨hp, erase e, i⟩ = (.ok v, ⟨hp, erase e, i⟩) := by
  have h' := (CachedOK_erase cfg L p e v).mp h
  unfold CachedOK at h'
  unfold specRead
  cases hd : desc cfg L p with
  | special => exact absurd hd hs
  | pure r f =>
    rw [hd] at h'
    simp only at h' ⊢
    rw [h']
  | viaBody r need k0 k =>
    rw [hd] at h'
    simp only at h' ⊢
    unfold viaBody
    simp only
    split
    · rename_i hn
      rw [if_pos hn] at h'
      obtain ⟨sk, ct, h1, h2⟩ := h'
      rw [spBody_cached cfg _ _ h1]
      simp only [asBody, h2]
    · rename_i hn
      rw [if_neg hn] at h'
      rw [h']

/-- if the reference, started on the erased state of `s`, answers `v` and ends in the erased state
of `s'`, then `v` is what the reference computes from `s'` -/
theorem cachedOK_of_spec (cfg : Cfg) (L : Lib) (p : Prop') (hs : desc cfg L p ≠ .special) (s s' : RS) (v : Val)
    (h : specRead cfg L p (A s) = (.ok v, A s')) : CachedOK cfg L p s'.env v := by
  rw [CachedOK_erase]
  have ok := desc_ok cfg L p
  unfold CachedOK
  unfold specRead at h
  cases hd : desc cfg L p with
  | special => exact absurd hd hs
  | pure r f =>
    rw [hd] at h ok
    simp only [DescOK] at ok
    simp only at h ⊢
    have h1 : f (erase s.env) = .ok v := by simpa [A] using congrArg Prod.fst h
    have h2 : erase s.env = erase s'.env := by simpa [A] using congrArg (fun x => x.2.env) h
    rw [← h2]; exact h1
  | viaBody r need k0 k =>
    rw [hd] at h ok
    simp only [DescOK] at ok
    obtain ⟨o1, o2, o3, o4⟩ := ok
    simp only at h ⊢
    unfold viaBody at h
    by_cases hn : need (A s).env = true
    · rw [if_pos hn] at h
      simp only [A_env] at hn
      rcases hb : spBody cfg (A s) with ⟨rb, t⟩
      rw [hb] at h
      cases rb with
      | error x => simp at h
      | ok b =>
        simp only at h
        cases hab : asBody b with
        | error x => rw [hab] at h; simp at h
        | ok skct =>
          obtain ⟨sk, ct⟩ := skct
          rw [hab] at h
          simp only [Prod.mk.injEq] at h
          obtain ⟨hk, ht⟩ := h
          subst ht
          have hget := spBody_ok_get cfg _ _ _ hb
          have hsame := (spBody_same cfg (A s)).1
          rw [hb] at hsame
          simp only [A_env] at hsame hget
          have hneed : need (erase s'.env) = need (erase s.env) :=
            o1.sameOutside (fun k hk => (o4 k hk).2) hsame
          rw [hneed, if_pos hn]
          have hbv : b = .body sk ct := by
            cases b <;> simp [asBody] at hab
            obtain ⟨rfl, rfl⟩ := hab; rfl
          exact ⟨sk, ct, by rw [hget, hbv], hk⟩
    · rw [if_neg hn] at h
      simp only [A_env] at hn
      simp only [Prod.mk.injEq, A_env] at h
      obtain ⟨hk, ht⟩ := h
      have h2 : erase s.env = erase s'.env := by simpa [A] using congrArg (fun x => x.env) ht
      rw [← h2, if_neg hn]; exact hk

/-! ### the decorator -/

theorem cacheIn_sim' (cfg : Cfg) (L : Lib) (p : Prop') (hs : desc cfg L p ≠ .special)
    (g : M Val) (s : RS) (hI : Inv cfg L s.env)
    (hp : p = .post → ∀ v s1, g s = (.ok v, s1) → s1.env.get? kForms ≠ none ∧ s1.env.get? kFiles ≠ none)
    (hg : s.env.get? p.key = none → Sim cfg L g (specRead cfg L p) s) :
    Sim cfg L (cacheIn p.key g) (specRead cfg L p) s := by
  have hck : isCacheKey p.key = true := by
    apply isCacheKey_key <;> (intro h; subst h; exact hs rfl)
  unfold Sim
  cases hc : s.env.get? p.key with
  | some v =>
    have := spec_of_cachedOK cfg L p hs s.env v (hI.cached p v hc) s.heap s.self
    have hA : A s = ⟨s.heap, erase s.env, s.self⟩ := rfl
    refine ⟨?_, ?_, ?_⟩
    · rw [hA, this]; simp only [cacheIn, hc]
    · rw [hA, this]; simp only [cacheIn, hc]; rfl
    · simp only [cacheIn, hc]; exact hI
  | none =>
    obtain ⟨g1, g2, g3⟩ := hg hc
    rcases hgs : g s with ⟨r, s1⟩
    rw [hgs] at g1 g2 g3
    simp only at g1 g2 g3
    cases r with
    | error x =>
      simp only [cacheIn, hc, hgs]
      exact ⟨g1, g2, g3⟩
    | ok v =>
      simp only [cacheIn, hc, hgs]
      have hspec : specRead cfg L p (A s) = (.ok v, A s1) := by
        rw [g2]; exact Prod.ext g1.symm rfl
      refine ⟨g1, ?_, ?_⟩
      · rw [← g2]; simp [A, erase_set_cache _ _ _ hck]
      · exact g3.store p v hck (fun h => hp h v s1 hgs) (cachedOK_of_spec cfg L p hs s s1 v hspec)

theorem cacheIn_sim (cfg : Cfg) (L : Lib) (p : Prop') (hs : desc cfg L p ≠ .special) (hp : p ≠ .post)
    (g : M Val) (s : RS) (hI : Inv cfg L s.env)
    (hg : s.env.get? p.key = none → Sim cfg L g (specRead cfg L p) s) :
    Sim cfg L (cacheIn p.key g) (specRead cfg L p) s :=
  cacheIn_sim' cfg L p hs g s hI (fun h => absurd h hp) hg

end Ombott.EnvCache
