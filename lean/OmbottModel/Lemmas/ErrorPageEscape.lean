import OmbottModel.Model.ErrorPageSpec
/-! Escaped text is tokenised; tokenised text is inert (C20). -/
namespace Ombott.ErrorPage
open Py

theorem Tokenized.nil : Tokenized [] := ⟨[], rfl, by simp⟩

theorem Tokenized.append {a b : Str} (ha : Tokenized a) (hb : Tokenized b) : Tokenized (a ++ b) := by
  obtain ⟨ta, rfl, hta⟩ := ha
  obtain ⟨tb, rfl, htb⟩ := hb
  refine ⟨ta ++ tb, by simp, ?_⟩
  intro tok h
  rcases List.mem_append.mp h with h | h
  · exact hta tok h
  · exact htb tok h

theorem Tokenized.tok {t : Str} (h : IsTok t) : Tokenized t :=
  ⟨[t], by simp, by simpa using h⟩

theorem Tokenized.flatMap {α} (f : α → Str) (l : List α) (h : ∀ x ∈ l, Tokenized (f x)) :
    Tokenized (l.flatMap f) := by
  induction l with
  | nil => exact Tokenized.nil
  | cons x xs ih =>
    rw [List.flatMap_cons]
    exact Tokenized.append (h x (by simp)) (ih fun y hy => h y (by simp [hy]))

/-- the facts about the entity list that the inertness argument uses (checked by evaluation) -/
theorem entities_shape0 : ∀ ent ∈ entities, (ent.head? = some '&' ∧ '&' ∉ ent.tail) ∧
    ∀ c ∈ ent, c ≠ '<' ∧ c ≠ '>' ∧ c ≠ '"' ∧ c ≠ '\'' := by decide

theorem entities_shape : ∀ ent ∈ entities, (∃ r, ent = '&' :: r ∧ '&' ∉ r) ∧
    ∀ c ∈ ent, c ≠ '<' ∧ c ≠ '>' ∧ c ≠ '"' ∧ c ≠ '\'' := by
  intro ent he
  obtain ⟨⟨h1, h2⟩, h3⟩ := entities_shape0 ent he
  refine ⟨?_, h3⟩
  cases ent with
  | nil => simp at h1
  | cons a r =>
    simp only [List.head?_cons, Option.some.injEq] at h1
    subst h1
    exact ⟨r, rfl, h2⟩

theorem tokenized_chars {t : Str} (h : Tokenized t) :
    ∀ c ∈ t, c ≠ '<' ∧ c ≠ '>' ∧ c ≠ '"' ∧ c ≠ '\'' := by
  obtain ⟨toks, rfl, ht⟩ := h
  intro c hc
  obtain ⟨tok, htok, hct⟩ := List.mem_flatten.mp hc
  rcases ht tok htok with he | ⟨d, rfl, hd⟩
  · exact (entities_shape tok he).2 c hct
  · simp only [List.mem_singleton] at hct
    subst hct
    simp only [special, List.mem_cons, List.not_mem_nil, or_false, not_or] at hd
    exact ⟨hd.1, hd.2.1, hd.2.2.1, hd.2.2.2.1⟩

theorem tokenized_amp {t : Str} (h : Tokenized t) :
    ∀ pre suf, t = pre ++ '&' :: suf → ∃ ent ∈ entities, ent <+: '&' :: suf := by
  obtain ⟨toks, rfl, ht⟩ := h
  induction toks with
  | nil => intro pre suf h; simp at h
  | cons tok rest ih =>
    intro pre suf h
    rw [List.flatten_cons] at h
    have ih' := ih (fun t' ht' => ht t' (by simp [ht']))
    rcases List.append_eq_append_iff.mp h with ⟨a', hpre, hrest⟩ | ⟨c', htok, hsuf⟩
    · -- the & lies in the rest
      exact ih' a' suf hrest
    · cases c' with
      | nil =>
        simp only [List.nil_append] at hsuf
        exact ih' [] suf (by simpa using hsuf.symm)
      | cons x c'' =>
        simp only [List.cons_append, List.cons.injEq] at hsuf
        obtain ⟨rfl, hsuf⟩ := hsuf
        -- tok = pre ++ '&' :: c''
        rcases ht tok (by simp) with he | ⟨d, hd, hds⟩
        · obtain ⟨⟨r, hr, hnr⟩, _⟩ := entities_shape tok he
          have hp : pre = [] := by
            cases pre with
            | nil => rfl
            | cons p ps =>
              rw [hr] at htok
              simp only [List.cons_append, List.cons.injEq] at htok
              obtain ⟨_, htok⟩ := htok
              exact absurd (by rw [htok]; simp) hnr
          subst hp
          refine ⟨tok, he, ?_⟩
          simp only [List.nil_append] at htok
          rw [htok, hsuf]
          exact ⟨rest.flatten, by simp⟩
        · exfalso
          rw [hd] at htok
          cases pre with
          | nil =>
            simp only [List.nil_append, List.cons.injEq] at htok
            obtain ⟨rfl, _⟩ := htok
            exact hds (by simp [special])
          | cons p ps =>
            simp only [List.cons_append, List.cons.injEq] at htok
            obtain ⟨_, htok⟩ := htok
            cases ps <;> simp at htok

/-- tokenised text is inert -/
theorem Tokenized.inert {t : Str} (h : Tokenized t) : Inert t :=
  ⟨tokenized_chars h, tokenized_amp h⟩

/-! ### the escapers -/

/-- what the theorems need from a replacement table: every special character has a replacement
and every replacement is one of the entities (decidable; evaluated on the generated tables) -/
def PairsOK (pairs : List (Char × Str)) : Bool :=
  special.all (fun m => (pairs.lookup m).isSome) && pairs.all (fun p => entities.contains p.2)

theorem lookup_mem {pairs : List (Char × Str)} {c : Char} {r : Str} (h : pairs.lookup c = some r) :
    (c, r) ∈ pairs := by
  induction pairs with
  | nil => simp at h
  | cons p ps ih =>
    obtain ⟨a, b⟩ := p
    simp only [List.lookup_cons] at h
    split at h
    · rename_i heq
      simp only [beq_iff_eq] at heq
      simp only [Option.some.injEq] at h
      subst heq; subst h
      simp
    · exact List.mem_cons_of_mem _ (ih h)

theorem escapeWith_tokenized (pairs : List (Char × Str)) (hp : PairsOK pairs = true) (s : Str) :
    Tokenized (escapeWith pairs s) := by
  simp only [PairsOK, Bool.and_eq_true, List.all_eq_true] at hp
  obtain ⟨hsp, hent⟩ := hp
  unfold escapeWith
  apply Tokenized.flatMap
  intro c _
  cases hl : pairs.lookup c with
  | none =>
    simp only [Option.getD_none]
    apply Tokenized.tok
    refine Or.inr ⟨c, rfl, ?_⟩
    intro hc
    have := hsp c hc
    rw [hl] at this
    simp at this
  | some r =>
    simp only [Option.getD_some]
    apply Tokenized.tok
    refine Or.inl ?_
    have := hent (c, r) (lookup_mem hl)
    simpa using this

end Ombott.ErrorPage

namespace Ombott.ErrorPage
open Py

/-! ### escaped text reads back as the original -/

theorem matchEntity_append (ent : Str) (c : Char) (rest : Str) (h : matchEntity ent = some (c, [])) :
    matchEntity (ent ++ rest) = some (c, rest) := by
  unfold matchEntity at h
  split at h <;> simp only [Option.some.injEq, Prod.mk.injEq, reduceCtorEq] at h <;>
    (obtain ⟨rfl, rfl⟩ := h; rfl)

/-- every replacement of the table is a reference an HTML parser decodes to the replaced
character (decidable; evaluated on the generated tables) -/
def PairsDecode (pairs : List (Char × Str)) : Bool :=
  pairs.all fun p => matchEntity p.2 == some (p.1, [])

theorem htmlData_escapeWith (pairs : List (Char × Str)) (hp : PairsOK pairs = true)
    (hd : PairsDecode pairs = true) (s : Str) (fuel : Nat) (hf : s.length ≤ fuel) :
    htmlData fuel (escapeWith pairs s) = some s := by
  induction s generalizing fuel with
  | nil => cases fuel <;> rfl
  | cons c cs ih =>
    cases fuel with
    | zero => simp at hf
    | succ f =>
      have hf' : cs.length ≤ f := by simp only [List.length_cons] at hf; omega
      have hstep : escapeWith pairs (c :: cs) = (pairs.lookup c).getD [c] ++ escapeWith pairs cs := by
        simp [escapeWith]
      rw [hstep]
      simp only [PairsOK, Bool.and_eq_true, List.all_eq_true] at hp
      cases hl : pairs.lookup c with
      | none =>
        have hns : c ∉ special := by
          intro hc
          have := hp.1 c hc
          rw [hl] at this
          simp at this
        have h1 : (c == '&') = false := by
          rw [beq_eq_false_iff_ne]; rintro rfl; exact hns (by decide)
        have h2 : (c == '<') = false := by
          rw [beq_eq_false_iff_ne]; rintro rfl; exact hns (by decide)
        simp only [Option.getD_none, List.cons_append, List.nil_append, htmlData, h1, h2,
          Bool.false_eq_true, if_false, ih f hf']
        rfl
      | some r =>
        have hmem := lookup_mem hl
        have hent : r ∈ entities := by
          have := hp.2 (c, r) hmem
          simpa using this
        obtain ⟨⟨r', hr', _⟩, _⟩ := entities_shape r hent
        simp only [PairsDecode, List.all_eq_true, beq_iff_eq] at hd
        have hm := matchEntity_append r c (escapeWith pairs cs) (hd (c, r) hmem)
        simp only [Option.getD_some]
        rw [hr'] at hm ⊢
        simp only [List.cons_append] at hm ⊢
        simp only [htmlData, beq_self_eq_true, if_true, hm, ih f hf']
        rfl

theorem escapeWith_length (pairs : List (Char × Str)) (hp : PairsOK pairs = true) (s : Str) :
    s.length ≤ (escapeWith pairs s).length := by
  induction s with
  | nil => simp [escapeWith]
  | cons c cs ih =>
    have hstep : escapeWith pairs (c :: cs) = (pairs.lookup c).getD [c] ++ escapeWith pairs cs := by
      simp [escapeWith]
    rw [hstep, List.length_append, List.length_cons]
    have : 1 ≤ ((pairs.lookup c).getD [c]).length := by
      cases hl : pairs.lookup c with
      | none => simp
      | some r =>
        simp only [PairsOK, Bool.and_eq_true, List.all_eq_true] at hp
        have hent : r ∈ entities := by
          have := hp.2 (c, r) (lookup_mem hl)
          simpa using this
        obtain ⟨⟨r', hr', _⟩, _⟩ := entities_shape r hent
        simp [hr']
    omega

theorem htmlText_escapeWith (pairs : List (Char × Str)) (hp : PairsOK pairs = true)
    (hd : PairsDecode pairs = true) (s : Str) : htmlText (escapeWith pairs s) = some s :=
  htmlData_escapeWith pairs hp hd s _ (escapeWith_length pairs hp s)

end Ombott.ErrorPage
