import OmbottModel.Model.ErrorPageSpec
/-! Escaped text is tokenised; tokenised text is inert (C20). -/
namespace Ombott.ErrorPage
open Py

theorem Tokenized.nil : Tokenized [] := ⟨[], rfl, by simp⟩

theorem Tokenized.append {a b : Str} (ha : Tokenized a) (hb : Tokenized b) : Tokenized (a ++ b) := by
  obtain ⟨ta, rfl, hta⟩ := ha
  obtain ⟨tb, rfl, htb⟩ := hb
  refine ⟨ta ++ tb, by simp, ?_⟩
  intro tok h
  rcases List.mem_append.mp h with h | h
  · exact hta tok h
  · exact htb tok h

theorem Tokenized.tok {t : Str} (h : IsTok t) : Tokenized t :=
  ⟨[t], by simp, by simpa using h⟩

theorem Tokenized.flatMap {α} (f : α → Str) (l : List α) (h : ∀ x ∈ l, Tokenized (f x)) :
    Tokenized (l.flatMap f) := by
  induction l with
  | nil => exact Tokenized.nil
  | cons x xs ih =>
    rw [List.flatMap_cons]
    exact Tokenized.append (h x (by simp)) (ih fun y hy => h y (by simp [hy]))

/-- the facts about the entity list that the inertness argument uses (checked by evaluation) -/
theorem entities_shape0 : ∀ ent ∈ entities, (ent.head? = some '&' ∧ '&' ∉ ent.tail) ∧
    ∀ c ∈ ent, c ≠ '<' ∧ c ≠ '>' ∧ c ≠ '"' ∧ c ≠ '\'' := by decide

theorem entities_shape : ∀ ent ∈ entities, (∃ r, ent = '&' :: r ∧ '&' ∉ r) ∧
    ∀ c ∈ ent, c ≠ '<' ∧ c ≠ '>' ∧ c ≠ '"' ∧ c ≠ '\'' := by
  intro ent he
  obtain ⟨⟨h1, h2⟩, h3⟩ := entities_shape0 ent he
  refine ⟨?_, h3⟩
  cases ent with
  | nil => simp at h1
  | cons a r =>
    simp only [List.head?_cons, Option.some.injEq] at h1
    subst h1
    exact ⟨r, rfl, h2⟩

theorem tokenized_chars {t : Str} (h : Tokenized t) :
    ∀ c ∈ t, c ≠ '<' ∧ c ≠ '>' ∧ c ≠ '"' ∧ c ≠ '\'' := by
  obtain ⟨toks, rfl, ht⟩ := h
  intro c hc
  obtain ⟨tok, htok, hct⟩ := List.mem_flatten.mp hc
  rcases ht tok htok with he | ⟨d, rfl, hd⟩
  · exact (entities_shape tok he).2 c hct
  · simp only [List.mem_singleton] at hct
    subst hct
    simp only [special, List.mem_cons, List.not_mem_nil, or_false, not_or] at hd
    exact ⟨hd.1, hd.2.1, hd.2.2.1, hd.2.2.2.1⟩

theorem tokenized_amp {t : Str} (h : Tokenized t) :
    ∀ pre suf, t = pre ++ '&' :: suf → ∃ ent ∈ entities, ent <+: '&' :: suf := by
  obtain ⟨toks, rfl, ht⟩ := h
  induction toks with
  | nil => intro pre suf h; simp at h
  | cons tok rest ih =>
    intro pre suf h
    rw [List.flatten_cons] at h
    have ih' := ih (fun t' ht' => ht t' (by simp [ht']))
    rcases List.append_eq_append_iff.mp h with ⟨a', hpre, hrest⟩ | ⟨c', htok, hsuf⟩
    · -- the & lies in the rest
      exact ih' a' suf hrest
    · cases c' with
      | nil =>
        simp only [List.nil_append] at hsuf
        exact ih' [] suf (by simpa using hsuf.symm)
      | cons x c'' =>
        simp only [List.cons_append, List.cons.injEq] at hsuf
        obtain ⟨rfl, hsuf⟩ := hsuf
        -- tok = pre ++ '&' :: c''
        rcases ht tok (by simp) with he | ⟨d, hd, hds⟩
        · obtain ⟨⟨r, hr, hnr⟩, _⟩ := entities_shape tok he
          have hp : pre = [] := by
            cases pre with
            | nil => rfl
            | cons p ps =>
              rw [hr] at htok
              simp only [List.cons_append, List.cons.injEq] at htok
              obtain ⟨_, htok⟩ := htok
              exact absurd (by rw [htok]; simp) hnr
          subst hp
          refine ⟨tok, he, ?_⟩
          simp only [List.nil_append] at htok
          rw [htok, hsuf]
          exact ⟨rest.flatten, by simp⟩
        · exfalso
          rw [hd] at htok
          cases pre with
          | nil =>
            simp only [List.nil_append, List.cons.injEq] at htok
            obtain ⟨rfl, _⟩ := htok
            exact hds (by simp [special])
          | cons p ps =>
            simp only [List.cons_append, List.cons.injEq] at htok
            obtain ⟨_, htok⟩ := htok
            cases ps <;> simp at htok

/-- tokenised text is inert -/
theorem Tokenized.inert {t : Str} (h : Tokenized t) : Inert t :=
  ⟨tokenized_chars h, tokenized_amp h⟩

/-! ### the escapers -/

/-- what the theorems need from a replacement table: every special character has a replacement
and every replacement is one of the entities (decidable; evaluated on the generated tables) -/
def PairsOK (pairs : List (Char × Str)) : Bool :=
  special.all (fun m => (pairs.lookup m).isSome) && pairs.all (fun p => entities.contains p.2)

theorem lookup_mem {pairs : List (Char × Str)} {c : Char} {r : Str} (h : pairs.lookup c = some r) :
    (c, r) ∈ pairs := by
  induction pairs with
  | nil => simp at h
  | cons p ps ih =>
    obtain ⟨a, b⟩ := p
    simp only [List.lookup_cons] at h
    split at h
    · rename_i heq
      simp only [beq_iff_eq] at heq
      simp only [Option.some.injEq] at h
      subst heq; subst h
      simp
    · exact List.mem_cons_of_mem _ (ih h)

theorem escapeWith_tokenized (pairs : List (Char × Str)) (hp : PairsOK pairs = true) (s : Str) :
    Tokenized (escapeWith pairs s) := by
  simp only [PairsOK, Bool.and_eq_true, List.all_eq_true] at hp
  obtain ⟨hsp, hent⟩ := hp
  unfold escapeWith
  apply Tokenized.flatMap
  intro c _
  cases hl : pairs.lookup c with
  | none =>
    simp only [Option.getD_none]
    apply Tokenized.tok
    refine Or.inr ⟨c, rfl, ?_⟩
    intro hc
    have := hsp c hc
    rw [hl] at this
    simp at this
  | some r =>
    simp only [Option.getD_some]
    apply Tokenized.tok
    refine Or.inl ?_
    have := hent (c, r) (lookup_mem hl)
    simpa using this

end Ombott.ErrorPage
