import OmbottModel.Model.App
import OmbottModel.Model.WsgiSpec
import OmbottModel.Lemmas.Headers
import OmbottModel.Lemmas.WsgiInv
/-!
Seam `Model/Wsgi.headerlist` ↔ `Model/Headers.headerlist`: the two descriptions of
`BaseResponse.headerlist` agree on every response object of `Model/Wsgi` (`App.headersView` is the
translation); where `Model/Wsgi` says "raises" (a lone surrogate among the kept values),
`Model/Headers` has no word (lone surrogates are outside `Char`).
-/
namespace Ombott.App
open Py Ombott

/-- both models spell `val.encode('utf8').decode('latin1')` the same way -/
theorem recodeLatin1_eq_transcode (s : Str) : recodeLatin1 s = transcode s := rfl

theorem toLower_of_lower (c : Char) (h : isAsciiLower c = true) : c.toLower = c := by
  simp only [isAsciiLower, Bool.and_eq_true, decide_eq_true_eq] at h
  have h1 : 97 ≤ c.toNat := h.1
  unfold Char.toLower
  split
  · rename_i hc
    exfalso
    have : c.toNat ≤ 90 := hc.2
    omega
  · rfl

theorem toUpper_of_upper (c : Char) (h : isAsciiUpper c = true) : c.toUpper = c := by
  simp only [isAsciiUpper, Bool.and_eq_true, decide_eq_true_eq] at h
  have h1 : c.toNat ≤ 90 := h.2
  unfold Char.toUpper
  split
  · rename_i hc
    exfalso
    have : 97 ≤ c.toNat := hc.1
    omega
  · rfl

theorem alpha_split (c : Char) : wsgiIsAsciiAlpha c = (isAsciiLower c || isAsciiUpper c) := rfl

theorem lower_not_upper (c : Char) (h : isAsciiLower c = true) : isAsciiUpper c = false := by
  simp only [isAsciiLower, Bool.and_eq_true, decide_eq_true_eq] at h
  have h1 : 97 ≤ c.toNat := h.1
  simp only [isAsciiUpper, Bool.and_eq_false_iff, decide_eq_false_iff_not]
  right
  intro h2
  have : c.toNat ≤ 90 := h2
  omega

theorem titleGo_agree (s : Str) (b : Bool) : wsgiTitleGo b s = titleGo s b := by
  induction s generalizing b with
  | nil => rfl
  | cons c cs ih =>
    unfold wsgiTitleGo titleGo
    rw [alpha_split]
    by_cases hl : isAsciiLower c = true
    · simp only [hl, Bool.true_or, if_true, ih]
      cases b
      · rfl
      · simp only [if_true, toLower_of_lower c hl]
    · simp only [hl, Bool.false_or, Bool.false_eq_true, if_false]
      by_cases hu : isAsciiUpper c = true
      · simp only [hu, if_true, ih]
        cases b
        · simp only [Bool.false_eq_true, if_false, toUpper_of_upper c hu]
        · rfl
      · simp only [hu, Bool.false_eq_true, if_false, ih]

/-- the two `str.title()` of the models are the same function -/
theorem titleAscii_eq_title (s : Str) : titleAscii s = title s := titleGo_agree s false

/-- the two generated per-status blacklists and default content types are the same tables -/
theorem header_tables_agree :
    Gen.wsgiBadHeaders = Gen.badHeaders ∧ Gen.wsgiDefaultContentType = Gen.defaultContentType := by
  constructor <;> decide

theorem map_toList_isEmpty (l : List String) : (l.map String.toList).isEmpty = l.isEmpty := by
  cases l <;> rfl

/-- `bad_headers.get(code)` in both spellings -/
theorem badHeadersFor_eq (code : Nat) :
    Wsgi.badHeadersFor code = (Headers.badFor (some code)).getD [] ∧
    (Wsgi.badHeadersFor code).isEmpty = (Headers.badFor (some code)).isNone := by
  unfold Wsgi.badHeadersFor Headers.badFor
  rw [header_tables_agree.1]
  simp only
  cases hf : Gen.badHeaders.find? (·.1 == code) with
  | none => exact ⟨rfl, rfl⟩
  | some p =>
    obtain ⟨c, names⟩ := p
    simp only [Option.map_some, Option.getD_some]
    cases names with
    | nil => exact ⟨rfl, rfl⟩
    | cons n ns => exact ⟨rfl, rfl⟩

theorem toEntry_vals (l : List Str) : (toEntry l).vals = l := by
  unfold toEntry
  split <;> rfl

theorem filter_map_key {α β} (p : Str → Bool) (f : Str × α → β) (l : List (Str × α)) :
    (l.map fun h => (h.1, f h)).filter (fun h => p h.1) = (l.filter fun h => p h.1).map fun h => (h.1, f h) := by
  induction l with
  | nil => rfl
  | cons x xs ih =>
    simp only [List.map_cons, List.filter_cons]
    split <;> simp [ih]

/-- the headers that pass the blacklist, in both models -/
theorem visible_view (st : Wsgi.RState) :
    Headers.visible (headersView st) =
      (Wsgi.keptHeaders st).map fun h => (h.1, toEntry (goodVals h.2)) := by
  obtain ⟨hb, he⟩ := badHeadersFor_eq st.code
  unfold Headers.visible Wsgi.keptHeaders headersView
  simp only
  cases hbf : Headers.badFor (some st.code) with
  | none =>
    rw [hbf] at he
    simp only [he, Option.isNone_none, if_true]
  | some bad =>
    rw [hbf] at he hb
    simp only [Option.isNone_some] at he
    simp only [Option.getD_some] at hb
    rw [hb] at he
    simp only [hb, he, Bool.false_eq_true, if_false]
    rw [filter_map_key (fun k => !(bad.contains (title k))) (fun h => toEntry (goodVals h.2)) st.headers]
    congr 1
    apply List.filter_congr
    intro h _
    rw [titleAscii_eq_title]

theorem filterMap_emit (k : Str) (vs : List Wsgi.HVal) :
    (vs.map fun v => (k, v)).filterMap Wsgi.emitPair = (goodVals vs).map fun v => (k, transcode v) := by
  induction vs with
  | nil => rfl
  | cons v r ih =>
    cases v with
    | good w =>
      simp only [List.map_cons, List.filterMap_cons, Wsgi.emitPair, goodVals, List.map_cons] at ih ⊢
      rw [ih]
      rfl
    | bad =>
      simp only [List.map_cons, List.filterMap_cons, Wsgi.emitPair, goodVals] at ih ⊢
      exact ih

/-- the part of the header list that comes from the store, in both models -/
theorem storePart_view (st : Wsgi.RState) :
    (Wsgi.flatHeaders st).filterMap Wsgi.emitPair = Headers.storePart (headersView st) := by
  unfold Headers.storePart Wsgi.flatHeaders
  rw [visible_view]
  generalize Wsgi.keptHeaders st = kept
  induction kept with
  | nil => rfl
  | cons h r ih =>
    simp only [List.flatMap_cons, List.filterMap_append, List.map_cons, ih, toEntry_vals]
    rw [filterMap_emit]

theorem has_view (st : Wsgi.RState) (k : Str) :
    (headersView st).store.any (·.1 == k) = st.headers.has k := by
  unfold headersView Wsgi.Hdrs.has
  simp only [List.any_map]
  rfl

theorem ctypePart_view (st : Wsgi.RState) :
    (if Wsgi.needCtype st then [("Content-Type".toList, Gen.wsgiDefaultContentType.toList)] else []) =
      Headers.ctypePart (headersView st) := by
  obtain ⟨_, he⟩ := badHeadersFor_eq st.code
  unfold Headers.ctypePart Headers.needCtype Wsgi.needCtype
  rw [header_tables_agree.2, has_view]
  have hs : (headersView st).status = some st.code := rfl
  rw [hs, he]
  cases Headers.badFor (some st.code) <;> rfl

theorem cookiePart_view (st : Wsgi.RState) :
    (st.cookies.map fun c => ("Set-Cookie".toList, recodeLatin1 (c.1 ++ '=' :: c.2))) =
      Headers.cookiePart (headersView st) := by
  unfold Headers.cookiePart headersView
  simp only [List.map_map]
  rfl

/-- **`wsgi_headers_refine_headers_model`** — `BaseResponse.headerlist` as `Model/Wsgi` computes
it is, whenever it does not raise, the list `Model/Headers` computes for the same response object
(store part with blacklist and transcoding, default `Content-Type`, cookies, in this order). -/
theorem wsgi_headers_refine_headers_model (st : Wsgi.RState) :
    Wsgi.headerlist st =
      if (Wsgi.flatHeaders st).any (fun p => p.2 == .bad) then none
      else some (Headers.headerlist (headersView st)) := by
  unfold Wsgi.headerlist Headers.headerlist
  rw [storePart_view, ctypePart_view, cookiePart_view]

theorem wsgi_headerlist_eq (st : Wsgi.RState) (hl : List (Str × Str)) (h : Wsgi.headerlist st = some hl) :
    hl = Headers.headerlist (headersView st) := by
  rw [wsgi_headers_refine_headers_model] at h
  split at h
  · cases h
  · exact (Option.some.inj h).symm

theorem hvalOk_clean (v : Str) (h : Wsgi.hvalOk v = true) : Headers.Clean v := by
  unfold Headers.Clean Headers.hasCtl
  unfold Wsgi.hvalOk at h
  have h0 : (Char.ofNat 0) = '\x00' := by decide
  rw [h0] at h
  simpa using h

theorem mem_goodVals {vs : List Wsgi.HVal} {v : Str} (h : v ∈ goodVals vs) : Wsgi.HVal.good v ∈ vs := by
  unfold goodVals at h
  simp only [List.mem_filterMap] at h
  obtain ⟨x, hx, hv⟩ := h
  cases x with
  | good w => simp only [Option.some.injEq] at hv; subst hv; exact hx
  | bad => cases hv

/-- a well-formed response object of `Model/Wsgi` (`RState.ok`: what `_hval` lets through) is a
clean store of `Model/Headers` -/
theorem headersView_clean (st : Wsgi.RState) (h : st.headers.all Wsgi.hdrEntryOK = true) :
    Headers.StoreClean (headersView st).store := by
  intro e he v hv
  unfold headersView at he
  simp only [List.mem_map] at he
  obtain ⟨x, hx, rfl⟩ := he
  simp only [toEntry_vals] at hv
  have hx' := (List.all_eq_true.mp h) x hx
  simp only [Wsgi.hdrEntryOK, Bool.and_eq_true] at hx'
  have := (List.all_eq_true.mp hx'.2) _ (mem_goodVals hv)
  exact hvalOk_clean v this

end Ombott.App
