import OmbottModel.Lemmas.RouterHist
import OmbottModel.Lemmas.RouterSound
/-!
What the application layer needs from the router after a history of `add` / `remove_method`:
no node of the tree holds hooks (`Router.run` never calls `treeAddHooks`), so every lookup reports
`hooks = []`, and `resolve` / `handle` never answer `fault`.
-/
namespace Ombott.Router
open Py

/-! ### hook-free trees -/

mutual
def NoHooksN : Node → Prop
  | .mk _ _ _ _ h lits tok => h = none ∧ NoHooksL lits ∧ NoHooksT tok
def NoHooksT : Option Node → Prop
  | none => True
  | some t => NoHooksN t
def NoHooksL : List Node → Prop
  | [] => True
  | k :: ks => NoHooksN k ∧ NoHooksL ks
end

theorem root_noHooks : NoHooksN Node.root := by
  unfold Node.root NoHooksN NoHooksL NoHooksT
  exact ⟨rfl, trivial, trivial⟩

theorem NoHooksN.hooks {n : Node} (h : NoHooksN n) : n.hooks = none := by
  cases n; unfold NoHooksN at h; exact h.1

/-! ### insertion without hooks -/

mutual
theorem chainLit_noHooks (a : SetArgs) (ha : a.hooks = none) (key : Str) (r : List Sym) :
    NoHooksN (chainLit a key r) := by
  match r with
  | [] => simp only [chainLit]; unfold NoHooksN NoHooksL NoHooksT; exact ⟨ha, trivial, trivial⟩
  | .lit c :: r => simp only [chainLit]; exact chainLit_noHooks a ha (key ++ [c]) r
  | .tok g :: r =>
    simp only [chainLit]; unfold NoHooksN NoHooksL NoHooksT
    exact ⟨rfl, trivial, chainTok_noHooks a ha g r⟩
theorem chainTok_noHooks (a : SetArgs) (ha : a.hooks = none) (g : Option Fid) (r : List Sym) :
    NoHooksN (chainTok a g r) := by
  match r with
  | [] => simp only [chainTok]; unfold NoHooksN NoHooksL NoHooksT; exact ⟨ha, trivial, trivial⟩
  | .lit c :: r =>
    simp only [chainTok]; unfold NoHooksN NoHooksL NoHooksT NoHooksL
    exact ⟨rfl, ⟨chainLit_noHooks a ha [c] r, trivial⟩, trivial⟩
  | .tok g' :: r =>
    simp only [chainTok]; unfold NoHooksN NoHooksL NoHooksT
    exact ⟨rfl, trivial, chainTok_noHooks a ha g' r⟩
end

theorem withKey_noHooks (n : Node) (k : Str) (h : NoHooksN n) : NoHooksN (n.withKey k) := by
  cases n; simp only [Node.withKey]; unfold NoHooksN at h ⊢; exact h

theorem setHere_noHooks (a : SetArgs) (ha : a.hooks = none) (n n' : Node)
    (hs : setHere a n = .ok n') (h : NoHooksN n) : NoHooksN n' := by
  match n with
  | .mk k d p f hk lits tok =>
    simp only [setHere] at hs
    split at hs
    · cases hs
    · split at hs
      · cases hs
      · simp only [Except.ok.injEq] at hs
        subst hs
        unfold NoHooksN at h ⊢
        refine ⟨?_, h.2⟩
        rw [ha]; simpa using h.1

theorem splitIns_noHooks (a : SetArgs) (ha : a.hooks = none) (n n' : Node) (route : List Sym)
    (hs : splitIns a n route = .ok n') (h : NoHooksN n) : NoHooksN n' := by
  have hold := withKey_noHooks n (n.key.drop (commonPrefix n.key (litRun route)).length) h
  unfold splitIns at hs
  simp only at hs
  split at hs
  · refine setHere_noHooks a ha _ n' hs ?_
    unfold NoHooksN NoHooksL NoHooksL NoHooksT
    exact ⟨rfl, ⟨hold, trivial⟩, trivial⟩
  · simp only [Except.ok.injEq] at hs
    subst hs
    unfold NoHooksN NoHooksL NoHooksL NoHooksL NoHooksT
    exact ⟨rfl, ⟨chainLit_noHooks a ha _ _, hold, trivial⟩, trivial⟩
  · simp only [Except.ok.injEq] at hs
    subst hs
    unfold NoHooksN NoHooksL NoHooksL NoHooksT
    exact ⟨rfl, ⟨hold, trivial⟩, chainTok_noHooks a ha _ _⟩

mutual
theorem insN_noHooks (a : SetArgs) (ha : a.hooks = none) (n : Node) (p : List Sym) (n' : Node)
    (hi : insN a n p = .ok n') (h : NoHooksN n) : NoHooksN n' := by
  match n, p with
  | .mk k d pk f hk lits tok, [] =>
    simp only [insN] at hi
    exact setHere_noHooks a ha _ n' hi h
  | .mk k d pk f hk lits tok, .lit c :: r =>
    simp only [insN] at hi
    unfold NoHooksN at h
    obtain ⟨hh, hl, ht⟩ := h
    cases hL : insL a lits c r with
    | error e => rw [hL] at hi; simp [Except.map] at hi
    | ok o =>
      rw [hL] at hi
      simp only [Except.map, Except.ok.injEq] at hi
      subst hi
      have hsp := insL_noHooks a ha lits c r o hL hl
      cases o with
      | none =>
        simp only [Option.getD]
        unfold NoHooksN NoHooksL
        exact ⟨hh, ⟨chainLit_noHooks a ha [c] r, hl⟩, ht⟩
      | some lits' =>
        simp only [Option.getD]
        unfold NoHooksN
        exact ⟨hh, hsp lits' rfl, ht⟩
  | .mk k d pk f hk lits tok, .tok g :: r =>
    simp only [insN] at hi
    unfold NoHooksN at h
    obtain ⟨hh, hl, ht⟩ := h
    cases hT : insT a tok g r with
    | error e => rw [hT] at hi; simp [Except.map] at hi
    | ok t' =>
      rw [hT] at hi
      simp only [Except.map, Except.ok.injEq] at hi
      subst hi
      unfold NoHooksN NoHooksT
      exact ⟨hh, hl, insT_noHooks a ha tok g r t' hT ht⟩
theorem insT_noHooks (a : SetArgs) (ha : a.hooks = none) (t : Option Node) (g : Option Fid)
    (r : List Sym) (t' : Node) (hi : insT a t g r = .ok t') (h : NoHooksT t) : NoHooksN t' := by
  match t with
  | none =>
    simp only [insT, Except.ok.injEq] at hi
    subst hi
    exact chainTok_noHooks a ha g r
  | some t0 =>
    simp only [insT] at hi
    split at hi
    · cases hi
    · unfold NoHooksT at h
      exact insN_noHooks a ha t0 r t' hi h
theorem insL_noHooks (a : SetArgs) (ha : a.hooks = none) (ks : List Node) (c : Char) (r : List Sym)
    (o : Option (List Node)) (hi : insL a ks c r = .ok o) (h : NoHooksL ks) :
    ∀ ks', o = some ks' → NoHooksL ks' := by
  match ks with
  | [] =>
    simp only [insL, Except.ok.injEq] at hi
    subst hi; intro ks' hks'; cases hks'
  | k :: ks =>
    unfold NoHooksL at h
    obtain ⟨hk, hks⟩ := h
    simp only [insL] at hi
    split at hi
    · cases hX : (stripKey k.key (.lit c :: r)).elim (splitIns a k (.lit c :: r))
          (fun rest => insN a k rest) with
      | error e => rw [hX] at hi; simp [Except.map] at hi
      | ok k' =>
        rw [hX] at hi
        simp only [Except.map, Except.ok.injEq] at hi
        subst hi
        intro ks' hks'
        simp only [Option.some.injEq] at hks'
        subst hks'
        unfold NoHooksL
        refine ⟨?_, hks⟩
        cases hs : stripKey k.key (.lit c :: r) with
        | some rest =>
          rw [hs] at hX
          simp only [Option.elim] at hX
          exact insN_noHooks a ha k rest k' hX hk
        | none =>
          rw [hs] at hX
          simp only [Option.elim] at hX
          exact splitIns_noHooks a ha k k' _ hX hk
    · cases hX : insL a ks c r with
      | error e => rw [hX] at hi; simp [Except.map] at hi
      | ok o0 =>
        rw [hX] at hi
        simp only [Except.map, Except.ok.injEq] at hi
        subst hi
        intro ks' hks'
        cases o0 with
        | none => simp at hks'
        | some ks0 =>
          simp only [Option.map_some, Option.some.injEq] at hks'
          subst hks'
          unfold NoHooksL
          exact ⟨hk, insL_noHooks a ha ks c r (some ks0) hX hks ks0 rfl⟩
end

theorem treeAdd_noHooks (t t' : Node) (pat : List Sym) (d : Nat) (names : List Str) (ow : Bool)
    (hi : treeAdd t pat d names ow = .ok t') (h : NoHooksN t) : NoHooksN t' :=
  insN_noHooks _ rfl t pat t' hi h

/-! ### histories -/

theorem registerName_tree (R : Router) (a : AddArgs) (id : Nat) :
    (R.registerName a id).1.tree = R.tree := by
  unfold Router.registerName
  cases a.name with
  | none => rfl
  | some nm =>
    simp only
    split
    · rfl
    · cases dictGet R.named nm with
      | none => rfl
      | some reg => simp only; split <;> rfl

theorem register_tree (R : Router) (a : AddArgs) (p : Parsed) (id : Nat) :
    (R.register a p id).1.tree = R.tree := by
  unfold Router.register
  cases R.obj? id with
  | none => rfl
  | some route =>
    simp only
    split
    · rw [registerName_tree]; rfl
    · cases route.addMethod a.methods a.handler p.params with
      | error e => rfl
      | ok route' => simp only; rw [registerName_tree]; rfl

theorem removeMethod_tree (R : Router) (id : Nat) (ms : List Str) :
    (R.removeMethod id ms).tree = R.tree := by
  unfold Router.removeMethod
  cases R.obj? id <;> rfl

theorem findOrInsert_noHooks (R : Router) (rule : Str) (p : Parsed) (h : NoHooksN R.tree) :
    NoHooksN (R.findOrInsert rule p).1.tree := by
  unfold Router.findOrInsert
  cases R.matchPat p.syms with
  | some id => exact h
  | none =>
    simp only
    cases hi : treeAdd R.tree p.syms R.objs.length p.params with
    | error e => exact h
    | ok t => exact treeAdd_noHooks _ _ _ _ _ _ hi h

theorem addParsed_noHooks (R : Router) (a : AddArgs) (p : Parsed) (h : NoHooksN R.tree) :
    NoHooksN (R.addParsed a p).1.tree := by
  unfold Router.addParsed
  split
  · exact h
  · have := findOrInsert_noHooks R a.rule p h
    cases hf : R.findOrInsert a.rule p with
    | mk R' out =>
      rw [hf] at this
      cases out with
      | error e => exact this
      | ok id => simp only; rw [register_tree]; exact this

theorem step_noHooks (upper : Str → Str) (R : Router) (op : Op) (h : NoHooksN R.tree) :
    NoHooksN (R.step upper op).tree := by
  cases op with
  | add cenv a =>
    simp only [Router.step, Router.add]
    cases parseRule cenv a.rule with
    | error e => exact h
    | ok p => exact addParsed_noHooks R _ p h
  | removeMethod id ms => simp only [Router.step]; rw [removeMethod_tree]; exact h

theorem foldl_noHooks (upper : Str → Str) (ops : List Op) (R : Router) (h : NoHooksN R.tree) :
    NoHooksN (ops.foldl (Router.step upper) R).tree := by
  induction ops generalizing R with
  | nil => exact h
  | cons op ops ih => exact ih _ (step_noHooks upper R op h)

theorem run_noHooks (upper : Str → Str) (ops : List Op) : NoHooksN (Router.run upper ops).tree :=
  foldl_noHooks upper ops {} root_noHooks

/-! ### lookups in a hook-free tree -/

def Res.hooks : Res → List (Nat × HookPair)
  | .hit _ _ _ h => h
  | .miss _ h _ => h

theorem orTok_hooks (lit : Option Res) (hasTok : Bool) (alt : Unit → Res)
    (h1 : ∀ r, lit = some r → r.hooks = []) (h2 : (alt ()).hooks = []) :
    (Res.orTok lit hasTok alt).hooks = [] := by
  cases lit with
  | none => exact h2
  | some r =>
    cases r with
    | hit d k v hk => exact h1 _ rfl
    | miss v hk pp =>
      cases hasTok with
      | true => exact h2
      | false => exact h1 _ rfl

theorem orElse_hooks (r : Res) (alt : Unit → Res) (h1 : r.hooks = []) (h2 : (alt ()).hooks = []) :
    (r.orElse alt).hooks = [] := by
  cases r with
  | hit d k v hk => exact h1
  | miss v hk pp => exact h2

theorem atEnd_hooks (a : Acc) (d : Option Nat) (pk : List Str) : (a.atEnd d pk).hooks = a.hooks := by
  cases d <;> rfl

theorem tokStep_hooks (env : FilterEnv) (f : Option Fid) (a : Acc) (rest : Str) (k : Acc → Str → Res)
    (ha : a.hooks = []) (hk : ∀ a' r, a'.hooks = [] → (k a' r).hooks = []) :
    (tokStep env f none a rest k).hooks = [] := by
  unfold tokStep
  cases tokRes env f rest with
  | none => exact ha
  | some r =>
    obtain ⟨v, n, sel⟩ := r
    cases sel with
    | none => exact hk _ _ ha
    | some s => exact orElse_hooks _ _ (hk _ _ ha) (hk _ _ ha)

mutual
theorem getN_hooks (env : FilterEnv) (n : Node) (a : Acc) (path : Str) (h : NoHooksN n)
    (ha : a.hooks = []) : (getN env n a path).hooks = [] := by
  match n, path with
  | .mk k d pk f hk lits tok, [] => simp only [getN]; rw [atEnd_hooks]; exact ha
  | .mk k d pk f hk lits tok, c :: p =>
    unfold NoHooksN at h
    simp only [getN]
    apply orTok_hooks
    · intro r hr; exact getL_hooks env lits a c p r hr h.2.1 ha
    · exact getT_hooks env tok a (c :: p) h.2.2 ha
theorem getT_hooks (env : FilterEnv) (t : Option Node) (a : Acc) (path : Str) (h : NoHooksT t)
    (ha : a.hooks = []) : (getT env t a path).hooks = [] := by
  match t with
  | none => exact ha
  | some t =>
    unfold NoHooksT at h
    simp only [getT]
    rw [h.hooks]
    exact tokStep_hooks env _ a path _ ha fun a' r ha' => getN_hooks env t a' r h ha'
theorem getL_hooks (env : FilterEnv) (ks : List Node) (a : Acc) (c : Char) (p : Str) (r : Res)
    (hr : getL env ks a c p = some r) (h : NoHooksL ks) (ha : a.hooks = []) : r.hooks = [] := by
  match ks with
  | [] => simp [getL] at hr
  | k :: ks =>
    unfold NoHooksL at h
    simp only [getL] at hr
    split at hr
    · simp only [Option.some.injEq] at hr
      subst hr
      cases stripPre k.key (c :: p) with
      | none => exact ha
      | some rest =>
        simp only [Option.elim]
        rw [h.1.hooks]
        exact getN_hooks env k _ rest h.1 ha
    · exact getL_hooks env ks a c p r hr h.2 ha
end

theorem treeGet_hooks (env : FilterEnv) (t : Node) (path : Str) (h : NoHooksN t) :
    (treeGet env t path).hooks = [] := by
  unfold treeGet
  rw [h.hooks]
  exact getN_hooks env t _ path h rfl

theorem treeGet_noHooks (env : FilterEnv) (t : Node) (path : Str) (h : NoHooksN t) :
    match treeGet env t path with
    | .hit _ _ _ hooks => hooks = []
    | .miss _ hooks _ => hooks = [] := by
  have := treeGet_hooks env t path h
  cases hg : treeGet env t path <;> (rw [hg] at this; exact this)

/-! ### `resolve` and `handle` after a history -/

theorem resolve_hooks_nil (R : Router) (h : NoHooksN R.tree) (env : FilterEnv) (path : Str)
    (ms : List Str) :
    match R.resolve env path ms with
    | .found _ _ _ hooks => hooks = []
    | .notFound _ hooks _ => hooks = []
    | _ => True := by
  have := treeGet_hooks env R.tree (stripSlash path) h
  unfold Router.resolve
  cases hg : treeGet env R.tree (stripSlash path) with
  | miss v hh p => rw [hg] at this; exact this
  | hit id keys vals hk =>
    rw [hg] at this
    simp only
    cases R.obj? id with
    | none => trivial
    | some route =>
      simp only
      cases route.getItem ms with
      | ok m => exact this
      | error e => trivial

theorem resolve_not_fault (R : Router) (hinv : Inv R) (env : FilterEnv) (path : Str) (ms : List Str) :
    R.resolve env path ms ≠ .fault := by
  unfold Router.resolve
  cases hg : treeGet env R.tree (stripSlash path) with
  | miss v hh p => simp
  | hit id keys vals hk =>
    simp only
    obtain ⟨rule, hmem, hd, _, _⟩ :=
      getN_sound env R.tree _ (stripSlash path) id keys vals (by
        show (treeGet env R.tree (stripSlash path)).core = _
        rw [hg]; rfl)
    obtain ⟨ps, id', r, _, hr, heq⟩ := (mem_rules R _).mp ((hinv.den _).mp hmem)
    subst heq
    simp only at hd
    subst hd
    simp only [hr]
    cases r.getItem ms <;> simp

theorem run_resolve_hooks_nil (upper : Str → Str) (ops : List Op) (env : FilterEnv) (path : Str)
    (ms : List Str) :
    match (Router.run upper ops).resolve env path ms with
    | .found _ _ _ hooks => hooks = []
    | .notFound _ hooks _ => hooks = []
    | _ => True :=
  resolve_hooks_nil _ (run_noHooks upper ops) env path ms

theorem run_resolve_not_fault (upper : Str → Str) (ops : List Op) (hok : ∀ op ∈ ops, OpOK op)
    (env : FilterEnv) (path : Str) (ms : List Str) :
    (Router.run upper ops).resolve env path ms ≠ .fault :=
  resolve_not_fault _ (run_inv upper ops hok) env path ms

theorem run_handle_hooks_nil (upper : Str → Str) (ops : List Op) (env : FilterEnv) (verb path : Str) :
    match (Router.run upper ops).handle upper env verb path with
    | .found _ _ _ hooks => hooks = []
    | .notFound _ hooks _ => hooks = []
    | _ => True :=
  run_resolve_hooks_nil upper ops env _ _

theorem run_handle_not_fault (upper : Str → Str) (ops : List Op) (hok : ∀ op ∈ ops, OpOK op)
    (env : FilterEnv) (verb path : Str) :
    (Router.run upper ops).handle upper env verb path ≠ .fault :=
  run_resolve_not_fault upper ops hok env _ _

end Ombott.Router
