import OmbottModel.Lemmas.AppError
/-!
Seam `Model/BodyAccess.statusOf` (C12's one-line abstraction of `_handle`: "a framework response
keeps its status, every other exception is a 500") ↔ `Model/Wsgi`: for a callback that reads a
body accessor and lets the outcome through (`App.accessHandler`), on an application without hooks
and error handlers, the status code of the response `Wsgi.wsgi` produces IS `statusOf`.
Not connected: WHICH `errors_map` entry (body text) a mapped error is — `BodyAccess` keeps the
status only.
-/
namespace Ombott.App
open Py Ombott Ombott.Wsgi

theorem bodyaccess_status_agrees_with_wsgi (app : Wsgi.App) (hb : app.before = []) (ha : app.after = [])
    (he : app.errHandlers = []) (s : Slots) (r : Wsgi.Req) (hp : r.pathOK = true)
    (bodyOf : Nat → Str) (x : Except Forms.Exc BodyAccess.Val)
    (hr : r.route = .found (accessHandler bodyOf x)) :
    (wsgi app s r).slots.resp.code = BodyAccess.statusOf x := by
  have hbq : app.before.all (fun h => !h.fails) = true := by rw [hb]; rfl
  have haq : app.after.all (fun h => !h.fails) = true := by rw [ha]; rfl
  have hno : ∀ c, errHandlerFor app c = none := by
    intro c; unfold errHandlerFor; rw [he]; rfl
  have hflow := handleFlow_quiet app r hbq haq
  rw [hr] at hflow
  cases x with
  | ok v =>
    have hf : (Wsgi.Route.found (accessHandler bodyOf (.ok v))).flow = .ret (.text "ok".toList) := rfl
    rw [hf] at hflow
    rw [wsgi_of_text app s r hp _ hflow, handle_plain_resp app s r hp hb ha _ hr rfl]
    exact default_status_200
  | error e =>
    by_cases hh : ∃ st, e = .py (.http st)
    · obtain ⟨st, rfl⟩ := hh
      have hf : (Wsgi.Route.found (accessHandler bodyOf (.error (.py (.http st))))).flow =
          .resp (mkError st (bodyOf st)) := rfl
      rw [hf] at hflow
      obtain ⟨x, hl, hserved⟩ := wsgi_error_page app s r hp _ _ hflow (hno _)
        (by intro p hp; cases hp) (fun _ => rfl)
      exact hserved.code
    · have hf : (Wsgi.Route.found (accessHandler bodyOf (.error e))).flow = .exc := by
        cases e with
        | other c => rfl
        | py pe =>
          cases pe <;> first | rfl | exact absurd ⟨_, rfl⟩ hh
      rw [hf] at hflow
      obtain ⟨hout, _⟩ := handle_out app s r hp
      rw [hflow] at hout
      simp only [settle] at hout
      obtain ⟨x, hl, hserved⟩ := wsgi_error_page_of_out app s r _ _ hout (hno _)
        (by intro p hp; cases hp) (fun _ => rfl)
      rw [hserved.code]
      cases e with
      | other c => rfl
      | py pe => cases pe <;> first | rfl | exact absurd ⟨_, rfl⟩ hh

end Ombott.App
