import OmbottModel.Lemmas.EnvCacheInv
/-!
Every description of `desc` is well formed: its components look at the environ only through the
WSGI strings it lists.
-/
namespace Ombott.EnvCache
open Py Ombott.Body Ombott.Forms Ombott.BodyAccess

theorem ro_cookiesOf (L : Lib) : ReadsOnly [cs!"HTTP_COOKIE"] (cookiesOf L) := by
  intro e e' h
  have a1 : e.str? cs!"HTTP_COOKIE" = e'.str? cs!"HTTP_COOKIE" := h _ (by simp)
  simp only [cookiesOf, a1]

theorem ro_scriptNameOf (cfg : Cfg) : ReadsOnly [cs!"SCRIPT_NAME", cs!"HTTP_X_SCRIPT_NAME"] (scriptNameOf cfg) := by
  intro e e' h
  have a1 : e.str? cs!"SCRIPT_NAME" = e'.str? cs!"SCRIPT_NAME" := h _ (by simp)
  have a2 : e.str? cs!"HTTP_X_SCRIPT_NAME" = e'.str? cs!"HTTP_X_SCRIPT_NAME" := h _ (by simp)
  simp only [scriptNameOf, a1, a2]

theorem ro_pathOf : ReadsOnly [cs!"PATH_INFO"] pathOf := by
  intro e e' h
  have a1 : e.str? cs!"PATH_INFO" = e'.str? cs!"PATH_INFO" := h _ (by simp)
  simp only [pathOf, a1]

theorem ro_fullpathOf (cfg : Cfg) (L : Lib) : ReadsOnly pathKeys (fullpathOf cfg L) := by
  intro e e' h
  have h1 := (ro_scriptNameOf cfg).mono (ks' := pathKeys) (by simp [pathKeys]) e e' h
  have h2 := ro_pathOf.mono (ks' := pathKeys) (by simp [pathKeys]) e e' h
  have h3 : e.str? [] = e'.str? [] := h _ (by simp [pathKeys])
  have : fullpathFrom cfg L e = fullpathFrom cfg L e' := by
    funext sn; simp only [fullpathFrom, h2, h3]
  simp only [fullpathOf, h1, this]

theorem ro_schemeOf : ReadsOnly urlKeys schemeOf := by
  intro e e' h
  have a1 : e.str? cs!"HTTP_X_FORWARDED_PROTO" = e'.str? cs!"HTTP_X_FORWARDED_PROTO" := h _ (by simp [urlKeys])
  have a2 : e.str? cs!"wsgi.url_scheme" = e'.str? cs!"wsgi.url_scheme" := h _ (by simp [urlKeys])
  simp only [schemeOf, a1, a2]

theorem ro_hostOf : ReadsOnly urlKeys hostOf := by
  intro e e' h
  have := ro_schemeOf e e' h
  have a1 : e.str? cs!"HTTP_X_FORWARDED_HOST" = e'.str? cs!"HTTP_X_FORWARDED_HOST" := h _ (by simp [urlKeys])
  have a2 : e.str? cs!"HTTP_HOST" = e'.str? cs!"HTTP_HOST" := h _ (by simp [urlKeys])
  have a3 : e.str? cs!"SERVER_NAME" = e'.str? cs!"SERVER_NAME" := h _ (by simp [urlKeys])
  have a4 : e.str? cs!"SERVER_PORT" = e'.str? cs!"SERVER_PORT" := h _ (by simp [urlKeys])
  simp only [hostOf, a1, a2, a3, a4, this]

theorem ro_urlpartsOf (cfg : Cfg) (L : Lib) : ReadsOnly (pathKeys ++ urlKeys) (urlpartsOf cfg L) := by
  intro e e' h
  have h1 := (ro_fullpathOf cfg L).mono (ks' := pathKeys ++ urlKeys) (fun k hk => by simp [hk]) e e' h
  have h2 := ro_schemeOf.mono (ks' := pathKeys ++ urlKeys) (fun k hk => by simp [hk]) e e' h
  have h3 := ro_hostOf.mono (ks' := pathKeys ++ urlKeys) (fun k hk => by simp [hk]) e e' h
  have h4 : e.str? cs!"QUERY_STRING" = e'.str? cs!"QUERY_STRING" := h kQS (by simp [urlKeys])
  have : urlpartsFrom L e = urlpartsFrom L e' := by
    funext fp; simp only [urlpartsFrom, h2, h3, h4]
  simp only [urlpartsOf, h1, this]

theorem ro_urlOf (cfg : Cfg) (L : Lib) : ReadsOnly (pathKeys ++ urlKeys) (urlOf cfg L) := by
  intro e e' h; simp only [urlOf, ro_urlpartsOf cfg L e e' h]

theorem ro_isJsonOf : ReadsOnly [cs!"HTTP_ACCEPT"] isJsonOf := by
  intro e e' h
  have a1 : e.str? cs!"HTTP_ACCEPT" = e'.str? cs!"HTTP_ACCEPT" := h _ (by simp)
  simp only [isJsonOf, a1]

theorem ro_remoteRouteOf : ReadsOnly [cs!"HTTP_X_FORWARDED_FOR", cs!"REMOTE_ADDR"] remoteRouteOf := by
  intro e e' h
  have a1 : e.str? cs!"HTTP_X_FORWARDED_FOR" = e'.str? cs!"HTTP_X_FORWARDED_FOR" := h _ (by simp)
  have a2 : e.str? cs!"REMOTE_ADDR" = e'.str? cs!"REMOTE_ADDR" := h _ (by simp)
  simp only [remoteRouteOf, a1, a2]

theorem ro_contentLengthOf : ReadsOnly [kCL] contentLengthOf := by
  intro e e' h
  have : e.str? cs!"CONTENT_LENGTH" = e'.str? cs!"CONTENT_LENGTH" := h kCL (by simp)
  simp only [contentLengthOf, this]

theorem ro_contentTypeOf : ReadsOnly [kCT] contentTypeOf := by
  intro e e' h
  have : e.str? cs!"CONTENT_TYPE" = e'.str? cs!"CONTENT_TYPE" := h kCT (by simp)
  simp only [contentTypeOf, this]

theorem ro_ctypeOf : ReadsOnly [kCT] ctypeOf := by
  intro e e' h; simp only [ctypeOf, ro_contentTypeOf e e' h]

theorem ro_queryOf : ReadsOnly [kQS] queryOf := by
  intro e e' h
  have : e.str? cs!"QUERY_STRING" = e'.str? cs!"QUERY_STRING" := h kQS (by simp)
  simp only [queryOf, this]

theorem ro_ctLower : ReadsOnly [kCT] ctLower := by
  intro e e' h
  have a1 : e.str? kCT = e'.str? kCT := h kCT (by simp)
  simp only [ctLower, a1]

theorem ro_needJson : ReadsOnly [kCT] needJson := by
  intro e e' h; simp only [needJson, ro_ctypeOf e e' h]

theorem ro_bodyStringOf (cfg : Cfg) (sk : Sink) : ReadsOnly [kCL] fun e => bodyStringOf cfg e sk := by
  intro e e' h; simp only [bodyStringOf, ro_contentLengthOf e e' h]

theorem ro_jsonK (cfg : Cfg) (L : Lib) (sk : Sink) : ReadsOnly [kCL] fun e => jsonK cfg L e sk := by
  intro e e' h; simp only [jsonK, ro_bodyStringOf cfg sk e e' h]

theorem ro_needPost : ReadsOnly [kCT] needPost := by
  intro e e' h; simp only [needPost, ro_ctLower e e' h, ro_needJson e e' h]

theorem ro_postK (cfg : Cfg) (L : Lib) (sk : Sink) (ct : Str) : ReadsOnly [kCT, kCL] fun e => postK cfg L e sk ct := by
  intro e e' h
  have h1 := ro_ctLower.mono (ks' := [kCT, kCL]) (by simp) e e' h
  have h2 := (ro_jsonK cfg L sk).mono (ks' := [kCT, kCL]) (by simp) e e' h
  have h3 := (ro_bodyStringOf cfg sk).mono (ks' := [kCT, kCL]) (by simp) e e' h
  simp only at h2 h3
  simp only [postK, h1, h2, h3]

theorem ro_paramsFrom (t : FD × FD × FD) : ReadsOnly [kQS] fun e => paramsFrom e t := by
  intro e e' h; simp only [paramsFrom, ro_queryOf e e' h]

theorem plain_keys :
    ∀ k ∈ pathKeys ++ urlKeys ++ [cs!"HTTP_COOKIE", cs!"HTTP_ACCEPT", cs!"HTTP_X_FORWARDED_FOR", cs!"REMOTE_ADDR", kCL, kCT, kQS],
      isCacheKey k = false ∧ k ∉ bodyKeys := by decide

theorem desc_ok (cfg : Cfg) (L : Lib) (p : Prop') : DescOK (desc cfg L p) := by
  have pk := plain_keys
  cases p <;> simp only [desc, DescOK]
  case cookies => exact ⟨ro_cookiesOf L, fun k hk => pk k (by simp at hk; subst hk; decide)⟩
  case scriptName =>
    refine ⟨fun e e' h => by simp only [ro_scriptNameOf cfg e e' h], fun k hk => pk k ?_⟩
    simp at hk; rcases hk with rfl | rfl <;> decide
  case fullpath => exact ⟨ro_fullpathOf cfg L, fun k hk => pk k (by simp only [List.mem_append]; exact Or.inl (Or.inl hk))⟩
  case urlparts => exact ⟨ro_urlpartsOf cfg L, fun k hk => pk k (by simp only [List.mem_append] at hk ⊢; exact Or.inl hk)⟩
  case url => exact ⟨ro_urlOf cfg L, fun k hk => pk k (by simp only [List.mem_append] at hk ⊢; exact Or.inl hk)⟩
  case isJsonRequested =>
    exact ⟨fun e e' h => by simp only [ro_isJsonOf e e' h], fun k hk => pk k (by simp at hk; subst hk; decide)⟩
  case remoteRoute =>
    refine ⟨fun e e' h => by simp only [ro_remoteRouteOf e e' h], fun k hk => pk k ?_⟩
    simp at hk; rcases hk with rfl | rfl <;> decide
  case contentLength => exact ⟨ro_contentLengthOf, fun k hk => pk k (by simp at hk; subst hk; decide)⟩
  case contentType =>
    exact ⟨fun e e' h => by simp only [ro_contentTypeOf e e' h], fun k hk => pk k (by simp at hk; subst hk; decide)⟩
  case ctype => exact ⟨ro_ctypeOf, fun k hk => pk k (by simp at hk; subst hk; decide)⟩
  case query => exact ⟨ro_queryOf, fun k hk => pk k (by simp at hk; subst hk; decide)⟩
  case json =>
    refine ⟨ro_needJson.mono (by simp), fun _ _ _ => rfl, fun sk _ => (ro_jsonK cfg L sk).mono (by simp), fun k hk => pk k ?_⟩
    simp at hk; rcases hk with rfl | rfl <;> decide
  case post =>
    refine ⟨ro_needPost.mono (by simp), fun _ _ _ => rfl, fun sk ct e e' h => ?_, fun k hk => pk k ?_⟩
    · have := ro_postK cfg L sk ct e e' h
      simp only at this
      simp only [this]
    · simp at hk; rcases hk with rfl | rfl <;> decide
  case forms =>
    refine ⟨ro_needPost.mono (by simp), fun _ _ _ => rfl, fun sk ct e e' h => ?_, fun k hk => pk k ?_⟩
    · have := ro_postK cfg L sk ct e e' h
      simp only at this
      simp only [this]
    · simp at hk; rcases hk with rfl | rfl <;> decide
  case files =>
    refine ⟨ro_needPost.mono (by simp), fun _ _ _ => rfl, fun sk ct e e' h => ?_, fun k hk => pk k ?_⟩
    · have := ro_postK cfg L sk ct e e' h
      simp only at this
      simp only [this]
    · simp at hk; rcases hk with rfl | rfl <;> decide
  case params =>
    refine ⟨ro_needPost.mono (by simp), fun e e' h => ?_, fun sk ct e e' h => ?_, fun k hk => pk k ?_⟩
    · have h2 : paramsFrom e = paramsFrom e' := funext fun t => (ro_paramsFrom t).mono (ks' := [kCT, kCL, kQS]) (by simp) e e' h
      simp only [postK0, h2]
    · have := (ro_postK cfg L sk ct).mono (ks' := [kCT, kCL, kQS]) (by simp) e e' h
      have h2 : paramsFrom e = paramsFrom e' := funext fun t => (ro_paramsFrom t).mono (ks' := [kCT, kCL, kQS]) (by simp) e e' h
      simp only at this
      simp only [this, h2]
    · simp at hk; rcases hk with rfl | rfl | rfl <;> decide

end Ombott.EnvCache
