import OmbottModel.Lemmas.QsQuote
import OmbottModel.Model.QsSpec
/-! The `parse_qsl` scanner on the URL-encoding of a pair list (C18). -/
namespace Ombott.Qs
open Py

/-! ### the `for … else` scan -/

theorem forElse_break (stop : Char → Bool) (a : Str) (d : Char) (rest : Str) (k idx : Nat) (c0 : Option Char)
    (ha : ∀ c ∈ a, stop c = false) (hd : stop d = true) :
    forElse stop (a ++ d :: rest) k idx c0 = (k + a.length, some d) := by
  induction a generalizing k idx c0 with
  | nil => simp [forElse, hd]
  | cons x r ih =>
    have hx : stop x = false := ha x (by simp)
    simp only [List.cons_append, forElse, hx, Bool.false_eq_true, if_false]
    rw [ih _ _ _ (fun c hc => ha c (by simp [hc]))]
    simp only [List.length_cons]; congr 1; omega

theorem forElse_exhaust (stop : Char → Bool) (a : Str) (k idx : Nat) (c0 : Option Char)
    (ha : ∀ c ∈ a, stop c = false) (hne : a ≠ []) :
    (forElse stop a k idx c0).1 = k + a.length := by
  induction a generalizing k idx c0 with
  | nil => contradiction
  | cons x r ih =>
    have hx : stop x = false := ha x (by simp)
    simp only [forElse, hx, Bool.false_eq_true, if_false]
    cases r with
    | nil => simp [forElse]
    | cons y r' =>
      rw [ih _ _ _ (fun c hc => ha c (by simp [hc])) (by simp)]
      simp only [List.length_cons]; omega

theorem scan_break (stop : Char → Bool) (a : Str) (d : Char) (rest : Str)
    (ha : ∀ c ∈ a, stop c = false) (hd : stop d = true) :
    scan stop (a ++ d :: rest) = (a.length, some d) := by
  unfold scan; rw [forElse_break stop a d rest 0 0 none ha hd]; simp

/-- the scan ran to the end of the string: `idx` is at least the length (exactly the length, or 1
on the empty string) -/
theorem scan_exhaust (stop : Char → Bool) (a : Str) (ha : ∀ c ∈ a, stop c = false) :
    (scan stop a).1 = if a = [] then 1 else a.length := by
  unfold scan
  split
  · rename_i h; subst h; rfl
  · rename_i h; rw [forElse_exhaust stop a 0 0 none ha h]; simp

theorem slice_drop (qs : Str) (i n : Nat) : slice qs i (i + n) = (qs.drop i).take n := by
  unfold slice
  rw [List.drop_take]
  congr 1; omega


/-! ### one iteration on `key=value&…` and on a final `key=value` -/

theorem step_pair_amp (qs : Str) (i : Nat) (qk qv U : Str)
    (hD : qs.drop i = qk ++ '=' :: (qv ++ '&' :: U))
    (hk : ∀ c ∈ qk, keyStop c = false) (hkne : qk ≠ []) (hv : ∀ c ∈ qv, valStop c = false) :
    step qs i = (i + qk.length + 1 + qv.length + 1,
      some (unquote (plusToSpace qk), unquote (plusToSpace qv))) ∧
    qs.drop (i + qk.length + 1 + qv.length + 1) = U := by
  have hsc : scan keyStop (qs.drop i) = (qk.length, some '=') := by
    rw [hD]; exact scan_break keyStop qk '=' _ hk (by decide)
  have hkey : slice qs i (i + qk.length) = qk := by
    rw [slice_drop, hD]; simp
  have hD1 : qs.drop (i + qk.length + 1) = qv ++ '&' :: U := by
    have : i + qk.length + 1 = i + (qk.length + 1) := by omega
    rw [this, ← List.drop_drop, hD]
    simp
  have hsc2 : scan valStop (qs.drop (i + qk.length + 1)) = (qv.length, some '&') := by
    rw [hD1]; exact scan_break valStop qv '&' _ hv (by decide)
  have hval : slice qs (i + qk.length + 1) (i + qk.length + 1 + qv.length) = qv := by
    rw [slice_drop, hD1]; simp
  have hD2 : qs.drop (i + qk.length + 1 + qv.length + 1) = U := by
    have : i + qk.length + 1 + qv.length + 1 = (i + qk.length + 1) + (qv.length + 1) := by omega
    rw [this, ← List.drop_drop, hD1]
    simp
  refine ⟨?_, hD2⟩
  unfold step
  simp only [hsc, hkey, hsc2, hval]
  have : qk.isEmpty = false := by cases qk <;> simp_all
  simp [this]

theorem step_pair_end (qs : Str) (i : Nat) (qk qv : Str)
    (hD : qs.drop i = qk ++ '=' :: qv)
    (hk : ∀ c ∈ qk, keyStop c = false) (hkne : qk ≠ []) (hv : ∀ c ∈ qv, valStop c = false) :
    (step qs i).2 = some (unquote (plusToSpace qk), unquote (plusToSpace qv)) ∧
    qs.length < (step qs i).1 := by
  have hsc : scan keyStop (qs.drop i) = (qk.length, some '=') := by
    rw [hD]; exact scan_break keyStop qk '=' _ hk (by decide)
  have hkey : slice qs i (i + qk.length) = qk := by
    rw [slice_drop, hD]; simp
  have hD1 : qs.drop (i + qk.length + 1) = qv := by
    have : i + qk.length + 1 = i + (qk.length + 1) := by omega
    rw [this, ← List.drop_drop, hD]
    simp
  have hlen : qs.length - (i + qk.length + 1) = qv.length := by
    rw [← hD1, List.length_drop]
  have hsc2 := scan_exhaust valStop qv hv
  have hval : ∀ n, qv.length ≤ n → slice qs (i + qk.length + 1) (i + qk.length + 1 + n) = qv := by
    intro n hn
    rw [slice_drop, hD1, List.take_of_length_le hn]
  have hne : qk.isEmpty = false := by cases qk <;> simp_all
  unfold step
  simp only [hsc, hkey, hne, hD1]
  simp only [Bool.false_eq_true, if_false]
  have hneq : ¬ (some '=' = some '&') := by decide
  rw [if_neg hneq]
  simp only
  constructor
  · rw [hval _ (by rw [hsc2]; split <;> simp_all)]
  · rw [hsc2]
    split
    · rename_i h; subst h; simp at hlen; omega
    · rename_i h
      have : 0 < qv.length := List.length_pos_iff.mpr h
      omega


theorem loop_done (qs : Str) (i : Nat) (h : qs.length ≤ i) : loop qs i = [] := by
  rw [loop, if_neg (by omega)]

theorem loop_some (qs : Str) (i : Nat) (p : Str × Str) (h : i < qs.length) (hs : (step qs i).2 = some p) :
    loop qs i = p :: loop qs (step qs i).1 := by
  rw [loop, if_pos h]
  simp only [hs]

theorem quoteWith_keyStop (plus : Bool) (s : Str) : ∀ c ∈ quoteWith plus s, keyStop c = false := by
  intro c hc
  have := quoteWith_chars plus s c hc
  simp [keyStop, this.2.1, this.2.2.1]

theorem quoteWith_valStop (plus : Bool) (s : Str) : ∀ c ∈ quoteWith plus s, valStop c = false := by
  intro c hc
  have := quoteWith_chars plus s c hc
  simp [valStop, this.2.2.1]

/-- the scanner, started at an index where the rest of the string is the URL-encoding of `ps`,
produces exactly `ps` -/
theorem loop_urlencode (plus : Bool) (qs : Str) (ps : List (Str × Str)) (hk : ∀ p ∈ ps, p.1 ≠ []) :
    ∀ i, qs.drop i = urlencodeWith plus ps → loop qs i = ps := by
  induction ps with
  | nil =>
    intro i h
    have : (qs.drop i).length = 0 := by rw [h]; rfl
    rw [List.length_drop] at this
    exact loop_done qs i (by omega)
  | cons p r ih =>
    intro i h
    have hp : p.1 ≠ [] := hk p (by simp)
    have hlt : i < qs.length := by
      have : 0 < (qs.drop i).length := by
        rw [h]; cases r <;> simp [urlencodeWith, joinAmp] <;> omega
      rw [List.length_drop] at this; omega
    have hun : (unquote (plusToSpace (quoteWith plus p.1)), unquote (plusToSpace (quoteWith plus p.2))) = p := by
      rw [unquote_plusToSpace_quoteWith, unquote_plusToSpace_quoteWith]
    cases r with
    | nil =>
      have hD : qs.drop i = quoteWith plus p.1 ++ '=' :: quoteWith plus p.2 := by
        rw [h]; simp [urlencodeWith, joinAmp]
      obtain ⟨h1, h2⟩ := step_pair_end qs i _ _ hD (quoteWith_keyStop plus _) (quoteWith_ne_nil plus _ hp)
        (quoteWith_valStop plus _)
      rw [loop_some qs i _ hlt h1, loop_done qs _ (by omega), hun]
    | cons p2 r' =>
      have hD : qs.drop i = quoteWith plus p.1 ++ '=' :: (quoteWith plus p.2 ++ '&' :: urlencodeWith plus (p2 :: r')) := by
        rw [h]; simp [urlencodeWith, joinAmp]
      obtain ⟨h1, h2⟩ := step_pair_amp qs i _ _ _ hD (quoteWith_keyStop plus _) (quoteWith_ne_nil plus _ hp)
        (quoteWith_valStop plus _)
      have hs : (step qs i).2 = some p := by rw [h1, hun]
      rw [loop_some qs i _ hlt hs, h1]
      simp only
      rw [ih (fun q hq => hk q (by simp [hq])) _ h2]

theorem parseQsl_urlencodeWith (plus : Bool) (ps : List (Str × Str)) (hk : ∀ p ∈ ps, p.1 ≠ []) :
    parseQsl (urlencodeWith plus ps) = ps :=
  loop_urlencode plus _ ps hk 0 rfl

/-! ### an urlencoded body is ASCII, so reading it as Latin-1 changes nothing -/

theorem latin1_asciiBytes (s : Str) (h : ∀ c ∈ s, c.toNat < 128) : latin1 (asciiBytes s) = s := by
  induction s with
  | nil => rfl
  | cons c r ih =>
    have hc : c.toNat < 128 := h c (by simp)
    simp only [latin1, asciiBytes, List.map_cons, List.map_map] at ih ⊢
    rw [ih (fun x hx => h x (by simp [hx]))]
    congr 1
    simp only [UInt8.toNat_ofNat']
    have : c.toNat % 2 ^ 8 = c.toNat := by omega
    rw [this, Char.ofNat_toNat]

theorem urlencodeWith_ascii (plus : Bool) (ps : List (Str × Str)) : ∀ c ∈ urlencodeWith plus ps, c.toNat < 128 := by
  induction ps with
  | nil => intro c hc; cases hc
  | cons p r ih =>
    have hp : ∀ c ∈ quoteWith plus p.1 ++ '=' :: quoteWith plus p.2, c.toNat < 128 := by
      intro c hc
      simp only [List.mem_append, List.mem_cons] at hc
      rcases hc with hc | rfl | hc
      · exact (quoteWith_chars plus _ c hc).1
      · decide
      · exact (quoteWith_chars plus _ c hc).1
    cases r with
    | nil => simpa [urlencodeWith, joinAmp] using hp
    | cons p2 r' =>
      intro c hc
      have : urlencodeWith plus (p :: p2 :: r') =
          (quoteWith plus p.1 ++ '=' :: quoteWith plus p.2) ++ '&' :: urlencodeWith plus (p2 :: r') := by
        simp [urlencodeWith, joinAmp]
      rw [this, List.mem_append, List.mem_cons] at hc
      rcases hc with hc | rfl | hc
      · exact hp c hc
      · decide
      · exact ih c hc

end Ombott.Qs
