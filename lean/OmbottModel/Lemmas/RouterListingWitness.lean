import OmbottModel.Lemmas.RouterListingKeys
import OmbottModel.Lemmas.RouterListingRender
import OmbottModel.Lemmas.RouterEditWitness
/-!
C11 (listing): the concrete trees and patterns the non-vacuity examples of `Props/C11.lean` use.
-/
namespace Ombott.Router
open Py

/-- `/a/<x>` with a literal sibling `/a/b`, a longer literal `/abc` (splits the key `a/`), and
`/a/<x>/d` below the wildcard; a hook pair on the data-less node `a` -/
def lsPats : List (List Sym × List Str) :=
  [([.lit 'a', .lit '/', .tok none], ["x".toList]),
   ([.lit 'a', .lit '/', .lit 'b'], []),
   ([.lit 'a', .lit 'b', .lit 'c'], []),
   ([.lit 'a', .lit '/', .tok none, .lit '/', .lit 'd'], ["y".toList])]

def lsBuild : List (List Sym × List Str) → Nat → Node → Node
  | [], _, t => t
  | (p, ns) :: r, i, t =>
    match treeAdd t p i ns with
    | .ok t' => lsBuild r (i + 1) t'
    | .error _ => t

def lsT0 : Node := lsBuild lsPats 0 Node.root

def lsT : Node :=
  match treeAddHooks lsT0 [.lit 'a'] ⟨some 9, none⟩ with
  | .ok t => t
  | .error _ => lsT0

theorem lsBuild_wf : ∀ (l : List (List Sym × List Str)) (i : Nat) (t : Node), WFN t → WFN (lsBuild l i t)
  | [], _, _, h => h
  | (p, ns) :: r, i, t, h => by
    simp only [lsBuild]
    cases hadd : treeAdd t p i ns with
    | ok t' => exact lsBuild_wf r (i + 1) t' (insert_wf' t t' p i ns false h hadd)
    | error e => exact h

theorem lsT0_wf : WFN lsT0 :=
  lsBuild_wf lsPats 0 Node.root (by unfold Node.root WFN WFL WFT; exact ⟨trivial, trivial⟩)

theorem lsT_wf : WFN lsT := by
  unfold lsT
  cases h : treeAddHooks lsT0 [.lit 'a'] ⟨some 9, none⟩ with
  | ok t => exact exAddHooks_wf lsT0 t _ _ false lsT0_wf h
  | error e => exact lsT0_wf

/-- a pattern `_render_route` prints readably: `a/<x>/b/<y>` -/
def rdPat : List Sym := [.lit 'a', .lit '/', .tok none, .lit '/', .lit 'b', .lit '/', .tok none]
def rdNames : List Str := ["x".toList, "y_1".toList]

theorem Renderable.nil' : Renderable [] [] := by unfold Renderable; rfl

theorem Renderable.lit' {c : Char} {r : List Sym} {ns : List Str} (h1 : isParamTok c = false)
    (h2 : c ≠ Gen.paramToken) (h : Renderable r ns) : Renderable (.lit c :: r) ns := by
  unfold Renderable; exact ⟨h1, h2, h⟩

theorem Renderable.tok' {r : List Sym} {n : Str} {ns : List Str} (hid : IsIdent n)
    (hpos : r = [] ∨ r.head? = some (.lit '/')) (h : Renderable r ns) :
    Renderable (.tok none :: r) (n :: ns) := by
  unfold Renderable; exact ⟨rfl, n, ns, rfl, hid, hpos, h⟩

theorem rdPat_renderable : Renderable rdPat rdNames :=
  .lit' (by decide) (by decide) <| .lit' (by decide) (by decide) <|
  .tok' ⟨'x', [], rfl, by decide, by decide⟩ (Or.inr rfl) <|
  .lit' (by decide) (by decide) <| .lit' (by decide) (by decide) <| .lit' (by decide) (by decide) <|
  .tok' ⟨'y', ['_', '1'], rfl, by decide, by decide⟩ (Or.inl rfl) .nil'

end Ombott.Router
