import OmbottModel.Model.App
import OmbottModel.Model.WsgiSpec
import OmbottModel.Lemmas.WsgiFail
import OmbottModel.Lemmas.WsgiInv
import OmbottModel.Lemmas.AppHeaders
/-!
Structure of `App.serve`: what the glue of `Model/App.lean` hands to `Wsgi.wsgi` (`RouteRel`,
`wsgiReq_ok`), how the domains of the C03 theorems read on the composed application
(`DomainB`, `DomainC`), and the exact course of a framework error object (404 / 405 / 500 / 400)
through `_cast`, `headerlist` and `start_response` (`cast_error_exact`, `wsgi_of_error`).
-/
namespace Ombott.App
open Py Ombott Ombott.Wsgi

/-! ### the glue, read backwards -/

/-- how the route handed to `Model/Wsgi` relates to what the router answered -/
inductive RouteRel (cfg : AppConfig) : Option Router.Resolved → Wsgi.Route → Prop
  | undecodable : RouteRel cfg none .notFound
  | found (h : Nat) (m : Str) (kw : Kwargs) : RouteRel cfg (some (.found h m kw [])) (.found (cfg.handlers h kw))
  | notFound (v : List Router.Val) (p : Str) : RouteRel cfg (some (.notFound v [] p)) .notFound
  | notAllowed (a : Str) (h : Wsgi.hvalOk a = true) : RouteRel cfg (some (.notAllowed a)) (.notAllowed a)

theorem routeOf_ok {cfg : AppConfig} {rs : Router.Resolved} {route : Wsgi.Route}
    (h : routeOf cfg rs = .ok route) : RouteRel cfg (some rs) route := by
  cases rs with
  | found hd m kw hooks =>
    simp only [routeOf] at h
    split at h
    · rename_i he
      cases h
      have : hooks = [] := by simpa using he
      subst this
      exact .found hd m kw
    · cases h
  | notFound v hooks p =>
    simp only [routeOf] at h
    split at h
    · rename_i he
      cases h
      have : hooks = [] := by simpa using he
      subst this
      exact .notFound v p
    · cases h
  | notAllowed a =>
    simp only [routeOf] at h
    split at h
    · rename_i he
      cases h
      exact .notAllowed a he
    · cases h
  | fault => simp only [routeOf] at h; cases h

/-- every field of the request `Model/Wsgi` sees is computed from the environ and the router -/
theorem wsgiReq_ok {cfg : AppConfig} {R : Router.Router} {q : Req} {r : Wsgi.Req}
    (h : wsgiReq cfg R q = .ok r) :
    ∃ url, urlOf q = .ok url ∧
      r.id = q.id ∧ r.isHead = (q.verb == "HEAD".toList) ∧ r.fileWrapper = q.fileWrapper ∧
      r.pathOK = (ErrorPage.utf8Decode q.rawPath).isSome ∧ r.path = ErrorPage.shownPath q.rawPath ∧
      r.urlRepr = ErrorPage.pyRepr cfg.pr (ErrorPage.pageEscape url) ∧
      r.json = ErrorPage.isJsonRequested q.accept ∧
      RouteRel cfg (resolved cfg R q) r.route := by
  unfold wsgiReq at h
  cases hu : urlOf q with
  | error e => rw [hu] at h; cases h
  | ok url =>
    rw [hu] at h
    simp only at h
    cases hr : resolved cfg R q with
    | none =>
      rw [hr] at h
      simp only [Except.ok.injEq] at h
      subst h
      exact ⟨url, rfl, rfl, rfl, rfl, rfl, rfl, rfl, rfl, .undecodable⟩
    | some rs =>
      rw [hr] at h
      simp only at h
      cases hro : routeOf cfg rs with
      | error s => rw [hro] at h; cases h
      | ok route =>
        rw [hro] at h
        simp only [Except.ok.injEq] at h
        subst h
        exact ⟨url, rfl, rfl, rfl, rfl, rfl, rfl, rfl, rfl, routeOf_ok hro⟩

theorem serveW_ok {cfg : AppConfig} {R : Router.Router} {q : Req} {res : Wsgi.Result}
    (h : serveW cfg R q = .ok res) :
    ∃ r, wsgiReq cfg R q = .ok r ∧ res = Wsgi.wsgi cfg.hooks Wsgi.Slots.fresh r := by
  unfold serveW at h
  cases hw : wsgiReq cfg R q with
  | error s => rw [hw] at h; cases h
  | ok r =>
    rw [hw] at h
    simp only [Except.map, Except.ok.injEq] at h
    exact ⟨r, rfl, h.symm⟩

/-- the only ways `App.serve` is undefined -/
theorem serveW_error {cfg : AppConfig} {R : Router.Router} {q : Req} {s : Seam}
    (h : serveW cfg R q = .error s) :
    (∃ e, urlOf q = .error e ∧ s = .urlError e) ∨
    (∃ rs, resolved cfg R q = some rs ∧ routeOf cfg rs = .error s) := by
  unfold serveW at h
  cases hw : wsgiReq cfg R q with
  | ok r => rw [hw] at h; cases h
  | error s' =>
    rw [hw] at h
    simp only [Except.map, Except.error.injEq] at h
    subst h
    unfold wsgiReq at hw
    cases hu : urlOf q with
    | error e =>
      rw [hu] at hw
      simp only [Except.error.injEq] at hw
      exact Or.inl ⟨e, rfl, hw.symm⟩
    | ok url =>
      rw [hu] at hw
      simp only at hw
      cases hr : resolved cfg R q with
      | none => rw [hr] at hw; cases hw
      | some rs =>
        rw [hr] at hw
        simp only at hw
        cases hro : routeOf cfg rs with
        | ok route => rw [hro] at hw; cases hw
        | error s'' =>
          rw [hro] at hw
          simp only [Except.error.injEq] at hw
          subst hw
          exact Or.inr ⟨rs, rfl, hro⟩

/-! ### the domains of the C03 theorems, on the composed application -/

/-- C03's domain for conjunct (b) with the route result no longer a parameter: hooks, error
handlers and EVERY handler program (for every kwargs) use CR/LF-free names, statuses that are
codes or `ddd reason` strings, and build only well-formed response objects.  Nothing is asked of
the router: the `Allow` value of a 405 is dealt with by the glue. -/
def DomainB (cfg : AppConfig) : Prop :=
  cfg.hooks.effsOK = true ∧ cfg.hooks.all respOK = true ∧
  ∀ id kw, (cfg.handlers id kw).effs.all Eff.ok = true ∧ (cfg.handlers id kw).res.all respOK = true

/-- … for conjunct (c): iterables keep to the type of their first non-empty item -/
def DomainC (cfg : AppConfig) : Prop :=
  cfg.hooks.all homog = true ∧ ∀ id kw, (cfg.handlers id kw).res.all homog = true

theorem route_domainB {cfg : AppConfig} {rs : Option Router.Resolved} {route : Wsgi.Route}
    (hrel : RouteRel cfg rs route) (hB : DomainB cfg) :
    route.effsOK = true ∧ route.all respOK = true := by
  cases hrel with
  | undecodable => exact ⟨rfl, rfl⟩
  | found h m kw => exact hB.2.2 h kw
  | notFound v p => exact ⟨rfl, rfl⟩
  | notAllowed a ha => exact ⟨ha, rfl⟩

theorem route_domainC {cfg : AppConfig} {rs : Option Router.Resolved} {route : Wsgi.Route}
    (hrel : RouteRel cfg rs route) (hC : DomainC cfg) : route.all homog = true := by
  cases hrel with
  | undecodable => rfl
  | found h m kw => exact hC.2 h kw
  | notFound v p => rfl
  | notAllowed a ha => rfl

/-- the handler event of `Model/Wsgi` stands for a call the router resolved -/
theorem route_isFound {cfg : AppConfig} {rs : Option Router.Resolved} {route : Wsgi.Route}
    (hrel : RouteRel cfg rs route) : route.isFound = (callOf rs).isSome := by
  cases hrel <;> rfl

/-! ### hooks that do not fail leave the route's flow alone -/

theorem firstFlow_quiet (l : List (Nat × Hook)) (h : l.all (fun p => !p.2.fails) = true) :
    firstFlow l = none := by
  induction l with
  | nil => rfl
  | cons p ps ih =>
    obtain ⟨i, hk⟩ := p
    simp only [List.all_cons, Bool.and_eq_true, Bool.not_eq_eq_eq_not, Bool.not_true] at h
    unfold firstFlow
    have hf : hk.flow = none := by
      have h1 := h.1
      unfold Hook.fails at h1
      simp only [Bool.or_eq_false_iff] at h1
      unfold Hook.flow
      simp only [h1.1, Bool.false_eq_true, if_false]
      cases hres : hk.res with
      | ok => rfl
      | raisesResp o => rw [hres] at h1; simp at h1
      | raises => rw [hres] at h1; simp at h1
    rw [hf]
    exact ih (by simpa using h.2)

/-- with hooks that do not fail, what leaves `_handle` is what routing / the handler produced -/
theorem handleFlow_quiet (app : Wsgi.App) (r : Wsgi.Req)
    (hb : app.before.all (fun h => !h.fails) = true) (ha : app.after.all (fun h => !h.fails) = true) :
    handleFlow app r = r.route.flow := by
  unfold handleFlow
  have h1 : firstFlow (enumFrom 0 app.before) = none :=
    firstFlow_quiet _ ((enumFrom_all (fun h : Hook => !h.fails) app.before 0).trans hb)
  have h2 : firstFlow (enumFrom 0 app.after).reverse = none := by
    apply firstFlow_quiet
    rw [List.all_reverse]
    exact (enumFrom_all (fun h : Hook => !h.fails) app.after 0).trans ha
  simp only [h1, h2]

/-! ### a framework error object through `_cast` -/

def _root_.Ombott.Wsgi.CastRes.fwCL? : CastRes → Option Nat
  | .body _ _ cl => cl
  | _ => none

/-- the two return points of `_cast` for a text (`''` / encoded bytes), said once -/
def finishText (s : Slots) (x : Str) : Slots × CastRes :=
  let n := if x.isEmpty then 0 else (utf8 x).length
  let hi := s.resp.headers.setdefault "Content-Length".toList (.good (natStr n))
  (withResp s { s.resp with headers := hi.1 },
   .body (if x.isEmpty then [] else [.chunk (utf8 x)]) none (if hi.2 then some n else none))

theorem castOut_text (app : Wsgi.App) (fw : Bool) (cnt : Nat) (s : Slots) (x : Str) :
    castOut app fw cnt s (.text x) = .done (finishText s x).1 (finishText s x).2 := by
  unfold castOut finishText
  simp only
  by_cases hx : x.isEmpty = true
  · simp only [hx, if_true, finishEmpty]
  · simp only [hx, Bool.false_eq_true, if_false, finishBytes]

/-- an error object whose status has no custom handler: `apply`, the default error handler's
page (HTML or JSON) and the text return point, in exactly two iterations -/
theorem cast_error_exact (app : Wsgi.App) (fw : Bool) (s : Slots) (e : RState) (body : Out)
    (hno : errHandlerFor app e.code = none) (s1 : Slots) (x : Str)
    (hd : defaultHandler (withResp s (apply e s.resp)) e body = some (s1, .text x)) :
    Wsgi.cast app fw s (.resp true e body) = finishText s1 x := by
  have hm := maxLoops_ge
  obtain ⟨k, hk⟩ : ∃ k, Gen.wsgiCastMaxLoops + 1 = k + 2 := ⟨Gen.wsgiCastMaxLoops - 1, by omega⟩
  unfold Wsgi.cast
  rw [hk, runLoop_succ_run, step_run app fw 0 s _ (by omega)]
  have h1 : castOut app fw (0 + 1) s (.resp true e body) = .run (0 + 1) s1 (.text x) := by
    simp only [castOut, hno, hd]
  rw [h1, runLoop_succ_run, step_run app fw (0 + 1) _ _ (by omega), castOut_text, runLoop_done]

/-- what the default error handler leaves on the response object -/
theorem defaultHandler_resp (s : Slots) (e : RState) (body : Out) (s1 : Slots) (x : Out)
    (hd : defaultHandler s e body = some (s1, x)) :
    s1.resp.code = s.resp.code ∧ s1.resp.line = s.resp.line ∧ s1.resp.cookies = s.resp.cookies ∧
    (s1.resp.headers = s.resp.headers ∨
     s1.resp.headers = Hdrs.set s.resp.headers "Content-Type".toList [HVal.good "application/json".toList]) := by
  rcases defaultHandler_cases s e body s1 x hd with ⟨rfl, _⟩ | ⟨j, rfl, _⟩
  · exact ⟨rfl, rfl, rfl, Or.inl rfl⟩
  · exact ⟨rfl, rfl, rfl, Or.inr rfl⟩

theorem finishText_eq (s : Slots) (x : Str) :
    finishText s x = ((finishText s x).1,
      .body (if x.isEmpty then [] else [.chunk (utf8 x)]) none (finishText s x).2.fwCL?) := rfl

theorem finishText_resp (s : Slots) (x : Str) :
    (finishText s x).1.resp.code = s.resp.code ∧ (finishText s x).1.resp.line = s.resp.line ∧
    (finishText s x).1.resp.cookies = s.resp.cookies := ⟨rfl, rfl, rfl⟩

/-- **a framework error through the whole of `wsgi`**: when what leaves `_handle` is an error
object whose status has no custom handler and whose page the default handler produced as `x`,
the call is: the events of `_handle`, one `start_response(e.line, headerlist)`, the page as one
chunk (nothing for HEAD / a body-less status), nothing to close. -/
theorem wsgi_of_error_out (app : Wsgi.App) (s : Slots) (r : Wsgi.Req)
    (e : RState) (body : Out) (hout : (handle app s r).2.2 = .resp true e body)
    (hno : errHandlerFor app e.code = none) (s1 : Slots) (x : Str)
    (hd : defaultHandler (withResp (handle app s r).1 (apply e (handle app s r).1.resp)) e body = some (s1, .text x))
    (hl : List (Str × Str)) (hhl : headerlist (finishText s1 x).1.resp = some hl) :
    (wsgi app s r).events = (handle app s r).2.1 ++ [.startResponse e.line hl false] ∧
    (wsgi app s r).body =
      (if isBodyless e.code || r.isHead then [] else if x.isEmpty then [] else [.chunk (utf8 x)]) ∧
    (wsgi app s r).closer = none ∧
    (wsgi app s r).slots = (finishText s1 x).1 := by
  have hcast := cast_error_exact app r.fileWrapper (handle app s r).1 e body hno s1 x hd
  obtain ⟨hc1, hl1, _, _⟩ := defaultHandler_resp _ e body s1 (.text x) hd
  have hcode : (finishText s1 x).1.resp.code = e.code := by
    rw [(finishText_resp s1 x).1, hc1]; rfl
  have hline : (finishText s1 x).1.resp.line = e.line := by
    rw [(finishText_resp s1 x).2.1, hl1]; rfl
  unfold wsgi
  rcases hh : handle app s r with ⟨s0, ev1, out⟩
  rw [hh] at hout hcast
  simp only at hout hcast ⊢
  subst hout
  rw [hcast, finishText_eq]
  simp only [hhl, hcode, hline]
  cases hsup : (isBodyless e.code || r.isHead) with
  | true => exact ⟨by simp [closeEvents], by simp, rfl, trivial⟩
  | false => exact ⟨by simp, by simp, rfl, trivial⟩

theorem wsgi_of_error (app : Wsgi.App) (s : Slots) (r : Wsgi.Req) (hp : r.pathOK = true)
    (e : RState) (body : Out) (hflow : handleFlow app r = .resp (.resp true e body))
    (hno : errHandlerFor app e.code = none) (s1 : Slots) (x : Str)
    (hd : defaultHandler (withResp (handle app s r).1 (apply e (handle app s r).1.resp)) e body = some (s1, .text x))
    (hl : List (Str × Str)) (hhl : headerlist (finishText s1 x).1.resp = some hl) :
    (wsgi app s r).events = (handle app s r).2.1 ++ [.startResponse e.line hl false] ∧
    (wsgi app s r).body =
      (if isBodyless e.code || r.isHead then [] else if x.isEmpty then [] else [.chunk (utf8 x)]) ∧
    (wsgi app s r).closer = none ∧
    (wsgi app s r).slots = (finishText s1 x).1 := by
  obtain ⟨hout, _⟩ := handle_out app s r hp
  rw [hflow] at hout
  simp only [settle] at hout
  exact wsgi_of_error_out app s r e body hout hno s1 x hd hl hhl

/-! ### the `start_response` call of the normal path carries `headerlist` of the final response object -/

theorem wsgi_start_normal (app : Wsgi.App) (s : Slots) (r : Wsgi.Req) (line : Str) (hdrs : List (Str × Str))
    (hmem : Wsgi.Event.startResponse line hdrs false ∈ (wsgi app s r).events) :
    headerlist (wsgi app s r).slots.resp = some hdrs ∧ line = (wsgi app s r).slots.resp.line := by
  have hplain := handle_events_plain app s r
  have hcrit : ∀ (c : Option Nat) (pre : List Wsgi.Event), (∀ e ∈ pre, e.isStart = false) →
      Wsgi.Event.startResponse line hdrs false ∉ pre ++ closeEvents c ++ [Wsgi.Event.stderr, critStart] := by
    intro c pre hpre hm
    simp only [List.mem_append, List.mem_cons, List.not_mem_nil, or_false] at hm
    rcases hm with (h | h) | h | h
    · have := hpre _ h; simp [Wsgi.Event.isStart] at this
    · cases c <;> simp [closeEvents] at h
    · cases h
    · simp [critStart] at h
  have hcl : ∀ c : Option Nat, ∀ e ∈ closeEvents c, e.isStart = false := by
    intro c e he; cases c <;> simp [closeEvents] at he; subst he; rfl
  unfold wsgi at hmem ⊢
  rcases hh : handle app s r with ⟨s1, ev1, out⟩
  rw [hh] at hplain hmem
  simp only at hplain hmem ⊢
  rcases hc : Wsgi.cast app r.fileWrapper s1 out with ⟨s2, cr⟩
  rw [hc] at hmem
  cases cr with
  | body items closer fwCL =>
    simp only at hmem ⊢
    cases hl : headerlist s2.resp with
    | some l =>
      rw [hl] at hmem
      simp only at hmem ⊢
      simp only [List.mem_append, List.mem_cons, List.not_mem_nil, or_false] at hmem
      rcases hmem with (h | h) | h
      · have := (hplain _ h).1; simp [Wsgi.Event.isStart] at this
      · split at h
        · have := hcl _ _ h; simp [Wsgi.Event.isStart] at this
        · cases h
      · simp only [Wsgi.Event.startResponse.injEq] at h
        obtain ⟨rfl, rfl, _⟩ := h
        exact ⟨hl, rfl⟩
    | none =>
      rw [hl] at hmem
      simp only [catchAll] at hmem
      exfalso
      refine hcrit _ _ ?_ hmem
      intro e he
      rcases List.mem_append.mp he with h | h
      · exact (hplain _ h).1
      · split at h
        · exact hcl _ _ h
        · cases h
  | raised =>
    simp only [catchAll] at hmem
    exact absurd hmem (hcrit _ _ (fun e he => (hplain e he).1))
  | diverged =>
    simp only [catchAll] at hmem
    exact absurd hmem (hcrit _ _ (fun e he => (hplain e he).1))

/-- … hence it is the list `Model/Headers` computes for that object -/
theorem wsgi_start_headers_view (app : Wsgi.App) (s : Slots) (r : Wsgi.Req) (line : Str) (hdrs : List (Str × Str))
    (hmem : Wsgi.Event.startResponse line hdrs false ∈ (wsgi app s r).events) :
    hdrs = Headers.headerlist (headersView (wsgi app s r).slots.resp) :=
  wsgi_headerlist_eq _ _ (wsgi_start_normal app s r line hdrs hmem).1

end Ombott.App
